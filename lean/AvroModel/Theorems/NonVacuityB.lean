import AvroModel.Theorems.C04
import AvroModel.Theorems.C04fuel
import AvroModel.Theorems.C11full
import AvroModel.Theorems.C12full
import AvroModel.Theorems.C18full
import AvroModel.Impl.DecimalLib
/-
Non-vacuity audit, area B: C04 (deserializer totality / bounds), C11 (slice vs reader back-end),
C12 (skipping), C18 (single-object encoding).

Every `example` / `theorem` below instantiates a registered theorem on a concrete, non-trivial
input, with every hypothesis discharged (`decide +kernel` on closed terms), or records a remark
(sections "FINDING" / "REMARK").  Function parameters are instantiated with the REAL model
functions (`de deExtModel …`, `ser …`), the states are the ones `Driver/Main.lean` builds
(`{ rest := bs }` / `{ rest := bs, isSlice := false, lastChunk, sched, maxAlloc }`), the fuel is
the driver's (`driverFuel` = the real `Avro.Impl.deFuel` that `deOne` uses).

Running example: a schema built through `freezeNodes`, recursive through a union
(`record ns.Node { value: timestamp-micros, next: [null, Node], tags: array<uuid> }`), a typed
target, valid bytes, non-canonical layouts and hostile bytes (a block count of 2^62, a string
length of 2^40).

Summary of what was found (no theorem of the area is vacuous):
  * C04: all hypotheses are met by `freezeNodes` output and by the driver's fuel
    (`Avro.Impl.deFuel ≥ fuelBound` for EVERY schema / hint / limits: `fuelBound_le_deFuel`,
    `Theorems/C04fuel.lean`).  The historical formula of the driver (`deFuelBase`) did not
    dominate `fuelBound` (`driver_fuel_base_insufficient`: with it the model ran out of fuel on a
    valid input for a 760-field record with `max_seq_size = 0`); `driver_fuel_sufficient` is the
    same instance at the driver's present fuel: `Ok`.
  * C11: `Sim` holds between the driver's initial states (`driver_sim`); `halloc` asks the whole
    remaining input to fit `max_alloc` (sufficient, not necessary); the container theorem starts
    from an empty buffer (`fillBuf_buffered_eq_scheduled` explains why that is harmless); it uses
    the real `de` and does not assume `DatumOk`.
  * C12: instances on canonical and non-canonical layouts, incl. the unit-variant theorem (which
    had none); the struct-subset theorems only cover listed fields of hint `.any`.
  * C18: `C18_write_read_slice` was `C18_accepts_slice` under another name (it did not mention
    the writer) and has been REPLACED by `C18_write_read` (Theorems/C18full.lean: `toSingleObject`
    with the real `ser`, then `fromSingleObject` with the real `de`), instantiated here with every
    hypothesis discharged (`cyc_write_read`).
-/
namespace Avro.Theorems.NVB
open Avro Avro.Impl Avro.Theorems

/-! ## 0. Tools: decidable comparison of deserializer outcomes -/

deriving instance DecidableEq for RState
deriving instance DecidableEq for Except

mutual
def oeq : Out → Out → Bool
  | .unit, .unit => true
  | .bool a, .bool b => a == b
  | .i32 a, .i32 b => a == b
  | .i64 a, .i64 b => a == b
  | .i128 a, .i128 b => a == b
  | .u32 a, .u32 b => a == b
  | .u64 a, .u64 b => a == b
  | .u128 a, .u128 b => a == b
  | .f32 a, .f32 b => a == b
  | .f64 a, .f64 b => a == b
  | .str a p, .str b q => a == b && p == q
  | .bytes a p, .bytes b q => a == b && p == q
  | .none, .none => true
  | .some a, .some b => oeq a b
  | .seq a, .seq b => oeqL a b
  | .map a, .map b => oeqP a b
  | .variant a c, .variant b d => oeq a b && oeq c d
  | _, _ => false
def oeqL : List Out → List Out → Bool
  | [], [] => true
  | a :: l, b :: m => oeq a b && oeqL l m
  | _, _ => false
def oeqP : List (Out × Out) → List (Out × Out) → Bool
  | [], [] => true
  | (a, c) :: l, (b, d) :: m => oeq a b && oeq c d && oeqP l m
  | _, _ => false
end

mutual
theorem oeq_sound : ∀ (a b : Out), oeq a b = true → a = b
  | .unit, b, h => by cases b <;> simp_all [oeq]
  | .bool _, b, h => by cases b <;> simp_all [oeq]
  | .i32 _, b, h => by cases b <;> simp_all [oeq]
  | .i64 _, b, h => by cases b <;> simp_all [oeq]
  | .i128 _, b, h => by cases b <;> simp_all [oeq]
  | .u32 _, b, h => by cases b <;> simp_all [oeq]
  | .u64 _, b, h => by cases b <;> simp_all [oeq]
  | .u128 _, b, h => by cases b <;> simp_all [oeq]
  | .f32 _, b, h => by cases b <;> simp_all [oeq]
  | .f64 _, b, h => by cases b <;> simp_all [oeq]
  | .str _ _, b, h => by cases b <;> simp_all [oeq]
  | .bytes _ _, b, h => by cases b <;> simp_all [oeq]
  | .none, b, h => by cases b <;> simp_all [oeq]
  | .some a, b, h => by
    cases b <;> simp only [oeq, Bool.false_eq_true] at h
    rw [oeq_sound a _ h]
  | .seq a, b, h => by
    cases b <;> simp only [oeq, Bool.false_eq_true] at h
    rw [oeqL_sound a _ h]
  | .map a, b, h => by
    cases b <;> simp only [oeq, Bool.false_eq_true] at h
    rw [oeqP_sound a _ h]
  | .variant a c, b, h => by
    cases b <;> simp only [oeq, Bool.false_eq_true, Bool.and_eq_true] at h
    rw [oeq_sound a _ h.1, oeq_sound c _ h.2]
theorem oeqL_sound : ∀ (a b : List Out), oeqL a b = true → a = b
  | [], b, h => by cases b <;> simp_all [oeqL]
  | a :: l, b, h => by
    cases b <;> simp only [oeqL, Bool.false_eq_true, Bool.and_eq_true] at h
    rw [oeq_sound a _ h.1, oeqL_sound l _ h.2]
theorem oeqP_sound : ∀ (a b : List (Out × Out)), oeqP a b = true → a = b
  | [], b, h => by cases b <;> simp_all [oeqP]
  | (a, c) :: l, b, h => by
    match b, h with
    | (b, d) :: m, h =>
      simp only [oeqP, Bool.and_eq_true] at h
      rw [oeq_sound a _ h.1.1, oeq_sound c _ h.1.2, oeqP_sound l _ h.2]
end

/-- Boolean comparison of results, given a sound Boolean equality on `α`. -/
def exEqbG {α} (eqb : α → α → Bool) : Except DeErr α → Except DeErr α → Bool
  | .ok a, .ok b => eqb a b
  | .error e, .error e' => e == e'
  | _, _ => false

theorem exEqG_of {α} {eqb : α → α → Bool} (hs : ∀ a b, eqb a b = true → a = b)
    {x y : Except DeErr α} (h : exEqbG eqb x y = true) : x = y := by
  cases x <;> cases y <;> simp_all [exEqbG]
  exact hs _ _ h

/-- … of outcomes (result and final state) of a `DeM α` run -/
def resEqbG {α} (eqb : α → α → Bool) (x y : Except DeErr α × RState) : Bool :=
  exEqbG eqb x.1 y.1 && decide (x.2 = y.2)

theorem resEqG_of {α} {eqb : α → α → Bool} (hs : ∀ a b, eqb a b = true → a = b)
    {x y : Except DeErr α × RState} (h : resEqbG eqb x y = true) : x = y := by
  obtain ⟨x1, x2⟩ := x
  obtain ⟨y1, y2⟩ := y
  simp only [resEqbG, Bool.and_eq_true, decide_eq_true_eq] at h
  obtain ⟨h1, rfl⟩ := h
  rw [exEqG_of hs h1]

/-- the result alone -/
theorem fstEq_of {x y : Except DeErr Out} (h : exEqbG oeq x y = true) : x = y := exEqG_of oeq_sound h
theorem fstEqL_of {x y : Except DeErr (List Out)} (h : exEqbG oeqL x y = true) : x = y :=
  exEqG_of oeqL_sound h
theorem fstEqP_of {x y : Except DeErr (List (Out × Out))} (h : exEqbG oeqP x y = true) : x = y :=
  exEqG_of oeqP_sound h

/-- `x = y` for outcomes of `DeM Out`, from a kernel-evaluated Boolean check -/
theorem resEq_of {x y : Except DeErr Out × RState} (h : resEqbG oeq x y = true) : x = y :=
  resEqG_of oeq_sound h
theorem resEqL_of {x y : Except DeErr (List Out) × RState} (h : resEqbG oeqL x y = true) : x = y :=
  resEqG_of oeqL_sound h
theorem resEqP_of {x y : Except DeErr (List (Out × Out)) × RState}
    (h : resEqbG oeqP x y = true) : x = y :=
  resEqG_of oeqP_sound h

/-- the fuel `Driver/Main.lean` (`deOne`, `runSingle`, `runOcfRead`) gives the datum deserializer:
    the REAL definition `Avro.Impl.deFuel` (`Lemmas/DriverFuel.lean`); the hint (last, default
    `.any`) is the hint of the call of `de` -/
abbrev driverFuel (cfg : DeConfig) (S : Schema) (depth len : Nat) (hint : Hint := .any) : Nat :=
  deFuel cfg S hint depth len

/-! ## 1. The running example: a cyclic schema built through `freezeNodes` -/

def nmNode : Name := { fq := "ns.Node", short := "Node", ns := some "ns" }

/-- `0: record ns.Node { value: long (timestamp-micros), next: [null, Node], tags: array<uuid> }`:
    recursive through the union at key 1. -/
def cycSM : SchemaMut := #[
  { type := .record nmNode [("value", 5), ("next", 1), ("tags", 3)], logical := none },
  { type := .union [2, 0], logical := none },
  { type := .null, logical := none },
  { type := .array 4, logical := none },
  { type := .string, logical := some .uuid },
  { type := .long, logical := some .timestampMicros }]

def cycS : Schema := freezeNodes cycSM
def cycRoot : Node := .record nmNode [("value", 5), ("next", 1), ("tags", 3)]

theorem cycS_eq : cycS = #[cycRoot, .union [2, 0], .null, .array 4, .uuid, .timestampMicros] := by
  decide +kernel
/-- the hypothesis `S.keysInBounds` of C04 / C12 on the output of `freezeNodes` -/
theorem cycS_keys : cycS.keysInBounds = true := by decide +kernel
theorem cycRoot_get : cycS[0]? = some cycRoot := by decide +kernel

/-- a typed target: `struct { value: i64, next: Option<struct { value }>, tags: Vec<String> }` -/
def cycHint : Hint :=
  .struct [("value", .i64), ("next", .option (.struct [("value", .any)])), ("tags", .seq .str)]

/-- `{value: 1, next: {value: 2, next: null, tags: []}, tags: ["a"]}` -/
def cycBytes : Bytes := [0x02, 0x02, 0x04, 0x00, 0x00, 0x02, 0x02, 0x61, 0x00]

/-- hostile: `value 0`, `next` → record, `value 0`, `next null`, `tags`: a block of 2^62 items -/
def hostile : Bytes :=
  [0x00, 0x02, 0x00, 0x00, 0xfe, 0xff, 0xff, 0xff, 0xff, 0xff, 0xff, 0xff, 0x7f, 0x41]

/-- hostile: `value 0`, `next null`, `tags`: one item, a string announcing 2^40 bytes -/
def hostileLen : Bytes := [0x00, 0x00, 0x02, 0x80, 0x80, 0x80, 0x80, 0x80, 0x40, 0x61, 0x62]

/-! ## 2. C04 -/

/-- the driver's fuel dominates `fuelBound`, whatever the target and the input length
    (`fuelBound_le_deFuel`; with the historical formula this needed the default limits and a bound
    on the size of the target) -/
theorem cyc_fuel (h : Hint) (len : Nat) :
    fuelBound {} cycS h 64 ≤ driverFuel {} cycS 64 len h :=
  fuelBound_le_deFuel {} cycS h 64 len

theorem cycHint_size : cycHint.size ≤ 1000 := by decide +kernel

/-- **C04_no_panic_root / C04_ok_or_err**: cyclic frozen schema, typed target, default limits, the
    driver's fuel, EVERY state (slice or reader, any schedule, any `Take`). -/
example (s : RState) :
    (de deExtModel {} cycS (driverFuel {} cycS 64 s.rest.length cycHint) cycRoot 64 false cycHint s).1
      ≠ .error .panic :=
  C04_no_panic_root deExtModel {} cycS cycS_keys _ 0 cycRoot cycRoot_get 64 false cycHint
    (cyc_fuel _ _) s

example (s : RState) :
    (∃ o, (de deExtModel {} cycS (driverFuel {} cycS 64 s.rest.length .ignored) cycRoot 64 false .ignored s).1 = .ok o) ∨
    (de deExtModel {} cycS (driverFuel {} cycS 64 s.rest.length .ignored) cycRoot 64 false .ignored s).1 = .error .custom ∨
    (de deExtModel {} cycS (driverFuel {} cycS 64 s.rest.length .ignored) cycRoot 64 false .ignored s).1 = .error .io :=
  C04_ok_or_err deExtModel {} cycS cycS_keys _ 0 cycRoot cycRoot_get 64 false .ignored
    (cyc_fuel _ _) s

/-- what actually happens on the hostile inputs (slice; reader fed one byte at a time, cap 1000) -/
example :
    de deExtModel {} cycS (driverFuel {} cycS 64 hostile.length cycHint) cycRoot 64 false cycHint
      { rest := hostile } = (.error .custom, { rest := [0x41] }) :=
  resEq_of (by decide +kernel)

example :
    (de deExtModel {} cycS (driverFuel {} cycS 64 hostileLen.length cycHint) cycRoot 64 false cycHint
      { rest := hostileLen, isSlice := false, lastChunk := 1, sched := [], maxAlloc := 1000 }).1
      = .error .custom ∧
    (de deExtModel {} cycS (driverFuel {} cycS 64 hostileLen.length cycHint) cycRoot 64 false cycHint
      { rest := hostileLen }).1 = .error .custom := by
  constructor
  · exact fstEq_of (by decide +kernel)
  · exact fstEq_of (by decide +kernel)

/-- **C04_fuel_independent_root / C04_fuel_sufficient** with the DEFAULT `DeConfig`
    (`maxSeqSize = 10^9`): the hypothesis is only `fuelBound ≤ fuel`, met by the driver's fuel. -/
example (len : Nat) :
    de deExtModel {} cycS (driverFuel {} cycS 64 len cycHint) cycRoot 64 false cycHint
      = de deExtModel {} cycS (fuelBound {} cycS cycHint 64) cycRoot 64 false cycHint :=
  C04_fuel_independent_root deExtModel {} cycS _ 0 cycRoot cycRoot_get 64 false cycHint
    (cyc_fuel _ len)

example (len : Nat) :
    de deExtModel {} cycS (driverFuel {} cycS 64 len cycHint) cycRoot 64 false cycHint
      = de deExtModel {} cycS (driverFuel {} cycS 64 len cycHint + 1) cycRoot 64 false cycHint :=
  C04_fuel_sufficient deExtModel {} cycS _ cycRoot 64 false cycHint
    (nodeFields_le cycRoot_get) (cyc_fuel _ len)

/-- **C04_rest_suffix** on the hostile input, reader back-end -/
example : ∃ consumed, hostile = consumed ++
    (de deExtModel {} cycS 1000 cycRoot 64 false cycHint
      { rest := hostile, isSlice := false, lastChunk := 3, sched := [1, 2] }).2.rest :=
  C04_rest_suffix deExtModel {} cycS 1000 cycRoot 64 false cycHint
    { rest := hostile, isSlice := false, lastChunk := 3, sched := [1, 2] }

/-! ### The sequence limit (`max_seq_size = 3`) -/

def cfg3 : DeConfig := { maxSeqSize := 3 }

/-- `["a", "b"]` in a first block, `["c"]` in a second one (negative count -1, byte size 2) -/
def threeStrings : Bytes := [0x04, 0x02, 0x61, 0x02, 0x62, 0x01, 0x04, 0x02, 0x63, 0x00, 0x2a]

theorem threeStrings_loop :
    deSeqLoop deExtModel cfg3 cycS 40 .string 5 false .any none {} [] { rest := threeStrings }
      = (.ok [.str "a" true, .str "b" true, .str "c" true], { rest := [0x2a] }) :=
  resEqL_of (by decide +kernel)

/-- **C04_seq_items**: exactly `max_seq_size` items in two blocks are delivered -/
example : [Out.str "a" true, .str "b" true, .str "c" true].length ≤ cfg3.maxSeqSize :=
  C04_seq_items deExtModel cfg3 cycS 40 .string 5 false .any none { rest := threeStrings } _
    (congrArg Prod.fst threeStrings_loop)

/-- **C04_seq_limit_reject**: two items read, the next block announces two more (negative count
    -2 with a byte size): rejected with the custom error before any item of it is read. -/
example :
    hasMore cfg3 false { current := 0, nRead := 2 } { rest := [0x03, 0x08, 0x02, 0x63, 0x02, 0x64, 0x00] }
      = (.error .custom, { rest := [0x02, 0x63, 0x02, 0x64, 0x00] }) :=
  C04_seq_limit_reject cfg3 false { current := 0, nRead := 2 }
    { rest := [0x03, 0x08, 0x02, 0x63, 0x02, 0x64, 0x00] } { rest := [0x02, 0x63, 0x02, 0x64, 0x00] }
    2 rfl (by decide +kernel) (by decide)

/-- … and the whole array of four is an error -/
example :
    (deSeqLoop deExtModel cfg3 cycS 40 .string 5 false .any none {} []
      { rest := [0x04, 0x02, 0x61, 0x02, 0x62, 0x03, 0x08, 0x02, 0x63, 0x02, 0x64, 0x00] }).1
      = .error .custom :=
  fstEqL_of (by decide +kernel)

/-- **C04_map_entries**: `{"k": ["a"], "l": []}` as `map<array<uuid>>` (item node 3 of `cycS`) -/
theorem twoEntries_loop :
    deMapLoop deExtModel cfg3 cycS 40 (.array 4) 5 false .any {} []
      { rest := [0x04, 0x02, 0x6b, 0x02, 0x02, 0x61, 0x00, 0x02, 0x6c, 0x00, 0x00] }
      = (.ok [(.str "k" true, .seq [.str "a" true]), (.str "l" true, .seq [])], { rest := [] }) :=
  resEqP_of (by decide +kernel)

example : [(Out.str "k" true, Out.seq [.str "a" true]), (.str "l" true, .seq [])].length
    ≤ cfg3.maxSeqSize :=
  C04_map_entries deExtModel cfg3 cycS 40 (.array 4) 5 false .any
    { rest := [0x04, 0x02, 0x6b, 0x02, 0x02, 0x61, 0x00, 0x02, 0x6c, 0x00, 0x00] } _
    (congrArg Prod.fst twoEntries_loop)

/-! ### The depth budget -/

/-- the value of `cycBytes` read by a self-describing target -/
def cycOut : Out :=
  .map [(.str "value" false, .i64 1),
        (.str "next" false, .map [(.str "value" false, .i64 2), (.str "next" false, .unit),
                                  (.str "tags" false, .seq [])]),
        (.str "tags" false, .seq [.str "a" true])]

/-- record → union → record → array: a budget of 4 is what this value needs … -/
theorem cyc_read4 :
    de deExtModel {} cycS 100 cycRoot 4 false .any { rest := cycBytes } = (.ok cycOut, { rest := [] }) :=
  resEq_of (by decide +kernel)

/-- **C04_depth_nesting** on it: nesting 3 ≤ 4 + 1 -/
example : cycOut.nesting ≤ 4 + 1 :=
  C04_depth_nesting deExtModel {} cycS 100 cycRoot 4 false .any { rest := cycBytes } { rest := [] }
    cycOut cyc_read4
example : cycOut.nesting = 3 := by decide +kernel

/-- … and with a budget of 3 the same bytes are an error (`C04_depth_zero` at the inner array) -/
example : (de deExtModel {} cycS 100 cycRoot 3 false .any { rest := cycBytes }).1 = .error .custom :=
  fstEq_of (by decide +kernel)

example (s : RState) (o : Out) : (de deExtModel {} cycS 100 cycRoot 0 false cycHint s).1 ≠ .ok o :=
  C04_depth_zero deExtModel {} cycS 100 cycRoot false cycHint s o rfl

/-! ### Memory -/

/-- the reader state the driver builds (`pBackend`): one byte per refill, cap 1000 bytes; after
    `value`, `next`, the block count and the string length have been consumed -/
def capState : RState :=
  { rest := [0x61, 0x62], isSlice := false, lastChunk := 1, sched := [], maxAlloc := 1000 }

/-- **C04_alloc_cap_reject**: `read_slice(2^40)` with one byte buffered and a cap of 1000 -/
example : readSlice (2 ^ 40) capState = (.error .custom, { capState with avail := 1 }) :=
  C04_alloc_cap_reject (2 ^ 40) capState { capState with avail := 1 } [0x61] rfl
    (by decide +kernel) (by decide) (by decide)

/-- **C04_scratch_bounded** on the hostile length, reader back-end -/
example :
    (de deExtModel {} cycS 1000 cycRoot 64 false cycHint
      { rest := hostileLen, isSlice := false, lastChunk := 1, sched := [], maxAlloc := 1000 }).2.maxAlloc = 1000 ∧
    (de deExtModel {} cycS 1000 cycRoot 64 false cycHint
      { rest := hostileLen, isSlice := false, lastChunk := 1, sched := [], maxAlloc := 1000 }).2.scratch
      ≤ max 0 1000 :=
  C04_scratch_bounded deExtModel {} cycS 1000 cycRoot 64 false cycHint
    { rest := hostileLen, isSlice := false, lastChunk := 1, sched := [], maxAlloc := 1000 }

/-- a legitimate allocation: a 5-byte uuid string delivered byte by byte raises `scratch` to 5 -/
example :
    (de deExtModel {} cycS 1000 .uuid 64 false .any
      { rest := [0x0a, 0x68, 0x65, 0x6c, 0x6c, 0x6f], isSlice := false, lastChunk := 1, maxAlloc := 1000 })
    = (.ok (.str "hello" false),
       { rest := [], isSlice := false, lastChunk := 1, maxAlloc := 1000, scratch := 5 }) :=
  resEq_of (by decide +kernel)

/-! ### FINDING (driver, not theorem; REPAIRED): the driver's fuel vs `fuelBound`

`fuelBound cfg S h depth = depth * (maxSeqSize + maxFields S + 4) + 2 * h.size + 2`; the driver
used to give `deFuelBase cfg S depth len
  = (depth + 4) * (maxSeqSize + 8 * S.size + 64) + 16 * len + 4096`.  `maxFields S` (longest
field list) and `h.size` are not bounded by `S.size`, so that formula does NOT dominate the
bound for every schema / hint.  With the DEFAULT limits the slack is `4 * 10^9`, enough for every
schema and target of realistic size (`driver_fuel_default`); with a small `max_seq_size` (the `de`
command passes it from the case) a record with a few hundred fields was enough to make the model
run out of fuel (`driver_fuel_base_insufficient`) — the run was then reported as `panic`,
although the bound of C04 gives `Ok`.  The driver now passes
`deFuel cfg S h depth len = max (deFuelBase cfg S depth len) (fuelBound cfg S h depth)`
(`Lemmas/DriverFuel.lean`), which dominates the bound unconditionally (`driver_fuel_ge`), and the
same instance is answered `Ok` (`driver_fuel_sufficient`). -/

/-- unconditional: the driver's fuel is inside the fuel range of every C04 theorem -/
theorem driver_fuel_ge (cfg : DeConfig) (S : Schema) (h : Hint) (depth len : Nat) :
    fuelBound cfg S h depth ≤ driverFuel cfg S depth len h :=
  fuelBound_le_deFuel cfg S h depth len

/-- when the historical component alone is enough: default limits -/
theorem driver_fuel_default (S : Schema) (h : Hint) (len : Nat)
    (hsmall : 64 * maxFields S + 2 * h.size ≤ 4000000000) :
    fuelBound {} S h 64 ≤ deFuelBase {} S 64 len := by
  simp only [fuelBound, levelCost, deFuelBase]
  show 64 * (1000000000 + maxFields S + 4) + 2 * h.size + 2
    ≤ (64 + 4) * (1000000000 + 8 * S.size + 64) + 16 * len + 4096
  omega

/-- for ANY limits and depth: the historical component dominates the bound as soon as no record
    is wider than `8 * S.size + 60` fields and the target has at most `2047 + 2 * max_seq_size`
    nodes; then `deFuel` IS the historical formula -/
theorem driver_fuel_general (cfg : DeConfig) (S : Schema) (h : Hint) (depth len : Nat)
    (hw : maxFields S ≤ 8 * S.size + 60) (hh : 2 * h.size ≤ 4094 + 4 * cfg.maxSeqSize) :
    fuelBound cfg S h depth ≤ deFuelBase cfg S depth len ∧
    driverFuel cfg S depth len h = deFuelBase cfg S depth len := by
  have key : fuelBound cfg S h depth ≤ deFuelBase cfg S depth len := by
    simp only [fuelBound, levelCost, deFuelBase]
    have h1 : depth * (cfg.maxSeqSize + maxFields S + 4) ≤ depth * (cfg.maxSeqSize + 8 * S.size + 64) :=
      Nat.mul_le_mul_left _ (by omega)
    rw [Nat.add_mul]
    omega
  exact ⟨key, Nat.max_eq_left key⟩

def nmWide : Name := { fq := "W", short := "W", ns := none }
/-- `0: record W { f × 760: null, next: [null, W] }`, `1: [null, W]`, `2: null` -/
def wideRoot : Node := .record nmWide (List.replicate 760 ("f", 2) ++ [("next", 1)])
def wideS : Schema := #[wideRoot, .union [2, 0], .null]
def cfg0 : DeConfig := { maxSeqSize := 0 }
/-- 7 nested records, the innermost with `next = null` -/
def wideBytes : Bytes := List.replicate 7 0x02 ++ [0x00]

theorem wideS_keys : wideS.keysInBounds = true := by decide +kernel

/-- the historical formula on this instance: below the bound, and the model runs out of fuel -/
theorem driver_fuel_base_insufficient :
    deFuelBase cfg0 wideS 16 wideBytes.length < fuelBound cfg0 wideS .ignored 16 ∧
    (de deExtModel cfg0 wideS (deFuelBase cfg0 wideS 16 wideBytes.length) wideRoot 16 false .ignored
      { rest := wideBytes }).1 = .error .panic :=
  ⟨by decide +kernel, fstEq_of (by decide +kernel)⟩

/-- the positive counterpart (formerly `driver_fuel_insufficient`): on the same instance the
    driver's fuel is `≥ fuelBound` (here: equal to it) and `de` at that fuel returns `Ok` -/
theorem driver_fuel_sufficient :
    fuelBound cfg0 wideS .ignored 16 ≤ driverFuel cfg0 wideS 16 wideBytes.length .ignored ∧
    driverFuel cfg0 wideS 16 wideBytes.length .ignored = 12244 ∧
    de deExtModel cfg0 wideS (driverFuel cfg0 wideS 16 wideBytes.length .ignored) wideRoot 16 false
      .ignored { rest := wideBytes } = (.ok .unit, { rest := [] }) :=
  ⟨driver_fuel_ge _ _ _ _ _, by decide +kernel, resEq_of (by decide +kernel)⟩

/-- the same through the general theorem: no evaluation of `de` at the driver's fuel needed -/
example : de deExtModel cfg0 wideS (driverFuel cfg0 wideS 16 wideBytes.length .ignored) wideRoot 16
    false .ignored = de deExtModel cfg0 wideS (fuelBound cfg0 wideS .ignored 16) wideRoot 16 false
    .ignored :=
  C04_deFuel_eq_fuelBound deExtModel cfg0 wideS 0 wideRoot rfl 16 false .ignored _

example (s : RState) :
    (de deExtModel cfg0 wideS (driverFuel cfg0 wideS 16 s.rest.length .ignored) wideRoot 16 false
      .ignored s).1 ≠ .error .panic :=
  C04_no_panic_at_deFuel deExtModel cfg0 wideS wideS_keys 0 wideRoot rfl 16 false .ignored _ s

/-! ## 3. C11 -/

/-- the two initial states `Driver/Main.lean` builds for the same input (`pBackend`) -/
def slState (bs : Bytes) : RState := { ({ rest := bs } : RState) with isSlice := true }
def rdState (bs : Bytes) (last : Nat) (sched : List Nat) (maxAlloc : Nat) : RState :=
  { ({ rest := bs } : RState) with isSlice := false, lastChunk := last, sched := sched, maxAlloc := maxAlloc }

/-- the relation `Sim` assumed by every C11 theorem holds between the driver's INITIAL states,
    for every input, every schedule and every cap (`Sim.init` is the same fact) -/
theorem driver_sim (bs : Bytes) (last : Nat) (sched : List Nat) (M : Nat) :
    Sim (rdState bs last sched M) (slState bs) := ⟨rfl, rfl, rfl, Nat.zero_le _, rfl⟩

/-- **C11_de_cases**: cyclic schema, typed target, refills of 1, 2, then 3 bytes, default cap -/
example :
    (∃ a b r' sl',
        de deExtModel {} cycS 100 cycRoot 64 false cycHint (rdState cycBytes 3 [1, 2] 536870912) = (.ok a, r') ∧
        de deExtModel {} cycS 100 cycRoot 64 false cycHint (slState cycBytes) = (.ok b, sl') ∧
        unborrow a = unborrow b ∧ Sim r' sl' ∧
        (rdState cycBytes 3 [1, 2] 536870912).rest.length - r'.rest.length
          = (slState cycBytes).rest.length - sl'.rest.length) ∨
    (∃ e e' r' sl',
        de deExtModel {} cycS 100 cycRoot 64 false cycHint (rdState cycBytes 3 [1, 2] 536870912) = (.error e, r') ∧
        de deExtModel {} cycS 100 cycRoot 64 false cycHint (slState cycBytes) = (.error e', sl')) :=
  C11_de_cases deExtModel {} cycS 100 cycRoot 64 false cycHint _ _ (driver_sim _ _ _ _) rfl
    (by decide)

/-- the two runs: same value up to the `borrowed` flag of the string, all input consumed -/
def cycTyped (borrowed : Bool) : Out :=
  .map [(.str "value" false, .i64 1),
        (.str "next" false, .some (.map [(.str "value" false, .i64 2), (.str "next" false, .unit),
                                         (.str "tags" false, .unit)])),
        (.str "tags" false, .seq [.str "a" borrowed])]

example :
    de deExtModel {} cycS 100 cycRoot 64 false cycHint (slState cycBytes)
      = (.ok (cycTyped true), slState []) ∧
    de deExtModel {} cycS 100 cycRoot 64 false cycHint (rdState cycBytes 3 [1, 2] 536870912)
      = (.ok (cycTyped false), { rdState [] 3 [] 536870912 with avail := 0 }) :=
  ⟨resEq_of (by decide +kernel), resEq_of (by decide +kernel)⟩

/-- **C11_de** on the hostile input, one byte per refill: here both fail (`OutEq` is `True`) -/
example :
    OutEq (fun a b => unborrow a = unborrow b)
      (de deExtModel {} cycS 100 cycRoot 64 false .any (rdState hostile 1 [] 536870912))
      (de deExtModel {} cycS 100 cycRoot 64 false .any (slState hostile)) :=
  C11_de deExtModel {} cycS 100 cycRoot 64 false .any _ _ (driver_sim _ _ _ _) rfl (by decide)

/-- REMARK.  `halloc : r.rest.length ≤ r.maxAlloc` (the WHOLE remaining input fits the cap) is
    sufficient, not necessary: with a cap of 4 bytes and 9 bytes of input `C11_de` does not apply,
    yet the back-ends agree, because no single length-delimited field exceeds the cap. -/
example :
    ¬ (rdState cycBytes 1 [] 4).rest.length ≤ (rdState cycBytes 1 [] 4).maxAlloc ∧
    (de deExtModel {} cycS 100 cycRoot 64 false cycHint (rdState cycBytes 1 [] 4)).1
      = .ok (cycTyped false) :=
  ⟨by decide, fstEq_of (by decide +kernel)⟩

/-- **C11_deAny** (the `deserialize_any` entry), nested array node -/
example :
    OutEq (fun a b => unborrow a = unborrow b)
      (deAny deExtModel cfg3 cycS 100 (.array 4) 64 .any (rdState threeStrings 1 [] 64))
      (deAny deExtModel cfg3 cycS 100 (.array 4) 64 .any (slState threeStrings)) :=
  C11_deAny deExtModel cfg3 cycS 100 (.array 4) 64 .any _ _ (driver_sim _ _ _ _) rfl (by decide)

/-- **C11_readSlice**: 4 bytes wanted, refills of 1 then 2 bytes (so `read_exact` into the
    scratch buffer), `n ≤ max_alloc`.  (The states are `irreducible` only to keep the elaborator
    from evaluating `readSlice` while it type-checks the application; the kernel is not affected.) -/
@[irreducible] def rs4 : RState := rdState [1, 2, 3, 4, 5, 6] 2 [1] 4
@[irreducible] def ss4 : RState := slState [1, 2, 3, 4, 5, 6]
theorem sim4 : Sim rs4 ss4 := by unfold rs4 ss4; exact driver_sim _ _ _ _
theorem lim4 : rs4.limit = none := by unfold rs4; rfl
theorem alloc4 : 4 ≤ rs4.maxAlloc := by unfold rs4; decide

example :
    OutEq (fun (a b : Bytes × Bool) => a.1 = b.1 ∧ a.2 = false ∧ b.2 = true)
      (readSlice 4 rs4) (readSlice 4 ss4) :=
  C11_readSlice 4 rs4 ss4 sim4 lim4 alloc4

example :
    readSlice 4 rs4
      = (.ok ([1, 2, 3, 4], false), { rdState [5, 6] 2 [] 4 with avail := 1, scratch := 4 }) ∧
    readSlice 4 ss4 = (.ok ([1, 2, 3, 4], true), slState [5, 6]) := by
  constructor <;> decide +kernel

/-- the hypothesis `n ≤ r.maxAlloc` of `C11_readSlice` is necessary: with a cap of 3 the reader
    refuses what the slice delivers -/
example :
    (readSlice 4 (rdState [1, 2, 3, 4, 5, 6] 2 [1] 3)).1 = .error .custom ∧
    (readSlice 4 (slState [1, 2, 3, 4, 5, 6])).1 = .ok ([1, 2, 3, 4], true) := by
  constructor <;> decide +kernel

/-- **C11_readVarint**: a 3-byte varint met one byte at a time (the byte-wise fallback) -/
example :
    OutEq (· = ·) (readVarint .i64 (rdState [0x80, 0x80, 0x01, 0x05] 1 [] 16))
      (readVarint .i64 (slState [0x80, 0x80, 0x01, 0x05])) :=
  C11_readVarint .i64 (rdState [0x80, 0x80, 0x01, 0x05] 1 [] 16) (slState [0x80, 0x80, 0x01, 0x05])
    (driver_sim _ _ _ _) rfl

example :
    readVarint .i64 (rdState [0x80, 0x80, 0x01, 0x05] 1 [] 16) = (.ok 8192, rdState [0x05] 1 [] 16) ∧
    readVarint .i64 (slState [0x80, 0x80, 0x01, 0x05]) = (.ok 8192, slState [0x05]) := by
  constructor <;> decide +kernel

/-- **C11_varintProcessor** under a `Take` of 2 bytes (as inside a big-decimal): corresponding
    states with the same limit; the third byte is not available to either -/
def rdTake : RState := { rdState [0x80, 0x01, 0x05] 1 [] 16 with limit := some 2 }
def slTake : RState := { slState [0x80, 0x01, 0x05] with limit := some 2 }

example : OutEq (· = ·) (varintProcessor .i64 12 [] rdTake) (varintProcessor .i64 12 [] slTake) :=
  C11_varintProcessor .i64 12 [] rdTake slTake ⟨rfl, rfl, rfl, by decide, rfl⟩ (by decide)

example :
    varintProcessor .i64 12 [] rdTake = (.ok 64, { rdState [0x05] 1 [] 16 with limit := some 0 }) ∧
    varintProcessor .i64 12 [] slTake = (.ok 64, { slState [0x05] with limit := some 0 }) := by
  constructor <;> decide +kernel

/-! ### C11 at the container level -/

section Container
open Avro.Impl.Ocf Avro.Theorems.Stream

def v1 : Spec.Value :=
  .record [.long 1, .union 1 (.record [.long 2, .union 0 .null, .array []]), .array [.string "a"]]
def v2 : Spec.Value := .record [.long (-5), .union 0 .null, .array []]
def v3 : Spec.Value := .record [.long 300, .union 0 .null, .array [.string "xy", .string ""]]
/-- two blocks, three records of the cyclic schema -/
def ctrBlocks : List (List Spec.Value) := [[v1, v2], [v3]]
def sync2 : Bytes := List.replicate 16 0x5a
def nullD : Decomp := { isNull := true, decompress := fun _ => none }

/-- the file body the layout function produces: block 1 = count 2, size 12, 12 bytes, marker;
    block 2 = count 1, size 9, 9 bytes, marker -/
theorem ctrFile_eq : fileBody (encD cycS cycRoot) sync2 ctrBlocks =
    [4, 24, 2, 2, 4, 0, 0, 2, 2, 97, 0, 9, 0, 0] ++ sync2 ++
    [2, 18, 216, 4, 0, 4, 4, 120, 121, 0, 0] ++ sync2 := by decide +kernel

theorem ctrGood : ∀ v ∈ ctrBlocks.flatten, GoodVal {} cycS cycRoot 64 200 v := by
  intro v hv
  simp only [ctrBlocks, List.flatten_cons, List.flatten_nil, List.cons_append, List.nil_append,
    List.append_nil, List.mem_cons, List.not_mem_nil, or_false] at hv
  rcases hv with rfl | rfl | rfl <;>
  exact ⟨by decide +kernel, by decide +kernel, by decide +kernel, by decide +kernel,
    by decide +kernel, by decide +kernel⟩

theorem ctrBlockOk : ∀ b ∈ ctrBlocks, BlockOk (encD cycS cycRoot) b := by
  intro b hb
  simp only [ctrBlocks, List.mem_cons, List.not_mem_nil, or_false] at hb
  rcases hb with rfl | rfl <;> (unfold BlockOk; decide +kernel)

/-- **C11_container_wellformed** with the real `de … .any` (the theorem is stated for it; it does
    NOT assume `DatumOk`/`DatumOkR`), refills of 1, 7, 2, then 3 bytes, cap 4096 ≥ 56 = file length -/
example :
    let datum := de deExtModel {} cycS 200 cycRoot 64 false .any
    let file := fileBody (encD cycS cycRoot) sync2 ctrBlocks
    let viaReader := readAll nullD datum (ctrBlocks.flatten.length + 1) (openReader sync2 file [1, 7, 2] 3 4096)
    let viaSlice := readAll nullD datum (ctrBlocks.flatten.length + 1) (openSlice sync2 file)
    viaReader.1.map unborrow = viaSlice.1.map unborrow ∧ viaReader.2 = .eos ∧ viaSlice.2 = .eos :=
  C11_container_wellformed nullD rfl {} cycS cycRoot 64 200 sync2 (by decide) ctrBlocks ctrBlockOk
    ctrGood [1, 7, 2] 3 4096 (by decide +kernel)

/-! ### REMARK on the initial state of the container theorems

`C11_container_wellformed` (and `C17_yields_prefix_null_stream`) start from
`openReader sync file sched lastChunk M`, whose source has an EMPTY buffer (`avail = 0`).  The
driver (`runOcfRead`) starts `readAll` from the state `Ocf.readHeader` leaves, whose buffer may
still hold bytes (`avail > 0`).  That state is not literally an `openReader` state, and no glue
lemma is registered; the gap is harmless because the theorem quantifies over every schedule and a
reader with `a` bytes buffered behaves as a reader with an empty buffer whose next refill is `a`:
every read primitive of the reader back-end starts with `fillBuf`, and -/
theorem fillBuf_buffered_eq_scheduled (s : RState) (hs : s.isSlice = false) (h0 : 0 < s.avail)
    (hle : s.avail ≤ s.rest.length) :
    fillBuf { s with avail := 0, sched := s.avail :: s.sched } = fillBuf s := by
  have h1 : min (max s.avail 1) s.rest.length = s.avail := by omega
  have h2 : ¬ s.avail = 0 := by omega
  simp [fillBuf, hs, h1, h0]
  cases s
  simp_all

end Container

/-! ## 4. C12 -/

/-! ### Tool: decidable comparison of specification values -/

mutual
def veq : Spec.Value → Spec.Value → Bool
  | .null, .null => true
  | .bool a, .bool b => a == b
  | .int a, .int b => a == b
  | .long a, .long b => a == b
  | .float a, .float b => a == b
  | .double a, .double b => a == b
  | .bytes a, .bytes b => a == b
  | .string a, .string b => a == b
  | .array a, .array b => veqL a b
  | .map a, .map b => veqM a b
  | .union i a, .union j b => i == j && veq a b
  | .record a, .record b => veqL a b
  | .enum a, .enum b => a == b
  | .fixed a, .fixed b => a == b
  | .decimal a, .decimal b => a == b
  | .bigDecimal a s, .bigDecimal b t => a == b && s == t
  | .duration a b c, .duration d e f => a == d && b == e && c == f
  | _, _ => false
def veqL : List Spec.Value → List Spec.Value → Bool
  | [], [] => true
  | a :: l, b :: m => veq a b && veqL l m
  | _, _ => false
def veqM : List (String × Spec.Value) → List (String × Spec.Value) → Bool
  | [], [] => true
  | (k, a) :: l, (k', b) :: m => k == k' && veq a b && veqM l m
  | _, _ => false
end

mutual
theorem veq_sound : ∀ (a b : Spec.Value), veq a b = true → a = b
  | .null, b, h => by cases b <;> simp_all [veq]
  | .bool _, b, h => by cases b <;> simp_all [veq]
  | .int _, b, h => by cases b <;> simp_all [veq]
  | .long _, b, h => by cases b <;> simp_all [veq]
  | .float _, b, h => by cases b <;> simp_all [veq]
  | .double _, b, h => by cases b <;> simp_all [veq]
  | .bytes _, b, h => by cases b <;> simp_all [veq]
  | .string _, b, h => by cases b <;> simp_all [veq]
  | .enum _, b, h => by cases b <;> simp_all [veq]
  | .fixed _, b, h => by cases b <;> simp_all [veq]
  | .decimal _, b, h => by cases b <;> simp_all [veq]
  | .bigDecimal _ _, b, h => by cases b <;> simp_all [veq]
  | .duration _ _ _, b, h => by cases b <;> simp_all [veq]
  | .array a, b, h => by
    cases b <;> simp only [veq, Bool.false_eq_true] at h
    rw [veqL_sound a _ h]
  | .record a, b, h => by
    cases b <;> simp only [veq, Bool.false_eq_true] at h
    rw [veqL_sound a _ h]
  | .map a, b, h => by
    cases b <;> simp only [veq, Bool.false_eq_true] at h
    rw [veqM_sound a _ h]
  | .union i a, b, h => by
    cases b <;> simp only [veq, Bool.false_eq_true, Bool.and_eq_true, beq_iff_eq] at h
    rw [h.1, veq_sound a _ h.2]
theorem veqL_sound : ∀ (a b : List Spec.Value), veqL a b = true → a = b
  | [], b, h => by cases b <;> simp_all [veqL]
  | a :: l, b, h => by
    cases b <;> simp only [veqL, Bool.false_eq_true, Bool.and_eq_true] at h
    rw [veq_sound a _ h.1, veqL_sound l _ h.2]
theorem veqM_sound : ∀ (a b : List (String × Spec.Value)), veqM a b = true → a = b
  | [], b, h => by cases b <;> simp_all [veqM]
  | (k, a) :: l, b, h => by
    match b, h with
    | (k', b) :: m, h =>
      simp only [veqM, Bool.and_eq_true, beq_iff_eq] at h
      rw [h.1.1, veq_sound a _ h.1.2, veqM_sound l _ h.2]
end

/-- `x = some (v, rest)` for the specification decoders, from a kernel-evaluated check -/
def decEqb : Option (Spec.Value × Bytes) → Option (Spec.Value × Bytes) → Bool
  | some (v, r), some (v', r') => veq v v' && r == r'
  | none, none => true
  | _, _ => false

theorem decEq_of {x y : Option (Spec.Value × Bytes)} (h : decEqb x y = true) : x = y := by
  match x, y, h with
  | some (v, r), some (v', r'), h =>
    simp only [decEqb, Bool.and_eq_true, beq_iff_eq] at h
    rw [veq_sound v v' h.1, h.2]
  | none, none, _ => rfl

def optOutEqb : Option Out → Option Out → Bool
  | some a, some b => oeq a b
  | none, none => true
  | _, _ => false
theorem optOutEq_of {x y : Option Out} (h : optOutEqb x y = true) : x = y := by
  match x, y, h with
  | some a, some b, h => rw [oeq_sound a b h]
  | none, none, _ => rfl

/-! ### Canonical encodings (`Theorems/C12.lean` has no instance of its own) -/

theorem v1_enc : Spec.encode cycS cycRoot v1 = some cycBytes := by decide +kernel
theorem v1_obs : Spec.observe cycS cycRoot v1 = some cycOut := optOutEq_of (by decide +kernel)

/-- **C12_skip_canonical**: the record of the cyclic schema, followed by a sentinel byte -/
example : de deExtModel {} cycS 100 cycRoot 64 false .ignored { rest := cycBytes ++ [0x2a] }
    = (.ok .unit, { rest := [0x2a] }) :=
  C12_skip_canonical {} cycS cycRoot v1 cycBytes [0x2a] 64 v1_enc (by rw [v1_obs]; rfl)
    (by decide +kernel) (by decide +kernel) (by decide +kernel) 100 (by decide +kernel)
    { rest := cycBytes ++ [0x2a] } rfl rfl rfl rfl

/-- **C12_struct_subset**: a struct target that lists `tags` and `value` only (hints `.any`, the
    only ones the theorem covers): `next` is skipped, the same byte is left -/
example :
    ∃ os, cycOut = .map os ∧
      de deExtModel {} cycS 100 cycRoot 64 false .any { rest := cycBytes ++ [0x2a] } =
        (.ok (.map os), { rest := [0x2a] }) ∧
      de deExtModel {} cycS 100 cycRoot 64 false (.struct [("tags", .any), ("value", .any)])
          { rest := cycBytes ++ [0x2a] } =
        (.ok (.map (os.map (maskEntry [("tags", .any), ("value", .any)]))), { rest := [0x2a] }) :=
  C12_struct_subset {} cycS nmNode [("value", 5), ("next", 1), ("tags", 3)] v1 cycBytes [0x2a]
    cycOut 64 [("tags", .any), ("value", .any)] (by simp) v1_enc v1_obs
    (by decide +kernel) (by decide +kernel) (by decide +kernel) 100 (by decide +kernel)
    { rest := cycBytes ++ [0x2a] } rfl rfl rfl rfl

/-- what the struct target gets, evaluated: `next` replaced by `unit` -/
example :
    de deExtModel {} cycS 100 cycRoot 64 false (.struct [("tags", .any), ("value", .any)])
      { rest := cycBytes ++ [0x2a] } =
    (.ok (.map [(.str "value" false, .i64 1), (.str "next" false, .unit),
                (.str "tags" false, .seq [.str "a" true])]), { rest := [0x2a] }) :=
  resEq_of (by decide +kernel)

/-- REMARK.  `hfs : ∀ p ∈ fs, p.2 = .any` restricts `C12_struct_subset(_all_layouts)` to listed
    fields that are dynamically typed.  It cannot be dropped for the conclusion as stated: a listed
    field typed `Option<_>` receives `some …`, which is not an entry of the full read. -/
example :
    de deExtModel {} cycS 100 cycRoot 64 false (.struct [("value", .option .any)])
      { rest := cycBytes ++ [0x2a] } =
    (.ok (.map [(.str "value" false, .some (.i64 1)), (.str "next" false, .unit),
                (.str "tags" false, .unit)]), { rest := [0x2a] }) :=
  resEq_of (by decide +kernel)

/-! ### Non-canonical layouts -/

/-- `v3 = {value: 300, next: null, tags: ["xy", ""]}` laid out with a non-minimal varint for
    `value` (`D8 84 00`), `tags` in two blocks: count -1 with its exact byte size 3, then count 1
    without a size -/
def v3Layout : Bytes := [0xD8, 0x84, 0x00, 0x00, 0x01, 0x06, 0x04, 0x78, 0x79, 0x02, 0x00, 0x00]

def v3Out : Out :=
  .map [(.str "value" false, .i64 300), (.str "next" false, .unit),
        (.str "tags" false, .seq [.str "xy" true, .str "" true])]

theorem v3_dec : Spec.decode cycS 20 cycRoot (v3Layout ++ [0x2a]) = some (v3, [0x2a]) :=
  decEq_of (by decide +kernel)
theorem v3_decX : Spec.decodeX Spec.Limits.impl cycS 20 cycRoot (v3Layout ++ [0x2a]) = some (v3, [0x2a]) :=
  decEq_of (by decide +kernel)
theorem v3_obs : Spec.observe cycS cycRoot v3 = some v3Out := optOutEq_of (by decide +kernel)
/-- it is not the canonical encoding -/
example : Spec.encode cycS cycRoot v3 ≠ some v3Layout := by decide +kernel

/-- **C12_skip_all_layouts** -/
example : de deExtModel {} cycS 100 cycRoot 64 false .ignored { rest := v3Layout ++ [0x2a] }
    = (.ok .unit, { rest := [0x2a] }) :=
  C12_skip_all_layouts {} cycS cycRoot v3 _ [0x2a] 64 20 20 v3_dec (by rw [v3_obs]; rfl)
    (by rw [v3_decX]; rfl) (by decide +kernel) (by decide +kernel) 100 (by decide +kernel)
    { rest := v3Layout ++ [0x2a] } rfl rfl rfl rfl

/-- **C12_skip_exact_layouts** -/
example : de deExtModel {} cycS 100 cycRoot 64 false .ignored { rest := v3Layout ++ [0x2a] }
    = (.ok .unit, { rest := [0x2a] }) :=
  C12_skip_exact_layouts {} cycS cycRoot v3 _ [0x2a] v3Out 64 20 v3_decX v3_obs
    (by decide +kernel) (by decide +kernel) 100 (by decide +kernel)
    { rest := v3Layout ++ [0x2a] } rfl rfl rfl rfl

theorem v3_read : de deExtModel {} cycS 100 cycRoot 64 false .any { rest := v3Layout ++ [0x2a] }
    = (.ok v3Out, { rest := [0x2a] }) := resEq_of (by decide +kernel)

/-- **C12_skip_agrees_with_read**: the hypothesis is the successful full read -/
example :
    de deExtModel {} cycS 70 cycRoot 64 false .ignored { rest := v3Layout ++ [0x2a] }
      = (.ok .unit, { rest := [0x2a] }) ∧
    Spec.observe cycS cycRoot v3 = some v3Out ∧ ({ rest := [0x2a] } : RState).rest = [0x2a] :=
  C12_skip_agrees_with_read {} cycS cycRoot 64 100 { rest := v3Layout ++ [0x2a] } { rest := [0x2a] }
    v3Out rfl rfl rfl v3_read v3 [0x2a] 20 v3_decX 70 (by decide +kernel)

/-- **C12_skip_follows_read**: frozen cyclic schema, default limits, the fuel bound of C04 — and
    hence the driver's fuel -/
example : de deExtModel {} cycS (fuelBound {} cycS .ignored 64) cycRoot 64 false .ignored
      { rest := v3Layout ++ [0x2a] } = (.ok .unit, { rest := [0x2a] }) :=
  C12_skip_follows_read {} cycS cycS_keys 0 cycRoot cycRoot_get 64 100 _
    { rest := v3Layout ++ [0x2a] } { rest := [0x2a] } v3Out rfl rfl rfl v3_read
    ⟨20, by rw [v3_decX]; rfl⟩ (Nat.le_refl _)

example : de deExtModel {} cycS (driverFuel {} cycS 64 13 .ignored) cycRoot 64 false .ignored
      { rest := v3Layout ++ [0x2a] } = (.ok .unit, { rest := [0x2a] }) :=
  C12_skip_follows_read {} cycS cycS_keys 0 cycRoot cycRoot_get 64 100 _
    { rest := v3Layout ++ [0x2a] } { rest := [0x2a] } v3Out rfl rfl rfl v3_read
    ⟨20, by rw [v3_decX]; rfl⟩ (cyc_fuel _ _)

/-- **C12_struct_subset_all_layouts**: a struct that lists `value` only; `next` and the two-block
    array `tags` are skipped (the first block jumped over by its byte size) -/
example :
    ∃ os, v3Out = .map os ∧
      de deExtModel {} cycS 100 cycRoot 64 false .any { rest := v3Layout ++ [0x2a] } =
        (.ok (.map os), { rest := [0x2a] }) ∧
      de deExtModel {} cycS 100 cycRoot 64 false (.struct [("value", .any)])
          { rest := v3Layout ++ [0x2a] } =
        (.ok (.map (os.map (maskEntry [("value", .any)]))), { rest := [0x2a] }) :=
  C12_struct_subset_all_layouts {} cycS nmNode [("value", 5), ("next", 1), ("tags", 3)] v3 _ [0x2a]
    v3Out 64 20 20 [("value", .any)] (by simp) v3_dec v3_obs
    (by decide +kernel)
    (by decide +kernel) (by decide +kernel) 100 (by decide +kernel)
    { rest := v3Layout ++ [0x2a] } rfl rfl rfl rfl

example :
    de deExtModel {} cycS 100 cycRoot 64 false (.struct [("value", .any)])
      { rest := v3Layout ++ [0x2a] } =
    (.ok (.map [(.str "value" false, .i64 300), (.str "next" false, .unit),
                (.str "tags" false, .unit)]), { rest := [0x2a] }) :=
  resEq_of (by decide +kernel)

/-! ### A unit variant for a union branch (no instance in `C12layouts.lean`) -/

/-- `0: [null, array<int>]`, `1: null`, `2: array<int>`, `3: int` -/
def uvS : Schema := #[.union [1, 2], .null, .array 3, .int]
/-- branch 1 (the array), `[1, 2, 3]` in two blocks: count -2 with exact byte size 2, count 1 -/
def uvBytes : Bytes := [0x02, 0x03, 0x04, 0x02, 0x04, 0x02, 0x06, 0x00]
def uvVariants : List (String × VariantHint) := [("Null", .unit), ("Array", .unit), ("Int", .newtype .i64)]

theorem uv_dec : Spec.decode uvS 20 (.union [1, 2]) (uvBytes ++ [0x2a])
    = some (.union 1 (.array [.int 1, .int 2, .int 3]), [0x2a]) := decEq_of (by decide +kernel)

theorem uv_instance :
    ∃ idx v' k branch, Spec.Value.union 1 (.array [.int 1, .int 2, .int 3]) = .union idx v' ∧
      [1, 2][idx]? = some k ∧ uvS[k]? = some branch ∧
      (lookupVariant branch.typeName uvVariants = some .unit →
        de deExtModel {} uvS 100 (.union [1, 2]) 64 false (.enum uvVariants) { rest := uvBytes ++ [0x2a] } =
          (.ok (.variant (.str branch.typeName false) .unit), { rest := [0x2a] })) :=
  C12_unit_variant_all_layouts {} uvS [1, 2] _ (uvBytes ++ [0x2a]) [0x2a] 64 20 20 uvVariants uv_dec
    (by decide +kernel) (by decide +kernel) (by decide +kernel) (by decide +kernel) 100
    (by decide +kernel) { rest := uvBytes ++ [0x2a] } rfl rfl rfl rfl

/-- **C12_unit_variant_all_layouts**, the premise of its inner implication discharged: the enum
    target gets the unit variant `Array`, the two-block array is skipped, `2a` is left -/
example :
    de deExtModel {} uvS 100 (.union [1, 2]) 64 false (.enum uvVariants) { rest := uvBytes ++ [0x2a] } =
      (.ok (.variant (.str "Array" false) .unit), { rest := [0x2a] }) := by
  obtain ⟨idx, v', k, branch, hv, hk, hb, himp⟩ := uv_instance
  injection hv with hidx _
  subst hidx
  have hk' : k = 2 := by simpa using hk.symm
  subst hk'
  have hb' : branch = .array 3 := by
    have : uvS[2]? = some (.array 3) := by decide +kernel
    rw [this] at hb
    exact (Option.some.inj hb).symm
  subst hb'
  exact himp (by simp [lookupVariant, Node.typeName, uvVariants])

/-! ## 5. C18 -/

deriving instance DecidableEq for SerState

/-- the external parameters of the serializer as the driver's empty table gives them (no
    decimal / float conversion is involved in the values below) -/
def extNone : Ext :=
  { asF32 := fun _ => 0, decFromF64 := fun _ => none, decParse := fun _ => none,
    decRescale := fun d _ => d }

/-- the serde presentation of `v1` (a Rust `struct Node { value, next: Option<Box<Node>>, tags }`) -/
def sv1 : SV :=
  .struct "Node" [("value", .int .i64 1),
    ("next", .some (.struct "Node" [("value", .int .i64 2), ("next", .none), ("tags", .seq (some 0) [])])),
    ("tags", .seq (some 1) [.str "a"])]

def cycPcf : String :=
  "{\"name\":\"ns.Node\",\"type\":\"record\",\"fields\":[{\"name\":\"value\",\"type\":\"long\"},{\"name\":\"next\",\"type\":[\"null\",\"ns.Node\"]},{\"name\":\"tags\",\"type\":{\"type\":\"array\",\"items\":\"string\"}}]}"

theorem cyc_pcf : canonicalForm cycSM 1000 = .ok cycPcf := by decide +kernel

/-- **C18_fingerprint_is_crc** on the cyclic schema (logical types dropped, the recursive
    reference written by name) -/
example : schemaFingerprint cycSM 1000 = .ok (Spec.fingerprintLE cycPcf.toUTF8.data.toList) :=
  C18_fingerprint_is_crc cycSM 1000 cycPcf cyc_pcf

/-- the fingerprint of the schema, as the model's `schemaFingerprint` computes it -/
def cycFp : Bytes := [96, 195, 243, 53, 39, 47, 234, 129]
theorem cycFp_eq : schemaFingerprint cycSM 1000 = .ok cycFp := by decide +kernel

/-- the real datum serializer on the frozen schema -/
theorem ser_sv1 : ser extNone false cycS cycRoot sv1 {} = (.ok (), { out := cycBytes }) := by
  decide +kernel

/-- **C18_frame** with the real `ser`: marker, fingerprint, then the datum serializer -/
example :
    toSingleObject cycFp (ser extNone false cycS cycRoot sv1) {} =
      ser extNone false cycS cycRoot sv1 { out := [] ++ [0xC3, 0x01] ++ cycFp } :=
  C18_frame cycFp (ser extNone false cycS cycRoot sv1) {} rfl

/-- the message written -/
def cycMsg : Bytes := [0xC3, 0x01] ++ cycFp ++ cycBytes
theorem cyc_write : toSingleObject cycFp (ser extNone false cycS cycRoot sv1) {} =
    (.ok (), { out := cycMsg }) := by decide +kernel

/-- the datum deserializer as `runSingle` of the driver instantiates it -/
def cycDatum (st : RState) : Except DeErr Out × RState :=
  de deExtModel {} cycS (driverFuel {} cycS 64 st.rest.length) cycRoot 64 false .any st

/-- **C18_accepts_slice** with the real `de` as the datum parameter (the theorem puts no condition
    on it) on the message the real `ser` wrote -/
example : fromSingleObject cycFp cycDatum { rest := cycMsg } = cycDatum { rest := cycBytes } :=
  C18_accepts_slice cycFp cycDatum { rest := cycMsg } rfl cycBytes rfl rfl

/-- the value `sv1` denotes, its canonical encoding and its observation -/
def cycV : Spec.Value :=
  .record [.long 1, .union 1 (.record [.long 2, .union 0 .null, .array []]), .array [.string "a"]]
theorem cycV_encode : Spec.encode cycS cycRoot cycV = some cycBytes := by decide +kernel
theorem cycV_observe : Spec.observe cycS cycRoot cycV = some cycOut := by rw [cycS_eq]; rfl

theorem extNone_ok : ExtOK extNone :=
  ⟨fun _ _ h => h, fun _ _ h => by simp [extNone] at h, fun _ _ h => by simp [extNone] at h⟩

/-- **C18_write_read** (write then read, the real `ser` and the real `de`), every hypothesis
    discharged on the cyclic schema: whatever follows the message, and with any fuel above
    `4 * size + 8`, the slice reader returns the observation of the value `sv1` denotes and leaves
    what followed. -/
theorem cyc_write_read (rest : Bytes) (fuel : Nat) (hfuel : 4 * Spec.size cycV + 8 ≤ fuel) :
    fromSingleObject cycFp (de deExtModel {} cycS fuel cycRoot 64 false .any)
      { rest := (toSingleObject cycFp (ser extNone false cycS cycRoot sv1) {}).2.out ++ rest } =
        (.ok cycOut, { rest := rest }) := by
  obtain ⟨s', bytes, v, hrun, hout, henc, hden, hrd⟩ :=
    C18_write_read {} extNone false cycS cycRoot sv1 cycFp rfl {} (by rw [cyc_write])
      C01glue.good_empty
      (SchemaOK.of_checks (by decide +kernel) (by decide +kernel) (by decide +kernel)
        (by decide +kernel))
      (NodeOK.of_check (by decide +kernel)) (by decide +kernel) extNone_ok (by decide +kernel)
      (fun _ n _ => Canon.nodeAllows_strict n) (Canon.nodeAllows_strict _)
      (fun k n hk => Array.all_getElem? (by decide +kernel : cycS.all Node.fixedDecFits = true) hk)
      (by decide +kernel)
  rw [hrun]
  rw [cyc_write] at hrun
  have hs' : s'.out = cycMsg := by
    have := congrArg (fun p => p.2.out) hrun
    exact this.symm
  have hb : bytes = cycBytes := by
    rw [hs'] at hout
    simp only [cycMsg] at hout
    have : ([0xC3, 0x01] ++ cycFp : Bytes) ++ cycBytes = ([0xC3, 0x01] ++ cycFp) ++ bytes := by
      simpa [List.append_assoc] using hout
    exact (List.append_cancel_left this).symm
  subst hb
  have hv : v = cycV := encode_injective henc cycV_encode
  subst hv
  have := hrd {} 64 cycOut cycV_observe (by decide +kernel) (by decide +kernel) fuel
    (by omega)
    rest { rest := s'.out ++ rest } rfl rfl rfl (by rw [hout]; simp [List.append_assoc])
  simpa using this

/-- … in particular with the datum deserializer as `runSingle` of the driver instantiates it (its
    fuel is computed from what follows the header) -/
example (rest : Bytes) :
    fromSingleObject cycFp cycDatum { rest := cycMsg ++ rest } = (.ok cycOut, { rest := rest }) := by
  have hsz : Spec.size cycV ≤ 100 := by decide +kernel
  have h := cyc_write_read rest (driverFuel {} cycS 64 (cycBytes ++ rest).length)
    (Nat.le_trans (by simp only [deFuelBase]; omega)
      (deFuelBase_le_deFuel {} cycS .any 64 (cycBytes ++ rest).length))
  rw [cyc_write] at h
  have hsplit : ({ rest := cycMsg ++ rest } : RState).rest = [0xC3, 0x01] ++ cycFp ++ (cycBytes ++ rest) := by
    simp [cycMsg, List.append_assoc]
  rw [C18_accepts_slice cycFp _ { rest := cycMsg ++ rest } rfl (cycBytes ++ rest) rfl hsplit] at h
  rw [C18_accepts_slice cycFp cycDatum { rest := cycMsg ++ rest } rfl (cycBytes ++ rest) rfl hsplit]
  exact h

/-- **C18_fingerprint_err_slice**: the same message read under a schema with another
    fingerprint (here: the canonical form with the field `tags` renamed) -/
def otherSM : SchemaMut := cycSM.set! 0
  { type := .record nmNode [("value", 5), ("next", 1), ("labels", 3)], logical := none }
def otherFp : Bytes := [189, 178, 166, 100, 155, 159, 177, 241]
theorem otherFp_eq : schemaFingerprint otherSM 1000 = .ok otherFp := by decide +kernel

example : (fromSingleObject otherFp cycDatum { rest := cycMsg }).1 = .error .custom :=
  C18_fingerprint_err_slice otherFp cycDatum { rest := cycMsg } rfl (by decide) (by decide +kernel)

/-- **C18_marker_err_slice / C18_short_header_err_slice** -/
example : (fromSingleObject cycFp cycDatum { rest := [0xC3, 0x02] ++ cycFp ++ cycBytes }).1
    = .error .custom :=
  C18_marker_err_slice cycFp cycDatum { rest := [0xC3, 0x02] ++ cycFp ++ cycBytes } rfl (by decide)
    (by decide +kernel)

example : (fromSingleObject cycFp cycDatum { rest := cycMsg.take 9 }).1 = .error .custom :=
  C18_short_header_err_slice cycFp cycDatum { rest := cycMsg.take 9 } rfl (by decide)


end Avro.Theorems.NVB
