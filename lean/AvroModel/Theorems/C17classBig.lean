import AvroModel.Theorems.C17class
import AvroModel.Lemmas.CutClassBig
/-
C17, the hypothesis `NoBigDecimal` of `Theorems/C17class.lean` removed.

`C17class.lean` classifies the error met at every cut point of a well-formed null-codec container
file; on the streaming-reader back-end its theorems assumed that the schema has no `big-decimal`
node, because the truncation simulation (`Lemmas/CutClassDe.lean`) stopped at the `io::Take` a
`big-decimal` is read under.  `Lemmas/CutClassBig.lean` extends the simulation to states under a
`Take`; here the three theorems are restated WITHOUT `NoBigDecimal`:

  `C17_datum_cut_io_all`, `C17_cut_exact_stream_all`, `C17_cut_error_class_stream_all`
  (and the two corollaries `C17_cut_at_boundary_clean_all`, `C17_clean_only_at_boundary_all`).

Why the claim is true for `big-decimal` (first evaluated on every cut of `bdFile` and `bdNonCanon`
below, then proved).  A `big-decimal` is `bytes`: a length `L`, then — read through
`(&mut reader).take(L)` — a varint (size of the unscaled integer), that many bytes, a varint (the
scale).  Inside the `Take`, `integer_encoding::VarIntReader::read_varint` and `read_exact` are the
only reads and every one of their failures is an `io::Error` mapped by `DeError::io`
(`de/deserializer/types/decimal.rs`, ll. 37–39, 61, 70–71); the `custom` errors of that function
depend only on the values read.  The one delicate point is `read_varint` at the end of the input
with a non-empty buffer: it then answers `p.decode()`.  Every byte pushed before was a
continuation byte (otherwise `finished()` would have stopped the loop), `decode_var` of
continuation bytes only is `None` (`decodeVar_allcont_none`), hence `UnexpectedEof` and never a
wrong value.

The remaining hypothesis beyond `C17_yields_prefix_null_stream` is `hM` (the allocation cap covers
the uncut file); it is necessary: `alloc_cap_needed` in `C17class.lean`.
-/
namespace Avro.Theorems
open Avro Avro.Impl Avro.Impl.Ocf Avro.Impl.OcfS Avro.Theorems.Stream Avro.Theorems.Cut

variable {cfg : DeConfig} {S : Schema} {node : Node} {depth fuel : Nat}

/-! ### 1. The datum deserializer on a cut encoding -/

/-- **C17 (error class of `de` on a cut value, reader back-end, any chunk schedule), every
    schema.** The input is the canonical encoding of a good value followed by anything, cut
    strictly inside the encoding; the allocation cap covers the uncut input: `de … .any` fails
    with an I/O error. -/
theorem C17_datum_cut_io_all (cfg : DeConfig) (S : Schema) (node : Node) (depth fuel : Nat)
    (v : Spec.Value) (hv : GoodVal cfg S node depth fuel v)
    (M : Nat) (s : RState) (hb : BOk M s) (y : Bytes) (j : Nat)
    (hr : s.rest = (encD S node v ++ y).take j) (hM : (encD S node v ++ y).length ≤ M)
    (hj : j < (encD S node v).length) :
    ∃ s', de deExtModel cfg S fuel node depth false .any s = (.error .io, s') :=
  de_cut_reader_io_all cfg S node v _ _ depth fuel hv.enc_eq hv.obs_eq hv.fix hv.depth hv.seq
    hv.fuel M s hb y j hr hM hj

theorem de_datumCutIo_all (cfg : DeConfig) (S : Schema) (node : Node) (depth fuel M : Nat) :
    DatumCutIo (encD S node) M (GoodVal cfg S node depth fuel)
      (de deExtModel cfg S fuel node depth false .any) :=
  fun s v y j hv hk hr hM hj =>
    C17_datum_cut_io_all cfg S node depth fuel v hv M s hk.toBOk y j hr hM hj

/-- **`read_decimal` on a `big-decimal` node, input ending early** (the piece `C17class.lean` left
    open; any `DeExt`, any hint, any bytes — canonical or not).  `sl` is a slice holding the bytes
    of the reader `r` followed by `z`.  If `read_decimal` succeeds on the slice, then on the reader
    it succeeds too, in a corresponding state (it never needed `z`), or fails with an I/O error. -/
theorem C17_readDecimal_big_trunc (z : Bytes) (ext : DeExt) (hint : DecHint) (r sl : RState)
    (hs : TSim z r sl) (o : Out) (sl' : RState)
    (hok : readDecimal ext .big hint sl = (.ok o, sl')) :
    (∃ a r', readDecimal ext .big hint r = (.ok a, r') ∧ TSim z r' sl') ∨
    (∃ r', readDecimal ext .big hint r = (.error .io, r')) := by
  have h := readDecimal_big_trel (z := z) ext hint r sl hs
  rw [hok] at h
  rcases hm : readDecimal ext .big hint r with ⟨(e | a), r'⟩ <;> rw [hm] at h
  · have : e = .io := h
    subst this
    exact .inr ⟨r', rfl⟩
  · exact .inl ⟨a, r', rfl, h.2⟩

/-- … in particular when the slice run consumed some of the missing bytes (less is left to it than
    was cut off): an I/O error. -/
theorem C17_readDecimal_big_cut_io (z : Bytes) (ext : DeExt) (hint : DecHint) (r sl : RState)
    (hs : TSim z r sl) (o : Out) (sl' : RState)
    (hok : readDecimal ext .big hint sl = (.ok o, sl')) (hcut : sl'.rest.length < z.length) :
    ∃ r', readDecimal ext .big hint r = (.error .io, r') := by
  rcases C17_readDecimal_big_trunc z ext hint r sl hs o sl' hok with ⟨a, r', _, ht⟩ | h
  · exfalso
    have h1 := congrArg List.length ht.rest
    simp only [List.length_append] at h1
    omega
  · exact h

/-! ### 2. The streaming reader on a cut file -/

/-- **C17 (a cut file, exactly): null codec, reader back-end, any chunk schedule, the real datum
    deserializer, every schema.**  Hypotheses of `C17_yields_prefix_null_stream` and the cap `M`
    covering the uncut file.  Reading until the run stops yields, up to the `borrowed` flags,
    exactly `cutVals … false blocks m` — the values of the complete blocks and the values of the
    cut block that are entirely present — and ends as `cutEnd false (cutWhere … blocks m)` says;
    after an error the reader pretends end of stream. -/
theorem C17_cut_exact_stream_all (d : Decomp) (hn : d.isNull = true)
    (cfg : DeConfig) (S : Schema) (node : Node) (depth fuel : Nat)
    (sync : Bytes) (hsy : sync.length = 16)
    (blocks : List (List Spec.Value)) (hbs : ∀ b ∈ blocks, BlockOk (encD S node) b)
    (hgood : ∀ v ∈ blocks.flatten, GoodVal cfg S node depth fuel v)
    (m : Nat) (sched : List Nat) (lastChunk M : Nat)
    (hM : (fileBody (encD S node) sync blocks).length ≤ M) :
    Res unborrow (fun v => unborrow (obsD S node v))
      (readAllR d (de deExtModel cfg S fuel node depth false .any) (blocks.flatten.length + 1)
        (openReader sync ((fileBody (encD S node) sync blocks).take m) sched lastChunk M))
      (cutVals (encD S node) false blocks m, cutEnd false (cutWhere (encD S node) blocks m)) := by
  rw [← expStart_eq]
  exact run_start hn hsy (de_datumCutOk_reader cfg S node depth fuel M)
    (fun _ => de_datumCutIo_all cfg S node depth fuel M) blocks hbs hgood _ m _
    (xstart_open sync blocks m sched lastChunk M (fun _ => hM)) (Nat.lt_succ_self _)

/-- **C17 (the error class on the streaming reader), every schema.**  The file cut anywhere but at
    a block boundary / the end (`cutWhere … ≠ clean`, see `C17_cutWhere_clean_iff`): the values
    delivered are exactly `cutVals`, then comes an error of class `io`, then end of stream for
    ever. -/
theorem C17_cut_error_class_stream_all (d : Decomp) (hn : d.isNull = true)
    (cfg : DeConfig) (S : Schema) (node : Node) (depth fuel : Nat)
    (sync : Bytes) (hsy : sync.length = 16)
    (blocks : List (List Spec.Value)) (hbs : ∀ b ∈ blocks, BlockOk (encD S node) b)
    (hgood : ∀ v ∈ blocks.flatten, GoodVal cfg S node depth fuel v)
    (m : Nat) (sched : List Nat) (lastChunk M : Nat)
    (hM : (fileBody (encD S node) sync blocks).length ≤ M)
    (hcut : cutWhere (encD S node) blocks m ≠ .clean) :
    (readAll d (de deExtModel cfg S fuel node depth false .any) (blocks.flatten.length + 1)
        (openReader sync ((fileBody (encD S node) sync blocks).take m) sched lastChunk M)).1.map
          unborrow
      = (cutVals (encD S node) false blocks m).map (fun v => unborrow (obsD S node v)) ∧
    (readAll d (de deExtModel cfg S fuel node depth false .any) (blocks.flatten.length + 1)
        (openReader sync ((fileBody (encD S node) sync blocks).take m) sched lastChunk M)).2
      = .err .io ∧
    (∀ rf, rf = (readAllR d (de deExtModel cfg S fuel node depth false .any)
        (blocks.flatten.length + 1)
        (openReader sync ((fileBody (encD S node) sync blocks).take m) sched lastChunk M)).2.2 →
      next d (de deExtModel cfg S fuel node depth false .any) rf = (.ok none, rf)) := by
  obtain ⟨h1, h2, h3⟩ := C17_cut_exact_stream_all d hn cfg S node depth fuel sync hsy blocks hbs
    hgood m sched lastChunk M hM
  rw [readAllR_eq]
  rw [cutEnd_reader _ hcut] at h2 h3
  refine ⟨h1, h2, ?_⟩
  rintro rf rfl
  exact next_pretendEof _ _ _ (h3 _ rfl)

/-- **C17 (a cut at a block boundary is a clean end of stream), reader back-end, every schema.** -/
theorem C17_cut_at_boundary_clean_all (d : Decomp) (hn : d.isNull = true)
    (cfg : DeConfig) (S : Schema) (node : Node) (depth fuel : Nat)
    (sync : Bytes) (hsy : sync.length = 16)
    (blocks : List (List Spec.Value)) (hbs : ∀ b ∈ blocks, BlockOk (encD S node) b)
    (hgood : ∀ v ∈ blocks.flatten, GoodVal cfg S node depth fuel v)
    (i : Nat) (hi : i ≤ blocks.length) (sched : List Nat) (lastChunk M : Nat)
    (hM : (fileBody (encD S node) sync blocks).length ≤ M) :
    (readAll d (de deExtModel cfg S fuel node depth false .any) (blocks.flatten.length + 1)
        (openReader sync ((fileBody (encD S node) sync blocks).take
          (fileBody (encD S node) sync (blocks.take i)).length) sched lastChunk M)).1.map unborrow
      = (blocks.take i).flatten.map (fun v => unborrow (obsD S node v)) ∧
    (readAll d (de deExtModel cfg S fuel node depth false .any) (blocks.flatten.length + 1)
        (openReader sync ((fileBody (encD S node) sync blocks).take
          (fileBody (encD S node) sync (blocks.take i)).length) sched lastChunk M)).2 = .eos := by
  obtain ⟨h1, h2, _⟩ := C17_cut_exact_stream_all d hn cfg S node depth fuel sync hsy blocks hbs
    hgood (fileBody (encD S node) sync (blocks.take i)).length sched lastChunk M hM
  rw [readAllR_eq]
  have hc : cutWhere (encD S node) blocks (fileBody (encD S node) sync (blocks.take i)).length
      = .clean := (cutWhere_clean_iff _ sync hsy blocks _).2 (.inr ⟨i, hi, rfl⟩)
  rw [hc] at h2
  rw [cutVals_boundary _ false sync hsy] at h1
  exact ⟨h1, h2⟩

/-- … and conversely: the run ends with end of stream ONLY IF the cut is at a block boundary or
    removes nothing; every schema. -/
theorem C17_clean_only_at_boundary_all (d : Decomp) (hn : d.isNull = true)
    (cfg : DeConfig) (S : Schema) (node : Node) (depth fuel : Nat)
    (sync : Bytes) (hsy : sync.length = 16)
    (blocks : List (List Spec.Value)) (hbs : ∀ b ∈ blocks, BlockOk (encD S node) b)
    (hgood : ∀ v ∈ blocks.flatten, GoodVal cfg S node depth fuel v)
    (m : Nat) (sched : List Nat) (lastChunk M : Nat)
    (hM : (fileBody (encD S node) sync blocks).length ≤ M)
    (heos : (readAll d (de deExtModel cfg S fuel node depth false .any)
        (blocks.flatten.length + 1)
        (openReader sync ((fileBody (encD S node) sync blocks).take m) sched lastChunk M)).2
      = .eos) :
    (fileBody (encD S node) sync blocks).length ≤ m ∨
      ∃ i, i ≤ blocks.length ∧ m = (fileBody (encD S node) sync (blocks.take i)).length := by
  apply (cutWhere_clean_iff _ sync hsy blocks m).1
  apply Classical.byContradiction
  intro hcut
  have := (C17_cut_error_class_stream_all d hn cfg S node depth fuel sync hsy blocks hbs hgood m
    sched lastChunk M hM hcut).2.1
  rw [this] at heos
  cases heos

/-- the theorems of `C17class.lean` are instances -/
theorem C17_datum_cut_io_of_all (cfg : DeConfig) (S : Schema) (node : Node) (depth fuel : Nat)
    (_ : NoBigDecimal S node) (v : Spec.Value) (hv : GoodVal cfg S node depth fuel v)
    (M : Nat) (s : RState) (hb : BOk M s) (y : Bytes) (j : Nat)
    (hr : s.rest = (encD S node v ++ y).take j) (hM : (encD S node v ++ y).length ≤ M)
    (hj : j < (encD S node v).length) :
    ∃ s', de deExtModel cfg S fuel node depth false .any s = (.error .io, s') :=
  C17_datum_cut_io_all cfg S node depth fuel v hv M s hb y j hr hM hj

/-! ### 3. Non-vacuity: a file of `big-decimal`s, and a non-canonical `big-decimal`

`bdFile` = `04 14` | `0A 06 ED 29 79 06` | `06 02 01 04` | marker(16): one block, the two
big-decimals −1234.567 (`0A`: 5 bytes follow; `06`: 3 bytes of unscaled integer; `ED 29 79`;
`06`: scale 3) and 0.01; 28 bytes. -/

namespace C17classBig
open C17stream

def bdS : Schema := #[.bigDecimal]
def bd1 : Spec.Value := .bigDecimal (-1234567) 3
def bd2 : Spec.Value := .bigDecimal 1 2
def bdEnc : Spec.Value → Bytes := encD bdS .bigDecimal
def bdBlocks : List (List Spec.Value) := [[bd1, bd2]]
def bdFile : Bytes := fileBody bdEnc exSync bdBlocks
def bdDatum : RState → Except DeErr Out × RState :=
  de deExtModel {} bdS 20 .bigDecimal 64 false .any
def bdBytes : Bytes := [4, 20, 10, 6, 237, 41, 121, 6, 6, 2, 1, 4] ++ exSync

/-- the hypothesis the new theorems no longer need does not hold here -/
theorem bd_not_NoBigDecimal : ¬ NoBigDecimal bdS .bigDecimal := fun h => h.1 rfl

theorem bdEnc1 : bdEnc bd1 = [10, 6, 237, 41, 121, 6] := by decide +kernel
theorem bdEnc2 : bdEnc bd2 = [6, 2, 1, 4] := by decide +kernel
theorem bdFile_eq : bdFile = bdBytes := by decide +kernel
theorem bdLen : (fileBody (encD bdS .bigDecimal) exSync bdBlocks).length = 28 := by
  show bdFile.length = 28
  rw [bdFile_eq]; rfl

theorem bdGood : ∀ v ∈ bdBlocks.flatten, GoodVal {} bdS .bigDecimal 64 20 v := by
  intro v hv
  simp only [bdBlocks, List.flatten_cons, List.flatten_nil,
    List.append_nil, List.mem_cons, List.not_mem_nil, or_false] at hv
  rcases hv with rfl | rfl
  · exact ⟨by decide +kernel, by decide +kernel, by rfl, by decide, by decide, by decide⟩
  · exact ⟨by decide +kernel, by decide +kernel, by rfl, by decide, by decide, by decide⟩

theorem bdBlockOk : ∀ b ∈ bdBlocks, BlockOk bdEnc b := by
  intro b hb
  simp only [bdBlocks, List.mem_cons, List.not_mem_nil, or_false] at hb
  subst hb
  exact ⟨by decide, by simp [Stream.blockData, bdEnc1, bdEnc2]; decide⟩

/-- where the cuts fall: 2 … 11 inside the data — 2: before the length of the first value;
    3: inside its `Take`, before the size of the unscaled integer; 4, 5, 6: inside the unscaled
    integer; 7: before the scale; 8: between the two values -/
theorem bdWhere :
    cutWhere bdEnc bdBlocks 0 = .clean ∧ cutWhere bdEnc bdBlocks 1 = .header ∧
    cutWhere bdEnc bdBlocks 2 = .data ∧ cutWhere bdEnc bdBlocks 3 = .data ∧
    cutWhere bdEnc bdBlocks 5 = .data ∧ cutWhere bdEnc bdBlocks 7 = .data ∧
    cutWhere bdEnc bdBlocks 8 = .data ∧ cutWhere bdEnc bdBlocks 11 = .data ∧
    cutWhere bdEnc bdBlocks 12 = .marker ∧ cutWhere bdEnc bdBlocks 27 = .marker ∧
    cutWhere bdEnc bdBlocks 28 = .clean := by
  decide +kernel

/-- the general theorem applies to the file of big-decimals: every cut that is not clean, every
    chunk schedule — class `io` -/
theorem bd_class_stream (m : Nat) (sched : List Nat) (lastChunk : Nat)
    (h : cutWhere bdEnc bdBlocks m ≠ .clean) :
    (readAll exNull bdDatum 3 (openReader exSync (bdFile.take m) sched lastChunk 1000)).2
      = .err .io :=
  (C17_cut_error_class_stream_all exNull rfl {} bdS .bigDecimal 64 20 exSync rfl bdBlocks
    bdBlockOk bdGood m sched lastChunk 1000
    (by rw [bdLen]; omega) h).2.1

/-- `C17_datum_cut_io_all` on the first value, cut after each `j < 6` of its 6 bytes -/
theorem bd_datum_cut (j : Nat) (hj : j < 6) (sched : List Nat) (lastChunk : Nat) :
    ∃ s', bdDatum { isSlice := false, rest := [10, 6, 237, 41, 121, 6].take j, sched := sched,
                    lastChunk := lastChunk, maxAlloc := 1000 } = (.error .io, s') := by
  have hg := bdGood bd1 (by simp [bdBlocks])
  have he : encD bdS .bigDecimal bd1 = [10, 6, 237, 41, 121, 6] := bdEnc1
  refine C17_datum_cut_io_all {} bdS .bigDecimal 64 20 bd1 hg 1000 _
    ⟨rfl, rfl, ?_, rfl, ?_⟩ [] j ?_ ?_ ?_
  · show 0 ≤ _; omega
  · show (List.take j _).length ≤ 1000
    rw [List.length_take]; simp only [List.length_cons, List.length_nil]; omega
  · show List.take j _ = _
    rw [he, List.append_nil]
  · rw [he]; simp
  · rw [he]; exact hj

/-- the class of an outcome -/
def cls : Except DeErr Out → Option DeErr
  | .error e => some e
  | .ok _ => none

/-- Direct evaluation, chunks of 1, 2, then 3 bytes: every cut `1 … 27` of the file ends with an
    I/O error, `0` and `28` with end of stream. -/
theorem bd_eval_stream :
    (List.range 29).map (fun m =>
        (readAll exNull bdDatum 3 (openReader exSync (bdFile.take m) [1, 2] 3 1000)).2)
      = [.eos] ++ List.replicate 27 (.err .io) ++ [.eos] := by decide +kernel

/-- A NON-canonical big-decimal (the scale `3` written on two bytes, `86 00`): the slice accepts
    it; every proper prefix fed to a reader gives an I/O error — the cut after `86` is the case
    "end of input inside a varint, inside the `Take`, with a non-empty buffer". -/
def bdNonCanon : Bytes := [12, 6, 237, 41, 121, 0x86, 0x00]

theorem bdNonCanon_eval :
    cls (bdDatum { rest := bdNonCanon }).1 = none ∧
    (List.range 7).map (fun j => cls (bdDatum
        { isSlice := false, rest := bdNonCanon.take j, sched := [2], lastChunk := 1,
          maxAlloc := 1000 }).1) = List.replicate 7 (some .io) := by
  decide +kernel

/-- `C17_readDecimal_big_cut_io` applies to it (hypotheses instantiated): cut after 6 of 7 bytes -/
theorem bdNonCanon_cut : ∃ r', readDecimal deExtModel .big .str
    { isSlice := false, rest := bdNonCanon.take 6, maxAlloc := 1000 } = (.error .io, r') := by
  have hok : ∃ o sl', readDecimal deExtModel .big .str { rest := bdNonCanon } = (.ok o, sl') ∧
      sl'.rest.length = 0 := by
    cases h : readDecimal deExtModel .big .str { rest := bdNonCanon } with
    | mk a sl' =>
      cases a with
      | error e =>
        exfalso
        have : cls (readDecimal deExtModel .big .str { rest := bdNonCanon }).1 = none := by
          decide +kernel
        rw [h] at this; cases this
      | ok o =>
        refine ⟨o, sl', rfl, ?_⟩
        have : (readDecimal deExtModel .big .str { rest := bdNonCanon }).2.rest.length = 0 := by
          decide +kernel
        rw [h] at this; exact this
  obtain ⟨o, sl', hok, hl⟩ := hok
  refine C17_readDecimal_big_cut_io [0x00] deExtModel .str _ _ ?_ o sl' hok (by rw [hl]; decide)
  exact ⟨rfl, rfl, rfl, by decide, rfl, rfl, by decide⟩

end C17classBig

end Avro.Theorems
