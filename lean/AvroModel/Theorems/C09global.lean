import AvroModel.Lemmas.RenderPcf
import AvroModel.Theorems.C09
/-
C09, global statement: "the JSON a schema reports for itself denotes the schema in use", at the
level of the specification's Parsing Canonical Form.

`C09_render_has_graph_pcf`: for EVERY node graph `S` (shared nodes, cycles through named types,
logical types anywhere, any arrangement of namespaces) in which the names are what the crate's
`Name` type can hold (`Name.WF`), whenever the renderer succeeds (`renderJson S fuel = .ok j`):

* the rendered document `j` has no forward reference (`Spec.Pcf.noForwardRefs`);
* the specification's own transformation is defined on `j`;
* its text is exactly what the crate's canonical-form writer computes from the graph
  (`canonicalForm S fuel'`, for every `fuel' ≥ fuel`).

Nothing partial: no restriction to trees / acyclic graphs / unshared unnamed nodes.

Hypotheses:
* `hwf` (names well-formed) — NECESSARY, each clause of `Name.WF` separately:
  `C09_wf_needed_fq` (no namespace but `fq ≠ short`), `C09_wf_needed_short_dot` (dot in the short
  name), `C09_wf_needed_empty_ns` (namespace `some ""`), `C09_wf_needed_ns_fq`
  (`fq ≠ ns ++ "." ++ short`).
* "distinct named nodes have distinct fullnames" is NOT needed for this statement
  (`C09_distinct_not_needed`: two different enums both called `E` — the two texts still agree;
  of course that document is not a valid schema and the parser rejects it, which is why the
  corollary in `Theorems/C09globalC08.lean` has the hypothesis `parseJson j n = .ok S'`).
* no hypothesis on logical types (they are dropped by [STRIP] / [PRIMITIVES]); a union carrying
  a logical type, a cycle through unnamed nodes, a key out of bounds make `renderJson` fail, so
  `hrender` covers them.
* "fuel' large enough" is `fuel ≤ fuel'`: the canonical-form writer recurses exactly like the
  renderer.

The proof is in `Lemmas/RenderPcf.lean` (`render_pcf`: the three walks in lock step, invariant
`Inv` between `RenderState`, `PcfState` and the list of fullnames defined so far).  That module
states the hypothesis with `RenderPcf.NameWF`, a copy of `Name.WF`, because it is also used next
to `Lemmas/SchemaParse.lean` (corollary with C08), which cannot be imported together with
`Lemmas/SchemaRender.lean` where `Name.WF` lives.
-/
namespace Avro.Theorems
open Avro Avro.Impl Avro.Spec.Pcf Avro.RenderPcf

theorem nameWF_iff (n : Name) : NameWF n ↔ n.WF :=
  ⟨fun h => ⟨h.short_nodot, h.ns_none, h.ns_some⟩, fun h => ⟨h.short_nodot, h.ns_none, h.ns_some⟩⟩

/-- **C09 (global).** -/
theorem C09_render_has_graph_pcf (S : SchemaMut) (fuel : Nat) (j : Json)
    (hwf : ∀ (i : Nat) (node : RawNode) (nm : Name),
      S[i]? = some node → nameOf node.type = some nm → nm.WF)
    (hrender : renderJson S fuel = .ok j) :
    noForwardRefs j = true ∧
    ∃ text, parsingCanonicalForm j = some text ∧
      ∀ fuel', fuel ≤ fuel' → canonicalForm S fuel' = .ok text :=
  render_has_graph_pcf S fuel j
    (fun i node nm hi hn => (nameWF_iff nm).mpr (hwf i node nm hi hn)) hrender

/-- The same with the decidable form of the hypothesis (`namesWFb S` evaluates `nameWFb` on the
    name of every record / enum / fixed node). -/
theorem C09_render_has_graph_pcf_dec (S : SchemaMut) (fuel : Nat) (j : Json)
    (hwf : namesWFb S = true) (hrender : renderJson S fuel = .ok j) :
    noForwardRefs j = true ∧
    ∃ text, parsingCanonicalForm j = some text ∧
      ∀ fuel', fuel ≤ fuel' → canonicalForm S fuel' = .ok text :=
  render_has_graph_pcf S fuel j (namesWF_of_b S hwf) hrender

/-- the decidable form is the hypothesis of the main statement -/
theorem namesWFb_iff (S : SchemaMut) :
    namesWFb S = true ↔ ∀ (i : Nat) (node : RawNode) (nm : Name),
      S[i]? = some node → nameOf node.type = some nm → nm.WF :=
  ⟨fun h i node nm hi hn => (nameWF_iff nm).mp (namesWF_of_b S h i node nm hi hn),
   fun h => namesWFb_of S fun i node nm hi hn => (nameWF_iff nm).mpr (h i node nm hi hn)⟩

/-! ### evaluation on concrete graphs -/

/-- the specification's canonical form of the rendered document -/
def renderedPcf (S : SchemaMut) (fuel : Nat) : Option String :=
  match renderJson S fuel with
  | .ok j => parsingCanonicalForm j
  | .error _ => none

def renderedNoForwardRefs (S : SchemaMut) (fuel : Nat) : Bool :=
  match renderJson S fuel with
  | .ok j => noForwardRefs j
  | .error _ => false

/-- the crate's canonical form of the graph -/
def graphPcf (S : SchemaMut) (fuel : Nat) : Option String :=
  match canonicalForm S fuel with
  | .ok t => some t
  | .error _ => none

/-- The main statement in terms of these three functions. -/
theorem C09_global_eval (S : SchemaMut) (fuel : Nat) (hwf : namesWFb S = true)
    (hok : (renderedPcf S fuel).isSome = true) :
    renderedNoForwardRefs S fuel = true ∧ renderedPcf S fuel = graphPcf S fuel := by
  unfold renderedPcf at hok
  unfold renderedNoForwardRefs renderedPcf graphPcf
  cases hr : renderJson S fuel with
  | error e => rw [hr] at hok; cases hok
  | ok j =>
    obtain ⟨h1, text, h2, h3⟩ := C09_render_has_graph_pcf_dec S fuel j hwf hr
    simp only [h1, h2, h3 fuel (Nat.le_refl _), and_self]

/-! #### non-vacuity 1: a recursive record in a namespace, an enum of another namespace that is
referenced from both namespaces, a shared unnamed node -/

/-- `ns.Node { value: long, next: [null, ns.Node], color: other.Color, more: array<other.Color>,
    box: other.Box { c: other.Color, n: [null, ns.Node], again: array<other.Color> } }` — the
    union node 2 and the array node 4 are shared. -/
def graphRecursive : SchemaMut := #[
  ⟨.record ⟨"ns.Node", "Node", some "ns"⟩
      [("value", 1), ("next", 2), ("color", 3), ("more", 4), ("box", 6)], none⟩,
  ⟨.long, none⟩,
  ⟨.union [5, 0], none⟩,
  ⟨.enum ⟨"other.Color", "Color", some "other"⟩ ["R", "G"], none⟩,
  ⟨.array 3, none⟩,
  ⟨.null, none⟩,
  ⟨.record ⟨"other.Box", "Box", some "other"⟩ [("c", 3), ("n", 2), ("again", 4)], none⟩]

theorem C09_global_example_recursive :
    namesWFb graphRecursive = true ∧
    renderedNoForwardRefs graphRecursive 30 = true ∧
    renderedPcf graphRecursive 30 = graphPcf graphRecursive 30 ∧
    graphPcf graphRecursive 30 = some
      "{\"name\":\"ns.Node\",\"type\":\"record\",\"fields\":[{\"name\":\"value\",\"type\":\"long\"},{\"name\":\"next\",\"type\":[\"null\",\"ns.Node\"]},{\"name\":\"color\",\"type\":{\"name\":\"other.Color\",\"type\":\"enum\",\"symbols\":[\"R\",\"G\"]}},{\"name\":\"more\",\"type\":{\"type\":\"array\",\"items\":\"other.Color\"}},{\"name\":\"box\",\"type\":{\"name\":\"other.Box\",\"type\":\"record\",\"fields\":[{\"name\":\"c\",\"type\":\"other.Color\"},{\"name\":\"n\",\"type\":[\"null\",\"ns.Node\"]},{\"name\":\"again\",\"type\":{\"type\":\"array\",\"items\":\"other.Color\"}}]}}]}" := by
  refine ⟨by decide +kernel, by decide +kernel, by decide +kernel, by decide +kernel⟩

/-- what the renderer writes for it: at the root (enclosing namespace: none) the fullname
    `ns.Node`; inside `ns` the recursive reference is `Node`, the enum is `other.Color`; inside
    `other` the enum is `Color` and the outer record is `ns.Node` -/
example : renderJson graphRecursive 30 = .ok
    (.obj [("type", .str "record"), ("name", .str "ns.Node"), ("fields", .arr [
      .obj [("name", .str "value"), ("type", .str "long")],
      .obj [("name", .str "next"), ("type", .arr [.str "null", .str "Node"])],
      .obj [("name", .str "color"), ("type", .obj [("type", .str "enum"),
        ("name", .str "other.Color"), ("symbols", .arr [.str "R", .str "G"])])],
      .obj [("name", .str "more"), ("type",
        .obj [("type", .str "array"), ("items", .str "other.Color")])],
      .obj [("name", .str "box"), ("type", .obj [("type", .str "record"),
        ("name", .str "other.Box"), ("fields", .arr [
          .obj [("name", .str "c"), ("type", .str "Color")],
          .obj [("name", .str "n"), ("type", .arr [.str "null", .str "ns.Node"])],
          .obj [("name", .str "again"), ("type",
            .obj [("type", .str "array"), ("items", .str "Color")])]])])]])]) := by
  rfl

/-! #### non-vacuity 2: logical types on primitives and on a fixed, a name without namespace
under a namespaced parent (`"namespace": ""`), a named type whose short name is a type keyword -/

/-- `a.R { d: int(date), f: a.F = fixed(12, duration), g: a.F, dec: bytes(decimal 10,2),
    kw: enum "int" (no namespace), kw2: that enum again, kw3: a.string = fixed(1), kw4: a.string }` -/
def graphLogical : SchemaMut := #[
  ⟨.record ⟨"a.R", "R", some "a"⟩
      [("d", 1), ("f", 2), ("g", 2), ("dec", 3), ("kw", 4), ("kw2", 4), ("kw3", 5), ("kw4", 5)],
    none⟩,
  ⟨.int, some .date⟩,
  ⟨.fixed ⟨"a.F", "F", some "a"⟩ 12, some .duration⟩,
  ⟨.bytes, some (.decimal 2 10)⟩,
  ⟨.enum ⟨"int", "int", none⟩ ["x"], none⟩,
  ⟨.fixed ⟨"a.string", "string", some "a"⟩ 1, some (.unknown "my-type")⟩]

example : renderJson graphLogical 30 = .ok
    (.obj [("type", .str "record"), ("name", .str "a.R"), ("fields", .arr [
      .obj [("name", .str "d"), ("type",
        .obj [("logicalType", .str "date"), ("type", .str "int")])],
      .obj [("name", .str "f"), ("type", .obj [("logicalType", .str "duration"),
        ("type", .str "fixed"), ("name", .str "F"), ("size", .nat 12)])],
      .obj [("name", .str "g"), ("type", .str "F")],
      .obj [("name", .str "dec"), ("type", .obj [("logicalType", .str "decimal"),
        ("type", .str "bytes"), ("scale", .nat 2), ("precision", .nat 10)])],
      .obj [("name", .str "kw"), ("type", .obj [("type", .str "enum"), ("namespace", .str ""),
        ("name", .str "int"), ("symbols", .arr [.str "x"])])],
      .obj [("name", .str "kw2"), ("type", .str ".int")],
      .obj [("name", .str "kw3"), ("type", .obj [("logicalType", .str "my-type"),
        ("type", .str "fixed"), ("name", .str "string"), ("size", .nat 1)])],
      .obj [("name", .str "kw4"), ("type", .str "a.string")]])]) := by
  rfl

theorem C09_global_example_logical :
    namesWFb graphLogical = true ∧
    renderedNoForwardRefs graphLogical 30 = true ∧
    renderedPcf graphLogical 30 = graphPcf graphLogical 30 ∧
    graphPcf graphLogical 30 = some
      "{\"name\":\"a.R\",\"type\":\"record\",\"fields\":[{\"name\":\"d\",\"type\":\"int\"},{\"name\":\"f\",\"type\":{\"name\":\"a.F\",\"type\":\"fixed\",\"size\":12}},{\"name\":\"g\",\"type\":\"a.F\"},{\"name\":\"dec\",\"type\":\"bytes\"},{\"name\":\"kw\",\"type\":{\"name\":\"int\",\"type\":\"enum\",\"symbols\":[\"x\"]}},{\"name\":\"kw2\",\"type\":\"int\"},{\"name\":\"kw3\",\"type\":{\"name\":\"a.string\",\"type\":\"fixed\",\"size\":1}},{\"name\":\"kw4\",\"type\":\"a.string\"}]}" := by
  refine ⟨by decide +kernel, by decide +kernel, by decide +kernel, by decide +kernel⟩

/-- The general theorem applied to a concrete graph (nothing evaluated but `namesWFb`). -/
example (j : Json) (h : renderJson graphLogical 30 = .ok j) (fuel' : Nat) (hf : 30 ≤ fuel') :
    noForwardRefs j = true ∧
      ∃ text, parsingCanonicalForm j = some text ∧ canonicalForm graphLogical fuel' = .ok text := by
  obtain ⟨h1, text, h2, h3⟩ :=
    C09_render_has_graph_pcf_dec graphLogical 30 j (by decide +kernel) h
  exact ⟨h1, text, h2, h3 fuel' hf⟩

/-! ### the hypothesis on names is needed, clause by clause -/

/-- `ns = none` but `fq ≠ short`: the renderer writes `short`, the canonical form `fq`. -/
def graphBadFq : SchemaMut := #[⟨.enum ⟨"a.b", "c", none⟩ ["X"], none⟩]

theorem C09_wf_needed_fq :
    namesWFb graphBadFq = false ∧
    renderedPcf graphBadFq 5 = some "{\"name\":\"c\",\"type\":\"enum\",\"symbols\":[\"X\"]}" ∧
    graphPcf graphBadFq 5 = some "{\"name\":\"a.b\",\"type\":\"enum\",\"symbols\":[\"X\"]}" ∧
    renderedPcf graphBadFq 5 ≠ graphPcf graphBadFq 5 := by
  refine ⟨by decide +kernel, by decide +kernel, by decide +kernel, by decide +kernel⟩

/-- a dot in the short name (`fq = short = "a.b"`, `ns = none`): the record itself is read back
    as `a.b`, but its fields are rendered in the namespace `none` and read in the namespace `a`. -/
def graphBadShort : SchemaMut := #[
  ⟨.record ⟨"a.b", "a.b", none⟩ [("f", 1)], none⟩,
  ⟨.enum ⟨"E", "E", none⟩ ["X"], none⟩]

theorem C09_wf_needed_short_dot :
    namesWFb graphBadShort = false ∧
    renderedPcf graphBadShort 9 = some
      "{\"name\":\"a.b\",\"type\":\"record\",\"fields\":[{\"name\":\"f\",\"type\":{\"name\":\"a.E\",\"type\":\"enum\",\"symbols\":[\"X\"]}}]}" ∧
    graphPcf graphBadShort 9 = some
      "{\"name\":\"a.b\",\"type\":\"record\",\"fields\":[{\"name\":\"f\",\"type\":{\"name\":\"E\",\"type\":\"enum\",\"symbols\":[\"X\"]}}]}" ∧
    renderedPcf graphBadShort 9 ≠ graphPcf graphBadShort 9 := by
  refine ⟨by decide +kernel, by decide +kernel, by decide +kernel, by decide +kernel⟩

/-- namespace `some ""` (`fq = ".x"`): written as the dotted name `.x`, read as `x` without
    namespace. -/
def graphBadEmptyNs : SchemaMut := #[⟨.fixed ⟨".x", "x", some ""⟩ 4, none⟩]

theorem C09_wf_needed_empty_ns :
    namesWFb graphBadEmptyNs = false ∧
    renderedPcf graphBadEmptyNs 5 = some "{\"name\":\"x\",\"type\":\"fixed\",\"size\":4}" ∧
    graphPcf graphBadEmptyNs 5 = some "{\"name\":\".x\",\"type\":\"fixed\",\"size\":4}" ∧
    renderedPcf graphBadEmptyNs 5 ≠ graphPcf graphBadEmptyNs 5 := by
  refine ⟨by decide +kernel, by decide +kernel, by decide +kernel, by decide +kernel⟩

/-- `ns = some "n"` but `fq ≠ "n.x"`: inside the namespace `n` the renderer writes the short name. -/
def graphBadNsFq : SchemaMut := #[
  ⟨.record ⟨"n.R", "R", some "n"⟩ [("f", 1)], none⟩,
  ⟨.enum ⟨"q", "x", some "n"⟩ ["X"], none⟩]

theorem C09_wf_needed_ns_fq :
    namesWFb graphBadNsFq = false ∧
    renderedPcf graphBadNsFq 9 = some
      "{\"name\":\"n.R\",\"type\":\"record\",\"fields\":[{\"name\":\"f\",\"type\":{\"name\":\"n.x\",\"type\":\"enum\",\"symbols\":[\"X\"]}}]}" ∧
    graphPcf graphBadNsFq 9 = some
      "{\"name\":\"n.R\",\"type\":\"record\",\"fields\":[{\"name\":\"f\",\"type\":{\"name\":\"q\",\"type\":\"enum\",\"symbols\":[\"X\"]}}]}" ∧
    renderedPcf graphBadNsFq 9 ≠ graphPcf graphBadNsFq 9 := by
  refine ⟨by decide +kernel, by decide +kernel, by decide +kernel, by decide +kernel⟩

/-! ### distinct fullnames are not needed here -/

/-- Two different enums both named `E`, each met twice: both writers write each in full at its
    first visit and `"E"` afterwards; the specification's transformation does not look at what a
    name refers to.  (The document is not a valid schema; `parseJson` rejects it, see
    `Theorems/C09globalC08.lean`.) -/
def graphDupNames : SchemaMut := #[
  ⟨.record ⟨"R", "R", none⟩ [("a", 1), ("b", 2), ("c", 1), ("d", 2)], none⟩,
  ⟨.enum ⟨"E", "E", none⟩ ["A"], none⟩,
  ⟨.enum ⟨"E", "E", none⟩ ["B"], none⟩]

theorem C09_distinct_not_needed :
    namesWFb graphDupNames = true ∧
    renderedNoForwardRefs graphDupNames 12 = true ∧
    renderedPcf graphDupNames 12 = graphPcf graphDupNames 12 ∧
    graphPcf graphDupNames 12 = some
      "{\"name\":\"R\",\"type\":\"record\",\"fields\":[{\"name\":\"a\",\"type\":{\"name\":\"E\",\"type\":\"enum\",\"symbols\":[\"A\"]}},{\"name\":\"b\",\"type\":{\"name\":\"E\",\"type\":\"enum\",\"symbols\":[\"B\"]}},{\"name\":\"c\",\"type\":\"E\"},{\"name\":\"d\",\"type\":\"E\"}]}" := by
  refine ⟨by decide +kernel, by decide +kernel, by decide +kernel, by decide +kernel⟩

/-! ### where the two writers do differ: which graphs they accept -/

/-- The only difference found between the two walks is in what they *accept*: the renderer refuses
    a union that carries a logical type (`C09_union_logical_err`), the canonical-form writer does
    not look at logical types.  (Their cycle guards accept the same graphs: in `Lemmas/RenderPcf`
    the renderer passing its guard implies the canonical-form writer passing its own,
    `guard_pass`.) -/
theorem C09_union_logical_only_pcf :
    graphPcf #[⟨.union [1], some .date⟩, ⟨.int, none⟩] 5 = some "[\"int\"]" ∧
    renderedPcf #[⟨.union [1], some .date⟩, ⟨.int, none⟩] 5 = none := by
  refine ⟨by decide +kernel, by decide +kernel⟩

end Avro.Theorems
