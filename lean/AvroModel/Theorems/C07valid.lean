import AvroModel.Lemmas.ValidParsesRead
import AvroModel.Lemmas.ValidParsesReg
import AvroModel.Lemmas.ValidParsesCycle
import AvroModel.Lemmas.ValidParsesConv
import AvroModel.Lemmas.ValidParsesGas
import AvroModel.Theorems.C08spec
/-
C07, totality at the level of the specification: every schema document that is valid
(`Spec.ValidDoc`, `Spec/ValidDoc.lean`) parses, and every reference resolves to the named type
the specification designates.

* `C07_valid_registers`     reading and registration succeed, nothing is left pending, the name
                            table is the list of the names the document defines;
* `C07_valid_parses`        **every valid document is accepted** (within the recursion limit of `serde_json`, with
                            enough registration fuel, no record unconditionally containing itself);
* `C07_valid_parses_and_resolves`  and the canonical form of the parsed graph is the
                            specification's Parsing Canonical Form of the document
                            (composition with `C08_pcf_is_spec`);
* `C07_valid_parses_graph`  the same with the cycle hypothesis on the resolved graph;
* `C07_valid_parses_checked` the same with every hypothesis a decidable test on the document;
* tightness: for each conjunct of `ValidDoc` and each further hypothesis a concrete document
  that violates only it and is rejected; in general `C07_parses_shape`,
  `C07_parses_names_distinct`;
* findings: documents the specification allows and the parser model rejects;
* non-vacuity: concrete valid documents, the theorem instantiated.
-/
namespace Avro.Theorems
open Avro Avro.Impl Avro.Spec Avro.Spec.Pcf Avro.PcfSpec Avro.ValidParses

theorem nodupB_nodup {l : List Fullname} (h : nodupB l = true) : l.Nodup := by
  induction l with
  | nil => exact List.nodup_nil
  | cons a l ih =>
    simp only [nodupB, Bool.and_eq_true, Bool.not_eq_true'] at h
    refine List.nodup_cons.mpr ⟨?_, ih h.2⟩
    intro hm
    have : l.contains a = true := by simpa using hm
    rw [this] at h
    exact absurd h.1 (by simp)

theorem nodupB_of_nodup {l : List Fullname} (h : l.Nodup) : nodupB l = true := by
  induction l with
  | nil => rfl
  | cons a l ih =>
    obtain ⟨h1, h2⟩ := List.nodup_cons.mp h
    simp only [nodupB, Bool.and_eq_true, Bool.not_eq_true', ih h2, and_true]
    simpa using h1

theorem validDoc_parts {j : Json} (hv : ValidDoc j = true) :
    shape j = true ∧ noForwardRefs j = true ∧ namesDistinct j = true ∧ wellTyped j = true := by
  simpa [ValidDoc, and_assoc] using hv

/-- The stages before late resolution succeed on a valid document; no reference is left pending
    and the name table holds exactly the names the document defines. -/
theorem C07_valid_registers (j : Json) (n : Nat) (hv : ValidDoc j = true)
    (hn : schemaSize j ≤ n) :
    ∃ raw k st, rawOfJson (rawGas j) j = .ok raw ∧ registerNode (n + 2) raw none {} = .ok (k, st) ∧
      st.unresolved = [] ∧ st.names.map (·.1) = ((definedNames j).map keyOf).reverse := by
  obtain ⟨hshape, hnf, hdist, hwt⟩ := validDoc_parts hv
  obtain ⟨raw, hraw⟩ := rawOfJson_succeeds hwt (parseDepth_le_rawGas j)
  obtain ⟨hcanon, hscan⟩ := raw_of_json_spec hraw none
  obtain ⟨c, hc⟩ := Option.isSome_iff_exists.mp hshape
  obtain ⟨D', hD'⟩ := Option.isSome_iff_exists.mp hnf
  rw [hcanon] at hc
  rw [hscan] at hD'
  have hdefs : definedNames j = defsRaw none raw := read_defs hraw none
  have hpre : Pre {} (defsRaw none raw) [] :=
    ⟨by rw [← hdefs]; exact nodupB_nodup hdist, by simp [tkeys], by simp⟩
  have hsz := read_size hraw
  obtain ⟨k, st, hreg, hout⟩ :=
    (register_succeeds (n + 2)).1 raw none {} [] D' c (by omega) hc hD' (read_regOk hraw hwt) hpre
  refine ⟨raw, k, st, hraw, hreg, hout.unres, ?_⟩
  have := hout.keys
  simpa [tkeys, hdefs] using this

/-- Totality, with the cycle hypothesis stated on the resolved graph (as `C07_parse_succeeds`). -/
theorem C07_valid_parses_graph (j : Json) (n : Nat) (hv : ValidDoc j = true)
    (hd : jsonNesting j ≤ 127) (hn : schemaSize j ≤ n) :
    ∃ raw k st, rawOfJson (rawGas j) j = .ok raw ∧ registerNode (n + 2) raw none {} = .ok (k, st) ∧
      st.unresolved = [] ∧
      ((¬ ∃ i, Relation.TransGen (recEdge (graphOf st)) i i) →
        parseJson j n = .ok (graphOf st)) := by
  obtain ⟨raw, k, st, hraw, hreg, hun, -⟩ := C07_valid_registers j n hv hn
  refine ⟨raw, k, st, hraw, hreg, hun, fun hacyc => ?_⟩
  exact C07_parse_succeeds j n raw k st hd hraw hreg (by simp [hun]) hacyc

/-- **C07, totality**: a valid schema document, within the recursion limit of `serde_json`, in
    which no record unconditionally contains itself, is accepted — for every registration fuel
    `n ≥ schemaSize j`.  The result is the node vector of the registration (`graphOf st`: there
    is nothing to resolve late, every reference was bound when it was met), and the name table
    binds exactly the fullnames the document defines. -/
theorem C07_valid_parses (j : Json) (n : Nat) (hv : ValidDoc j = true)
    (hd : jsonNesting j ≤ 127) (hn : schemaSize j ≤ n) (hc : NoUnconditionalCycle j) :
    ∃ S, parseJson j n = .ok S := by
  obtain ⟨raw, k, st, hraw, hreg, hun, hgraph⟩ := C07_valid_parses_graph j n hv hd hn
  obtain ⟨rank, hrank⟩ := hc
  exact ⟨_, hgraph (ranked_acyclic hreg hun (read_ranked hraw none hrank))⟩

/-- **C07**: a valid document parses, and the parsed graph denotes what the specification says
    the document denotes: its canonical form — every definition under the fullname the
    specification gives it, every reference replaced by the fullname it designates and bound to
    the node of that definition — is the specification's Parsing Canonical Form of the
    document. -/
theorem C07_valid_parses_and_resolves (j : Json) (n : Nat) (hv : ValidDoc j = true)
    (hd : jsonNesting j ≤ 127) (hn : schemaSize j ≤ n) (hc : NoUnconditionalCycle j) :
    ∃ S text, parseJson j n = .ok S ∧ parsingCanonicalForm j = some text ∧
      ∀ fuel, n + 2 ≤ fuel → canonicalForm S fuel = .ok text := by
  obtain ⟨S, hS⟩ := C07_valid_parses j n hv hd hn hc
  obtain ⟨text, h1, h2⟩ := C08_pcf_is_spec_text j n S hS (validDoc_parts hv).2.1
  exact ⟨S, text, hS, h1, h2⟩

/-- All hypotheses decidable: `ValidDoc`, the two size bounds, and the test
    `noUnconditionalCycleB` (which computes a ranking and checks it). -/
theorem C07_valid_parses_checked (j : Json) (n : Nat) (hv : ValidDoc j = true)
    (hd : jsonNesting j ≤ 127) (hn : schemaSize j ≤ n) (hc : noUnconditionalCycleB j = true) :
    ∃ S text, parseJson j n = .ok S ∧ parsingCanonicalForm j = some text ∧
      ∀ fuel, n + 2 ≤ fuel → canonicalForm S fuel = .ok text :=
  C07_valid_parses_and_resolves j n hv hd hn (noUnconditionalCycleB_sound hc)

/-! ### tightness -/

/-- A general converse for the first conjunct: an accepted document without forward reference
    has the shape of a schema. -/
theorem C07_parses_shape (j : Json) (n : Nat) (S : SchemaMut) (h : parseJson j n = .ok S)
    (hnf : noForwardRefs j = true) : shape j = true := by
  obtain ⟨c, hc, -⟩ := C08_pcf_is_spec j n S h hnf
  simp [shape, hc]

/-- A general converse for the third conjunct: an accepted document defines no fullname twice
    (and the name table of its registration is the list of the names it defines). -/
theorem C07_parses_names_distinct (j : Json) (n : Nat) (S : SchemaMut)
    (h : parseJson j n = .ok S) : namesDistinct j = true := by
  obtain ⟨raw, k, st, -, hraw, hreg, -, -, -⟩ := C07_parse_ok j n S h
  have := (registered_defs_nodup hreg).1
  rw [← read_defs hraw none] at this
  exact nodupB_of_nodup this

/-- the four conjuncts, the two sizes, the outcome -/
structure Verdict where
  shape : Bool
  noForwardRefs : Bool
  namesDistinct : Bool
  wellTyped : Bool
  depthOk : Bool
  sizeOk : Bool
  error : Option SchemaErr
  deriving DecidableEq, Repr

def verdict (j : Json) (n : Nat) : Verdict :=
  ⟨shape j, noForwardRefs j, namesDistinct j, wellTyped j, decide (jsonNesting j ≤ 127),
    decide (schemaSize j ≤ n),
    match parseJson j n with
    | .ok _ => none
    | .error e => some e⟩

/-- 1. `shape`: an array without `items` (the other missing attributes: `C07_rejects_missing_*`). -/
example : verdict (.obj [("type", .str "array")]) 100 =
    ⟨false, true, true, true, true, true, some .custom⟩ := by decide +kernel

example : verdict (.obj [("type", .str "fixed"), ("name", .str "F")]) 100 =
    ⟨false, true, true, true, true, true, some .custom⟩ := by decide +kernel

example : verdict (.obj [("type", .str "record"), ("fields", .arr [])]) 100 =
    ⟨false, true, true, true, true, true, some .custom⟩ := by decide +kernel

/-- 2. `noForwardRefs`: a reference to a name that is defined nowhere is rejected
    (`C07_rejects_unknown_ref`) ... -/
example : verdict (.obj [("type", .str "array"), ("items", .str "Foo")]) 100 =
    ⟨true, false, true, true, true, true, some .custom⟩ := by decide +kernel

/-- ... whereas a reference that merely PRECEDES its definition is accepted by the crate ("we
    support even if it's unordered"): there the parser is more liberal than the specification,
    `ValidDoc` is sufficient but not necessary, and the canonical form is no longer the
    specification's (`C08_forward_ref_differs`). -/
example : verdict docForwardRef 100 = ⟨true, false, true, true, true, true, none⟩ := by
  decide +kernel

/-- 3. `namesDistinct`: two definitions of the fullname `E` (`C07_rejects_duplicate`). -/
example : verdict (.arr [
      .obj [("type", .str "enum"), ("name", .str "E"), ("symbols", .arr [.str "A"])],
      .obj [("type", .str "enum"), ("name", .str "E"), ("symbols", .arr [.str "B"])]]) 100 =
    ⟨true, true, false, true, true, true, some .custom⟩ := by decide +kernel

/-- 4. `wellTyped`: a member given twice. -/
example : verdict (.obj [("type", .str "int"), ("type", .str "int")]) 100 =
    ⟨true, true, true, false, true, true, some .json⟩ := by decide +kernel

/-- the recursion limit of `serde_json`: array schemas nested 127 deep are accepted, 128 deep are
    rejected (as the crate does) -/
def nestedArrays : Nat → Json
  | 0 => .str "int"
  | n + 1 => .obj [("type", .str "array"), ("items", nestedArrays n)]

example : ValidDoc (nestedArrays 127) = true ∧ jsonNesting (nestedArrays 127) = 127 ∧
    verdict (nestedArrays 127) 300 = ⟨true, true, true, true, true, true, none⟩ := by
  refine ⟨by decide +kernel, by decide +kernel, by decide +kernel⟩

example : ValidDoc (nestedArrays 128) = true ∧ jsonNesting (nestedArrays 128) = 128 ∧
    verdict (nestedArrays 128) 300 = ⟨true, true, true, true, false, true, some .json⟩ := by
  refine ⟨by decide +kernel, by decide +kernel, by decide +kernel⟩

/-- `serde_json` checks the depth also while it skips a member the schema reader ignores: a
    perfectly good schema with a deeply nested `doc` is rejected. -/
def deepValue : Nat → Json
  | 0 => .null
  | n + 1 => .arr [deepValue n]

example : verdict (.obj [("type", .str "int"), ("doc", deepValue 126)]) 100 =
      ⟨true, true, true, true, true, true, none⟩ ∧
    verdict (.obj [("type", .str "int"), ("doc", deepValue 127)]) 100 =
      ⟨true, true, true, true, false, true, some .json⟩ := by
  refine ⟨by decide +kernel, by decide +kernel⟩

/-- the registration fuel: `schemaSize (nestedArrays 2) = 6`; with 3 the model runs out of fuel
    (`panic` is the model's out-of-fuel, not an outcome of the crate) -/
example : verdict (nestedArrays 2) 3 = ⟨true, true, true, true, true, false, some .panic⟩ ∧
    verdict (nestedArrays 2) 6 = ⟨true, true, true, true, true, true, none⟩ := by
  refine ⟨by decide +kernel, by decide +kernel⟩

/-- `record R { f : R }`: valid per the specification, no ranking exists, rejected. -/
def docSelfRecord : Json :=
  .obj [("type", .str "record"), ("name", .str "R"),
    ("fields", .arr [.obj [("name", .str "f"), ("type", .str "R")]])]

theorem C07_self_record_not_ranked : ¬ NoUnconditionalCycle docSelfRecord := by
  rintro ⟨rank, h⟩
  have e : ranked rank none docSelfRecord =
      decide (rank (none, "R") < rank (none, "R")) := by
    simp only [docSelfRecord, ranked, rankedFieldsAttr, rankedFields, rankedFieldType,
      directBelow, strAttr, attr]
    simp (decide := true) [fullnameOfDef, fullnameOfRef, splitLastDot, isPrimitive, primitiveNames]
  rw [e] at h
  simp at h

example : verdict docSelfRecord 100 = ⟨true, true, true, true, true, true, some .cycle⟩ := by
  decide +kernel

/-- two records that contain each other -/
example : verdict (.obj [("type", .str "record"), ("name", .str "A"),
      ("fields", .arr [.obj [("name", .str "b"), ("type",
        .obj [("type", .str "record"), ("name", .str "B"),
          ("fields", .arr [.obj [("name", .str "a"), ("type", .str "A")]])])]])]) 100 =
    ⟨true, true, true, true, true, true, some .cycle⟩ := by decide +kernel

/-! ### findings: allowed by the specification, rejected by the parser

Each is a document on which only the part of `ValidDoc` that goes BEYOND the specification
fails (see the header of `Spec/ValidDoc.lean`), and which the parser model rejects. -/

/-- (a) `name` on a type that is not a named type is metadata for the specification; the parser
    enters it into the name table: two of them collide. -/
example : verdict (.arr [.obj [("type", .str "int"), ("name", .str "a")],
                         .obj [("type", .str "long"), ("name", .str "a")]]) 100 =
    ⟨true, true, false, true, true, true, some .custom⟩ := by decide +kernel

/-- (b) a member the specification defines for another type is read with the type it has there:
    `{"type":"int","items":5}`. -/
example : verdict (.obj [("type", .str "int"), ("items", .nat 5)]) 100 =
    ⟨true, true, true, false, true, true, some .json⟩ := by decide +kernel

/-- (b) `scale` beyond 32 bits. -/
example : verdict (.obj [("type", .str "bytes"), ("logicalType", .str "decimal"),
      ("precision", .nat 4), ("scale", .nat 4294967296)]) 100 =
    ⟨true, true, true, false, true, true, some .json⟩ := by decide +kernel

/-- (c) an invalid logical type ("implementations should ignore the logical type and use the
    underlying Avro type"): `decimal` without `precision`. -/
example : verdict (.obj [("type", .str "bytes"), ("logicalType", .str "decimal")]) 100 =
    ⟨true, true, true, false, true, true, some .custom⟩ := by decide +kernel

/-- (d) only primitive type names are reserved: a record may be called `record`; the reference
    to it is taken for a complex type without its object. -/
example : verdict (.obj [("type", .str "record"), ("name", .str "record"),
      ("fields", .arr [.obj [("name", .str "next"),
        ("type", .arr [.str "null", .str "record"])]])]) 100 =
    ⟨true, true, true, false, true, true, some .custom⟩ := by decide +kernel

/-- Width does not count (`serde_json` counts nesting only; an earlier version of the model
    spent its depth fuel on list elements and rejected a flat record with 126 fields): a record
    with 200 fields and a union with 200 branches are accepted. -/
def wideRecord (n : Nat) : Json :=
  .obj [("type", .str "record"), ("name", .str "W"),
    ("fields", .arr ((List.range n).map fun i =>
      .obj [("name", .str ("f" ++ toString i)), ("type", .str "int")]))]

/-- (not a valid union for the specification — the crate does not check that — but a wide one) -/
def wideUnion (n : Nat) : Json := .arr (List.replicate n (.str "int"))

example : jsonNesting (wideRecord 200) = 3 := by decide +kernel

example : verdict (wideRecord 200) 1000 = ⟨true, true, true, true, true, true, none⟩ := by
  decide +kernel

example : jsonNesting (wideUnion 200) = 1 := by decide +kernel

example : verdict (wideUnion 200) 1000 = ⟨true, true, true, true, true, true, none⟩ := by
  decide +kernel

/-! ### non-vacuity -/

/-- Namespaces inherited through an array, a union and a map, `"namespace": ""`, a dotted name
    overriding the `namespace` attribute, references by simple name / fullname / leading dot,
    logical types (`decimal` with precision, `timestamp-micros`), members in any order, `doc`. -/
example : ValidDoc docNamespaces = true ∧ jsonNesting docNamespaces = 6 ∧
    schemaSize docNamespaces = 38 ∧ verdict docNamespaces 38 =
      ⟨true, true, true, true, true, true, none⟩ ∧
    definedNames docNamespaces =
      [(some "a.b", "R"), (some "a.b", "E"), (none, "F"), (some "x.y", "G")] := by
  refine ⟨by decide +kernel, by decide +kernel, by decide +kernel, by decide +kernel,
    by decide +kernel⟩

/-- A recursive record under a union. -/
example : ValidDoc docRecursive = true ∧ verdict docRecursive 13 =
      ⟨true, true, true, true, true, true, none⟩ ∧
    definedNames docRecursive = [(some "ns", "Node")] := by
  refine ⟨by decide +kernel, by decide +kernel, by decide +kernel⟩

/-- Nested records with their own namespaces, the same simple name in two namespaces. -/
example : ValidDoc docNested = true ∧ verdict docNested 30 =
      ⟨true, true, true, true, true, true, none⟩ ∧
    definedNames docNested =
      [(some "o", "Outer"), (some "i", "Inner"), (some "i", "E"), (some "o", "E")] := by
  refine ⟨by decide +kernel, by decide +kernel, by decide +kernel⟩

/-- An unknown logical type is accepted; `decimal` on a fixed, `scale` omitted. -/
def docLogical : Json :=
  .obj [("type", .str "record"), ("name", .str "com.example.Amounts"), ("namespace", .str "ignored"),
    ("fields", .arr [
      .obj [("name", .str "a"), ("type",
        .obj [("type", .str "fixed"), ("name", .str "Dec"), ("size", .nat 8),
          ("logicalType", .str "decimal"), ("precision", .nat 18)])],
      .obj [("name", .str "b"), ("type",
        .obj [("type", .str "string"), ("logicalType", .str "made-up")])],
      .obj [("name", .str "c"), ("type", .arr [.str "null", .str "Dec", .str "com.example.Dec"])],
      .obj [("name", .str "d"), ("type",
        .obj [("type", .str "map"), ("values", .str "Amounts")]), ("default", .obj [])]])]

example : ValidDoc docLogical = true ∧ verdict docLogical 40 =
      ⟨true, true, true, true, true, true, none⟩ ∧
    definedNames docLogical = [(some "com.example", "Amounts"), (some "com.example", "Dec")] ∧
    parsingCanonicalForm docLogical = some
      "{\"name\":\"com.example.Amounts\",\"type\":\"record\",\"fields\":[{\"name\":\"a\",\"type\":{\"name\":\"com.example.Dec\",\"type\":\"fixed\",\"size\":8}},{\"name\":\"b\",\"type\":\"string\"},{\"name\":\"c\",\"type\":[\"null\",\"com.example.Dec\",\"com.example.Dec\"]},{\"name\":\"d\",\"type\":{\"type\":\"map\",\"values\":\"com.example.Amounts\"}}]}" := by
  refine ⟨by decide +kernel, by decide +kernel, by decide +kernel, by decide +kernel⟩

/-- rankings: in `docRecursive` the record contains itself only through a union; in `docNested`
    `Outer` directly contains `Inner`, which directly contains the enum `i.E`. -/
theorem docRecursive_acyclic : NoUnconditionalCycle docRecursive :=
  ⟨fun _ => 0, by decide +kernel⟩

theorem docNested_acyclic : NoUnconditionalCycle docNested :=
  ⟨fun fn => if fn.2 = "Outer" then 2 else if fn.2 = "Inner" then 1 else 0, by decide +kernel⟩

theorem docLogical_acyclic : NoUnconditionalCycle docLogical :=
  ⟨fun fn => if fn.2 = "Amounts" then 1 else 0, by decide +kernel⟩

/-- The theorem on concrete documents: accepted, and the canonical form of what was parsed is the
    specification's. -/
example : ∃ S text, parseJson docNested 30 = .ok S ∧
    parsingCanonicalForm docNested = some text ∧
    ∀ fuel, 32 ≤ fuel → canonicalForm S fuel = .ok text :=
  C07_valid_parses_and_resolves docNested 30 (by decide +kernel) (by decide +kernel)
    (by decide +kernel) docNested_acyclic

/-- ... with every hypothesis evaluated. -/
example : ∃ S text, parseJson docNamespaces 38 = .ok S ∧
    parsingCanonicalForm docNamespaces = some text ∧
    ∀ fuel, 40 ≤ fuel → canonicalForm S fuel = .ok text :=
  C07_valid_parses_checked docNamespaces 38 (by decide +kernel) (by decide +kernel)
    (by decide +kernel) (by decide +kernel)

example : noUnconditionalCycleB docSelfRecord = false := by decide +kernel

example (n : Nat) (hn : 13 ≤ n) : ∃ S, parseJson docRecursive n = .ok S :=
  C07_valid_parses docRecursive n (by decide +kernel) (by decide +kernel)
    (Nat.le_trans (by decide +kernel) hn) docRecursive_acyclic

example (n : Nat) (hn : 40 ≤ n) : ∃ S, parseJson docLogical n = .ok S :=
  C07_valid_parses docLogical n (by decide +kernel) (by decide +kernel)
    (Nat.le_trans (by decide +kernel) hn) docLogical_acyclic

end Avro.Theorems
