import AvroModel.Theorems.C15
import AvroModel.Theorems.C15general
import AvroModel.Theorems.C15real
/-
C15 — container writer, all parts together:
* `Theorems/C15.lean`: the refinement to the abstract writer, the sink after every call, the file
  parses at every quiescent point, failed values leave no trace (for histories whose pushes carry a
  count ≥ 1);
* `Theorems/C15general.lean`: ANY history (pushes with count 0 included): the framing-level
  guarantees survive, what is lost is characterised exactly (with concrete instances), the
  count-≥-1 theorem is the special case;
* `Theorems/C15real.lean`: the failed-value step tied to the REAL serializer model: whatever
  `ser` wrote before returning an error is truncated away, for every presentation and every
  error; a panic (not an error) is not truncated (`C15_panic_not_truncated`).
-/
