import AvroModel.Lemmas.SerCanonical
import AvroModel.Theorems.C01
import AvroModel.Theorems.C01de
import AvroModel.Theorems.C02
/-
C01 — the glue step left open in `Theorems/C01full.lean` and the end-to-end datum round trip.

* `C01_ser_canonical`: what the implementation's serializer writes IS the canonical specification
  encoding `Spec.encode S node v` of a value `v` the presentation denotes (C02 only says the bytes
  *decode* to `v`).  Two conditions beyond those of `C02_sound_strong` are needed, and the
  counterexamples below show that they are needed.  Each has the form "the presentation does not
  do X (`Canon.svCanon f sv`), or (`f` permits X and) no node of the schema is of the kind on
  which X is not canonical (`Canon.nodeAllows f`)"; `f : Canon.Allow` holds the three permissions.
    - sequences and maps (`f.openSeq`, `f.openMap`): every `seq`/`map` of the presentation
      advertises a length that covers its elements (`elems.length ≤ len.getD 0`), or advertises
      nothing and has exactly one element (`Canon.lenCovers`).  This is exact on `array`/`map`
      nodes: the block writer starts a block of `len.unwrap_or(0)` items, fails at `end` if fewer
      came, and opens one further block PER surplus element, so `serialize_seq(None)` with two or
      more elements (and any advertised length that is too small) gives several blocks: a legal
      layout `Spec.decode` accepts, but not the canonical single block.  (`tuple`, `struct`, …
      pass the exact length and need nothing.  On `bytes`/`fixed`/`duration`/`record` nodes no
      block is written and the length is irrelevant; `svCanon` is syntactic and does not see the
      node, which is what the permissions are for: e.g. with `f.openMap` any `serialize_map(None)`
      — serde's `flatten` — is accepted, provided the schema has no `map` node.)
    - negative integers (`f.negInt`) on a `decimal`/`bytes` node: `serialize_integer` strips
      leading `0x00` bytes only (`stripZeros`), so `-1` is written on 16 bytes `0xFF`; legal, not
      minimal.
* `C01_roundtrip_impl`: `ser` followed by the implementation's deserializer with a dynamically
  typed target returns `Spec.observe` of a value the presentation denotes and consumes exactly
  the bytes written (composition with `C01_de_accepts`).
-/
namespace Avro.Theorems
open Avro Avro.Impl Avro.Spec

/-! ### Part 1: the serializer writes the canonical encoding -/

/-- **C01 glue.**  Under the hypotheses of `C02_sound_strong`, for a presentation whose sequences
    advertise their length (`svCanon`), a successful `ser` appends exactly `Spec.encode S node v`
    for a value `v` that the presentation denotes.  `f` lists what the presentation is permitted
    (negative integers, `seq`/`map` with an uncovering length); nodes on which a permitted
    presentation would not be canonical are excluded from the schema (`nodeAllows`). -/
theorem C01_ser_canonical (f : Canon.Allow) (ext : Ext) (allowSlow : Bool)
    (S : Schema) (node : Node) (sv : SV) (s : SerState)
    (hok : (ser ext allowSlow S node sv s).1 = .ok ())
    (hs : Good s) (hS : SchemaOK S) (hnode : NodeOK S node) (hsv : svOK sv = true)
    (hext : ExtOK ext)
    (hcanon : Canon.svCanon f sv = true)
    (hallowS : ∀ (k : Nat) (n : Node), S[k]? = some n → Canon.nodeAllows f n = true)
    (hallowN : Canon.nodeAllows f node = true) :
    ∃ s' v bytes, ser ext allowSlow S node sv s = (.ok (), s') ∧ s'.out = s.out ++ bytes ∧ Good s' ∧
      Spec.encode S node v = some bytes ∧
      Spec.denotes (denExtOf ext) S node sv v = true :=
  Canon.ser_canon_aux (fun k n hk => ⟨hS k n hk, hallowS k n hk⟩) hext (sizeOf sv) sv (Nat.le_refl _)
    hsv hcanon node s ⟨hnode, hallowN⟩ hs hok

/-- No permission asked (`{}`: no negative integer, every `seq`/`map` advertises a covering
    length): exactly the hypotheses of `C02_sound_strong` plus `svCanon {} sv`. -/
theorem C01_ser_canonical_strict (ext : Ext) (allowSlow : Bool) (S : Schema)
    (node : Node) (sv : SV) (s : SerState)
    (hok : (ser ext allowSlow S node sv s).1 = .ok ())
    (hs : Good s) (hS : SchemaOK S) (hnode : NodeOK S node) (hsv : svOK sv = true)
    (hext : ExtOK ext) (hcanon : Canon.svCanon {} sv = true) :
    ∃ s' v bytes, ser ext allowSlow S node sv s = (.ok (), s') ∧ s'.out = s.out ++ bytes ∧ Good s' ∧
      Spec.encode S node v = some bytes ∧
      Spec.denotes (denExtOf ext) S node sv v = true :=
  C01_ser_canonical {} ext allowSlow S node sv s hok hs hS hnode hsv hext hcanon
    (fun _ n _ => Canon.nodeAllows_strict n) (Canon.nodeAllows_strict node)

/-- The same with the decidable schema checks of `C02_sound_partial`. -/
theorem C01_ser_canonical_checks (f : Canon.Allow) (ext : Ext) (allowSlow : Bool)
    (S : Schema) (node : Node) (sv : SV) (o : Bytes) (p : Pool)
    (hok : (ser ext allowSlow S node sv { out := o, budget := none, pool := p }).1 = .ok ())
    (hp : PoolClean p) (hk : S.keysInBounds = true) (hd : schemaNamesDistinct S = true)
    (hsmall : schemaSmall S = true) (hnn : schemaNoNestedUnion S = true)
    (hnode : nodeOKb S node = true)
    (hsv : svOK sv = true) (hext : ExtOK ext)
    (hcanon : Canon.svCanon f sv = true)
    (hallowS : Canon.schemaAllows f S = true) (hallowN : Canon.nodeAllows f node = true) :
    ∃ v bytes,
      (ser ext allowSlow S node sv { out := o, budget := none, pool := p }).2.out = o ++ bytes ∧
      Spec.encode S node v = some bytes ∧
      Spec.denotes (denExtOf ext) S node sv v = true ∧
      PoolClean (ser ext allowSlow S node sv { out := o, budget := none, pool := p }).2.pool := by
  obtain ⟨s', v, bytes, hrun, hout, hg, henc, hden⟩ :=
    C01_ser_canonical f ext allowSlow S node sv { out := o, budget := none, pool := p } hok
      ⟨rfl, hp⟩ (SchemaOK.of_checks hk hd hsmall hnn) (NodeOK.of_check hnode) hsv hext hcanon
      (fun _ _ hk' => Array.all_getElem? hallowS hk') hallowN
  exact ⟨v, bytes, by rw [hrun]; exact hout, henc, hden, by rw [hrun]; exact hg.2⟩

/-- The canonical encoding is in particular decodable: `C01_ser_canonical` implies the conclusion
    of `C02_sound_strong` for the same value. -/
theorem C01_canonical_decodes (S : Schema) (node : Node) (v : Value) (bytes : Bytes)
    (h : Spec.encode S node v = some bytes) :
    ∀ fuel, Spec.size v ≤ fuel → ∀ rest, Spec.decode S fuel node (bytes ++ rest) = some (v, rest) :=
  fun fuel hf rest => Spec.decode_encode S node v bytes rest h fuel hf

/-! ### Part 2: `ser` then `de` -/

/-- **C01, end to end.**  Serializing a presentation and deserializing the bytes written (followed
    by anything) with the untyped target yields `Spec.observe` of a value `v` the presentation
    denotes, and leaves exactly what followed.  The side conditions of `C01_de_accepts` that
    speak about the value (`observe` defined, nesting depth, sequence lengths, fuel) are stated on
    that `v`; the one about decimals on `fixed` is stated on the schema. -/
theorem C01_roundtrip_impl (f : Canon.Allow) (ext : Ext) (allowSlow : Bool)
    (S : Schema) (node : Node) (sv : SV) (s₀ : SerState)
    (hok : (ser ext allowSlow S node sv s₀).1 = .ok ())
    (hs : Good s₀) (hS : SchemaOK S) (hnode : NodeOK S node) (hsv : svOK sv = true)
    (hext : ExtOK ext)
    (hcanon : Canon.svCanon f sv = true)
    (hallowS : ∀ (k : Nat) (n : Node), S[k]? = some n → Canon.nodeAllows f n = true)
    (hallowN : Canon.nodeAllows f node = true)
    (hfixS : Schema.fixedDecFits S) (hfixN : node.fixedDecFits = true) :
    ∃ s' bytes v, ser ext allowSlow S node sv s₀ = (.ok (), s') ∧ s'.out = s₀.out ++ bytes ∧
      Spec.encode S node v = some bytes ∧
      Spec.denotes (denExtOf ext) S node sv v = true ∧
      ∀ (cfg : DeConfig) (depth : Nat) (o : Out), Spec.observe S node v = some o →
        Spec.depthOf v ≤ depth → Spec.maxLen v ≤ cfg.maxSeqSize →
        ∀ fuel, Spec.size v * 4 + 8 ≤ fuel → ∀ (rest : Bytes) (r : RState),
          r.isSlice = true → r.limit = none → r.avail = 0 → r.rest = bytes ++ rest →
          de deExtModel cfg S fuel node depth false .any r = (.ok o, { r with rest := rest }) := by
  obtain ⟨s', v, bytes, hrun, hout, _, henc, hden⟩ :=
    C01_ser_canonical f ext allowSlow S node sv s₀ hok hs hS hnode hsv hext hcanon hallowS hallowN
  refine ⟨s', bytes, v, hrun, hout, henc, hden, ?_⟩
  intro cfg depth o hobs hdepth hseq fuel hfuel rest r hsl hl ha hr
  exact C01_de_accepts_schema cfg S node v bytes rest o depth henc hobs hfixS hfixN hdepth hseq
    fuel hfuel r hsl hl ha hr

/-- The round trip with the limits stated on the presentation: if every value the presentation
    denotes is observable and within the deserializer's depth and length limits, then `de` on the
    bytes `ser` wrote returns the observation of such a value and leaves `rest`. -/
theorem C01_roundtrip_impl_bounded (f : Canon.Allow) (ext : Ext) (allowSlow : Bool)
    (cfg : DeConfig) (S : Schema) (node : Node) (sv : SV) (s₀ : SerState) (depth : Nat)
    (hok : (ser ext allowSlow S node sv s₀).1 = .ok ())
    (hs : Good s₀) (hS : SchemaOK S) (hnode : NodeOK S node) (hsv : svOK sv = true)
    (hext : ExtOK ext)
    (hcanon : Canon.svCanon f sv = true)
    (hallowS : ∀ (k : Nat) (n : Node), S[k]? = some n → Canon.nodeAllows f n = true)
    (hallowN : Canon.nodeAllows f node = true)
    (hfixS : Schema.fixedDecFits S) (hfixN : node.fixedDecFits = true)
    (hlim : ∀ v, Spec.denotes (denExtOf ext) S node sv v = true →
      (Spec.observe S node v).isSome = true ∧ Spec.depthOf v ≤ depth ∧
        Spec.maxLen v ≤ cfg.maxSeqSize) :
    ∃ s' bytes v o, ser ext allowSlow S node sv s₀ = (.ok (), s') ∧ s'.out = s₀.out ++ bytes ∧
      Spec.denotes (denExtOf ext) S node sv v = true ∧ Spec.observe S node v = some o ∧
      ∀ fuel, Spec.size v * 4 + 8 ≤ fuel → ∀ rest : Bytes,
        de deExtModel cfg S fuel node depth false .any { rest := bytes ++ rest } =
          (.ok o, { rest := rest }) := by
  obtain ⟨s', bytes, v, hrun, hout, _, hden, hde⟩ :=
    C01_roundtrip_impl f ext allowSlow S node sv s₀ hok hs hS hnode hsv hext hcanon hallowS hallowN
      hfixS hfixN
  obtain ⟨hobs, hdepth, hseq⟩ := hlim v hden
  obtain ⟨o, ho⟩ := Option.isSome_iff_exists.1 hobs
  refine ⟨s', bytes, v, o, hrun, hout, hden, ho, ?_⟩
  intro fuel hfuel rest
  exact hde cfg depth o ho hdepth hseq fuel hfuel rest { rest := bytes ++ rest } rfl rfl rfl rfl

/-! ### The two extra hypotheses are needed -/

/-- the canonical encoding determines the value -/
theorem encode_injective {S : Schema} {n : Node} {v v' : Value} {bytes : Bytes}
    (h : Spec.encode S n v = some bytes) (h' : Spec.encode S n v' = some bytes) : v = v' := by
  have h1 := Spec.decode_encode_nil S n v bytes h (max (Spec.size v) (Spec.size v')) (by omega)
  have h2 := Spec.decode_encode_nil S n v' bytes h' (max (Spec.size v) (Spec.size v')) (by omega)
  rw [h1] at h2
  simpa using h2

/-- a byte string that decodes completely to a value whose encoding is another string is nobody's
    canonical encoding -/
theorem not_canonical_of_decode {S : Schema} {n : Node} {bytes : Bytes} {v0 : Value} (fuel : Nat)
    (hdec : Spec.decode S fuel n bytes = some (v0, []))
    (hne : Spec.encode S n v0 ≠ some bytes) : ∀ v, Spec.encode S n v ≠ some bytes := by
  intro v hv
  have h1 := Spec.decode_encode_nil S n v bytes hv (max fuel (Spec.size v)) (by omega)
  have h2 := Spec.decode_fuel_mono S fuel (max fuel (Spec.size v)) n bytes _ hdec (by omega)
  rw [h1] at h2
  simp only [Option.some.injEq, Prod.mk.injEq, and_true] at h2
  subst h2
  exact hne hv

namespace C01glue

theorem el0 : encodeLong 0 = [0] := by simp [encodeLong, zigzag, encodeNat]
theorem el1 : encodeLong 1 = [2] := by simp [encodeLong, zigzag, encodeNat]
theorem el2 : encodeLong 2 = [4] := by simp [encodeLong, zigzag, encodeNat]
theorem elm3 : encodeLong (-3) = [5] := by simp [encodeLong, zigzag, encodeNat]
theorem el16 : encodeLong 16 = [32] := by simp [encodeLong, zigzag, encodeNat]
theorem ev0 : encodeVarI64 0 = [0] := by rw [encodeVarI64_eq_spec _ (by decide), el0]
theorem ev1 : encodeVarI64 1 = [2] := by rw [encodeVarI64_eq_spec _ (by decide), el1]
theorem ev2 : encodeVarI64 2 = [4] := by rw [encodeVarI64_eq_spec _ (by decide), el2]
theorem evm3 : encodeVarI64 (-3) = [5] := by rw [encodeVarI64_eq_spec _ (by decide), elm3]
theorem ev16 : encodeVarI64 16 = [32] := by rw [encodeVarI64_eq_spec _ (by decide), el16]
theorem dl0 (rest : Bytes) : decodeLong (0 :: rest) = some (0, rest) := by
  simp [decodeLong, decodeNat, unzigzag]
theorem dl2 (rest : Bytes) : decodeLong (2 :: rest) = some (1, rest) := by
  simp [decodeLong, decodeNat, unzigzag]
theorem dl4 (rest : Bytes) : decodeLong (4 :: rest) = some (2, rest) := by
  simp [decodeLong, decodeNat, unzigzag]

/-- an external library that satisfies `ExtOK` (no decimal conversions) -/
def ext1 : Ext :=
  { asF32 := fun _ => 0, decFromF64 := fun _ => none, decParse := fun _ => none,
    decRescale := fun _ _ => (0, 0) }

theorem ext1_ok : ExtOK ext1 :=
  ⟨fun _ _ _ => by simp [ext1, inI128], fun _ _ h => by simp [ext1] at h, fun _ _ h => by simp [ext1] at h⟩

theorem good_empty : Good {} := ⟨rfl, by simp [PoolClean]⟩

end C01glue
open C01glue

def Sarr : Schema := #[.int]

theorem Sarr_ok : SchemaOK Sarr :=
  SchemaOK.of_checks (by simp [Schema.keysInBounds, Sarr, Node.children])
    (by simp [schemaNamesDistinct, Sarr, nodeNamesDistinct]) (by simp [schemaSmall, Sarr, nodeSmall])
    (by simp [schemaNoNestedUnion, Sarr, nodeNoNestedUnion])

theorem Sarr_array_ok : NodeOK Sarr (.array 0) :=
  NodeOK.of_check (by simp [nodeOKb, Sarr, Node.children, nodeNamesDistinct, nodeSmall,
    nodeNoNestedUnion])

theorem Sarr_noncanonical : ∀ v, Spec.encode Sarr (.array 0) v ≠ some [2, 2, 2, 4, 0] := by
  have h0 : Sarr[0]? = some .int := by decide
  refine not_canonical_of_decode (v0 := .array [.int 1, .int 2]) 5 ?_ ?_
  · simp [decode, decodeBlocks, decodeItems, nodeOf, h0, decodeBlockHeader, dl2, dl4, dl0, InI32]
  · simp [encode, encodeItems, nodeOf, h0, InI32, el1, el2]

/-- Counterexample A (`serialize_seq(None)` on an array): every hypothesis of `C01_ser_canonical`
    except `svCanon` holds, `ser` succeeds, and writes one block per element: `[2,2, 2,4, 0]`
    (`Spec.decode` reads it back as `[1, 2]`, whose canonical encoding is `[4, 2, 4, 0]`). -/
theorem C01_counterexample_seq_none :
    ser ext1 false Sarr (.array 0) (.seq none [.int .i32 1, .int .i32 2]) {} =
      (.ok (), { out := [2, 2, 2, 4, 0] }) ∧
    Good {} ∧ SchemaOK Sarr ∧ NodeOK Sarr (.array 0) ∧
    svOK (.seq none [.int .i32 1, .int .i32 2]) = true ∧ ExtOK ext1 ∧
    Canon.svCanon {} (.seq none [.int .i32 1, .int .i32 2]) = false ∧
    ∀ v, Spec.encode Sarr (.array 0) v ≠ some [2, 2, 2, 4, 0] := by
  have h0 : Sarr[0]? = some .int := by decide
  refine ⟨?_, good_empty, Sarr_ok, Sarr_array_ok, by decide, ext1_ok, by decide,
    Sarr_noncanonical⟩
  simp [ser, seqStart, viaUnion, seqStartAt, nodeAt, h0, bind, pure, blockNew, serElems,
    blockSignal, writeVarI64, writeAll, serInteger, seqFinish, seqEnd, seqDrop, blockEnd,
    SerM.finally, ev0, ev1, ev2]

/-- Counterexample B (an advertised length that does not cover the elements): `seq (some 1)` with
    two elements writes a block of one and then a second block. -/
theorem C01_counterexample_seq_short :
    ser ext1 false Sarr (.array 0) (.seq (some 1) [.int .i32 1, .int .i32 2]) {} =
      (.ok (), { out := [2, 2, 2, 4, 0] }) ∧
    svOK (.seq (some 1) [.int .i32 1, .int .i32 2]) = true ∧
    Canon.svCanon {} (.seq (some 1) [.int .i32 1, .int .i32 2]) = false ∧
    ∀ v, Spec.encode Sarr (.array 0) v ≠ some [2, 2, 2, 4, 0] := by
  have h0 : Sarr[0]? = some .int := by decide
  refine ⟨?_, by decide, by decide, Sarr_noncanonical⟩
  simp [ser, seqStart, viaUnion, seqStartAt, nodeAt, h0, bind, pure, blockNew, serElems,
    blockSignal, writeVarI64, writeAll, serInteger, seqFinish, seqEnd, seqDrop, blockEnd,
    SerM.finally, ev0, ev1, ev2]

/-- Without `svCanon` the statement of `C01_ser_canonical` is false. -/
theorem C01_ser_canonical_needs_svCanon :
    ¬ (∀ (ext : Ext) (allowSlow : Bool) (S : Schema) (node : Node) (sv : SV) (s : SerState),
      (ser ext allowSlow S node sv s).1 = .ok () → Good s → SchemaOK S → NodeOK S node →
      svOK sv = true → ExtOK ext →
      ∃ s' v bytes, ser ext allowSlow S node sv s = (.ok (), s') ∧ s'.out = s.out ++ bytes ∧
        Spec.encode S node v = some bytes) := by
  intro h
  obtain ⟨hrun, hg, hS, hn, hsv, hext, _, hne⟩ := C01_counterexample_seq_none
  obtain ⟨s', v, bytes, hrun', hout, henc⟩ := h ext1 false Sarr (.array 0) _ {} (by rw [hrun]) hg hS hn hsv hext
  rw [hrun] at hrun'
  simp only [Prod.mk.injEq, true_and] at hrun'
  subst hrun'
  simp only [List.nil_append] at hout
  subst hout
  exact hne v henc

/-- `serialize_seq(None)` with a single element is the one case without an advertised length in
    which the layout is canonical, and `svCanon` accepts it. -/
example : Canon.svCanon {} (.seq none [.int .i32 7]) = true := by decide

def Smap : Schema := #[.int]

/-- Counterexample C (`serialize_map(None)` on a map): again one block per entry. -/
theorem C01_counterexample_map_none :
    ser ext1 false Smap (.map 0) (.map none [(.str "", .int .i32 1), (.str "", .int .i32 2)]) {} =
      (.ok (), { out := [2, 0, 2, 2, 0, 4, 0] }) ∧
    Canon.svCanon {} (.map none [(.str "", .int .i32 1), (.str "", .int .i32 2)]) = false ∧
    ∀ v, Spec.encode Smap (.map 0) v ≠ some [2, 0, 2, 2, 0, 4, 0] := by
  have h0 : Smap[0]? = some .int := by decide
  have hs : strBytes "" = [] := by decide
  have hu : utf8 "" = [] := by decide
  refine ⟨?_, by decide, ?_⟩
  · simp [ser, viaUnion, structStartAt, nodeAt, h0, bind, pure, blockNew, serEntries, blockSignal,
      writeVarI64, writeAll, serInteger, serStr, serStrAt, writeLengthDelimited, hs,
      structBodyFinish, structFinish, structEnd, TrM.lift, blockEnd, SerM.finally, structDrop,
      ev0, ev1, ev2]
  · have hds : ∀ rest, decodeString (0 :: rest) = some ("", rest) := by
      intro rest
      have := decodeString_lenPrefixed "" (by rw [hu]; decide) rest
      simpa [lenPrefixed, hu, el0] using this
    refine not_canonical_of_decode (v0 := .map [("", .int 1), ("", .int 2)]) 5 ?_ ?_
    · simp [decode, decodeMapBlocks, decodeMapItems, nodeOf, h0, decodeBlockHeader, dl2, dl4, dl0,
        hds, InI32]
    · simp [encode, encodeEntries, nodeOf, h0, InI32, el1, el2, el0, lenPrefixed, hu]

def nodeDB : Node := .decimal 0 10 .bytes

/-- Counterexample D (a negative integer on a `decimal`/`bytes` node): `serialize_i32(-1)` writes
    the sixteen bytes `0xFF` of the `i128` (only leading zero bytes are stripped); the canonical
    encoding of `decimal -1` is `[2, 0xFF]`. All other hypotheses hold, `svCanon { negInt := true }` included. -/
theorem C01_counterexample_negative_decimal :
    ser ext1 false #[] nodeDB (.int .i32 (-1)) {} = (.ok (), { out := 32 :: List.replicate 16 255 }) ∧
    Good {} ∧ SchemaOK #[] ∧ NodeOK #[] nodeDB ∧ svOK (.int .i32 (-1)) = true ∧
    Canon.svCanon { negInt := true } (.int .i32 (-1)) = true ∧ Canon.svCanon {} (.int .i32 (-1)) = false ∧
    Canon.nodeAllows { negInt := true } nodeDB = false ∧
    ∀ v, Spec.encode #[] nodeDB v ≠ some (32 :: List.replicate 16 255) := by
  refine ⟨?_, good_empty, ?_, ?_, by decide, by decide, by decide, by decide, ?_⟩
  · have hb : i128be (-1) = List.replicate 16 255 := by decide
    simp [ser, nodeDB, serInteger, viaUnion, serIntegerAsDecimal, inI128, hb, stripZeros,
      writeVarI64, writeAll, bind, ev16]
  · intro k n hk; simp at hk
  · exact NodeOK.of_check (by simp [nodeOKb, nodeDB, Node.children, nodeNamesDistinct, nodeSmall,
      nodeNoNestedUnion])
  · have e : (32 :: List.replicate 16 255 : Bytes) = lenPrefixed (List.replicate 16 255) ++ [] := by
      simp [lenPrefixed, el16]
    have hv : fromTwosComplementBE (List.replicate 16 255) = -1 := by decide
    refine not_canonical_of_decode (v0 := .decimal (-1)) 1 ?_ ?_
    · rw [e]
      simp only [decode, nodeDB, decodeBytes_lenPrefixed _
        (by decide : (List.replicate 16 (255 : UInt8)).length < 2 ^ 63), hv, Option.map_some]
    · have hm : minimalLen (-1) = 1 := by decide
      have ht : twosComplementBE 1 (-1) = some [255] := by decide
      simp [encode, nodeDB, hm, ht, lenPrefixed, el1]

/-- Without the condition on negative integers the statement is false as well (counterexample D
    above), `svCanon { negInt := true }` granted. -/
theorem C01_ser_canonical_needs_nonneg :
    ¬ (∀ (ext : Ext) (allowSlow : Bool) (S : Schema) (node : Node) (sv : SV) (s : SerState),
      (ser ext allowSlow S node sv s).1 = .ok () → Good s → SchemaOK S → NodeOK S node →
      svOK sv = true → ExtOK ext → Canon.svCanon { negInt := true } sv = true →
      ∃ s' v bytes, ser ext allowSlow S node sv s = (.ok (), s') ∧ s'.out = s.out ++ bytes ∧
        Spec.encode S node v = some bytes) := by
  intro h
  obtain ⟨hrun, hg, hS, hn, hsv, hcn, _, _, hne⟩ := C01_counterexample_negative_decimal
  obtain ⟨s', v, bytes, hrun', hout, henc⟩ :=
    h ext1 false #[] nodeDB _ {} (by rw [hrun]) hg hS hn hsv ext1_ok hcn
  rw [hrun] at hrun'
  simp only [Prod.mk.injEq, true_and] at hrun'
  subst hrun'
  simp only [List.nil_append] at hout
  subst hout
  exact hne v henc

/-! ### Non-vacuity: a record with an array and a union, fields presented out of order -/

def nmR : Name := { fq := "R", short := "R", ns := none }

/-- `record R { a : array<long>, u : union { null, string } }` -/
def Sx : Schema :=
  #[.record nmR [("a", 1), ("u", 3)], .array 2, .long, .union [4, 5], .null, .string]

def nodeR : Node := .record nmR [("a", 1), ("u", 3)]

/-- `R { u: Some("x"), a: vec![1i64, -3] }` with `u` presented first (it is buffered) -/
def svR : SV :=
  .struct "R" [("u", .some (.str "x")), ("a", .seq (some 2) [.int .i64 1, .int .i64 (-3)])]

def vR : Value := .record [.array [.long 1, .long (-3)], .union 1 (.string "x")]

theorem Sx_ok : SchemaOK Sx :=
  SchemaOK.of_checks (by simp [Schema.keysInBounds, Sx, Node.children])
    (by simp [schemaNamesDistinct, Sx, nodeNamesDistinct]) (by simp [schemaSmall, Sx, nodeSmall])
    (by simp [schemaNoNestedUnion, Sx, nodeNoNestedUnion])

theorem nodeR_ok : NodeOK Sx nodeR :=
  NodeOK.of_check (by simp [nodeOKb, nodeR, Sx, Node.children, nodeNamesDistinct, nodeSmall,
    nodeNoNestedUnion])

theorem Sx_allows (f : Canon.Allow) (h : f.openSeq = false) :
    ∀ (k : Nat) (n : Node), Sx[k]? = some n → Canon.nodeAllows f n = true := by
  intro k n hk
  have : Canon.schemaAllows f Sx = true := by simp [Canon.schemaAllows, Sx, Canon.nodeAllows, h]
  exact Array.all_getElem? this hk

theorem Sx_fixedDecFits : Schema.fixedDecFits Sx := by
  intro k n hk
  have : Sx.all Node.fixedDecFits = true := by simp [Sx, Node.fixedDecFits]
  exact Array.all_getElem? this hk

set_option maxRecDepth 4000 in
theorem svR_run : (ser ext1 false Sx nodeR svR {}).2.out = [4, 2, 5, 0, 2, 2, 120] := by
  have h1 : Sx[1]? = some (.array 2) := by decide
  have h2 : Sx[2]? = some .long := by decide
  have h3 : Sx[3]? = some (.union [4, 5]) := by decide
  have h5 : Sx[5]? = some .string := by decide
  have hu : unnamedLookup .str (branchNodes Sx [4, 5]) = some 1 := by decide
  have hx : strBytes "x" = [120] := by decide
  simp [ser, nodeR, svR, viaName, viaUnion, structStartAt, popSuperBuffer, bind, pure, serFields,
    fieldIdx, lookupLast, lookupLast.go, recordValue, h1, h2, h3, h5, listResize, popBuffer,
    intoBuffer, serStr, hu, writeVarI64, writeAll, serStrAt, writeLengthDelimited, hx, ev0, ev1,
    ev2, evm3, seqStart, seqStartAt, nodeAt, blockNew, serElems, blockSignal, serInteger, seqFinish,
    seqEnd, seqDrop, blockEnd, SerM.finally, flushBuffered, pushBuffer, structBodyFinish,
    structFinish, structEnd, recordEnd, structDrop, recordDrop, getPool, setPool, pushSuperBuffer]

theorem vR_encode : Spec.encode Sx nodeR vR = some [4, 2, 5, 0, 2, 2, 120] := by
  have h1 : Sx[1]? = some (.array 2) := by decide
  have h2 : Sx[2]? = some .long := by decide
  have h3 : Sx[3]? = some (.union [4, 5]) := by decide
  have h5 : Sx[5]? = some .string := by decide
  have hx : utf8 "x" = [120] := by decide
  simp [vR, nodeR, encode, encodeFields, encodeItems, nodeOf, h1, h2, h3, h5, InI64, el1, el2, elm3,
    lenPrefixed, hx]

/-- Part 1 on the example: all hypotheses are met (`negInt`: the negative `-3` is allowed since
    the schema has no `decimal`), so the bytes written are a canonical encoding. -/
example : ∃ s' v bytes, ser ext1 false Sx nodeR svR {} = (.ok (), s') ∧ s'.out = [] ++ bytes ∧
    Good s' ∧ Spec.encode Sx nodeR v = some bytes ∧
    Spec.denotes (denExtOf ext1) Sx nodeR svR v = true :=
  C01_ser_canonical { negInt := true } ext1 false Sx nodeR svR {} (by rfl) good_empty Sx_ok
    nodeR_ok (by decide) ext1_ok (by decide) (Sx_allows _ rfl) (by decide)

/-- `serialize_map(None)` with two entries (serde `flatten`) onto the record: accepted with the
    `openMap` permission, the schema having no `map` node. -/
example : ∃ s' v bytes,
    ser ext1 false Sx nodeR
      (.map none [(.str "u", .none), (.str "a", .seq (some 1) [.int .i64 7])]) {} = (.ok (), s') ∧
    s'.out = [] ++ bytes ∧ Good s' ∧ Spec.encode Sx nodeR v = some bytes ∧
    Spec.denotes (denExtOf ext1) Sx nodeR
      (.map none [(.str "u", .none), (.str "a", .seq (some 1) [.int .i64 7])]) v = true :=
  C01_ser_canonical { openMap := true } ext1 false Sx nodeR _ {} (by rfl) good_empty Sx_ok
    nodeR_ok (by decide) ext1_ok (by decide) (Sx_allows _ rfl) (by decide)

/-- Part 2 on the example, made fully concrete: the value is `vR` (the canonical encoding
    determines it), so deserializing what `ser` wrote, followed by any `rest`, returns exactly
    `observe vR` and leaves `rest`. -/
example (rest : Bytes) :
    ∃ s', ser ext1 false Sx nodeR svR {} = (.ok (), s') ∧ s'.out = [4, 2, 5, 0, 2, 2, 120] ∧
      Spec.denotes (denExtOf ext1) Sx nodeR svR vR = true ∧
      de deExtModel {} Sx 100 nodeR 64 false .any { rest := s'.out ++ rest } =
        (.ok (.map [(.str "a" false, .seq [.i64 1, .i64 (-3)]), (.str "u" false, .str "x" true)]),
          { rest := rest }) := by
  obtain ⟨s', bytes, v, hrun, hout, henc, hden, hde⟩ :=
    C01_roundtrip_impl { negInt := true } ext1 false Sx nodeR svR {} (by rfl) good_empty Sx_ok
      nodeR_ok (by decide) ext1_ok (by decide) (Sx_allows _ rfl) (by decide) Sx_fixedDecFits (by decide)
  have hb : bytes = [4, 2, 5, 0, 2, 2, 120] := by
    have := svR_run
    rw [hrun] at this
    simpa [hout] using this
  subst hb
  have hv : v = vR := encode_injective henc vR_encode
  subst hv
  refine ⟨s', hrun, by simpa using hout, hden, ?_⟩
  have hout' : s'.out = [4, 2, 5, 0, 2, 2, 120] := by simpa using hout
  rw [hout']
  exact hde {} 64 _ (by rfl) (by decide) (by decide) 100 (by decide) rest _ rfl rfl rfl rfl

end Avro.Theorems
