import AvroModel.Lemmas.SerSound
import AvroModel.Lemmas.SerSoundRecord
/-
C02 (encoder soundness): whenever serialization returns Ok, the bytes written are exactly the Avro
binary encoding of the logical value the presentation denotes.  Leaf theorems first, then the
composite theorem over `ser`.
-/
namespace Avro.Theorems
open Avro Avro.Impl Avro.Spec

theorem C02_bool (S : Schema) (b : Bool) (s : SerState) (h : s.budget = none) :
    (serBool S .boolean b s).1 = .ok () ∧
    (serBool S .boolean b s).2.out = s.out ++ [if b then 1 else 0] ∧
    Spec.encode S .boolean (.bool b) = some [if b then 1 else 0] := by
  simp [serBool, viaUnion, writeAll_none _ s h, Spec.encode]

theorem C02_int (S : Schema) (node : Node) (t : IntTy) (v : Int) (s : SerState)
    (hn : node = .int ∨ node = .date ∨ node = .timeMillis) (h : s.budget = none) :
    ((serInteger S node t v s).1 = .ok () ↔ (-(2:Int)^31 ≤ v ∧ v ≤ 2^31 - 1)) ∧
    ((-(2:Int)^31 ≤ v ∧ v ≤ 2^31 - 1) →
      (serInteger S node t v s).2.out = s.out ++ Spec.encodeLong v ∧
      Spec.encode S node (.int v) = some (Spec.encodeLong v)) ∧
    (¬ (-(2:Int)^31 ≤ v ∧ v ≤ 2^31 - 1) → serInteger S node t v s = (.error .custom, s)) := by
  have hr : (-(2:Int)^31 ≤ v ∧ v ≤ 2^31 - 1) ↔ (-2147483648 ≤ v ∧ v ≤ 2147483647) := by
    constructor <;> intro ⟨a, b⟩ <;> constructor <;> omega
  rw [hr]
  by_cases hv : -2147483648 ≤ v ∧ v ≤ 2147483647
  · have hi : InI64 v := by unfold InI64; omega
    have h32 : InI32 v := hv
    rcases hn with rfl | rfl | rfl <;>
      simp [serInteger, viaUnion, hv, writeVarI64_spec v hi s h, Spec.encode, h32]
  · rcases hn with rfl | rfl | rfl <;>
      simp [serInteger, viaUnion, hv, SerM.fail]

theorem C02_long (S : Schema) (node : Node) (t : IntTy) (v : Int) (s : SerState)
    (hn : node = .long ∨ node = .timeMicros ∨ node = .timestampMillis ∨ node = .timestampMicros)
    (h : s.budget = none) :
    ((serInteger S node t v s).1 = .ok () ↔ (-(2:Int)^63 ≤ v ∧ v ≤ 2^63 - 1)) ∧
    ((-(2:Int)^63 ≤ v ∧ v ≤ 2^63 - 1) →
      (serInteger S node t v s).2.out = s.out ++ Spec.encodeLong v ∧
      Spec.encode S node (.long v) = some (Spec.encodeLong v)) ∧
    (¬ (-(2:Int)^63 ≤ v ∧ v ≤ 2^63 - 1) → serInteger S node t v s = (.error .custom, s)) := by
  have hr : (-(2:Int)^63 ≤ v ∧ v ≤ 2^63 - 1) ↔
      (-9223372036854775808 ≤ v ∧ v ≤ 9223372036854775807) := by
    constructor <;> intro ⟨a, b⟩ <;> constructor <;> omega
  rw [hr]
  by_cases hv : -9223372036854775808 ≤ v ∧ v ≤ 9223372036854775807
  · have hi : InI64 v := hv
    rcases hn with rfl | rfl | rfl | rfl <;>
      simp [serInteger, viaUnion, hv, writeVarI64_spec v hi s h, Spec.encode, hi]
  · rcases hn with rfl | rfl | rfl | rfl <;>
      simp [serInteger, viaUnion, hv, SerM.fail]

theorem C02_enum_int (S : Schema) (nm : Name) (syms : List String) (t : IntTy) (v : Int)
    (s : SerState) (hs : syms.length < 2 ^ 63) (h : s.budget = none) :
    ((serInteger S (.enum nm syms) t v s).1 = .ok () ↔ (0 ≤ v ∧ v < syms.length)) ∧
    ((0 ≤ v ∧ v < syms.length) →
      ∃ bytes, Spec.encode S (.enum nm syms) (.enum v.toNat) = some bytes ∧
      (serInteger S (.enum nm syms) t v s).2.out = s.out ++ bytes) ∧
    (¬ (0 ≤ v ∧ v < syms.length) → serInteger S (.enum nm syms) t v s = (.error .custom, s)) := by
  by_cases hv : 0 ≤ v ∧ v < syms.length
  · have hi : InI64 v := by unfold InI64; omega
    have h1 : v.toNat < syms.length ∧ v.toNat < 2 ^ 63 := by omega
    have h2 : ((v.toNat : Nat) : Int) = v := by omega
    simp [serInteger, viaUnion, hv, writeVarI64_spec v hi s h, Spec.encode, h1, h2]
  · simp [serInteger, viaUnion, hv, SerM.fail]

theorem C02_enum_str (ext : Ext) (nm : Name) (syms : List String) (str : String) (s : SerState)
    (hs : syms.length < 2 ^ 63) (h : s.budget = none) :
    ((serStrAt ext (.enum nm syms) str s).1 = .ok () ↔ ∃ d, lookupLast syms str = some d) ∧
    (∀ d, lookupLast syms str = some d →
      (serStrAt ext (.enum nm syms) str s).2.out = s.out ++ Spec.encodeLong d ∧
      syms[d]? = some str ∧
      ∀ S, Spec.encode S (.enum nm syms) (.enum d) = some (Spec.encodeLong d)) ∧
    (lookupLast syms str = none → serStrAt ext (.enum nm syms) str s = (.error .custom, s)) := by
  cases hl : lookupLast syms str with
  | none => simp [serStrAt, hl, SerM.fail]
  | some d =>
    have hd := lookupLast_lt hl
    have hi : InI64 (d : Int) := inI64_of_lt (by omega)
    have h1 : d < syms.length ∧ d < 2 ^ 63 := by omega
    have h2 := lookupLast_some hl
    refine ⟨by simp [serStrAt, hl, writeVarI64_spec _ hi s h], ?_, by simp⟩
    intro d' hd'
    simp only [Option.some.injEq] at hd'; subst hd'
    exact ⟨by simp [serStrAt, hl, writeVarI64_spec _ hi s h], h2, by simp [Spec.encode, h1]⟩

theorem C02_float (S : Schema) (bits : BitVec 32) (s : SerState) (h : s.budget = none) :
    (serF32 S .float bits s).1 = .ok () ∧
    (serF32 S .float bits s).2.out = s.out ++ leBytes 4 bits.toNat ∧
    Spec.encode S .float (.float bits) = some (leBytes 4 bits.toNat) := by
  simp [serF32, viaUnion, writeAll_none _ s h, Spec.encode]

theorem C02_float_of_f64 (ext : Ext) (S : Schema) (bits : BitVec 64) (s : SerState)
    (h : s.budget = none) :
    (serF64 ext S .float bits s).1 = .ok () ∧
    (serF64 ext S .float bits s).2.out = s.out ++ leBytes 4 (ext.asF32 bits).toNat ∧
    Spec.encode S .float (.float (ext.asF32 bits)) = some (leBytes 4 (ext.asF32 bits).toNat) := by
  simp [serF64, viaUnion, writeAll_none _ s h, Spec.encode]

theorem C02_double (ext : Ext) (S : Schema) (bits : BitVec 64) (s : SerState) (h : s.budget = none) :
    (serF64 ext S .double bits s).1 = .ok () ∧
    (serF64 ext S .double bits s).2.out = s.out ++ leBytes 8 bits.toNat ∧
    Spec.encode S .double (.double bits) = some (leBytes 8 bits.toNat) := by
  simp [serF64, viaUnion, writeAll_none _ s h, Spec.encode]

theorem C02_string (ext : Ext) (S : Schema) (str : String) (s : SerState)
    (hl : (Spec.utf8 str).length < 2 ^ 63) (h : s.budget = none) :
    (serStrAt ext .string str s).1 = .ok () ∧
    (serStrAt ext .string str s).2.out = s.out ++ Spec.lenPrefixed (Spec.utf8 str) ∧
    Spec.encode S .string (.string str) = some (Spec.lenPrefixed (Spec.utf8 str)) := by
  simp [serStrAt, strBytes_eq_utf8, writeLengthDelimited_none _ hl s h, Spec.encode, hl]

theorem C02_bytes (S : Schema) (b : Bytes) (s : SerState)
    (hl : b.length < 2 ^ 63) (h : s.budget = none) :
    (serBytes S .bytes b s).1 = .ok () ∧
    (serBytes S .bytes b s).2.out = s.out ++ Spec.lenPrefixed b ∧
    Spec.encode S .bytes (.bytes b) = some (Spec.lenPrefixed b) := by
  simp [serBytes, viaUnion, writeLengthDelimited_none _ hl s h, Spec.encode, hl]

theorem C02_bytes_on_string (S : Schema) (b : Bytes) (s : SerState)
    (hl : b.length < 2 ^ 63) (h : s.budget = none) :
    ((serBytes S .string b s).1 = .ok () ↔ validUtf8 b = true) ∧
    (validUtf8 b = true →
      (serBytes S .string b s).2.out = s.out ++ Spec.lenPrefixed b ∧
      ∃ str, Spec.utf8 str = b ∧
        Spec.encode S .string (.string str) = some (Spec.lenPrefixed b)) ∧
    (validUtf8 b = false → serBytes S .string b s = (.error .custom, s)) := by
  cases hv : validUtf8 b with
  | false => simp [serBytes, viaUnion, hv, SerM.fail]
  | true =>
    obtain ⟨str, rfl⟩ := (validUtf8_iff b).1 hv
    simp only [serBytes, viaUnion, hv, if_true, writeLengthDelimited_none _ hl s h, true_and,
      forall_const, reduceCtorEq, false_implies, and_true]
    exact ⟨str, rfl, by simp [Spec.encode, hl]⟩

theorem C02_fixed (S : Schema) (nm : Name) (size : Nat) (b : Bytes) (s : SerState)
    (h : s.budget = none) :
    ((serBytes S (.fixed nm size) b s).1 = .ok () ↔ b.length = size) ∧
    (b.length = size →
      (serBytes S (.fixed nm size) b s).2.out = s.out ++ b ∧
      Spec.encode S (.fixed nm size) (.fixed b) = some b) ∧
    (b.length ≠ size → serBytes S (.fixed nm size) b s = (.error .custom, s)) := by
  by_cases hb : b.length = size
  · simp [serBytes, viaUnion, hb, writeAll_none _ s h, Spec.encode]
  · have : size ≠ b.length := by omega
    simp [serBytes, viaUnion, this, hb, SerM.fail]

/-- Integer presented to a `decimal` node with `bytes` representation (repaired defect D5):
    the mantissa written is sign-correct. -/
theorem C02_decimal_int_bytes (scale : Nat) (v : Int) (s : SerState) (h : s.budget = none)
    (hok : (serIntegerAsDecimal scale .bytes v s).1 = .ok ()) :
    ∃ m : Bytes, (serIntegerAsDecimal scale .bytes v s).2.out = s.out ++ Spec.lenPrefixed m ∧
      Spec.fromTwosComplementBE m = v * (10 : Int) ^ scale ∧
      ∀ S prec rest, Spec.decode S 1 (.decimal scale prec .bytes) (Spec.lenPrefixed m ++ rest) =
        some (.decimal (v * (10 : Int) ^ scale), rest) := by
  obtain ⟨m, hl, he, hv⟩ := serIntegerAsDecimal_bytes scale v s h hok
  refine ⟨m, by rw [he], hv, ?_⟩
  intro S prec rest
  simp [Spec.decode, decodeBytes_lenPrefixed m (by omega) rest, hv]

/-- Integer presented to a `decimal` node with `fixed` representation (repaired defect D6):
    only sign extension is dropped. -/
theorem C02_decimal_int_fixed (scale : Nat) (nm : Name) (size : Nat) (v : Int) (s : SerState)
    (h : s.budget = none)
    (hok : (serIntegerAsDecimal scale (.fixed nm size) v s).1 = .ok ()) :
    size ≤ 16 ∧ ∃ m : Bytes, m.length = size ∧
      (serIntegerAsDecimal scale (.fixed nm size) v s).2.out = s.out ++ m ∧
      Spec.fromTwosComplementBE m = v * (10 : Int) ^ scale ∧
      ∀ S prec rest, Spec.decode S 1 (.decimal scale prec (.fixed nm size)) (m ++ rest) =
        some (.decimal (v * (10 : Int) ^ scale), rest) := by
  obtain ⟨h16, m, hl, he, hv⟩ := serIntegerAsDecimal_fixed scale nm size v s h hok
  refine ⟨h16, m, hl, by rw [he], hv, ?_⟩
  intro S prec rest
  simp [Spec.decode, takeN_append_of_length m rest hl, hv]

theorem i128be_roundtrip {n : Int} (h : inI128 n = true) :
    Spec.fromTwosComplementBE (i128be n) = n := Avro.i128be_roundtrip h

theorem stripZeros_sound (bs : Bytes) :
    Spec.fromTwosComplementBE (bs.drop (stripZeros bs)) = Spec.fromTwosComplementBE bs :=
  Avro.stripZeros_sound bs

theorem lookupLast_some {xs : List String} {name : String} {i : Nat}
    (h : lookupLast xs name = some i) : xs[i]? = some name := Avro.lookupLast_some h

/-- `viaUnion` on a union node: either no branch is registered for the key (`custom` error,
    nothing written), or the discriminant of the selected branch is written and the
    continuation runs on the branch node. -/
theorem C02_union_discriminant {α : Type} (S : Schema) (vs : List Nat) (key : LookupKey)
    (f : Node → SerM α) (s : SerState) (h : s.budget = none) :
    (unnamedLookup key (branchNodes S vs) = none ∧
      viaUnion S (.union vs) key f s = (.error .custom, s)) ∨
    (∃ d k, unnamedLookup key (branchNodes S vs) = some d ∧ d < vs.length ∧ vs[d]? = some k ∧
      ((S[k]? = none ∧ viaUnion S (.union vs) key f s =
          (.error .panic, { s with out := s.out ++ encodeVarI64 d })) ∨
       (∃ n, S[k]? = some n ∧ viaUnion S (.union vs) key f s =
          f n { s with out := s.out ++ encodeVarI64 d }))) :=
  viaUnion_union S vs key f s h

theorem unnamed_never_union {key : LookupKey} {bs : List Node} {d : Nat}
    (h : unnamedLookup key bs = some d) : ∀ vs', bs[d]? ≠ some (.union vs') :=
  Avro.unnamed_never_union h

/-! ### Composite theorem -/

/-- Strong form: from any state whose writer cannot fail and whose pool is clean, a successful
    `ser` appends bytes that the specification decoder reads back (followed by any trailing input,
    with any sufficiently large fuel) as a value that the presentation denotes; the final state
    again has an infallible writer and a clean pool. -/
theorem C02_sound_strong (ext : Ext) (allowSlow : Bool) (S : Schema) (node : Node)
    (sv : SV) (s : SerState)
    (hok : (ser ext allowSlow S node sv s).1 = .ok ())
    (hs : Good s) (hS : SchemaOK S) (hnode : NodeOK S node) (hsv : svOK sv = true)
    (hext : ExtOK ext) :
    ∃ s' v bytes, ser ext allowSlow S node sv s = (.ok (), s') ∧ s'.out = s.out ++ bytes ∧ Good s' ∧
      (∃ N, ∀ fuel, N ≤ fuel → ∀ rest, Spec.decode S fuel node (bytes ++ rest) = some (v, rest)) ∧
      Spec.denotes (denExtOf ext) S node sv v = true :=
  ser_sound_aux hS hext (sizeOf sv) sv (Nat.le_refl _) hsv node s hnode hs hok

/-- C02, composite statement.  Beyond the hypotheses asked for (`PoolClean`, `keysInBounds`,
    `schemaNamesDistinct`) the theorem needs, and the counterexamples below show that it needs:
    * `nodeOKb S node`: the top-level node satisfies what is checked of the nodes of `S`
      (children in bounds, …) — `node` need not be a member of `S`;
    * `schemaNoNestedUnion S`: no union has a union as an immediate branch (Avro rule);
    * `svOK sv`: every integer lies in the range of its Rust type and every length is below
      `2 ^ 63`;
    * `schemaSmall S`: unions and enums have fewer than `2 ^ 63` branches/symbols;
    * `ExtOK ext`: `rust_decimal` mantissas fit `i128` (parsed / converted ones, and rescaled
      ones when the argument did), scales fit a `long`; met by the test driver's parameter
      tables (`Driver.toExt_ExtOK`). -/
theorem C02_sound_partial (ext : Ext) (allowSlow : Bool) (S : Schema) (node : Node)
    (sv : SV) (o : Bytes) (p : Pool)
    (hok : (ser ext allowSlow S node sv { out := o, budget := none, pool := p }).1 = .ok ())
    (hp : PoolClean p) (hk : S.keysInBounds = true) (hd : schemaNamesDistinct S = true)
    (hsmall : schemaSmall S = true) (hnn : schemaNoNestedUnion S = true)
    (hnode : nodeOKb S node = true)
    (hsv : svOK sv = true) (hext : ExtOK ext) :
    ∃ v bytes,
      (ser ext allowSlow S node sv { out := o, budget := none, pool := p }).2.out = o ++ bytes ∧
      (∃ N, ∀ fuel, N ≤ fuel → Spec.decode S fuel node bytes = some (v, [])) ∧
      Spec.denotes (denExtOf ext) S node sv v = true ∧
      PoolClean (ser ext allowSlow S node sv { out := o, budget := none, pool := p }).2.pool := by
  obtain ⟨s', v, bytes, hrun, hout, hg, ⟨N, hN⟩, hden⟩ :=
    C02_sound_strong ext allowSlow S node sv { out := o, budget := none, pool := p } hok
      ⟨rfl, hp⟩ (SchemaOK.of_checks hk hd hsmall hnn) (NodeOK.of_check hnode) hsv hext
  refine ⟨v, bytes, by rw [hrun]; exact hout, ⟨N, fun fuel hf => ?_⟩, hden, by rw [hrun]; exact hg.2⟩
  have := hN fuel hf []
  rwa [List.append_nil] at this

/-- "A value `S` cannot represent yields `Err`": if the presentation denotes no value at the node,
    serialization does not return `Ok` (contrapositive of `C02_sound_partial`). -/
theorem C02_unrepresentable_err (ext : Ext) (allowSlow : Bool) (S : Schema) (node : Node)
    (sv : SV) (o : Bytes) (p : Pool)
    (hp : PoolClean p) (hk : S.keysInBounds = true) (hd : schemaNamesDistinct S = true)
    (hsmall : schemaSmall S = true) (hnn : schemaNoNestedUnion S = true)
    (hnode : nodeOKb S node = true)
    (hsv : svOK sv = true) (hext : ExtOK ext)
    (hnone : ∀ v, Spec.denotes (denExtOf ext) S node sv v = false) :
    (ser ext allowSlow S node sv { out := o, budget := none, pool := p }).1 ≠ .ok () := by
  intro hok
  obtain ⟨v, _, _, _, hv, _⟩ :=
    C02_sound_partial ext allowSlow S node sv o p hok hp hk hd hsmall hnn hnode hsv hext
  rw [hnone v] at hv
  exact absurd hv (by simp)

/-! ### Why the extra hypotheses are needed -/

def ext0 : Ext :=
  { asF32 := fun _ => 0, decFromF64 := fun _ => none, decParse := fun _ => none,
    decRescale := fun d _ => d }

def nmE : Name := { fq := "E", short := "E", ns := none }

/-- A `char` on an enum (formerly a counterexample, when `Spec.denotes` refused to read a `char` as
    an enum symbol): `serialize_char('A')` on `enum E {A}` succeeds (it goes through
    `serialize_str`) and writes the index of `"A"`; the presentation denotes that symbol. -/
theorem C02_char_enum :
    ser ext0 false #[] (.enum nmE ["A"]) (.char 'A') { out := [], budget := none, pool := {} }
      = (.ok (), { out := Spec.encodeLong 0, budget := none, pool := {} }) ∧
    Spec.denotes (denExtOf ext0) #[] (.enum nmE ["A"]) (.char 'A') (.enum 0) = true ∧
    svOK (.char 'A') = true ∧ nodeOKb #[] (.enum nmE ["A"]) = true := by
  refine ⟨?_, ?_, rfl, by decide⟩
  · have : lookupLast ["A"] "A" = some 0 := by decide
    simp [ser, serStr, viaUnion, serStrAt, this, writeVarI64, writeAll]
    exact encodeVarI64_eq_spec _ (by decide)
  · rw [denotes_char]
    decide

/-- … and the composite theorem covers it: no condition on enum symbols or on `char`s. -/
example (ext : Ext) (hext : ExtOK ext) (o : Bytes) :
    ∃ v bytes,
      (ser ext false #[] (.enum nmE ["A"]) (.char 'A') { out := o, budget := none, pool := {} }).2.out
        = o ++ bytes ∧
      (∃ N, ∀ fuel, N ≤ fuel → Spec.decode #[] fuel (.enum nmE ["A"]) bytes = some (v, [])) ∧
      Spec.denotes (denExtOf ext) #[] (.enum nmE ["A"]) (.char 'A') v = true := by
  have hok : (ser ext false #[] (.enum nmE ["A"]) (.char 'A')
      { out := o, budget := none, pool := {} }).1 = .ok () := by
    have : lookupLast ["A"] "A" = some 0 := by decide
    simp [ser, serStr, viaUnion, serStrAt, this, writeVarI64, writeAll]
  obtain ⟨v, bytes, h1, h2, h3, _⟩ :=
    C02_sound_partial ext false #[] (.enum nmE ["A"]) (.char 'A') o {} hok ⟨by simp, by simp⟩
      (by simp [Schema.keysInBounds]) (by simp [schemaNamesDistinct]) (by simp [schemaSmall])
      (by simp [schemaNoNestedUnion]) (by decide) rfl hext
  exact ⟨v, bytes, h1, h2, h3⟩

/-- Counterexample 1 (top-level node with a dangling child): `None` on `union [#0]` over the empty
    schema succeeds (the missing branch is treated as `null` by the lookup table). -/
theorem C02_counterexample_dangling_node :
    (ser ext0 false #[] (.union [0]) .none { out := [], budget := none, pool := {} }).1 = .ok () ∧
    ∀ v, Spec.denotes (denExtOf ext0) #[] (.union [0]) .none v = false := by
  constructor
  · have : unnamedLookup .null (branchNodes #[] [0]) = some 0 := by decide
    simp [ser, serUnit, this, writeVarI64, writeAll]
  · intro v
    rw [denotes_none]
    cases v <;> try rfl
    rename_i idx y
    simp [denotesAtLeaf, unionBranch]
    cases idx <;> simp

/-- Counterexample 2 (an integer outside the range of its Rust type is not a presentation). -/
theorem C02_counterexample_int_range :
    (ser ext0 false #[] .int (.int .i8 1000) { out := [], budget := none, pool := {} }).1 = .ok () ∧
    ∀ v, Spec.denotes (denExtOf ext0) #[] .int (.int .i8 1000) v = false := by
  constructor
  · simp [ser, serInteger, viaUnion, writeVarI64, writeAll]
  · intro v
    rw [denotes_int]
    cases v <;> rfl

def S4 : Schema := #[.union [1], .map 2, .null]

/-- Counterexample 3 (a union nested directly in a union, selected by the name `"Union"`):
    the serializer writes both discriminants, `Spec.denotes` refuses nested unions for
    struct presentations. -/
theorem C02_counterexample_nested_union :
    (ser ext0 false S4 (.union [0]) (.struct "Union" []) { out := [], budget := none, pool := {} }).1
      = .ok () ∧
    S4.keysInBounds = true ∧ schemaNamesDistinct S4 = true ∧
    ∀ v, Spec.denotes (denExtOf ext0) S4 (.union [0]) (.struct "Union" []) v = false := by
  refine ⟨?_, by simp [Schema.keysInBounds, S4, Node.children], by simp [schemaNamesDistinct, S4, nodeNamesDistinct], ?_⟩
  · have h1 : namedLookup "Union" (branchNodes S4 [0]) = some 0 := by decide
    have h2 : unnamedLookup .structOrMap (branchNodes S4 [1]) = some 0 := by decide
    have h3 : S4[0]? = some (.union [1]) := by decide
    have h4 : S4[1]? = some (.map 2) := by decide
    have h5 : S4[2]? = some .null := by decide
    simp [ser, viaName, viaUnion, h1, h2, h3, h4, h5, bind, writeVarI64, writeAll, structStartAt,
      nodeAt, blockNew, pure, serFields, structBodyFinish, structFinish, structEnd, TrM.lift,
      blockEnd, SerM.finally, structDrop]
  · intro v
    rw [denotes_struct]
    cases v <;> try rfl
    rename_i idx y
    have h3 : S4[0]? = some (.union [1]) := by decide
    cases idx with
    | zero => simp [structDispatch, unionBranch, h3]
    | succ i => simp [structDispatch, unionBranch]

/-- The composite statement with only the hypotheses `PoolClean`, `keysInBounds` and
    `schemaNamesDistinct` is false (by counterexample 1: over the empty schema the three hypotheses
    hold trivially, and they say nothing of the start node). -/
theorem C02_sound_literal_false :
    ¬ (∀ (ext : Ext) (allowSlow : Bool) (S : Schema) (node : Node) (sv : SV) (o : Bytes) (p : Pool),
      (ser ext allowSlow S node sv { out := o, budget := none, pool := p }).1 = .ok () →
      PoolClean p → S.keysInBounds = true → schemaNamesDistinct S = true →
      ∃ v bytes,
        (ser ext allowSlow S node sv { out := o, budget := none, pool := p }).2.out = o ++ bytes ∧
        (∃ N, ∀ fuel, N ≤ fuel → Spec.decode S fuel node bytes = some (v, [])) ∧
        Spec.denotes (denExtOf ext) S node sv v = true) := by
  intro h
  obtain ⟨h1, h5⟩ := C02_counterexample_dangling_node
  obtain ⟨v, _, _, _, hv⟩ := h ext0 false #[] (.union [0]) .none [] {} h1 ⟨by simp, by simp⟩
    (by simp [Schema.keysInBounds]) (by simp [schemaNamesDistinct])
  rw [h5 v] at hv
  exact absurd hv (by simp)

end Avro.Theorems
