import AvroModel.Lemmas.SchemaParse
/-
C08 (Parsing Canonical Form writer): primitives, named types written once, logical types
irrelevant.
-/
namespace Avro.Theorems
open Avro Avro.Impl

/-- The type name of a primitive. -/
def primName : RegularType → Option String
  | .null => some "null" | .boolean => some "boolean" | .int => some "int" | .long => some "long"
  | .float => some "float" | .double => some "double" | .bytes => some "bytes"
  | .string => some "string"
  | _ => none

/-- A primitive node is written as its quoted type name, whatever its logical annotation. -/
theorem C08_pcf_prim_step (S : SchemaMut) (fuel key : Nat) (st : PcfState) (node : RawNode)
    (s : String) (hk : S[key]? = some node) (hp : primName node.type = some s) :
    pcf S (fuel + 1) key st = .ok { st with out := st.out ++ "\"" ++ s ++ "\"" } := by
  simp only [pcf, hk]
  cases ht : node.type <;> rw [ht] at hp <;> simp only [primName, Option.some.injEq, reduceCtorEq] at hp
  all_goals subst hp; rfl

/-- For a primitive root the canonical form is the quoted type name; the logical type is dropped. -/
theorem C08_pcf_prim (S : SchemaMut) (fuel : Nat) (node : RawNode) (s : String)
    (hk : S[0]? = some node) (hp : primName node.type = some s) :
    canonicalForm S (fuel + 1) = .ok ("\"" ++ s ++ "\"") := by
  simp only [canonicalForm, C08_pcf_prim_step S fuel 0 {} node s hk hp]
  simp

/-- Instance: `{"type":"long","logicalType":"timestamp-micros"}` has canonical form `"long"`,
    and so for every annotation. -/
theorem C08_pcf_prim_long (lg : Option LogicalType) (fuel : Nat) :
    canonicalForm #[⟨.long, lg⟩] (fuel + 1) = .ok "\"long\"" :=
  C08_pcf_prim _ fuel ⟨.long, lg⟩ "long" rfl rfl

/-- Name of a named node. -/
def namedName : RegularType → Option Name
  | .record nm _ => some nm | .enum nm _ => some nm | .fixed nm _ => some nm
  | _ => none

/-- A named type that was already written in full is written as its quoted fullname; nothing else
    changes. -/
theorem C08_pcf_named_once (S : SchemaMut) (fuel key : Nat) (st : PcfState) (node : RawNode)
    (nm : Name) (hk : S[key]? = some node) (hn : namedName node.type = some nm)
    (hw : st.written.contains key = true) :
    pcf S (fuel + 1) key st = .ok { st with out := st.out ++ "\"" ++ nm.fq ++ "\"" } := by
  simp only [pcf, hk]
  cases ht : node.type <;> rw [ht] at hn <;> simp only [namedName, Option.some.injEq, reduceCtorEq] at hn
  all_goals subst hn; simp only [hw, if_true]

/-- The first time, a named type is written in full and recorded as written. -/
theorem C08_pcf_named_first_enum (S : SchemaMut) (fuel key : Nat) (st : PcfState) (lg)
    (nm : Name) (syms : List String) (hk : S[key]? = some ⟨.enum nm syms, lg⟩)
    (hw : st.written.contains key = false) :
    pcf S (fuel + 1) key st = .ok { st with
      written := key :: st.written,
      out := st.out ++ ("{\"name\":\"" ++ nm.fq ++ "\",\"type\":\"enum\",\"symbols\":[" ++
        joinWith "," (syms.map fun s => "\"" ++ s ++ "\"") ++ "]}") } := by
  simp only [pcf, hk, hw, Bool.false_eq_true, if_false]

theorem C08_pcf_named_first_fixed (S : SchemaMut) (fuel key : Nat) (st : PcfState) (lg)
    (nm : Name) (size : Nat) (hk : S[key]? = some ⟨.fixed nm size, lg⟩)
    (hw : st.written.contains key = false) :
    pcf S (fuel + 1) key st = .ok { st with
      written := key :: st.written,
      out := st.out ++ ("{\"name\":\"" ++ nm.fq ++ "\",\"type\":\"fixed\",\"size\":" ++
        toString size ++ "}") } := by
  simp only [pcf, hk, hw, Bool.false_eq_true, if_false]

/-- Dropping all logical annotations. -/
def stripLogical (S : SchemaMut) : SchemaMut := S.map fun n => { n with logical := none }

theorem stripLogical_getElem? (S : SchemaMut) (key : Nat) :
    (stripLogical S)[key]? = S[key]?.map fun n => { n with logical := none } := by
  simp [stripLogical]

theorem pcf_stripLogical (S : SchemaMut) (fuel : Nat) :
    (∀ key st, pcf (stripLogical S) fuel key st = pcf S fuel key st) ∧
    (∀ ks first st, pcfList (stripLogical S) fuel ks first st = pcfList S fuel ks first st) ∧
    (∀ fs first st, pcfFields (stripLogical S) fuel fs first st = pcfFields S fuel fs first st) := by
  induction fuel with
  | zero =>
    refine ⟨fun _ _ => rfl, ?_, ?_⟩
    · intro ks first st; cases ks <;> rfl
    · intro fs first st; cases fs <;> rfl
  | succ fuel ih =>
    obtain ⟨ihP, ihL, ihF⟩ := ih
    refine ⟨?_, ?_, ?_⟩
    · intro key st
      simp only [pcf, stripLogical_getElem?]
      cases S[key]? with
      | none => rfl
      | some node =>
        simp only [Option.map_some, ihP, ihL, ihF]
    · intro ks first st
      cases ks with
      | nil => rfl
      | cons k ks => simp only [pcfList, ihP, ihL]
    · intro fs first st
      cases fs with
      | nil => rfl
      | cons f fs => obtain ⟨name, k⟩ := f; simp only [pcfFields, ihP, ihF]

/-- The canonical form does not depend on logical types. -/
theorem C08_pcf_logical_irrelevant (S : SchemaMut) (fuel : Nat) :
    canonicalForm (S.map fun n => { n with logical := none }) fuel = canonicalForm S fuel := by
  have := (pcf_stripLogical S fuel).1 0 {}
  simp only [stripLogical] at this
  simp only [canonicalForm, this]

/-- More generally: two node vectors with the same regular types have the same canonical form. -/
theorem C08_pcf_depends_on_types_only (S T : SchemaMut) (fuel : Nat)
    (h : S.map (·.type) = T.map (·.type)) :
    canonicalForm S fuel = canonicalForm T fuel := by
  have hs : ∀ U : SchemaMut, (U.map fun n => ({ n with logical := none } : RawNode)) =
      (U.map (·.type)).map fun t => ({ type := t, logical := none } : RawNode) := by
    intro U; simp [Array.map_map, Function.comp_def]
  rw [← C08_pcf_logical_irrelevant S, ← C08_pcf_logical_irrelevant T, hs S, hs T, h]

end Avro.Theorems
