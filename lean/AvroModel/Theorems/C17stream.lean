import AvroModel.Lemmas.OcfStream
import AvroModel.Lemmas.OcfWriter
/-
C17, the truncation clause, for the configuration `Theorems/C17.lean` leaves out: the NULL codec
with the *real* datum deserializer `de … .any`, in particular when it reads directly from the bytes
of a block that the cut has shortened.

"For a valid container file cut at any byte offset, the reader yields a prefix of the original
values (each exactly as written), then an error or end of stream — never a value that was not
written and never a panic or endless loop."

Where the datum deserializer meets a cut block.  On the slice back-end it never does:
`SliceRead::take` (`enterBlock`, `o.isSlice ∧ size > o.rest.length`) refuses a block that is not
entirely present, which is why `C17_yields_prefix` could be stated for an arbitrary `datum`.  On
the READER back-end (`io::Take` around a `BufRead`) the block is entered whatever is left, the view
`blk` holds `o.rest.take size` — shorter than `size` when the source ends inside the block — and the
deserializer runs on it.  This file proves the clause there, for every chunk schedule, and — by the
same development, parametrised by the back-end — on the slice back-end with the real `de`.

Ingredients: `C03_de_sound`/`C03_de_rejects_invalid` (an `Ok` of `de` is an `Ok` of `Spec.decode`
with the same consumed length), `Spec.decode_cut_none` (the specification decoder rejects every
proper prefix of a canonical encoding — from decoder locality and `C01_spec_roundtrip`; stronger
than `C03_prefix_free`), `C01_de_accepts`, C11 (`C11_de_cases`: slice/reader agreement of `de`
under any chunk schedule, values equal up to the `borrowed` flags), `C04_scratch_bounded`
(`max_alloc` is never changed) and `C04_no_panic_root`.

Contents
  1. `C17_datum_cut_slice`, `C17_datum_cut_reader`   prefix-safety of `de … .any` on one value;
     `C17_block_cut_slice`, `C17_block_cut_reader`   … iterated over the cut data of a block:
                                                     exactly the values that fit, then an error.
  2. `C17_yields_prefix_null_stream`                 the container statement (shape of
                                                     `C17_yields_prefix_null`), READER back-end;
     `C17_yields_prefix_null_slice_de`               the same on the SLICE back-end;
     `C17_yields_prefix_null_stream_no_panic`        the error, if any, is not a panic.
  3. Non-vacuity on concrete bytes (2 blocks, 3 ints, cut inside the second block / the first).

NOTE (import structure).  `Theorems/C17.lean` cannot be imported here: its `Lemmas/OcfReader.lean`
and `Lemmas/DeBounds.lean` (needed for C01/C03/C04) both declare `Avro.Impl.fillBuf_ok`.  The
definitions `End`, `readAll`, `blockData`, `blockBytes`, `fileBody`, `BlockOk`, `openSlice` used
below are verbatim copies, in the namespace `Avro.Theorems.Stream` (`Lemmas/OcfStream.lean`; the
container lemmas needed are copied in `Lemmas/OcfReaderS.lean`).

NOTE (the hypothesis `DatumOk` of `C17_yields_prefix_null`).  It quantifies over *all* slice states
(`s.isSlice = true → s.rest = enc v ++ y → …`), including states with a `Take` limit in place; the
real `de` does not satisfy it as stated (`readExact` goes through `limit`:
`datumOk_needs_no_limit` below), so that theorem cannot be instantiated with `de` literally.  The
hypothesis used here, `DatumCutOk`, carries a state invariant (`KOk`: no `Take`; reader: buffer
within what is left, allocation cap; slice: `avail = 0`) that the container reader maintains;
`C17_yields_prefix_null_slice_de` is the instance that was intended.

NOT proved: that the error met on a cut block is of the I/O class on the reader back-end (it is on
the examples; a `custom` error would leave the reader usable and a caller that goes on calling
after an error would get whatever the bytes after the failure point decode to — `readAll`, like
the property, stops at the first error); equality of the values beyond the `borrowed` flags on
the reader back-end (C11 gives `unborrow a = unborrow b`).
-/
namespace Avro.Theorems
open Avro Avro.Impl Avro.Impl.Ocf Avro.Impl.OcfS Avro.Theorems.Stream

/-! ### 0. Vocabulary -/

/-- the canonical encoding of `v` at `node`, as a total function (`[]` where `encode` is `none`) -/
def encD (S : Schema) (node : Node) (v : Spec.Value) : Bytes := (Spec.encode S node v).getD []

/-- what a dynamically typed target receives for `v` (`unit` where `observe` is `none`) -/
def obsD (S : Schema) (node : Node) (v : Spec.Value) : Out := (Spec.observe S node v).getD .unit

/-- The side conditions of `C01_de_accepts` on one value: it conforms to the node, `rust_decimal`
    can represent its decimals, decimals on a `fixed` have at most 16 bytes, the depth budget and
    `max_seq_size` cover it, and the model fuel is sufficient. -/
structure GoodVal (cfg : DeConfig) (S : Schema) (node : Node) (depth fuel : Nat) (v : Spec.Value) :
    Prop where
  enc : (Spec.encode S node v).isSome = true
  obs : (Spec.observe S node v).isSome = true
  fix : Spec.fixedDecOk S node v = true
  depth : Spec.depthOf v ≤ depth
  seq : Spec.maxLen v ≤ cfg.maxSeqSize
  fuel : Spec.size v * 4 + 8 ≤ fuel

variable {cfg : DeConfig} {S : Schema} {node : Node} {depth fuel : Nat}

theorem GoodVal.enc_eq {v : Spec.Value} (h : GoodVal cfg S node depth fuel v) :
    Spec.encode S node v = some (encD S node v) := by
  have := h.enc
  unfold encD
  cases hx : Spec.encode S node v with
  | none => rw [hx] at this; cases this
  | some e => rfl

theorem GoodVal.obs_eq {v : Spec.Value} (h : GoodVal cfg S node depth fuel v) :
    Spec.observe S node v = some (obsD S node v) := by
  have := h.obs
  unfold obsD
  cases hx : Spec.observe S node v with
  | none => rw [hx] at this; cases this
  | some e => rfl

/-! ### 1. Prefix-safety of the datum deserializer -/

/-- **C17 (prefix-safety of `de`, slice back-end).** The input is the canonical encoding of a good
    value followed by anything, cut after `j` bytes. Cut after the encoding: `observe v`, exactly
    the cut rest left. Cut inside the encoding: an error, never a value. -/
theorem C17_datum_cut_slice (cfg : DeConfig) (S : Schema) (node : Node) (depth fuel : Nat)
    (v : Spec.Value) (hv : GoodVal cfg S node depth fuel v)
    (s : RState) (hs : s.isSlice = true) (hl : s.limit = none) (ha : s.avail = 0)
    (y : Bytes) (j : Nat) (hr : s.rest = (encD S node v ++ y).take j) :
    ((encD S node v).length ≤ j →
      de deExtModel cfg S fuel node depth false .any s =
        (.ok (obsD S node v), { s with rest := y.take (j - (encD S node v).length) })) ∧
    (j < (encD S node v).length →
      ∃ e s', de deExtModel cfg S fuel node depth false .any s = (.error e, s')) :=
  de_cut_slice cfg S node v _ _ depth fuel hv.enc_eq hv.obs_eq hv.fix hv.depth hv.seq hv.fuel
    s hs hl ha y j hr

/-- **C17 (prefix-safety of `de`, reader back-end, any chunk schedule).** Same, the value up to the
    `borrowed` flags (the reader copies where the slice lends), the state invariant kept. -/
theorem C17_datum_cut_reader (cfg : DeConfig) (S : Schema) (node : Node) (depth fuel : Nat)
    (v : Spec.Value) (hv : GoodVal cfg S node depth fuel v)
    (M : Nat) (s : RState) (hb : BOk M s)
    (y : Bytes) (j : Nat) (hr : s.rest = (encD S node v ++ y).take j) :
    ((encD S node v).length ≤ j →
      ∃ a s', de deExtModel cfg S fuel node depth false .any s = (.ok a, s') ∧
        unborrow a = unborrow (obsD S node v) ∧
        s'.rest = y.take (j - (encD S node v).length) ∧ BOk M s') ∧
    (j < (encD S node v).length →
      ∃ e s', de deExtModel cfg S fuel node depth false .any s = (.error e, s')) :=
  de_cut_reader cfg S node v _ _ depth fuel hv.enc_eq hv.obs_eq hv.fix hv.depth hv.seq hv.fuel
    M s hb y j hr

theorem de_datumCutOk_slice (cfg : DeConfig) (S : Schema) (node : Node) (depth fuel M : Nat) :
    DatumCutOk (encD S node) (GoodVal cfg S node depth fuel) (KOk true M) id (obsD S node)
      (de deExtModel cfg S fuel node depth false .any) := by
  intro s v y j hv hk hr
  obtain ⟨h1, h2⟩ := C17_datum_cut_slice cfg S node depth fuel v hv s hk.back hk.limit
    (hk.avail0 rfl) y j hr
  exact ⟨fun hj => ⟨_, _, h1 hj, rfl, rfl, KOk.ofSlice hk.back hk.limit (hk.avail0 rfl)⟩, h2⟩

theorem de_datumCutOk_reader (cfg : DeConfig) (S : Schema) (node : Node) (depth fuel M : Nat) :
    DatumCutOk (encD S node) (GoodVal cfg S node depth fuel) (KOk false M) unborrow
      (fun v => unborrow (obsD S node v)) (de deExtModel cfg S fuel node depth false .any) := by
  intro s v y j hv hk hr
  obtain ⟨h1, h2⟩ := C17_datum_cut_reader cfg S node depth fuel v hv M s hk.toBOk y j hr
  refine ⟨fun hj => ?_, h2⟩
  obtain ⟨a, s', e1, e2, e3, e4⟩ := h1 hj
  exact ⟨a, s', e1, e2, e3, KOk.ofBOk e4⟩

/-- **C17 (the data of a block, cut; slice back-end).** `vals` good values, the input their
    concatenated canonical encodings (what the writer puts in a block under the null codec) cut
    after `j` bytes. Running `de` once per value until the first error yields exactly
    `observe v₁ … observe v_k` for the `k` values whose encodings lie entirely in the first `j`
    bytes (`fitting`, a prefix of `vals`) — and, if the cut removed anything, then an error:
    never an `Ok` with some other value. -/
theorem C17_block_cut_slice (cfg : DeConfig) (S : Schema) (node : Node) (depth fuel : Nat)
    (vals : List Spec.Value) (hv : ∀ v ∈ vals, GoodVal cfg S node depth fuel v)
    (s : RState) (hs : s.isSlice = true) (hl : s.limit = none) (ha : s.avail = 0)
    (j : Nat) (hr : s.rest = (Stream.blockData (encD S node) vals).take j) :
    (readMany (de deExtModel cfg S fuel node depth false .any) vals.length s).1
        = (fitting (encD S node) vals j).map (obsD S node) ∧
    fitting (encD S node) vals j <+: vals ∧
    (j < (Stream.blockData (encD S node) vals).length →
      ∃ e, (readMany (de deExtModel cfg S fuel node depth false .any) vals.length s).2 = some e) ∧
    ((Stream.blockData (encD S node) vals).length ≤ j →
      fitting (encD S node) vals j = vals ∧
      (readMany (de deExtModel cfg S fuel node depth false .any) vals.length s).2 = none) := by
  obtain ⟨h1, h2, h3⟩ := readMany_cut (encD S node) (de_datumCutOk_slice cfg S node depth fuel 0)
    vals s j hv (KOk.ofSlice hs hl ha) hr
  refine ⟨by simpa using h1, fitting_prefix _ _ _, fun hj => h2 (fitting_lt _ _ _ hj), fun hj => ?_⟩
  have := fitting_all (encD S node) vals j hj
  exact ⟨this, h3 (by rw [this])⟩

/-- **C17 (the data of a block, cut; reader back-end, any chunk schedule).** -/
theorem C17_block_cut_reader (cfg : DeConfig) (S : Schema) (node : Node) (depth fuel : Nat)
    (vals : List Spec.Value) (hv : ∀ v ∈ vals, GoodVal cfg S node depth fuel v)
    (M : Nat) (s : RState) (hb : BOk M s)
    (j : Nat) (hr : s.rest = (Stream.blockData (encD S node) vals).take j) :
    ((readMany (de deExtModel cfg S fuel node depth false .any) vals.length s).1.map unborrow
        = (fitting (encD S node) vals j).map (fun v => unborrow (obsD S node v))) ∧
    fitting (encD S node) vals j <+: vals ∧
    (j < (Stream.blockData (encD S node) vals).length →
      ∃ e, (readMany (de deExtModel cfg S fuel node depth false .any) vals.length s).2 = some e) ∧
    ((Stream.blockData (encD S node) vals).length ≤ j →
      fitting (encD S node) vals j = vals ∧
      (readMany (de deExtModel cfg S fuel node depth false .any) vals.length s).2 = none) := by
  obtain ⟨h1, h2, h3⟩ := readMany_cut (encD S node) (de_datumCutOk_reader cfg S node depth fuel M)
    vals s j hv (KOk.ofBOk hb) hr
  refine ⟨h1, fitting_prefix _ _ _, fun hj => h2 (fitting_lt _ _ _ hj), fun hj => ?_⟩
  have := fitting_all (encD S node) vals j hj
  exact ⟨this, h3 (by rw [this])⟩

/-! ### 2. The container reader on a cut file: null codec, reader back-end, real `de` -/

/-- **C17 (a valid file cut at any byte offset): null codec, reader back-end, the real datum
    deserializer.**
    `blocks` are the lists of values of the successive blocks, each value good (`GoodVal`), counts and
    sizes within `i64` (`BlockOk`); `fileBody` lays the file out as the writer does (count, size,
    concatenated canonical encodings, sync marker — per block).  The reader is opened on the first
    `m` bytes, delivered by a `BufRead` under an arbitrary chunk schedule (`sched`, `lastChunk`),
    allocation cap `M` at least the number of bytes supplied.  `readAll` (up to `N + 1` calls of
    `deserialize_next`, `N` the number of values written) then
      * yields, up to the `borrowed` flags, a prefix of the `observe`s of the values written — never
        a value that was not written, never out of order;
      * stops by itself within the `N + 1` calls, on end of stream or on an error;
      * and if nothing was cut off yields all of them, then end of stream. -/
theorem C17_yields_prefix_null_stream (d : Decomp) (hn : d.isNull = true)
    (cfg : DeConfig) (S : Schema) (node : Node) (depth fuel : Nat)
    (sync : Bytes) (hsy : sync.length = 16)
    (blocks : List (List Spec.Value)) (hbs : ∀ b ∈ blocks, BlockOk (encD S node) b)
    (hgood : ∀ v ∈ blocks.flatten, GoodVal cfg S node depth fuel v)
    (m : Nat) (sched : List Nat) (lastChunk M : Nat)
    (hM : ((fileBody (encD S node) sync blocks).take m).length ≤ M) :
    ((readAll d (de deExtModel cfg S fuel node depth false .any) (blocks.flatten.length + 1)
        (openReader sync ((fileBody (encD S node) sync blocks).take m) sched lastChunk M)).1.map
          unborrow
      <+: blocks.flatten.map (fun v => unborrow (obsD S node v))) ∧
    (readAll d (de deExtModel cfg S fuel node depth false .any) (blocks.flatten.length + 1)
        (openReader sync ((fileBody (encD S node) sync blocks).take m) sched lastChunk M)).2
      ≠ .more ∧
    ((fileBody (encD S node) sync blocks).length ≤ m →
      (readAll d (de deExtModel cfg S fuel node depth false .any) (blocks.flatten.length + 1)
          (openReader sync ((fileBody (encD S node) sync blocks).take m) sched lastChunk M)).1.map
            unborrow
        = blocks.flatten.map (fun v => unborrow (obsD S node v)) ∧
      (readAll d (de deExtModel cfg S fuel node depth false .any) (blocks.flatten.length + 1)
          (openReader sync ((fileBody (encD S node) sync blocks).take m) sched lastChunk M)).2
        = .eos) := by
  have hd := de_datumCutOk_reader cfg S node depth fuel M
  obtain ⟨h1, h2⟩ := readAll_cut (encD S node) false hn hsy hd (blocks.flatten.length + 1) _ _
    (cutInv_open (encD S node) false (GoodVal cfg S node depth fuel) sync blocks hbs hgood m sched
      lastChunk M (fun _ => hM))
  refine ⟨h1, h2 (Nat.lt_succ_self _), fun hm => ?_⟩
  have hfull := List.take_of_length_le hm
  rw [hfull] at hM ⊢
  exact readAll_valid (encD S node) false hn hsy hd blocks hbs _ hgood
    ⟨rfl, rfl, rfl, kOk_open false _ _ _ _ _ (fun _ => hM), rfl⟩

/-- **C17 (a valid file cut at any byte offset): null codec, SLICE back-end, the real datum
    deserializer.**  The instance of `C17_yields_prefix_null` for `datum := de … .any` (its
    hypothesis `DatumOk` is not met by `de` as stated, see `datumOk_needs_no_limit`): here the
    values are exactly the `observe`s (strings and byte strings borrowed), no allocation cap is
    involved, and a block is delivered only if it is entirely present. -/
theorem C17_yields_prefix_null_slice_de (d : Decomp) (hn : d.isNull = true)
    (cfg : DeConfig) (S : Schema) (node : Node) (depth fuel : Nat)
    (sync : Bytes) (hsy : sync.length = 16)
    (blocks : List (List Spec.Value)) (hbs : ∀ b ∈ blocks, BlockOk (encD S node) b)
    (hgood : ∀ v ∈ blocks.flatten, GoodVal cfg S node depth fuel v) (m : Nat) :
    ((readAll d (de deExtModel cfg S fuel node depth false .any) (blocks.flatten.length + 1)
        (openSlice sync ((fileBody (encD S node) sync blocks).take m))).1
      <+: blocks.flatten.map (obsD S node)) ∧
    (readAll d (de deExtModel cfg S fuel node depth false .any) (blocks.flatten.length + 1)
        (openSlice sync ((fileBody (encD S node) sync blocks).take m))).2 ≠ .more ∧
    ((fileBody (encD S node) sync blocks).length ≤ m →
      readAll d (de deExtModel cfg S fuel node depth false .any) (blocks.flatten.length + 1)
          (openSlice sync ((fileBody (encD S node) sync blocks).take m))
        = (blocks.flatten.map (obsD S node), .eos)) := by
  -- `max_alloc` is not looked at on the slice: any cap does, take the one `openSlice` carries
  have hd := de_datumCutOk_slice cfg S node depth fuel 536870912
  rw [openSlice_eq]
  obtain ⟨h1, h2⟩ := readAll_cut (encD S node) true hn hsy hd (blocks.flatten.length + 1) _ _
    (cutInv_open (encD S node) true (GoodVal cfg S node depth fuel) sync blocks hbs hgood m []
      1 536870912 nofun)
  rw [List.map_id] at h1
  refine ⟨h1, h2 (Nat.lt_succ_self _), fun hm => ?_⟩
  rw [List.take_of_length_le hm]
  obtain ⟨e1, e2⟩ := readAll_valid (encD S node) true hn hsy hd blocks hbs _ hgood
    ⟨rfl, rfl, rfl, kOk_open true sync _ [] 1 536870912 nofun, rfl⟩
  rw [List.map_id] at e1
  exact Prod.ext e1 e2

/-- … and the run never ends with a panic — nor with the model's own out-of-fuel marker — for a
    well-formed schema and the fuel bound of C04: any source bytes `f`, valid or not, either
    back-end, any chunk schedule, any number of calls. -/
theorem C17_yields_prefix_null_stream_no_panic (d : Decomp)
    (cfg : DeConfig) (S : Schema) (hS : S.keysInBounds = true) (root : Nat) (node : Node)
    (hroot : S[root]? = some node) (depth fuel : Nat) (hf : fuelBound cfg S .any depth ≤ fuel)
    (sl : Bool) (sync f : Bytes) (sched : List Nat) (lastChunk M k : Nat) :
    (readAll d (de deExtModel cfg S fuel node depth false .any) k
      (openSrc sl sync f sched lastChunk M)).2 ≠ .err .panic :=
  readAll_no_panic d _
    (fun s => C04_no_panic_root deExtModel cfg S hS fuel root node hroot depth false .any hf s)
    k _ (C17_inv_init _ rfl)

/-! ### 3. Non-vacuity -/

namespace C17stream
set_option linter.unusedSimpArgs false

/-- `int` values through the specification encoder -/
def exEnc : Spec.Value → Bytes := encD #[.int] .int
def exSync : Bytes := List.replicate 16 0xAB
/-- two blocks, three ints: `[1, 2]` and `[300]` -/
def exBlocks : List (List Spec.Value) := [[.int 1, .int 2], [.int 300]]
def exFile : Bytes := fileBody exEnc exSync exBlocks
def exNull : Decomp := { isNull := true, decompress := fun _ => none }
def exDatum : RState → Except DeErr Out × RState := de deExtModel {} #[.int] 20 .int 64 false .any
/-- block 1 = count 2, size 2, `02 04`, marker; block 2 = count 1, size 2, `D8 04`, marker -/
def exBytes : Bytes := [4, 4, 2, 4] ++ exSync ++ [2, 4, 0xD8, 0x04] ++ exSync

theorem exEnc1 : exEnc (.int 1) = [2] := by
  simp [exEnc, encD, Spec.encode, Spec.encodeLong, Spec.zigzag, Spec.encodeNat, Spec.InI32]
theorem exEnc2 : exEnc (.int 2) = [4] := by
  simp [exEnc, encD, Spec.encode, Spec.encodeLong, Spec.zigzag, Spec.encodeNat, Spec.InI32]
theorem exEnc300 : exEnc (.int 300) = [0xD8, 0x04] := by
  simp [exEnc, encD, Spec.encode, Spec.encodeLong, Spec.zigzag, Spec.encodeNat, Spec.InI32]
theorem exVar1 : encodeVarI64 1 = [2] := by
  unfold encodeVarI64
  have : (zigzagBV (BitVec.ofInt 64 1)).toNat = 2 := by decide
  rw [this, encodeVarU64]; decide
theorem exVar2 : encodeVarI64 2 = [4] := by
  unfold encodeVarI64
  have : (zigzagBV (BitVec.ofInt 64 2)).toNat = 4 := by decide
  rw [this, encodeVarU64]; decide

/-- the file the layout function produces, byte for byte -/
theorem exFile_eq : exFile = exBytes := by
  simp [exFile, exBytes, fileBody, Stream.blockBytes, Stream.blockData, exBlocks, exEnc1, exEnc2, exEnc300,
    exVar1, exVar2]

theorem exUz2 : (unzigzagBV (BitVec.ofNat 64 2)).toInt = 1 := by decide
theorem exUz4 : (unzigzagBV (BitVec.ofNat 64 4)).toInt = 2 := by decide
theorem exUz600 : (unzigzagBV (BitVec.ofNat 64 600)).toInt = 300 := by decide

/-- Cut after 23 bytes, i.e. inside the second block, in the middle of the varint of `300`
    (`D8` present, `04` missing); delivered in chunks of 1, 2, then 3 bytes: the two values of the
    first block, then an I/O error — the third value is not fabricated from the half varint. -/
theorem ex_cut_second_block :
    readAll exNull exDatum 4 (openReader exSync (exFile.take 23) [1, 2] 3 1000) =
      ([.i32 1, .i32 2], .err .io) := by
  rw [exFile_eq]
  simp [readAll, next, nextInner, enterBlock, leaveBlock, fillBuf, readVarint, decodeVar,
    decodeVarI32, decodeVarI64, decodeVarU64, decodeVarU64Aux, readExact, readExactR, readSome,
    consume, exDatum, de, deAny, exBytes, exSync, exNull, openSrc, bind, pure, exUz2, exUz4, srcAfterBlock, srcAfterBlockGo,
    exUz600, varintBytewise, DeM.fail, Prod.map, ofDe]

/-- Cut after 3 bytes, inside the FIRST block (`02` present, `04` missing): the streaming reader
    has already delivered the first value when it meets the cut (a slice reader refuses the whole
    block, `SliceRead::take`). -/
theorem ex_cut_first_block :
    readAll exNull exDatum 4 (openReader exSync (exFile.take 3) [1, 2] 3 1000) =
      ([.i32 1], .err .io) := by
  rw [exFile_eq]
  simp [readAll, next, nextInner, enterBlock, leaveBlock, fillBuf, readVarint, decodeVar,
    decodeVarI32, decodeVarI64, decodeVarU64, decodeVarU64Aux, readExact, readExactR, readSome,
    consume, exDatum, de, deAny, exBytes, exSync, exNull, openSrc, bind, pure, exUz2, exUz4, srcAfterBlock, srcAfterBlockGo,
    exUz600, varintBytewise, DeM.fail, Prod.map, ofDe]

/-- The same two cuts on the slice back-end: the cut block is refused as a whole. -/
theorem ex_cut_second_block_slice :
    readAll exNull exDatum 4 (openSlice exSync (exFile.take 23)) = ([.i32 1, .i32 2], .err .custom) ∧
    readAll exNull exDatum 4 (openSlice exSync (exFile.take 3)) = ([], .err .custom) := by
  rw [exFile_eq]
  constructor <;>
  simp [readAll, next, nextInner, enterBlock, leaveBlock, fillBuf, readVarint, decodeVar,
    decodeVarI32, decodeVarI64, decodeVarU64, decodeVarU64Aux, readExact, readExactR, readSome,
    consume, exDatum, de, deAny, exBytes, exSync, exNull, openSlice, bind, pure, exUz2, exUz4,
    exUz600, varintBytewise, DeM.fail, Prod.map, ofDe]

/-- the whole file: the three values, then end of stream -/
theorem ex_whole_file :
    readAll exNull exDatum 4 (openReader exSync exFile [1, 2] 3 1000) =
      ([.i32 1, .i32 2, .i32 300], .eos) := by
  rw [exFile_eq]
  simp [readAll, next, nextInner, enterBlock, leaveBlock, fillBuf, readVarint, decodeVar,
    decodeVarI32, decodeVarI64, decodeVarU64, decodeVarU64Aux, readExact, readExactR, readSome,
    consume, exDatum, de, deAny, exBytes, exSync, exNull, openSrc, bind, pure, exUz2, exUz4, srcAfterBlock, srcAfterBlockGo,
    exUz600, varintBytewise, DeM.fail, Prod.map, ofDe]

theorem exGood : ∀ v ∈ exBlocks.flatten, GoodVal {} #[.int] .int 64 20 v := by
  intro v hv
  simp only [exBlocks, List.flatten_cons, List.flatten_nil, List.cons_append, List.nil_append,
    List.append_nil, List.mem_cons, List.not_mem_nil, or_false] at hv
  rcases hv with rfl | rfl | rfl
  · exact ⟨by simp [Spec.encode, Spec.InI32], by rfl, by rfl, by decide, by decide, by decide⟩
  · exact ⟨by simp [Spec.encode, Spec.InI32], by rfl, by rfl, by decide, by decide, by decide⟩
  · exact ⟨by simp [Spec.encode, Spec.InI32], by rfl, by rfl, by decide, by decide, by decide⟩

theorem exBlockOk : ∀ b ∈ exBlocks, BlockOk exEnc b := by
  intro b hb
  simp only [exBlocks, List.mem_cons, List.not_mem_nil, or_false] at hb
  rcases hb with rfl | rfl
  · exact ⟨by decide, by simp [Stream.blockData, exEnc1, exEnc2]; decide⟩
  · exact ⟨by decide, by simp [Stream.blockData, exEnc300]; decide⟩

/-- the general theorem applies to the example, for every cut `m` and every chunk schedule -/
theorem ex_general (m : Nat) (sched : List Nat) (lastChunk : Nat) :
    ((readAll exNull exDatum 4 (openReader exSync (exFile.take m) sched lastChunk 1000)).1.map
        unborrow <+: [.i32 1, .i32 2, .i32 300]) ∧
    (readAll exNull exDatum 4 (openReader exSync (exFile.take m) sched lastChunk 1000)).2
      ≠ .more := by
  have h := C17_yields_prefix_null_stream exNull rfl {} #[.int] .int 64 20 exSync rfl exBlocks
    exBlockOk exGood m sched lastChunk 1000 (by
      have : exFile.length = 40 := by rw [exFile_eq]; rfl
      show (exFile.take m).length ≤ 1000
      rw [List.length_take]; omega)
  exact ⟨h.1, h.2.1⟩

/-- `C17_block_cut_slice` on the data of a block `[1, 300, 2]` cut after 2 bytes (inside `300`):
    one value, then an error (class `custom` on the slice, `io` on a reader). -/
theorem ex_block_cut :
    readMany exDatum 3 { rest := (Stream.blockData exEnc [.int 1, .int 300, .int 2]).take 2 } =
      ([.i32 1], some .custom) := by
  simp [Stream.blockData, exEnc1, exEnc2, exEnc300, readMany, exDatum, de, deAny, readVarint, decodeVar,
    decodeVarI32, decodeVarI64, decodeVarU64, decodeVarU64Aux, bind, pure, exUz2]

end C17stream

/-- The hypothesis `DatumOk` of `C17_yields_prefix_null` asks the datum deserializer to succeed
    from *every* slice state whose `rest` starts with an encoding. The real `de` does not when a
    `Take` limit is in place (state never reached between two datums): hence `DatumCutOk` carries
    a state invariant. -/
theorem datumOk_needs_no_limit :
    Spec.encode #[.float] .float (.float 0) = some [0, 0, 0, 0] ∧
    (de deExtModel {} #[.float] 20 .float 64 false .any
      { isSlice := true, rest := [0, 0, 0, 0], limit := some 0 }).1 = .error .io := by
  constructor
  · decide
  · simp [de, deAny, readExact, readExactR, readSome, bind, DeM.fail]

/-! ### 4. The layout `fileBody` is the writer's -/

/-- `fileBody` is what the writer model puts after the header under the null codec
    (`Lemmas/OcfWriter.lean`, `blocksBytes`: per block the count, the size, the concatenated
    datum encodings, the sync marker), for the blocks `(number of values, concatenated encodings)`. -/
theorem fileBody_eq_writer {V : Type} (enc : V → Bytes) (c : Codec) (hc : c.isNull = true)
    (sync : Bytes) (blocks : List (List V)) :
    fileBody enc sync blocks =
      Ocf.blocksBytes c sync (blocks.map fun b => (b.length, Stream.blockData enc b)) := by
  have : Stream.blockBytes enc sync = fun (x : List V) =>
      encodeVarI64 x.length ++ (encodeVarI64 (Stream.blockData enc x).length ++
        (Stream.blockData enc x ++ sync)) := by
    funext x; simp [Stream.blockBytes, List.append_assoc]
  simp [fileBody, Ocf.blocksBytes, Ocf.blockBytes, Ocf.codecData, hc, List.map_map,
    Function.comp_def, this]

end Avro.Theorems
