import AvroModel.Lemmas.Crc
/-
C08 (checksum part): the fingerprint function of the implementation, over the table and seed
extracted from the running code, is the CRC-64-AVRO of the specification, for every byte string.
-/
namespace Avro.Theorems
open Avro Avro.Spec Avro.Impl Avro.Generated

/-- The extracted seed is the specification's `EMPTY`. -/
theorem C08_seed : rabinEmpty = Spec.EMPTY := by decide +kernel

/-- Every entry of the extracted table is the specification's `FP_TABLE[i]`
    (complete table, checked by kernel evaluation). -/
theorem C08_table_all :
    (List.range 256).all (fun i => rabinTable[i]! == Spec.tableEntry i) = true := by
  decide +kernel

theorem C08_table (i : Nat) (h : i < 256) : rabinTable[i]! = Spec.tableEntry i := by
  have := C08_table_all
  rw [List.all_eq_true] at this
  have := this i (by simp [h])
  simpa using this

/-- The table-driven step equals eight bit-serial rounds on every one of the 2^64 × 256
    (state, byte) pairs. -/
theorem C08_step (s : BitVec 64) (b : UInt8) : rabinStep s b = Spec.crcStep s b := by
  unfold rabinStep crcStep
  rw [round8_split (s ^^^ BitVec.ofNat 64 b.toNat)]
  have hlt : ((s ^^^ BitVec.ofNat 64 b.toNat) &&& 0xFF#64).toNat < 256 := by
    rw [BitVec.toNat_and]
    have : (s ^^^ BitVec.ofNat 64 b.toNat).toNat &&& (0xFF#64 : BitVec 64).toNat ≤ (0xFF#64 : BitVec 64).toNat :=
      Nat.and_le_right
    have h255 : (0xFF#64 : BitVec 64).toNat = 255 := by decide
    omega
  rw [C08_table _ hlt]
  unfold tableEntry
  rw [BitVec.ofNat_toNat, BitVec.setWidth_eq]
  congr 1
  -- the byte only touches the low 8 bits, so the shifted parts agree
  ext i hi
  simp only [BitVec.getElem_ushiftRight, BitVec.getLsbD_xor]
  have hb : (BitVec.ofNat 64 b.toNat).getLsbD (8 + i) = false := by
    simp only [BitVec.getLsbD_ofNat]
    have : b.toNat.testBit (8 + i) = false := by
      apply Nat.testBit_lt_two_pow
      have := b.toNat_lt
      have : (2:Nat) ^ 8 ≤ 2 ^ (8 + i) := Nat.pow_le_pow_right (by omega) (by omega)
      omega
    simp [this]
  simp [hb]

/-- The whole checksum, for every byte string. -/
theorem C08_fold (bs : Bytes) : rabinHash bs = Spec.crc64 bs := by
  unfold rabinHash crc64
  rw [C08_seed]
  generalize Spec.EMPTY = s
  induction bs generalizing s with
  | nil => rfl
  | cons b bs ih => simp only [List.foldl_cons, C08_step, ih]

/-- … and its little-endian layout. -/
theorem C08_fingerprint_bytes (bs : Bytes) : rabinFingerprint bs = Spec.fingerprintLE bs := by
  unfold rabinFingerprint fingerprintLE; rw [C08_fold]

/-- Non-vacuity / sanity: the specification's own test vector (`"null"`). -/
example : Spec.crc64 [34, 110, 117, 108, 108, 34] = BitVec.ofInt 64 7195948357588979594 := by
  decide +kernel

end Avro.Theorems
