import AvroModel.Impl.Single
import AvroModel.Theorems.C08
/-
C18 — single-object encoding: marker + fingerprint + datum, verified on read.
-/
namespace Avro.Theorems
open Avro Avro.Impl

/-- Framing: on a writer that does not fail, the output is exactly `C3 01 ++ fp ++ datum bytes`,
    and serialization succeeds iff the datum serializer does. -/
theorem C18_frame (fp : Bytes) (datum : SerState → Except SerErr Unit × SerState) (s : SerState)
    (hb : s.budget = none) :
    toSingleObject fp datum s = datum { s with out := s.out ++ [0xC3, 0x01] ++ fp } := by
  unfold toSingleObject writeAll singleMarker
  simp [hb, List.append_assoc]

/-- The fingerprint written is the CRC-64-AVRO (specification) of the canonical form, little endian. -/
theorem C18_fingerprint_is_crc (S : SchemaMut) (fuel : Nat) (text : String)
    (h : canonicalForm S fuel = .ok text) :
    schemaFingerprint S fuel = .ok (Spec.fingerprintLE text.toUTF8.data.toList) := by
  unfold schemaFingerprint; rw [h]; simp [C08_fingerprint_bytes]

/-- Input shorter than the 10-byte header is an error, from a slice … -/
theorem C18_short_header_err_slice {α} (fp : Bytes) (datum : RState → Except DeErr α × RState)
    (s : RState) (hs : s.isSlice = true) (hl : s.rest.length < 10) :
    (fromSingleObject fp datum s).1 = .error .custom := by
  unfold fromSingleObject; simp [hs, hl]

/-- A header whose first two bytes are not `C3 01` is rejected (slice). -/
theorem C18_marker_err_slice {α} (fp : Bytes) (datum : RState → Except DeErr α × RState)
    (s : RState) (hs : s.isSlice = true) (hl : 10 ≤ s.rest.length)
    (hm : (s.rest.take 10).take 2 ≠ [0xC3, 0x01]) :
    (fromSingleObject fp datum s).1 = .error .custom := by
  unfold fromSingleObject checkHeader singleMarker
  have : ¬ s.rest.length < 10 := by omega
  simp [hs, this, hm]

/-- A fingerprint that is not the schema's is rejected: a message written under a schema with
    another fingerprint is never decoded (slice). -/
theorem C18_fingerprint_err_slice {α} (fp : Bytes) (datum : RState → Except DeErr α × RState)
    (s : RState) (hs : s.isSlice = true) (hl : 10 ≤ s.rest.length)
    (hf : ((s.rest.take 10).drop 2).take 8 ≠ fp) :
    (fromSingleObject fp datum s).1 = .error .custom := by
  unfold fromSingleObject checkHeader
  have : ¬ s.rest.length < 10 := by omega
  simp [hs, this, hf]

/-- On a well-formed header the datum deserializer runs on exactly what follows the header. -/
theorem C18_accepts_slice {α} (fp : Bytes) (datum : RState → Except DeErr α × RState)
    (s : RState) (hs : s.isSlice = true) (payload : Bytes) (hfp : fp.length = 8)
    (hr : s.rest = [0xC3, 0x01] ++ fp ++ payload) :
    fromSingleObject fp datum s = datum { s with rest := payload } := by
  unfold fromSingleObject checkHeader singleMarker
  have hlen : ¬ s.rest.length < 10 := by rw [hr]; simp [hfp]
  have hsplit : s.rest = ([0xC3, 0x01] ++ fp) ++ payload := by rw [hr]
  have hl10 : ([0xC3, 0x01] ++ fp : Bytes).length = 10 := by simp [hfp]
  have h10 : s.rest.take 10 = [0xC3, 0x01] ++ fp := by
    rw [hsplit, ← hl10, List.take_left]
  have hd : s.rest.drop 10 = payload := by
    rw [hsplit, ← hl10, List.drop_left]
  have ht8 : List.take 8 fp = fp := by rw [← hfp, List.take_length]
  simp [hs, hlen, h10, hd, ht8]

/- Write then read: `C18_write_read` (Theorems/C18full.lean) composes `C18_frame`,
   `C01_roundtrip_impl` and `C18_accepts_slice` with the real `ser` and `de`.  (A former
   `C18_write_read_slice` here had the statement and the proof of `C18_accepts_slice` and did not
   mention the writer; it has been removed.) -/

end Avro.Theorems
