import AvroModel.Theorems.C12full
import AvroModel.Theorems.C03reader
/-
C12 on the STREAMING-READER back-end, for every refill schedule: ignoring a part of the input
(`deserialize_ignored_any`, a struct target that lacks a field, a unit variant for a union branch)
consumes exactly what reading it would.

The four slice theorems of `Theorems/C12layouts.lean` transferred through C11 as in
`Theorems/C03reader.lean` (same hypotheses on the reader state, same conventions: values up to
`unborrow`, the remaining input exactly, `ReaderOK` of the final state).

What does NOT transfer.  The slice theorems phrase "consumes exactly what reading would" as
"ends in the SAME STATE as the full read" (`C12_skip_agrees_with_read … = (.ok .unit, s₁)`,
`C12_skip_same_state_all_layouts`).  On the reader the two final states have the same `rest` —
the same bytes have been consumed, and by C11 everything that is read afterwards is the same — but
they are in general DIFFERENT states: a string that does not fit the buffered chunk is copied
through the scratch buffer by the full read (`scratch` grows), and jumped over by `skip_bytes`
when it sits in a block written with its byte size (`C12reader_skip_state_differs`).  So the reader versions state `r₂.rest = r₁.rest` and
`ReaderOK r₂`, not `r₂ = r₁`.
-/
namespace Avro.Theorems
open Avro Avro.Spec Avro.Impl

/-! ### 1. Skipping consumes exactly what the specification decoder consumes -/

/-- **C12, skipping (all layouts), streaming reader.**  The statement of `C12_skip_all_layouts`
    for a reader state with any refill schedule.  (The value is `unit` exactly: `unborrow` does
    not touch it.) -/
theorem C12_skip_all_layouts_reader (cfg : DeConfig) (S : Schema) (node : Node) (v : Spec.Value)
    (bytes rest : Bytes) (depth fuelS fuelX : Nat)
    (hdec : Spec.decode S fuelS node bytes = some (v, rest))
    (hobs : (Spec.observe S node v).isSome = true)
    (hexact : (Spec.decodeX Limits.impl S fuelX node bytes).isSome = true)
    (hdepth : Spec.depthOf v ≤ depth) (hseq : Spec.maxLen v ≤ cfg.maxSeqSize)
    (fuel : Nat) (hfuel : Spec.size v * 4 + 8 ≤ fuel)
    (r : RState) (hs : r.isSlice = false) (hl : r.limit = none) (ha : r.avail ≤ r.rest.length)
    (hm : r.rest.length ≤ r.maxAlloc) (hr : r.rest = bytes) :
    ∃ r', de deExtModel cfg S fuel node depth false .ignored r = (.ok .unit, r') ∧
      r'.rest = rest ∧ ReaderOK r' := by
  obtain ⟨o', r', e, ho, hrest, hok⟩ :=
    de_reader_of_slice deExtModel cfg S fuel node depth false .ignored ⟨hs, hl, ha, hm⟩
      (C12_skip_all_layouts cfg S node v bytes rest depth fuelS fuelX hdec hobs hexact hdepth hseq
        fuel hfuel (sliceOf r) rfl hl rfl hr)
  rw [unborrow_unborrow_unit] at ho
  rw [unborrow_eq_unit ho] at e
  exact ⟨r', e, hrest, hok⟩

/-- The same stated on `decodeX` alone, sharp fuel bound. -/
theorem C12_skip_exact_layouts_reader (cfg : DeConfig) (S : Schema) (node : Node) (v : Spec.Value)
    (bytes rest : Bytes) (o : Out) (depth fuelX : Nat)
    (hdec : Spec.decodeX Limits.impl S fuelX node bytes = some (v, rest))
    (hobs : Spec.observe S node v = some o)
    (hdepth : Spec.depthOf v ≤ depth) (hseq : Spec.maxLen v ≤ cfg.maxSeqSize)
    (fuel : Nat) (hfuel : 3 * Spec.size v ≤ fuel)
    (r : RState) (hs : r.isSlice = false) (hl : r.limit = none) (ha : r.avail ≤ r.rest.length)
    (hm : r.rest.length ≤ r.maxAlloc) (hr : r.rest = bytes) :
    ∃ r', de deExtModel cfg S fuel node depth false .ignored r = (.ok .unit, r') ∧
      r'.rest = rest ∧ ReaderOK r' := by
  obtain ⟨o', r', e, ho, hrest, hok⟩ :=
    de_reader_of_slice deExtModel cfg S fuel node depth false .ignored ⟨hs, hl, ha, hm⟩
      (C12_skip_exact_layouts cfg S node v bytes rest o depth fuelX hdec hobs hdepth hseq
        fuel hfuel (sliceOf r) rfl hl rfl hr)
  rw [unborrow_unborrow_unit] at ho
  rw [unborrow_eq_unit ho] at e
  exact ⟨r', e, hrest, hok⟩

/-- Skipping and reading leave the same input (NOT the same state, see the header). -/
theorem C12_skip_same_rest_all_layouts_reader (cfg : DeConfig) (S : Schema) (node : Node)
    (v : Spec.Value) (bytes rest : Bytes) (depth fuelS fuelX : Nat)
    (hdec : Spec.decode S fuelS node bytes = some (v, rest))
    (hobs : (Spec.observe S node v).isSome = true)
    (hexact : (Spec.decodeX Limits.impl S fuelX node bytes).isSome = true)
    (hdepth : Spec.depthOf v ≤ depth) (hseq : Spec.maxLen v ≤ cfg.maxSeqSize)
    (fuel : Nat) (hfuel : Spec.size v * 4 + 8 ≤ fuel)
    (r : RState) (hs : r.isSlice = false) (hl : r.limit = none) (ha : r.avail ≤ r.rest.length)
    (hm : r.rest.length ≤ r.maxAlloc) (hr : r.rest = bytes) :
    (de deExtModel cfg S fuel node depth false .ignored r).2.rest =
      (de deExtModel cfg S fuel node depth false .any r).2.rest := by
  obtain ⟨o, ho⟩ := Option.isSome_iff_exists.1 hobs
  obtain ⟨x, hx⟩ := Option.isSome_iff_exists.1 hexact
  obtain ⟨r₂, e₂, h₂, _⟩ := C12_skip_all_layouts_reader cfg S node v bytes rest depth fuelS fuelX
    hdec hobs hexact hdepth hseq fuel hfuel r hs hl ha hm hr
  obtain ⟨o₁, r₁, e₁, _, h₁, _⟩ := C03_de_refines_spec_reader cfg S node v bytes rest o depth fuelS
    fuelX hdec ho (by rw [Spec.decodeX_sub _ S fuelX node bytes x hx]; rfl) hdepth hseq fuel hfuel
    r hs hl ha hm hr
  rw [e₂, e₁, h₂, h₁]

/-! ### 2. The property: the full read succeeds ⇒ the skipping read succeeds, same input left -/

/-
Full intended statement (the slice theorem with `r` a reader state), which is FALSE
(`C12reader_skip_state_differs`):

    de deExtModel cfg S fuelR node depth false .any r = (.ok o, r₁) →
    Spec.decodeX Limits.impl S fuelX node r.rest = some (v, rest) → 3 * Spec.size v ≤ fuel →
      de deExtModel cfg S fuel node depth false .ignored r = (.ok .unit, r₁) ∧
      Spec.observe S node v = some o ∧ r₁.rest = rest

Two things fail: the final state of the skipping read is not `r₁` (only its `rest` is `r₁.rest`),
and `observe v` is `o` only up to `unborrow`.
-/

/-- **C12 (all layouts), in the form of the property, streaming reader.**  If the full read of
    `node` succeeds on the reader state `r` (any refill schedule) and the block byte sizes of the
    value it read are exact (`hexact`), the skipping read succeeds from `r` and leaves exactly the
    input the full read leaves (`r₂.rest = r₁.rest = rest`), in a state that is again `ReaderOK`
    — so whatever is read next is read from the same bytes and, by C11, is what would be read after
    the full read.  `o` is `observe v` up to the `borrowed` flags. -/
theorem C12_skip_agrees_with_read_reader (cfg : DeConfig) (S : Schema) (node : Node)
    (depth fuelR : Nat) (r r₁ : RState) (o : Out)
    (hs : r.isSlice = false) (hl : r.limit = none) (ha : r.avail ≤ r.rest.length)
    (hm : r.rest.length ≤ r.maxAlloc)
    (hread : de deExtModel cfg S fuelR node depth false .any r = (.ok o, r₁))
    (v : Spec.Value) (rest : Bytes) (fuelX : Nat)
    (hexact : Spec.decodeX Limits.impl S fuelX node r.rest = some (v, rest))
    (fuel : Nat) (hfuel : 3 * Spec.size v ≤ fuel) :
    ∃ r₂ o₀, de deExtModel cfg S fuel node depth false .ignored r = (.ok .unit, r₂) ∧
      r₂.rest = r₁.rest ∧ ReaderOK r₂ ∧ ReaderOK r₁ ∧
      Spec.observe S node v = some o₀ ∧ unborrow o = unborrow o₀ ∧ r₁.rest = rest := by
  have hok : ReaderOK r := ⟨hs, hl, ha, hm⟩
  obtain ⟨o₀, sl₁, hsl, ho, hrest₁, hok₁⟩ :=
    de_slice_of_reader deExtModel cfg S fuelR node depth false .any hok hread
  obtain ⟨hskip, hobs, hr⟩ := C12_skip_agrees_with_read cfg S node depth fuelR (sliceOf r) sl₁ o₀
    rfl hl rfl hsl v rest fuelX hexact fuel hfuel
  obtain ⟨o', r₂, e, hu, hrest₂, hok₂⟩ :=
    de_reader_of_slice deExtModel cfg S fuel node depth false .ignored hok hskip
  rw [unborrow_unborrow_unit] at hu
  rw [unborrow_eq_unit hu] at e
  exact ⟨r₂, o₀, e, by rw [hrest₂, hrest₁], hok₂, hok₁, hobs, ho, by rw [hrest₁, hr]⟩

/-- **C12 (all layouts), the property with no reference to the decoded value, streaming reader**:
    with the input-independent amount of fuel of C04. -/
theorem C12_skip_follows_read_reader (cfg : DeConfig) (S : Schema) (hS : S.keysInBounds = true)
    (k : Nat) (node : Node) (hk : S[k]? = some node) (depth fuelR fuel : Nat)
    (r r₁ : RState) (o : Out)
    (hs : r.isSlice = false) (hl : r.limit = none) (ha : r.avail ≤ r.rest.length)
    (hm : r.rest.length ≤ r.maxAlloc)
    (hread : de deExtModel cfg S fuelR node depth false .any r = (.ok o, r₁))
    (hexact : ∃ fuelX, (Spec.decodeX Limits.impl S fuelX node r.rest).isSome = true)
    (hfuel : fuelBound cfg S .ignored depth ≤ fuel) :
    ∃ r₂, de deExtModel cfg S fuel node depth false .ignored r = (.ok .unit, r₂) ∧
      r₂.rest = r₁.rest ∧ ReaderOK r₂ := by
  have hok : ReaderOK r := ⟨hs, hl, ha, hm⟩
  obtain ⟨o₀, sl₁, hsl, _, hrest₁, _⟩ :=
    de_slice_of_reader deExtModel cfg S fuelR node depth false .any hok hread
  have hskip := C12_skip_follows_read cfg S hS k node hk depth fuelR fuel (sliceOf r) sl₁ o₀
    rfl hl rfl hsl hexact hfuel
  obtain ⟨o', r₂, e, hu, hrest₂, hok₂⟩ :=
    de_reader_of_slice deExtModel cfg S fuel node depth false .ignored hok hskip
  rw [unborrow_unborrow_unit] at hu
  rw [unborrow_eq_unit hu] at e
  exact ⟨r₂, e, by rw [hrest₂, hrest₁], hok₂⟩

/-! ### 3. A struct target that lacks some fields -/

/-- **C12 (struct target listing a subset of the fields), all layouts, streaming reader.**  Both
    reads succeed from the reader state, the full one with the entries `os` of `observe v`, the
    struct target with the same entries where the value of every field it does not list is
    replaced by `unit` (`maskEntry`) — both up to the `borrowed` flags — and both leave exactly
    `rest`. -/
theorem C12_struct_subset_all_layouts_reader (cfg : DeConfig) (S : Schema) (nm : Name)
    (fields : List (String × Nat)) (v : Spec.Value) (bytes rest : Bytes) (o : Out)
    (depth fuelS fuelX : Nat)
    (fs : List (String × Hint)) (hfs : ∀ p ∈ fs, p.2 = .any)
    (hdec : Spec.decode S fuelS (.record nm fields) bytes = some (v, rest))
    (hobs : Spec.observe S (.record nm fields) v = some o)
    (hexact : (Spec.decodeX Limits.impl S fuelX (.record nm fields) bytes).isSome = true)
    (hdepth : Spec.depthOf v ≤ depth) (hseq : Spec.maxLen v ≤ cfg.maxSeqSize)
    (fuel : Nat) (hfuel : Spec.size v * 4 + 8 ≤ fuel)
    (r : RState) (hs : r.isSlice = false) (hl : r.limit = none) (ha : r.avail ≤ r.rest.length)
    (hm : r.rest.length ≤ r.maxAlloc) (hr : r.rest = bytes) :
    ∃ os, o = .map os ∧
      (∃ o₁ r₁, de deExtModel cfg S fuel (.record nm fields) depth false .any r = (.ok o₁, r₁) ∧
        unborrow o₁ = unborrow (.map os) ∧ r₁.rest = rest ∧ ReaderOK r₁) ∧
      (∃ o₂ r₂, de deExtModel cfg S fuel (.record nm fields) depth false (.struct fs) r =
          (.ok o₂, r₂) ∧
        unborrow o₂ = unborrow (.map (os.map (maskEntry fs))) ∧ r₂.rest = rest ∧ ReaderOK r₂) := by
  have hok : ReaderOK r := ⟨hs, hl, ha, hm⟩
  obtain ⟨os, ho, h1, h2⟩ := C12_struct_subset_all_layouts cfg S nm fields v bytes rest o depth
    fuelS fuelX fs hfs hdec hobs hexact hdepth hseq fuel hfuel (sliceOf r) rfl hl rfl hr
  exact ⟨os, ho, de_reader_of_slice deExtModel cfg S fuel _ depth false .any hok h1,
    de_reader_of_slice deExtModel cfg S fuel _ depth false (.struct fs) hok h2⟩

/-- In particular both reader runs leave the same input. -/
theorem C12_struct_subset_rest_all_layouts_reader (cfg : DeConfig) (S : Schema) (nm : Name)
    (fields : List (String × Nat)) (v : Spec.Value) (bytes rest : Bytes) (o : Out)
    (depth fuelS fuelX : Nat)
    (fs : List (String × Hint)) (hfs : ∀ p ∈ fs, p.2 = .any)
    (hdec : Spec.decode S fuelS (.record nm fields) bytes = some (v, rest))
    (hobs : Spec.observe S (.record nm fields) v = some o)
    (hexact : (Spec.decodeX Limits.impl S fuelX (.record nm fields) bytes).isSome = true)
    (hdepth : Spec.depthOf v ≤ depth) (hseq : Spec.maxLen v ≤ cfg.maxSeqSize)
    (fuel : Nat) (hfuel : Spec.size v * 4 + 8 ≤ fuel)
    (r : RState) (hs : r.isSlice = false) (hl : r.limit = none) (ha : r.avail ≤ r.rest.length)
    (hm : r.rest.length ≤ r.maxAlloc) (hr : r.rest = bytes) :
    (de deExtModel cfg S fuel (.record nm fields) depth false (.struct fs) r).2.rest =
      (de deExtModel cfg S fuel (.record nm fields) depth false .any r).2.rest ∧
    (de deExtModel cfg S fuel (.record nm fields) depth false (.struct fs) r).2.rest = rest := by
  obtain ⟨os, _, ⟨o₁, r₁, e₁, _, h₁, _⟩, ⟨o₂, r₂, e₂, _, h₂, _⟩⟩ :=
    C12_struct_subset_all_layouts_reader cfg S nm fields v bytes rest o depth fuelS fuelX fs hfs
      hdec hobs hexact hdepth hseq fuel hfuel r hs hl ha hm hr
  rw [e₁, e₂]
  exact ⟨by rw [h₁, h₂], h₂⟩

/-! ### 4. A unit variant for a union branch -/

/-- **C12 (unit variant), all layouts, streaming reader.**  An enum target offered a union: if the
    target's variant for the branch's type name is a unit variant, the branch value is skipped and
    exactly the bytes of the union are consumed.  (The variant name is a `str` whose `borrowed`
    flag is not determined by C11, hence `unborrow`; the payload is `unit`.) -/
theorem C12_unit_variant_all_layouts_reader (cfg : DeConfig) (S : Schema) (vs : List Nat)
    (v : Spec.Value) (bytes rest : Bytes) (depth fuelS fuelX : Nat)
    (variants : List (String × VariantHint))
    (hdec : Spec.decode S fuelS (.union vs) bytes = some (v, rest))
    (hobs : (Spec.observe S (.union vs) v).isSome = true)
    (hexact : (Spec.decodeX Limits.impl S fuelX (.union vs) bytes).isSome = true)
    (hdepth : Spec.depthOf v ≤ depth) (hseq : Spec.maxLen v ≤ cfg.maxSeqSize)
    (fuel : Nat) (hfuel : 3 * Spec.size v ≤ fuel)
    (r : RState) (hs : r.isSlice = false) (hl : r.limit = none) (ha : r.avail ≤ r.rest.length)
    (hm : r.rest.length ≤ r.maxAlloc) (hr : r.rest = bytes) :
    ∃ idx v' k branch, v = .union idx v' ∧ vs[idx]? = some k ∧ S[k]? = some branch ∧
      (lookupVariant branch.typeName variants = some .unit →
        ∃ o' r', de deExtModel cfg S fuel (.union vs) depth false (.enum variants) r =
            (.ok o', r') ∧
          unborrow o' = .variant (.str branch.typeName false) .unit ∧
          r'.rest = rest ∧ ReaderOK r') := by
  obtain ⟨idx, v', k, branch, hv, hk, hb, himp⟩ := C12_unit_variant_all_layouts cfg S vs v bytes
    rest depth fuelS fuelX variants hdec hobs hexact hdepth hseq fuel hfuel (sliceOf r) rfl hl rfl hr
  refine ⟨idx, v', k, branch, hv, hk, hb, fun hlk => ?_⟩
  obtain ⟨o', r', e, ho, hrest, hok⟩ := de_reader_of_slice deExtModel cfg S fuel (.union vs) depth
    false (.enum variants) ⟨hs, hl, ha, hm⟩ (himp hlk)
  exact ⟨o', r', e, by rw [ho]; simp [unborrow], hrest, hok⟩

/-! ### 5. Non-vacuity: concrete readers with refills of 1, 2, 3 bytes, then 1 byte at a time -/

namespace ReaderNV
open Avro.Theorems.NVB

/-- the block byte size of `layP` (`count -2`, `size 2`, two one-byte items) is exact -/
theorem layP_exact : Spec.decodeX Limits.impl SP 10 nodeP (layP ++ [7]) = some (vP, [7]) := by rfl

/-- **`C12_skip_all_layouts_reader`**, every hypothesis discharged: the record (a string, an
    array in two blocks) behind a reader with refills 1, 2, 3, 1, 1, … is skipped, `07` is left. -/
theorem rP_skip : ∃ r', de deExtModel {} SP 100 nodeP 64 false .ignored rP = (.ok .unit, r') ∧
    r'.rest = [7] ∧ ReaderOK r' :=
  C12_skip_all_layouts_reader {} SP nodeP vP (layP ++ [7]) [7] 64 10 10 layP_decodes
    (by rw [vP_observe]; rfl) (by rw [layP_exact]; rfl) (by decide +kernel) (by decide +kernel)
    100 (by decide +kernel) rP rfl rfl (by decide) (by decide) rfl

/-- the run itself, by evaluation -/
example : de deExtModel {} SP 100 nodeP 64 false .ignored rP =
    (.ok .unit, { rP with rest := [7], avail := 0, sched := [], scratch := 3 }) :=
  resEq_of (by decide +kernel)

/-- **`C12_skip_agrees_with_read_reader`** on the full read `rP_run` (`C03reader.lean`). -/
example : ∃ r₂ o₀, de deExtModel {} SP 100 nodeP 64 false .ignored rP = (.ok .unit, r₂) ∧
    r₂.rest = [7] ∧ ReaderOK r₂ ∧
    ReaderOK { rP with rest := [7], avail := 0, sched := [], scratch := 3 } ∧
    Spec.observe SP nodeP vP = some o₀ ∧ unborrow oPr = unborrow o₀ ∧
    ({ rP with rest := [7], avail := 0, sched := [], scratch := 3 } : RState).rest = [7] :=
  C12_skip_agrees_with_read_reader {} SP nodeP 64 100 rP _ oPr rfl rfl (by decide) (by decide)
    rP_run vP [7] 10 layP_exact 100 (by decide +kernel)

/-- **`C12_skip_follows_read_reader`**, with the fuel bound of C04. -/
example : ∃ r₂, de deExtModel {} SP (fuelBound {} SP .ignored 64) nodeP 64 false .ignored rP =
      (.ok .unit, r₂) ∧ r₂.rest = [7] ∧ ReaderOK r₂ :=
  C12_skip_follows_read_reader {} SP (by decide +kernel) 0 nodeP (by decide +kernel) 64 100 _ rP _
    oPr rfl rfl (by decide) (by decide) rP_run ⟨10, Option.isSome_iff_exists.2 ⟨_, layP_exact⟩⟩ (Nat.le_refl _)

/-- **`C12_struct_subset_all_layouts_reader`**: a struct target that lists `xs` only. -/
theorem rP_struct : ∃ os, oP = .map os ∧
    (∃ o₁ r₁, de deExtModel {} SP 100 nodeP 64 false .any rP = (.ok o₁, r₁) ∧
      unborrow o₁ = unborrow (.map os) ∧ r₁.rest = [7] ∧ ReaderOK r₁) ∧
    (∃ o₂ r₂, de deExtModel {} SP 100 nodeP 64 false (.struct [("xs", .any)]) rP = (.ok o₂, r₂) ∧
      unborrow o₂ = unborrow (.map (os.map (maskEntry [("xs", .any)]))) ∧ r₂.rest = [7] ∧
      ReaderOK r₂) :=
  C12_struct_subset_all_layouts_reader {} SP nmP [("s", 1), ("xs", 2)] vP (layP ++ [7]) [7] oP
    64 10 10 [("xs", .any)] (by simp) layP_decodes vP_observe
    (Option.isSome_iff_exists.2 ⟨_, layP_exact⟩)
    (by decide +kernel) (by decide +kernel) 100 (by decide +kernel) rP rfl rfl (by decide)
    (by decide) rfl

/-- the run of the struct target, by evaluation: `s` is masked, the string was skipped -/
example : de deExtModel {} SP 100 nodeP 64 false (.struct [("xs", .any)]) rP =
    (.ok (.map [(.str "s" false, .unit), (.str "xs" false, .seq [.i32 1, .i32 2, .i32 3])]),
      { rP with rest := [7], avail := 0, sched := [], scratch := 3 }) :=
  resEq_of (by decide +kernel)

/-- `NonVacuityB.uvBytes` (union branch 1, the array `[1, 2, 3]` in two blocks) followed by `2a`,
    behind a reader with refills 1, 2, 3, 1, 1, … -/
def rU : RState :=
  { isSlice := false, rest := uvBytes ++ [0x2a], avail := 0, sched := [1, 2, 3], lastChunk := 1 }

/-- **`C12_unit_variant_all_layouts_reader`**. -/
theorem rU_instance :
    ∃ idx v' k branch, Spec.Value.union 1 (.array [.int 1, .int 2, .int 3]) = .union idx v' ∧
      [1, 2][idx]? = some k ∧ uvS[k]? = some branch ∧
      (lookupVariant branch.typeName uvVariants = some .unit →
        ∃ o' r', de deExtModel {} uvS 100 (.union [1, 2]) 64 false (.enum uvVariants) rU =
            (.ok o', r') ∧
          unborrow o' = .variant (.str branch.typeName false) .unit ∧
          r'.rest = [0x2a] ∧ ReaderOK r') :=
  C12_unit_variant_all_layouts_reader {} uvS [1, 2] _ (uvBytes ++ [0x2a]) [0x2a] 64 20 20
    uvVariants uv_dec (by decide +kernel) (by decide +kernel) (by decide +kernel)
    (by decide +kernel) 100 (by decide +kernel) rU rfl rfl (by decide) (by decide) rfl

/-- the run, by evaluation (so the premise of the inner implication is met: the branch is the
    array, its variant `Array` is a unit variant) -/
example : de deExtModel {} uvS 100 (.union [1, 2]) 64 false (.enum uvVariants) rU =
    (.ok (.variant (.str "Array" false) .unit),
      { rU with rest := [0x2a], avail := 0, sched := [] }) :=
  resEq_of (by decide +kernel)

/-! ### 6. The final state of the skipping read is not the final state of the full read -/

/-- `0: array<string>`, `1: string` -/
def SQ : Schema := #[.array 1, .string]
/-- `["hey"]` in one block written with its byte size: `count -1`, `size 4`, the item, the end
    marker. -/
def layQ : Bytes := [0x01, 0x08, 0x06, 0x68, 0x65, 0x79, 0x00]
/-- refills of 1, 2, 2 bytes, then one byte at a time: the 3-byte string straddles two refills -/
def rQ : RState :=
  { isSlice := false, rest := layQ ++ [7], avail := 0, sched := [1, 2, 2], lastChunk := 1,
    maxAlloc := 64 }

/-- **The slice statement `… .ignored s = (.ok .unit, s₁)` (same final state as the full read)
    is false on the reader.**  All hypotheses of `C12_skip_agrees_with_read_reader` hold (the
    byte size is exact), both reads succeed and leave `07`, but the full read has copied the
    string through a 3-byte scratch buffer and the skipping read has not. -/
theorem C12reader_skip_state_differs :
    Spec.decodeX Limits.impl SQ 10 (.array 1) (layQ ++ [7]) = some (.array [.string "hey"], [7]) ∧
    de deExtModel {} SQ 100 (.array 1) 64 false .any rQ =
      (.ok (.seq [.str "hey" false]),
        { rQ with rest := [7], avail := 0, sched := [], scratch := 3 }) ∧
    de deExtModel {} SQ 100 (.array 1) 64 false .ignored rQ =
      (.ok .unit, { rQ with rest := [7], avail := 0, sched := [], scratch := 0 }) ∧
    (de deExtModel {} SQ 100 (.array 1) 64 false .ignored rQ).2 ≠
      (de deExtModel {} SQ 100 (.array 1) 64 false .any rQ).2 :=
  ⟨by rfl, resEq_of (by decide +kernel), resEq_of (by decide +kernel), by decide +kernel⟩

/-- … while the theorem applies to it and gives what does hold: same remaining input. -/
example : ∃ r₂ o₀, de deExtModel {} SQ 100 (.array 1) 64 false .ignored rQ = (.ok .unit, r₂) ∧
    r₂.rest = [7] ∧ ReaderOK r₂ ∧
    ReaderOK { rQ with rest := [7], avail := 0, sched := [], scratch := 3 } ∧
    Spec.observe SQ (.array 1) (.array [.string "hey"]) = some o₀ ∧
    unborrow (.seq [.str "hey" false]) = unborrow o₀ ∧
    ({ rQ with rest := [7], avail := 0, sched := [], scratch := 3 } : RState).rest = [7] :=
  C12_skip_agrees_with_read_reader {} SQ (.array 1) 64 100 rQ _ _ rfl rfl (by decide) (by decide)
    C12reader_skip_state_differs.2.1 _ [7] 10 C12reader_skip_state_differs.1 100
    (by decide +kernel)

end ReaderNV

end Avro.Theorems
