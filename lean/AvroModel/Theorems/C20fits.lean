import AvroModel.Lemmas.DeriveRealizes
/-
C20 — "every value of a type that derives the schema builder serializes under the derived
schema": the schema built by `schemaMut` (`T::schema_mut()`) fits the serializer-call trees
(`hasShape`) that serde's derived `Serialize` presents for `T`.

* `Realizes P S f t i` (Lemmas/DeriveFits.lean): node `i` of the frozen schema `S` is the Avro
  type of `t`, to depth `f`.
* `C20_fits_given_realizes` / `C20_fits_under_option`: a value of `t` serializes at a node
  realizing `t`, directly or as the non-null branch of an `Option` union (any program).
* `C20_schema_realizes`: for programs of the fragment `FitWf` (Lemmas/DeriveBuild.lean) the
  schema built for the root type realizes it at node 0 (recursive types included).
* `C20_fits`: the two together.
* `C20_schema_realizes_unions`, `C20_fits_unions`: the same for `FitWfU`, which adds enums that
  map to unions, under the hypothesis `UnionNames` on the variant names.

The fragment `FitWf`: all primitive types, `String`/`&str`, byte vectors/slices, `[u8; N]`, `Vec`,
`HashMap`/`BTreeMap`, pointers, `Option<T>` for `T` whose node is neither null nor a union (seen
through pointers and forwarding newtypes), non-generic records (recursive ones included) whose
fields are plain or carry a logical-type attribute on a leaf type that the frozen node accepts,
unit-only enums, newtypes that forward to a non-`Option` type, non-generic newtypes of `[u8; N]`
(a named `fixed`); no struct called `Null`.  Not covered: generic declarations, logical-type
attributes on newtype/variant fields or on non-leaf types.

Outside the fragment the property fails in the model (confirmed by evaluation): a struct
called `Null` whose Avro name is overridden, or a newtype `Null(T)`, inside an `Option` (by-name
selection picks the null branch); a newtype over `Option<T>` whose name is a lookup name of `T`'s
branch, e.g. `struct Int(Option<i32>)` with `Int(None)`; `Option<()>` and `Option<Option<T>>`;
`Option<i64>` with `logical_type = "timestamp-millis"` (the chosen type drops the `Option`);
`logical_type = "decimal"` on `Vec<u8>` (the decimal node rejects raw bytes).
-/
namespace Avro.Theorems
open Avro Avro.Impl Avro.Impl.Derive Avro.Theorems.DeriveFits

/-- Steps 1–2.  If node `i` realizes `t`, every call tree of a value of `t` is accepted by the
    datum serializer at node `i`, from any unlimited writer with a clean pool, and leaves such a
    state.  No restriction on the program beyond what `Realizes` says about the schema. -/
theorem C20_fits_given_realizes (ext : Avro.Impl.Ext) (allowSlow : Bool) (P : Prog) (S : Schema) (f : Nat)
    (t : Ty) (i : Nat) (sv : SV) (node : Node) (hnode : S[i]? = some node)
    (hr : Realizes P S f t i) (hs : hasShape P f t sv = true)
    (st : SerState) (hb : st.budget = none) (hc : PoolClean st.pool) :
    ∃ st', ser ext allowSlow S node sv st = (.ok (), st') ∧ st'.budget = none ∧ PoolClean st'.pool := by
  obtain ⟨_, st', h1, h2, _⟩ := fits_all ext allowSlow P S f t i sv node hr hs (Mode.direct node hnode) st ⟨hb, hc⟩
  exact ⟨st', h1, h2.1, h2.2⟩

/-- The same inside an `Option`: at the union `[null, i]` the value is written as branch 1. -/
theorem C20_fits_under_option (ext : Avro.Impl.Ext) (allowSlow : Bool) (P : Prog) (S : Schema) (f : Nat)
    (t : Ty) (a i : Nat) (sv : SV) (ha : S[a]? = some .null) (hp : PlainAt S i)
    (hr : Realizes P S f t i) (hs : hasShape P f t sv = true)
    (st : SerState) (hb : st.budget = none) (hc : PoolClean st.pool) :
    ∃ st', ser ext allowSlow S (.union [a, i]) sv st = (.ok (), st') ∧ st'.budget = none ∧
      PoolClean st'.pool := by
  obtain ⟨_, st', h1, h2, _⟩ := fits_all ext allowSlow P S f t i sv _ hr hs (Mode.under a ha hp) st ⟨hb, hc⟩
  exact ⟨st', h1, h2.1, h2.2⟩

theorem FitWfU_decls {P : Prog} {root : Ty} (h : FitWfU P root = true) :
    ∀ (id : Nat) (d : Decl), P[id]? = some d → declOk true P d = true := by
  simp only [FitWfU, Bool.and_eq_true, Array.all_eq_true] at h
  intro id d hd
  obtain ⟨hlt, rfl⟩ := Array.getElem?_eq_some_iff.mp hd
  exact h.1 id hlt

theorem FitWfU_root {P : Prog} {root : Ty} (h : FitWfU P root = true) : tyOk P root = true := by
  simp only [FitWfU, Bool.and_eq_true] at h
  exact h.2

theorem FitWf_decls {P : Prog} {root : Ty} (h : FitWf P root = true) :
    ∀ (id : Nat) (d : Decl), P[id]? = some d → declOk false P d = true := by
  simp only [FitWf, Bool.and_eq_true, Array.all_eq_true] at h
  intro id d hd
  obtain ⟨hlt, rfl⟩ := Array.getElem?_eq_some_iff.mp hd
  exact h.1 id hlt

/-- The fragment without union enums is part of the fragment with them. -/
theorem FitWf_toU {P : Prog} {root : Ty} (h : FitWf P root = true) : FitWfU P root = true := by
  have hd := FitWf_decls h
  simp only [FitWf, Bool.and_eq_true] at h
  simp only [FitWfU, Bool.and_eq_true, Array.all_eq_true]
  exact ⟨fun i hi => declOk_mono (hd i _ (Array.getElem?_eq_getElem hi)), h.2⟩

/-- Without union enums the hypothesis on variant names is void. -/
theorem UnionNames.of_fitWf {P : Prog} {root : Ty} (h : FitWf P root = true) (s : BState) :
    UnionNames P s := by
  intro id d vs i ks hd hb
  have := FitWf_decls h id d hd
  simp [declOk, hb] at this

/-- The builder state `schema_mut()` ends in (its nodes are the schema). -/
def builderState (P : Prog) (hash : Key → String) (fuel : Nat) (root : Ty) : Option BState :=
  (findOrBuild P hash fuel root {}).map (·.2)

theorem schemaMut_eq_builderState (P : Prog) (hash : Key → String) (fuel : Nat) (root : Ty) :
    schemaMut P hash fuel root = (builderState P hash fuel root).map (·.nodes) := by
  unfold schemaMut builderState
  cases findOrBuild P hash fuel root {} <;> rfl

theorem findOrBuild_empty_idx {P : Prog} {hash : Key → String} {F : Nat} {t : Ty} {c : Nat} {s : BState}
    (h : findOrBuild P hash F t {} = some (c, s)) : c = 0 ∧ 0 < s.nodes.size := by
  cases F with
  | zero => rw [findOrBuild_zero] at h; cases h
  | succ F =>
    rw [findOrBuild_eq] at h
    cases hk : lookupKey P (F + 1) t with
    | none => simp [hk] at h
    | some key =>
      simp only [hk, List.lookup] at h
      split at h
      · cases h
      · split at h
        · rename_i hlt
          simp only [Option.some.injEq, Prod.mk.injEq] at h
          obtain ⟨rfl, rfl⟩ := h
          exact ⟨rfl, hlt⟩
        · cases h

/-- Step 3, with enums that map to unions.  For a program of the fragment `FitWfU` whose final
    builder state satisfies the hypothesis on variant names, the schema built for the root type
    realizes it at node 0, to every depth (so also for recursive types). -/
theorem C20_schema_realizes_unions (P : Prog) (hash : Key → String) (fuel : Nat) (root : Ty) (s : BState)
    (hbuild : builderState P hash fuel root = some s) (hwf : FitWfU P root = true)
    (hnames : UnionNames P s) :
    0 < (freezeNodes s.nodes).size ∧ ∀ f, Realizes P (freezeNodes s.nodes) f root 0 := by
  unfold builderState at hbuild
  cases hf : findOrBuild P hash fuel root {} with
  | none => simp [hf] at hbuild
  | some r =>
    obtain ⟨c, s'⟩ := r
    simp only [hf, Option.map_some, Option.some.injEq] at hbuild
    subst hbuild
    obtain ⟨rfl, hsz⟩ := findOrBuild_empty_idx hf
    obtain ⟨hinv, _, key, hkey, hreg⟩ :=
      (builder_specs (hash := hash) (FitWfU_decls hwf) fuel).1 root {} 0 s' [] (FitWfU_root hwf) (Inv.empty P) hf
    exact ⟨by rw [freezeNodes_size]; exact hsz,
      fun f => realizes_of_inv (FitWfU_decls hwf) hinv hnames f root key 0 (FitWfU_root hwf) hkey hreg⟩

/-- Step 3.  For a program of the fragment, the schema `schema_mut()` builds for the root type
    realizes it at node 0, to every depth (so also for recursive types). -/
theorem C20_schema_realizes (P : Prog) (hash : Key → String) (fuel : Nat) (root : Ty) (Sm : SchemaMut)
    (hbuild : schemaMut P hash fuel root = some Sm) (hwf : FitWf P root = true) :
    0 < (freezeNodes Sm).size ∧ ∀ f, Realizes P (freezeNodes Sm) f root 0 := by
  rw [schemaMut_eq_builderState] at hbuild
  cases hs : builderState P hash fuel root with
  | none => simp [hs] at hbuild
  | some s =>
    simp only [hs, Option.map_some, Option.some.injEq] at hbuild
    subst hbuild
    exact C20_schema_realizes_unions P hash fuel root s hs (FitWf_toU hwf) (UnionNames.of_fitWf hwf s)

/-- **C20 (fits).**  For a program of the fragment `FitWf`, every value of the root type — any
    serializer-call tree `sv` with `hasShape P f root sv` — serializes under the schema derived
    for it: the datum serializer on the frozen schema, started at the root node (node 0) with an
    unlimited writer and an empty pool, returns `Ok`. -/
theorem C20_fits (ext : Avro.Impl.Ext) (P : Prog) (hash : Key → String) (fuel : Nat) (root : Ty) (Sm : SchemaMut)
    (f : Nat) (sv : SV)
    (hbuild : schemaMut P hash fuel root = some Sm) (hwf : FitWf P root = true)
    (hs : hasShape P f root sv = true) :
    (ser ext false (freezeNodes Sm) ((freezeNodes Sm)[0]!) sv {}).1 = .ok () := by
  obtain ⟨hsz, hr⟩ := C20_schema_realizes P hash fuel root Sm hbuild hwf
  have hnode : (freezeNodes Sm)[0]? = some ((freezeNodes Sm)[0]!) := by
    simp [getElem!_pos, hsz]
  obtain ⟨st', h, _⟩ := C20_fits_given_realizes ext false P (freezeNodes Sm) f root 0 sv _ hnode (hr f) hs
    {} rfl PoolClean.empty
  rw [h]

/-- **C20 (fits), with enums that map to unions.**  As `C20_fits`, for the fragment `FitWfU`,
    under the hypothesis `UnionNames` on the built schema: each variant's serde name is a lookup
    name of exactly its own branch (so that by-name selection picks it), unit variants being
    called `Null`. -/
theorem C20_fits_unions (ext : Avro.Impl.Ext) (P : Prog) (hash : Key → String) (fuel : Nat) (root : Ty) (s : BState)
    (f : Nat) (sv : SV)
    (hbuild : builderState P hash fuel root = some s) (hwf : FitWfU P root = true)
    (hnames : UnionNames P s) (hs : hasShape P f root sv = true) :
    schemaMut P hash fuel root = some s.nodes ∧
    (ser ext false (freezeNodes s.nodes) ((freezeNodes s.nodes)[0]!) sv {}).1 = .ok () := by
  obtain ⟨hsz, hr⟩ := C20_schema_realizes_unions P hash fuel root s hbuild hwf hnames
  have hnode : (freezeNodes s.nodes)[0]? = some ((freezeNodes s.nodes)[0]!) := by
    simp [getElem!_pos, hsz]
  obtain ⟨st', h, _⟩ := C20_fits_given_realizes ext false P (freezeNodes s.nodes) f root 0 sv _ hnode
    (hr f) hs {} rfl PoolClean.empty
  refine ⟨by rw [schemaMut_eq_builderState, hbuild]; rfl, ?_⟩
  rw [h]

/-! ### A program of the fragment

`Tree` is recursive through `Option<Box<_>>`, `Vec<_>` and `HashMap<String, _>`, refers to the
nested record `Inner` (which has fields with logical-type attributes), the unit-only enum `Color` (with a `Null` variant, inside an `Option`) and
the forwarding newtype `Wrapper(Box<u64>)` and the named fixed `Digest([u8; 16])`. -/

def exampleProg : Prog := #[
  { ident := "Tree", modulePath := "m", body := .record [
      { name := "value", ty := .i32 },
      { name := "next", ty := .option (.ptr (.named 0 [])) },
      { name := "children", ty := .vec (.named 0 []) },
      { name := "tags", ty := .hashMap (.named 1 []) },
      { name := "color", ty := .option (.named 2 []) },
      { name := "id", ty := .named 3 [] },
      { name := "digest", ty := .option (.named 4 []) } ] },
  { ident := "Inner", modulePath := "m", body := .record [
      { name := "name", ty := .string },
      { name := "data", ty := .byteVec },
      { name := "key", ty := .byteArray 4 },
      { name := "ratio", ty := .option .f64 },
      { name := "deep", ty := .btreeMap (.vec (.option (.named 3 []))) },
      { name := "created", ty := .u64, attr := { logical := some "timestamp-millis" } },
      { name := "day", ty := .ptr .i32, attr := { logical := some "date" } },
      { name := "uid", ty := .string, attr := { logical := some "uuid" } },
      { name := "lease", ty := .byteArray 12, attr := { logical := some "duration" } },
      { name := "score", ty := .f64, attr := { logical := some "decimal", scale := some 2 } } ] },
  { ident := "Color", modulePath := "m", body := .unitEnum ["Red", "Green", "Null"] },
  { ident := "Wrapper", modulePath := "m", body := .newtype { name := "0", ty := .ptr .u64 } },
  { ident := "Digest", modulePath := "m", body := .newtype { name := "0", ty := .byteArray 16 } } ]

theorem exampleProg_fitWf : FitWf exampleProg (.named 0 []) = true := by
  have k1 : known (pascal "timestamp-millis") = some .timestampMillis := by decide
  have k2 : known (pascal "date") = some .date := by decide
  have k3 : known (pascal "uuid") = some .uuid := by decide
  have k4 : known (pascal "duration") = some .duration := by decide
  have k5 : known (pascal "decimal") = some .decimal := by decide
  simp [FitWf, exampleProg, declOk, fieldOk, plainFieldOk, tyOk, nonOpt, isDirect, Derive.peel,
    FieldKind.overridesFixedName, logicalRaw, logicalRawAt, leafNode, chosenTy, logicalOf, k1, k2, k3,
    k4, k5, isI64, isI32, isString, freezeNode, renameNode, plain, nodeAccepts]

/-- With an enum that maps to a union: `Shape` is `Circle(f64) | Named(Inner) | Null`. -/
def exampleProgU : Prog := exampleProg.push
  { ident := "Shape", modulePath := "m", body := .union [
      { ident := "Circle", serdeName := "Double", field := some { name := "0", ty := .f64 } },
      { ident := "Named", serdeName := "Inner", field := some { name := "0", ty := .named 1 [] } },
      { ident := "Null", serdeName := "Null", field := none } ] }

theorem exampleProgU_fitWfU : FitWfU exampleProgU (.vec (.named 5 [])) = true := by
  have k1 : known (pascal "timestamp-millis") = some .timestampMillis := by decide
  have k2 : known (pascal "date") = some .date := by decide
  have k3 : known (pascal "uuid") = some .uuid := by decide
  have k4 : known (pascal "duration") = some .duration := by decide
  have k5 : known (pascal "decimal") = some .decimal := by decide
  simp [FitWfU, exampleProgU, exampleProg, declOk, variantOk, fieldOk, plainFieldOk, tyOk, nonOpt, isDirect,
    Derive.peel, FieldKind.overridesFixedName, logicalRaw, logicalRawAt, leafNode, chosenTy, logicalOf, k1,
    k2, k3, k4, k5, isI64, isI32, isString, freezeNode, renameNode, plain, nodeAccepts]

end Avro.Theorems
