import AvroModel.Lemmas.ReaderTransfer
import AvroModel.Theorems.C03full
import AvroModel.Theorems.NonVacuityA
import AvroModel.Theorems.NonVacuityB
/-
C03 on the STREAMING-READER back-end (`isSlice = false`), for every refill schedule.

`Theorems/C03layouts.lean` proves decoder conformance for the slice back-end.  Here the same
statements are obtained for a reader state `r` — any chunk schedule `r.sched` / `r.lastChunk`,
any buffer position, any scratch size — as corollaries through C11 (`Theorems/C11.lean`,
`Lemmas/ReaderTransfer.lean`).

Hypotheses on the state.  The slice theorems ask `s.isSlice = true`, `s.limit = none`,
`s.avail = 0`.  The reader analogue is
    `r.isSlice = false`, `r.limit = none`, `r.avail ≤ r.rest.length`, `r.rest.length ≤ r.maxAlloc`
(`avail = 0` is NOT asked: the buffer may be part-way through a chunk, e.g. after a previous
datum; `avail ≤ rest.length` is the well-formedness of a reader state, the buffered bytes are a
prefix of what is left; the last one says that `max_alloc` — which only the reader consults —
allows what is left, as in C11).  The slice theorem is applied to `sliceOf r`
(`{ r with isSlice := true, avail := 0 }`), which `Sim` relates to `r`.

What changes in the conclusions, and why (each with a proved example at the end of the file):
  * the value is the expected one UP TO the `borrowed` flags (`unborrow`): the slice hands
    strings / byte strings out borrowed, the reader copies them (`C03reader_value_not_equal`);
  * the consumed length is exact: `r'.rest` is the same suffix;
  * about the rest of the final state the slice theorems say `s' = { s with rest := … }`; the
    reader's `avail`, `sched`, `scratch` after the run depend on the schedule
    (`C03reader_final_state_depends_on_schedule`), so the reader statements say `ReaderOK r'`
    instead: still the reader back-end, no `Take`, well-formed, within `max_alloc` — exactly the
    hypotheses again, so the statements chain from one datum to the next;
  * "is an error" transfers, WHICH error does not (C11 relates `custom` and `io`):
    `C03reader_error_class_differs`.  `C03_invalid_is_err_class_reader` (custom or I/O, not the
    model's `panic`) still holds because C04's totality is back-end independent.
-/
namespace Avro.Theorems
open Avro Avro.Spec Avro.Impl

/-! ### 1. Acceptance on every layout, reader back-end -/

/-- **C03, acceptance (all layouts), streaming reader.**  The statement of `C03_de_refines_spec`
    for a reader state with any refill schedule: the deserializer accepts every layout the
    specification decoder accepts (within the two numeric limits), returns `observe v` up to the
    `borrowed` flags and consumes exactly what the specification decoder consumed. -/
theorem C03_de_refines_spec_reader (cfg : DeConfig) (S : Schema) (node : Node) (v : Spec.Value)
    (bytes rest : Bytes) (o : Out) (depth fuelS fuelL : Nat)
    (hdec : Spec.decode S fuelS node bytes = some (v, rest))
    (hobs : Spec.observe S node v = some o)
    (hlim : (Spec.decodeL Limits.impl S fuelL node bytes).isSome = true)
    (hdepth : Spec.depthOf v ≤ depth) (hseq : Spec.maxLen v ≤ cfg.maxSeqSize)
    (fuel : Nat) (hfuel : Spec.size v * 4 + 8 ≤ fuel)
    (r : RState) (hs : r.isSlice = false) (hl : r.limit = none) (ha : r.avail ≤ r.rest.length)
    (hm : r.rest.length ≤ r.maxAlloc) (hr : r.rest = bytes) :
    ∃ o' r', de deExtModel cfg S fuel node depth false .any r = (.ok o', r') ∧
      unborrow o' = unborrow o ∧ r'.rest = rest ∧ ReaderOK r' :=
  de_reader_of_slice deExtModel cfg S fuel node depth false .any ⟨hs, hl, ha, hm⟩
    (C03_de_refines_spec cfg S node v bytes rest o depth fuelS fuelL hdec hobs hlim hdepth hseq fuel
      hfuel (sliceOf r) rfl hl rfl hr)

/-- The same with the sharp fuel bound. -/
theorem C03_de_refines_spec_fuel3_reader (cfg : DeConfig) (S : Schema) (node : Node)
    (v : Spec.Value) (bytes rest : Bytes) (o : Out) (depth fuelS fuelL : Nat)
    (hdec : Spec.decode S fuelS node bytes = some (v, rest))
    (hobs : Spec.observe S node v = some o)
    (hlim : (Spec.decodeL Limits.impl S fuelL node bytes).isSome = true)
    (hdepth : Spec.depthOf v ≤ depth) (hseq : Spec.maxLen v ≤ cfg.maxSeqSize)
    (fuel : Nat) (hfuel : 3 * Spec.size v ≤ fuel)
    (r : RState) (hs : r.isSlice = false) (hl : r.limit = none) (ha : r.avail ≤ r.rest.length)
    (hm : r.rest.length ≤ r.maxAlloc) (hr : r.rest = bytes) :
    ∃ o' r', de deExtModel cfg S fuel node depth false .any r = (.ok o', r') ∧
      unborrow o' = unborrow o ∧ r'.rest = rest ∧ ReaderOK r' :=
  de_reader_of_slice deExtModel cfg S fuel node depth false .any ⟨hs, hl, ha, hm⟩
    (C03_de_refines_spec_fuel3 cfg S node v bytes rest o depth fuelS fuelL hdec hobs hlim hdepth hseq
      fuel hfuel (sliceOf r) rfl hl rfl hr)

/-- The same stated on the limited decoder alone. -/
theorem C03_de_accepts_impl_layouts_reader (cfg : DeConfig) (S : Schema) (node : Node)
    (v : Spec.Value) (bytes rest : Bytes) (o : Out) (depth fuelS : Nat)
    (hdec : Spec.decodeL Limits.impl S fuelS node bytes = some (v, rest))
    (hobs : Spec.observe S node v = some o)
    (hdepth : Spec.depthOf v ≤ depth) (hseq : Spec.maxLen v ≤ cfg.maxSeqSize)
    (fuel : Nat) (hfuel : 3 * Spec.size v ≤ fuel)
    (r : RState) (hs : r.isSlice = false) (hl : r.limit = none) (ha : r.avail ≤ r.rest.length)
    (hm : r.rest.length ≤ r.maxAlloc) (hr : r.rest = bytes) :
    ∃ o' r', de deExtModel cfg S fuel node depth false .any r = (.ok o', r') ∧
      unborrow o' = unborrow o ∧ r'.rest = rest ∧ ReaderOK r' :=
  de_reader_of_slice deExtModel cfg S fuel node depth false .any ⟨hs, hl, ha, hm⟩
    (C03_de_accepts_impl_layouts cfg S node v bytes rest o depth fuelS hdec hobs hdepth hseq fuel
      hfuel (sliceOf r) rfl hl rfl hr)

/-! ### 2. Soundness, reader back-end -/

/-- **C03, soundness, streaming reader.**  Whatever the deserializer accepts from a reader with
    any refill schedule, `decodeL Limits.impl` accepts, with a value whose observation is what the
    target received (up to the `borrowed` flags: `o₀` is `observe v`, the reader delivers its
    strings copied) and with exactly the same remainder.  No hypothesis on the schema, the
    configuration, the fuel or the input.

    The slice statement ends with `s' = { s with rest := s'.rest }` ("nothing else of the state
    changed").  That is FALSE for the reader (`C03reader_final_state_depends_on_schedule`: the
    buffer position, the remaining schedule and the scratch size change, and depend on the
    schedule); what holds of the final state is `ReaderOK r'`. -/
theorem C03_de_sound_reader (cfg : DeConfig) (S : Schema) (node : Node) (depth fuel : Nat)
    (r r' : RState) (o : Out)
    (hs : r.isSlice = false) (hl : r.limit = none) (ha : r.avail ≤ r.rest.length)
    (hm : r.rest.length ≤ r.maxAlloc)
    (h : de deExtModel cfg S fuel node depth false .any r = (.ok o, r')) :
    ∃ v fuelS o₀, Spec.decodeL Limits.impl S fuelS node r.rest = some (v, r'.rest) ∧
      Spec.observe S node v = some o₀ ∧ unborrow o = unborrow o₀ ∧ ReaderOK r' := by
  obtain ⟨o₀, sl', hsl, ho, hrest, hok⟩ :=
    de_slice_of_reader deExtModel cfg S fuel node depth false .any ⟨hs, hl, ha, hm⟩ h
  obtain ⟨v, fS, hv, hobs, _⟩ :=
    C03_de_sound cfg S node depth fuel (sliceOf r) sl' o₀ rfl hl rfl hsl
  exact ⟨v, fS, o₀, by rw [hrest]; exact hv, hobs, ho, hok⟩

/-- **C03, soundness against the specification decoder, streaming reader.** -/
theorem C03_de_rejects_invalid_reader (cfg : DeConfig) (S : Schema) (node : Node)
    (depth fuel : Nat) (r r' : RState) (o : Out)
    (hs : r.isSlice = false) (hl : r.limit = none) (ha : r.avail ≤ r.rest.length)
    (hm : r.rest.length ≤ r.maxAlloc)
    (h : de deExtModel cfg S fuel node depth false .any r = (.ok o, r')) :
    ∃ v fuelS o₀, Spec.decode S fuelS node r.rest = some (v, r'.rest) ∧
      Spec.observe S node v = some o₀ ∧ unborrow o = unborrow o₀ := by
  obtain ⟨v, fS, o₀, hv, hobs, ho, _⟩ := C03_de_sound_reader cfg S node depth fuel r r' o hs hl ha hm h
  exact ⟨v, fS, o₀, C03_decodeL_impl_sub_spec S fS node r.rest _ hv, hobs, ho⟩

/-! ### 3. Invalid input is an error, reader back-end -/

/-- **C03, invalid input is an error, streaming reader**: an input the specification decoder
    rejects with every amount of fuel is never deserialized into a value, whatever the refill
    schedule.  (Transfers completely: the conclusion does not mention the error class.) -/
theorem C03_invalid_is_err_reader (cfg : DeConfig) (S : Schema) (node : Node) (depth fuel : Nat)
    (r : RState) (hs : r.isSlice = false) (hl : r.limit = none) (ha : r.avail ≤ r.rest.length)
    (hm : r.rest.length ≤ r.maxAlloc)
    (hinv : ∀ fuelS, Spec.decode S fuelS node r.rest = none) (o : Out) :
    (de deExtModel cfg S fuel node depth false .any r).1 ≠ .ok o :=
  de_reader_not_ok deExtModel cfg S fuel node depth false .any ⟨hs, hl, ha, hm⟩
    (C03_invalid_is_err cfg S node depth fuel (sliceOf r) rfl hl rfl hinv) o

/-- Lax form (input rejected even without the sign check on block byte sizes). -/
theorem C03_invalid_is_err_lax_reader (cfg : DeConfig) (S : Schema) (node : Node)
    (depth fuel : Nat)
    (r : RState) (hs : r.isSlice = false) (hl : r.limit = none) (ha : r.avail ≤ r.rest.length)
    (hm : r.rest.length ≤ r.maxAlloc)
    (hinv : ∀ fuelS, Spec.decodeL Limits.specLax S fuelS node r.rest = none) (o : Out) :
    (de deExtModel cfg S fuel node depth false .any r).1 ≠ .ok o :=
  de_reader_not_ok deExtModel cfg S fuel node depth false .any ⟨hs, hl, ha, hm⟩
    (C03_invalid_is_err_lax cfg S node depth fuel (sliceOf r) rfl hl rfl hinv) o

/-- A first block header with a negative count and a NEGATIVE byte size is refused, whatever the
    refill schedule. -/
theorem C03_block_sizes_checked_reader (cfg : DeConfig) (S : Schema) (node : Node) (k : Nat)
    (hnode : node = .array k ∨ node = .map k) (depth fuel : Nat)
    (r : RState) (hs : r.isSlice = false) (hl : r.limit = none) (ha : r.avail ≤ r.rest.length)
    (hm : r.rest.length ≤ r.maxAlloc)
    (c size : Int) (rest1 rest2 : Bytes)
    (h1 : Spec.decodeLong r.rest = some (c, rest1)) (hc : c < 0)
    (h2 : Spec.decodeLong rest1 = some (size, rest2)) (hsz : size < 0) (o : Out) :
    (de deExtModel cfg S fuel node depth false .any r).1 ≠ .ok o :=
  de_reader_not_ok deExtModel cfg S fuel node depth false .any ⟨hs, hl, ha, hm⟩
    (C03_block_sizes_checked cfg S node k hnode depth fuel (sliceOf r) rfl hl rfl c size rest1 rest2
      h1 hc h2 hsz) o

/-- With C04's totality (which holds for every state, hence for the reader): for a well-formed
    schema and at least `fuelBound` units of fuel the outcome on invalid input is an `Err` of the
    custom class or of the I/O class — WHICH of the two may differ from the slice back-end
    (`C03reader_error_class_differs`). -/
theorem C03_invalid_is_err_class_reader (cfg : DeConfig) (S : Schema) (hS : S.keysInBounds = true)
    (k : Nat) (node : Node) (hk : S[k]? = some node) (depth fuel : Nat)
    (hf : fuelBound cfg S .any depth ≤ fuel)
    (r : RState) (hs : r.isSlice = false) (hl : r.limit = none) (ha : r.avail ≤ r.rest.length)
    (hm : r.rest.length ≤ r.maxAlloc)
    (hinv : ∀ fuelS, Spec.decode S fuelS node r.rest = none) :
    (de deExtModel cfg S fuel node depth false .any r).1 = .error .custom ∨
    (de deExtModel cfg S fuel node depth false .any r).1 = .error .io := by
  rcases C04_ok_or_err deExtModel cfg S hS fuel k node hk depth false .any hf r with ⟨o, ho⟩ | h
  · exact absurd ho (C03_invalid_is_err_reader cfg S node depth fuel r hs hl ha hm hinv o)
  · exact h

/-! ### 4. Non-vacuity: a concrete reader, refills of 1, 2, 3 bytes, then 1 byte at a time -/

namespace ReaderNV
open Avro.Theorems.NVB

def nmP : Name := { fq := "p", short := "p", ns := none }

/-- `0: record p { s: string, xs: array<int> }`, `1: string`, `2: array<int>`, `3: int` -/
def SP : Schema := #[.record nmP [("s", 1), ("xs", 2)], .string, .array 3, .int]
def nodeP : Node := .record nmP [("s", 1), ("xs", 2)]

/-- `s = "hey"` (length 3, three bytes); `xs = [1, 2, 3]` in TWO blocks: `count 1`, item `1`;
    `count -2`, `byte size 2`, items `2`, `3`; end marker. -/
def layP : Bytes := [0x06, 0x68, 0x65, 0x79, 0x02, 0x02, 0x03, 0x04, 0x04, 0x06, 0x00]
def vP : Value := .record [.string "hey", .array [.int 1, .int 2, .int 3]]

/-- `observe vP`: the string is handed out BORROWED … -/
def oP : Out :=
  .map [(.str "s" false, .str "hey" true), (.str "xs" false, .seq [.i32 1, .i32 2, .i32 3])]
/-- … what a reader delivers: the string is COPIED. -/
def oPr : Out :=
  .map [(.str "s" false, .str "hey" false), (.str "xs" false, .seq [.i32 1, .i32 2, .i32 3])]

/-- A streaming reader over `layP` followed by the byte `07`: nothing buffered, the refills
    deliver 1, 2, 3 bytes and then one byte at a time; allocation cap 64 bytes. -/
def rP : RState :=
  { isSlice := false, rest := layP ++ [7], avail := 0, sched := [1, 2, 3], lastChunk := 1,
    maxAlloc := 64 }

theorem layP_decodes : Spec.decode SP 10 nodeP (layP ++ [7]) = some (vP, [7]) := by rfl
theorem layP_decodesL : Spec.decodeL Limits.impl SP 10 nodeP (layP ++ [7]) = some (vP, [7]) := by
  rfl
theorem vP_observe : Spec.observe SP nodeP vP = some oP := by rfl

/-- the layout is not the canonical one (which has a single block) -/
example : Spec.encode SP nodeP vP =
    some [0x06, 0x68, 0x65, 0x79, 0x06, 0x02, 0x04, 0x06, 0x00] := by decide +kernel

/-- **`C03_de_refines_spec_reader`**, every hypothesis discharged. -/
theorem rP_refines : ∃ o' r', de deExtModel {} SP 100 nodeP 64 false .any rP = (.ok o', r') ∧
    unborrow o' = unborrow oP ∧ r'.rest = [7] ∧ ReaderOK r' :=
  C03_de_refines_spec_reader {} SP nodeP vP (layP ++ [7]) [7] oP 64 10 10 layP_decodes vP_observe
    (by rw [layP_decodesL]; rfl) (by decide +kernel) (by decide +kernel) 100 (by decide +kernel)
    rP rfl rfl (by decide) (by decide) rfl

/-- The run itself, by evaluation: the value is `oPr`, the byte `07` is left, the schedule is used
    up, the 3-byte string did not fit the 2-byte refill and went through the scratch buffer. -/
theorem rP_run : de deExtModel {} SP 100 nodeP 64 false .any rP =
    (.ok oPr, { rP with rest := [7], avail := 0, sched := [], scratch := 3 }) :=
  resEq_of (by decide +kernel)

/-- **`C03_de_sound_reader`** on that run. -/
example : ∃ v fuelS o₀, Spec.decodeL Limits.impl SP fuelS nodeP (layP ++ [7]) = some (v, [7]) ∧
    Spec.observe SP nodeP v = some o₀ ∧ unborrow oPr = unborrow o₀ ∧
    ReaderOK { rP with rest := [7], avail := 0, sched := [], scratch := 3 } :=
  C03_de_sound_reader {} SP nodeP 64 100 rP _ oPr rfl rfl (by decide) (by decide) rP_run

/-- **`C03_de_rejects_invalid_reader`** on that run. -/
example : ∃ v fuelS o₀, Spec.decode SP fuelS nodeP (layP ++ [7]) = some (v, [7]) ∧
    Spec.observe SP nodeP v = some o₀ ∧ unborrow oPr = unborrow o₀ :=
  C03_de_rejects_invalid_reader {} SP nodeP 64 100 rP _ oPr rfl rfl (by decide) (by decide) rP_run

/-- `NonVacuityA.badI` (the union index in the second block of an array is out of range) behind a
    reader with refills 1, 2, 3, 1, 1, … -/
def rBad : RState :=
  { isSlice := false, rest := NonVacuityA.badI, avail := 0, sched := [1, 2, 3], lastChunk := 1 }

/-- **`C03_invalid_is_err_reader`**, at any fuel. -/
example (fuel : Nat) (o : Out) :
    (de deExtModel {} NonVacuityA.SI fuel NonVacuityA.nodeI 64 false .any rBad).1 ≠ .ok o :=
  C03_invalid_is_err_reader {} NonVacuityA.SI NonVacuityA.nodeI 64 fuel rBad rfl rfl (by decide)
    (by decide) NonVacuityA.badI_invalid o

/-- **`C03_invalid_is_err_class_reader`** on the same input. -/
example :
    (de deExtModel {} NonVacuityA.SI (fuelBound {} NonVacuityA.SI .any 64) NonVacuityA.nodeI 64
      false .any rBad).1 = .error .custom ∨
    (de deExtModel {} NonVacuityA.SI (fuelBound {} NonVacuityA.SI .any 64) NonVacuityA.nodeI 64
      false .any rBad).1 = .error .io :=
  C03_invalid_is_err_class_reader {} NonVacuityA.SI (by decide +kernel) 0 NonVacuityA.nodeI
    (by decide +kernel) 64 _ (Nat.le_refl _) rBad rfl rfl (by decide) (by decide)
    NonVacuityA.badI_invalid

/-- **`C03_block_sizes_checked_reader`**: count -1, byte size -1, delivered one byte at a time. -/
example (fuel : Nat) (o : Out) :
    (de deExtModel {} NonVacuityA.SI fuel NonVacuityA.nodeI 64 false .any
      { isSlice := false, rest := [0x01, 0x01, 0x00, 0x00], avail := 0, sched := [],
        lastChunk := 1 }).1 ≠ .ok o :=
  C03_block_sizes_checked_reader {} NonVacuityA.SI NonVacuityA.nodeI 1 (.inl rfl) 64 fuel _
    rfl rfl (by decide) (by decide) (-1) (-1) [0x01, 0x00, 0x00] [0x00, 0x00] (by decide +kernel)
    (by decide) (by decide +kernel) (by decide) o

/-! ### 5. Why the reader statements are weaker in three places -/

/-- **The value is NOT equal to `observe v`, only equal up to `unborrow`.**  On the slice the
    deserializer returns `oP` (`"hey"` borrowed); on the reader `oPr` (`"hey"` copied).  So the
    conclusion `de … r = (.ok o, _)` of the slice theorem is false on the reader. -/
theorem C03reader_value_not_equal :
    de deExtModel {} SP 100 nodeP 64 false .any (sliceOf rP) =
      (.ok oP, { sliceOf rP with rest := [7] }) ∧
    (de deExtModel {} SP 100 nodeP 64 false .any rP).1 = .ok oPr ∧
    oPr ≠ oP ∧ unborrow oPr = unborrow oP := by
  refine ⟨resEq_of (by decide +kernel), by rw [rP_run], ?_, ?_⟩
  · simp [oPr, oP]
  · simp [oPr, oP, unborrow, unborrowP, unborrowL]

/-- **The final state depends on the schedule**, beyond `rest`: with refills of 1, 2, 3, 1, … the
    run ends with an empty buffer, the schedule used up and a 3-byte scratch buffer; when the
    first refill delivers everything it ends with one byte buffered and no scratch buffer.  In
    neither case is the final state `{ r with rest := [7] }`, the form the slice theorems give. -/
theorem C03reader_final_state_depends_on_schedule :
    (de deExtModel {} SP 100 nodeP 64 false .any rP).2 =
      { rP with rest := [7], avail := 0, sched := [], scratch := 3 } ∧
    (de deExtModel {} SP 100 nodeP 64 false .any { rP with sched := [], lastChunk := 100 }).2 =
      { rP with rest := [7], avail := 1, sched := [], lastChunk := 100, scratch := 0 } ∧
    (de deExtModel {} SP 100 nodeP 64 false .any rP).2 ≠ { rP with rest := [7] } ∧
    (de deExtModel {} SP 100 nodeP 64 false .any { rP with sched := [], lastChunk := 100 }).2 ≠
      { ({ rP with sched := [], lastChunk := 100 } : RState) with rest := [7] } := by
  refine ⟨by rw [rP_run], by decide +kernel, by decide +kernel, by decide +kernel⟩

/-- **The error class is not the same**: a string announcing 5 bytes of which 2 are there.  The
    slice sees at once that the input is too short (`custom`), the reader runs into the end of the
    stream (`io`).  Both are errors — which is what `C03_invalid_is_err_reader` says. -/
theorem C03reader_error_class_differs :
    (de deExtModel {} SP 100 .string 64 false .any
      { isSlice := true, rest := [0x0a, 0x68, 0x65] }).1 = .error .custom ∧
    (de deExtModel {} SP 100 .string 64 false .any
      { isSlice := false, rest := [0x0a, 0x68, 0x65], avail := 0, sched := [1, 2, 3],
        lastChunk := 1 }).1 = .error .io :=
  ⟨fstEq_of (by decide +kernel), fstEq_of (by decide +kernel)⟩

end ReaderNV

end Avro.Theorems
