import AvroModel.Lemmas.PcfSpecGraph
/-
C08 (canonical form = the specification's Parsing Canonical Form).

`Spec/Pcf.lean` transcribes the specification's transformation of the JSON document
(`Spec.Pcf.canon`, `Spec.Pcf.print`); `C08_pcf_is_spec`: for every document the parser accepts and
in which every reference comes after (or inside) the definition it refers to
(`Spec.Pcf.noForwardRefs`, decidable), the canonical form the crate computes from the node graph
is the text of that transformation.  With a forward reference the crate writes the definition at
its first *visit*, i.e. in place of the reference (`C08_forward_ref_differs`).
-/
namespace Avro.Theorems
open Avro Avro.Impl Avro.Spec.Pcf Avro.PcfSpec

/-- **C08**: parse the document `j` (registration fuel `n + 2`, as `parseJson` takes it); if it
    has no forward reference, the specification's transformation is defined on `j` and the
    crate's canonical form (any fuel `≥ n + 2`) is its text. -/
theorem C08_pcf_is_spec (j : Json) (n : Nat) (S : SchemaMut)
    (hparse : parseJson j n = .ok S) (hnf : noForwardRefs j = true) :
    ∃ c, canon none j = some c ∧
      ∀ fuel, n + 2 ≤ fuel → canonicalForm S fuel = .ok (print c) := by
  obtain ⟨raw, k, st, -, hraw, hreg, -, hS, -⟩ := C07_parse_ok j n S hparse
  obtain ⟨hcanon, hscan⟩ := raw_of_json_spec hraw none
  unfold noForwardRefs at hnf
  rw [hscan] at hnf
  obtain ⟨D', hD'⟩ := Option.isSome_iff_exists.mp hnf
  have hk : k = .idx 0 := by
    rcases registerNode_key hreg with ⟨r, rfl⟩ | hk
    · simp [scanRaw] at hD'
    · simpa using hk
  subst hk
  have hinv : Inv (graphOf st) {} [] {} := ⟨by simp, by simp, by simp⟩
  have hag : Agree st st 0 := fun _ _ _ => rfl
  have key := fun pf hpf =>
    (register_pcf st (n + 2)).1 raw none {} (.idx 0) st [] D' {} pf hpf hreg hD' hag hinv
  obtain ⟨c, -, hc, -, -⟩ := key (n + 2) (Nat.le_refl _)
  refine ⟨c, by rw [hcanon, hc], ?_⟩
  intro fuel hfuel
  obtain ⟨c', ps', hc', hp, hr⟩ := key fuel hfuel
  rw [hc] at hc'
  cases hc'
  have hS' : S = graphOf st := hS
  subst hS'
  simp only [resolveKey] at hp
  simp only [canonicalForm, hp, hr.out]
  simp

/-- The same, on texts. -/
theorem C08_pcf_is_spec_text (j : Json) (n : Nat) (S : SchemaMut)
    (hparse : parseJson j n = .ok S) (hnf : noForwardRefs j = true) :
    ∃ text, parsingCanonicalForm j = some text ∧
      ∀ fuel, n + 2 ≤ fuel → canonicalForm S fuel = .ok text := by
  obtain ⟨c, hc, h⟩ := C08_pcf_is_spec j n S hparse hnf
  exact ⟨print c, by simp [parsingCanonicalForm, hc], h⟩

/-! ### concrete documents (kernel evaluation of the parser model, the writer model and the
specification's transformation) -/

/-- the crate on a document: parse, then write the canonical form -/
def crateCanonicalText (j : Json) (n fuel : Nat) : Option String :=
  match parseJson j n with
  | .ok S => (match canonicalForm S fuel with | .ok t => some t | .error _ => none)
  | .error _ => none

/-- A record whose first field refers to an enum defined in its second field. -/
def docForwardRef : Json :=
  .obj [("type", .str "record"), ("name", .str "R"),
    ("fields", .arr [
      .obj [("name", .str "a"), ("type", .str "E")],
      .obj [("name", .str "b"), ("type",
        .obj [("type", .str "enum"), ("name", .str "E"), ("symbols", .arr [.str "A"])])]])]

/-- With a forward reference the crate writes the definition where the reference is (first
    visit of the node) and the name where the definition is; the specification transforms the
    document in place.  Hence the hypothesis `noForwardRefs` of `C08_pcf_is_spec`. -/
theorem C08_forward_ref_differs :
    noForwardRefs docForwardRef = false ∧
    crateCanonicalText docForwardRef 30 40 = some
      "{\"name\":\"R\",\"type\":\"record\",\"fields\":[{\"name\":\"a\",\"type\":{\"name\":\"E\",\"type\":\"enum\",\"symbols\":[\"A\"]}},{\"name\":\"b\",\"type\":\"E\"}]}" ∧
    parsingCanonicalForm docForwardRef = some
      "{\"name\":\"R\",\"type\":\"record\",\"fields\":[{\"name\":\"a\",\"type\":\"E\"},{\"name\":\"b\",\"type\":{\"name\":\"E\",\"type\":\"enum\",\"symbols\":[\"A\"]}}]}" ∧
    crateCanonicalText docForwardRef 30 40 ≠ parsingCanonicalForm docForwardRef := by
  refine ⟨by decide +kernel, by decide +kernel, by decide +kernel, by decide +kernel⟩

/-- The transformation on the tree, for the same document (definitional unfolding). -/
example : canon none docForwardRef =
    some (.obj [("name", .str "R"), ("type", .str "record"), ("fields", .arr [
      .obj [("name", .str "a"), ("type", .str "E")],
      .obj [("name", .str "b"), ("type",
        .obj [("name", .str "E"), ("type", .str "enum"), ("symbols", .arr [.str "A"])])]])]) := by
  rfl

/-- Namespaces: inherited through an array, a union and a map; `"namespace": ""` is the null
    namespace; a dotted name wins over the `namespace` attribute; references by simple name, by
    fullname and with a leading dot; `doc`, `logicalType`, `precision` dropped; members given in
    another order. -/
def docNamespaces : Json :=
  .obj [("fields", .arr [
      .obj [("type", .obj [("items",
          .obj [("symbols", .arr [.str "A", .str "B"]), ("name", .str "E"), ("type", .str "enum")]),
          ("type", .str "array")]), ("name", .str "f")],
      .obj [("name", .str "g"), ("type", .arr [.str "null", .str "E", .str "a.b.R", .str "R",
        .obj [("type", .str "fixed"), ("name", .str "F"), ("namespace", .str ""), ("size", .nat 4)],
        .obj [("type", .str "fixed"), ("name", .str "x.y.G"), ("namespace", .str "zzz"),
          ("size", .nat 16), ("logicalType", .str "decimal"), ("precision", .nat 10)]])],
      .obj [("name", .str "h"), ("doc", .str "a map"),
        ("type", .obj [("type", .str "map"), ("values", .str ".F")])],
      .obj [("name", .str "i"),
        ("type", .obj [("type", .str "long"), ("logicalType", .str "timestamp-micros")])],
      .obj [("name", .str "j"), ("type", .str "x.y.G")]]),
    ("doc", .str "x"), ("namespace", .str "a.b"), ("name", .str "R"), ("type", .str "record")]

example :
    noForwardRefs docNamespaces = true ∧
    crateCanonicalText docNamespaces 30 40 = parsingCanonicalForm docNamespaces ∧
    parsingCanonicalForm docNamespaces = some
      "{\"name\":\"a.b.R\",\"type\":\"record\",\"fields\":[{\"name\":\"f\",\"type\":{\"type\":\"array\",\"items\":{\"name\":\"a.b.E\",\"type\":\"enum\",\"symbols\":[\"A\",\"B\"]}}},{\"name\":\"g\",\"type\":[\"null\",\"a.b.E\",\"a.b.R\",\"a.b.R\",{\"name\":\"F\",\"type\":\"fixed\",\"size\":4},{\"name\":\"x.y.G\",\"type\":\"fixed\",\"size\":16}]},{\"name\":\"h\",\"type\":{\"type\":\"map\",\"values\":\"F\"}},{\"name\":\"i\",\"type\":\"long\"},{\"name\":\"j\",\"type\":\"x.y.G\"}]}" := by
  refine ⟨by decide +kernel, by decide +kernel, by decide +kernel⟩

/-- A recursive record (the reference is inside the definition), in a namespace. -/
def docRecursive : Json :=
  .obj [("type", .str "record"), ("name", .str "Node"), ("namespace", .str "ns"),
    ("fields", .arr [
      .obj [("name", .str "value"), ("type", .str "long")],
      .obj [("name", .str "next"), ("type", .arr [.str "null", .str "Node"])]])]

example :
    noForwardRefs docRecursive = true ∧
    crateCanonicalText docRecursive 30 40 = parsingCanonicalForm docRecursive ∧
    parsingCanonicalForm docRecursive = some
      "{\"name\":\"ns.Node\",\"type\":\"record\",\"fields\":[{\"name\":\"value\",\"type\":\"long\"},{\"name\":\"next\",\"type\":[\"null\",\"ns.Node\"]}]}" := by
  refine ⟨by decide +kernel, by decide +kernel, by decide +kernel⟩

/-- Nested records: the inner record has its own namespace, which its fields inherit; after it
    the outer namespace applies again. -/
def docNested : Json :=
  .obj [("type", .str "record"), ("name", .str "Outer"), ("namespace", .str "o"),
    ("fields", .arr [
      .obj [("name", .str "x"), ("type",
        .obj [("type", .str "record"), ("name", .str "Inner"), ("namespace", .str "i"),
          ("fields", .arr [
            .obj [("name", .str "e"), ("type",
              .obj [("type", .str "enum"), ("name", .str "E"), ("symbols", .arr [.str "S"])])],
            .obj [("name", .str "again"), ("type", .str "E")],
            .obj [("name", .str "up"), ("type", .obj [("type", .str "array"), ("items", .str "o.Outer")])]])])],
      .obj [("name", .str "y"), ("type", .str "i.Inner")],
      .obj [("name", .str "z"), ("type",
        .obj [("type", .str "enum"), ("name", .str "E"), ("symbols", .arr [.str "T"])])],
      .obj [("name", .str "w"), ("type", .arr [.str "E", .str "i.E"])]])]

example :
    noForwardRefs docNested = true ∧
    crateCanonicalText docNested 30 40 = parsingCanonicalForm docNested ∧
    parsingCanonicalForm docNested = some
      "{\"name\":\"o.Outer\",\"type\":\"record\",\"fields\":[{\"name\":\"x\",\"type\":{\"name\":\"i.Inner\",\"type\":\"record\",\"fields\":[{\"name\":\"e\",\"type\":{\"name\":\"i.E\",\"type\":\"enum\",\"symbols\":[\"S\"]}},{\"name\":\"again\",\"type\":\"i.E\"},{\"name\":\"up\",\"type\":{\"type\":\"array\",\"items\":\"o.Outer\"}}]}},{\"name\":\"y\",\"type\":\"i.Inner\"},{\"name\":\"z\",\"type\":{\"name\":\"o.E\",\"type\":\"enum\",\"symbols\":[\"T\"]}},{\"name\":\"w\",\"type\":[\"o.E\",\"i.E\"]}]}" := by
  refine ⟨by decide +kernel, by decide +kernel, by decide +kernel⟩

/-- [PRIMITIVES], whatever the other attributes. -/
example :
    crateCanonicalText (.obj [("type", .str "int")]) 3 5 = some "\"int\"" ∧
    parsingCanonicalForm (.obj [("type", .str "int")]) = some "\"int\"" ∧
    crateCanonicalText (.obj [("logicalType", .str "date"), ("type", .str "int")]) 3 5 = some "\"int\"" ∧
    parsingCanonicalForm (.obj [("logicalType", .str "date"), ("type", .str "int")]) = some "\"int\"" ∧
    crateCanonicalText (.str "bytes") 3 5 = some "\"bytes\"" ∧
    parsingCanonicalForm (.str "bytes") = some "\"bytes\"" := by
  refine ⟨by decide +kernel, by decide +kernel, by decide +kernel, by decide +kernel,
    by decide +kernel, by decide +kernel⟩

/-- Outside the specification (and outside `noForwardRefs`, which only counts `record`, `enum`
    and `fixed` definitions): the parser also registers the `name` of an object of any other
    type, so that a "reference" to a named `int` is accepted and written as the type itself,
    where the transformation of the document leaves the name. -/
example :
    let doc : Json := .obj [("type", .str "record"), ("name", .str "R"), ("fields", .arr [
      .obj [("name", .str "a"), ("type", .obj [("type", .str "int"), ("name", .str "foo")])],
      .obj [("name", .str "b"), ("type", .str "foo")]])]
    noForwardRefs doc = false ∧
    crateCanonicalText doc 30 40 = some
      "{\"name\":\"R\",\"type\":\"record\",\"fields\":[{\"name\":\"a\",\"type\":\"int\"},{\"name\":\"b\",\"type\":\"int\"}]}" ∧
    parsingCanonicalForm doc = some
      "{\"name\":\"R\",\"type\":\"record\",\"fields\":[{\"name\":\"a\",\"type\":\"int\"},{\"name\":\"b\",\"type\":\"foo\"}]}" := by
  refine ⟨by decide +kernel, by decide +kernel, by decide +kernel⟩

/-- The general theorem applied to a concrete document. -/
example (S : SchemaMut) (h : parseJson docNested 30 = .ok S) (fuel : Nat) (hf : 32 ≤ fuel) :
    ∃ text, parsingCanonicalForm docNested = some text ∧ canonicalForm S fuel = .ok text := by
  obtain ⟨text, h1, h2⟩ := C08_pcf_is_spec_text docNested 30 S h (by decide +kernel)
  exact ⟨text, h1, h2 fuel hf⟩

end Avro.Theorems
