import AvroModel.Lemmas.C18Reader
import AvroModel.Theorems.C18full
import AvroModel.Theorems.C01reader
/-
C18 on the STREAMING-READER back-end (`from_single_object_reader`,
/repo/serde_avro_fast/src/single_object_encoding.rs:32-43): `read_exact` of the 10-byte header on
an `impl BufRead` — here a reader state `r` (`isSlice = false`) with ANY refill schedule
(`r.sched`, then `r.lastChunk` forever), any buffer position `r.avail ≤ r.rest.length`, any
scratch size —, `check_header`, then `from_datum_reader` on the same reader.

`Theorems/C18.lean` and `Theorems/C18full.lean` are about the slice (`from_single_object_slice`).
The reader forms:

  * `C18_short_header_err_reader`, `C18_marker_err_reader`, `C18_fingerprint_err_reader`
      a message shorter than 10 bytes, with a wrong marker, or with another fingerprint, is an
      error, and NO datum read is attempted: the whole outcome (error and final state) is the
      same for every `datum` (every result type, every datum deserializer).  The class is `io`
      for the short header — `custom` on the slice: `C18reader_error_class_differs` — and
      `custom` for the two header mismatches, as in the Rust code (`DeError::io` /
      `DeError::new`).
  * `C18_accepts_reader`   with a matching header, `datum` is run on ONE state `r'` that does not
      depend on `datum`: the same reader, exactly the bytes after the header left, no `Take`,
      well-formed buffer, same allocation cap, same scratch, the schedule advanced.
  * `C18_reader_ok_only_if_header`   conversely a value is delivered only if the input starts
      with `C3 01 ++ fp` (and then by `datum` on what follows).
  * `C18_reader_of_slice` / `C18_reader_slice_rel`   C11 for the single-object entry point
      (any related pair of datum readers; in particular the real `de` with itself).
  * `C18_write_read_reader` / `C18_write_read_msg_reader`   what `toSingleObject` with the real
      `ser` writes is read back by `fromSingleObject` with the real `de` through a streaming
      reader with any refill schedule: `observe v` up to `unborrow`, exactly what followed left.

Conventions as in `Theorems/C01reader.lean`: the state hypotheses are `r.isSlice = false`,
`r.limit = none`, `r.avail ≤ r.rest.length` (the first three fields of `ReaderOK`; the fourth,
the allocation cap, is only needed when a datum is read, and then only for what follows the
header), the value is equal up to `unborrow`, and the final state is described (`r'.rest = rest`,
`ReaderOK r'`) rather than given in closed form: `avail` and `sched` depend on the schedule.
-/
namespace Avro.Theorems
open Avro Avro.Impl Avro.Spec

universe u

/-! ### 1. The three rejections -/

/-- **C18, short header, streaming reader.**  Fewer than 10 bytes before the end of the stream:
    the I/O error of `read_exact`, for ANY refill schedule; the outcome — error and final state —
    does not depend on `datum` (nor on `fp`): no datum read is attempted. -/
theorem C18_short_header_err_reader (r : RState) (hs : r.isSlice = false) (hl : r.limit = none)
    (ha : r.avail ≤ r.rest.length) (hlen : r.rest.length < 10) :
    ∃ r', Frame r r' ∧ ∀ (α : Type u) (fp : Bytes) (datum : RState → Except DeErr α × RState),
      fromSingleObject fp datum r = (.error .io, r') :=
  (fromSingleObject_reader_spec r hs ha).1 (by rw [eff_of_limit_none hl]; exact hlen)

/-- **C18, wrong marker, streaming reader.**  The first two bytes are not `C3 01`: the custom
    error of `check_header`, at the state `r'` reached by reading the 10 header bytes (which
    depends on the schedule only); the outcome does not depend on `datum` (nor on `fp`). -/
theorem C18_marker_err_reader (r : RState) (hs : r.isSlice = false) (hl : r.limit = none)
    (ha : r.avail ≤ r.rest.length) (hlen : 10 ≤ r.rest.length)
    (hm : (r.rest.take 10).take 2 ≠ [0xC3, 0x01]) :
    ∃ r', Adv 10 r r' ∧ Frame r r' ∧
      ∀ (α : Type u) (fp : Bytes) (datum : RState → Except DeErr α × RState),
        fromSingleObject fp datum r = (.error .custom, r') := by
  obtain ⟨r', a, f, e⟩ :=
    (fromSingleObject_reader_spec r hs ha).2 (by rw [eff_of_limit_none hl]; exact hlen)
  refine ⟨r', a, f, fun α fp datum => ?_⟩
  rw [e α fp datum]
  have : checkHeader fp (r.rest.take 10) = false := by
    unfold checkHeader singleMarker
    simp [hm]
  simp [this]

/-- **C18, wrong fingerprint, streaming reader.**  Bytes 2..10 are not the schema's fingerprint:
    a message written under a schema with another fingerprint is never decoded; the outcome does
    not depend on `datum`. -/
theorem C18_fingerprint_err_reader (fp : Bytes) (r : RState) (hs : r.isSlice = false)
    (hl : r.limit = none) (ha : r.avail ≤ r.rest.length) (hlen : 10 ≤ r.rest.length)
    (hf : ((r.rest.take 10).drop 2).take 8 ≠ fp) :
    ∃ r', Adv 10 r r' ∧ Frame r r' ∧
      ∀ (α : Type u) (datum : RState → Except DeErr α × RState),
        fromSingleObject fp datum r = (.error .custom, r') := by
  obtain ⟨r', a, f, e⟩ :=
    (fromSingleObject_reader_spec r hs ha).2 (by rw [eff_of_limit_none hl]; exact hlen)
  refine ⟨r', a, f, fun α datum => ?_⟩
  rw [e α fp datum]
  have : checkHeader fp (r.rest.take 10) = false := by
    unfold checkHeader
    simp [hf]
  simp [this]

/-- The three rejections in the form of the slice theorems (`Theorems/C18.lean`), for a state
    satisfying `ReaderOK`. -/
theorem C18_short_header_err_reader_fst {α : Type u} (fp : Bytes)
    (datum : RState → Except DeErr α × RState) (r : RState) (hr : ReaderOK r)
    (hlen : r.rest.length < 10) : (fromSingleObject fp datum r).1 = .error .io := by
  obtain ⟨r', _, e⟩ := C18_short_header_err_reader r hr.reader hr.nolimit hr.avail hlen
  rw [e α fp datum]

theorem C18_marker_err_reader_fst {α : Type u} (fp : Bytes)
    (datum : RState → Except DeErr α × RState) (r : RState) (hr : ReaderOK r)
    (hlen : 10 ≤ r.rest.length) (hm : (r.rest.take 10).take 2 ≠ [0xC3, 0x01]) :
    (fromSingleObject fp datum r).1 = .error .custom := by
  obtain ⟨r', _, _, e⟩ := C18_marker_err_reader r hr.reader hr.nolimit hr.avail hlen hm
  rw [e α fp datum]

theorem C18_fingerprint_err_reader_fst {α : Type u} (fp : Bytes)
    (datum : RState → Except DeErr α × RState) (r : RState) (hr : ReaderOK r)
    (hlen : 10 ≤ r.rest.length) (hf : ((r.rest.take 10).drop 2).take 8 ≠ fp) :
    (fromSingleObject fp datum r).1 = .error .custom := by
  obtain ⟨r', _, _, e⟩ := C18_fingerprint_err_reader fp r hr.reader hr.nolimit hr.avail hlen hf
  rw [e α datum]

/-! ### 2. Acceptance -/

/-- **C18, acceptance, streaming reader.**  On a well-formed header the datum deserializer runs
    on exactly what follows the header: there is ONE state `r'`, the same for every `datum`
    (it depends on the refill schedule), with `payload` left, still the reader back-end, no
    `Take`, a well-formed buffer, the same allocation cap, scratch size and `lastChunk`, and what
    is left of the schedule, such that `fromSingleObject fp datum r = datum r'`. -/
theorem C18_accepts_reader (fp : Bytes) (r : RState) (hs : r.isSlice = false)
    (hl : r.limit = none) (ha : r.avail ≤ r.rest.length) (payload : Bytes) (hfp : fp.length = 8)
    (hr : r.rest = [0xC3, 0x01] ++ fp ++ payload) :
    ∃ r', r'.rest = payload ∧ r'.isSlice = false ∧ r'.limit = none ∧ r'.avail ≤ r'.rest.length ∧
      r'.maxAlloc = r.maxAlloc ∧ Frame r r' ∧
      ∀ (α : Type u) (datum : RState → Except DeErr α × RState),
        fromSingleObject fp datum r = datum r' := by
  have hsplit : r.rest = ([0xC3, 0x01] ++ fp) ++ payload := by rw [hr]
  have hl10 : ([0xC3, 0x01] ++ fp : Bytes).length = 10 := by simp [hfp]
  have h10 : r.rest.take 10 = [0xC3, 0x01] ++ fp := by rw [hsplit, ← hl10, List.take_left]
  have hd : r.rest.drop 10 = payload := by rw [hsplit, ← hl10, List.drop_left]
  have hlen : 10 ≤ r.rest.length := by rw [hsplit, List.length_append, hl10]; omega
  obtain ⟨r', a, f, e⟩ :=
    (fromSingleObject_reader_spec r hs ha).2 (by rw [eff_of_limit_none hl]; exact hlen)
  have hs' : r'.isSlice = false := a.isSlice.trans hs
  refine ⟨r', by rw [a.rest, hd], hs', by rw [a.limit, hl]; rfl, a.wf hs', a.maxAlloc, f,
    fun α datum => ?_⟩
  rw [e α fp datum]
  have ht8 : List.take 8 fp = fp := by rw [← hfp, List.take_length]
  have : checkHeader fp (r.rest.take 10) = true := by
    unfold checkHeader singleMarker
    simp [h10, ht8]
  simp [this]

/-- … in particular from a state satisfying `ReaderOK` the datum deserializer is started on a
    state satisfying `ReaderOK`. -/
theorem C18_accepts_reader_ok (fp : Bytes) (r : RState) (hr : ReaderOK r) (payload : Bytes)
    (hfp : fp.length = 8) (hrest : r.rest = [0xC3, 0x01] ++ fp ++ payload) :
    ∃ r', r'.rest = payload ∧ ReaderOK r' ∧ Frame r r' ∧
      ∀ (α : Type u) (datum : RState → Except DeErr α × RState),
        fromSingleObject fp datum r = datum r' := by
  obtain ⟨r', h1, h2, h3, h4, h5, h6, h7⟩ :=
    C18_accepts_reader fp r hr.reader hr.nolimit hr.avail payload hfp hrest
  refine ⟨r', h1, ⟨h2, h3, h4, ?_⟩, h6, h7⟩
  have := hr.alloc
  rw [h5, h1]
  rw [hrest] at this
  simp only [List.length_append] at this
  omega

/-- **Conversely**: the streaming reader delivers a value only from an input that starts with
    `C3 01` and the schema's fingerprint, and then it is `datum`'s, run on a state over exactly
    what follows (`fp` is then 8 bytes long). -/
theorem C18_reader_ok_only_if_header {α : Type u} (fp : Bytes)
    (datum : RState → Except DeErr α × RState) (r : RState) (hs : r.isSlice = false)
    (hl : r.limit = none) (ha : r.avail ≤ r.rest.length) (a : α) (rf : RState)
    (hok : fromSingleObject fp datum r = (.ok a, rf)) :
    ∃ payload r', r.rest = [0xC3, 0x01] ++ fp ++ payload ∧ fp.length = 8 ∧ r'.rest = payload ∧
      datum r' = (.ok a, rf) := by
  have hsp := fromSingleObject_reader_spec r hs ha
  by_cases hlen : 10 ≤ r.rest.length
  · obtain ⟨r', adv, _, e⟩ := hsp.2 (by rw [eff_of_limit_none hl]; exact hlen)
    rw [e α fp datum] at hok
    cases hc : checkHeader fp (r.rest.take 10)
    · simp [hc] at hok
    · simp only [hc, if_true] at hok
      unfold checkHeader singleMarker at hc
      simp only [Bool.and_eq_true, decide_eq_true_eq] at hc
      refine ⟨r.rest.drop 10, r', ?_, ?_, adv.rest, hok⟩
      · have h10 : r.rest.take 10 = [0xC3, 0x01] ++ fp := by
          have hlen2 : (r.rest.take 10).length = 10 := by rw [List.length_take]; omega
          have h8 : ((r.rest.take 10).drop 2).length = 8 := by rw [List.length_drop, hlen2]
          have : (r.rest.take 10).drop 2 = fp := by
            rw [← hc.2, ← h8, List.take_length]
          rw [← List.take_append_drop 2 (r.rest.take 10), hc.1, this]
        rw [← h10, List.take_append_drop]
      · rw [← hc.2, List.length_take, List.length_drop, List.length_take]; omega
  · obtain ⟨r', _, e⟩ := hsp.1 (by rw [eff_of_limit_none hl]; omega)
    rw [e α fp datum] at hok
    simp at hok

/-! ### 3. Slice ⇔ reader (C11 for the single-object entry point) -/

/-- **C11 for `from_single_object_*`**, with the real datum deserializer: from a reader state and
    the slice state over the same bytes both fail, or both succeed with values equal up to
    `unborrow` and related final states (`RelD`, `Theorems/C11.lean`). -/
theorem C18_reader_slice_rel (ext : DeExt) (cfg : DeConfig) (S : Schema) (fuel : Nat) (fp : Bytes)
    (node : Node) (depth : Nat) (favor : Bool) (h : Hint) :
    RelD true true Ro (fromSingleObject fp (de ext cfg S fuel node depth favor h))
      (fromSingleObject fp (de ext cfg S fuel node depth favor h)) :=
  fromSingleObject_rel fp ((deRel_all ext cfg S fuel).de node depth favor h)

/-- **Transfer, slice ⇒ reader**: what `from_single_object_slice` returns on the remaining bytes,
    `from_single_object_reader` returns up to `unborrow`, for any refill schedule. -/
theorem C18_reader_of_slice (ext : DeExt) (cfg : DeConfig) (S : Schema) (fuel : Nat) (fp : Bytes)
    (node : Node) (depth : Nat) (favor : Bool) (h : Hint)
    {r : RState} (hr : ReaderOK r) {o : Out} {sl' : RState}
    (hsl : fromSingleObject fp (de ext cfg S fuel node depth favor h) (sliceOf r) = (.ok o, sl')) :
    ∃ o' r', fromSingleObject fp (de ext cfg S fuel node depth favor h) r = (.ok o', r') ∧
      unborrow o' = unborrow o ∧ r'.rest = sl'.rest ∧ ReaderOK r' :=
  (C18_reader_slice_rel ext cfg S fuel fp node depth favor h).reader_of_slice hr hsl

/-- **Transfer, reader ⇒ slice.** -/
theorem C18_slice_of_reader (ext : DeExt) (cfg : DeConfig) (S : Schema) (fuel : Nat) (fp : Bytes)
    (node : Node) (depth : Nat) (favor : Bool) (h : Hint)
    {r : RState} (hr : ReaderOK r) {o : Out} {r' : RState}
    (hrd : fromSingleObject fp (de ext cfg S fuel node depth favor h) r = (.ok o, r')) :
    ∃ o' sl', fromSingleObject fp (de ext cfg S fuel node depth favor h) (sliceOf r) = (.ok o', sl') ∧
      unborrow o = unborrow o' ∧ r'.rest = sl'.rest ∧ ReaderOK r' :=
  (C18_reader_slice_rel ext cfg S fuel fp node depth favor h).slice_of_reader hr hrd

/-! ### 4. Write then read through a streaming reader -/

/-- **C18, write then read, streaming reader.**  `toSingleObject fp (ser …)` on an unlimited
    writer, for a presentation under the side conditions of `C01_roundtrip_impl`, appends
    `C3 01 ++ fp ++ bytes` with `bytes = Spec.encode S node v` for a value `v` that `sv` denotes
    (as `C18_write_read`); and `fromSingleObject fp (de …)` on EVERY streaming-reader state over
    that message followed by anything — any refill schedule `r.sched` / `r.lastChunk`, any buffer
    position, any scratch size, an allocation cap that covers what follows the header — returns
    `Spec.observe S node v` up to the `borrowed` flags and leaves exactly what followed, in a
    state from which the next message can be read (`ReaderOK r'`). -/
theorem C18_write_read_reader (f : Canon.Allow) (ext : Ext) (allowSlow : Bool)
    (S : Schema) (node : Node) (sv : SV) (fp : Bytes) (hfp : fp.length = 8) (s₀ : SerState)
    (hok : (toSingleObject fp (ser ext allowSlow S node sv) s₀).1 = .ok ())
    (hs : Good s₀) (hS : SchemaOK S) (hnode : NodeOK S node) (hsv : svOK sv = true)
    (hext : ExtOK ext)
    (hcanon : Canon.svCanon f sv = true)
    (hallowS : ∀ (k : Nat) (n : Node), S[k]? = some n → Canon.nodeAllows f n = true)
    (hallowN : Canon.nodeAllows f node = true)
    (hfixS : Schema.fixedDecFits S) (hfixN : node.fixedDecFits = true) :
    ∃ s' bytes v, toSingleObject fp (ser ext allowSlow S node sv) s₀ = (.ok (), s') ∧
      s'.out = s₀.out ++ ([0xC3, 0x01] ++ fp ++ bytes) ∧
      Spec.encode S node v = some bytes ∧
      Spec.denotes (denExtOf ext) S node sv v = true ∧
      ∀ (cfg : DeConfig) (depth : Nat) (o : Out), Spec.observe S node v = some o →
        Spec.depthOf v ≤ depth → Spec.maxLen v ≤ cfg.maxSeqSize →
        ∀ fuel, Spec.size v * 4 + 8 ≤ fuel → ∀ (rest : Bytes) (r : RState),
          r.isSlice = false → r.limit = none → r.avail ≤ r.rest.length →
          (bytes ++ rest).length ≤ r.maxAlloc →
          r.rest = [0xC3, 0x01] ++ fp ++ bytes ++ rest →
          ∃ o' r', fromSingleObject fp (de deExtModel cfg S fuel node depth false .any) r =
              (.ok o', r') ∧
            unborrow o' = unborrow o ∧ r'.rest = rest ∧ ReaderOK r' := by
  have hframe := C18_frame fp (ser ext allowSlow S node sv) s₀ hs.1
  rw [hframe] at hok ⊢
  have hs1 : Good { s₀ with out := s₀.out ++ [0xC3, 0x01] ++ fp } := ⟨hs.1, hs.2⟩
  obtain ⟨s', bytes, v, hrun, hout, henc, hden, hde⟩ :=
    C01_roundtrip_impl_reader f ext allowSlow S node sv _ hok hs1 hS hnode hsv hext hcanon hallowS
      hallowN hfixS hfixN
  refine ⟨s', bytes, v, hrun, ?_, henc, hden, ?_⟩
  · rw [hout]; simp [List.append_assoc]
  · intro cfg depth o hobs hdepth hseq fuel hfuel rest r hsl hl ha hm hr
    obtain ⟨r₁, h1, h2, h3, h4, h5, _, h7⟩ :=
      C18_accepts_reader fp r hsl hl ha (bytes ++ rest) hfp (by rw [hr]; simp [List.append_assoc])
    rw [h7 Out]
    exact hde cfg depth o hobs hdepth hseq fuel hfuel rest r₁ h2 h3 h4 (by rw [h1, h5]; exact hm) h1

/-- The message on its own: written on the empty `Vec`, read back through a FRESH reader over
    exactly the message, with an arbitrary chunk schedule (`sched`, then `lastChunk` forever),
    scratch size and an allocation cap covering the datum; the limits are stated on the
    presentation (as in `C18_write_read_msg`).  The reader returns the observation of a value the
    presentation denotes, up to the `borrowed` flags, and consumes everything. -/
theorem C18_write_read_msg_reader (f : Canon.Allow) (ext : Ext) (allowSlow : Bool) (cfg : DeConfig)
    (S : Schema) (node : Node) (sv : SV) (fp : Bytes) (hfp : fp.length = 8) (depth : Nat)
    (hok : (toSingleObject fp (ser ext allowSlow S node sv) {}).1 = .ok ())
    (hS : SchemaOK S) (hnode : NodeOK S node) (hsv : svOK sv = true)
    (hext : ExtOK ext)
    (hcanon : Canon.svCanon f sv = true)
    (hallowS : ∀ (k : Nat) (n : Node), S[k]? = some n → Canon.nodeAllows f n = true)
    (hallowN : Canon.nodeAllows f node = true)
    (hfixS : Schema.fixedDecFits S) (hfixN : node.fixedDecFits = true)
    (hlim : ∀ v, Spec.denotes (denExtOf ext) S node sv v = true →
      (Spec.observe S node v).isSome = true ∧ Spec.depthOf v ≤ depth ∧
        Spec.maxLen v ≤ cfg.maxSeqSize) :
    ∃ s' v o, toSingleObject fp (ser ext allowSlow S node sv) {} = (.ok (), s') ∧
      Spec.denotes (denExtOf ext) S node sv v = true ∧ Spec.observe S node v = some o ∧
      ∀ fuel, Spec.size v * 4 + 8 ≤ fuel →
        ∀ (sched : List Nat) (lastChunk maxAlloc scratch : Nat), s'.out.length ≤ maxAlloc + 10 →
        ∃ o' r', fromSingleObject fp (de deExtModel cfg S fuel node depth false .any)
            { isSlice := false, rest := s'.out, avail := 0, sched := sched,
              lastChunk := lastChunk, maxAlloc := maxAlloc, scratch := scratch, limit := none } =
            (.ok o', r') ∧
          unborrow o' = unborrow o ∧ r'.rest = [] ∧ ReaderOK r' := by
  obtain ⟨s', bytes, v, hrun, hout, _, hden, hrd⟩ :=
    C18_write_read_reader f ext allowSlow S node sv fp hfp {} hok C01glue.good_empty hS hnode hsv
      hext hcanon hallowS hallowN hfixS hfixN
  obtain ⟨hobs, hdepth, hseq⟩ := hlim v hden
  obtain ⟨o, ho⟩ := Option.isSome_iff_exists.1 hobs
  refine ⟨s', v, o, hrun, hden, ho, ?_⟩
  intro fuel hfuel sched lastChunk maxAlloc scratch hm
  have hout' : s'.out = [0xC3, 0x01] ++ fp ++ bytes ++ [] := by rw [hout]; simp
  refine hrd cfg depth o ho hdepth hseq fuel hfuel [] _ rfl rfl (Nat.zero_le _) ?_ hout'
  rw [hout'] at hm
  simp only [List.length_append, hfp, List.length_cons, List.length_nil] at hm ⊢
  omega

/-! ### 5. Non-vacuity, and why the statements have the shape they have

The message of `NonVacuityB` §5: the cyclic schema `cycS`, its fingerprint `cycFp` as the model's
`schemaFingerprint` computes it, the presentation `sv1`, the message `cycMsg` the real writer
produces. -/

namespace C18ReaderNV
open Avro.Theorems.NVB Avro.NonVacuityA Avro.Theorems.ReaderNV Driver

/-- a fresh streaming reader over `bs`, EVERYTHING about the schedule left as a parameter -/
def rd (bs : Bytes) (sched : List Nat) (lastChunk maxAlloc scratch : Nat) : RState :=
  { isSlice := false, rest := bs, avail := 0, sched := sched, lastChunk := lastChunk,
    maxAlloc := maxAlloc, scratch := scratch, limit := none }

/-- **`C18_short_header_err_reader`**: 9 of the 19 bytes of the message, any schedule -/
example (sched : List Nat) (lastChunk maxAlloc scratch : Nat) :
    (fromSingleObject cycFp cycDatum (rd (cycMsg.take 9) sched lastChunk maxAlloc scratch)).1 =
      .error .io := by
  obtain ⟨r', _, e⟩ := C18_short_header_err_reader
    (rd (cycMsg.take 9) sched lastChunk maxAlloc scratch) rfl rfl (Nat.zero_le _)
    (by show (cycMsg.take 9).length < 10; decide)
  rw [e Out cycFp cycDatum]

/-- **`C18_marker_err_reader`**: the marker `C3 02`, any schedule -/
example (sched : List Nat) (lastChunk maxAlloc scratch : Nat) :
    (fromSingleObject cycFp cycDatum
      (rd ([0xC3, 0x02] ++ cycFp ++ cycBytes) sched lastChunk maxAlloc scratch)).1 =
      .error .custom := by
  obtain ⟨r', _, _, e⟩ := C18_marker_err_reader
    (rd ([0xC3, 0x02] ++ cycFp ++ cycBytes) sched lastChunk maxAlloc scratch) rfl rfl
    (Nat.zero_le _) (by show 10 ≤ ([0xC3, 0x02] ++ cycFp ++ cycBytes : Bytes).length; decide)
    (by show (([0xC3, 0x02] ++ cycFp ++ cycBytes : Bytes).take 10).take 2 ≠ _; decide +kernel)
  rw [e Out cycFp cycDatum]

/-- **`C18_fingerprint_err_reader`**: the message read under the schema with the field `tags`
    renamed (`otherFp`, `NonVacuityB`), any schedule -/
example (sched : List Nat) (lastChunk maxAlloc scratch : Nat) :
    (fromSingleObject otherFp cycDatum (rd cycMsg sched lastChunk maxAlloc scratch)).1 =
      .error .custom := by
  obtain ⟨r', _, _, e⟩ := C18_fingerprint_err_reader otherFp
    (rd cycMsg sched lastChunk maxAlloc scratch) rfl rfl (Nat.zero_le _)
    (by show 10 ≤ cycMsg.length; decide)
    (by show ((cycMsg.take 10).drop 2).take 8 ≠ otherFp; decide +kernel)
  rw [e Out cycDatum]

/-- … and in the `ReaderOK` form, on the reader with refills 1, 2, 3, 1, 1, … -/
example : (fromSingleObject otherFp cycDatum (rd123 cycMsg 64)).1 = .error .custom :=
  C18_fingerprint_err_reader_fst otherFp cycDatum (rd123 cycMsg 64)
    ⟨rfl, rfl, Nat.zero_le _, by decide⟩ (by decide) (by decide +kernel)

/-- **`C18_accepts_reader`** with the real `de` as the datum parameter, any schedule -/
example (sched : List Nat) (lastChunk maxAlloc scratch : Nat) :
    ∃ r', r'.rest = cycBytes ∧ r'.isSlice = false ∧ r'.limit = none ∧
      r'.avail ≤ r'.rest.length ∧ r'.maxAlloc = maxAlloc ∧
      fromSingleObject cycFp cycDatum (rd cycMsg sched lastChunk maxAlloc scratch) =
        cycDatum r' := by
  obtain ⟨r', h1, h2, h3, h4, h5, _, h7⟩ := C18_accepts_reader cycFp
    (rd cycMsg sched lastChunk maxAlloc scratch) rfl rfl (Nat.zero_le _) cycBytes rfl rfl
  exact ⟨r', h1, h2, h3, h4, h5, h7 Out cycDatum⟩

/-- **`C18_reader_ok_only_if_header`** on an actual successful run (`cyc_run` below) is
    `cyc_run_header`. -/
def cycOutR : Out :=
  .map [(.str "value" false, .i64 1),
        (.str "next" false, .map [(.str "value" false, .i64 2), (.str "next" false, .unit),
                                  (.str "tags" false, .seq [])]),
        (.str "tags" false, .seq [.str "a" false])]

/-- The run on `cycMsg ++ [9, 9]` with refills 1, 2, 3, 1, 1, …, by evaluation: the value is
    `cycOutR` (`cycOut` with the string copied), `[9, 9]` is left, the schedule is used up. -/
theorem cyc_run : fromSingleObject cycFp (de deExtModel {} cycS 100 cycRoot 64 false .any)
      (rd123 (cycMsg ++ [9, 9]) 64) =
    (.ok cycOutR, { rd123 [9, 9] 64 with avail := 0, sched := [] }) :=
  resEq_of (by decide +kernel)

theorem cyc_run_header : ∃ payload r',
    cycMsg ++ [9, 9] = [0xC3, 0x01] ++ cycFp ++ payload ∧ cycFp.length = 8 ∧ r'.rest = payload ∧
      de deExtModel {} cycS 100 cycRoot 64 false .any r' =
        (.ok cycOutR, { rd123 [9, 9] 64 with avail := 0, sched := [] }) :=
  C18_reader_ok_only_if_header cycFp _ (rd123 (cycMsg ++ [9, 9]) 64) rfl rfl (Nat.zero_le _) _ _
    cyc_run

/-- **`C18_write_read_reader`**, every hypothesis discharged on the cyclic schema: whatever
    follows the message, for EVERY streaming-reader state over it (any schedule, buffer position,
    scratch size; an allocation cap covering what follows the header) and any fuel above
    `4 * size + 8`, the reader returns `cycOut` up to the `borrowed` flags and leaves what
    followed. -/
theorem cyc_write_read_reader (rest : Bytes) (fuel : Nat) (hfuel : 4 * Spec.size cycV + 8 ≤ fuel)
    (r : RState) (hs : r.isSlice = false) (hl : r.limit = none) (ha : r.avail ≤ r.rest.length)
    (hm : (cycBytes ++ rest).length ≤ r.maxAlloc)
    (hr : r.rest = (toSingleObject cycFp (ser extNone false cycS cycRoot sv1) {}).2.out ++ rest) :
    ∃ o' r', fromSingleObject cycFp (de deExtModel {} cycS fuel cycRoot 64 false .any) r =
        (.ok o', r') ∧ unborrow o' = unborrow cycOut ∧ r'.rest = rest ∧ ReaderOK r' := by
  obtain ⟨s', bytes, v, hrun, hout, henc, hden, hrd⟩ :=
    C18_write_read_reader {} extNone false cycS cycRoot sv1 cycFp rfl {} (by rw [cyc_write])
      C01glue.good_empty
      (SchemaOK.of_checks (by decide +kernel) (by decide +kernel) (by decide +kernel)
        (by decide +kernel))
      (NodeOK.of_check (by decide +kernel)) (by decide +kernel) extNone_ok (by decide +kernel)
      (fun _ n _ => Canon.nodeAllows_strict n) (Canon.nodeAllows_strict _)
      (fun k n hk => Array.all_getElem? (by decide +kernel : cycS.all Node.fixedDecFits = true) hk)
      (by decide +kernel)
  rw [hrun] at hr
  rw [cyc_write] at hrun
  have hs' : s'.out = cycMsg := by
    have := congrArg (fun p => p.2.out) hrun
    exact this.symm
  have hb : bytes = cycBytes := by
    rw [hs'] at hout
    simp only [cycMsg] at hout
    have : ([0xC3, 0x01] ++ cycFp : Bytes) ++ cycBytes = ([0xC3, 0x01] ++ cycFp) ++ bytes := by
      simpa [List.append_assoc] using hout
    exact (List.append_cancel_left this).symm
  subst hb
  have hv : v = cycV := encode_injective henc cycV_encode
  subst hv
  exact hrd {} 64 cycOut cycV_observe (by decide +kernel) (by decide +kernel) fuel (by omega)
    rest r hs hl ha hm (by rw [hr, hout]; simp [List.append_assoc])

/-- … in particular on the reader of `cyc_run` (where the value is computed: `cycOutR`) -/
example : ∃ o' r', fromSingleObject cycFp (de deExtModel {} cycS 100 cycRoot 64 false .any)
      (rd123 (cycMsg ++ [9, 9]) 64) = (.ok o', r') ∧
    unborrow o' = unborrow cycOut ∧ r'.rest = [9, 9] ∧ ReaderOK r' :=
  cyc_write_read_reader [9, 9] 100 (by decide +kernel) _ rfl rfl (Nat.zero_le _) (by decide)
    (by rw [cyc_write]; rfl)

/-- the canonical form of `union [null, array<long>]` (`NonVacuityA.SU`) and its CRC-64-AVRO
    fingerprint, little endian (the specification's, `C18_fingerprint_is_crc`) -/
def pcfU : String := "[\"null\",{\"type\":\"array\",\"items\":\"long\"}]"
def fpU : Bytes := Spec.fingerprintLE pcfU.toUTF8.data.toList
theorem fpU_length : fpU.length = 8 := by decide +kernel

/-- **`C18_write_read_msg_reader`** on `Some(vec![1i64, -3])` for `union [null, array<long>]`
    (its `hlim` — over EVERY value the presentation denotes — is `NonVacuityA.svU_denotes_only`):
    the schedule, scratch size and cap are universally quantified in the conclusion; the tightest
    depth and sequence limits. -/
example : ∃ s' v o, toSingleObject fpU (ser ({} : ExtTable).toExt false SU nodeU svU) {} =
      (.ok (), s') ∧
    Spec.denotes (denExtOf ({} : ExtTable).toExt) SU nodeU svU v = true ∧
    Spec.observe SU nodeU v = some o ∧
    ∀ fuel, Spec.size v * 4 + 8 ≤ fuel →
      ∀ (sched : List Nat) (lastChunk maxAlloc scratch : Nat), s'.out.length ≤ maxAlloc + 10 →
      ∃ o' r', fromSingleObject fpU
          (de deExtModel { maxSeqSize := 2, allowedDepth := 2 } SU fuel nodeU 2 false .any)
          { isSlice := false, rest := s'.out, avail := 0, sched := sched,
            lastChunk := lastChunk, maxAlloc := maxAlloc, scratch := scratch, limit := none } =
          (.ok o', r') ∧
        unborrow o' = unborrow o ∧ r'.rest = [] ∧ ReaderOK r' :=
  C18_write_read_msg_reader { negInt := true } ({} : ExtTable).toExt false
    { maxSeqSize := 2, allowedDepth := 2 } SU nodeU svU fpU fpU_length 2
    (ok_of_toBool (by decide +kernel)) SU_ok (NodeOK.of_check (by decide +kernel))
    (by decide +kernel) empty_ok (by decide +kernel)
    (fun k n hk => Array.all_getElem? (p := Canon.nodeAllows { negInt := true })
      (by decide +kernel : SU.all (Canon.nodeAllows { negInt := true }) = true) hk)
    (by decide +kernel) SU_fixedDecFits (by decide +kernel)
    (fun v hv => by
      rw [svU_denotes_only _ v hv]
      exact ⟨by rfl, by decide +kernel, by decide +kernel⟩)

/-! #### Why the statements differ from the slice ones -/

/-- **The error class differs** for the short header: on 9 bytes `from_single_object_slice`
    gives the custom error ("Slice is too short …"), `from_single_object_reader` the I/O error of
    `read_exact` (single_object_encoding.rs:14-16 / 38-40).  The two header-mismatch errors are
    `custom` on both back-ends. -/
theorem C18reader_error_class_differs :
    (fromSingleObject cycFp cycDatum { isSlice := true, rest := cycMsg.take 9 }).1 = .error .custom ∧
    (fromSingleObject cycFp cycDatum (rd123 (cycMsg.take 9) 64)).1 = .error .io :=
  ⟨C18_short_header_err_slice cycFp cycDatum _ rfl (by decide),
   C18_short_header_err_reader_fst cycFp cycDatum _ ⟨rfl, rfl, Nat.zero_le _, by decide⟩
    (by decide)⟩

/-- **The value is `observe v` only up to `unborrow`**: from the slice `cycOut` (the tag `"a"`
    borrowed: `NVB.cyc_write_read`), from the reader `cycOutR` (copied). -/
theorem C18reader_value_not_equal :
    (fromSingleObject cycFp (de deExtModel {} cycS 100 cycRoot 64 false .any)
      (sliceOf (rd123 (cycMsg ++ [9, 9]) 64))).1 = .ok cycOut ∧
    (fromSingleObject cycFp (de deExtModel {} cycS 100 cycRoot 64 false .any)
      (rd123 (cycMsg ++ [9, 9]) 64)).1 = .ok cycOutR ∧
    cycOutR ≠ cycOut ∧ unborrow cycOutR = unborrow cycOut := by
  refine ⟨fstEq_of (by decide +kernel), by rw [cyc_run], ?_, ?_⟩
  · simp [cycOutR, cycOut]
  · simp [cycOutR, cycOut, unborrow, unborrowP, unborrowL]

/-- **The state `r'` on which `datum` is started depends on the schedule** (so `C18_accepts_reader`
    cannot give it in closed form as `C18_accepts_slice` does): after the header, with refills
    1, 2, 3, 1, 1, … the buffer is empty and the schedule used up; when the first refill
    delivers everything, 9 bytes are buffered.  (`datum := fun s => (.ok (), s)` returns the
    state it is started on.) -/
theorem C18reader_datum_state_depends_on_schedule :
    (fromSingleObject cycFp (fun s => (.ok (), s)) (rd123 cycMsg 64)).2 =
      { rd123 cycBytes 64 with avail := 0, sched := [] } ∧
    (fromSingleObject cycFp (fun s => (.ok (), s))
        { rd123 cycMsg 64 with sched := [], lastChunk := 100 }).2 =
      { rd123 cycBytes 64 with avail := 9, sched := [], lastChunk := 100 } := by
  constructor <;> decide +kernel

/-- **`fp.length = 8` cannot be dropped** from `C18_accepts_reader` (as from
    `C18_accepts_slice`): with the empty "fingerprint" the input `C3 01 ++ [] ++ payload` is
    rejected. -/
theorem C18reader_fp_length_needed :
    (rd123 ([0xC3, 0x01] ++ [] ++ cycFp ++ cycBytes) 64).rest =
      [0xC3, 0x01] ++ [] ++ (cycFp ++ cycBytes) ∧
    (fromSingleObject [] cycDatum (rd123 ([0xC3, 0x01] ++ [] ++ cycFp ++ cycBytes) 64)).1 =
      .error .custom :=
  ⟨by simp [rd123], fstEq_of (by decide +kernel)⟩

/-- **`r.limit = none` cannot be dropped** from `C18_accepts_reader`: under a `Take` of 5 bytes
    the header `read_exact` fails although the message is right (the model's `readExact` goes
    through the `Take`; the crate never calls `from_single_object_reader` under one). -/
theorem C18reader_nolimit_needed :
    (fromSingleObject cycFp cycDatum { rd123 cycMsg 64 with limit := some 5 }).1 = .error .io :=
  fstEq_of (by decide +kernel)

/-- **The allocation cap cannot be dropped** from `C18_write_read_reader`: the message for the
    string `"hey"` (schema `"string"`, any fingerprint) read with `max_alloc = 2`, one byte per
    refill: the 3-byte string does not fit the buffer and may not be allocated.  With a cap of 4
    bytes (the datum: what `C18_write_read_reader` asks for) it is read. -/
theorem C18reader_alloc_needed :
    (fromSingleObject cycFp (de deExtModel {} #[.string] 100 .string 64 false .any)
      { isSlice := false, rest := [0xC3, 0x01] ++ cycFp ++ [0x06, 0x68, 0x65, 0x79], avail := 0,
        sched := [], lastChunk := 1, maxAlloc := 2 }).1 = .error .custom ∧
    (fromSingleObject cycFp (de deExtModel {} #[.string] 100 .string 64 false .any)
      { isSlice := false, rest := [0xC3, 0x01] ++ cycFp ++ [0x06, 0x68, 0x65, 0x79], avail := 0,
        sched := [], lastChunk := 1, maxAlloc := 4 }).1 = .ok (.str "hey" false) :=
  ⟨fstEq_of (by decide +kernel), fstEq_of (by decide +kernel)⟩

end C18ReaderNV

end Avro.Theorems
