import AvroModel.Lemmas.OcfRealCodec
import AvroModel.Theorems.C01glue
/-
C05 (write, then read) with the REAL datum deserializer.

WHAT IS SUPERSEDED, AND WHY.  The container round-trip theorems

  * `C05_roundtrip_null_slice`, `C05_roundtrip_codec`, `C05_roundtrip_codec_file`  (`Theorems/C05.lean`)
  * `C06_reads_any_partition`, `C06_reads_single_block`                            (`Theorems/C06.lean`)
  * `C17_yields_prefix_null` (and `C17_yields_prefix_null_no_panic` as far as it uses it)
                                                                                 (`Theorems/C17.lean`)

are stated for an ABSTRACT datum deserializer `datum : RState → Except DeErr α × RState` under the
hypothesis `DatumOk enc datum` (`C17.lean`), resp. `DatumOkR enc datum` (`C05.lean`, the back-end
over a decompressed block):

    ∀ s v y, s.isSlice = true → s.rest = enc v ++ y → ∃ s', datum s = (.ok v, s') ∧ s'.rest = y ∧ …

Both quantify over EVERY state `s` of the given back-end, in particular over states with an
`io::Take` limit in place (`s.limit = some 0`), states whose buffer count exceeds what is left, and
(reader back-end) states whose allocation cap is smaller than the datum.  The real deserializer
model `de deExtModel cfg S fuel node depth false .any` does NOT satisfy them
(`datumOk_needs_no_limit` in `Theorems/C17stream.lean`: schema `float`, `limit := some 0`; on the
reader back-end also any datum longer than `maxAlloc`).  Moreover they ask for the value itself
(`.ok v`, `α` the type of the values written), where the real deserializer returns an
OBSERVATION `Out` of a `Spec.Value`.  Those theorems remain TRUE, and remain in the development,
but they speak about hypothetical deserializers only: nothing follows from them about `de`.
(`C05_roundtrip_codec` - one compressed block entered and left - has no datum hypothesis and is
used below as it is, through `C05_enterBlock_codec` / `C05_leaveBlock_codec`.)

`Theorems/C17stream.lean` repaired the READ side for the null codec (`C17_yields_prefix_null_slice_de`,
`C17_yields_prefix_null_stream`: real `de`, a state invariant `KOk`/`BOk` instead of the universal
quantification, values `GoodVal`).  This file composes them with the writer half, and redoes the
induction over a compressed file with an invariant-carrying datum hypothesis
(`Lemmas/OcfRealCodec.lean`, `DatumOkInv`):

  * `C05_roundtrip_null_real`          replaces `C05_roundtrip_null_slice`: null codec, real `de`,
                                       slice back-end (values exactly) AND a streaming reader under
                                       any refill schedule (values up to `unborrow`);
  * `C05_roundtrip_codec_real_sealed`, `C05_roundtrip_codec_real`
                                       replace `C05_roundtrip_codec_file`: abstract codec (law L1 a
                                       hypothesis), real `de` on the decompressed block;
  * `Theorems/C06real.lean`            replaces `C06_reads_any_partition`, `C06_reads_single_block`.
  * `C17_yields_prefix_null` is replaced by `C17_yields_prefix_null_slice_de` (`C17stream.lean`).

The vocabulary (`readAll`, `End`, `fileBody`, `BlockOk`, `openSlice`, `fileBodyC`, `BlockOkC`) is
that of `C05.lean` / `C17.lean`; `Stream.openReader` is the streaming reader of
`Lemmas/OcfStream.lean` (it has no counterpart in `C17.lean`).  The copies of this vocabulary in
`Avro.Theorems.Stream` are definitionally the same functions (`Lemmas/OcfRealBridge.lean`).

What is written: `VOp.toWOp (encD S node)` - a successful `serialize` call appends the canonical
encoding `encD S node v = Spec.encode S node v`.  That this is what the real serializer model
writes is `C01_ser_canonical` (`Theorems/C01glue.lean`), restated here as `C05_real_datum_bytes`.
-/
namespace Avro.Theorems
open Avro Avro.Impl Avro.Impl.Ocf Avro.Theorems.Real

/-! ### 0. The writer half, once -/

section Writer
variable {V : Type} (enc : V → Bytes)

/-- What `C05_roundtrip_null_slice` and `C05_roundtrip_codec_file` establish about the writer
    before they turn to the reader: every call returned what it should, and the blocks the
    (abstract) writer sealed are the images of a partition `B` of the values written, each block
    non-empty; the sink holds the header followed by those blocks. -/
theorem wrun_partition (c : Codec) (dbg : Bool) (hdr sync : Bytes) (approx : Nat)
    (ops : List (VOp V)) (fin : WOp) (hfin : fin = .finishBlock ∨ fin = .intoInner ∨ fin = .drop)
    (w : WState) (h0 : Rep c hdr sync approx {} w) :
    (wrun c dbg w (ops.map (VOp.toWOp enc) ++ [fin])).1
        = (ops.map (VOp.toWOp enc) ++ [fin]).map expected ∧
    ∃ B : List (List V), B.flatten = valuesOf ops ∧ (∀ b ∈ B, b ≠ []) ∧
      (arun approx {} (ops.map (VOp.toWOp enc) ++ [fin])).sealed
        = B.map (List.map (entryOfVal enc)) ∧
      (wrun c dbg w (ops.map (VOp.toWOp enc) ++ [fin])).2.sink.data
        = hdr ++ blocksBytes c sync ((B.map (List.map (entryOfVal enc))).map blockOf) := by
  have hops : ∀ op ∈ ops.map (VOp.toWOp enc), op ≠ .intoInner := by
    intro op hop
    obtain ⟨o, _, rfl⟩ := List.mem_map.1 hop
    exact toWOp_ne_intoInner enc o
  obtain ⟨hres, hsink⟩ := wrun_closed_sink c dbg hdr sync approx _ fin hfin hops w h0
  obtain ⟨_, hflat⟩ := C15_run_finished approx (ops.map (VOp.toWOp enc)) fin hfin
    (by
      intro b k hm
      obtain ⟨o, _, ho⟩ := List.mem_map.1 hm
      cases o <;> simp [VOp.toWOp] at ho)
  have hpos : SealedPos (arun approx {} (ops.map (VOp.toWOp enc) ++ [fin])) :=
    arun_sealedPos approx {} _ (by intro b hb; simp at hb)
  rw [flatMap_entryOf_toWOp] at hflat
  obtain ⟨B, hB, hBflat⟩ := exists_partition_of_flatten_eq_map (entryOfVal enc) _ _ hflat
  rw [hB] at hsink
  have hne : ∀ b ∈ B, b ≠ [] := by
    intro b hb hnil
    have := hpos (b.map (entryOfVal enc)) (by rw [hB]; exact List.mem_map_of_mem hb)
    rw [hnil] at this
    simp at this
  exact ⟨hres, B, hBflat, hne, hB, hsink⟩

theorem cntOf_map_entryOfVal (vs : List V) : cntOf (vs.map (entryOfVal enc)) = vs.length :=
  congrArg Prod.fst (blockOf_map_entryOfVal enc vs)

theorem bufOf_map_entryOfVal (vs : List V) : bufOf (vs.map (entryOfVal enc)) = blockData enc vs :=
  congrArg Prod.snd (blockOf_map_entryOfVal enc vs)

end Writer

/-! ### 1. Null codec -/

/-- **Reading a whole well-formed file (null codec) with the real datum deserializer**, in the
    vocabulary of `C05.lean` / `C06.lean`: the two truncation theorems of `C17stream.lean` at the
    full length.  Slice back-end: exactly the observations, then end of stream.  Streaming reader,
    any refill schedule, allocation cap at least the length of the file: the same up to the
    `borrowed` flags. -/
theorem C05_reads_whole_file_real (d : Decomp) (hn : d.isNull = true)
    (cfg : DeConfig) (S : Schema) (node : Node) (depth fuel : Nat)
    (sync : Bytes) (hsy : sync.length = 16)
    (blocks : List (List Spec.Value)) (hbs : ∀ b ∈ blocks, BlockOk (encD S node) b)
    (hgood : ∀ v ∈ blocks.flatten, GoodVal cfg S node depth fuel v) :
    let enc := encD S node
    let datum := de deExtModel cfg S fuel node depth false .any
    let file := fileBody enc sync blocks
    let N := blocks.flatten.length
    readAll d datum (N + 1) (openSlice sync file) = (blocks.flatten.map (obsD S node), .eos) ∧
    ∀ (sched : List Nat) (lastChunk M : Nat), file.length ≤ M →
      (readAll d datum (N + 1) (Stream.openReader sync file sched lastChunk M)).1.map unborrow
          = blocks.flatten.map (fun v => unborrow (obsD S node v)) ∧
      (readAll d datum (N + 1) (Stream.openReader sync file sched lastChunk M)).2 = .eos := by
  intro enc datum file N
  constructor
  · have hs := (C17_yields_prefix_null_slice_de d hn cfg S node depth fuel sync hsy blocks hbs hgood
      (Stream.fileBody enc sync blocks).length).2.2 (Nat.le_refl _)
    rw [List.take_of_length_le (Nat.le_refl _)] at hs
    exact readAll_of_stream hs
  · intro sched lastChunk M hM
    have hr := (C17_yields_prefix_null_stream d hn cfg S node depth fuel sync hsy blocks hbs hgood
      (Stream.fileBody enc sync blocks).length sched lastChunk M
      (by rw [List.take_of_length_le (Nat.le_refl _)]; exact hM)).2.2 (Nat.le_refl _)
    rw [List.take_of_length_le (Nat.le_refl _)] at hr
    rw [readAll_fst_stream]
    exact ⟨hr.1, readAll_snd_eos_of_stream hr.2⟩

/-- **C05 (write then read, null codec, the real datum deserializer).**
    The statement of `C05_roundtrip_null_slice` with `datum := de deExtModel cfg S fuel node depth
    false .any`, the serializer side writing the canonical encodings `encD S node v`.

    A freshly built writer `w` (`Rep c hdr sync approx {} w`: the sink holds the header, nothing
    else happened; the sink accepts everything) is driven through any history `ops` of values that
    serialize (`write v`, to `encD S node v`), values that fail, and explicit `finish_block`s,
    closed by `finish_block`, `into_inner` or `Drop`.  Every value written is `GoodVal` (it
    conforms to the node, is observable, within the depth / `max_seq_size` / fuel budgets).  Then:
    * every call returned `Ok`, except the failing values which returned their error;
    * the sink holds `hdr` followed by `fileBody (encD S node) sync blocks` for some partition
      `blocks` of the values written successfully, in order, no block empty;
    * SLICE back-end: the reader opened on the bytes after the header yields exactly
      `observe v` for every value written, in order, then end of stream, within `N + 1` calls;
    * READER back-end: a streaming reader over the same bytes, under ANY refill schedule
      (`sched`, then `lastChunk` for ever) and any allocation cap `M` at least the length of the
      body, yields the same values up to the `borrowed` flags (`unborrow`: the reader copies where
      the slice lends, C11), then end of stream. -/
theorem C05_roundtrip_null_real (c : Codec) (hc : c.isNull = true) (d : Decomp)
    (hn : d.isNull = true) (cfg : DeConfig) (S : Schema) (node : Node) (depth fuel : Nat)
    (dbg : Bool) (hdr sync : Bytes) (hsy : sync.length = 16) (approx : Nat)
    (ops : List (VOp Spec.Value)) (fin : WOp)
    (hfin : fin = .finishBlock ∨ fin = .intoInner ∨ fin = .drop)
    (w : WState) (h0 : Rep c hdr sync approx {} w)
    (hgood : ∀ v ∈ valuesOf ops, GoodVal cfg S node depth fuel v)
    (hcount : (valuesOf ops).length < 2 ^ 63)
    (hsize : (blockData (encD S node) (valuesOf ops)).length < 2 ^ 63) :
    let enc := encD S node
    let datum := de deExtModel cfg S fuel node depth false .any
    let run := wrun c dbg w (ops.map (VOp.toWOp enc) ++ [fin])
    let body := run.2.sink.data.drop hdr.length
    let N := (valuesOf ops).length
    run.1 = (ops.map (VOp.toWOp enc) ++ [fin]).map expected ∧
    (∃ blocks : List (List Spec.Value), blocks.flatten = valuesOf ops ∧ (∀ b ∈ blocks, b ≠ []) ∧
        run.2.sink.data = hdr ++ fileBody enc sync blocks) ∧
    readAll d datum (N + 1) (openSlice sync body) = ((valuesOf ops).map (obsD S node), .eos) ∧
    ∀ (sched : List Nat) (lastChunk M : Nat), body.length ≤ M →
      (readAll d datum (N + 1) (Stream.openReader sync body sched lastChunk M)).1.map unborrow
          = (valuesOf ops).map (fun v => unborrow (obsD S node v)) ∧
      (readAll d datum (N + 1) (Stream.openReader sync body sched lastChunk M)).2 = .eos := by
  intro enc datum run body N
  obtain ⟨hres, B, hBflat, hne, _, hsink⟩ :=
    wrun_partition enc c dbg hdr sync approx ops fin hfin w h0
  rw [blocksBytes_eq_fileBody enc c hc] at hsink
  have hok : ∀ b ∈ B, BlockOk enc b :=
    blockOk_of_total enc B (by rw [hBflat]; exact hcount) (by rw [hBflat]; exact hsize)
  have hgoodB : ∀ v ∈ B.flatten, GoodVal cfg S node depth fuel v := by rw [hBflat]; exact hgood
  have hbody : body = fileBody enc sync B := by
    show List.drop hdr.length (wrun c dbg w (ops.map (VOp.toWOp enc) ++ [fin])).2.sink.data = _
    rw [hsink, List.drop_left]
  have hN : N = B.flatten.length := by rw [hBflat]
  obtain ⟨hs, hr⟩ := C05_reads_whole_file_real d hn cfg S node depth fuel sync hsy B hok hgoodB
  refine ⟨hres, ⟨B, hBflat, hne, hsink⟩, ?_, ?_⟩
  · rw [hbody, hN, ← hBflat]; exact hs
  · intro sched lastChunk M hM
    rw [hbody] at hM ⊢
    rw [hN, ← hBflat]
    exact hr sched lastChunk M hM

/-! ### 2. An abstract codec (law L1 a hypothesis), the real `de` on the decompressed block -/

/-- the allocation cap a decompressed block's back-end is given (`plainReader`, `Impl/Ocf.lean`:
    the default `max_alloc`, 512 MiB) -/
def blockAllocCap : Nat := 536870912

/-- the back-end `enterBlock` builds over a decompressed block satisfies the invariant of the real
    deserializer (`BOk`) as soon as the block is within the allocation cap -/
theorem kOk_plainReader (plain : Bytes) (h : plain.length ≤ blockAllocCap) :
    Stream.KOk false blockAllocCap (plainReader plain 8192) :=
  Stream.KOk.ofBOk ⟨rfl, rfl, Nat.zero_le _, rfl, h⟩

/-- **C05 (write then read, abstract codec, the real datum deserializer) - hypotheses on the blocks
    actually sealed.**  Writer codec `c` and reader codec `d`, neither null nor snappy, related by
    law L1 `d.decompress (c.compress x) = some x` (a HYPOTHESIS); file read through the slice
    back-end, each block decompressed as a whole and handed to `de` through
    `plainReader plain 8192` (a reader back-end: `isSlice = false`, no `Take`, allocation cap
    `blockAllocCap`).  The values come back up to the `borrowed` flags (`unborrow`): a reader
    back-end copies strings and byte strings.
    Hypotheses on every block `es` that the writer sealed (`arun … .sealed`, the abstract writer of
    `Lemmas/OcfWriter.lean`; `cntOf es` its number of values, `bufOf es` its uncompressed data):
    the count and the compressed size fit an `i64`, and the UNCOMPRESSED data is at most
    `blockAllocCap` bytes long - the invariant `BOk` under which `de` is known to accept an
    encoding on a reader back-end (`C17_datum_cut_reader`) asks what is left to be within the
    allocation cap. -/
theorem C05_roundtrip_codec_real_sealed (c : Codec) (hc : c.isNull = false) (d : Decomp)
    (hnn : d.isNull = false) (hns : d.isSnappy = false)
    (hL1 : ∀ x, d.decompress (c.compress x) = some x)
    (cfg : DeConfig) (S : Schema) (node : Node) (depth fuel : Nat)
    (dbg : Bool) (hdr sync : Bytes) (hsy : sync.length = 16) (approx : Nat)
    (ops : List (VOp Spec.Value)) (fin : WOp)
    (hfin : fin = .finishBlock ∨ fin = .intoInner ∨ fin = .drop)
    (w : WState) (h0 : Rep c hdr sync approx {} w)
    (hgood : ∀ v ∈ valuesOf ops, GoodVal cfg S node depth fuel v)
    (hok : ∀ es ∈ (arun approx {} (ops.map (VOp.toWOp (encD S node)) ++ [fin])).sealed,
      cntOf es < 2 ^ 63 ∧ (c.compress (bufOf es)).length < 2 ^ 63 ∧
        (bufOf es).length ≤ blockAllocCap) :
    let enc := encD S node
    let datum := de deExtModel cfg S fuel node depth false .any
    let run := wrun c dbg w (ops.map (VOp.toWOp enc) ++ [fin])
    let body := run.2.sink.data.drop hdr.length
    let N := (valuesOf ops).length
    run.1 = (ops.map (VOp.toWOp enc) ++ [fin]).map expected ∧
    (∃ blocks : List (List Spec.Value), blocks.flatten = valuesOf ops ∧ (∀ b ∈ blocks, b ≠ []) ∧
        run.2.sink.data = hdr ++ fileBodyC enc c sync blocks) ∧
    (readAll d datum (N + 1) (openSlice sync body)).1.map unborrow
        = (valuesOf ops).map (fun v => unborrow (obsD S node v)) ∧
    (readAll d datum (N + 1) (openSlice sync body)).2 = .eos := by
  intro enc datum run body N
  obtain ⟨hres, B, hBflat, hne, hB, hsink⟩ :=
    wrun_partition enc c dbg hdr sync approx ops fin hfin w h0
  rw [blocksBytes_eq_fileBodyC enc c hc] at hsink
  have hmem : ∀ b ∈ B, b.map (entryOfVal enc) ∈
      (arun approx {} (ops.map (VOp.toWOp enc) ++ [fin])).sealed := by
    intro b hb; rw [hB]; exact List.mem_map_of_mem hb
  have hbok : ∀ b ∈ B, BlockOkC enc c b := by
    intro b hb
    obtain ⟨h1, h2, _⟩ := hok _ (hmem b hb)
    rw [cntOf_map_entryOfVal] at h1
    rw [bufOf_map_entryOfVal] at h2
    constructor <;> (unfold Spec.InI64; omega)
  have hP0 : ∀ b ∈ B, Stream.KOk false blockAllocCap (plainReader (blockData enc b) 8192) := by
    intro b hb
    obtain ⟨_, _, h3⟩ := hok _ (hmem b hb)
    rw [bufOf_map_entryOfVal] at h3
    exact kOk_plainReader _ h3
  have hgoodB : ∀ v ∈ B.flatten, GoodVal cfg S node depth fuel v := by rw [hBflat]; exact hgood
  have hbody : body = fileBodyC enc c sync B := by
    show List.drop hdr.length (wrun c dbg w (ops.map (VOp.toWOp enc) ++ [fin])).2.sink.data = _
    rw [hsink, List.drop_left]
  have hN : N = B.flatten.length := by rw [hBflat]
  refine ⟨hres, ⟨B, hBflat, hne, hsink⟩, ?_⟩
  rw [hbody, hN, ← hBflat]
  exact readAll_validR hnn hns hL1 hsy
    (datumOkInv_of_cut enc (de_datumCutOk_reader cfg S node depth fuel blockAllocCap))
    (fun s h => h.back) B hbok hP0 hgoodB _ ⟨rfl, rfl, rfl, rfl, rfl, rfl⟩

/-- **C05 (write then read, abstract codec, the real datum deserializer).**  The statement of
    `C05_roundtrip_codec_file` with `datum := de deExtModel cfg S fuel node depth false .any`
    running on the decompressed block: the hypothesis `hok` is, as there, on every partition of the
    values into blocks (the writer chooses one) - count and compressed size fit an `i64` - and
    additionally asks every block to be at most `blockAllocCap` = 536870912 bytes long
    UNCOMPRESSED (see `C05_roundtrip_codec_real_sealed`, of which this is a corollary).  Values
    come back up to `unborrow`. -/
theorem C05_roundtrip_codec_real (c : Codec) (hc : c.isNull = false) (d : Decomp)
    (hnn : d.isNull = false) (hns : d.isSnappy = false)
    (hL1 : ∀ x, d.decompress (c.compress x) = some x)
    (cfg : DeConfig) (S : Schema) (node : Node) (depth fuel : Nat)
    (dbg : Bool) (hdr sync : Bytes) (hsy : sync.length = 16) (approx : Nat)
    (ops : List (VOp Spec.Value)) (fin : WOp)
    (hfin : fin = .finishBlock ∨ fin = .intoInner ∨ fin = .drop)
    (w : WState) (h0 : Rep c hdr sync approx {} w)
    (hgood : ∀ v ∈ valuesOf ops, GoodVal cfg S node depth fuel v)
    (hok : ∀ blocks : List (List Spec.Value), blocks.flatten = valuesOf ops →
      ∀ b ∈ blocks, BlockOkC (encD S node) c b ∧
        (blockData (encD S node) b).length ≤ blockAllocCap) :
    let enc := encD S node
    let datum := de deExtModel cfg S fuel node depth false .any
    let run := wrun c dbg w (ops.map (VOp.toWOp enc) ++ [fin])
    let body := run.2.sink.data.drop hdr.length
    let N := (valuesOf ops).length
    run.1 = (ops.map (VOp.toWOp enc) ++ [fin]).map expected ∧
    (∃ blocks : List (List Spec.Value), blocks.flatten = valuesOf ops ∧ (∀ b ∈ blocks, b ≠ []) ∧
        run.2.sink.data = hdr ++ fileBodyC enc c sync blocks) ∧
    (readAll d datum (N + 1) (openSlice sync body)).1.map unborrow
        = (valuesOf ops).map (fun v => unborrow (obsD S node v)) ∧
    (readAll d datum (N + 1) (openSlice sync body)).2 = .eos := by
  obtain ⟨_, B, hBflat, _, hB, _⟩ :=
    wrun_partition (encD S node) c dbg hdr sync approx ops fin hfin w h0
  refine C05_roundtrip_codec_real_sealed c hc d hnn hns hL1 cfg S node depth fuel dbg hdr sync hsy
    approx ops fin hfin w h0 hgood ?_
  intro es hes
  rw [hB] at hes
  obtain ⟨b, hb, rfl⟩ := List.mem_map.1 hes
  obtain ⟨⟨h1, h2⟩, h3⟩ := hok B hBflat b hb
  rw [cntOf_map_entryOfVal, bufOf_map_entryOfVal]
  unfold Spec.InI64 at h1 h2
  exact ⟨by omega, by omega, h3⟩

/-! ### 3. What the real serializer writes is `encD` -/

/-- The bytes the real serializer model appends for a presentation `sv` that it accepts are
    `encD S node v` for a value `v` the presentation denotes (`C01_ser_canonical`): the `write v`
    of the theorems above, `VOp.toWOp (encD S node) (.write v)`, is what a successful `serialize`
    call contributes to the block. -/
theorem C05_real_datum_bytes (f : Canon.Allow) (ext : Ext) (allowSlow : Bool)
    (S : Schema) (node : Node) (sv : SV) (s : SerState)
    (hok : (ser ext allowSlow S node sv s).1 = .ok ())
    (hs : Good s) (hS : SchemaOK S) (hnode : NodeOK S node) (hsv : svOK sv = true)
    (hext : ExtOK ext) (hcanon : Canon.svCanon f sv = true)
    (hallowS : ∀ (k : Nat) (n : Node), S[k]? = some n → Canon.nodeAllows f n = true)
    (hallowN : Canon.nodeAllows f node = true) :
    ∃ s' v, ser ext allowSlow S node sv s = (.ok (), s') ∧ s'.out = s.out ++ encD S node v ∧
      (Spec.encode S node v).isSome = true ∧
      Spec.denotes (denExtOf ext) S node sv v = true := by
  obtain ⟨s', v, bytes, hrun, hout, _, henc, hden⟩ :=
    C01_ser_canonical f ext allowSlow S node sv s hok hs hS hnode hsv hext hcanon hallowS hallowN
  exact ⟨s', v, hrun, by rw [hout, encD, henc]; rfl, by rw [henc]; rfl, hden⟩

/-! ### 4. Non-vacuity -/

namespace C05real
open C17stream
set_option linter.unusedSimpArgs false

/-- the null codec -/
def exCodec : Codec := { name := "null", compress := id, isNull := true }
/-- a header as `build_with_user_metadata` writes it -/
def exHdr : Bytes := headerBytes (Spec.utf8 "\"int\"") (Spec.utf8 "null") [] exSync
/-- a freshly built writer with `approx = 2`: a block is closed as soon as it holds 2 bytes -/
def exW : WState := { sync := exSync, approx := 2, sink := { data := exHdr } }
/-- three values that serialize (schema `int`), one that does not -/
def exOps : List (VOp Spec.Value) := [.write (.int 1), .write (.int 2), .fail, .write (.int 300)]

theorem ex_values : valuesOf exOps = [.int 1, .int 2, .int 300] := rfl

/-- the concrete writer model, run on the history closed by `into_inner`, leaves the header
    followed by the two-block file `exFile` of `C17stream.lean` (blocks `[1, 2]` and `[300]`) -/
theorem ex_sink :
    (wrun exCodec false exW (exOps.map (VOp.toWOp exEnc) ++ [.intoInner])).2.sink.data
      = exHdr ++ exFile := by
  rw [exFile_eq]
  simp [wrun, wstep, exOps, VOp.toWOp, exEnc1, exEnc2, exEnc300, withValue, flushFinishedBlock,
    finishBlock, innerFinishBlock, exW, exCodec, Ocf.blockData, writeAllVectored, advanceSlices,
    sinkFuel, Sink.writeCall, exVar1, exVar2, exBytes]

theorem exObs : [Spec.Value.int 1, .int 2, .int 300].map (obsD #[.int] .int)
    = [.i32 1, .i32 2, .i32 300] := by
  simp [obsD, Spec.observe]

theorem exGood' : ∀ v ∈ valuesOf exOps, GoodVal {} #[.int] .int 64 20 v := by
  rw [ex_values]; exact exGood

/-- **`C05_roundtrip_null_real` on the concrete run**: all its hypotheses are met (`rep_fresh`,
    `exGood`), and what comes back - from the slice, and from a streaming reader under every
    refill schedule - is 1, 2, 300, then end of stream. -/
theorem ex_roundtrip :
    let body := ((wrun exCodec false exW
      (exOps.map (VOp.toWOp exEnc) ++ [.intoInner])).2.sink.data).drop exHdr.length
    readAll exNull exDatum 4 (openSlice exSync body) = ([.i32 1, .i32 2, .i32 300], .eos) ∧
    ∀ (sched : List Nat) (lastChunk : Nat),
      (readAll exNull exDatum 4 (Stream.openReader exSync body sched lastChunk 40)).1.map unborrow
        = [.i32 1, .i32 2, .i32 300] ∧
      (readAll exNull exDatum 4 (Stream.openReader exSync body sched lastChunk 40)).2 = .eos := by
  intro body
  have h := C05_roundtrip_null_real exCodec rfl exNull rfl {} #[.int] .int 64 20 false exHdr exSync
    rfl 2 exOps .intoInner (Or.inr (Or.inl rfl)) exW (rep_fresh _ _ _ _) exGood'
    (by rw [ex_values]; decide)
    (by rw [ex_values]; show (blockData exEnc _).length < _
        simp [blockData, exEnc1, exEnc2, exEnc300])
  obtain ⟨_, _, hs, hr⟩ := h
  have hlen : body.length = 40 := by
    show (List.drop exHdr.length (wrun exCodec false exW
      (exOps.map (VOp.toWOp exEnc) ++ [.intoInner])).2.sink.data).length = 40
    rw [ex_sink, List.drop_left, exFile_eq]; rfl
  refine ⟨?_, fun sched lastChunk => ?_⟩
  · rw [← exObs]; exact hs
  · have := hr sched lastChunk 40 (by show body.length ≤ 40; omega)
    rw [ex_values] at this
    exact this

/-- a toy codec that is neither null nor snappy: one marker byte in front -/
def exCodecC : Codec := { name := "toy", compress := fun x => 0xFF :: x, isNull := false }
def exDecompC : Decomp :=
  { isNull := false, decompress := fun x => match x with | 0xFF :: y => some y | _ => none }

/-- law L1 for the toy codec -/
theorem exL1 : ∀ x, exDecompC.decompress (exCodecC.compress x) = some x := fun _ => rfl

/-- the blocks the abstract writer seals on this history -/
theorem ex_sealed :
    (arun 2 {} (exOps.map (VOp.toWOp exEnc) ++ [.intoInner])).sealed
      = [[([2], 1), ([4], 1)], [([0xD8, 0x04], 1)]] := by
  simp [arun, astep, asealIf, aseal, aadd, exOps, VOp.toWOp, exEnc1, exEnc2, exEnc300, bufOf, cntOf]

/-- **`C05_roundtrip_codec_real_sealed` on a concrete run** with the toy codec: the sink holds the
    two compressed blocks, and the real `de` on the decompressed blocks returns 1, 2, 300. -/
theorem ex_roundtrip_codec :
    let run := wrun exCodecC false exW (exOps.map (VOp.toWOp exEnc) ++ [.intoInner])
    run.2.sink.data = exHdr ++ fileBodyC exEnc exCodecC exSync exBlocks ∧
    (readAll exDecompC exDatum 4
        (openSlice exSync (run.2.sink.data.drop exHdr.length))).1.map unborrow
      = [.i32 1, .i32 2, .i32 300] ∧
    (readAll exDecompC exDatum 4
        (openSlice exSync (run.2.sink.data.drop exHdr.length))).2 = .eos := by
  intro run
  have h := C05_roundtrip_codec_real_sealed exCodecC rfl exDecompC rfl rfl exL1 {} #[.int] .int 64
    20 false exHdr exSync rfl 2 exOps .intoInner (Or.inr (Or.inl rfl)) exW (rep_fresh _ _ _ _)
    exGood'
    (by
      intro es hes
      have := ex_sealed
      rw [show encD #[.int] .int = exEnc from rfl, this] at hes
      simp only [List.mem_cons, List.not_mem_nil, or_false] at hes
      rcases hes with rfl | rfl <;> (simp [cntOf, bufOf, exCodecC, blockAllocCap]))
  obtain ⟨_, _, h1, h2⟩ := h
  refine ⟨?_, ?_, h2⟩
  · show (wrun exCodecC false exW (exOps.map (VOp.toWOp exEnc) ++ [.intoInner])).2.sink.data = _
    simp [wrun, wstep, exOps, VOp.toWOp, exEnc1, exEnc2, exEnc300, withValue, flushFinishedBlock,
      finishBlock, innerFinishBlock, exW, exCodecC, Ocf.blockData, writeAllVectored, advanceSlices,
      sinkFuel, Sink.writeCall, exVar1, exVar2, fileBodyC, blockBytesC, exBlocks, blockData]
  · rw [ex_values] at h1; exact h1

/-! `GoodVal` is satisfiable beyond scalars: the record of `C01glue.lean`,
    `R { a : array<long>, u : union { null, string } }`, value `R { a: [1, -3], u: "x" }`. -/

theorem vR_observe : Spec.observe Sx nodeR vR
    = some (.map [(.str "a" false, .seq [.i64 1, .i64 (-3)]), (.str "u" false, .str "x" true)]) := by
  have h1 : Sx[1]? = some (.array 2) := by decide
  have h2 : Sx[2]? = some .long := by decide
  have h3 : Sx[3]? = some (.union [4, 5]) := by decide
  have h5 : Sx[5]? = some .string := by decide
  simp [vR, nodeR, Spec.observe, Spec.observeFields, Spec.observeList, h1, h2, h3, h5]

theorem exGoodR : GoodVal {} Sx nodeR 64 100 vR :=
  ⟨by rw [vR_encode]; rfl, by rw [vR_observe]; rfl, by decide, by decide, by decide, by decide⟩

theorem exEncR : encD Sx nodeR vR = [4, 2, 5, 0, 2, 2, 120] := by rw [encD, vR_encode]; rfl

/-- `C05_roundtrip_null_real` on records, for an ARBITRARY fresh writer (any null codec, any header,
    any marker, any block size): the record written twice (a failing value in between) is read back
    twice - from the slice with the string borrowed, from a streaming reader up to `unborrow`. -/
theorem ex_roundtrip_record (c : Codec) (hc : c.isNull = true) (hdr sync : Bytes)
    (hsy : sync.length = 16) (approx : Nat) (w : WState) (h0 : Rep c hdr sync approx {} w) :
    let ops : List (VOp Spec.Value) := [.write vR, .fail, .write vR]
    let o : Out :=
      .map [(.str "a" false, .seq [.i64 1, .i64 (-3)]), (.str "u" false, .str "x" true)]
    let body := ((wrun c false w (ops.map (VOp.toWOp (encD Sx nodeR)) ++ [.drop])).2.sink.data).drop
      hdr.length
    readAll exNull (de deExtModel {} Sx 100 nodeR 64 false .any) 3 (openSlice sync body)
      = ([o, o], .eos) ∧
    ∀ (sched : List Nat) (lastChunk M : Nat), body.length ≤ M →
      (readAll exNull (de deExtModel {} Sx 100 nodeR 64 false .any) 3
        (Stream.openReader sync body sched lastChunk M)).1.map unborrow = [unborrow o, unborrow o] ∧
      (readAll exNull (de deExtModel {} Sx 100 nodeR 64 false .any) 3
        (Stream.openReader sync body sched lastChunk M)).2 = .eos := by
  intro ops o body
  have hv : valuesOf ops = [vR, vR] := rfl
  have ho : obsD Sx nodeR vR = o := by rw [obsD, vR_observe]; rfl
  have h := C05_roundtrip_null_real c hc exNull rfl {} Sx nodeR 64 100 false hdr sync hsy approx
    ops .drop (Or.inr (Or.inr rfl)) w h0
    (by rw [hv]; intro v hv'; simp only [List.mem_cons, List.not_mem_nil, or_false, or_self] at hv'
        subst hv'; exact exGoodR)
    (by rw [hv]; decide)
    (by rw [hv]; simp [blockData, exEncR])
  obtain ⟨_, _, hs, hr⟩ := h
  rw [hv] at hs hr
  simp only [List.map_cons, List.map_nil, ho] at hs hr
  exact ⟨hs, hr⟩

end C05real

end Avro.Theorems
