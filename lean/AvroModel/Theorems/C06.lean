import AvroModel.Theorems.C05
import AvroModel.Lemmas.OcfHeaderClassify
/-
C06: layout and interoperability of container files.

* `C06_layout`, `C06_layout_closed`: what the writer leaves in its sink is, for the independent
  parser of the specification, a complete container file: magic, a metadata map holding
  `avro.schema`, `avro.codec` and the user entries in that order, the 16-byte marker, then the
  blocks written, each closed by the header's marker (no bad marker, no trailing bytes).
* `C06_reads_any_partition`: the reader yields the same values however they are partitioned into
  blocks (another implementation may choose other block boundaries).
* `C06_header_any_order`, `C06_readHeader_perm`: the reader accepts the metadata entries in any
  order, with extra (user) keys, and with `avro.codec` absent (repaired defect D15).
-/
namespace Avro.Theorems
open Avro Avro.Impl Avro.Impl.Ocf Avro.C06

/-! ### 1. Layout of what the writer produces -/

/-- the two mandatory keys, as byte strings -/
def schemaKey : Bytes := "avro.schema".toUTF8.data.toList
def codecKey : Bytes := "avro.codec".toUTF8.data.toList

/-- The file the specification parser sees when the sink holds the writer's header and blocks. -/
theorem C06_parse_header_blocks (c : Codec) (schemaJson codecName : Bytes)
    (userMeta : List (Bytes × Bytes)) (sync : Bytes) (blocks : List (Nat × Bytes))
    (hsync : sync.length = 16)
    (hs : schemaJson.length < 2 ^ 63) (hcn : codecName.length < 2 ^ 63)
    (hu : ∀ e ∈ userMeta, e.1.length < 2 ^ 63 ∧ e.2.length < 2 ^ 63)
    (hb : ∀ b ∈ blocks, b.1 < 2 ^ 63 ∧ (codecData c b.2).length < 2 ^ 63) :
    Spec.Ocf.parse (headerBytes schemaJson codecName userMeta sync ++ blocksBytes c sync blocks) =
      some { metadata := (schemaKey, schemaJson) :: (codecKey, codecName) :: userMeta,
             sync := sync,
             blocks := blocks.map (fun b => { count := b.1, data := codecData c b.2 }),
             trailing := 0, badSync := false } := by
  obtain ⟨h1, h2⟩ := C15_header_parses schemaJson codecName userMeta sync hs hcn hu
  rw [h1]
  exact parse_file c _ sync _ blocks h2 hsync hb

/-- **C06 (layout).** After any history of calls (before `into_inner`) on a freshly built writer
    (its sink holds the header `headerBytes schemaJson codecName userMeta sync`), the sink parses,
    with the parser written from the specification, as a complete container file `v`:
    * `v.metadata` is `avro.schema ↦ schemaJson`, `avro.codec ↦ codecName`, then the user entries,
      in that order;
    * `v.sync` is the marker, every block is closed by that same marker (`badSync = false`) and
      nothing follows the last block (`trailing = 0`);
    * the blocks are those written: count = number of values, data = what the codec stored. -/
theorem C06_layout (c : Codec) (dbg : Bool) (schemaJson codecName : Bytes)
    (userMeta : List (Bytes × Bytes)) (sync : Bytes) (approx : Nat) (ops : List WOp)
    (hops : ∀ op ∈ ops, op ≠ .intoInner) (w : WState)
    (h0 : Rep c (headerBytes schemaJson codecName userMeta sync) sync approx {} w)
    (hsync : sync.length = 16)
    (hs : schemaJson.length < 2 ^ 63) (hcn : codecName.length < 2 ^ 63)
    (hu : ∀ e ∈ userMeta, e.1.length < 2 ^ 63 ∧ e.2.length < 2 ^ 63)
    (hb : ∀ b ∈ (arun approx {} ops).sealed,
      cntOf b < 2 ^ 63 ∧ (codecData c (bufOf b)).length < 2 ^ 63) :
    ∃ v : Spec.Ocf.View, Spec.Ocf.parse (wrun c dbg w ops).2.sink.data = some v ∧
      v.metadata = (schemaKey, schemaJson) :: (codecKey, codecName) :: userMeta ∧
      v.sync = sync ∧ v.badSync = false ∧ v.trailing = 0 ∧
      v.blocks = (arun approx {} ops).sealed.map
        (fun b => { count := cntOf b, data := codecData c (bufOf b) }) := by
  obtain ⟨hsink, _⟩ := C15_run_sink c dbg _ sync approx ops hops w h0
  rw [hsink, C06_parse_header_blocks c schemaJson codecName userMeta sync _ hsync hs hcn hu
    (by
      intro b hb'
      obtain ⟨es, hes, rfl⟩ := List.mem_map.1 hb'
      exact hb es hes)]
  refine ⟨_, rfl, rfl, rfl, rfl, rfl, ?_⟩
  simp [blockOf, List.map_map, Function.comp_def]

/-- **C06 (layout of a closed file).** The same after a history closed by `finish_block`,
    `into_inner` or `Drop`; then the blocks hold all the entries accepted, in order, and every
    block counts at least one value. -/
theorem C06_layout_closed (c : Codec) (dbg : Bool) (schemaJson codecName : Bytes)
    (userMeta : List (Bytes × Bytes)) (sync : Bytes) (approx : Nat) (ops : List WOp) (fin : WOp)
    (hfin : fin = .finishBlock ∨ fin = .intoInner ∨ fin = .drop)
    (hops : ∀ op ∈ ops, op ≠ .intoInner) (hpush : ∀ b k, WOp.push b k ∈ ops → 1 ≤ k) (w : WState)
    (h0 : Rep c (headerBytes schemaJson codecName userMeta sync) sync approx {} w)
    (hsync : sync.length = 16)
    (hs : schemaJson.length < 2 ^ 63) (hcn : codecName.length < 2 ^ 63)
    (hu : ∀ e ∈ userMeta, e.1.length < 2 ^ 63 ∧ e.2.length < 2 ^ 63)
    (hb : ∀ b ∈ (arun approx {} (ops ++ [fin])).sealed,
      cntOf b < 2 ^ 63 ∧ (codecData c (bufOf b)).length < 2 ^ 63) :
    ∃ (v : Spec.Ocf.View) (sealed : List (List Entry)),
      Spec.Ocf.parse (wrun c dbg w (ops ++ [fin])).2.sink.data = some v ∧
      v.metadata = (schemaKey, schemaJson) :: (codecKey, codecName) :: userMeta ∧
      v.sync = sync ∧ v.badSync = false ∧ v.trailing = 0 ∧
      v.blocks = sealed.map (fun b => { count := cntOf b, data := codecData c (bufOf b) }) ∧
      sealed.flatten = ops.flatMap entryOf ∧ (∀ b ∈ sealed, 0 < cntOf b) := by
  obtain ⟨_, hsink⟩ := wrun_closed_sink c dbg _ sync approx ops fin hfin hops w h0
  obtain ⟨_, hflat⟩ := C15_run_finished approx ops fin hfin hpush
  have hpos : SealedPos (arun approx {} (ops ++ [fin])) :=
    arun_sealedPos approx {} _ (by intro b hb; simp at hb)
  rw [hsink, C06_parse_header_blocks c schemaJson codecName userMeta sync _ hsync hs hcn hu
    (by
      intro b hb'
      obtain ⟨es, hes, rfl⟩ := List.mem_map.1 hb'
      exact hb es hes)]
  refine ⟨_, (arun approx {} (ops ++ [fin])).sealed, rfl, rfl, rfl, rfl, rfl, ?_, hflat, hpos⟩
  simp [blockOf, List.map_map, Function.comp_def]

/-! ### 2. The reader does not depend on the block boundaries -/

/-- **C06 (any partition into blocks).** Null codec, slice back-end: two files holding the same
    values partitioned differently into blocks (as two implementations, or two block-size
    settings, would write them) read as the same values, then end of stream. -/
theorem C06_reads_any_partition {V : Type} (enc : V → Bytes) (d : Decomp)
    (datum : RState → Except DeErr V × RState) (sync : Bytes)
    (hn : d.isNull = true) (hsy : sync.length = 16) (hd : DatumOk enc datum)
    (blocks₁ blocks₂ : List (List V)) (heq : blocks₁.flatten = blocks₂.flatten)
    (h1 : ∀ b ∈ blocks₁, BlockOk enc b) (h2 : ∀ b ∈ blocks₂, BlockOk enc b) :
    readAll d datum (blocks₁.flatten.length + 1) (openSlice sync (fileBody enc sync blocks₁))
      = readAll d datum (blocks₂.flatten.length + 1) (openSlice sync (fileBody enc sync blocks₂)) ∧
    readAll d datum (blocks₁.flatten.length + 1) (openSlice sync (fileBody enc sync blocks₁))
      = (blocks₁.flatten, .eos) := by
  have e1 := readAll_valid enc hn hsy hd blocks₁ h1 (openSlice sync (fileBody enc sync blocks₁))
    ⟨rfl, rfl, rfl, rfl, rfl, rfl⟩
  have e2 := readAll_valid enc hn hsy hd blocks₂ h2 (openSlice sync (fileBody enc sync blocks₂))
    ⟨rfl, rfl, rfl, rfl, rfl, rfl⟩
  exact ⟨by rw [e1, e2, heq], e1⟩

/-- In particular one block holding everything reads like any other partition (empty blocks
    included: a block of count 0 and size 0 is legal and skipped). -/
theorem C06_reads_single_block {V : Type} (enc : V → Bytes) (d : Decomp)
    (datum : RState → Except DeErr V × RState) (sync : Bytes)
    (hn : d.isNull = true) (hsy : sync.length = 16) (hd : DatumOk enc datum)
    (blocks : List (List V)) (h1 : ∀ b ∈ blocks, BlockOk enc b) (h2 : BlockOk enc blocks.flatten) :
    readAll d datum (blocks.flatten.length + 1) (openSlice sync (fileBody enc sync blocks))
      = readAll d datum (blocks.flatten.length + 1)
          (openSlice sync (fileBody enc sync [blocks.flatten])) := by
  have := (C06_reads_any_partition enc d datum sync hn hsy hd blocks [blocks.flatten] (by simp) h1
    (by intro b hb; simp at hb; subst hb; exact h2)).1
  simpa using this

/-! ### 3. The header is accepted with its entries in any order

`readHeader` = magic, the metadata map decoded by the datum deserializer on `map<bytes>`
(`metaDe`, a hypothesis here: `hm`), then `headerTail` = `classify` on the decoded entries and the
16-byte marker (`Lemmas/OcfHeaderClassify.lean`, `readHeader_eq`).  What is proved is about
everything after the map is decoded; relating `metaDe` on given bytes to the entry list (the map
decoding of `deAny`: blocks, negative counts, key/value reads) is not part of these statements. -/

/-- two results of `readHeader` that agree up to the order of the user metadata -/
def HeaderRel : Except InitErr Header → Except InitErr Header → Prop
  | .error e₁, .error e₂ => e₁ = e₂
  | .ok h₁, .ok h₂ =>
    h₁.schemaJson = h₂.schemaJson ∧ h₁.codec = h₂.codec ∧ h₁.sync = h₂.sync ∧
      h₁.userMeta.Perm h₂.userMeta
  | _, _ => False

/-- the pure part: entries that are permutations of each other, followed by the same marker, give
    the same header up to the order of the user metadata (or are both rejected) -/
theorem headerTail_perm (kv₁ kv₂ : List (Bytes × Bytes)) (s₁ s₂ : RState) (hperm : kv₁.Perm kv₂)
    (hsync : ∀ b, (∃ t, readExact 16 s₁ = (.ok b, t)) ↔ (∃ t, readExact 16 s₂ = (.ok b, t))) :
    HeaderRel (headerTail kv₁ s₁).1 (headerTail kv₂ s₂).1 := by
  unfold headerTail
  rcases classify_perm hperm with ⟨h1, h2⟩ | ⟨sj, cn, u₁, u₂, h1, h2, hu⟩
  · rw [h1, h2]; rfl
  · rw [h1, h2]
    simp only
    generalize hx₁ : readExact 16 s₁ = x₁ at hsync
    generalize hx₂ : readExact 16 s₂ = x₂ at hsync
    obtain ⟨r₁, t₁⟩ := x₁
    obtain ⟨r₂, t₂⟩ := x₂
    cases r₁ with
    | error e₁ =>
      cases r₂ with
      | error e₂ => rfl
      | ok b₂ =>
        obtain ⟨t, ht⟩ := (hsync b₂).2 ⟨t₂, rfl⟩
        cases ht
    | ok b₁ =>
      cases r₂ with
      | error e₂ =>
        obtain ⟨t, ht⟩ := (hsync b₁).1 ⟨t₁, rfl⟩
        cases ht
      | ok b₂ =>
        obtain ⟨t, ht⟩ := (hsync b₁).1 ⟨t₁, rfl⟩
        cases ht
        exact ⟨rfl, rfl, rfl, hu⟩

/-- **C06 (`readHeader_perm`).** Two sources whose metadata maps decode to entry lists that are
    permutations of each other (as byte strings), and whose markers read alike, give the same
    `schemaJson`, `codec` and `sync`, and user metadata that are permutations of each other — or
    are both rejected with the same error. -/
theorem C06_readHeader_perm (src₁ src₂ s₁ s₂ s₁' s₂' : RState) (e₁ e₂ : List (Out × Out))
    (h41 : readExact 4 src₁ = (.ok [0x4F, 0x62, 0x6A, 0x01], s₁))
    (h42 : readExact 4 src₂ = (.ok [0x4F, 0x62, 0x6A, 0x01], s₂))
    (hm1 : metaDe s₁ = (.ok (.map e₁), s₁')) (hm2 : metaDe s₂ = (.ok (.map e₂), s₂'))
    (hperm : (kvOf e₁).Perm (kvOf e₂))
    (hsync : ∀ b, (∃ t, readExact 16 s₁' = (.ok b, t)) ↔ (∃ t, readExact 16 s₂' = (.ok b, t))) :
    HeaderRel (readHeader src₁).1 (readHeader src₂).1 := by
  rw [readHeader_eq src₁ s₁ s₁' e₁ h41 hm1, readHeader_eq src₂ s₂ s₂' e₂ h42 hm2]
  exact headerTail_perm _ _ _ _ hperm hsync

/-- the marker reads alike on two slices with the same remaining bytes -/
theorem readExact_slice_same_rest (k : Nat) (s₁ s₂ : RState) (hs1 : s₁.isSlice = true)
    (hs2 : s₂.isSlice = true) (hl1 : s₁.limit = none) (hl2 : s₂.limit = none)
    (hr : s₁.rest = s₂.rest) (b : Bytes) :
    (∃ t, readExact k s₁ = (.ok b, t)) ↔ (∃ t, readExact k s₂ = (.ok b, t)) := by
  constructor
  · rintro ⟨t, ht⟩
    have hk := readExact_slice_ok hs1 hl1 ht
    rw [readExact_slice hs1 hl1 hk] at ht
    rw [hr] at hk
    rw [readExact_slice hs2 hl2 hk]
    simp only [Prod.mk.injEq, Except.ok.injEq] at ht
    exact ⟨_, by rw [← hr, ht.1]⟩
  · rintro ⟨t, ht⟩
    have hk := readExact_slice_ok hs2 hl2 ht
    rw [readExact_slice hs2 hl2 hk] at ht
    rw [← hr] at hk
    rw [readExact_slice hs1 hl1 hk]
    simp only [Prod.mk.injEq, Except.ok.injEq] at ht
    exact ⟨_, by rw [hr, ht.1]⟩

/-- **C06 (`readHeader_perm`, slice back-end).** The entries decoded are permutations of each
    other (as `Out` trees: any order of the same keys and values) and the map decoders leave the
    same remaining bytes. -/
theorem C06_readHeader_perm_slice (src₁ src₂ s₁ s₂ s₁' s₂' : RState) (e₁ e₂ : List (Out × Out))
    (h41 : readExact 4 src₁ = (.ok [0x4F, 0x62, 0x6A, 0x01], s₁))
    (h42 : readExact 4 src₂ = (.ok [0x4F, 0x62, 0x6A, 0x01], s₂))
    (hm1 : metaDe s₁ = (.ok (.map e₁), s₁')) (hm2 : metaDe s₂ = (.ok (.map e₂), s₂'))
    (hperm : e₁.Perm e₂)
    (hs1 : s₁'.isSlice = true) (hs2 : s₂'.isSlice = true)
    (hl1 : s₁'.limit = none) (hl2 : s₂'.limit = none) (hr : s₁'.rest = s₂'.rest) :
    HeaderRel (readHeader src₁).1 (readHeader src₂).1 :=
  C06_readHeader_perm src₁ src₂ s₁ s₂ s₁' s₂' e₁ e₂ h41 h42 hm1 hm2 (kvOf_perm hperm)
    (readExact_slice_same_rest 16 s₁' s₂' hs1 hs2 hl1 hl2 hr)

/-- **C06 (the header is accepted in any order, with extra keys, with the codec absent).**
    Whatever the order of the decoded entries `kv`: if exactly one of them has the key
    `avro.schema` (its value valid UTF-8) and none has the key `avro.codec`, the header is
    accepted with codec `"null"` (D15 repaired) and all the other entries as user metadata. -/
theorem C06_header_any_order_no_codec (src s s' s'' : RState) (entries : List (Out × Out))
    (sj sync : Bytes) (str : String)
    (h4 : readExact 4 src = (.ok [0x4F, 0x62, 0x6A, 0x01], s))
    (hm : metaDe s = (.ok (.map entries), s'))
    (hs : (kvOf entries).filter (·.1 = schemaKey) = [(schemaKey, sj)])
    (hutf : bytesToStr? sj = some str)
    (hc : (kvOf entries).filter (·.1 = codecKey) = [])
    (h16 : readExact 16 s' = (.ok sync, s'')) :
    readHeader src =
      (.ok { schemaJson := sj, codec := "null", sync := sync,
             userMeta := (kvOf entries).filter fun e => e.1 ≠ schemaKey ∧ e.1 ≠ codecKey }, s'') := by
  rw [readHeader_eq src s s' entries h4 hm]
  unfold headerTail
  rw [classify_no_codec (kvOf entries) sj str hs hutf hc]
  simp only [h16]
  rfl

/-- … and if exactly one has the key `avro.codec`, naming a known codec, that codec. -/
theorem C06_header_any_order (src s s' s'' : RState) (entries : List (Out × Out))
    (sj cv sync : Bytes) (str cn : String)
    (h4 : readExact 4 src = (.ok [0x4F, 0x62, 0x6A, 0x01], s))
    (hm : metaDe s = (.ok (.map entries), s'))
    (hs : (kvOf entries).filter (·.1 = schemaKey) = [(schemaKey, sj)])
    (hutf : bytesToStr? sj = some str)
    (hc : (kvOf entries).filter (·.1 = codecKey) = [(codecKey, cv)])
    (hcn : bytesToStr? cv = some cn) (hk : knownCodecs.contains cn = true)
    (h16 : readExact 16 s' = (.ok sync, s'')) :
    readHeader src =
      (.ok { schemaJson := sj, codec := cn, sync := sync,
             userMeta := (kvOf entries).filter fun e => e.1 ≠ schemaKey ∧ e.1 ≠ codecKey }, s'') := by
  rw [readHeader_eq src s s' entries h4 hm]
  unfold headerTail
  rw [classify_codec (kvOf entries) sj cv str cn hs hutf hc hcn hk]
  simp only [h16]
  rfl

/-- Conversely a header that is accepted had exactly one `avro.schema` entry, at most one
    `avro.codec` entry, and a known codec. -/
theorem C06_header_accepted (src s s' t : RState) (entries : List (Out × Out)) (h : Header)
    (h4 : readExact 4 src = (.ok [0x4F, 0x62, 0x6A, 0x01], s))
    (hm : metaDe s = (.ok (.map entries), s'))
    (hok : readHeader src = (.ok h, t)) :
    (∃ k, (kvOf entries).filter (·.1 = schemaKey) = [(k, h.schemaJson)]) ∧
      ((kvOf entries).filter (·.1 = codecKey)).length ≤ 1 ∧
      knownCodecs.contains h.codec = true ∧
      (((kvOf entries).filter (·.1 = codecKey)) = [] → h.codec = "null") ∧
      h.userMeta = (kvOf entries).filter fun e => e.1 ≠ schemaKey ∧ e.1 ≠ codecKey := by
  rw [readHeader_eq src s s' entries h4 hm] at hok
  unfold headerTail at hok
  cases hcl : classify (kvOf entries) with
  | none => rw [hcl] at hok; cases hok
  | some x =>
    obtain ⟨sj, cn, u⟩ := x
    rw [hcl] at hok
    simp only at hok
    obtain ⟨h1, _, h3, h4', h5, h6⟩ := classify_some hcl
    generalize readExact 16 s' = y at hok
    obtain ⟨r, t'⟩ := y
    cases r with
    | error e => cases hok
    | ok b =>
      simp only [Prod.mk.injEq, Except.ok.injEq] at hok
      obtain ⟨rfl, _⟩ := hok
      refine ⟨h1, h3, h5, ?_, h6⟩
      intro hnil
      have : codecsOf (kvOf entries) = [] := hnil
      rw [this] at h4'
      simp only [codecOf, Option.some.injEq] at h4'
      exact h4'.symm

end Avro.Theorems
