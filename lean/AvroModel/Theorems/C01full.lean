import AvroModel.Theorems.C01
import AvroModel.Theorems.C01de
import AvroModel.Theorems.C02
import AvroModel.Theorems.C01glue
import AvroModel.Theorems.C01driver
/-
C01 — the datum round trip, all parts together:
* `C02_sound_partial` (Theorems/C02.lean): what the implementation's serializer writes decodes,
  under the specification, to a value `v` the presentation denotes;
* `C01_spec_roundtrip`: the specification decoder inverts the specification encoder;
* `C01_de_accepts` (Theorems/C01de.lean): on the canonical specification encoding of `v` the
  implementation's deserializer delivers exactly `observe v` and consumes exactly the encoding.
The glue step "the bytes `ser` writes ARE the canonical encoding `Spec.encode v`" is
`C01_ser_canonical` (Theorems/C01glue.lean) and the composed statement over the implementation is
`C01_roundtrip_impl`: serialize, then deserialize the written bytes with the untyped target, gives
`observe v` for a `v` the presentation denotes.  Two presentations write a legal but NOT canonical
layout and are excluded by explicit hypotheses with proved counterexamples: a sequence/map whose
advertised length is smaller than its element count (one extra block per surplus element), and a
negative integer presented to a bytes-backed decimal (sign bytes not stripped).  For those the
round trip still holds by C02 + the all-layouts theorem of C03 (`C03_de_refines_spec`).
-/
