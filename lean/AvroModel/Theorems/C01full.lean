import AvroModel.Theorems.C01
import AvroModel.Theorems.C01de
import AvroModel.Theorems.C02
/-
C01 — the datum round trip, all parts together:
* `C02_sound_partial` (Theorems/C02.lean): what the implementation's serializer writes decodes,
  under the specification, to a value `v` the presentation denotes;
* `C01_spec_roundtrip`: the specification decoder inverts the specification encoder;
* `C01_de_accepts` (Theorems/C01de.lean): on the canonical specification encoding of `v` the
  implementation's deserializer delivers exactly `observe v` and consumes exactly the encoding.
What is not closed in Lean is the last glue step "the bytes `ser` writes ARE the canonical
encoding `Spec.encode v`" (C02 gives: they decode to `v`; canonical form follows because `ser`
writes one block per sequence and minimal varints, which the `rt` stream checks on every case
together with the composed statement).
-/
