import AvroModel.Lemmas.SchemaRender
/-
C19: freezing, fingerprinting (Parsing Canonical Form) or rendering as JSON *any* node vector
(dangling keys, empty graph, cycles through named or unnamed nodes, shared nodes, arbitrary
logical-type annotations and names), and the cycle check of the parser, return `Ok` or `Err`:
no panic, no unbounded recursion, no infinite loop.

The model's recursive functions take a `fuel` and return `.error .panic` when it runs out; the
theorems give explicit fuel bounds (functions of the node vector only) above which this marker
is never returned, and show that the result no longer depends on the fuel from there on.
`NP r` abbreviates `r ≠ .error .panic`.

* `pcfBound S   = S.size * (S.size + 1) * (maxWidth S + 1) + 1` (the same as `renderBound S`):
  the generation guard of the canonical-form writer.  `onPath` maps an unnamed key being written
  to the generation (`written.length + 1`) at which it was entered; meeting it again is an error
  only in that same generation, otherwise it is entered again.  Potential `pcfMeasure`:
  `Σ_{j < S.size}` of `[j ∉ written]` for a named node `j`, and of
  `free + 1 - [cell j = generation]` for any other `j`, where `free` is the number of indices
  `< S.size` not in `written` (≥ the number of generations still to come).  Writing a named node
  not yet in `written` uses up its own term and lowers `free`; entering an unnamed key needs
  `cell ≠ generation` and sets `cell := generation`; restoring the cell after the body does not
  bring the potential above its value before the entry since `written` only grows.  The
  potential is at most `S.size * (S.size + 1)` in *every* state, and a list traversal spends one
  unit per element.  (The *number of steps* can be exponential with shared unnamed nodes; fuel
  bounds depth and width only, sibling calls reuse it.)
* `renderBound S = S.size * (S.size + 1) * (maxWidth S + 1) + 1`: the generation-counter guard.
  Potential `Σ_{j < S.size} (S.size + 2 - max (cell j + 1) nWritten)`: entering an unnamed key
  needs `cell < nWritten` and sets `cell := nWritten`; writing a named key sets its cell and
  increments `nWritten`; both decrease the potential because `nWritten ≤ S.size + 1`
  (`nWritten + #unwritten named nodes` never grows); releasing a cell (`:= 0`) after the body
  does not bring the potential above its value before the entry since `nWritten` only grows.
* `check_for_cycles`: `(S.size + 1) * (maxWidth S + 1)` suffices for each inner call, the model
  uses `(S.size + 2) * (maxWidth S + 2)`.
-/
namespace Avro.Theorems
open Avro Avro.Impl

/-! ### 6. fuel monotonicity -/

/-- One more unit of fuel does not change a result that is not "out of fuel": canonical form. -/
theorem C19_pcf_fuel_mono (S : SchemaMut) (fuel : Nat) :
    (∀ key st, pcf S fuel key st ≠ .error .panic → pcf S (fuel + 1) key st = pcf S fuel key st) ∧
    (∀ ks first st, pcfList S fuel ks first st ≠ .error .panic →
      pcfList S (fuel + 1) ks first st = pcfList S fuel ks first st) ∧
    (∀ fs first st, pcfFields S fuel fs first st ≠ .error .panic →
      pcfFields S (fuel + 1) fs first st = pcfFields S fuel fs first st) :=
  pcf_fuel_mono_aux S fuel

/-- … JSON regeneration. -/
theorem C19_render_fuel_mono (S : SchemaMut) (fuel : Nat) :
    (∀ key ns st, render S fuel key ns st ≠ .error .panic →
      render S (fuel + 1) key ns st = render S fuel key ns st) ∧
    (∀ ks ns st, renderList S fuel ks ns st ≠ .error .panic →
      renderList S (fuel + 1) ks ns st = renderList S fuel ks ns st) ∧
    (∀ fs ns st, renderFields S fuel fs ns st ≠ .error .panic →
      renderFields S (fuel + 1) fs ns st = renderFields S fuel fs ns st) :=
  render_fuel_mono_aux S fuel

/-- Hence any larger fuel. -/
theorem C19_pcf_fuel_mono_le (S : SchemaMut) (fuel fuel' key : Nat) (st : PcfState)
    (h : pcf S fuel key st ≠ .error .panic) (hle : fuel ≤ fuel') :
    pcf S fuel' key st = pcf S fuel key st := by
  induction hle with
  | refl => rfl
  | step _ ih =>
    rw [(pcf_fuel_mono_aux S _).1 key st (by rw [ih]; exact h), ih]

theorem C19_render_fuel_mono_le (S : SchemaMut) (fuel fuel' key : Nat) (ns : Option String)
    (st : RenderState) (h : render S fuel key ns st ≠ .error .panic) (hle : fuel ≤ fuel') :
    render S fuel' key ns st = render S fuel key ns st := by
  induction hle with
  | refl => rfl
  | step _ ih =>
    rw [(render_fuel_mono_aux S _).1 key ns st (by rw [ih]; exact h), ih]

/-! ### 7. the canonical form is total -/

/-- For **every** node vector, the Parsing Canonical Form writer returns `Ok` or a proper error
    as soon as `fuel ≥ pcfBound S`. -/
theorem C19_pcf_total (S : SchemaMut) (fuel : Nat) (h : pcfBound S ≤ fuel) :
    canonicalForm S fuel ≠ .error .panic :=
  canonicalForm_NP S fuel h

/-- … and its result does not depend on the fuel from there on. -/
theorem C19_pcf_stable (S : SchemaMut) (fuel : Nat) (h : pcfBound S ≤ fuel) :
    canonicalForm S fuel = canonicalForm S (pcfBound S) := by
  unfold canonicalForm
  rw [C19_pcf_fuel_mono_le S (pcfBound S) fuel 0 {} (pcf_total S _ (Nat.le_refl _) 0) h]

/-- The general form: from any state, with the explicit potential `pcfMeasure` of the generation
    guard (see the header; no invariant on the state is needed). -/
theorem C19_pcf_total_state (S : SchemaMut) (fuel key : Nat) (st : PcfState)
    (h : pcfMeasure S st * (maxWidth S + 1) + 1 ≤ fuel) : pcf S fuel key st ≠ .error .panic :=
  (pcf_total_aux S fuel).1 key st _ (Nat.le_refl _) h

/-- … in particular `pcfBound S` suffices from every state, not only the initial one. -/
theorem C19_pcf_total_any_state (S : SchemaMut) (fuel key : Nat) (st : PcfState)
    (h : pcfBound S ≤ fuel) : pcf S fuel key st ≠ .error .panic :=
  pcf_total_st S fuel h key st

/-- The only errors of the canonical-form writer are `custom` ones. -/
theorem C19_pcf_errors (S : SchemaMut) (fuel : Nat) (h : pcfBound S ≤ fuel) (e : SchemaErr)
    (he : canonicalForm S fuel = .error e) : e = .custom := by
  have hnp := C19_pcf_total S fuel h
  unfold canonicalForm at he hnp
  cases hr : pcf S fuel 0 {} with
  | error e' =>
    rw [hr] at he hnp
    cases he
    rcases (pcf_cop_aux S fuel).1 0 {} e hr with rfl | rfl
    · rfl
    · exact absurd rfl hnp
  | ok p => rw [hr] at he; cases he

/-! ### 7b. the generation guard of the canonical form: what is refused, what is not -/

/-- `enter_unnamed`: if `pcf` is (re-)entered on an array/map/union key whose cell holds the
    current generation (no named type was written since the node was entered), it fails. -/
theorem C19_pcf_reenter (S : SchemaMut) (fuel k : Nat) (st : PcfState)
    (hu : isUnnamedKey S k = true) (hg : st.cell k = st.gen) :
    pcf S (fuel + 1) k st = .error .custom :=
  pcf_reenter S fuel k st hu hg

/-- Direct cases, every fuel ≥ 3: an array / map / union that is its own child, and the two-node
    cycle array → map → array. -/
theorem C19_pcf_unnamed_cycle_err (fuel : Nat) (h : 3 ≤ fuel) :
    canonicalForm #[⟨.array 0, none⟩] fuel = .error .custom ∧
    canonicalForm #[⟨.map 0, none⟩] fuel = .error .custom ∧
    canonicalForm #[⟨.union [0], none⟩] fuel = .error .custom ∧
    canonicalForm #[⟨.array 1, none⟩, ⟨.map 0, none⟩] fuel = .error .custom := by
  obtain ⟨n, rfl⟩ : ∃ n, fuel = n + 3 := ⟨fuel - 3, by omega⟩
  refine ⟨?_, ?_, ?_, ?_⟩ <;>
    simp [canonicalForm, pcf_succ, pcfStep, pcfUnnamed, mapOk, andThen, pcfList_cons, List.lookup]

/-- General statement: if the root belongs to a set of keys in which every member is an array,
    map or union with a child in the set (a cycle through unnamed nodes only, or a path into
    one), there is no canonical form: an error — for every sufficient fuel. -/
theorem C19_pcf_unnamed_cycle_err_general (S : SchemaMut) (C : Nat → Prop)
    (hC : UnnamedClosed S C) (h0 : C 0) (fuel : Nat) (hf : pcfBound S ≤ fuel) :
    canonicalForm S fuel = .error .custom := by
  cases hr : canonicalForm S fuel with
  | error e => rw [C19_pcf_errors S fuel hf e hr]
  | ok text =>
    unfold canonicalForm at hr
    cases hp : pcf S fuel 0 {} with
    | error e => rw [hp] at hr; cases hr
    | ok st => exact absurd hp (pcf_unnamed_cycle_not_ok S C hC fuel 0 {} st h0)

/-- … and it never succeeds, whatever the fuel. -/
theorem C19_pcf_unnamed_cycle_never_ok (S : SchemaMut) (C : Nat → Prop) (hC : UnnamedClosed S C)
    (h0 : C 0) (fuel : Nat) (text : String) : canonicalForm S fuel ≠ .ok text := by
  unfold canonicalForm
  cases hp : pcf S fuel 0 {} with
  | error e => intro h; cases h
  | ok st => exact absurd hp (pcf_unnamed_cycle_not_ok S C hC fuel 0 {} st h0)

/-- A cycle that goes through a named type is **not** refused: the array is met again while
    being written, but the record `R` was written in between, so the array is entered again and
    `R` is then written by reference. -/
theorem C19_pcf_cycle_through_named_ok (fuel : Nat) (h : 5 ≤ fuel) :
    canonicalForm #[⟨.array 1, none⟩, ⟨.record ⟨"R", "R", none⟩ [("f", 0)], none⟩] fuel =
      .ok "{\"type\":\"array\",\"items\":{\"name\":\"R\",\"type\":\"record\",\"fields\":[{\"name\":\"f\",\"type\":{\"type\":\"array\",\"items\":\"R\"}}]}}" := by
  obtain ⟨n, rfl⟩ : ∃ n, fuel = n + 5 := ⟨fuel - 5, by omega⟩
  simp [canonicalForm, pcf_succ, pcfStep, pcfUnnamed, pcfNamed, mapOk, andThen, pcfFields_cons,
    pcfFields_nil, List.lookup]

/-! ### 8. JSON regeneration is total -/

/-- For **every** node vector, the JSON regeneration returns `Ok` or a proper error as soon as
    `fuel ≥ renderBound S` (full generation-counter argument, unnamed cycles included). -/
theorem C19_render_total (S : SchemaMut) (fuel : Nat) (h : renderBound S ≤ fuel) :
    renderJson S fuel ≠ .error .panic :=
  renderJson_NP S fuel h

theorem C19_render_stable (S : SchemaMut) (fuel : Nat) (h : renderBound S ≤ fuel) :
    renderJson S fuel = renderJson S (renderBound S) := by
  unfold renderJson
  rw [C19_render_fuel_mono_le S (renderBound S) fuel 0 none {}
    (render_total S _ (Nat.le_refl _) 0 none) h]

/-- The general form: from any state satisfying the invariant of the traversal
    (`1 ≤ nWritten`, `nWritten + #unwritten named nodes ≤ S.size + 1`). -/
theorem C19_render_total_state (S : SchemaMut) (fuel key : Nat) (ns : Option String)
    (st : RenderState) (hI : RInv S st) (h : renderPot S st * (maxWidth S + 1) + 1 ≤ fuel) :
    render S fuel key ns st ≠ .error .panic :=
  (render_total_aux S fuel).1 key ns st _ hI (Nat.le_refl _) h

/-- The only errors of the regeneration are `custom` ones. -/
theorem C19_render_errors (S : SchemaMut) (fuel : Nat) (h : renderBound S ≤ fuel) (e : SchemaErr)
    (he : renderJson S fuel = .error e) : e = .custom := by
  have hnp := C19_render_total S fuel h
  unfold renderJson at he hnp
  cases hr : render S fuel 0 none {} with
  | error e' =>
    rw [hr] at he hnp
    cases he
    rcases (render_cop_aux S fuel).1 0 none {} e hr with rfl | rfl
    · rfl
    · exact absurd rfl hnp
  | ok p => rw [hr] at he; cases he

/-! ### 9. `check_for_cycles` is total -/

/-- The parser's cycle check never runs out of fuel, for every node vector (a dangling key is
    not a record and has no fields: it is simply skipped). -/
theorem C19_cyclecheck_total (S : SchemaMut) : checkForCycles S ≠ .error .panic := by
  rw [checkForCycles_eq]
  apply checkForCyclesF_total
  exact Nat.mul_le_mul (by omega) (by omega)

/-- Parametric form: any fuel `≥ (S.size + 1) * (maxWidth S + 1)` for the inner calls. -/
theorem C19_cyclecheck_total_fuel (S : SchemaMut) (F : Nat)
    (hF : (S.size + 1) * (maxWidth S + 1) ≤ F) : checkForCyclesF S F ≠ .error .panic :=
  checkForCyclesF_total S F hF

/-- Why the former fuel `2 * S.size + 2` of the model was not enough (a model artefact, not a
    defect of the crate): one record with seven fields of type `int`. -/
example :
    let S : SchemaMut := #[⟨.record ⟨"R", "R", none⟩
      [("a", 1), ("b", 1), ("c", 1), ("d", 1), ("e", 1), ("f", 1), ("g", 1)], none⟩, ⟨.int, none⟩]
    checkForCyclesF S (2 * S.size + 2) = .error .panic := by
  simp [checkForCyclesF, checkForCyclesF.go, cycleInner_succ, cycleFields_cons, isRecord,
    recordFieldKeys, mapOk]
  rfl

/-! ### 10. freezing -/

/-- `TryFrom<SchemaMut> for Schema` returns `Ok` or a proper error for every node vector. -/
theorem C19_freeze_total (S : SchemaMut) (kept : Bool) (fuel : Nat)
    (h : max (pcfBound S) (renderBound S) ≤ fuel) : freeze S kept fuel ≠ .error .panic :=
  freeze_NP S kept fuel (by omega) (by omega)

/-- A frozen schema is usable: non-empty, same number of nodes, every child key in bounds. -/
theorem C19_frozen_usable (S : SchemaMut) (kept : Bool) (fuel : Nat) (F : Schema)
    (h : freeze S kept fuel = .ok F) : F.keysInBounds = true ∧ F.size = S.size ∧ 0 < F.size := by
  obtain ⟨rfl, hne, hk⟩ := freeze_ok S kept fuel F h
  refine ⟨freezeNodes_keysInBounds S hk, ?_, ?_⟩
  · simp [freezeNodes]
  · simp only [freezeNodes, Array.size_map]; omega

/-- The empty graph is refused, whatever the fuel. -/
theorem C19_freeze_empty (kept : Bool) (fuel : Nat) : freeze #[] kept fuel = .error .custom := rfl

end Avro.Theorems
