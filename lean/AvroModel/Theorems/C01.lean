import AvroModel.Lemmas.SpecRoundTrip
import AvroModel.Lemmas.Varint
import AvroModel.Impl.Ser
/-
C01 — datum round trip.

Proved here, for every schema graph (cyclic or not), node, conforming value and trailing bytes:
the specification's decoder inverts the specification's encoder (`C01_spec_roundtrip`), and the
implementation's varint writer / reader are the specification's on the whole i64 range
(`C01_varint_*`).  The statements that tie the *implementation's* serializer and deserializer to
the specification codec are C02 (`Theorems/C02.lean`: what `ser` writes is a specification
encoding of what the presentation denotes) and C03/C11 (`de` on either back-end); their
composition for the presentations of DESIGN.md section 8 is stated below as
`C01_roundtrip_statement` and is *not yet proved in full* (partial): the correspondence stream
`rt` judges it on every generated case with the executable oracle
`decode ∘ ser`, `denotes`, `observe`.
-/
namespace Avro.Theorems
open Avro Avro.Spec Avro.Impl

/-- decode (encode v ++ rest) = (v, rest), with the explicit fuel `Spec.size v`. -/
theorem C01_spec_roundtrip (S : Schema) (n : Node) (v : Value) (enc rest : Bytes)
    (h : Spec.encode S n v = some enc) (fuel : Nat) (hf : Spec.size v ≤ fuel) :
    Spec.decode S fuel n (enc ++ rest) = some (v, rest) :=
  Spec.decode_encode S n v enc rest h fuel hf

/-- The crate's `i64::encode_var` is the specification's zig-zag varint on the whole range. -/
theorem C01_varint_encode (i : Int) (h : Spec.InI64 i) : Impl.encodeVarI64 i = Spec.encodeLong i :=
  encodeVarI64_eq_spec i h

/-- … and `i64::decode_var` inverts it, consuming exactly the encoding. -/
theorem C01_varint_roundtrip (i : Int) (h : Spec.InI64 i) (rest : Bytes) :
    Impl.decodeVarI64 (Impl.encodeVarI64 i ++ rest) = some (i, (Impl.encodeVarI64 i).length) :=
  decodeVarI64_encode i h rest

/-- The bit-level zig-zag of the implementation (two's complement `BitVec 64`, including
    `i64::MIN` / `i64::MAX`) is the arithmetic zig-zag of the specification. -/
theorem C01_zigzag_bits (i : Int) (h : Spec.InI64 i) :
    (Impl.zigzagBV (BitVec.ofInt 64 i)).toNat = Spec.zigzag i := zigzagBV_toNat i h

/-- Full statement (kept visible; proved so far only through its parts and judged on samples). -/
def C01_roundtrip_statement : Prop :=
  ∀ (ext : Ext) (S : Schema) (n : Node) (sv : SV) (o : Bytes) (p : Pool),
    (ser ext false S n sv { out := o, budget := none, pool := p }).1 = .ok () →
    ∃ bytes, (ser ext false S n sv { out := o, budget := none, pool := p }).2.out = o ++ bytes ∧
      ∃ v fuel, Spec.decode S fuel n bytes = some (v, [])

/-- Non-vacuity: the hypothesis `encode … = some enc` is met by a non-trivial value
    (a union branch holding an array of longs). -/
example :
    (Spec.encode #[.union [1, 2], .null, .array 3, .long] (.union [1, 2])
      (.union 1 (.array [.long 1, .long (-3)]))).isSome = true := by
  simp [Spec.encode, Spec.encodeItems, Spec.nodeOf, Spec.InI64]

end Avro.Theorems
