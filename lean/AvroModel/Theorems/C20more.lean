import AvroModel.Theorems.C20fits
import AvroModel.Lemmas.DeriveMore
import AvroModel.Lemmas.DeriveGeneric
import AvroModel.Lemmas.DeriveNames
/-
C20, more.

Part 1 — `UnionNames` from the program text.  `C20_fits_unions` assumes `UnionNames P s`, a
statement about the *built* schema (each variant's serde name selects its own branch by name).
Here it is derived from a decidable condition on the program text:

* `variantNames P v`: the names under which the branch built for variant `v` is registered in
  the by-name table of the union — `["Null"]` for a unit variant, `branchNames` of the payload
  type for a newtype variant (`Lemmas/DeriveMore.lean`: `"Int"`, `"Long"`, …, `"Array"`, `"Map"`,
  `"Union"`; for a record, a unit-only enum or a `[u8; N]` newtype the short name and the
  fullname of `Name.ofFq (typeName d)` resp. `Name.ofFq (ownedName d .newtypeStruct "")`, i.e. the
  part after the last dot and the whole; for `[u8; N]` itself those of `u8_array_N`).
* `UnionNamesText P`: for every union enum and every variant, the variant's `serdeName` is one of
  the names of its own branch, and *no other* variant of the enum builds a branch registered under
  that name.  (For a unit variant the first part says `serdeName = "Null"`.)
* `UnionNamesTextLast P`: the same with "no *later* variant" — all that `namedLookup` (last
  registration wins) needs; `UnionNamesText` implies it.
* `C20_unionNames_of_text`, `C20_fits_unions_text`.

The fragment is that of `FitWfU` (`variantOk`): payloads without logical-type attribute that are
not `[u8; N]` as written in the variant (a `[u8; N]` payload would own a `fixed` named
`ownedName d (.newtypeVariant v.ident) ""`; `FitWfU` and hence these theorems do not cover it).

Part 2 — generic records in `C20_fits`: `C20_fits_generic` for the fragment `FitWfG`
(`Lemmas/DeriveGeneric.lean`), see the section below; `FitWf_toG`: `FitWfG` extends `FitWf`.
-/
namespace Avro.Theorems
open Avro Avro.Impl Avro.Impl.Derive Avro.Theorems.DeriveFits

/-! ### The condition on the program text -/

/-- Names under which the union branch built for variant `v` is registered. -/
def variantNames (P : Prog) (v : Variant) : Option (List String) :=
  match v.field with
  | none => some ["Null"]
  | some fd => branchNames P (P.size + 1) fd.ty

/-- The variant's serde name is a name of its own branch. -/
def variantOwn (P : Prog) (v : Variant) : Bool :=
  match variantNames P v with
  | some L => L.contains v.serdeName
  | none => false

/-- The branch of variant `w` is not registered under `name`. -/
def variantFree (P : Prog) (name : String) (w : Variant) : Bool :=
  match variantNames P w with
  | some L => !L.contains name
  | none => false

/-- `earlier` are the variants before the ones listed. -/
def unionText (P : Prog) : List Variant → List Variant → Bool
  | _, [] => true
  | earlier, v :: rest =>
    variantOwn P v && (earlier ++ rest).all (variantFree P v.serdeName) &&
      unionText P (earlier ++ [v]) rest

def unionTextLast (P : Prog) : List Variant → Bool
  | [] => true
  | v :: rest => variantOwn P v && rest.all (variantFree P v.serdeName) && unionTextLast P rest

/-- For every enum that maps to a union and every variant: the serde name is a lookup name of the
    variant's own branch and of no other variant's branch. -/
def UnionNamesText (P : Prog) : Bool :=
  P.all fun d => match d.body with
    | .union vs => unionText P [] vs
    | _ => true

/-- … and of no later variant's branch. -/
def UnionNamesTextLast (P : Prog) : Bool :=
  P.all fun d => match d.body with
    | .union vs => unionTextLast P vs
    | _ => true

theorem unionText_last (P : Prog) : ∀ (vs earlier : List Variant), unionText P earlier vs = true →
    unionTextLast P vs = true
  | [], _, _ => rfl
  | v :: rest, earlier, h => by
    simp only [unionText, Bool.and_eq_true, List.all_append] at h
    simp only [unionTextLast, Bool.and_eq_true]
    exact ⟨⟨h.1.1, h.1.2.2⟩, unionText_last P rest _ h.2⟩

theorem UnionNamesText.toLast {P : Prog} (h : UnionNamesText P = true) : UnionNamesTextLast P = true := by
  simp only [UnionNamesText, UnionNamesTextLast, Array.all_eq_true] at h ⊢
  intro i hi
  have := h i hi
  cases hb : P[i].body <;> simp only [hb] at this ⊢
  exact unionText_last P _ _ this

theorem unionTextLast_index (P : Prog) : ∀ (vs : List Variant), unionTextLast P vs = true →
    ∀ (j : Nat) (v : Variant), vs[j]? = some v →
      variantOwn P v = true ∧
        ∀ (l : Nat) (w : Variant), j < l → vs[l]? = some w → variantFree P v.serdeName w = true
  | [], _, j, v, hj => by simp at hj
  | x :: rest, h, 0, v, hj => by
    simp only [List.getElem?_cons_zero, Option.some.injEq] at hj
    subst hj
    simp only [unionTextLast, Bool.and_eq_true, List.all_eq_true] at h
    refine ⟨h.1.1, fun l w hl hw => ?_⟩
    cases l with
    | zero => omega
    | succ l => exact h.1.2 w (List.mem_of_getElem? (by simpa using hw))
  | x :: rest, h, j + 1, v, hj => by
    simp only [unionTextLast, Bool.and_eq_true] at h
    obtain ⟨h1, h2⟩ := unionTextLast_index P rest h.2 j v (by simpa using hj)
    refine ⟨h1, fun l w hl hw => ?_⟩
    cases l with
    | zero => omega
    | succ l => exact h2 l w (by omega) (by simpa using hw)

/-- The fullname is always among the names of a named branch (a non-empty name that does not
    start with a dot is its own fullname; `Name.ofFq` splits at the last dot). -/
theorem fullname_mem_nmNames {s : String} (h : DeriveNames.okStart s = true) :
    (nmNames (Name.ofFq s)).contains s = true := by
  have := DeriveNames.fqOf_eq h
  unfold DeriveNames.fqOf at this
  simp [nmNames, this]

/-- A variant whose payload is (a pointer to) a declared record and whose serde name is the
    record's fullname `typeName d` names its own branch. -/
theorem variantOwn_record_fullname {P : Prog} {v : Variant} {fd : Field} {id : Nat} {args : List Ty}
    {d : Decl} {fs : List Field} (hf : v.field = some fd) (hp : Derive.peel fd.ty = .named id args)
    (hd : P[id]? = some d) (hb : d.body = .record fs) (hs : v.serdeName = typeName d)
    (hok : DeriveNames.okStart (typeName d) = true) : variantOwn P v = true := by
  unfold variantOwn variantNames
  rw [hf]
  dsimp only
  unfold branchNames
  simp only [hp, hd, hb, hs]
  exact fullname_mem_nmNames hok

/-! ### From the text to the built schema -/

/-- The final builder state satisfies both invariants. -/
theorem builderState_inv {P : Prog} {hash : Key → String} {fuel : Nat} {root : Ty} {s : BState}
    (hbuild : builderState P hash fuel root = some s) (hwf : FitWfU P root = true) :
    Inv P [] s ∧ NameInv P s := by
  unfold builderState at hbuild
  cases hf : findOrBuild P hash fuel root {} with
  | none => simp [hf] at hbuild
  | some r =>
    obtain ⟨c, s'⟩ := r
    simp only [hf, Option.map_some, Option.some.injEq] at hbuild
    subst hbuild
    obtain ⟨hinv, _⟩ :=
      (builder_specs (hash := hash) (FitWfU_decls hwf) fuel).1 root {} c s' [] (FitWfU_root hwf) (Inv.empty P) hf
    exact ⟨hinv, (name_specs (hash := hash) (FitWfU_decls hwf) fuel).1 root {} c s' [] (FitWfU_root hwf)
      (Inv.empty P) (NameInv.empty P) hf⟩

/-- **`UnionNames` from the program text.**  For a program of the fragment `FitWfU` that satisfies
    `UnionNamesTextLast`, the final builder state satisfies `UnionNames`. -/
theorem C20_unionNames_of_textLast (P : Prog) (hash : Key → String) (fuel : Nat) (root : Ty) (s : BState)
    (htext : UnionNamesTextLast P = true) (hwf : FitWfU P root = true)
    (hbuild : builderState P hash fuel root = some s) : UnionNames P s := by
  obtain ⟨hinv, hn⟩ := builderState_inv hbuild hwf
  have hP := FitWfU_decls hwf
  have hdone : ∀ k i, Reg s k i → Done P s k i := fun k i h => by
    rcases hinv.done k i h with h' | h'
    · cases h'
    · exact h'
  intro id d vs i ks hd hb hreg hnode j v hj
  -- the text condition for this enum
  have htx : unionTextLast P vs = true := by
    simp only [UnionNamesTextLast, Array.all_eq_true] at htext
    obtain ⟨hlt, rfl⟩ := Array.getElem?_eq_some_iff.mp hd
    have := htext id hlt
    simpa [hb] using this
  -- the union node
  have hdn := hdone _ _ hreg
  simp only [Done, KeyNode, hd, hb] at hdn
  obtain ⟨ks', hnode', hlen, hall⟩ := hdn
  have hks : ks' = ks := by
    rw [hnode] at hnode'
    simpa [plain] using hnode'.symm
  subst hks
  have hvok : ∀ w ∈ vs, variantOk P w = true := by
    have := hP id d hd
    simp only [declOk, hb, Bool.true_and, Bool.and_eq_true, decide_eq_true_eq, List.all_eq_true] at this
    exact this.2
  -- the names of every branch
  have hbranch : ∀ (l : Nat) (w : Variant) (L : List String), vs[l]? = some w →
      variantNames P w = some L →
      ∃ n, (branchNodes (freezeNodes s.nodes) ks')[l]? = some n ∧ n.lookupNames = L := by
    intro l w L hl hL
    have hlt : l < ks'.length := by
      rw [hlen]
      rcases Nat.lt_or_ge l vs.length with h | h
      · exact h
      · rw [List.getElem?_eq_none h] at hl; cases hl
    have hc : ks'[l]? = some ks'[l] := List.getElem?_eq_getElem hlt
    refine ⟨frozenAt s ks'[l], by simp [branchNodes, hc, frozenAt], ?_⟩
    have hcv := hall l w ks'[l] hl hc
    have hw := hvok w (List.mem_of_getElem? hl)
    unfold variantOk at hw
    unfold variantNames at hL
    cases hf : w.field with
    | none =>
      rw [hf] at hcv hL
      have hnc : s.nodes[ks'[l]]? = some (plain .null) := hdone _ _ hcv
      rw [frozenAt_plain hnc]
      simpa [freezeNode, plain, Node.lookupNames] using hL
    | some fd =>
      rw [hf] at hcv hL hw
      obtain ⟨k, hk, hr⟩ := hcv
      simp only [plainFieldOk, Bool.and_eq_true] at hw
      exact branchNames_spec hP hinv hn _ fd.ty k _ L hL hw.1.2 hk hr
  obtain ⟨hown, hfree⟩ := unionTextLast_index P vs htx j v hj
  unfold variantOwn at hown
  cases hL : variantNames P v with
  | none => simp [hL] at hown
  | some L =>
    simp only [hL] at hown
    obtain ⟨n, hnj, hnL⟩ := hbranch j v L hj hL
    refine ⟨namedLookup_at hnj (by rw [hnL]; exact hown) (fun l m hl hm => ?_), fun hf => ?_⟩
    · have hlv : l < vs.length := by
        have : l < (branchNodes (freezeNodes s.nodes) ks').length := by
          rcases Nat.lt_or_ge l (branchNodes (freezeNodes s.nodes) ks').length with h | h
          · exact h
          · rw [List.getElem?_eq_none h] at hm; cases hm
        simpa [branchNodes, hlen] using this
      have hw : vs[l]? = some vs[l] := List.getElem?_eq_getElem hlv
      have hfr := hfree l _ hl hw
      unfold variantFree at hfr
      cases hL' : variantNames P vs[l] with
      | none => simp [hL'] at hfr
      | some L' =>
        simp only [hL'] at hfr
        obtain ⟨n', hn', hnL'⟩ := hbranch l _ L' hw hL'
        rw [hm] at hn'
        cases hn'
        rw [hnL']
        simpa using hfr
    · simp only [variantNames, hf, Option.some.injEq] at hL
      subst hL
      simpa using hown

/-- **`UnionNames` from the program text** (the condition with "no other variant"). -/
theorem C20_unionNames_of_text (P : Prog) (hash : Key → String) (fuel : Nat) (root : Ty) (s : BState)
    (htext : UnionNamesText P = true) (hwf : FitWfU P root = true)
    (hbuild : builderState P hash fuel root = some s) : UnionNames P s :=
  C20_unionNames_of_textLast P hash fuel root s (UnionNamesText.toLast htext) hwf hbuild

/-- **C20 (fits), with enums that map to unions, hypothesis on the program text.**  For a
    program of the fragment `FitWfU` that satisfies `UnionNamesText`, every value of the root
    type serializes under the derived schema. -/
theorem C20_fits_unions_text (ext : Avro.Impl.Ext) (P : Prog) (hash : Key → String) (fuel : Nat) (root : Ty)
    (s : BState) (f : Nat) (sv : SV)
    (hbuild : builderState P hash fuel root = some s) (hwf : FitWfU P root = true)
    (hnames : UnionNamesText P = true) (hs : hasShape P f root sv = true) :
    schemaMut P hash fuel root = some s.nodes ∧
    (ser ext false (freezeNodes s.nodes) ((freezeNodes s.nodes)[0]!) sv {}).1 = .ok () :=
  C20_fits_unions ext P hash fuel root s f sv hbuild hwf
    (C20_unionNames_of_text P hash fuel root s hnames hwf hbuild) hs

/-- The same from `schemaMut` (`T::schema_mut()`) directly. -/
theorem C20_fits_unions_text' (ext : Avro.Impl.Ext) (P : Prog) (hash : Key → String) (fuel : Nat) (root : Ty)
    (Sm : SchemaMut) (f : Nat) (sv : SV)
    (hbuild : schemaMut P hash fuel root = some Sm) (hwf : FitWfU P root = true)
    (hnames : UnionNamesText P = true) (hs : hasShape P f root sv = true) :
    (ser ext false (freezeNodes Sm) ((freezeNodes Sm)[0]!) sv {}).1 = .ok () := by
  rw [schemaMut_eq_builderState] at hbuild
  cases hb : builderState P hash fuel root with
  | none => simp [hb] at hbuild
  | some s =>
    simp only [hb, Option.map_some, Option.some.injEq] at hbuild
    subst hbuild
    exact (C20_fits_unions_text ext P hash fuel root s f sv hb hwf hnames hs).2

/-! ### Non-vacuity (part 1)

`enum E { #[serde(rename = "Null")] Nothing, #[serde(rename = "String")] S(String),
#[serde(rename = "m.Rec")] R(Rec) }` with `struct Rec { x: i32 }` in module `m`. -/

def unionProg : Prog := #[
  { ident := "Rec", modulePath := "m", body := .record [{ name := "x", ty := .i32 }] },
  { ident := "E", modulePath := "m", body := .union [
      { ident := "Nothing", serdeName := "Null", field := none },
      { ident := "S", serdeName := "String", field := some { name := "0", ty := .string } },
      { ident := "R", serdeName := "m.Rec", field := some { name := "0", ty := .named 0 [] } } ] } ]

theorem unionProg_text : UnionNamesText unionProg = true := by decide +kernel

theorem unionProg_fitWfU : FitWfU unionProg (.vec (.named 1 [])) = true := by decide +kernel

/-- The short name works as well as the fullname; a name of another branch does not. -/
example : UnionNamesText (unionProg.modify 1 fun d => { d with body := .union [
      { ident := "Nothing", serdeName := "Null", field := none },
      { ident := "S", serdeName := "String", field := some { name := "0", ty := .string } },
      { ident := "R", serdeName := "Rec", field := some { name := "0", ty := .named 0 [] } } ] }) = true := by
  decide +kernel

example : UnionNamesText (unionProg.modify 1 fun d => { d with body := .union [
      { ident := "Nothing", serdeName := "Null", field := none },
      { ident := "S", serdeName := "String", field := some { name := "0", ty := .string } },
      { ident := "T", serdeName := "String", field := some { name := "0", ty := .ptr .str } } ] }) = false := by
  decide +kernel

/-- The schema is built, and values of each variant are values of the type. -/
example : (schemaMut unionProg (fun _ => "") 30 (.vec (.named 1 []))).isSome = true := by decide +kernel

example : hasShape unionProg 5 (.vec (.named 1 [])) (.seq (some 3) [
    .unitVariant "E" 0 "Null",
    .newtypeVariant "E" 1 "String" (.str "a"),
    .newtypeVariant "E" 2 "m.Rec" (.struct "Rec" [("x", .int .i32 7)])]) = true := by decide +kernel

/-- Every value of `Vec<E>` serializes under the derived schema. -/
example (ext : Avro.Impl.Ext) (hash : Key → String) (fuel : Nat) (Sm : SchemaMut) (f : Nat) (sv : SV)
    (hbuild : schemaMut unionProg hash fuel (.vec (.named 1 [])) = some Sm)
    (hs : hasShape unionProg f (.vec (.named 1 [])) sv = true) :
    (ser ext false (freezeNodes Sm) ((freezeNodes Sm)[0]!) sv {}).1 = .ok () :=
  C20_fits_unions_text' ext unionProg hash fuel _ Sm f sv hbuild unionProg_fitWfU unionProg_text hs

/-! ## Part 2 — generic records

`FitWfG` (`Lemmas/DeriveGeneric.lean`) extends `FitWf` (`FitWf_toG`) with generic record
declarations (`nparams > 0`): a type `.named id args` for a generic record takes `nparams` closed
argument types of the fragment (generic instantiations included); the fields of a generic record
are as those of a non-generic one (`fieldOkG`), plain fields having types of the fragment over the
record's parameters (`.param i`, also below `Vec`/`Option`/maps/pointers and as arguments of other
generic records); `Option<T>` needs `T` plain whatever the instantiation, so not a bare
parameter.  The builder substitutes the arguments and names the record
`typeName d ++ "_" ++ hash key`; `hasShape` and `Realizes` (`Lemmas/DeriveFits.lean`, which already
carries the arguments through `subst`) substitute too.  Two instantiations with the same lookup
type (`Pair<i32>`, `Pair<&i16>`) share a node: that the shared node realizes both rests on the
token lists of `lookupKey` being prefix codes (`DeriveG.Coded`, `flatten_unique`).  No hypothesis
on `hash`.  Not covered: generic newtypes and generic union enums. -/

open Avro.Theorems.DeriveG in
theorem FitWfG_decls {P : Prog} {root : Ty} (h : FitWfG P root = true) :
    ∀ (id : Nat) (d : Decl), P[id]? = some d → declOkG P d = true := by
  simp only [FitWfG, Bool.and_eq_true, Array.all_eq_true] at h
  intro id d hd
  obtain ⟨hlt, rfl⟩ := Array.getElem?_eq_some_iff.mp hd
  exact h.1 id hlt

open Avro.Theorems.DeriveG in
theorem FitWfG_root {P : Prog} {root : Ty} (h : FitWfG P root = true) : tyOkG P 0 root = true := by
  simp only [FitWfG, Bool.and_eq_true] at h
  exact h.2

open Avro.Theorems.DeriveG in
/-- For a program of the fragment `FitWfG`, the schema `schema_mut()` builds for the root type
    realizes it at node 0, to every depth. -/
theorem C20_schema_realizes_generic (P : Prog) (hash : Key → String) (fuel : Nat) (root : Ty) (Sm : SchemaMut)
    (hbuild : schemaMut P hash fuel root = some Sm) (hwf : FitWfG P root = true) :
    0 < (freezeNodes Sm).size ∧ ∀ f, Realizes P (freezeNodes Sm) f root 0 := by
  unfold schemaMut at hbuild
  cases hf : findOrBuild P hash fuel root {} with
  | none => simp [hf] at hbuild
  | some r =>
    obtain ⟨c, s'⟩ := r
    simp only [hf, Option.map_some, Option.some.injEq] at hbuild
    subst hbuild
    obtain ⟨rfl, hsz⟩ := findOrBuild_empty_idx hf
    obtain ⟨hinv, _, key, hkey, hreg⟩ :=
      (DeriveG.builder_specs (hash := hash) (FitWfG_decls hwf) fuel).1 root {} 0 s' [] (FitWfG_root hwf)
        (DeriveG.Inv.empty P) hf
    exact ⟨by rw [freezeNodes_size]; exact hsz,
      fun f => DeriveG.realizes_of_inv (FitWfG_decls hwf) hinv f root key 0 (FitWfG_root hwf) hkey hreg⟩

/-- **C20 (fits), with generic records.**  For a program of the fragment `FitWfG`, every value of
    the root type serializes under the schema derived for it. -/
theorem C20_fits_generic (ext : Avro.Impl.Ext) (P : Prog) (hash : Key → String) (fuel : Nat) (root : Ty)
    (Sm : SchemaMut) (f : Nat) (sv : SV)
    (hbuild : schemaMut P hash fuel root = some Sm) (hwf : DeriveG.FitWfG P root = true)
    (hs : hasShape P f root sv = true) :
    (ser ext false (freezeNodes Sm) ((freezeNodes Sm)[0]!) sv {}).1 = .ok () := by
  obtain ⟨hsz, hr⟩ := C20_schema_realizes_generic P hash fuel root Sm hbuild hwf
  have hnode : (freezeNodes Sm)[0]? = some ((freezeNodes Sm)[0]!) := by
    simp [getElem!_pos, hsz]
  obtain ⟨st', h, _⟩ := C20_fits_given_realizes ext false P (freezeNodes Sm) f root 0 sv _ hnode (hr f) hs
    {} rfl PoolClean.empty
  rw [h]

/-! ### `FitWfG` extends `FitWf` -/

section toG
open Avro.Theorems.DeriveG
variable {P : Prog}

theorem nonOpt_toG : ∀ (n : Nat) (t : Ty), nonOpt P n t = true → nonOptG P n t = true := by
  intro n
  induction n with
  | zero => intro t h; simp [nonOpt] at h
  | succ n ih =>
    intro t h
    unfold nonOpt at h
    unfold nonOptG
    generalize Derive.peel t = u at h
    cases u with
    | named id args =>
      simp only [Bool.and_eq_true, List.isEmpty_iff] at h
      obtain ⟨rfl, h⟩ := h
      cases hd : P[id]? with
      | none => simp [hd] at h
      | some d =>
        simp only [hd] at h ⊢
        cases hb : d.body with
        | newtype fd =>
          simp only [hb, Bool.and_eq_true] at h ⊢
          refine ⟨⟨rfl, h.1⟩, ?_⟩
          split
          · rename_i hdir; simp only [hdir, if_true] at h; exact ih _ h.2
          · rename_i hdir; simpa [hdir] using h.2
        | record fs => rfl
        | unitEnum vs => rfl
        | union vs => simp [hb] at h
    | _ => first | exact h | rfl

variable (hP : ∀ (id : Nat) (d : Decl), P[id]? = some d → declOk false P d = true)
include hP

theorem tyOk_toG : ∀ t : Ty, tyOk P t = true → tyOkG P 0 t = true
  | .vec t, h => by rw [tyOkG]; exact tyOk_toG t (by simpa [tyOk] using h)
  | .hashMap t, h => by rw [tyOkG]; exact tyOk_toG t (by simpa [tyOk] using h)
  | .btreeMap t, h => by rw [tyOkG]; exact tyOk_toG t (by simpa [tyOk] using h)
  | .ptr t, h => by rw [tyOkG]; exact tyOk_toG t (by simpa [tyOk] using h)
  | .option t, h => by
    rw [tyOkG]
    simp only [tyOk, Bool.and_eq_true] at h ⊢
    exact ⟨tyOk_toG t h.1, nonOpt_toG _ t h.2⟩
  | .named id args, h => by
    simp only [tyOk, Bool.and_eq_true, List.isEmpty_iff, decide_eq_true_eq] at h
    obtain ⟨rfl, hid⟩ := h
    have hd : P[id]? = some P[id] := Array.getElem?_eq_getElem hid
    have hdok := hP id _ hd
    rw [tyOkG]
    simp only [hd, tysOkG, Bool.and_true]
    have : isGenRec P[id] = false := by
      unfold isGenRec
      cases hb : P[id].body <;> simp only [Bool.and_false]
      simp only [declOk, hb, Bool.and_eq_true, decide_eq_true_eq] at hdok
      simp [hdok.1.1]
    simp [this]
  | .param i, h => by simp [tyOk] at h
  | .unit, _ | .bool, _ | .i8, _ | .i16, _ | .i32, _ | .i64, _ | .u16, _ | .u32, _ | .u64, _ | .usize, _
  | .f32, _ | .f64, _ | .string, _ | .str, _ | .byteVec, _ | .byteSlice, _ | .byteArray _, _ => by
    simp [tyOkG]

theorem declOk_toG (d : Decl) (h : declOk false P d = true) : declOkG P d = true := by
  unfold declOk at h
  unfold declOkG
  cases hb : d.body with
  | record fs =>
    simp only [hb, Bool.and_eq_true, decide_eq_true_eq, List.all_eq_true] at h ⊢
    obtain ⟨⟨hn, hname⟩, hfs⟩ := h
    refine ⟨hname, ?_⟩
    rw [hn]
    intro fd hfd
    have := hfs fd hfd
    simp only [fieldOk, fieldOkG, plainFieldOk, plainFieldOkG, Bool.or_eq_true, Bool.and_eq_true] at this ⊢
    rcases this with ⟨h1, h2⟩ | h'
    · exact .inl ⟨h1, tyOk_toG hP fd.ty h2⟩
    · exact .inr h'
  | newtype fd =>
    simp only [hb, Bool.and_eq_true, decide_eq_true_eq, plainFieldOk, plainFieldOkG] at h ⊢
    obtain ⟨⟨hname, hl, hty⟩, hrest⟩ := h
    refine ⟨⟨hname, hl, tyOk_toG hP fd.ty hty⟩, ?_⟩
    split
    · rename_i hdir; simp only [hdir, if_true] at hrest; exact nonOpt_toG _ _ hrest
    · rename_i hdir; simpa [hdir] using hrest
  | unitEnum vs => rfl
  | union vs => simp [hb] at h

end toG

/-- The fragment of `C20_fits` is part of the fragment with generic records. -/
theorem FitWf_toG {P : Prog} {root : Ty} (h : FitWf P root = true) : DeriveG.FitWfG P root = true := by
  have hd := FitWf_decls h
  simp only [FitWf, Bool.and_eq_true] at h
  simp only [DeriveG.FitWfG, Bool.and_eq_true, Array.all_eq_true]
  exact ⟨fun i hi => declOk_toG hd _ (hd i _ (Array.getElem?_eq_getElem hi)), tyOk_toG hd root h.2⟩

/-! ### Non-vacuity (part 2)

`struct Pair<T> { a: T, b: Vec<T> }` instantiated with `i32`, with `String`, and (below
`Option<Box<_>>`) with `Pair<&i16>` — whose lookup type coincides with that of `Pair<i32>` —
inside `struct Root`. -/

def genericProg : Prog := #[
  { ident := "Pair", nparams := 1, modulePath := "m", body := .record [
      { name := "a", ty := .param 0 }, { name := "b", ty := .vec (.param 0) } ] },
  { ident := "Root", modulePath := "m", body := .record [
      { name := "ints", ty := .named 0 [.i32] },
      { name := "strs", ty := .named 0 [.string] },
      { name := "nested", ty := .option (.ptr (.named 0 [.named 0 [.ptr .i16]])) } ] } ]

theorem genericProg_fitWfG : DeriveG.FitWfG genericProg (.named 1 []) = true := by decide +kernel

/-- It is not in the fragment without generics. -/
example : FitWf genericProg (.named 1 []) = false := by decide +kernel

/-- The schema is built (three record nodes `m.Pair_<hash>`; `Pair<&i16>` reuses `Pair<i32>`). -/
example : ((schemaMut genericProg DeriveNames.hashDemo 30 (.named 1 [])).map (·.size)) = some 11 := by
  decide +kernel

example : hasShape genericProg 8 (.named 1 []) (.struct "Root" [
    ("ints", .struct "Pair" [("a", .int .i32 1), ("b", .seq (some 2) [.int .i32 2, .int .i32 3])]),
    ("strs", .struct "Pair" [("a", .str "x"), ("b", .seq (some 0) [])]),
    ("nested", .some (.struct "Pair" [
      ("a", .struct "Pair" [("a", .int .i16 1), ("b", .seq (some 0) [])]),
      ("b", .seq (some 0) [])]))]) = true := by decide +kernel

/-- Every value of `Root` serializes under the derived schema. -/
example (ext : Avro.Impl.Ext) (hash : Key → String) (fuel : Nat) (Sm : SchemaMut) (f : Nat) (sv : SV)
    (hbuild : schemaMut genericProg hash fuel (.named 1 []) = some Sm)
    (hs : hasShape genericProg f (.named 1 []) sv = true) :
    (ser ext false (freezeNodes Sm) ((freezeNodes Sm)[0]!) sv {}).1 = .ok () :=
  C20_fits_generic ext genericProg hash fuel _ Sm f sv hbuild genericProg_fitWfG hs

/-- Fields with logical-type attributes in a generic record:
    `struct Stamped<T> { #[avro_schema(logical_type = "timestamp-millis")] at: i64,
    #[avro_schema(logical_type = "duration")] lease: [u8; 12], v: HashMap<String, T> }`,
    instantiated with `Pair<f64>` inside `struct Log { log: Vec<Stamped<Pair<f64>>> }`. -/
def genericProgL : Prog := #[
  { ident := "Pair", nparams := 1, modulePath := "m", body := .record [
      { name := "a", ty := .param 0 }, { name := "b", ty := .vec (.param 0) } ] },
  { ident := "Log", modulePath := "m", body := .record [
      { name := "log", ty := .vec (.named 2 [.named 0 [.f64]]) } ] },
  { ident := "Stamped", nparams := 1, modulePath := "m", body := .record [
      { name := "at", ty := .i64, attr := { logical := some "timestamp-millis" } },
      { name := "lease", ty := .byteArray 12, attr := { logical := some "duration" } },
      { name := "v", ty := .hashMap (.param 0) } ] } ]

open Avro.Theorems.DeriveG in
theorem genericProgL_fitWfG : FitWfG genericProgL (.named 1 []) = true := by
  have k1 : known (pascal "timestamp-millis") = some .timestampMillis := by decide
  have k2 : known (pascal "duration") = some .duration := by decide
  simp [FitWfG, genericProgL, declOkG, fieldOkG, plainFieldOkG, tyOkG, tysOkG, isGenRec, Derive.peel,
    logicalRaw, logicalRawAt, leafNode, chosenTy, logicalOf, k1, k2, isI64, freezeNode, renameNode, plain,
    nodeAccepts]

example : hasShape genericProgL 8 (.named 1 []) (.struct "Log" [
    ("log", .seq (some 1) [.struct "Stamped" [
      ("at", .int .i64 1700000000000),
      ("lease", .bytes (List.replicate 12 0)),
      ("v", .map (some 1) [(.str "k", .struct "Pair" [("a", .f64 0), ("b", .seq (some 0) [])])])]])]) = true := by
  decide +kernel

example (ext : Avro.Impl.Ext) (hash : Key → String) (fuel : Nat) (Sm : SchemaMut) (f : Nat) (sv : SV)
    (hbuild : schemaMut genericProgL hash fuel (.named 1 []) = some Sm)
    (hs : hasShape genericProgL f (.named 1 []) sv = true) :
    (ser ext false (freezeNodes Sm) ((freezeNodes Sm)[0]!) sv {}).1 = .ok () :=
  C20_fits_generic ext genericProgL hash fuel _ Sm f sv hbuild genericProgL_fitWfG hs

end Avro.Theorems
