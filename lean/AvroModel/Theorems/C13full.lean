import AvroModel.Theorems.C13
import AvroModel.Lemmas.RecordFull
/-
C13, the parts left open by `C13_order_independent`:

* omitted nullable fields are written as null (`C13_partial_bytes`, `C13_omitted_nullable`);
* the map presentation (and the struct-variant presentation) is the struct presentation
  (`C13_map_presentation`, `C13_map_presentation_union`);
* unknown / duplicate / missing non-nullable fields are rejected (`C13_unknown_field_err`,
  `C13_duplicate_field_err`, `C13_missing_required_err`) and any outcome leaves the pool clean
  (`C13_pool_clean`);
* all of it together: `C13_presentation_independent`.
-/
namespace Avro.Theorems
open Avro Avro.Impl

/-! ### Nullable fields -/

/-- `fieldNullable S k`: the node at key `k` is `null`, or a union in which the type-directed
    lookup for null selects a branch. -/
theorem C13_fieldNullable_iff (S : Schema) (k : Nat) :
    fieldNullable S k = true ↔
      S[k]? = some .null ∨
      ∃ vs d, S[k]? = some (.union vs) ∧ unnamedLookup .null (branchNodes S vs) = some d := by
  unfold fieldNullable
  cases hk : S[k]? with
  | none => simp
  | some n =>
    cases n <;> simp [nullableNode, Option.isSome_iff_exists]

/-- The null encoding of a `null` field is empty. -/
theorem C13_nullEnc_null {S : Schema} {k : Nat} (h : S[k]? = some .null) : nullEnc S k = [] := by
  simp [nullEnc, h, nullEncNode]

/-- The null encoding of a nullable union field is the discriminant of its null branch — and that
    branch is indeed a `null` node. -/
theorem C13_nullEnc_union {S : Schema} {k : Nat} {vs : List Nat} {d : Nat}
    (h : S[k]? = some (.union vs)) (hl : unnamedLookup .null (branchNodes S vs) = some d) :
    nullEnc S k = encodeVarI64 d ∧ (branchNodes S vs)[d]? = some .null := by
  simp [nullEnc, h, nullEncNode, hl, unnamedLookup_null_get hl]

/-- The value with which a partial presentation is completed: omitted fields become `None`. -/
def completeVals (vals : Nat → SV) (order : List Nat) : Nat → SV :=
  fun i => if i ∈ order then vals i else .none

/-! ### 1. Omitted nullable fields -/

/-- C13 (omitted nullable fields, explicit bytes).  Field names pairwise distinct; `order` lists,
    without repetition and in any order, the indices of the presented fields; each presented value
    `vals i` serializes on its own to `enc i`; every field not in `order` is nullable and `enc i`
    is its null encoding.  Then the struct presentation succeeds on any unlimited writer and clean
    pool, appends exactly `enc 0 ++ … ++ enc (n-1)`, and leaves the pool clean. -/
theorem C13_partial_bytes (ext : Ext) (allowSlow : Bool) (S : Schema) (nm : Name)
    (fields : List (String × Nat)) (enc : Nat → Bytes) (vals : Nat → SV)
    (hnd : (fields.map (·.1)).Nodup)
    (hkeys : ∀ f ∈ fields, ∃ node, S[f.2]? = some node)
    (order : List Nat) (hon : order.Nodup) (hlt : ∀ i ∈ order, i < fields.length)
    (henc : ∀ i ∈ order, ∀ f node, fields[i]? = some f → S[f.2]? = some node →
      ∃ t, ser ext allowSlow S node (vals i) {} = (.ok (), t) ∧ t.out = enc i)
    (hnull : ∀ i f, fields[i]? = some f → i ∉ order →
      fieldNullable S f.2 = true ∧ enc i = nullEnc S f.2)
    (name : String) (s : SerState) (hb : s.budget = none) (hc : PoolClean s.pool) :
    ∃ s', ser ext allowSlow S (.record nm fields) (.struct name (presOf fields vals order)) s =
        (.ok (), s') ∧
      s'.out = s.out ++ (List.range fields.length).flatMap enc ∧ s'.budget = none ∧
      PoolClean s'.pool :=
  ser_record_partial ext allowSlow S nm fields enc vals hnd hkeys order hon hlt henc hnull name s
    hb hc

/-- The bytes of field `i` in a presentation of the fields `order` with values `vals`. -/
def fieldBytes (ext : Ext) (allowSlow : Bool) (S : Schema) (fields : List (String × Nat))
    (vals : Nat → SV) (order : List Nat) (i : Nat) : Bytes :=
  match fields[i]? with
  | some f =>
    match S[f.2]? with
    | some node =>
      if i ∈ order then (ser ext allowSlow S node (vals i) {}).2.out else nullEncNode S node
    | none => []
  | none => []

theorem fieldBytes_presented {ext : Ext} {allowSlow : Bool} {S : Schema}
    {fields : List (String × Nat)} {vals : Nat → SV} {order : List Nat} {i : Nat}
    {f : String × Nat} {node : Node} (hf : fields[i]? = some f) (hnode : S[f.2]? = some node)
    (hi : i ∈ order) :
    fieldBytes ext allowSlow S fields vals order i = (ser ext allowSlow S node (vals i) {}).2.out := by
  simp only [fieldBytes, hf, hnode, if_pos hi]

theorem fieldBytes_omitted {ext : Ext} {allowSlow : Bool} {S : Schema}
    {fields : List (String × Nat)} {vals : Nat → SV} {order : List Nat} {i : Nat}
    {f : String × Nat} (hf : fields[i]? = some f) (hi : i ∉ order) :
    fieldBytes ext allowSlow S fields vals order i = nullEnc S f.2 := by
  simp only [fieldBytes, hf, nullEnc, if_neg hi]
  cases S[f.2]? <;> rfl

/-- `None`/`()` on a nullable node writes the null encoding. -/
theorem ser_none_nullable (ext : Ext) (allowSlow : Bool) {S : Schema} {node : Node}
    (hn : nullableNode S node = true) :
    ser ext allowSlow S node .none {} = (.ok (), { out := nullEncNode S node }) := by
  rw [ser, serUnit_nullable hn _ rfl]
  simp

/-- C13 (omitted nullable fields).  A struct presentation of the fields `order` (no repetition,
    any order) that omits only nullable fields succeeds, and writes exactly the bytes written for
    the full in-order presentation in which every omitted field is presented as `None`
    (`completeVals`).  Both outputs are given explicitly: the schema-order concatenation of
    `fieldBytes` (the field's own encoding if presented, its null encoding otherwise). -/
theorem C13_omitted_nullable (ext : Ext) (allowSlow : Bool) (S : Schema) (nm : Name)
    (fields : List (String × Nat)) (vals : Nat → SV)
    (hnd : (fields.map (·.1)).Nodup)
    (hkeys : ∀ f ∈ fields, ∃ node, S[f.2]? = some node)
    (order : List Nat) (hon : order.Nodup) (hlt : ∀ i ∈ order, i < fields.length)
    (hvals : ∀ i ∈ order, ∀ f node, fields[i]? = some f → S[f.2]? = some node →
      ∃ t, ser ext allowSlow S node (vals i) {} = (.ok (), t))
    (hnull : ∀ i f, fields[i]? = some f → i ∉ order → fieldNullable S f.2 = true)
    (name : String) (s : SerState) (hb : s.budget = none) (hc : PoolClean s.pool) :
    let partialRun := ser ext allowSlow S (.record nm fields)
      (.struct name (presOf fields vals order)) s
    let fullRun := ser ext allowSlow S (.record nm fields)
      (.struct name (presOf fields (completeVals vals order) (List.range fields.length))) s
    partialRun.1 = .ok () ∧ fullRun.1 = .ok () ∧
      partialRun.2.out =
        s.out ++ (List.range fields.length).flatMap (fieldBytes ext allowSlow S fields vals order) ∧
      fullRun.2.out = partialRun.2.out ∧
      PoolClean partialRun.2.pool ∧ PoolClean fullRun.2.pool := by
  intro partialRun fullRun
  have henc : ∀ i ∈ order, ∀ f node, fields[i]? = some f → S[f.2]? = some node →
      ∃ t, ser ext allowSlow S node (vals i) {} = (.ok (), t) ∧
        t.out = fieldBytes ext allowSlow S fields vals order i := by
    intro i hi f node hf hnode
    obtain ⟨t, ht⟩ := hvals i hi f node hf hnode
    exact ⟨t, ht, by rw [fieldBytes_presented hf hnode hi, ht]⟩
  obtain ⟨s1, e1, o1, _, c1⟩ := C13_partial_bytes ext allowSlow S nm fields
    (fieldBytes ext allowSlow S fields vals order) vals hnd hkeys order hon hlt henc
    (fun i f hf hi => ⟨hnull i f hf hi, fieldBytes_omitted hf hi⟩) name s hb hc
  have hencFull : ∀ i f node, fields[i]? = some f → S[f.2]? = some node →
      ∃ t, ser ext allowSlow S node (completeVals vals order i) {} = (.ok (), t) ∧
        t.out = fieldBytes ext allowSlow S fields vals order i := by
    intro i f node hf hnode
    by_cases hi : i ∈ order
    · simp only [completeVals, if_pos hi]; exact henc i hi f node hf hnode
    · simp only [completeVals, if_neg hi]
      have hn := hnull i f hf hi
      unfold fieldNullable at hn
      rw [hnode] at hn
      exact ⟨_, ser_none_nullable ext allowSlow hn, by
        simp only [fieldBytes_omitted hf hi, nullEnc, hnode]⟩
  obtain ⟨s2, e2, o2, _, c2⟩ := C13_record_bytes ext allowSlow S nm fields
    (fieldBytes ext allowSlow S fields vals order) (completeVals vals order) hnd hkeys hencFull
    name (List.range fields.length) (List.Perm.refl _) s hb hc
  simp only [partialRun, fullRun, e1, e2]
  exact ⟨trivial, trivial, o1, by rw [o1, o2], c1, c2⟩

/-! ### 2. The map presentation -/

/-- C13 (map presentation).  On the record node itself, `serialize_map(len)` with the field
    names as `serialize_str` keys gives exactly the result (`Ok`/error *and* final state: bytes,
    remaining budget, pool) of `serialize_struct(name, …)` with the same fields in the same order
    — for every advertised length `len` (including `None`: `structStartAt` ignores the length on a
    record), every struct name, every state.  No hypothesis on the fields. -/
theorem C13_map_presentation (ext : Ext) (allowSlow : Bool) (S : Schema) (nm : Name)
    (fields : List (String × Nat)) (len : Option Nat) (name : String) (pres : List (String × SV))
    (s : SerState) :
    ser ext allowSlow S (.record nm fields) (.map len (strKeyEntries pres)) s =
      ser ext allowSlow S (.record nm fields) (.struct name pres) s :=
  ser_map_eq_struct ext allowSlow S nm fields len name pres s

/-- The same for `serialize_struct_variant`. -/
theorem C13_structVariant_presentation (ext : Ext) (allowSlow : Bool) (S : Schema) (nm : Name)
    (fields : List (String × Nat)) (name name' : String) (idx : Nat) (variant : String)
    (pres : List (String × SV)) (s : SerState) :
    ser ext allowSlow S (.record nm fields) (.structVariant name' idx variant pres) s =
      ser ext allowSlow S (.record nm fields) (.struct name pres) s :=
  ser_structVariant_eq_struct ext allowSlow S nm fields name name' idx variant pres s

/-- C13 (map presentation at a union).  At a union the two presentations are routed differently:
    the struct first looks its *name* up among the branches, and only if that fails uses the
    type-directed lookup (`structOrMap`), which is all the map does.  They coincide when the
    type-directed lookup selects a record branch `d` and the struct name selects the same branch
    or no branch at all.  (Otherwise they differ: see the example at the end of this file, a union
    of two records, where the struct is accepted by name and the map is rejected.) -/
theorem C13_map_presentation_union (ext : Ext) (allowSlow : Bool) (S : Schema) (vs : List Nat)
    (d k : Nat) (nm : Name) (fields : List (String × Nat))
    (hsel : unnamedLookup .structOrMap (branchNodes S vs) = some d)
    (hd : vs[d]? = some k) (hk : S[k]? = some (.record nm fields))
    (len : Option Nat) (name : String)
    (hname : namedLookup name (branchNodes S vs) = none ∨
      namedLookup name (branchNodes S vs) = some d)
    (pres : List (String × SV)) (s : SerState) :
    ser ext allowSlow S (.union vs) (.map len (strKeyEntries pres)) s =
      ser ext allowSlow S (.union vs) (.struct name pres) s := by
  have hrec := C13_map_presentation ext allowSlow S nm fields len name pres
  rw [ser, ser] at hrec
  simp only [viaName, viaUnion] at hrec
  rw [ser, ser]
  rcases hname with hn | hn
  · simp only [viaName, viaUnion, hn, hsel, hd, hk, bind]
    cases writeVarI64 (↑d) s with
    | mk r s1 =>
      cases r with
      | error e => rfl
      | ok _ => exact hrec s1
  · simp only [viaName, viaUnion, hn, hsel, hd, hk, bind]
    cases writeVarI64 (↑d) s with
    | mk r s1 =>
      cases r with
      | error e => rfl
      | ok _ => exact hrec s1

/-! ### 3. Rejections -/

/-- C13 (unknown field).  A struct presentation containing a name that is not a field of the
    record fails — whatever the other presented fields, their values, their order, the writer and
    the pool. -/
theorem C13_unknown_field_err (ext : Ext) (allowSlow : Bool) (S : Schema) (nm : Name)
    (fields : List (String × Nat)) (name : String) (pres : List (String × SV)) (s : SerState)
    (bad : String) (hbad : bad ∉ fields.map (·.1)) (hmem : bad ∈ pres.map (·.1)) :
    ∃ e, (ser ext allowSlow S (.record nm fields) (.struct name pres) s).1 = .error e :=
  ser_struct_unknown_err ext allowSlow S fields nm name pres s hbad hmem

/-- C13 (duplicate field).  With pairwise distinct field names in the schema, a struct
    presentation in which some name occurs twice fails — whatever the names (a duplicated unknown
    name is rejected as unknown), the values, the order, the writer and the pool.  This covers
    both situations of the second copy: the first one already written (`C13_duplicate_written`:
    `field_idx` fails) and the first one still waiting in its buffer (`C13_duplicate_buffered`:
    the slot is found occupied). -/
theorem C13_duplicate_field_err (ext : Ext) (allowSlow : Bool) (S : Schema) (nm : Name)
    (fields : List (String × Nat)) (hnd : (fields.map (·.1)).Nodup)
    (name : String) (pres : List (String × SV)) (s : SerState)
    (hdup : ¬ (pres.map (·.1)).Nodup) :
    ∃ e, (ser ext allowSlow S (.record nm fields) (.struct name pres) s).1 = .error e :=
  ser_struct_dup_err ext allowSlow S fields hnd nm name pres s hdup

/-- Second copy of a field that was already written (`i < current`): `field_idx` returns the
    `custom` error. -/
theorem C13_duplicate_written {fields : List (String × Nat)} (hnd : (fields.map (·.1)).Nodup)
    {rs : RecordState} (hinv : SlotInv rs) {i : Nat} {f : String × Nat}
    (hf : fields[i]? = some f) (hw : i < rs.current) :
    fieldIdx fields rs f.1 = .error .custom := by
  rcases fieldIdx_done hnd hinv hf (.inl hw) with ⟨_, h⟩ | ⟨_, h, _⟩
  · exact h
  · omega

/-- Second copy of a field whose first copy is still buffered: `field_idx` finds its slot, and
    `serialize_field` rejects it with the `custom` error without touching the writer or the
    pool. -/
theorem C13_duplicate_buffered {S : Schema} {fields : List (String × Nat)}
    (hnd : (fields.map (·.1)).Nodup) {rs : RecordState} (hinv : SlotInv rs) {i : Nat}
    {f : String × Nat} {node : Node} (hf : fields[i]? = some f) (hnode : S[f.2]? = some node)
    {b : Buffer} (hb : rs.buffers.slots[i]? = some (some b)) (serv : Node → SerM Unit)
    (s : SerState) :
    fieldIdx fields rs f.1 = .ok i ∧
      ∃ rs', recordValue S fields rs i serv s = (.error (.custom, rs'), s) := by
  have hcur := hinv i b hb
  rcases fieldIdx_done hnd hinv hf (.inr ⟨b, hb⟩) with ⟨h, _⟩ | ⟨h, _, _⟩
  · omega
  · exact ⟨h, recordValue_occupied_custom hf hnode (by omega) hb⟩

/-- C13 (missing field).  A struct presentation that does not present the non-nullable field
    `i` fails — whatever is presented otherwise. -/
theorem C13_missing_required_err (ext : Ext) (allowSlow : Bool) (S : Schema) (nm : Name)
    (fields : List (String × Nat)) (name : String) (pres : List (String × SV)) (s : SerState)
    (i : Nat) (f : String × Nat) (hf : fields[i]? = some f)
    (hnn : fieldNullable S f.2 = false) (habs : f.1 ∉ pres.map (·.1)) :
    ∃ e, (ser ext allowSlow S (.record nm fields) (.struct name pres) s).1 = .error e :=
  ser_struct_missing_err ext allowSlow S fields nm name pres s hf hnn habs

/-- The three rejections for the map presentation (by `C13_map_presentation`). -/
theorem C13_map_rejections (ext : Ext) (allowSlow : Bool) (S : Schema) (nm : Name)
    (fields : List (String × Nat)) (len : Option Nat) (pres : List (String × SV)) (s : SerState)
    (h : (∃ bad, bad ∉ fields.map (·.1) ∧ bad ∈ pres.map (·.1)) ∨
      ((fields.map (·.1)).Nodup ∧ ¬ (pres.map (·.1)).Nodup) ∨
      (∃ (i : Nat) (f : String × Nat), fields[i]? = some f ∧ fieldNullable S f.2 = false ∧
        f.1 ∉ pres.map (·.1))) :
    ∃ e, (ser ext allowSlow S (.record nm fields) (.map len (strKeyEntries pres)) s).1 = .error e := by
  rw [C13_map_presentation ext allowSlow S nm fields len "" pres s]
  rcases h with ⟨bad, h1, h2⟩ | ⟨h1, h2⟩ | ⟨i, f, h1, h2, h3⟩
  · exact C13_unknown_field_err ext allowSlow S nm fields "" pres s bad h1 h2
  · exact C13_duplicate_field_err ext allowSlow S nm fields h1 "" pres s h2
  · exact C13_missing_required_err ext allowSlow S nm fields "" pres s i f h1 h2 h3

/-- Whatever is presented and whatever the outcome (in particular after each of the rejections
    above), a clean pool is handed back clean (`ser_tr`, the C14 triple, at `P := False`). -/
theorem C13_pool_clean (ext : Ext) (allowSlow : Bool) (S : Schema) (node : Node) (sv : SV)
    (s : SerState) (hc : PoolClean s.pool) :
    PoolClean (ser ext allowSlow S node sv s).2.pool :=
  ((ser_tr (P := False) ext allowSlow (fun h => h.elim) sv node (fun h => h.elim)).out s hc).1

/-! ### 4. Presentation independence -/

/-- The three ways a record value reaches the serializer. -/
inductive RecPresKind
  | struct (name : String)
  | structVariant (name : String) (idx : Nat) (variant : String)
  | map (len : Option Nat)

def RecPresKind.sv : RecPresKind → List (String × SV) → SV
  | .struct name, pres => .struct name pres
  | .structVariant name idx variant, pres => .structVariant name idx variant pres
  | .map len, pres => .map len (strKeyEntries pres)

/-- On the record node the kind of presentation is irrelevant (result and final state). -/
theorem C13_kind_independent (ext : Ext) (allowSlow : Bool) (S : Schema) (nm : Name)
    (fields : List (String × Nat)) (k : RecPresKind) (name : String) (pres : List (String × SV))
    (s : SerState) :
    ser ext allowSlow S (.record nm fields) (k.sv pres) s =
      ser ext allowSlow S (.record nm fields) (.struct name pres) s := by
  cases k with
  | struct name' =>
    show ser ext allowSlow S (.record nm fields) (.struct name' pres) s = _
    rw [ser_struct_record_eq, ser_struct_record_eq]
  | structVariant name' idx variant =>
    exact C13_structVariant_presentation ext allowSlow S nm fields name name' idx variant pres s
  | map len => exact C13_map_presentation ext allowSlow S nm fields len name pres s

/-- A field presented as null: `serialize_none` or `serialize_unit`. -/
def presentsNull : SV → Bool
  | .none | .unit => true
  | _ => false

theorem ser_presentsNull (ext : Ext) (allowSlow : Bool) {S : Schema} {node : Node} {v : SV}
    (hv : presentsNull v = true) (hn : nullableNode S node = true) :
    ser ext allowSlow S node v {} = (.ok (), { out := nullEncNode S node }) := by
  cases v <;> simp only [presentsNull] at hv <;> try cases hv
  · exact ser_none_nullable ext allowSlow hn
  · rw [ser, serUnit_nullable hn _ rfl]; simp

/-- C13 (presentation independence).  Two presentations of the same record — each a struct, a
    struct variant or a map with string keys, each listing its fields `orderⱼ` without repetition
    in any order, each omitting only nullable fields, every presented value serializing on its
    own — that agree on the fields they both present, and such that a field presented by only one
    of them is presented as null (`None`/`()`) by that one: both succeed and write the same bytes
    (given explicitly), and both leave the pool clean. -/
theorem C13_presentation_independent (ext : Ext) (allowSlow : Bool) (S : Schema) (nm : Name)
    (fields : List (String × Nat)) (hnd : (fields.map (·.1)).Nodup)
    (hkeys : ∀ f ∈ fields, ∃ node, S[f.2]? = some node)
    (k1 k2 : RecPresKind) (vals1 vals2 : Nat → SV) (order1 order2 : List Nat)
    (hon1 : order1.Nodup) (hon2 : order2.Nodup)
    (hlt1 : ∀ i ∈ order1, i < fields.length) (hlt2 : ∀ i ∈ order2, i < fields.length)
    (hvals1 : ∀ i ∈ order1, ∀ f node, fields[i]? = some f → S[f.2]? = some node →
      ∃ t, ser ext allowSlow S node (vals1 i) {} = (.ok (), t))
    (hvals2 : ∀ i ∈ order2, ∀ f node, fields[i]? = some f → S[f.2]? = some node →
      ∃ t, ser ext allowSlow S node (vals2 i) {} = (.ok (), t))
    (hnull1 : ∀ i f, fields[i]? = some f → i ∉ order1 → fieldNullable S f.2 = true)
    (hnull2 : ∀ i f, fields[i]? = some f → i ∉ order2 → fieldNullable S f.2 = true)
    (hagree : ∀ i, i ∈ order1 → i ∈ order2 → vals1 i = vals2 i)
    (honly1 : ∀ i, i ∈ order1 → i ∉ order2 → presentsNull (vals1 i) = true)
    (honly2 : ∀ i, i ∈ order2 → i ∉ order1 → presentsNull (vals2 i) = true)
    (s : SerState) (hb : s.budget = none) (hc : PoolClean s.pool) :
    let r1 := ser ext allowSlow S (.record nm fields) (k1.sv (presOf fields vals1 order1)) s
    let r2 := ser ext allowSlow S (.record nm fields) (k2.sv (presOf fields vals2 order2)) s
    r1.1 = .ok () ∧ r2.1 = .ok () ∧ r1.2.out = r2.2.out ∧
      r1.2.out =
        s.out ++ (List.range fields.length).flatMap (fieldBytes ext allowSlow S fields vals1 order1) ∧
      PoolClean r1.2.pool ∧ PoolClean r2.2.pool := by
  intro r1 r2
  -- both runs produce `fieldBytes … vals1 order1`
  have henc1 : ∀ i ∈ order1, ∀ f node, fields[i]? = some f → S[f.2]? = some node →
      ∃ t, ser ext allowSlow S node (vals1 i) {} = (.ok (), t) ∧
        t.out = fieldBytes ext allowSlow S fields vals1 order1 i := by
    intro i hi f node hf hnode
    obtain ⟨t, ht⟩ := hvals1 i hi f node hf hnode
    exact ⟨t, ht, by rw [fieldBytes_presented hf hnode hi, ht]⟩
  have henc2 : ∀ i ∈ order2, ∀ f node, fields[i]? = some f → S[f.2]? = some node →
      ∃ t, ser ext allowSlow S node (vals2 i) {} = (.ok (), t) ∧
        t.out = fieldBytes ext allowSlow S fields vals1 order1 i := by
    intro i hi f node hf hnode
    obtain ⟨t, ht⟩ := hvals2 i hi f node hf hnode
    refine ⟨t, ht, ?_⟩
    by_cases hi1 : i ∈ order1
    · rw [fieldBytes_presented hf hnode hi1, hagree i hi1 hi, ht]
    · have hn := hnull1 i f hf hi1
      unfold fieldNullable at hn
      rw [hnode] at hn
      rw [ser_presentsNull ext allowSlow (honly2 i hi hi1) hn] at ht
      simp only [Prod.mk.injEq, true_and] at ht
      rw [fieldBytes_omitted hf hi1, ← ht]
      simp only [nullEnc, hnode]
  have hn2 : ∀ i f, fields[i]? = some f → i ∉ order2 →
      fieldNullable S f.2 = true ∧
        fieldBytes ext allowSlow S fields vals1 order1 i = nullEnc S f.2 := by
    intro i f hf hi2
    refine ⟨hnull2 i f hf hi2, ?_⟩
    by_cases hi1 : i ∈ order1
    · obtain ⟨node, hnode⟩ := hkeys f (List.mem_of_getElem? hf)
      have hn := hnull2 i f hf hi2
      unfold fieldNullable at hn
      rw [hnode] at hn
      rw [fieldBytes_presented hf hnode hi1,
        ser_presentsNull ext allowSlow (honly1 i hi1 hi2) hn]
      simp only [nullEnc, hnode]
    · exact fieldBytes_omitted hf hi1
  obtain ⟨s1, e1, o1, _, c1⟩ := C13_partial_bytes ext allowSlow S nm fields
    (fieldBytes ext allowSlow S fields vals1 order1) vals1 hnd hkeys order1 hon1 hlt1 henc1
    (fun i f hf hi => ⟨hnull1 i f hf hi, fieldBytes_omitted hf hi⟩) "" s hb hc
  obtain ⟨s2, e2, o2, _, c2⟩ := C13_partial_bytes ext allowSlow S nm fields
    (fieldBytes ext allowSlow S fields vals1 order1) vals2 hnd hkeys order2 hon2 hlt2 henc2
    hn2 "" s hb hc
  simp only [r1, r2, C13_kind_independent ext allowSlow S nm fields _ "", e1, e2]
  exact ⟨trivial, trivial, by rw [o1, o2], o1, c1, c2⟩

/-! ### Non-vacuity: a concrete 4-field record

`R { a : int, b : ["null","string"], c : null, d : boolean }` — `b` is a nullable union field,
`c` a null field, `a` and `d` are required. -/

namespace C13Demo

def extD : Ext :=
  { asF32 := fun _ => 0, decFromF64 := fun _ => none, decParse := fun _ => none,
    decRescale := fun d _ => d }
def nmR : Name := ⟨"R", "R", none⟩
def flds : List (String × Nat) := [("a", 1), ("b", 2), ("c", 3), ("d", 4)]
def Sd : Schema := #[.record nmR flds, .int, .union [3, 5], .null, .boolean, .string]

/-- first presentation: values of `a`, `b`, `d` (index 2 is never presented) -/
def valsD : Nat → SV
  | 0 => .int .i32 3
  | 1 => .str "x"
  | 3 => .bool true
  | _ => .unit

/-- second presentation: `b` explicitly `None` -/
def vals2 : Nat → SV
  | 0 => .int .i32 3
  | 1 => .none
  | 3 => .bool true
  | _ => .unit

theorem exists_of_fst_ok {m : SerM Unit} {s : SerState} (h : (m s).1 = .ok ()) :
    ∃ t, m s = (.ok (), t) := ⟨(m s).2, by rw [← h]⟩

theorem flds_nodup : (flds.map (·.1)).Nodup := by decide

theorem flds_keys : ∀ f ∈ flds, ∃ node, Sd[f.2]? = some node := by
  intro f hf
  simp only [flds, List.mem_cons, List.not_mem_nil, or_false] at hf
  rcases hf with rfl | rfl | rfl | rfl <;> exact ⟨_, rfl⟩

theorem lookup_null : unnamedLookup .null (branchNodes Sd [3, 5]) = some 0 := by decide
theorem lookup_str : unnamedLookup .str (branchNodes Sd [3, 5]) = some 1 := by decide

theorem e0 : encodeVarI64 0 = [0] := by
  unfold encodeVarI64
  have : (zigzagBV (BitVec.ofInt 64 0)).toNat = 0 := by decide
  rw [this, encodeVarU64]; decide
theorem e1 : encodeVarI64 1 = [2] := by
  unfold encodeVarI64
  have : (zigzagBV (BitVec.ofInt 64 1)).toNat = 2 := by decide
  rw [this, encodeVarU64]; decide
theorem e3 : encodeVarI64 3 = [6] := by
  unfold encodeVarI64
  have : (zigzagBV (BitVec.ofInt 64 3)).toNat = 6 := by decide
  rw [this, encodeVarU64]; decide

/-- The nullability hypotheses are as expected on the example: `b` (union with a null branch) and
    `c` (null) are nullable, `a` and `d` are not; the null encodings are `[0]` and `[]`. -/
example : fieldNullable Sd 2 = true ∧ fieldNullable Sd 3 = true ∧ fieldNullable Sd 1 = false ∧
    fieldNullable Sd 4 = false := by decide
example : nullEnc Sd 2 = [0] ∧ nullEnc Sd 3 = [] := by
  have h2 : Sd[2]? = some (.union [3, 5]) := by decide
  exact ⟨by rw [(C13_nullEnc_union h2 lookup_null).1]; exact e0, C13_nullEnc_null (by decide)⟩

theorem valsD_ok : ∀ i ∈ [3, 1, 0], ∀ f node, flds[i]? = some f → Sd[f.2]? = some node →
    ∃ t, ser extD false Sd node (valsD i) {} = (.ok (), t) := by
  intro i hi f node hf hnode
  simp only [List.mem_cons, List.not_mem_nil, or_false] at hi
  rcases hi with rfl | rfl | rfl
  all_goals
    simp [flds] at hf; subst hf
    simp [Sd] at hnode; subst hnode
    apply exists_of_fst_ok
  · simp [valsD, ser, serBool, viaUnion, writeAll]
  · have hx : strBytes "x" = [120] := by decide
    have h5 : Sd[5]? = some .string := by decide
    simp [valsD, ser, serStr, viaUnion, lookup_str, h5, writeVarI64, writeAll, bind, serStrAt,
      writeLengthDelimited, hx]
  · simp [valsD, ser, serInteger, viaUnion, writeVarI64, writeAll]

theorem vals2_ok : ∀ i ∈ [1, 0, 3], ∀ f node, flds[i]? = some f → Sd[f.2]? = some node →
    ∃ t, ser extD false Sd node (vals2 i) {} = (.ok (), t) := by
  intro i hi f node hf hnode
  simp only [List.mem_cons, List.not_mem_nil, or_false] at hi
  rcases hi with rfl | rfl | rfl
  all_goals
    simp [flds] at hf; subst hf
    simp [Sd] at hnode; subst hnode
    apply exists_of_fst_ok
  · simp [vals2, ser, serUnit, lookup_null, writeVarI64, writeAll]
  · simp [vals2, ser, serInteger, viaUnion, writeVarI64, writeAll]
  · simp [vals2, ser, serBool, viaUnion, writeAll]

/-- Every presentation that contains `a` and `d` omits only nullable fields. -/
theorem nullable_of_not_mem (order : List Nat) (h0 : 0 ∈ order) (h3 : 3 ∈ order) :
    ∀ i f, flds[i]? = some f → i ∉ order → fieldNullable Sd f.2 = true := by
  intro i f hf hi
  rcases i with _ | _ | _ | _ | i
  · exact (hi h0).elim
  · simp [flds] at hf; subst hf; decide
  · simp [flds] at hf; subst hf; decide
  · exact (hi h3).elim
  · simp [flds] at hf

example : presOf flds valsD [3, 0] = [("d", .bool true), ("a", .int .i32 3)] := rfl
example : presOf flds (completeVals valsD [3, 0]) (List.range flds.length) =
    [("a", .int .i32 3), ("b", .none), ("c", .none), ("d", .bool true)] := by
  simp [presOf, completeVals, flds, List.range, List.range.loop, valsD]

/-- `C13_omitted_nullable` applies: presenting only `d` then `a` succeeds and writes what the full
    in-order presentation with `b = None`, `c = None` writes. -/
example :
    (ser extD false Sd (.record nmR flds)
      (.struct "R" [("d", .bool true), ("a", .int .i32 3)]) {}).1 = .ok () ∧
    (ser extD false Sd (.record nmR flds)
      (.struct "R" [("d", .bool true), ("a", .int .i32 3)]) {}).2.out =
    (ser extD false Sd (.record nmR flds)
      (.struct "R" (presOf flds (completeVals valsD [3, 0]) (List.range flds.length))) {}).2.out := by
  have := C13_omitted_nullable extD false Sd nmR flds valsD flds_nodup flds_keys [3, 0] (by decide)
    (by decide) (fun i hi => valsD_ok i (by revert i; decide))
    (nullable_of_not_mem _ (by decide) (by decide)) "R" {} rfl PoolClean.empty
  exact ⟨this.1, this.2.2.2.1.symm⟩

set_option linter.unusedSimpArgs false

set_option maxRecDepth 4000 in
/-- … and, evaluated directly: the bytes are `a = 3 ↦ [6]`, `b` omitted `↦ [0]` (discriminant of
    the null branch), `c` omitted `↦ []`, `d = true ↦ [1]`; the one buffer used for `d` and the
    super-buffer are handed back to the pool, emptied. -/
example :
    ser extD false Sd (.record nmR flds) (.struct "R" [("d", .bool true), ("a", .int .i32 3)]) {} =
      (.ok (), { out := [6, 0, 1], budget := none,
                 pool := { buffers := [{ cap := true, data := [] }],
                           superBuffers := [{ cap := true, slots := [] }] } }) := by
  have h1 : Sd[1]? = some .int := by decide
  have h2 : Sd[2]? = some (.union [3, 5]) := by decide
  have h3 : Sd[3]? = some .null := by decide
  have h4 : Sd[4]? = some .boolean := by decide
  have hb : (branchNodes Sd [3, 5])[0]? = some .null := by decide
  simp [ser, flds, viaName, viaUnion, structStartAt, popSuperBuffer, bind, pure, serFields,
    fieldIdx, lookupLast, lookupLast.go, recordValue, h1, h2, h3, h4, hb, listResize, popBuffer,
    intoBuffer, writeVarI64, writeAll, serBool, serInteger, e3, e0, lookup_null, nodeAt,
    SerM.finally, flushBuffered, pushBuffer, structBodyFinish,
    structFinish, structEnd, recordEnd, structDrop, recordDrop, getPool, setPool, pushSuperBuffer]

/-- `C13_presentation_independent` applies: the struct `{d, a}` and the map
    `{"b": None, "a": 3, "d": true}` of unknown length both succeed with the same bytes. -/
example :
    let r1 := ser extD false Sd (.record nmR flds)
      (.struct "R" [("d", .bool true), ("a", .int .i32 3)]) {}
    let r2 := ser extD false Sd (.record nmR flds)
      (.map none [(.str "b", .none), (.str "a", .int .i32 3), (.str "d", .bool true)]) {}
    r1.1 = .ok () ∧ r2.1 = .ok () ∧ r1.2.out = r2.2.out := by
  have := C13_presentation_independent extD false Sd nmR flds flds_nodup flds_keys
    (.struct "R") (.map none) valsD vals2 [3, 0] [1, 0, 3] (by decide) (by decide) (by decide)
    (by decide) (fun i hi => valsD_ok i (by revert i; decide)) vals2_ok
    (nullable_of_not_mem _ (by decide) (by decide)) (nullable_of_not_mem _ (by decide) (by decide))
    (by intro i h1 h2
        simp only [List.mem_cons, List.not_mem_nil, or_false] at h1
        rcases h1 with rfl | rfl <;> rfl)
    (by intro i h1 h2
        simp only [List.mem_cons, List.not_mem_nil, or_false] at h1
        rcases h1 with rfl | rfl <;> exact (h2 (by decide)).elim)
    (by intro i h1 h2
        simp only [List.mem_cons, List.not_mem_nil, or_false] at h1
        rcases h1 with rfl | rfl | rfl
        · rfl
        · exact (h2 (by decide)).elim
        · exact (h2 (by decide)).elim)
    {} rfl PoolClean.empty
  exact ⟨this.1, this.2.1, this.2.2.1⟩

/-- Unknown field `x`, in the middle of otherwise fine fields. -/
example : ∃ e, (ser extD false Sd (.record nmR flds)
    (.struct "R" [("d", .bool true), ("x", .int .i32 3), ("a", .int .i32 3)]) {}).1 = .error e :=
  C13_unknown_field_err extD false Sd nmR flds "R" _ {} "x" (by decide) (by decide)

/-- Duplicate `a`. -/
example : ∃ e, (ser extD false Sd (.record nmR flds)
    (.struct "R" [("a", .int .i32 3), ("d", .bool true), ("a", .int .i32 3)]) {}).1 = .error e :=
  C13_duplicate_field_err extD false Sd nmR flds flds_nodup "R" _ {} (by decide)

/-- Missing required `a`. -/
example : ∃ e, (ser extD false Sd (.record nmR flds)
    (.struct "R" [("d", .bool true), ("b", .none)]) {}).1 = .error e :=
  C13_missing_required_err extD false Sd nmR flds "R" _ {} 0 ("a", 1) rfl (by decide) (by decide)

/-- The same through the map presentation. -/
example : ∃ e, (ser extD false Sd (.record nmR flds)
    (.map (some 2) [(.str "d", .bool true), (.str "b", .none)]) {}).1 = .error e :=
  C13_map_rejections extD false Sd nmR flds (some 2) [("d", .bool true), ("b", .none)] {}
    (.inr (.inr ⟨0, ("a", 1), rfl, by decide, by decide⟩))

set_option maxRecDepth 4000 in
/-- Duplicate whose first copy was already written: `custom` error, `[6]` stays in the writer,
    nothing was taken from the pool. -/
example :
    let r := ser extD false Sd (.record nmR flds)
      (.struct "R" [("a", .int .i32 3), ("a", .int .i32 3)]) {}
    r.1 = .error .custom ∧ r.2.out = [6] ∧ r.2.pool = {} := by
  have h1 : Sd[1]? = some .int := by decide
  simp [ser, flds, viaName, viaUnion, structStartAt, popSuperBuffer, bind, pure, serFields,
    fieldIdx, lookupLast, lookupLast.go, recordValue, h1, writeVarI64, writeAll, serInteger, e3,
    SerM.finally, SerM.fail, flushBuffered, structBodyFinish, structDrop, recordDrop]

set_option maxRecDepth 4000 in
/-- Duplicate whose first copy is still buffered: `custom` error, nothing written, the buffer and
    the super-buffer go back to the pool emptied. -/
example :
    let r := ser extD false Sd (.record nmR flds)
      (.struct "R" [("d", .bool true), ("d", .bool true)]) {}
    r.1 = .error .custom ∧ r.2.out = [] ∧ PoolClean r.2.pool := by
  have h4 : Sd[4]? = some .boolean := by decide
  simp [ser, flds, viaName, viaUnion, structStartAt, popSuperBuffer, bind, pure, serFields,
    fieldIdx, lookupLast, lookupLast.go, recordValue, h4, listResize, popBuffer,
    intoBuffer, writeAll, serBool, SerM.finally, SerM.fail, structBodyFinish, structDrop,
    recordDrop, getPool, setPool, pushSuperBuffer, PoolClean]

/-! At a union the struct and the map presentations are routed differently. -/

def nmA : Name := ⟨"A", "A", none⟩
def nmB : Name := ⟨"B", "B", none⟩
/-- a union of two records -/
def Su : Schema := #[.union [1, 2], .record nmA [("x", 3)], .record nmB [("y", 3)], .int]
/-- a nullable record -/
def Sv : Schema := #[.union [1, 2], .null, .record nmB [("y", 3)], .int]

set_option maxRecDepth 4000 in
/-- Union of two records: the struct named `B` is routed to the branch `B` by name and accepted;
    the same fields as a map are rejected (two branches compete for `structOrMap`). -/
example :
    (ser extD false Su (.union [1, 2]) (.struct "B" [("y", .int .i32 1)]) {}).1 = .ok () ∧
    (ser extD false Su (.union [1, 2]) (.struct "B" [("y", .int .i32 1)]) {}).2.out = [2, 2] ∧
    (ser extD false Su (.union [1, 2]) (.map none (strKeyEntries [("y", .int .i32 1)])) {}).1 =
      .error .custom := by
  have hn : namedLookup "B" (branchNodes Su [1, 2]) = some 1 := by decide
  have hu : unnamedLookup .structOrMap (branchNodes Su [1, 2]) = none := by decide
  have h2 : Su[2]? = some (.record nmB [("y", 3)]) := by decide
  have h3 : Su[3]? = some .int := by decide
  simp [ser, viaName, viaUnion, hn, hu, h2, h3, structStartAt, popSuperBuffer, bind, pure, serFields,
    fieldIdx, recordValue, writeVarI64, writeAll, serInteger, e1, SerM.fail,
    SerM.finally, flushBuffered, structBodyFinish, strKeyEntries,
    structFinish, structEnd, recordEnd, structDrop, recordDrop]

/-- Nullable record `["null", B]`: `C13_map_presentation_union` applies, both for the struct name
    `B` (same branch by name) and for a name no branch answers to. -/
example (len : Option Nat) (pres : List (String × SV)) (s : SerState) :
    ser extD false Sv (.union [1, 2]) (.map len (strKeyEntries pres)) s =
      ser extD false Sv (.union [1, 2]) (.struct "B" pres) s ∧
    ser extD false Sv (.union [1, 2]) (.map len (strKeyEntries pres)) s =
      ser extD false Sv (.union [1, 2]) (.struct "SomethingElse" pres) s :=
  ⟨C13_map_presentation_union extD false Sv [1, 2] 1 2 nmB [("y", 3)] (by decide) rfl rfl len "B"
      (.inr (by decide)) pres s,
   C13_map_presentation_union extD false Sv [1, 2] 1 2 nmB [("y", 3)] (by decide) rfl rfl len
      "SomethingElse" (.inl (by decide)) pres s⟩

end C13Demo

end Avro.Theorems
