import AvroModel.Theorems.C07
import AvroModel.Theorems.C07valid
/-
C07 — all parts together: the parser's rules are the specification's (`C07.lean`) and every
document valid in the sense of `Spec.ValidDoc` parses and resolves as the specification designates
(`C07valid.lean`).
-/
