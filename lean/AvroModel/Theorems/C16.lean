import AvroModel.Lemmas.OcfWriter
/-
C16: for every schedule of partial writes and interruptions by the sink, the byte stream the
sink ends up with is identical to the one a sink that accepts everything would get — nothing
lost, duplicated or reordered.  If the sink reports a hard error or accepts zero bytes, the
failing call returns an error.

`Benign` (only `interrupted` and `accept k`, `k ≥ 1`), `core` (a writer state without the sink's
schedule and call counter), `Sim`, `wrun` are defined in `Lemmas/OcfWriter.lean`.
-/
namespace Avro.Theorems
open Avro Avro.Impl Avro.Impl.Ocf

/-! ### 1. `IoSlice::advance_slices` -/

/-- Advancing by `n` drops exactly the first `n` bytes of the concatenation. (The bound on `n`
    is the precondition of the Rust function; the model does not need it.) -/
theorem C16_advanceSlices_flatten (bufs : List Bytes) (n : Nat) (_h : n ≤ bufs.flatten.length) :
    (advanceSlices bufs n).flatten = bufs.flatten.drop n :=
  advanceSlices_flatten bufs n

/-- `advance_slices(0)` strips leading empty buffers only: the result is a suffix of the list,
    its first buffer (if any) is not empty, and the concatenation is unchanged. -/
theorem C16_advanceSlices_zero (bufs : List Bytes) :
    (advanceSlices bufs 0).flatten = bufs.flatten ∧ advanceSlices bufs 0 <:+ bufs ∧
      (∀ b ∈ (advanceSlices bufs 0).head?, b ≠ []) ∧
      ((advanceSlices bufs 0).isEmpty = true ↔ bufs.flatten = []) :=
  ⟨advanceSlices_zero_flatten bufs, advanceSlices_zero_suffix bufs,
    advanceSlices_zero_head_ne_nil bufs, advanceSlices_zero_isEmpty bufs⟩

/-! ### 2. Benign schedules do not change the bytes delivered -/

theorem C16_schedule_independent (fuel : Nat) (bufs : List Bytes) (s : Sink)
    (hb : Benign s.sched) (hf : fuel ≥ sinkFuel s bufs) :
    ∃ s', writeAllVectored fuel bufs s = (.ok (), s') ∧ s'.data = s.data ++ bufs.flatten ∧
      Benign s'.sched :=
  writeAllVectored_benign fuel bufs s hb hf

/-- Same statement against the all-accepting sink: same result, same bytes. -/
theorem C16_schedule_independent' (bufs : List Bytes) (s : Sink) (hb : Benign s.sched) :
    let s₀ : Sink := { s with sched := [] }
    (writeAllVectored (sinkFuel s bufs) bufs s).1 = (writeAllVectored (sinkFuel s₀ bufs) bufs s₀).1 ∧
    (writeAllVectored (sinkFuel s bufs) bufs s).2.data
      = (writeAllVectored (sinkFuel s₀ bufs) bufs s₀).2.data := by
  intro s₀
  obtain ⟨s1, h1, h2, _⟩ := writeAllVectored_benign (sinkFuel s bufs) bufs s hb (Nat.le_refl _)
  obtain ⟨s2, h1', h2', _⟩ := writeAllVectored_benign (sinkFuel s₀ bufs) bufs s₀ Benign.nil (Nat.le_refl _)
  rw [h1, h1']
  exact ⟨rfl, by rw [h2, h2']⟩

/-- `write_all` (one buffer, plain writes). -/
theorem C16_schedule_independent_plain (fuel : Nat) (buf : Bytes) (s : Sink)
    (hb : Benign s.sched) (hf : fuel ≥ sinkFuel s [buf]) :
    ∃ s', writeAllPlain fuel buf s = (.ok (), s') ∧ s'.data = s.data ++ buf ∧ Benign s'.sched := by
  obtain ⟨s', h1, h2, h3⟩ := writeAllVectored_benign fuel [buf] s hb hf
  exact ⟨s', h1, by simpa using h2, h3⟩

/-! ### 3. Arbitrary schedules: a prefix is delivered, errors are reported -/

/-- Whatever the schedule and the outcome, the sink has received a prefix of the bytes offered
    (all of them when the call succeeds), and the schedule has been consumed from the front. -/
theorem C16_prefix (fuel : Nat) (bufs : List Bytes) (s : Sink) (r : Except WErr Unit) (s' : Sink)
    (h : writeAllVectored fuel bufs s = (r, s')) :
    ∃ m, m ≤ bufs.flatten.length ∧ s'.data = s.data ++ bufs.flatten.take m ∧
      (r = .ok () → m = bufs.flatten.length) ∧ s'.sched <:+ s.sched ∧ s.calls ≤ s'.calls := by
  rw [writeAllVectored_eq_flat] at h
  exact writeFlat_prefix fuel bufs.flatten s r s' h

theorem C16_prefix_on_error (fuel : Nat) (bufs : List Bytes) (s : Sink) (e : WErr) (s' : Sink)
    (h : writeAllVectored fuel bufs s = (.error e, s')) :
    ∃ m, s'.data = s.data ++ bufs.flatten.take m := by
  obtain ⟨m, _, h2, _⟩ := C16_prefix fuel bufs s _ s' h
  exact ⟨m, h2⟩

theorem C16_all_on_ok (fuel : Nat) (bufs : List Bytes) (s : Sink) (s' : Sink)
    (h : writeAllVectored fuel bufs s = (.ok (), s')) :
    s'.data = s.data ++ bufs.flatten := by
  obtain ⟨m, _, h2, h3, _⟩ := C16_prefix fuel bufs s _ s' h
  rw [h2, h3 rfl, List.take_length]

/-- `Ok(0)` from the sink (after any number of interruptions) while bytes remain: the call fails
    with the I/O error `WriteZero`; nothing was delivered. -/
theorem C16_zero_is_error (fuel : Nat) (bufs : List Bytes) (s : Sink) (pre rest : List SinkResp)
    (hs : s.sched = pre ++ .accept 0 :: rest) (hpre : ∀ r ∈ pre, r = .interrupted)
    (hbs : bufs.flatten ≠ []) (hf : pre.length < fuel) :
    writeAllVectored fuel bufs s =
      (.error .io, { s with sched := rest, calls := s.calls + pre.length + 1 }) := by
  rw [writeAllVectored_eq_flat]
  exact writeFlat_zero fuel bufs.flatten s pre rest hs hpre hbs hf

/-- A hard error from the sink (after any number of interruptions) while bytes remain: the call
    fails with that I/O error; nothing was delivered. -/
theorem C16_hard_error_is_error (fuel : Nat) (bufs : List Bytes) (s : Sink) (pre rest : List SinkResp)
    (hs : s.sched = pre ++ .hardError :: rest) (hpre : ∀ r ∈ pre, r = .interrupted)
    (hbs : bufs.flatten ≠ []) (hf : pre.length < fuel) :
    writeAllVectored fuel bufs s =
      (.error .io, { s with sched := rest, calls := s.calls + pre.length + 1 }) := by
  rw [writeAllVectored_eq_flat]
  exact writeFlat_hardError fuel bufs.flatten s pre rest hs hpre hbs hf

/-- The fuel the writer uses (`sinkFuel`) is enough for the two previous statements. -/
theorem C16_sinkFuel_enough (s : Sink) (bufs : List Bytes) (pre : List SinkResp) (r : SinkResp)
    (rest : List SinkResp) (hs : s.sched = pre ++ r :: rest) : pre.length < sinkFuel s bufs := by
  simp only [sinkFuel, hs, List.length_append, List.length_cons]; omega

/-! ### 4. The writer -/

/-- With a benign schedule, the pending block reaches the sink entirely and exactly once:
    header (count, size), data, sync marker. -/
theorem C16_flush_independent (c : Codec) (w : WState) (header : Bytes)
    (hp : w.pending = some header) (ht : ¬ w.taken) (hb : Benign w.sink.sched) :
    ∃ s1, flushFinishedBlock c w = (.ok (), { w with sink := s1, pending := none, buf := [] }) ∧
      s1.data = w.sink.data ++ (header ++ blockData c w ++ w.sync) ∧ Benign s1.sched :=
  flushFinishedBlock_benign c w header hp (by simpa using ht) hb

/-- One writer call: with a benign schedule, same result and same state (sink bytes, buffer,
    count, pending block, …) as with the all-accepting sink; the rest of the schedule is benign. -/
theorem C16_wstep_independent (c : Codec) (dbg : Bool) (w : WState) (op : WOp)
    (hb : Benign w.sink.sched) :
    (wstep c dbg w op).1 = (wstep c dbg (core w) op).1 ∧
      core (wstep c dbg w op).2 = core (wstep c dbg (core w) op).2 ∧
      Benign (wstep c dbg w op).2.sink.sched := by
  obtain ⟨h1, h2⟩ := wstep_sim c dbg w (core w) op (Sim.of_core w hb)
  exact ⟨h1, h2.core_eq, h2.benign⟩

/-- The same for two arbitrary benign schedules. -/
theorem C16_wstep_independent' (c : Codec) (dbg : Bool) (w w' : WState) (op : WOp)
    (h : Sim w w') :
    (wstep c dbg w op).1 = (wstep c dbg w' op).1 ∧ Sim (wstep c dbg w op).2 (wstep c dbg w' op).2 :=
  wstep_sim c dbg w w' op h

/-- What `core` keeps: everything but the schedule and the call counter. -/
theorem C16_core_fields (w w' : WState) (h : core w = core w') :
    w.sink.data = w'.sink.data ∧ w.buf = w'.buf ∧ w.n = w'.n ∧ w.pending = w'.pending ∧
      w.compressed = w'.compressed ∧ w.taken = w'.taken ∧ w.sync = w'.sync ∧ w.approx = w'.approx := by
  have := (core_eq_iff w w').1 h
  simp only [this, and_self]

/-- Whole histories of calls (`wrun` is a `List.foldl` of `wstep` collecting the results):
    same results of all calls, same final state up to the schedule. -/
theorem C16_run_independent (c : Codec) (dbg : Bool) (w : WState) (ops : List WOp)
    (hb : Benign w.sink.sched) :
    (wrun c dbg w ops).1 = (wrun c dbg (core w) ops).1 ∧
      core (wrun c dbg w ops).2 = core (wrun c dbg (core w) ops).2 ∧
      Benign (wrun c dbg w ops).2.sink.sched := by
  obtain ⟨h1, h2⟩ := wrun_sim c dbg ops w (core w) (Sim.of_core w hb)
  exact ⟨h1, h2.core_eq, h2.benign⟩

/-- In particular the bytes in the sink after a history of calls do not depend on the schedule. -/
theorem C16_run_sink_data (c : Codec) (dbg : Bool) (w : WState) (ops : List WOp)
    (hb : Benign w.sink.sched) :
    (wrun c dbg w ops).2.sink.data = (wrun c dbg (core w) ops).2.sink.data :=
  (C16_core_fields _ _ (C16_run_independent c dbg w ops hb).2.1).1

/-- Plain `List.foldl` on states. -/
theorem C16_foldl_independent (c : Codec) (dbg : Bool) (w : WState) (ops : List WOp)
    (hb : Benign w.sink.sched) :
    core (ops.foldl (fun w op => (wstep c dbg w op).2) w)
      = core (ops.foldl (fun w op => (wstep c dbg w op).2) (core w)) := by
  have key : ∀ (ops : List WOp) (w w' : WState), Sim w w' →
      Sim (ops.foldl (fun w op => (wstep c dbg w op).2) w)
        (ops.foldl (fun w op => (wstep c dbg w op).2) w') := by
    intro ops
    induction ops with
    | nil => intro w w' h; exact h
    | cons op ops ih =>
      intro w w' h
      exact ih _ _ (wstep_sim c dbg w w' op h).2
  exact (key ops w (core w) (Sim.of_core w hb)).core_eq

end Avro.Theorems
