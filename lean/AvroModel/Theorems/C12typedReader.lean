import AvroModel.Theorems.C12typed
import AvroModel.Theorems.C12reader
import AvroModel.Theorems.C04
/-
C12 / C11 — typed targets consume exactly the datum, on the STREAMING-READER back-end, for every
refill schedule.

`Theorems/C12typed.lean` proves, for the slice back-end, that for EVERY request `h` a typed read that
succeeds on a valid layout (`Spec.decodeX Limits.impl`: within the implementation's limits, block
byte sizes exact) ends in `{ s with rest := rest }`.  Here the same is obtained for a reader state
`r` (`isSlice = false`, any `sched` / `lastChunk`, any buffer position, any scratch size) through
C11 (`Lemmas/ReaderTransfer.lean`), as in `Theorems/C12reader.lean`.

What is stated about the final state `r'`.  Not `r' = { r with rest := rest }`: that is FALSE on the
reader (`TypedReaderNV.C12typedReader_state_depends_on_schedule`,
`TypedReaderNV.C12typedReader_typed_any_states_differ`: `avail`, `sched` and `scratch` depend on the
refill schedule and on the request).  What is true, and stated:
  * `r'.rest = rest`                      exactly the datum has been consumed;
  * `ReaderOK r'`                         still the reader back-end, no `Take` in place, the buffered
                                          part is a prefix of what is left, the allocation cap covers
                                          what is left — the hypotheses of the theorem again, so the
                                          next datum can be read under the same theorem;
  * `r'.maxAlloc = r.maxAlloc`            the cap is unchanged (C04);
  * `r'.scratch ≤ max r.scratch r.maxAlloc`  the scratch buffer is bounded by the cap (C04).
As in `C12typed.lean` only successful runs are looked at, so no hypothesis on the depth budget,
`max_seq_size`, the fuel or the `favor` flag is needed.

RESULTS
  * `C12_typed_consumes_all_reader`        every request, every valid layout, every schedule;
  * `C12_typed_consumes_all_reader_spec`   the same with the hypotheses in the shape of
                                           `C12_skip_all_layouts_reader`;
  * `C12_typed_reader_matches_slice`       … and the slice run from `sliceOf r` succeeds too, with the
                                           same value up to the `borrowed` flags;
  * `C12_typed_same_rest_as_any_reader`    a successful typed read and a successful `.any` read from
                                           the same reader state leave the same input;
  * `TypedReaderNV.C12typedReader_exact_needed`   `hexact` is necessary for that (wrong block byte size);
  * `TypedReaderNV.C12typedReader_alloc_needed`   the cap hypothesis `hm` is necessary for `ReaderOK r'`
                                           (for `r'.rest = rest` alone it is what C11 asks, `SimD.alloc`;
                                           no counterexample is known without it);
  * non-vacuity: `struct R { a: (i32, i32), b: i32 }` on `{a: [1, 2], b: 7}` followed by `2a`, behind a
    reader that delivers one byte per refill.
-/
namespace Avro.Theorems
open Avro Avro.Spec Avro.Impl

/-! ### 1. A successful typed read has consumed exactly the datum -/

/-- **C12, typed targets, every request, streaming reader.**  For EVERY request `h`, every schema,
    node, configuration, depth budget, fuel and `favor` flag, on every valid layout with exact block
    sizes, for a reader state with ANY refill schedule: if the typed read succeeds, it leaves
    exactly `rest`, in a state that is again `ReaderOK`, with the same allocation cap and a scratch
    buffer no larger than the cap (or than it was). -/
theorem C12_typed_consumes_all_reader (cfg : DeConfig) (S : Schema) (node : Node) (h : Hint)
    (v : Spec.Value) (bytes rest : Bytes) (depth fuelX fuel : Nat) (favor : Bool)
    (hdec : Spec.decodeX Limits.impl S fuelX node bytes = some (v, rest))
    (r r' : RState) (o : Out)
    (hs : r.isSlice = false) (hl : r.limit = none) (ha : r.avail ≤ r.rest.length)
    (hm : r.rest.length ≤ r.maxAlloc) (hr : r.rest = bytes)
    (hrun : de deExtModel cfg S fuel node depth favor h r = (.ok o, r')) :
    r'.rest = rest ∧ ReaderOK r' ∧ r'.maxAlloc = r.maxAlloc ∧
      r'.scratch ≤ max r.scratch r.maxAlloc := by
  obtain ⟨o₀, sl', hsl, _, hrest, hok'⟩ :=
    de_slice_of_reader deExtModel cfg S fuel node depth favor h ⟨hs, hl, ha, hm⟩ hrun
  have hsl' := C12_typed_consumes_all cfg S node h v bytes rest depth fuelX fuel favor hdec
    (sliceOf r) sl' o₀ rfl hl rfl hr hsl
  have hmem := C04_scratch_bounded deExtModel cfg S fuel node depth favor h r
  rw [hrun] at hmem
  exact ⟨by rw [hrest, hsl'], hok', hmem.1, hmem.2⟩

/-- the same with `ReaderOK r` as one hypothesis -/
theorem C12_typed_consumes_all_reader' (cfg : DeConfig) (S : Schema) (node : Node) (h : Hint)
    (v : Spec.Value) (bytes rest : Bytes) (depth fuelX fuel : Nat) (favor : Bool)
    (hdec : Spec.decodeX Limits.impl S fuelX node bytes = some (v, rest))
    (r r' : RState) (o : Out) (hok : ReaderOK r) (hr : r.rest = bytes)
    (hrun : de deExtModel cfg S fuel node depth favor h r = (.ok o, r')) :
    r'.rest = rest ∧ ReaderOK r' ∧ r'.maxAlloc = r.maxAlloc ∧
      r'.scratch ≤ max r.scratch r.maxAlloc :=
  C12_typed_consumes_all_reader cfg S node h v bytes rest depth fuelX fuel favor hdec r r' o
    hok.reader hok.nolimit hok.avail hok.alloc hr hrun

/-- in particular the remaining input is `rest` -/
theorem C12_typed_consumes_all_reader_rest (cfg : DeConfig) (S : Schema) (node : Node) (h : Hint)
    (v : Spec.Value) (bytes rest : Bytes) (depth fuelX fuel : Nat) (favor : Bool)
    (hdec : Spec.decodeX Limits.impl S fuelX node bytes = some (v, rest))
    (r r' : RState) (o : Out)
    (hs : r.isSlice = false) (hl : r.limit = none) (ha : r.avail ≤ r.rest.length)
    (hm : r.rest.length ≤ r.maxAlloc) (hr : r.rest = bytes)
    (hrun : de deExtModel cfg S fuel node depth favor h r = (.ok o, r')) :
    r'.rest = rest :=
  (C12_typed_consumes_all_reader cfg S node h v bytes rest depth fuelX fuel favor hdec r r' o
    hs hl ha hm hr hrun).1

/-- `C12_typed_consumes_all_reader` with the hypotheses in the shape of
    `C12_skip_all_layouts_reader`: `Spec.decode` accepts the input as `(v, rest)`, and it is within
    the implementation's limits with exact block sizes. -/
theorem C12_typed_consumes_all_reader_spec (cfg : DeConfig) (S : Schema) (node : Node) (h : Hint)
    (v : Spec.Value) (bytes rest : Bytes) (depth fuelS fuelX fuel : Nat) (favor : Bool)
    (hdec : Spec.decode S fuelS node bytes = some (v, rest))
    (hexact : (Spec.decodeX Limits.impl S fuelX node bytes).isSome = true)
    (r r' : RState) (o : Out)
    (hs : r.isSlice = false) (hl : r.limit = none) (ha : r.avail ≤ r.rest.length)
    (hm : r.rest.length ≤ r.maxAlloc) (hr : r.rest = bytes)
    (hrun : de deExtModel cfg S fuel node depth favor h r = (.ok o, r')) :
    r'.rest = rest ∧ ReaderOK r' ∧ r'.maxAlloc = r.maxAlloc ∧
      r'.scratch ≤ max r.scratch r.maxAlloc := by
  obtain ⟨x, hx⟩ := Option.isSome_iff_exists.1 hexact
  have := C12_decodeX_agrees S fuelX fuelS node bytes x (v, rest) hx hdec
  subst this
  exact C12_typed_consumes_all_reader cfg S node h v bytes rest depth fuelX fuel favor hx r r' o
    hs hl ha hm hr hrun

/-- **The reader run and the slice run.**  Under the same hypotheses the slice back-end over the same
    bytes (`sliceOf r`) succeeds too, with a value equal to `o` up to the `borrowed` flags, and ends
    in the state `C12_typed_consumes_all` gives. -/
theorem C12_typed_reader_matches_slice (cfg : DeConfig) (S : Schema) (node : Node) (h : Hint)
    (v : Spec.Value) (bytes rest : Bytes) (depth fuelX fuel : Nat) (favor : Bool)
    (hdec : Spec.decodeX Limits.impl S fuelX node bytes = some (v, rest))
    (r r' : RState) (o : Out)
    (hs : r.isSlice = false) (hl : r.limit = none) (ha : r.avail ≤ r.rest.length)
    (hm : r.rest.length ≤ r.maxAlloc) (hr : r.rest = bytes)
    (hrun : de deExtModel cfg S fuel node depth favor h r = (.ok o, r')) :
    ∃ o₀, de deExtModel cfg S fuel node depth favor h (sliceOf r) =
        (.ok o₀, { sliceOf r with rest := rest }) ∧
      unborrow o = unborrow o₀ ∧ r'.rest = rest := by
  obtain ⟨o₀, sl', hsl, ho, hrest, _⟩ :=
    de_slice_of_reader deExtModel cfg S fuel node depth favor h ⟨hs, hl, ha, hm⟩ hrun
  have hsl' := C12_typed_consumes_all cfg S node h v bytes rest depth fuelX fuel favor hdec
    (sliceOf r) sl' o₀ rfl hl rfl hr hsl
  subst hsl'
  exact ⟨o₀, hsl, ho, hrest⟩

/-! ### 2. A typed read ends where the self-describing read ends -/

/-- **C12, streaming reader: typed read vs `.any` read.**  For EVERY request: a successful typed
    read and a successful self-describing read from the same reader state (any refill schedule)
    leave the same remaining input — so whatever is read next is read from the same bytes — and
    both final states are `ReaderOK`.  The depth budgets, fuels and `favor` flags of the two runs
    are independent.  (The two final STATES differ in general:
    `C12typedReader_typed_any_states_differ`.) -/
theorem C12_typed_same_rest_as_any_reader (cfg : DeConfig) (S : Schema) (node : Node) (h : Hint)
    (depth depth' fuel fuel' : Nat) (favor : Bool)
    (r r₁ r₂ : RState) (o₁ o₂ : Out)
    (hs : r.isSlice = false) (hl : r.limit = none) (ha : r.avail ≤ r.rest.length)
    (hm : r.rest.length ≤ r.maxAlloc)
    (hexact : ∃ fuelX, (Spec.decodeX Limits.impl S fuelX node r.rest).isSome = true)
    (htyped : de deExtModel cfg S fuel node depth favor h r = (.ok o₁, r₁))
    (hany : de deExtModel cfg S fuel' node depth' false .any r = (.ok o₂, r₂)) :
    r₁.rest = r₂.rest ∧ ReaderOK r₁ ∧ ReaderOK r₂ := by
  obtain ⟨fuelX, hx⟩ := hexact
  obtain ⟨⟨v, rest⟩, hx⟩ := Option.isSome_iff_exists.1 hx
  obtain ⟨h₁, ok₁, _⟩ := C12_typed_consumes_all_reader cfg S node h v r.rest rest depth fuelX fuel
    favor hx r r₁ o₁ hs hl ha hm rfl htyped
  obtain ⟨h₂, ok₂, _⟩ := C12_typed_consumes_all_reader cfg S node .any v r.rest rest depth' fuelX
    fuel' false hx r r₂ o₂ hs hl ha hm rfl hany
  exact ⟨by rw [h₁, h₂], ok₁, ok₂⟩

/-- … and more generally any two successful typed reads (requests `h`, `h'`) of the same datum. -/
theorem C12_typed_same_rest_reader (cfg : DeConfig) (S : Schema) (node : Node) (h h' : Hint)
    (depth depth' fuel fuel' : Nat) (favor favor' : Bool)
    (r r₁ r₂ : RState) (o₁ o₂ : Out)
    (hs : r.isSlice = false) (hl : r.limit = none) (ha : r.avail ≤ r.rest.length)
    (hm : r.rest.length ≤ r.maxAlloc)
    (hexact : ∃ fuelX, (Spec.decodeX Limits.impl S fuelX node r.rest).isSome = true)
    (h₁ : de deExtModel cfg S fuel node depth favor h r = (.ok o₁, r₁))
    (h₂ : de deExtModel cfg S fuel' node depth' favor' h' r = (.ok o₂, r₂)) :
    r₁.rest = r₂.rest := by
  obtain ⟨fuelX, hx⟩ := hexact
  obtain ⟨⟨v, rest⟩, hx⟩ := Option.isSome_iff_exists.1 hx
  rw [C12_typed_consumes_all_reader_rest cfg S node h v r.rest rest depth fuelX fuel favor hx r r₁
      o₁ hs hl ha hm rfl h₁,
    C12_typed_consumes_all_reader_rest cfg S node h' v r.rest rest depth' fuelX fuel' favor' hx r r₂
      o₂ hs hl ha hm rfl h₂]

/-! ### 3. Non-vacuity: one byte per refill -/

namespace TypedReaderNV
open Avro.Theorems.NVB

/-- `c12Arr12` (`{a: [1, 2], b: 7}` for `record r {a: array<int>, b: int}`) followed by `2a`, behind
    a reader that delivers ONE byte per refill (`sched = []`, `lastChunk = 1`), cap 64 bytes. -/
def rT : RState :=
  { isSlice := false, rest := c12Arr12 ++ [0x2a], avail := 0, sched := [], lastChunk := 1,
    maxAlloc := 64 }

/-- the Rust target `struct R { a: (i32, i32), b: i32 }` -/
def hT : Hint := .struct [("a", .tuple 2 .any), ("b", .any)]

theorem rT_ok : ReaderOK rT := ⟨rfl, rfl, by decide, by decide⟩

/-- the layout is valid, the datum ends before `2a` -/
theorem rT_exact : Spec.decodeX Limits.impl c12Schema 10 c12TupleRec (c12Arr12 ++ [0x2a]) =
    some (.record [.array [.int 1, .int 2], .int 7], [0x2a]) := by rfl

/-- the typed run, by evaluation: the 2-tuple has read the end-of-array marker, `b = 7`, `2a` is
    left; the buffer is empty (every byte was delivered alone and consumed) -/
theorem rT_run : de deExtModel {} c12Schema 50 c12TupleRec 64 false hT rT =
    (.ok (.map [(.str "a" false, .seq [.i32 1, .i32 2]), (.str "b" false, .i32 7)]),
      { rT with rest := [0x2a], avail := 0 }) :=
  resEq_of (by decide +kernel)

/-- **`C12_typed_consumes_all_reader`**, every hypothesis discharged; it says where the read ends
    without looking at the run (and `rT_run` shows that the premise `hrun` is met). -/
theorem rT_instance (o : Out) (r' : RState)
    (hrun : de deExtModel {} c12Schema 50 c12TupleRec 64 false hT rT = (.ok o, r')) :
    r'.rest = [0x2a] ∧ ReaderOK r' ∧ r'.maxAlloc = 64 ∧ r'.scratch ≤ 64 :=
  C12_typed_consumes_all_reader {} c12Schema c12TupleRec hT _ (c12Arr12 ++ [0x2a]) [0x2a] 64 10 50
    false rT_exact rT r' o rfl rfl (by decide) (by decide) rfl hrun

/-- … applied to the run -/
example : ({ rT with rest := [0x2a], avail := 0 } : RState).rest = [0x2a] ∧
    ReaderOK { rT with rest := [0x2a], avail := 0 } ∧
    ({ rT with rest := [0x2a], avail := 0 } : RState).maxAlloc = 64 ∧
    ({ rT with rest := [0x2a], avail := 0 } : RState).scratch ≤ 64 :=
  rT_instance _ _ rT_run

/-- the self-describing run from the same state -/
theorem rT_any_run : de deExtModel {} c12Schema 50 c12TupleRec 64 false .any rT =
    (.ok (.map [(.str "a" false, .seq [.i32 1, .i32 2]), (.str "b" false, .i32 7)]),
      { rT with rest := [0x2a], avail := 0 }) :=
  resEq_of (by decide +kernel)

/-- **`C12_typed_same_rest_as_any_reader`**, every hypothesis discharged on the two runs. -/
example : ({ rT with rest := [0x2a], avail := 0 } : RState).rest =
      ({ rT with rest := [0x2a], avail := 0 } : RState).rest ∧
    ReaderOK { rT with rest := [0x2a], avail := 0 } ∧
    ReaderOK { rT with rest := [0x2a], avail := 0 } :=
  C12_typed_same_rest_as_any_reader {} c12Schema c12TupleRec hT 64 64 50 50 false rT _ _ _ _
    rfl rfl (by decide) (by decide) ⟨10, by rw [show rT.rest = c12Arr12 ++ [0x2a] from rfl, rT_exact]; rfl⟩
    rT_run rT_any_run

/-- **`C12_typed_reader_matches_slice`** on the run. -/
example : ∃ o₀, de deExtModel {} c12Schema 50 c12TupleRec 64 false hT (sliceOf rT) =
      (.ok o₀, { sliceOf rT with rest := [0x2a] }) ∧
    unborrow (.map [(.str "a" false, .seq [.i32 1, .i32 2]), (.str "b" false, .i32 7)]) =
      unborrow o₀ ∧
    ({ rT with rest := [0x2a], avail := 0 } : RState).rest = [0x2a] :=
  C12_typed_reader_matches_slice {} c12Schema c12TupleRec hT _ (c12Arr12 ++ [0x2a]) [0x2a] 64 10 50
    false rT_exact rT _ _ rfl rfl (by decide) (by decide) rfl rT_run

/-- a 1-tuple for `a` is an error on the reader too (the array has two items) -/
example : (de deExtModel {} c12Schema 50 c12TupleRec 64 false
    (.struct [("a", .tuple 1 .any), ("b", .any)]) rT).1 = .error .custom :=
  fstEq_of (by decide +kernel)

/-! ### 4. Why the conclusion is not a state equality, and why `hexact` is needed -/

/-- the same bytes behind a reader whose first refill delivers 4 bytes, the following ones 1 -/
def rT4 : RState := { rT with sched := [4] }

/-- **The slice form `r' = { r with rest := rest }` is false on the reader, and the final state
    depends on the refill schedule** (beyond `rest`): with a 4-byte first refill the schedule has been
    used up; both runs satisfy every hypothesis of `C12_typed_consumes_all_reader`, both leave `2a`.
    With a schedule whose refill covers the end of the datum `avail` is not `0` either. -/
theorem C12typedReader_state_depends_on_schedule :
    (de deExtModel {} c12Schema 50 c12TupleRec 64 false hT rT).2 =
      { rT with rest := [0x2a], avail := 0 } ∧
    (de deExtModel {} c12Schema 50 c12TupleRec 64 false hT rT4).2 =
      { rT4 with rest := [0x2a], avail := 0, sched := [] } ∧
    (de deExtModel {} c12Schema 50 c12TupleRec 64 false hT rT4).2 ≠ { rT4 with rest := [0x2a] } ∧
    (de deExtModel {} c12Schema 50 c12TupleRec 64 false hT { rT with lastChunk := 6 }).2 =
      { rT with lastChunk := 6, rest := [0x2a], avail := 1 } ∧
    (de deExtModel {} c12Schema 50 c12TupleRec 64 false hT { rT with lastChunk := 6 }).2 ≠
      { ({ rT with lastChunk := 6 } : RState) with rest := [0x2a] } := by
  refine ⟨by rw [rT_run], by decide +kernel, by decide +kernel, by decide +kernel, by decide +kernel⟩

/-- **A typed read and the `.any` read from the same reader state end in different states** (same
    `rest`): on `ReaderNV.rQ` (`["hey"]` in a block written with its byte size, the string
    straddling two refills) the `.any` read copies the string through a 3-byte scratch buffer, the
    typed read `Option<IgnoredAny>` jumps over the block and allocates nothing.  So
    `C12_typed_same_rest_as_any_reader` cannot conclude `r₁ = r₂` (the slice theorem
    `C12_typed_same_state_as_any_all` does). -/
theorem C12typedReader_typed_any_states_differ :
    de deExtModel {} ReaderNV.SQ 100 (.array 1) 64 false .any ReaderNV.rQ =
      (.ok (.seq [.str "hey" false]),
        { ReaderNV.rQ with rest := [7], avail := 0, sched := [], scratch := 3 }) ∧
    de deExtModel {} ReaderNV.SQ 100 (.array 1) 64 false (.option .ignored) ReaderNV.rQ =
      (.ok (.some .unit),
        { ReaderNV.rQ with rest := [7], avail := 0, sched := [], scratch := 0 }) ∧
    (de deExtModel {} ReaderNV.SQ 100 (.array 1) 64 false (.option .ignored) ReaderNV.rQ).2 ≠
      (de deExtModel {} ReaderNV.SQ 100 (.array 1) 64 false .any ReaderNV.rQ).2 :=
  ⟨ReaderNV.C12reader_skip_state_differs.2.1, resEq_of (by decide +kernel), by decide +kernel⟩

/-- `c12WrongSize` (`a`: one block announcing byte size 2 for a 1-byte item; `b`; then `06`) behind
    the one-byte-per-refill reader -/
def rW : RState := { rT with rest := c12WrongSize }

/-- **`hexact` is necessary in `C12_typed_same_rest_as_any_reader`** (and `hdec` on `decodeX`, not
    on `Spec.decode`, in `C12_typed_consumes_all_reader`).  `Spec.decode` accepts `c12WrongSize`
    (leaving `06`), `decodeX` refuses it; from the same `ReaderOK` state the `.any` read and the
    typed read `struct { b }` both SUCCEED and leave different inputs. -/
theorem C12typedReader_exact_needed :
    ReaderOK rW ∧
    Spec.decode c12Schema 10 c12TupleRec rW.rest =
      some (.record [.array [.int 1], .int 0], [0x06]) ∧
    Spec.decodeX Limits.impl c12Schema 10 c12TupleRec rW.rest = none ∧
    de deExtModel {} c12Schema 50 c12TupleRec 64 false .any rW =
      (.ok (.map [(.str "a" false, .seq [.i32 1]), (.str "b" false, .i32 0)]),
        { rW with rest := [0x06], avail := 0 }) ∧
    de deExtModel {} c12Schema 50 c12TupleRec 64 false (.struct [("b", .any)]) rW =
      (.ok (.map [(.str "a" false, .unit), (.str "b" false, .i32 3)]),
        { rW with rest := [], avail := 0 }) ∧
    (de deExtModel {} c12Schema 50 c12TupleRec 64 false (.struct [("b", .any)]) rW).2.rest ≠
      (de deExtModel {} c12Schema 50 c12TupleRec 64 false .any rW).2.rest := by
  refine ⟨⟨rfl, rfl, by decide, by decide⟩, by rfl, by rfl, resEq_of (by decide +kernel),
    resEq_of (by decide +kernel), by decide +kernel⟩

/-- **The cap hypothesis `hm` is necessary for the conclusion `ReaderOK r'`.**  A reader whose cap
    (`max_alloc_size`) is smaller than what is left: every other hypothesis holds, the read of an
    `int` succeeds and leaves exactly `rest`, but the final state does not satisfy `ReaderOK` (its
    `alloc` component), so the theorem could not be applied to the next datum. -/
theorem C12typedReader_alloc_needed :
    let r : RState := { isSlice := false, rest := [0x02, 0x2a], maxAlloc := 0 }
    r.isSlice = false ∧ r.limit = none ∧ r.avail ≤ r.rest.length ∧ ¬ r.rest.length ≤ r.maxAlloc ∧
    Spec.decodeX Limits.impl #[.int] 5 .int r.rest = some (.int 1, [0x2a]) ∧
    de deExtModel {} #[.int] 50 .int 64 false .i64 r =
      (.ok (.i32 1), { r with rest := [0x2a], avail := 0 }) ∧
    ¬ ReaderOK (de deExtModel {} #[.int] 50 .int 64 false .i64 r).2 := by
  refine ⟨rfl, rfl, by decide, by decide, by rfl, resEq_of (by decide +kernel), ?_⟩
  intro h
  exact absurd h.alloc (by decide +kernel)

end TypedReaderNV

end Avro.Theorems
