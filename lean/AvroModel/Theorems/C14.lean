import AvroModel.Lemmas.SerSim
/-
C14: a `SerializerConfig` can be reused.  Whatever a serialization does (success, a custom error
at any depth, an I/O error after any number of bytes) a clean buffer pool is handed back clean,
and on a clean pool none of the `assert!(v.is_empty())` sites nor the `field_idx` `Equal` arm can
be reached; the only `.panic` the model can produce is a schema key out of bounds.
-/
namespace Avro.Theorems
open Avro Avro.Impl

/-- C14.1: for every outcome, a clean pool stays clean. -/
theorem C14_pool_clean (ext : Ext) (allowSlow : Bool) (S : Schema) (node : Node) (sv : SV)
    (s : SerState) (h : PoolClean s.pool) : PoolClean (ser ext allowSlow S node sv s).2.pool :=
  ((ser_tr (P := False) ext allowSlow (fun hp => hp.elim) sv node (fun hp => hp.elim)).out s h).1

/-- C14.2 with the hypothesis the statement needs: the start node's own child keys are in bounds
    (`NodeOK S node := ∀ k ∈ node.children, k < S.size`; automatic when `node` is a node of `S`,
    see `C14_no_assert_panic_of_get`).  Without it the statement is false, see
    `C14_no_assert_panic_counterexample`. -/
theorem C14_no_assert_panic_partial (ext : Ext) (allowSlow : Bool) (S : Schema) (node : Node)
    (sv : SV) (s : SerState) (h : PoolClean s.pool) (hn : NodeOK S node) :
    (ser ext allowSlow S node sv s).1 ≠ .error .panic ∨ ¬ S.keysInBounds := by
  by_cases hk : S.keysInBounds = true
  · left
    exact (((ser_tr (P := True) ext allowSlow (fun _ => hk) sv node (fun _ => hn)).out s h).2
      trivial).1
  · right; exact hk

/-- C14.2 for a start node taken from the schema (the crate always starts at the root `S[0]`). -/
theorem C14_no_assert_panic_of_get (ext : Ext) (allowSlow : Bool) (S : Schema) (k : Nat)
    (node : Node) (hnode : S[k]? = some node) (sv : SV) (s : SerState) (h : PoolClean s.pool) :
    (ser ext allowSlow S node sv s).1 ≠ .error .panic ∨ ¬ S.keysInBounds := by
  by_cases hk : S.keysInBounds = true
  · exact C14_no_assert_panic_partial ext allowSlow S node sv s h (NodeOK.of_get hk hnode)
  · right; exact hk

/-- The unconditional statement fails for a start node that is not a node of the schema:
    `S = #[]` (all keys trivially in bounds), `node = union [5]`, `sv = unitStruct "x"`:
    the `null` pseudo-branch is selected and resolving key 5 panics. -/
theorem C14_no_assert_panic_counterexample :
    ∃ (ext : Ext) (allowSlow : Bool) (S : Schema) (node : Node) (sv : SV) (s : SerState),
      PoolClean s.pool ∧ (ser ext allowSlow S node sv s).1 = .error .panic ∧ S.keysInBounds := by
  refine ⟨⟨fun _ => 0, fun _ => none, fun _ => none, fun d _ => d⟩, false, #[], .union [5],
    .unitStruct "x", {}, PoolClean.empty, ?_, ?_⟩
  · rfl
  · simp [Schema.keysInBounds]

/-- On a clean pool the two `assert!(v.is_empty())` pops never fire. -/
theorem C14_pop_never_panics (s : SerState) (h : PoolClean s.pool) :
    (popBuffer s).1 ≠ .error .panic ∧ (popSuperBuffer s).1 ≠ .error .panic :=
  ⟨(((popBuffer_tr (P := True)).out s h).2 trivial).1,
   (((popSuperBuffer_tr (P := True)).out s h).2 trivial).1⟩

/-- `field_idx` never reaches its `Ordering::Equal => panic!` arm. -/
theorem C14_fieldIdx_no_panic (fields : List (String × Nat)) (rs : RecordState) (name : String) :
    fieldIdx fields rs name ≠ .error .panic :=
  fieldIdx_no_panic fields rs name

/-- General form of C14.3: two runs whose writers differ by a prefix `pre`, with the same budget
    and arbitrary clean pools, give the same result, the same bytes after the prefix and the same
    remaining budget. -/
theorem C14_pool_prefix_irrelevant (ext : Ext) (allowSlow : Bool) (S : Schema) (node : Node)
    (sv : SV) (pre o : Bytes) (b : Option Nat) (p1 p2 : Pool) (h1 : PoolClean p1)
    (h2 : PoolClean p2) :
    (ser ext allowSlow S node sv { out := pre ++ o, budget := b, pool := p1 }).1 =
      (ser ext allowSlow S node sv { out := o, budget := b, pool := p2 }).1 ∧
    (ser ext allowSlow S node sv { out := pre ++ o, budget := b, pool := p1 }).2.out =
      pre ++ (ser ext allowSlow S node sv { out := o, budget := b, pool := p2 }).2.out ∧
    (ser ext allowSlow S node sv { out := pre ++ o, budget := b, pool := p1 }).2.budget =
      (ser ext allowSlow S node sv { out := o, budget := b, pool := p2 }).2.budget := by
  have hs : SerSim False pre { out := pre ++ o, budget := b, pool := p1 }
      { out := o, budget := b, pool := p2 } := ⟨rfl, rfl, fun h => h.elim, h1, h2⟩
  rcases (ser_par (U := False) ext allowSlow sv node).out _ _ _ hs with
    ⟨_, _, t1, t2, e1, e2, rfl, ht⟩ | ⟨e, t1, t2, e1, e2, ht⟩
  · rw [e1, e2]; exact ⟨rfl, ht.1, ht.2.1⟩
  · rw [e1, e2]; exact ⟨rfl, ht.1, ht.2.1⟩

/-- C14.3: for a clean pool, the result, the bytes written and the remaining budget are those of
    a run with the empty pool: what is in a (clean) `SerializerConfig` is unobservable. -/
theorem C14_pool_irrelevant (ext : Ext) (allowSlow : Bool) (S : Schema) (node : Node) (sv : SV)
    (o : Bytes) (b : Option Nat) (p : Pool) (hp : PoolClean p) :
    (ser ext allowSlow S node sv { out := o, budget := b, pool := p }).1 =
      (ser ext allowSlow S node sv { out := o, budget := b, pool := {} }).1 ∧
    (ser ext allowSlow S node sv { out := o, budget := b, pool := p }).2.out =
      (ser ext allowSlow S node sv { out := o, budget := b, pool := {} }).2.out ∧
    (ser ext allowSlow S node sv { out := o, budget := b, pool := p }).2.budget =
      (ser ext allowSlow S node sv { out := o, budget := b, pool := {} }).2.budget := by
  have := C14_pool_prefix_irrelevant ext allowSlow S node sv [] o b p {} hp PoolClean.empty
  simpa using this

end Avro.Theorems
