import AvroModel.Lemmas.DeAccepts
/-
C12, skipping: ignoring a value (`deserialize_ignored_any` with serde's `IgnoredAny`) consumes
exactly its canonical encoding; a struct target that lists only some of the fields of a record
gets, for the listed fields, what the full read gets, and leaves the same input.

Proofs are in `AvroModel/Lemmas/DeAccepts.lean`.

The hypothesis `hobs : (Spec.observe S n v).isSome` CANNOT be dropped from `C12_skip_canonical`:
ignoring a decimal goes through `deserialize_any`, hence through `rust_decimal`, and fails for
|unscaled| ≥ 2^96 or scale > 28 exactly as the full read does
(`C12_skip_big_decimal_rejected` below).  For values without decimals it is implied by `henc`.
The other side conditions are those of `C01_de_accepts` (see `Theorems/C01de.lean`).
-/
namespace Avro.Theorems
open Avro Avro.Impl

/-- **C12 (skipping a canonical encoding)**, sharp fuel bound. -/
theorem C12_skip_canonical_fuel3 (cfg : DeConfig) (S : Schema) (n : Node) (v : Spec.Value)
    (enc rest : Bytes) (depth : Nat)
    (henc : Spec.encode S n v = some enc) (hobs : (Spec.observe S n v).isSome = true)
    (hfix : Spec.fixedDecOk S n v = true)
    (hdepth : Spec.depthOf v ≤ depth) (hseq : Spec.maxLen v ≤ cfg.maxSeqSize)
    (fuel : Nat) (hfuel : 3 * Spec.size v ≤ fuel)
    (s : RState) (hs : s.isSlice = true) (hl : s.limit = none) (ha : s.avail = 0)
    (hr : s.rest = enc ++ rest) :
    de deExtModel cfg S fuel n depth false .ignored s = (.ok .unit, { s with rest := rest }) := by
  obtain ⟨o, ho⟩ := Option.isSome_iff_exists.1 hobs
  obtain ⟨o', hreads, _, hu⟩ := deOK cfg S v n enc o depth fuel .ignored henc ho hfix hdepth hseq
    hfuel (Or.inr rfl)
  rw [← hu rfl]
  exact hreads.run rest s hs hl ha hr

/-- **C12 (skipping a canonical encoding).** -/
theorem C12_skip_canonical (cfg : DeConfig) (S : Schema) (n : Node) (v : Spec.Value)
    (enc rest : Bytes) (depth : Nat)
    (henc : Spec.encode S n v = some enc) (hobs : (Spec.observe S n v).isSome = true)
    (hfix : Spec.fixedDecOk S n v = true)
    (hdepth : Spec.depthOf v ≤ depth) (hseq : Spec.maxLen v ≤ cfg.maxSeqSize)
    (fuel : Nat) (hfuel : Spec.size v * 4 + 8 ≤ fuel)
    (s : RState) (hs : s.isSlice = true) (hl : s.limit = none) (ha : s.avail = 0)
    (hr : s.rest = enc ++ rest) :
    de deExtModel cfg S fuel n depth false .ignored s = (.ok .unit, { s with rest := rest }) :=
  C12_skip_canonical_fuel3 cfg S n v enc rest depth henc hobs hfix hdepth hseq fuel (by omega)
    s hs hl ha hr

/-- Skipping and reading consume the same bytes. -/
theorem C12_skip_same_rest (cfg : DeConfig) (S : Schema) (n : Node) (v : Spec.Value)
    (enc rest : Bytes) (depth : Nat)
    (henc : Spec.encode S n v = some enc) (hobs : (Spec.observe S n v).isSome = true)
    (hfix : Spec.fixedDecOk S n v = true)
    (hdepth : Spec.depthOf v ≤ depth) (hseq : Spec.maxLen v ≤ cfg.maxSeqSize)
    (fuel : Nat) (hfuel : Spec.size v * 4 + 8 ≤ fuel)
    (s : RState) (hs : s.isSlice = true) (hl : s.limit = none) (ha : s.avail = 0)
    (hr : s.rest = enc ++ rest) :
    (de deExtModel cfg S fuel n depth false .ignored s).2 =
      (de deExtModel cfg S fuel n depth false .any s).2 := by
  obtain ⟨o, ho⟩ := Option.isSome_iff_exists.1 hobs
  rw [C12_skip_canonical cfg S n v enc rest depth henc hobs hfix hdepth hseq fuel hfuel s hs hl ha hr]
  obtain ⟨o', hreads, _, _⟩ := deOK cfg S v n enc o depth fuel .any henc ho hfix hdepth hseq
    (by omega) (Or.inl rfl)
  rw [hreads.run rest s hs hl ha hr]

/-- **C12 (struct target listing a subset of the fields).**  For a record node and a struct target
    whose listed fields `fs` are all dynamically typed (`.any`), the deserializer delivers the
    entries of the full read `os` with the value of every field that is not listed replaced by
    `unit` (it was skipped), keys and listed values unchanged (`maskEntry`), and consumes exactly
    the encoding. -/
theorem C12_struct_subset (cfg : DeConfig) (S : Schema) (nm : Name) (fields : List (String × Nat))
    (v : Spec.Value) (enc rest : Bytes) (o : Out) (depth : Nat)
    (fs : List (String × Hint)) (hfs : ∀ p ∈ fs, p.2 = .any)
    (henc : Spec.encode S (.record nm fields) v = some enc)
    (hobs : Spec.observe S (.record nm fields) v = some o)
    (hfix : Spec.fixedDecOk S (.record nm fields) v = true)
    (hdepth : Spec.depthOf v ≤ depth) (hseq : Spec.maxLen v ≤ cfg.maxSeqSize)
    (fuel : Nat) (hfuel : Spec.size v * 4 + 8 ≤ fuel)
    (s : RState) (hs : s.isSlice = true) (hl : s.limit = none) (ha : s.avail = 0)
    (hr : s.rest = enc ++ rest) :
    ∃ os, o = .map os ∧
      de deExtModel cfg S fuel (.record nm fields) depth false .any s =
        (.ok (.map os), { s with rest := rest }) ∧
      de deExtModel cfg S fuel (.record nm fields) depth false (.struct fs) s =
        (.ok (.map (os.map (maskEntry fs))), { s with rest := rest }) := by
  have hfull := deOK cfg S v (.record nm fields) enc o depth fuel .any henc hobs hfix hdepth hseq
    (by omega) (Or.inl rfl)
  obtain ⟨o', hreads, ho, _⟩ := hfull
  have ho' := ho rfl
  subst ho'
  cases v with
  | record vals =>
    simp only [Spec.encode] at henc
    simp only [Spec.observe, Option.map_eq_some_iff] at hobs
    obtain ⟨os, hos, rfl⟩ := hobs
    simp only [Spec.fixedDecOk] at hfix
    simp only [Spec.depthOf] at hdepth
    simp only [Spec.maxLen] at hseq
    simp only [Spec.size] at hfuel
    refine ⟨os, rfl, hreads.run rest s hs hl ha hr, ?_⟩
    obtain ⟨d, rfl⟩ : ∃ d, depth = d + 1 := ⟨depth - 1, by omega⟩
    obtain ⟨f, rfl⟩ : ∃ f, fuel = f + 2 := ⟨fuel - 2, by omega⟩
    have hf := fields_struct_ok cfg S fs hfs fields vals enc os d f [] henc hos hfix (by omega)
      (by omega) (by omega)
    have hrd : Reads (de deExtModel cfg S (f + 2) (.record nm fields) (d + 1) false (.struct fs))
        enc (.map (os.map (maskEntry fs))) := by
      rw [de, deAny]
      refine Reads.bind_nil (reads_decDepth d) ?_
      exact Reads.bind_right_nil (hf.congr rfl rfl (by simp)) (Reads.pure _)
    exact hrd.run rest s hs hl ha hr
  | _ => simp [Spec.encode] at henc

/-- In particular both runs leave the same input (and the same state). -/
theorem C12_struct_subset_rest (cfg : DeConfig) (S : Schema) (nm : Name)
    (fields : List (String × Nat))
    (v : Spec.Value) (enc rest : Bytes) (o : Out) (depth : Nat)
    (fs : List (String × Hint)) (hfs : ∀ p ∈ fs, p.2 = .any)
    (henc : Spec.encode S (.record nm fields) v = some enc)
    (hobs : Spec.observe S (.record nm fields) v = some o)
    (hfix : Spec.fixedDecOk S (.record nm fields) v = true)
    (hdepth : Spec.depthOf v ≤ depth) (hseq : Spec.maxLen v ≤ cfg.maxSeqSize)
    (fuel : Nat) (hfuel : Spec.size v * 4 + 8 ≤ fuel)
    (s : RState) (hs : s.isSlice = true) (hl : s.limit = none) (ha : s.avail = 0)
    (hr : s.rest = enc ++ rest) :
    (de deExtModel cfg S fuel (.record nm fields) depth false (.struct fs) s).2 =
      (de deExtModel cfg S fuel (.record nm fields) depth false .any s).2 ∧
    (de deExtModel cfg S fuel (.record nm fields) depth false (.struct fs) s).2.rest = rest := by
  obtain ⟨os, _, h1, h2⟩ := C12_struct_subset cfg S nm fields v enc rest o depth fs hfs henc hobs
    hfix hdepth hseq fuel hfuel s hs hl ha hr
  rw [h1, h2]
  exact ⟨rfl, rfl⟩

/-! ### `hobs` is necessary for skipping -/

def nm13 : Name := { fq := "d", short := "d", ns := none }

/-- The decimal `2^96` on a 13-byte `fixed` has a canonical encoding (`01 00 … 00`), but ignoring
    it fails: `deserialize_ignored_any` runs `read_decimal`, and `rust_decimal` refuses the
    value. -/
theorem C12_skip_big_decimal_rejected :
    Spec.encode #[] (.decimal 0 40 (.fixed nm13 13)) (.decimal (2 ^ 96)) =
      some (1 :: List.replicate 12 0) ∧
    Spec.observe #[] (.decimal 0 40 (.fixed nm13 13)) (.decimal (2 ^ 96)) = none ∧
    Spec.fixedDecOk #[] (.decimal 0 40 (.fixed nm13 13)) (.decimal (2 ^ 96)) = true ∧
    (de deExtModel {} #[] 20 (.decimal 0 40 (.fixed nm13 13)) 64 false .ignored
      { rest := 1 :: List.replicate 12 0 }).1 = .error .custom := by
  refine ⟨by decide, by simp [Spec.observe, decToStringModel], by decide, ?_⟩
  simp [de, deIgnored, deAny, readDecimal, readExact, readExactR, readSome, fillBuf, consume,
    i128OfBE, beToNat, leToNat, deExtModel, decToStringModel, DeM.fail, bind, pure]

end Avro.Theorems
