import AvroModel.Lemmas.PcfInjective
import AvroModel.Theorems.C08spec
import AvroModel.Theorems.C18
/-
C08 (injectivity of the canonical form): "two schemas have the same Parsing Canonical Form only if
they agree in names, field order, symbols, sizes and structure".

`Spec.Pcf.Canon` (`Lemmas/PcfCanon.lean`) is the canonical STRUCTURE of a schema document: the
primitive kind; the fullname of a named type with, for a record, the ordered (field name, field
type) list, for an enum the ordered symbols, for a fixed the size; items, values, ordered
branches; a further occurrence of a name is a reference.  `canonOf j` reads it off the document,
`Canon.text` prints it.

* `C08_pcf_factors`: the specification's transformation (`Spec.Pcf.parsingCanonicalForm`) is
  `Canon.text ∘ canonOf` — same domain, same text.
* `C08_canon_text_injective`: `Canon.text` is injective on the structures satisfying the decidable
  condition `CanonNamesOk`: no `"` inside a fullname, field name or symbol (the printer — like the
  crate and the reference implementation — writes strings RAW between quotes, no escaping), and no
  reference whose fullname is a primitive type name.  Avro names are `[A-Za-z_][A-Za-z0-9_]*`
  separated by dots and a primitive type name cannot be defined, so the condition holds for every
  schema that is valid in the sense of the specification.  Both parts are necessary
  (`C08_quote_needed`, `C08_primitive_name_needed`); the crate does not validate names, and the
  model shows two pairs of accepted documents with one canonical form and two structures
  (`C08_crate_collision_quote`, `C08_crate_collision_primitive_name`).
* `C08_pcf_injective`, `C08_crate_pcf_injective`: same text ⇒ same structure, for the
  specification's transformation and for the crate's parser + writer model (documents without
  forward reference, `C08_pcf_is_spec`).
* `C08_same_structure_same_fingerprint`: same structure ⇒ same canonical form ⇒ same fingerprint
  (which is the CRC-64-AVRO of that text).
-/
namespace Avro.Theorems
open Avro Avro.Impl Avro.Spec.Pcf

/-- The strings of the structure contain no `"` and no reference bears a primitive type name. -/
def CanonNamesOk (c : Canon) : Prop := c.namesOk = true

instance (c : Canon) : Decidable (CanonNamesOk c) := by unfold CanonNamesOk; infer_instance

/-- The same condition on a document: on its canonical structure, if it has one. -/
def DocNamesOk (j : Json) : Prop := ∀ c, canonOf j = some c → CanonNamesOk c

instance (j : Json) : Decidable (DocNamesOk j) :=
  match h : canonOf j with
  | none => isTrue (by intro c hc; rw [h] at hc; cases hc)
  | some c =>
    if hc : CanonNamesOk c then isTrue (by intro c' hc'; rw [h] at hc'; cases hc'; exact hc)
    else isFalse (fun hall => hc (hall c h))

/-! ### factorisation -/

/-- **C08_pcf_factors**: the specification's transformation of a document is defined exactly where
    the canonical structure is, and its text is the text of the structure. -/
theorem C08_pcf_factors (j : Json) :
    parsingCanonicalForm j = (canonOf j).map Canon.text :=
  parsingCanonicalForm_eq j

/-- … in the form "for every document on which the transformation is defined". -/
theorem C08_pcf_factors_some {j : Json} {t : String} (h : parsingCanonicalForm j = some t) :
    ∃ c, canonOf j = some c ∧ t = c.text := by
  rw [C08_pcf_factors] at h
  cases hc : canonOf j with
  | none => rw [hc] at h; cases h
  | some c => rw [hc] at h; exact ⟨c, rfl, by simpa using h.symm⟩

/-- the tree version: `canon` is the JSON tree of the structure -/
theorem C08_canon_factors (enc : Option String) (j : Json) :
    canon enc j = (canonOfIn enc j).map Canon.toJson :=
  canon_factors enc j

/-! ### injectivity of the printer -/

/-- **C08_canon_text_injective**: the text determines the structure. -/
theorem C08_canon_text_injective {c₁ c₂ : Canon} (h₁ : CanonNamesOk c₁) (h₂ : CanonNamesOk c₂)
    (h : c₁.text = c₂.text) : c₁ = c₂ :=
  Canon.text_injective h₁ h₂ h

/-- The text is self-delimiting: a parser reads the structure back and stops at its end. -/
theorem C08_canon_parse_text (c : Canon) (h : CanonNamesOk c) (rest : List Char) :
    Canon.parse (c.text.toList ++ rest) = some (c, rest) := by
  rw [Canon.toList_text]; exact Canon.parse_chars c rest h

/-- More: the text of a structure followed by anything determines the structure and what
    follows (the grammar is unambiguous and prefix-free). -/
theorem C08_canon_text_prefix_free {c₁ c₂ : Canon} {r₁ r₂ : List Char}
    (h₁ : CanonNamesOk c₁) (h₂ : CanonNamesOk c₂)
    (h : c₁.text.toList ++ r₁ = c₂.text.toList ++ r₂) : c₁ = c₂ ∧ r₁ = r₂ := by
  rw [Canon.toList_text, Canon.toList_text] at h
  exact Canon.chars_append_injective h₁ h₂ h

/-- Without the condition on `"`: an enum with the ONE symbol `a","b` and an enum with the TWO
    symbols `a`, `b` have the same text. -/
theorem C08_quote_needed :
    (Canon.enum "E" ["a\",\"b"]).text = (Canon.enum "E" ["a", "b"]).text ∧
    Canon.enum "E" ["a\",\"b"] ≠ Canon.enum "E" ["a", "b"] ∧
    ¬ CanonNamesOk (Canon.enum "E" ["a\",\"b"]) ∧ CanonNamesOk (Canon.enum "E" ["a", "b"]) := by
  refine ⟨by decide +kernel, ?_, by decide +kernel, by decide +kernel⟩
  intro h
  injection h with _ h
  injection h with h _
  exact absurd h (by decide)

/-- Without the condition on references: a reference to a named type whose fullname is `int`
    and the primitive `int` have the same text. -/
theorem C08_primitive_name_needed :
    (Canon.ref "int").text = (Canon.prim .int).text ∧ Canon.ref "int" ≠ Canon.prim .int ∧
    ¬ CanonNamesOk (Canon.ref "int") ∧ CanonNamesOk (Canon.prim .int) := by
  refine ⟨by decide +kernel, ?_, by decide +kernel, by decide +kernel⟩
  intro h; cases h

/-! ### the specification's transformation -/

/-- **C08_pcf_injective**: two documents with the same Parsing Canonical Form have the same
    canonical structure. -/
theorem C08_pcf_injective {j₁ j₂ : Json} {t : String}
    (h₁ : parsingCanonicalForm j₁ = some t) (h₂ : parsingCanonicalForm j₂ = some t)
    (ok₁ : DocNamesOk j₁) (ok₂ : DocNamesOk j₂) :
    canonOf j₁ = canonOf j₂ := by
  obtain ⟨c₁, e₁, rfl⟩ := C08_pcf_factors_some h₁
  obtain ⟨c₂, e₂, e⟩ := C08_pcf_factors_some h₂
  rw [e₁, e₂, C08_canon_text_injective (ok₁ c₁ e₁) (ok₂ c₂ e₂) e]

/-- Conversely (no condition): the same structure gives the same text. -/
theorem C08_same_structure_same_pcf {j₁ j₂ : Json} (h : canonOf j₁ = canonOf j₂) :
    parsingCanonicalForm j₁ = parsingCanonicalForm j₂ := by
  rw [C08_pcf_factors, C08_pcf_factors, h]

/-- Same text iff same structure. -/
theorem C08_pcf_eq_iff {j₁ j₂ : Json} (ok₁ : DocNamesOk j₁) (ok₂ : DocNamesOk j₂)
    (d₁ : (parsingCanonicalForm j₁).isSome = true) :
    parsingCanonicalForm j₁ = parsingCanonicalForm j₂ ↔ canonOf j₁ = canonOf j₂ := by
  constructor
  · intro h
    obtain ⟨t, ht⟩ := Option.isSome_iff_exists.mp d₁
    exact C08_pcf_injective ht (h ▸ ht) ok₁ ok₂
  · exact C08_same_structure_same_pcf

/-- At document level both parts of `DocNamesOk` are needed: a dotted reference with an empty
    namespace part (`.int`) denotes the fullname `int`. -/
theorem C08_pcf_not_injective_without_hypothesis :
    parsingCanonicalForm (.str ".int") = parsingCanonicalForm (.str "int") ∧
    canonOf (.str ".int") = some (.ref "int") ∧ canonOf (.str "int") = some (.prim .int) := by
  refine ⟨by decide +kernel, rfl, rfl⟩

/-! ### the crate: parser model, then canonical-form writer model -/

/-- **C08_crate_pcf_injective**: two accepted documents without forward reference whose canonical
    forms, as the crate computes them from the node graph, coincide, have the same canonical
    structure. -/
theorem C08_crate_pcf_injective {j₁ j₂ : Json} {n₁ n₂ f₁ f₂ : Nat} {S₁ S₂ : SchemaMut} {t : String}
    (p₁ : parseJson j₁ n₁ = .ok S₁) (p₂ : parseJson j₂ n₂ = .ok S₂)
    (nf₁ : noForwardRefs j₁ = true) (nf₂ : noForwardRefs j₂ = true)
    (hf₁ : n₁ + 2 ≤ f₁) (hf₂ : n₂ + 2 ≤ f₂)
    (t₁ : canonicalForm S₁ f₁ = .ok t) (t₂ : canonicalForm S₂ f₂ = .ok t)
    (ok₁ : DocNamesOk j₁) (ok₂ : DocNamesOk j₂) :
    ∃ c, canonOf j₁ = some c ∧ canonOf j₂ = some c ∧ t = c.text := by
  obtain ⟨u₁, e₁, g₁⟩ := C08_pcf_is_spec_text j₁ n₁ S₁ p₁ nf₁
  obtain ⟨u₂, e₂, g₂⟩ := C08_pcf_is_spec_text j₂ n₂ S₂ p₂ nf₂
  have h₁ := g₁ f₁ hf₁; rw [t₁] at h₁; cases h₁
  have h₂ := g₂ f₂ hf₂; rw [t₂] at h₂; cases h₂
  obtain ⟨c, hc, ht⟩ := C08_pcf_factors_some e₁
  exact ⟨c, hc, (C08_pcf_injective e₁ e₂ ok₁ ok₂) ▸ hc, ht⟩

/-- **C08_same_structure_same_fingerprint**: two accepted documents without forward reference and
    with the same canonical structure have the same canonical form, which is the text of the
    structure, and the same fingerprint, which is the CRC-64-AVRO of that text (little endian);
    neither computation fails. -/
theorem C08_same_structure_same_fingerprint {j₁ j₂ : Json} {n₁ n₂ f₁ f₂ : Nat} {S₁ S₂ : SchemaMut}
    (p₁ : parseJson j₁ n₁ = .ok S₁) (p₂ : parseJson j₂ n₂ = .ok S₂)
    (nf₁ : noForwardRefs j₁ = true) (nf₂ : noForwardRefs j₂ = true)
    (hf₁ : n₁ + 2 ≤ f₁) (hf₂ : n₂ + 2 ≤ f₂)
    (h : canonOf j₁ = canonOf j₂) :
    ∃ c, canonOf j₁ = some c ∧
      canonicalForm S₁ f₁ = .ok c.text ∧ canonicalForm S₂ f₂ = .ok c.text ∧
      schemaFingerprint S₁ f₁ = .ok (Spec.fingerprintLE c.text.toUTF8.data.toList) ∧
      schemaFingerprint S₂ f₂ = .ok (Spec.fingerprintLE c.text.toUTF8.data.toList) := by
  obtain ⟨u₁, e₁, g₁⟩ := C08_pcf_is_spec_text j₁ n₁ S₁ p₁ nf₁
  obtain ⟨u₂, e₂, g₂⟩ := C08_pcf_is_spec_text j₂ n₂ S₂ p₂ nf₂
  obtain ⟨c, hc, rfl⟩ := C08_pcf_factors_some e₁
  have e₂' : u₂ = c.text := by
    rw [← C08_same_structure_same_pcf h, e₁] at e₂
    exact (Option.some.inj e₂).symm
  subst e₂'
  exact ⟨c, hc, g₁ f₁ hf₁, g₂ f₂ hf₂, C18_fingerprint_is_crc S₁ f₁ _ (g₁ f₁ hf₁),
    C18_fingerprint_is_crc S₂ f₂ _ (g₂ f₂ hf₂)⟩

/-- Same canonical form (as the crate computes it) iff same canonical structure. -/
theorem C08_crate_pcf_eq_iff {j₁ j₂ : Json} {n₁ n₂ f₁ f₂ : Nat} {S₁ S₂ : SchemaMut}
    (p₁ : parseJson j₁ n₁ = .ok S₁) (p₂ : parseJson j₂ n₂ = .ok S₂)
    (nf₁ : noForwardRefs j₁ = true) (nf₂ : noForwardRefs j₂ = true)
    (hf₁ : n₁ + 2 ≤ f₁) (hf₂ : n₂ + 2 ≤ f₂)
    (ok₁ : DocNamesOk j₁) (ok₂ : DocNamesOk j₂) :
    canonicalForm S₁ f₁ = canonicalForm S₂ f₂ ↔ canonOf j₁ = canonOf j₂ := by
  constructor
  · intro h
    obtain ⟨u₁, -, g₁⟩ := C08_pcf_is_spec_text j₁ n₁ S₁ p₁ nf₁
    have t₁ := g₁ f₁ hf₁
    obtain ⟨c, h₁, h₂, -⟩ := C08_crate_pcf_injective p₁ p₂ nf₁ nf₂ hf₁ hf₂ t₁ (h ▸ t₁) ok₁ ok₂
    rw [h₁, h₂]
  · intro h
    obtain ⟨c, -, t₁, t₂, -⟩ := C08_same_structure_same_fingerprint p₁ p₂ nf₁ nf₂ hf₁ hf₂ h
    rw [t₁, t₂]

/-! ### the conditions are needed for the crate too: it does not validate names

Two pairs of documents that the parser model accepts, without forward reference, to which the
writer model gives ONE canonical form (hence one fingerprint) although their canonical structures
differ. -/

/-- an enum with the one symbol `a","b` -/
def docQuoteOne : Json :=
  .obj [("type", .str "enum"), ("name", .str "E"), ("symbols", .arr [.str "a\",\"b"])]

/-- an enum with the two symbols `a`, `b` -/
def docQuoteTwo : Json :=
  .obj [("type", .str "enum"), ("name", .str "E"), ("symbols", .arr [.str "a", .str "b"])]

theorem C08_crate_collision_quote :
    noForwardRefs docQuoteOne = true ∧ noForwardRefs docQuoteTwo = true ∧
    crateCanonicalText docQuoteOne 30 40 = some "{\"name\":\"E\",\"type\":\"enum\",\"symbols\":[\"a\",\"b\"]}" ∧
    crateCanonicalText docQuoteTwo 30 40 = some "{\"name\":\"E\",\"type\":\"enum\",\"symbols\":[\"a\",\"b\"]}" ∧
    canonOf docQuoteOne = some (.enum "E" ["a\",\"b"]) ∧
    canonOf docQuoteTwo = some (.enum "E" ["a", "b"]) ∧
    ¬ DocNamesOk docQuoteOne ∧ DocNamesOk docQuoteTwo := by
  refine ⟨by decide +kernel, by decide +kernel, by decide +kernel, by decide +kernel,
    rfl, rfl, by decide +kernel, by decide +kernel⟩

/-- a record named `int` (a primitive type name: invalid for the specification, accepted by the
    crate) whose field is a union of `null` and the record itself, referred to as `.int` -/
def docRecordIntSelf : Json :=
  .obj [("type", .str "record"), ("name", .str "int"), ("fields", .arr [
    .obj [("name", .str "a"), ("type", .arr [.str "null", .str ".int"])]])]

/-- the same record whose field is a union of `null` and the primitive `int` -/
def docRecordIntPrim : Json :=
  .obj [("type", .str "record"), ("name", .str "int"), ("fields", .arr [
    .obj [("name", .str "a"), ("type", .arr [.str "null", .str "int"])]])]

theorem C08_crate_collision_primitive_name :
    noForwardRefs docRecordIntSelf = true ∧ noForwardRefs docRecordIntPrim = true ∧
    crateCanonicalText docRecordIntSelf 30 40 = some
      "{\"name\":\"int\",\"type\":\"record\",\"fields\":[{\"name\":\"a\",\"type\":[\"null\",\"int\"]}]}" ∧
    crateCanonicalText docRecordIntPrim 30 40 = some
      "{\"name\":\"int\",\"type\":\"record\",\"fields\":[{\"name\":\"a\",\"type\":[\"null\",\"int\"]}]}" ∧
    canonOf docRecordIntSelf = some (.record "int" [("a", .union [.prim .null, .ref "int"])]) ∧
    canonOf docRecordIntPrim = some (.record "int" [("a", .union [.prim .null, .prim .int])]) ∧
    ¬ DocNamesOk docRecordIntSelf ∧ DocNamesOk docRecordIntPrim := by
  refine ⟨by decide +kernel, by decide +kernel, by decide +kernel, by decide +kernel,
    rfl, rfl, by decide +kernel, by decide +kernel⟩

/-! ### non-vacuity: a document with a record, an enum, a fixed, a union, an array, a map and
repeated names (`docNamespaces` of `C08spec.lean`), and another document, written differently
(fullnames everywhere, no metadata, members in canonical order), with the same structure -/

/-- the canonical structure of `docNamespaces` -/
def canonNamespaces : Canon :=
  .record "a.b.R" [
    ("f", .array (.enum "a.b.E" ["A", "B"])),
    ("g", .union [.prim .null, .ref "a.b.E", .ref "a.b.R", .ref "a.b.R",
      .fixed "F" 4, .fixed "x.y.G" 16]),
    ("h", .map (.ref "F")),
    ("i", .prim .long),
    ("j", .ref "x.y.G")]

/-- `docNamespaces` written plainly -/
def docNamespacesPlain : Json :=
  .obj [("name", .str "a.b.R"), ("type", .str "record"), ("fields", .arr [
    .obj [("name", .str "f"), ("type", .obj [("type", .str "array"), ("items",
      .obj [("name", .str "a.b.E"), ("type", .str "enum"), ("symbols", .arr [.str "A", .str "B"])])])],
    .obj [("name", .str "g"), ("type", .arr [.str "null", .str "a.b.E", .str "a.b.R", .str "a.b.R",
      .obj [("name", .str ".F"), ("type", .str "fixed"), ("size", .nat 4)],
      .obj [("name", .str "x.y.G"), ("type", .str "fixed"), ("size", .nat 16)]])],
    .obj [("name", .str "h"), ("type", .obj [("type", .str "map"), ("values", .str ".F")])],
    .obj [("name", .str "i"), ("type", .str "long")],
    .obj [("name", .str "j"), ("type", .str "x.y.G")]])]

theorem canonOf_docNamespaces : canonOf docNamespaces = some canonNamespaces := by
  rfl

theorem canonOf_docNamespacesPlain : canonOf docNamespacesPlain = some canonNamespaces := by
  rfl

theorem canonNamespaces_ok : CanonNamesOk canonNamespaces := by decide +kernel

example : canonNamespaces.text =
    "{\"name\":\"a.b.R\",\"type\":\"record\",\"fields\":[{\"name\":\"f\",\"type\":{\"type\":\"array\",\"items\":{\"name\":\"a.b.E\",\"type\":\"enum\",\"symbols\":[\"A\",\"B\"]}}},{\"name\":\"g\",\"type\":[\"null\",\"a.b.E\",\"a.b.R\",\"a.b.R\",{\"name\":\"F\",\"type\":\"fixed\",\"size\":4},{\"name\":\"x.y.G\",\"type\":\"fixed\",\"size\":16}]},{\"name\":\"h\",\"type\":{\"type\":\"map\",\"values\":\"F\"}},{\"name\":\"i\",\"type\":\"long\"},{\"name\":\"j\",\"type\":\"x.y.G\"}]}" := by
  decide +kernel

/-- `C08_pcf_factors` on the document -/
example : parsingCanonicalForm docNamespaces = some canonNamespaces.text := by
  rw [C08_pcf_factors, canonOf_docNamespaces]; rfl

/-- the parser reads the text back (kernel evaluation of the parser, and the general theorem) -/
example : Canon.parse canonNamespaces.text.toList = some (canonNamespaces, []) := by
  simpa using C08_canon_parse_text canonNamespaces canonNamespaces_ok []

/-- `C08_canon_text_injective` applied: any structure with acceptable names and that text IS the
    structure of the document -/
example (c : Canon) (hc : CanonNamesOk c) (h : c.text = canonNamespaces.text) :
    c = canonNamespaces :=
  C08_canon_text_injective hc canonNamespaces_ok h

theorem docNamespaces_ok : DocNamesOk docNamespaces := by
  intro c hc; rw [canonOf_docNamespaces] at hc; cases hc; exact canonNamespaces_ok

theorem docNamespacesPlain_ok : DocNamesOk docNamespacesPlain := by
  intro c hc; rw [canonOf_docNamespacesPlain] at hc; cases hc; exact canonNamespaces_ok

/-- `C08_pcf_injective` with all its hypotheses on two different documents -/
example : canonOf docNamespaces = canonOf docNamespacesPlain :=
  C08_pcf_injective (t := canonNamespaces.text)
    (by rw [C08_pcf_factors, canonOf_docNamespaces]; rfl)
    (by rw [C08_pcf_factors, canonOf_docNamespacesPlain]; rfl)
    docNamespaces_ok docNamespacesPlain_ok

/-- the parser model accepts both documents -/
theorem docNamespaces_parse :
    (∃ S, parseJson docNamespaces 30 = .ok S) ∧ (∃ S, parseJson docNamespacesPlain 30 = .ok S) := by
  have h₁ : (crateCanonicalText docNamespaces 30 40).isSome = true := by decide +kernel
  have h₂ : (crateCanonicalText docNamespacesPlain 30 40).isSome = true := by decide +kernel
  constructor
  · cases h : parseJson docNamespaces 30 with
    | ok S => exact ⟨S, rfl⟩
    | error e => simp [crateCanonicalText, h] at h₁
  · cases h : parseJson docNamespacesPlain 30 with
    | ok S => exact ⟨S, rfl⟩
    | error e => simp [crateCanonicalText, h] at h₂

/-- `C08_same_structure_same_fingerprint` and `C08_crate_pcf_injective` with all their hypotheses:
    the two documents are accepted, have no forward reference, the same structure; the crate gives
    them one canonical form and one fingerprint. -/
example : ∃ S₁ S₂, parseJson docNamespaces 30 = .ok S₁ ∧ parseJson docNamespacesPlain 30 = .ok S₂ ∧
    canonicalForm S₁ 40 = .ok canonNamespaces.text ∧ canonicalForm S₂ 40 = .ok canonNamespaces.text ∧
    schemaFingerprint S₁ 40 = schemaFingerprint S₂ 40 ∧
    ∃ fp, schemaFingerprint S₁ 40 = .ok fp := by
  obtain ⟨⟨S₁, p₁⟩, ⟨S₂, p₂⟩⟩ := docNamespaces_parse
  obtain ⟨c, hc, t₁, t₂, g₁, g₂⟩ :=
    C08_same_structure_same_fingerprint (f₁ := 40) (f₂ := 40) p₁ p₂ (by decide +kernel)
      (by decide +kernel) (by decide) (by decide)
      (canonOf_docNamespaces.trans canonOf_docNamespacesPlain.symm)
  rw [canonOf_docNamespaces] at hc
  cases hc
  exact ⟨S₁, S₂, p₁, p₂, t₁, t₂, g₁.trans g₂.symm, _, g₁⟩

example (S₁ S₂ : SchemaMut) (t : String)
    (p₁ : parseJson docNamespaces 30 = .ok S₁) (p₂ : parseJson docNamespacesPlain 30 = .ok S₂)
    (t₁ : canonicalForm S₁ 40 = .ok t) (t₂ : canonicalForm S₂ 40 = .ok t) :
    ∃ c, canonOf docNamespaces = some c ∧ canonOf docNamespacesPlain = some c ∧ t = c.text :=
  C08_crate_pcf_injective p₁ p₂ (by decide +kernel) (by decide +kernel) (by decide) (by decide)
    t₁ t₂ docNamespaces_ok docNamespacesPlain_ok

end Avro.Theorems
