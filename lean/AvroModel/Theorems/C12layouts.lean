import AvroModel.Lemmas.SkipLayouts
import AvroModel.Lemmas.DeSoundBounds
import AvroModel.Theorems.C03layouts
import AvroModel.Theorems.C12
/-
C12 on *every* layout — skipping a value (`deserialize_ignored_any`, a struct target that lacks a
field, a unit variant for a union branch) against reading it.

`Theorems/C12.lean` proves C12 on canonical encodings.  Here the input is any layout the
specification decoder accepts: arrays and maps in any number of blocks, blocks with or without a
byte size (negative count), non-minimal varints.

THE TWO PATHS.  The full read (`readBlockLen false`) reads the byte size that follows a negative
count and drops it, then decodes the items.  The ignoring read (`readBlockLen true`) *jumps* the
announced number of bytes (`skipBytes`) and decodes nothing; blocks written without a byte size are
skipped item by item.

DISCREPANCY (`C12_wrong_block_size_discrepancy`, concrete bytes below).  `Spec.decode` — and the
full read — accept any non-negative byte size, whether or not it is the size of the block.  On an
input whose announced size is wrong the two paths consume different bytes, both successfully:
    record {a: array<int>, b: int},  bytes 01 04 02 00 00 06
      full read                 a = [1], b = 0, one byte (06) left;
      struct target lacking `a` b = 3, nothing left.
So C12 cannot hold for everything `Spec.decode` accepts.  It holds exactly under the hypothesis
that announced sizes are exact: `Spec.decodeX L` is `Spec.decodeL L` with the single additional
check that the byte size of a block written with a negative count is the number of bytes its items
occupy (`Spec.sizeOk`).  `decodeX L ⊆ decodeL L` (`C12_decodeX_sub_decodeL`), hence
`decodeX Limits.impl ⊆ Spec.decode` (`C12_decodeX_sub_spec`): it only removes runs.

RESULTS (every schema, node, configuration, input; slice back-end):
  * `C12_skip_all_layouts`           if `Spec.decode` accepts `bytes` as `(v, rest)`, within the
                                     implementation's limits and with exact block sizes, the
                                     ignoring read returns `unit` and leaves exactly `rest`;
  * `C12_skip_same_state_all_layouts` … which is the final state of the full read (`C03`);
  * `C12_skip_agrees_with_read`,
    `C12_skip_follows_read`          the property as stated: the full read succeeds ⇒ the ignoring
                                     read succeeds with the same final state (the second with the
                                     input-independent fuel bound of C04, no mention of the value);
  * `C12_struct_subset_all_layouts`  a struct target listing some of the fields of a record gets the
                                     entries of the full read with the values of the fields it
                                     lacks replaced by `unit`, and leaves the same input;
  * `C12_unit_variant_all_layouts`   an enum target whose variant for the union branch is a unit
                                     variant skips the branch value and leaves the same input.
-/
namespace Avro.Theorems
open Avro Avro.Spec Avro.Impl

/-! ### The decoder with exact block byte sizes only removes runs -/

theorem C12_decodeX_sub_decodeL (L : Limits) (S : Schema) (fuel : Nat) (n : Node) (bs : Bytes)
    (r : Value × Bytes) (h : Spec.decodeX L S fuel n bs = some r) :
    Spec.decodeL L S fuel n bs = some r := Spec.decodeX_sub L S fuel n bs r h

theorem C12_decodeX_sub_spec (S : Schema) (fuel : Nat) (n : Node) (bs : Bytes)
    (r : Value × Bytes) (h : Spec.decodeX Limits.impl S fuel n bs = some r) :
    Spec.decode S fuel n bs = some r :=
  C03_decodeL_impl_sub_spec S fuel n bs r (Spec.decodeX_sub _ S fuel n bs r h)

/-- with the specification's own limits: `decodeX Limits.spec ⊆ Spec.decode` -/
theorem C12_decodeX_spec_sub_spec (S : Schema) (fuel : Nat) (n : Node) (bs : Bytes)
    (r : Value × Bytes) (h : Spec.decodeX Limits.spec S fuel n bs = some r) :
    Spec.decode S fuel n bs = some r := by
  rw [← Spec.decodeL_spec]
  exact Spec.decodeX_sub _ S fuel n bs r h

/-- what `decodeX Limits.impl` returns is what `Spec.decode` returns -/
theorem C12_decodeX_agrees (S : Schema) (fuelX fuelS : Nat) (n : Node) (bs : Bytes)
    (r r' : Value × Bytes) (h : Spec.decodeX Limits.impl S fuelX n bs = some r)
    (h' : Spec.decode S fuelS n bs = some r') : r = r' :=
  C03_decodeL_impl_agrees S fuelX fuelS n bs r r' (Spec.decodeX_sub _ S fuelX n bs r h) h'

/-! ### 1. Skipping consumes exactly what reading consumes -/

/-- **C12, skipping (all layouts), sharp fuel bound.**  `hexact` says that the input stays within
    the implementation's numeric limits (as `hlim` in `C03_de_refines_spec`) *and* that every
    announced block byte size is exact; it is necessary (`C12_wrong_block_size_discrepancy`).
    `hobs` is necessary as in `C12_skip_canonical` (ignoring a decimal runs `rust_decimal`). -/
theorem C12_skip_all_layouts_fuel3 (cfg : DeConfig) (S : Schema) (node : Node) (v : Spec.Value)
    (bytes rest : Bytes) (depth fuelS fuelX : Nat)
    (hdec : Spec.decode S fuelS node bytes = some (v, rest))
    (hobs : (Spec.observe S node v).isSome = true)
    (hexact : (Spec.decodeX Limits.impl S fuelX node bytes).isSome = true)
    (hdepth : Spec.depthOf v ≤ depth) (hseq : Spec.maxLen v ≤ cfg.maxSeqSize)
    (fuel : Nat) (hfuel : 3 * Spec.size v ≤ fuel)
    (s : RState) (hs : s.isSlice = true) (hl : s.limit = none) (ha : s.avail = 0)
    (hr : s.rest = bytes) :
    de deExtModel cfg S fuel node depth false .ignored s = (.ok .unit, { s with rest := rest }) := by
  obtain ⟨x, hx⟩ := Option.isSome_iff_exists.1 hexact
  obtain ⟨o, ho⟩ := Option.isSome_iff_exists.1 hobs
  have := C12_decodeX_agrees S fuelX fuelS node bytes x (v, rest) hx hdec
  subst this
  exact (skip_layouts cfg S v node bytes rest o depth fuelX fuel hx ho hdepth hseq hfuel).run
    s hs hl ha hr

/-- **C12, skipping (all layouts).**  Every input the specification decoder accepts — arrays and
    maps in any number of blocks, with or without byte sizes, the sizes being exact — is skipped by
    the ignoring read, which consumes exactly what the specification decoder (hence, by
    `C03_de_refines_spec`, the full read) consumes.  Generalises `C12_skip_canonical`. -/
theorem C12_skip_all_layouts (cfg : DeConfig) (S : Schema) (node : Node) (v : Spec.Value)
    (bytes rest : Bytes) (depth fuelS fuelX : Nat)
    (hdec : Spec.decode S fuelS node bytes = some (v, rest))
    (hobs : (Spec.observe S node v).isSome = true)
    (hexact : (Spec.decodeX Limits.impl S fuelX node bytes).isSome = true)
    (hdepth : Spec.depthOf v ≤ depth) (hseq : Spec.maxLen v ≤ cfg.maxSeqSize)
    (fuel : Nat) (hfuel : Spec.size v * 4 + 8 ≤ fuel)
    (s : RState) (hs : s.isSlice = true) (hl : s.limit = none) (ha : s.avail = 0)
    (hr : s.rest = bytes) :
    de deExtModel cfg S fuel node depth false .ignored s = (.ok .unit, { s with rest := rest }) :=
  C12_skip_all_layouts_fuel3 cfg S node v bytes rest depth fuelS fuelX hdec hobs hexact hdepth hseq
    fuel (by omega) s hs hl ha hr

/-- The same stated on `decodeX` alone. -/
theorem C12_skip_exact_layouts (cfg : DeConfig) (S : Schema) (node : Node) (v : Spec.Value)
    (bytes rest : Bytes) (o : Out) (depth fuelX : Nat)
    (hdec : Spec.decodeX Limits.impl S fuelX node bytes = some (v, rest))
    (hobs : Spec.observe S node v = some o)
    (hdepth : Spec.depthOf v ≤ depth) (hseq : Spec.maxLen v ≤ cfg.maxSeqSize)
    (fuel : Nat) (hfuel : 3 * Spec.size v ≤ fuel)
    (s : RState) (hs : s.isSlice = true) (hl : s.limit = none) (ha : s.avail = 0)
    (hr : s.rest = bytes) :
    de deExtModel cfg S fuel node depth false .ignored s = (.ok .unit, { s with rest := rest }) :=
  (skip_layouts cfg S v node bytes rest o depth fuelX fuel hdec hobs hdepth hseq hfuel).run
    s hs hl ha hr

/-- Skipping and reading end in the same state (same remaining input, nothing else changed). -/
theorem C12_skip_same_state_all_layouts (cfg : DeConfig) (S : Schema) (node : Node)
    (v : Spec.Value) (bytes rest : Bytes) (depth fuelS fuelX : Nat)
    (hdec : Spec.decode S fuelS node bytes = some (v, rest))
    (hobs : (Spec.observe S node v).isSome = true)
    (hexact : (Spec.decodeX Limits.impl S fuelX node bytes).isSome = true)
    (hdepth : Spec.depthOf v ≤ depth) (hseq : Spec.maxLen v ≤ cfg.maxSeqSize)
    (fuel : Nat) (hfuel : Spec.size v * 4 + 8 ≤ fuel)
    (s : RState) (hs : s.isSlice = true) (hl : s.limit = none) (ha : s.avail = 0)
    (hr : s.rest = bytes) :
    (de deExtModel cfg S fuel node depth false .ignored s).2 =
      (de deExtModel cfg S fuel node depth false .any s).2 := by
  obtain ⟨o, ho⟩ := Option.isSome_iff_exists.1 hobs
  obtain ⟨x, hx⟩ := Option.isSome_iff_exists.1 hexact
  rw [C12_skip_all_layouts cfg S node v bytes rest depth fuelS fuelX hdec hobs hexact hdepth hseq
    fuel hfuel s hs hl ha hr]
  rw [C03_de_refines_spec cfg S node v bytes rest o depth fuelS fuelX hdec ho
    (by rw [Spec.decodeX_sub _ S fuelX node bytes x hx]; rfl) hdepth hseq fuel hfuel s hs hl ha hr]

/-! ### 2. The property: the full read succeeds ⇒ the skipping read succeeds, same final state -/

/-- **C12 (all layouts), in the form of the property.**  If the full read of `node` succeeds on
    `s` and the block byte sizes of the value it read are exact (`hexact`: `decodeX` accepts the
    input as `(v, r)`; then `v` is the value that was read and `r` what was left), the skipping
    read succeeds and ends in the *same state* `s₁` — so whatever is read next is read from the
    same bytes and is what the full read delivers there.  Nothing is assumed about `v` beyond the
    model fuel: that `v` fits the depth budget and `max_seq_size` follows from the success of the
    full read (`de_sound_bounds`).  `fuel` and `fuelR` are independent. -/
theorem C12_skip_agrees_with_read (cfg : DeConfig) (S : Schema) (node : Node) (depth fuelR : Nat)
    (s s₁ : RState) (o : Out)
    (hs : s.isSlice = true) (hl : s.limit = none) (ha : s.avail = 0)
    (hread : de deExtModel cfg S fuelR node depth false .any s = (.ok o, s₁))
    (v : Spec.Value) (r : Bytes) (fuelX : Nat)
    (hexact : Spec.decodeX Limits.impl S fuelX node s.rest = some (v, r))
    (fuel : Nat) (hfuel : 3 * Spec.size v ≤ fuel) :
    de deExtModel cfg S fuel node depth false .ignored s = (.ok .unit, s₁) ∧
      Spec.observe S node v = some o ∧ s₁.rest = r := by
  obtain ⟨v', fS, hv', ho, hdepth, hseq, hs₁⟩ :=
    de_sound_bounds cfg S node depth fuelR s s₁ o hs hl ha hread
  have hL := Spec.decodeX_sub _ S fuelX node s.rest _ hexact
  have e1 := Spec.decodeL_mono (Limits.le_refl _) S (Nat.le_max_left fuelX fS) hL
  have e2 := Spec.decodeL_mono (Limits.le_refl _) S (Nat.le_max_right fuelX fS) hv'
  rw [e1] at e2
  simp only [Option.some.injEq, Prod.mk.injEq] at e2
  obtain ⟨rfl, rfl⟩ := e2
  refine ⟨?_, ho, rfl⟩
  rw [hs₁]
  exact (skip_layouts cfg S v node s.rest s₁.rest o depth fuelX fuel hexact ho hdepth hseq hfuel).run
    s hs hl ha rfl

/-- **C12 (all layouts), the property with no reference to the decoded value.**  For a schema
    whose keys are in bounds and a node of it, with the input-independent amount of fuel of C04
    (`fuelBound`, so that the model's own fuel is irrelevant): whenever the full read succeeds on
    an input whose block byte sizes are exact, the skipping read succeeds and ends in the same
    state. -/
theorem C12_skip_follows_read (cfg : DeConfig) (S : Schema) (hS : S.keysInBounds = true)
    (k : Nat) (node : Node) (hk : S[k]? = some node) (depth fuelR fuel : Nat)
    (s s₁ : RState) (o : Out)
    (hs : s.isSlice = true) (hl : s.limit = none) (ha : s.avail = 0)
    (hread : de deExtModel cfg S fuelR node depth false .any s = (.ok o, s₁))
    (hexact : ∃ fuelX, (Spec.decodeX Limits.impl S fuelX node s.rest).isSome = true)
    (hfuel : fuelBound cfg S .ignored depth ≤ fuel) :
    de deExtModel cfg S fuel node depth false .ignored s = (.ok .unit, s₁) := by
  obtain ⟨fuelX, hx⟩ := hexact
  obtain ⟨⟨v, r⟩, hx⟩ := Option.isSome_iff_exists.1 hx
  have hnp := C04_no_panic_root deExtModel cfg S hS fuel k node hk depth false .ignored hfuel s
  have hbig := (C12_skip_agrees_with_read cfg S node depth fuelR s s₁ o hs hl ha hread v r fuelX hx
    (max fuel (3 * Spec.size v)) (Nat.le_max_right _ _)).1
  rw [← hbig]
  exact (C04_fuel_mono deExtModel cfg S (Nat.le_max_left fuel (3 * Spec.size v)) node depth false
    .ignored s hnp).symm

/-! ### 3. A struct target that lacks some fields -/

/-- **C12 (struct target listing a subset of the fields), all layouts.**  As `C12_struct_subset`,
    for every layout with exact block sizes: the struct target gets the entries of the full read
    with the value of every field it does not list replaced by `unit` (`maskEntry`), and both
    reads leave exactly `rest`. -/
theorem C12_struct_subset_all_layouts (cfg : DeConfig) (S : Schema) (nm : Name)
    (fields : List (String × Nat)) (v : Spec.Value) (bytes rest : Bytes) (o : Out)
    (depth fuelS fuelX : Nat)
    (fs : List (String × Hint)) (hfs : ∀ p ∈ fs, p.2 = .any)
    (hdec : Spec.decode S fuelS (.record nm fields) bytes = some (v, rest))
    (hobs : Spec.observe S (.record nm fields) v = some o)
    (hexact : (Spec.decodeX Limits.impl S fuelX (.record nm fields) bytes).isSome = true)
    (hdepth : Spec.depthOf v ≤ depth) (hseq : Spec.maxLen v ≤ cfg.maxSeqSize)
    (fuel : Nat) (hfuel : Spec.size v * 4 + 8 ≤ fuel)
    (s : RState) (hs : s.isSlice = true) (hl : s.limit = none) (ha : s.avail = 0)
    (hr : s.rest = bytes) :
    ∃ os, o = .map os ∧
      de deExtModel cfg S fuel (.record nm fields) depth false .any s =
        (.ok (.map os), { s with rest := rest }) ∧
      de deExtModel cfg S fuel (.record nm fields) depth false (.struct fs) s =
        (.ok (.map (os.map (maskEntry fs))), { s with rest := rest }) := by
  obtain ⟨x, hx⟩ := Option.isSome_iff_exists.1 hexact
  have := C12_decodeX_agrees S fuelX fuelS _ bytes x (v, rest) hx hdec
  subst this
  have hfull := C03_de_refines_spec cfg S _ v bytes rest o depth fuelS fuelX hdec hobs
    (by rw [Spec.decodeX_sub _ S fuelX _ bytes _ hx]; rfl) hdepth hseq fuel hfuel s hs hl ha hr
  cases fuelX with
  | zero => simp [Spec.decodeX] at hx
  | succ fX =>
    simp only [Spec.decodeX, Option.map_eq_some_iff] at hx
    obtain ⟨⟨vals, r⟩, hb, hx⟩ := hx
    simp only [Prod.mk.injEq] at hx
    obtain ⟨rfl, rfl⟩ := hx
    simp only [Spec.observe, Option.map_eq_some_iff] at hobs
    obtain ⟨os, hos, rfl⟩ := hobs
    simp only [Spec.depthOf] at hdepth
    simp only [Spec.maxLen] at hseq
    simp only [Spec.size] at hfuel
    refine ⟨os, rfl, hfull, ?_⟩
    obtain ⟨d, rfl⟩ : ∃ d, depth = d + 1 := ⟨depth - 1, by omega⟩
    obtain ⟨f, rfl⟩ : ∃ f, fuel = f + 2 := ⟨fuel - 2, by omega⟩
    have hf := fields_struct_layouts cfg S fs hfs fields fX bytes vals r os d f [] hb hos (by omega)
      (by omega) (by omega)
    have hrd : ReadsAt (de deExtModel cfg S (f + 2) (.record nm fields) (d + 1) false (.struct fs))
        bytes r (.map (os.map (maskEntry fs))) := by
      rw [de, deAny]
      refine ReadsAt.bind (ReadsAt.pure d _) ?_
      exact ReadsAt.bind (hf.congr rfl (by simp)) (ReadsAt.pure _ _)
    exact hrd.run s hs hl ha hr

/-- In particular both runs end in the same state. -/
theorem C12_struct_subset_rest_all_layouts (cfg : DeConfig) (S : Schema) (nm : Name)
    (fields : List (String × Nat)) (v : Spec.Value) (bytes rest : Bytes) (o : Out)
    (depth fuelS fuelX : Nat)
    (fs : List (String × Hint)) (hfs : ∀ p ∈ fs, p.2 = .any)
    (hdec : Spec.decode S fuelS (.record nm fields) bytes = some (v, rest))
    (hobs : Spec.observe S (.record nm fields) v = some o)
    (hexact : (Spec.decodeX Limits.impl S fuelX (.record nm fields) bytes).isSome = true)
    (hdepth : Spec.depthOf v ≤ depth) (hseq : Spec.maxLen v ≤ cfg.maxSeqSize)
    (fuel : Nat) (hfuel : Spec.size v * 4 + 8 ≤ fuel)
    (s : RState) (hs : s.isSlice = true) (hl : s.limit = none) (ha : s.avail = 0)
    (hr : s.rest = bytes) :
    (de deExtModel cfg S fuel (.record nm fields) depth false (.struct fs) s).2 =
      (de deExtModel cfg S fuel (.record nm fields) depth false .any s).2 ∧
    (de deExtModel cfg S fuel (.record nm fields) depth false (.struct fs) s).2.rest = rest := by
  obtain ⟨os, _, h1, h2⟩ := C12_struct_subset_all_layouts cfg S nm fields v bytes rest o depth fuelS
    fuelX fs hfs hdec hobs hexact hdepth hseq fuel hfuel s hs hl ha hr
  rw [h1, h2]
  exact ⟨rfl, rfl⟩

/-! ### 4. A unit variant for a union branch -/

/-- **C12 (unit variant), all layouts.**  An enum target offered a union: the branch is announced
    under its type name; if the target's variant of that name is a unit variant the branch value
    is skipped (`deserialize_ignored_any`) and exactly the bytes of the union are consumed. -/
theorem C12_unit_variant_all_layouts (cfg : DeConfig) (S : Schema) (vs : List Nat)
    (v : Spec.Value) (bytes rest : Bytes) (depth fuelS fuelX : Nat)
    (variants : List (String × VariantHint))
    (hdec : Spec.decode S fuelS (.union vs) bytes = some (v, rest))
    (hobs : (Spec.observe S (.union vs) v).isSome = true)
    (hexact : (Spec.decodeX Limits.impl S fuelX (.union vs) bytes).isSome = true)
    (hdepth : Spec.depthOf v ≤ depth) (hseq : Spec.maxLen v ≤ cfg.maxSeqSize)
    (fuel : Nat) (hfuel : 3 * Spec.size v ≤ fuel)
    (s : RState) (hs : s.isSlice = true) (hl : s.limit = none) (ha : s.avail = 0)
    (hr : s.rest = bytes) :
    ∃ idx v' k branch, v = .union idx v' ∧ vs[idx]? = some k ∧ S[k]? = some branch ∧
      (lookupVariant branch.typeName variants = some .unit →
        de deExtModel cfg S fuel (.union vs) depth false (.enum variants) s =
          (.ok (.variant (.str branch.typeName false) .unit), { s with rest := rest })) := by
  obtain ⟨x, hx⟩ := Option.isSome_iff_exists.1 hexact
  obtain ⟨o, ho⟩ := Option.isSome_iff_exists.1 hobs
  have := C12_decodeX_agrees S fuelX fuelS _ bytes x (v, rest) hx hdec
  subst this
  cases fuelX with
  | zero => simp [Spec.decodeX] at hx
  | succ fX =>
    simp only [Spec.decodeX, Spec.nodeOf] at hx
    split at hx
    · cases hx
    · rename_i idx r0 hd
      split at hx
      · cases hx
      · rename_i k hk
        split at hx
        · cases hx
        · rename_i branch hbranch
          simp only [Option.map_eq_some_iff] at hx
          obtain ⟨⟨v', r⟩, hb, hx⟩ := hx
          simp only [Prod.mk.injEq] at hx
          obtain ⟨rfl, rfl⟩ := hx
          refine ⟨idx, v', k, branch, rfl, hk, hbranch, fun hlk => ?_⟩
          simp only [Spec.observe, hk, hbranch] at ho
          simp only [Spec.depthOf] at hdepth
          simp only [Spec.maxLen] at hseq
          simp only [Spec.size] at hfuel
          have hsz := Spec.size_pos v'
          obtain ⟨d, rfl⟩ : ∃ d, depth = d + 1 := ⟨depth - 1, by omega⟩
          obtain ⟨f, rfl⟩ : ∃ f, fuel = f + 2 := ⟨fuel - 2, by omega⟩
          have hskip := skip_layouts cfg S v' branch r0 r o d fX (f + 1) hb ho (by omega) hseq
            (by omega)
          rw [de] at hskip
          have hrd : ReadsAt (de deExtModel cfg S (f + 2) (.union vs) (d + 1) false (.enum variants))
              bytes r (.variant (.str branch.typeName false) .unit) := by
            rw [de]
            simp only [Bool.false_eq_true, if_false]
            refine ReadsAt.bind (readsAt_readLen hd) ?_
            simp only [hk, hbranch]
            refine ReadsAt.bind (ReadsAt.pure d _) ?_
            rw [deTypeNameEnum]
            simp only [selectVariant, hlk]
            exact ReadsAt.bind hskip (ReadsAt.pure _ _)
          exact hrd.run s hs hl ha hr

/-! ### 5. Non-vacuity on concrete bytes -/

/-- `[1, 2, 3] : array<int>` in two blocks: a block with its byte size (`count -2`, `size 2`, items
    1 and 2), a block without (`count 1`, item 3), the end marker — followed by one more byte. -/
def c12MixedBlocks : Bytes := [0x03, 0x04, 0x02, 0x04, 0x02, 0x06, 0x00]

example : Spec.decode #[.int] 6 (.array 0) (c12MixedBlocks ++ [0x2a]) =
    some (.array [.int 1, .int 2, .int 3], [0x2a]) := by rfl

example : Spec.decodeX Limits.impl #[.int] 6 (.array 0) (c12MixedBlocks ++ [0x2a]) =
    some (.array [.int 1, .int 2, .int 3], [0x2a]) := by rfl

/-- the full read (C03) … -/
example : de deExtModel {} #[.int] 44 (.array 0) 64 false .any { rest := c12MixedBlocks ++ [0x2a] } =
    (.ok (.seq [.i32 1, .i32 2, .i32 3]), { rest := [0x2a] }) :=
  C03_de_refines_spec {} #[.int] (.array 0) (.array [.int 1, .int 2, .int 3]) _ [0x2a]
    (.seq [.i32 1, .i32 2, .i32 3]) 64 6 6 (by rfl) (by rfl) (by rfl) (by decide) (by decide)
    44 (by decide) { rest := c12MixedBlocks ++ [0x2a] } rfl rfl rfl rfl

/-- … and the skipping read (the general theorem applies): the first block is jumped over, the
    second skipped item by item; the same byte is left. -/
example : de deExtModel {} #[.int] 44 (.array 0) 64 false .ignored
      { rest := c12MixedBlocks ++ [0x2a] } = (.ok .unit, { rest := [0x2a] }) :=
  C12_skip_all_layouts {} #[.int] (.array 0) (.array [.int 1, .int 2, .int 3]) _ [0x2a]
    64 6 6 (by rfl) (by rfl) (by rfl) (by decide) (by decide)
    44 (by decide) { rest := c12MixedBlocks ++ [0x2a] } rfl rfl rfl rfl

/-- the property form applies as well -/
example : de deExtModel {} #[.int] 44 (.array 0) 64 false .ignored
      { rest := c12MixedBlocks ++ [0x2a] } = (.ok .unit, { rest := [0x2a] }) :=
  (C12_skip_agrees_with_read {} #[.int] (.array 0) 64 44 { rest := c12MixedBlocks ++ [0x2a] }
    { rest := [0x2a] } (.seq [.i32 1, .i32 2, .i32 3]) rfl rfl rfl
    (C03_de_refines_spec {} #[.int] (.array 0) (.array [.int 1, .int 2, .int 3]) _ [0x2a]
      (.seq [.i32 1, .i32 2, .i32 3]) 64 6 6 (by rfl) (by rfl) (by rfl) (by decide) (by decide)
      44 (by decide) { rest := c12MixedBlocks ++ [0x2a] } rfl rfl rfl rfl)
    (.array [.int 1, .int 2, .int 3]) [0x2a] 6 (by rfl) 44 (by decide)).1

/-- the form without the value, with the fuel bound of C04 (schema `0: int`, `1: array<int>`) -/
example : de deExtModel {} #[.int, .array 0] (fuelBound {} #[.int, .array 0] .ignored 64)
      (.array 0) 64 false .ignored { rest := c12MixedBlocks ++ [0x2a] } =
      (.ok .unit, { rest := [0x2a] }) :=
  C12_skip_follows_read {} #[.int, .array 0] (by simp [Schema.keysInBounds, Node.children]) 1 (.array 0) rfl 64 44 _
    { rest := c12MixedBlocks ++ [0x2a] } { rest := [0x2a] } (.seq [.i32 1, .i32 2, .i32 3])
    rfl rfl rfl
    (C03_de_refines_spec {} #[.int, .array 0] (.array 0) (.array [.int 1, .int 2, .int 3]) _ [0x2a]
      (.seq [.i32 1, .i32 2, .i32 3]) 64 6 6 (by rfl) (by rfl) (by rfl) (by decide) (by decide)
      44 (by decide) { rest := c12MixedBlocks ++ [0x2a] } rfl rfl rfl rfl)
    ⟨6, by rfl⟩ (Nat.le_refl _)

/-! ### 6. The discrepancy: a block byte size that is not the size of the block -/

def c12Rec : Name := { fq := "r", short := "r", ns := none }

/-- `0: int`, `1: array<int>`, `2: record r {a: array<int>, b: int}` -/
def c12Schema : Schema := #[.int, .array 0, .record c12Rec [("a", 1), ("b", 0)]]

/-- `a`: one block, `count -1`, announced byte size **2** (the single item `1` occupies 1 byte),
    item `02`, end marker `00`; `b`: `00`; then one more byte `06`. -/
def c12WrongSize : Bytes := [0x01, 0x04, 0x02, 0x00, 0x00, 0x06]

/-- the same record with the exact byte size **1** -/
def c12ExactSize : Bytes := [0x01, 0x02, 0x02, 0x00, 0x00, 0x06]

/-- with the exact size the struct target that lacks `a` gets `b = 0`, as the full read does, and
    both leave the byte `06` (`C12_struct_subset_all_layouts` applies) -/
example :
    de deExtModel {} c12Schema 44 (.record c12Rec [("a", 1), ("b", 0)]) 64 false .any
      { rest := c12ExactSize } =
      (.ok (.map [(.str "a" false, .seq [.i32 1]), (.str "b" false, .i32 0)]), { rest := [0x06] }) ∧
    de deExtModel {} c12Schema 44 (.record c12Rec [("a", 1), ("b", 0)]) 64 false
      (.struct [("b", .any)]) { rest := c12ExactSize } =
      (.ok (.map [(.str "a" false, .unit), (.str "b" false, .i32 0)]), { rest := [0x06] }) := by
  obtain ⟨os, ho, h1, h2⟩ := C12_struct_subset_all_layouts {} c12Schema c12Rec [("a", 1), ("b", 0)]
    (.record [.array [.int 1], .int 0]) c12ExactSize [0x06]
    (.map [(.str "a" false, .seq [.i32 1]), (.str "b" false, .i32 0)]) 64 10 10
    [("b", .any)] (by simp) (by rfl) (by rfl) (by rfl) (by decide) (by decide) 44 (by decide)
    { rest := c12ExactSize } rfl rfl rfl rfl
  simp only [Out.map.injEq] at ho
  subst ho
  refine ⟨h1, ?_⟩
  rw [h2]
  simp [maskEntry, lookupHint]

/-- **Discrepancy.**  The specification decoder accepts `c12WrongSize` (it never looks at the byte
    size beyond its sign) and so does the full read: `a = [1]`, `b = 0`, the byte `06` is left.
    `decodeX` refuses it.  The skipping paths jump 2 bytes instead of 1 and *succeed* with
    different results:
      * ignoring the array `a` alone leaves `[06]`, the full read of `a` leaves `[00, 06]`;
      * the struct target that lacks `a` gets `b = 3` (read from the byte `06`) where the full
        read delivers `b = 0`, and leaves nothing.
    Hence the hypothesis `hexact` of the theorems above cannot be weakened to `hlim`. -/
theorem C12_wrong_block_size_discrepancy :
    Spec.decode c12Schema 10 (.record c12Rec [("a", 1), ("b", 0)]) c12WrongSize =
      some (.record [.array [.int 1], .int 0], [0x06]) ∧
    Spec.decodeL Limits.impl c12Schema 10 (.record c12Rec [("a", 1), ("b", 0)]) c12WrongSize =
      some (.record [.array [.int 1], .int 0], [0x06]) ∧
    (∀ fuelX, Spec.decodeX Limits.impl c12Schema fuelX (.record c12Rec [("a", 1), ("b", 0)]) c12WrongSize
      = none) ∧
    de deExtModel {} c12Schema 44 (.record c12Rec [("a", 1), ("b", 0)]) 64 false .any
      { rest := c12WrongSize } =
      (.ok (.map [(.str "a" false, .seq [.i32 1]), (.str "b" false, .i32 0)]), { rest := [0x06] }) ∧
    de deExtModel {} c12Schema 44 (.record c12Rec [("a", 1), ("b", 0)]) 64 false
      (.struct [("b", .any)]) { rest := c12WrongSize } =
      (.ok (.map [(.str "a" false, .unit), (.str "b" false, .i32 3)]), { rest := [] }) ∧
    de deExtModel {} c12Schema 44 (.array 0) 64 false .any { rest := c12WrongSize } =
      (.ok (.seq [.i32 1]), { rest := [0x00, 0x06] }) ∧
    de deExtModel {} c12Schema 44 (.array 0) 64 false .ignored { rest := c12WrongSize } =
      (.ok .unit, { rest := [0x06] }) ∧
    de deExtModel {} c12Schema 44 (.record c12Rec [("a", 1), ("b", 0)]) 64 false .ignored
      { rest := c12WrongSize } = (.ok .unit, { rest := [] }) := by
  have hspec : Spec.decode c12Schema 10 (.record c12Rec [("a", 1), ("b", 0)]) c12WrongSize =
      some (.record [.array [.int 1], .int 0], [0x06]) := by rfl
  have hL : Spec.decodeL Limits.impl c12Schema 10 (.record c12Rec [("a", 1), ("b", 0)]) c12WrongSize =
      some (.record [.array [.int 1], .int 0], [0x06]) := by rfl
  have hLa : Spec.decodeL Limits.impl c12Schema 10 (.array 0) c12WrongSize =
      some (.array [.int 1], [0x00, 0x06]) := by rfl
  have e0 : c12Schema[0]? = some .int := rfl
  have e1 : c12Schema[1]? = some (.array 0) := rfl
  have hskipA : ∀ f, de deExtModel {} c12Schema (f + 5) (.array 0) 63 false .ignored
      { rest := c12WrongSize } = (.ok .unit, { rest := [0x06] }) := by
    intro f
    simp [de, deIgnored, deSeqLoop, hasMore, readBlockLen, skipBytes, decDepth, e0, c12WrongSize,
      readVarint, decodeVar, decodeVarI64, decodeVarU64, decodeVarU64Aux, unzigzagBV, bind, pure]
  have hb3 : de deExtModel {} c12Schema 39 .int 63 false .ignored { rest := [0x06] } =
      (.ok .unit, { rest := [] }) := by
    simp [de, deIgnored, readVarint, decodeVar, decodeVarU32, decodeVarU64, decodeVarU64Aux, bind,
      pure]
  have hskipR : de deExtModel {} c12Schema 44 (.record c12Rec [("a", 1), ("b", 0)]) 64 false .ignored
      { rest := c12WrongSize } = (.ok .unit, { rest := [] }) := by
    rw [de]
    simp only [deIgnored, deAny, DeM.bind_apply, decDepth, DeM.pure_apply, deRecordFields, e1, e0, Hint.valFor,
      Hint.key, offerName, hskipA 35, hb3]
  refine ⟨hspec, hL, ?_, ?_, ?_, ?_, ?_, hskipR⟩
  · intro fuelX
    cases hx : Spec.decodeX Limits.impl c12Schema fuelX (.record c12Rec [("a", 1), ("b", 0)]) c12WrongSize with
    | none => rfl
    | some r =>
      exfalso
      -- by the theorem, the ignoring read would leave `[06]`; it leaves nothing
      have h1 := Spec.decodeX_sub _ _ _ _ _ _ hx
      have h2 := Spec.decodeL_mono (Limits.le_refl _) c12Schema (Nat.le_max_left fuelX 10) h1
      have h3 := Spec.decodeL_mono (Limits.le_refl _) c12Schema (Nat.le_max_right fuelX 10) hL
      rw [h2] at h3
      simp only [Option.some.injEq] at h3
      subst h3
      have := C12_skip_exact_layouts {} c12Schema _ _ c12WrongSize [0x06] _ 64 fuelX hx (by rfl)
        (by decide) (by decide) 44 (by decide) { rest := c12WrongSize } rfl rfl rfl rfl
      rw [hskipR] at this
      simp at this
  · exact C03_de_accepts_impl_layouts {} c12Schema _ _ c12WrongSize [0x06] _ 64 10 hL (by rfl)
      (by decide) (by decide) 44 (by decide) { rest := c12WrongSize } rfl rfl rfl rfl
  · have h2 : de deExtModel {} c12Schema 40 .int 63 false .any { rest := [0x06] } =
        (.ok (.i32 3), { rest := [] }) := by
      simp [de, deAny, readVarint, decodeVar, decodeVarI32, decodeVarI64, decodeVarU64,
        decodeVarU64Aux, unzigzagBV, bind, pure]
    rw [de, deAny]
    simp only [DeM.bind_apply, decDepth, DeM.pure_apply, deRecordFields, e1, e0, Hint.valFor,
      lookupHint, Hint.key, offerName, String.reduceEq, if_false, if_true, Option.getD,
      hskipA 36, h2, List.reverse_cons, List.reverse_nil, List.nil_append, List.cons_append]
  · exact C03_de_accepts_impl_layouts {} c12Schema _ _ c12WrongSize [0x00, 0x06] _ 64 10 hLa (by rfl)
      (by decide) (by decide) 44 (by decide) { rest := c12WrongSize } rfl rfl rfl rfl
  · simp [de, deIgnored, deSeqLoop, hasMore, readBlockLen, skipBytes, decDepth, e0, c12WrongSize,
      readVarint, decodeVar, decodeVarI64, decodeVarU64, decodeVarU64Aux, unzigzagBV, bind, pure]

end Avro.Theorems
