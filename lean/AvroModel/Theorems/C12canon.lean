import AvroModel.Lemmas.CanonExact
import AvroModel.Theorems.C12layouts
/-
C12 — canonical encodings satisfy the hypothesis `hexact` of `C12_skip_all_layouts`.

`C12_skip_all_layouts` (Theorems/C12layouts.lean) needs
    hexact : (Spec.decodeX Limits.impl S fuelX node bytes).isSome
(the input is within the implementation's numeric limits and every announced block byte size is
exact).  Here: every canonical encoding (`Spec.encode`: one block without a byte size per
non-empty array/map, then the end marker; minimal varints) is accepted by `decodeX Limits.impl`,
which returns the encoded value itself and exactly the trailing bytes, with the fuel `Spec.size v`
of `C01_spec_roundtrip` — as soon as the decimals of the value occupy at most 16 bytes
(`Spec.decFits Limits.impl`).  That condition is necessary and sufficient
(`C12_canonical_exact_iff`); it follows from the side conditions `hobs`, `hfix` of
`C01_de_accepts` / `C12_skip_canonical` and is strictly weaker (`C12_canon_exact_beyond_observe`).

Consequently the canonical case of C12 (`C12_skip_canonical`, proved separately in
Lemmas/DeAccepts.lean) is a corollary of the all-layouts theorem
(`C12_skip_canonical_via_layouts`), and skipping and reading a canonical encoding end in the same
state (`C12_skip_agrees_with_read_canonical`, `C12_skip_follows_read_canonical`).
-/
namespace Avro.Theorems
open Avro Avro.Spec Avro.Impl

/-! ### 1. Canonical encodings are exact -/

/-- **Canonical encodings are exact, any limits.**  For limits `L` that admit 10-byte varints
    (`hV`; a canonical varint of a 64-bit number has at most 10 bytes) and a value whose decimals
    fit `L.maxDecimal` (`hfit`), the exact-size decoder returns the encoded value and exactly the
    trailing bytes, with every fuel `≥ Spec.size v`. -/
theorem C12_canonical_is_exact_limits (L : Limits) (hV : fitsOpt L.maxVarint 10 = true)
    (S : Schema) (n : Node) (v : Spec.Value) (enc rest : Bytes)
    (henc : Spec.encode S n v = some enc) (hfit : Spec.decFits L S n v = true)
    (fuelX : Nat) (hfuel : Spec.size v ≤ fuelX) :
    Spec.decodeX L S fuelX n (enc ++ rest) = some (v, rest) :=
  Spec.decodeX_encode L hV S n v enc rest henc hfit fuelX hfuel

/-- **Canonical encodings are exact** (the implementation's limits, sharp hypothesis): the only
    condition besides conformance (`henc`) is that every decimal of `v` occupies at most 16 bytes
    (`decFits Limits.impl`: on `bytes` the minimal two's-complement length of the unscaled value,
    on `fixed` the size of the fixed).  Lengths, counts and indices `< 2^63` are part of `henc`. -/
theorem C12_canonical_is_exact_fits (S : Schema) (n : Node) (v : Spec.Value) (enc rest : Bytes)
    (henc : Spec.encode S n v = some enc) (hfit : Spec.decFits Limits.impl S n v = true)
    (fuelX : Nat) (hfuel : Spec.size v ≤ fuelX) :
    Spec.decodeX Limits.impl S fuelX n (enc ++ rest) = some (v, rest) :=
  Spec.decodeX_encode Limits.impl rfl S n v enc rest henc hfit fuelX hfuel

/-- **Canonical encodings are exact**, under the side conditions of `C01_de_accepts` and
    `C12_skip_canonical`: `hobs` (`rust_decimal` can represent every decimal of `v`, hence
    `|unscaled| < 2^96`, at most 13 bytes) and `hfix` (a decimal on a `fixed` has at most 16
    bytes).  `decodeX` returns exactly `v` (no normalisation is needed: the canonical layout — one
    block without a byte size, then the end marker — decodes to the encoded list). -/
theorem C12_canonical_is_exact (S : Schema) (n : Node) (v : Spec.Value) (enc rest : Bytes)
    (henc : Spec.encode S n v = some enc) (hobs : (Spec.observe S n v).isSome = true)
    (hfix : Spec.fixedDecOk S n v = true)
    (fuelX : Nat) (hfuel : Spec.size v ≤ fuelX) :
    Spec.decodeX Limits.impl S fuelX n (enc ++ rest) = some (v, rest) :=
  C12_canonical_is_exact_fits S n v enc rest henc (Spec.decFits_impl_of_observe S n v hobs hfix)
    fuelX hfuel

/-- the form asked for: some fuel (namely `Spec.size v`) -/
theorem C12_canonical_is_exact_exists (S : Schema) (n : Node) (v : Spec.Value) (enc rest : Bytes)
    (henc : Spec.encode S n v = some enc) (hobs : (Spec.observe S n v).isSome = true)
    (hfix : Spec.fixedDecOk S n v = true) :
    ∃ fuelX, Spec.decodeX Limits.impl S fuelX n (enc ++ rest) = some (v, rest) :=
  ⟨Spec.size v, C12_canonical_is_exact S n v enc rest henc hobs hfix _ (Nat.le_refl _)⟩

/-- the hypothesis `hexact` of `C12_skip_all_layouts`, as it is stated there -/
theorem C12_canonical_hexact (S : Schema) (n : Node) (v : Spec.Value) (enc rest : Bytes)
    (henc : Spec.encode S n v = some enc) (hobs : (Spec.observe S n v).isSome = true)
    (hfix : Spec.fixedDecOk S n v = true) :
    (Spec.decodeX Limits.impl S (Spec.size v) n (enc ++ rest)).isSome = true := by
  rw [C12_canonical_is_exact S n v enc rest henc hobs hfix _ (Nat.le_refl _)]
  rfl

/-- … and the hypothesis `hlim` of `C03_de_refines_spec`, with explicit fuel (`C03_canonical_within_limits`
    gives some fuel, through the deserializer) -/
theorem C12_canonical_hlim (S : Schema) (n : Node) (v : Spec.Value) (enc rest : Bytes)
    (henc : Spec.encode S n v = some enc) (hfit : Spec.decFits Limits.impl S n v = true)
    (fuelL : Nat) (hfuel : Spec.size v ≤ fuelL) :
    Spec.decodeL Limits.impl S fuelL n (enc ++ rest) = some (v, rest) :=
  Spec.decodeX_sub _ S fuelL n _ _ (C12_canonical_is_exact_fits S n v enc rest henc hfit fuelL hfuel)

/-! ### 2. The canonical case of C12 as a corollary of the all-layouts theorem -/

/-- `C12_skip_canonical_fuel3`, from `C12_skip_all_layouts_fuel3`. -/
theorem C12_skip_canonical_via_layouts_fuel3 (cfg : DeConfig) (S : Schema) (n : Node)
    (v : Spec.Value) (enc rest : Bytes) (depth : Nat)
    (henc : Spec.encode S n v = some enc) (hobs : (Spec.observe S n v).isSome = true)
    (hfix : Spec.fixedDecOk S n v = true)
    (hdepth : Spec.depthOf v ≤ depth) (hseq : Spec.maxLen v ≤ cfg.maxSeqSize)
    (fuel : Nat) (hfuel : 3 * Spec.size v ≤ fuel)
    (s : RState) (hs : s.isSlice = true) (hl : s.limit = none) (ha : s.avail = 0)
    (hr : s.rest = enc ++ rest) :
    de deExtModel cfg S fuel n depth false .ignored s = (.ok .unit, { s with rest := rest }) :=
  C12_skip_all_layouts_fuel3 cfg S n v (enc ++ rest) rest depth (Spec.size v) (Spec.size v)
    (Spec.decode_encode S n v enc rest henc _ (Nat.le_refl _)) hobs
    (C12_canonical_hexact S n v enc rest henc hobs hfix) hdepth hseq fuel hfuel s hs hl ha hr

/-- **C12 (skipping a canonical encoding), via the all-layouts theorem.**  Word for word the
    statement of `C12_skip_canonical` (Theorems/C12.lean); the proof is `C12_skip_all_layouts`
    applied to `C01_spec_roundtrip` (`hdec`) and `C12_canonical_is_exact` (`hexact`). -/
theorem C12_skip_canonical_via_layouts (cfg : DeConfig) (S : Schema) (n : Node) (v : Spec.Value)
    (enc rest : Bytes) (depth : Nat)
    (henc : Spec.encode S n v = some enc) (hobs : (Spec.observe S n v).isSome = true)
    (hfix : Spec.fixedDecOk S n v = true)
    (hdepth : Spec.depthOf v ≤ depth) (hseq : Spec.maxLen v ≤ cfg.maxSeqSize)
    (fuel : Nat) (hfuel : Spec.size v * 4 + 8 ≤ fuel)
    (s : RState) (hs : s.isSlice = true) (hl : s.limit = none) (ha : s.avail = 0)
    (hr : s.rest = enc ++ rest) :
    de deExtModel cfg S fuel n depth false .ignored s = (.ok .unit, { s with rest := rest }) :=
  C12_skip_all_layouts cfg S n v (enc ++ rest) rest depth (Spec.size v) (Spec.size v)
    (Spec.decode_encode S n v enc rest henc _ (Nat.le_refl _)) hobs
    (C12_canonical_hexact S n v enc rest henc hobs hfix) hdepth hseq fuel hfuel s hs hl ha hr

/-! ### 3. Skipping and reading a canonical encoding end in the same state -/

/-- **C12 on canonical encodings: both reads, explicitly.**  The full read delivers the
    observation of `v`, the skipping read delivers `unit`, and both end in the state
    `{ s with rest := rest }`: exactly the encoding has been consumed and nothing else changed.
    (Both halves come from the all-layouts theorems `C03_de_refines_spec` and
    `C12_skip_all_layouts`.) -/
theorem C12_skip_agrees_with_read_canonical (cfg : DeConfig) (S : Schema) (n : Node)
    (v : Spec.Value) (enc rest : Bytes) (o : Out) (depth : Nat)
    (henc : Spec.encode S n v = some enc) (hobs : Spec.observe S n v = some o)
    (hfix : Spec.fixedDecOk S n v = true)
    (hdepth : Spec.depthOf v ≤ depth) (hseq : Spec.maxLen v ≤ cfg.maxSeqSize)
    (fuel : Nat) (hfuel : Spec.size v * 4 + 8 ≤ fuel)
    (s : RState) (hs : s.isSlice = true) (hl : s.limit = none) (ha : s.avail = 0)
    (hr : s.rest = enc ++ rest) :
    de deExtModel cfg S fuel n depth false .any s = (.ok o, { s with rest := rest }) ∧
    de deExtModel cfg S fuel n depth false .ignored s = (.ok .unit, { s with rest := rest }) ∧
    (de deExtModel cfg S fuel n depth false .ignored s).2 =
      (de deExtModel cfg S fuel n depth false .any s).2 := by
  have hobs' : (Spec.observe S n v).isSome = true := by rw [hobs]; rfl
  have hdec := Spec.decode_encode S n v enc rest henc _ (Nat.le_refl _)
  have hx := C12_canonical_is_exact S n v enc rest henc hobs' hfix _ (Nat.le_refl _)
  have h1 := C03_de_refines_spec cfg S n v (enc ++ rest) rest o depth (Spec.size v) (Spec.size v)
    hdec hobs (by rw [Spec.decodeX_sub _ S _ n _ _ hx]; rfl) hdepth hseq fuel hfuel s hs hl ha hr
  have h2 := C12_skip_canonical_via_layouts cfg S n v enc rest depth henc hobs' hfix hdepth hseq
    fuel hfuel s hs hl ha hr
  refine ⟨h1, h2, ?_⟩
  rw [h1, h2]

/-- The same-state half alone, with `hobs` as in `C12_skip_canonical` (this is `C12_skip_same_rest`
    of Theorems/C12.lean, now a corollary of the all-layouts theorems). -/
theorem C12_skip_same_state_canonical (cfg : DeConfig) (S : Schema) (n : Node) (v : Spec.Value)
    (enc rest : Bytes) (depth : Nat)
    (henc : Spec.encode S n v = some enc) (hobs : (Spec.observe S n v).isSome = true)
    (hfix : Spec.fixedDecOk S n v = true)
    (hdepth : Spec.depthOf v ≤ depth) (hseq : Spec.maxLen v ≤ cfg.maxSeqSize)
    (fuel : Nat) (hfuel : Spec.size v * 4 + 8 ≤ fuel)
    (s : RState) (hs : s.isSlice = true) (hl : s.limit = none) (ha : s.avail = 0)
    (hr : s.rest = enc ++ rest) :
    (de deExtModel cfg S fuel n depth false .ignored s).2 =
      (de deExtModel cfg S fuel n depth false .any s).2 := by
  obtain ⟨o, ho⟩ := Option.isSome_iff_exists.1 hobs
  exact (C12_skip_agrees_with_read_canonical cfg S n v enc rest o depth henc ho hfix hdepth hseq
    fuel hfuel s hs hl ha hr).2.2

/-- **C12 on canonical encodings, in the form of the property, with no side condition on the
    value.**  If the full read succeeds on an input that starts with the canonical encoding of `v`
    at `n`, the skipping read succeeds and ends in the *same state* `s₁`, which is the state after
    exactly the encoding; what the full read delivered is the observation of `v`.  That the
    decimals of `v` fit, that `v` fits the depth budget and `max_seq_size`: all of it follows from
    the success of the full read (`de_sound_bounds`, `decFits_of_decodeL`).  `fuel` and `fuelR`
    are independent. -/
theorem C12_skip_follows_read_canonical (cfg : DeConfig) (S : Schema) (n : Node) (v : Spec.Value)
    (enc rest : Bytes) (depth fuelR : Nat) (s s₁ : RState) (o : Out)
    (hs : s.isSlice = true) (hl : s.limit = none) (ha : s.avail = 0)
    (hr : s.rest = enc ++ rest) (henc : Spec.encode S n v = some enc)
    (hread : de deExtModel cfg S fuelR n depth false .any s = (.ok o, s₁))
    (fuel : Nat) (hfuel : 3 * Spec.size v ≤ fuel) :
    de deExtModel cfg S fuel n depth false .ignored s = (.ok .unit, s₁) ∧
      Spec.observe S n v = some o ∧ s₁.rest = rest := by
  obtain ⟨v', fS, hv', _, _, _, _⟩ := de_sound_bounds cfg S n depth fuelR s s₁ o hs hl ha hread
  rw [hr] at hv'
  have hfit := Spec.decFits_of_decodeL Limits.impl S n v enc rest henc fS _ hv'
  have hx := C12_canonical_is_exact_fits S n v enc rest henc hfit _ (Nat.le_refl _)
  rw [← hr] at hx
  exact C12_skip_agrees_with_read cfg S n depth fuelR s s₁ o hs hl ha hread v rest _ hx fuel hfuel

/-! ### 4. The hypothesis on decimals is necessary and sufficient -/

/-- **`decFits` is exactly the condition.**  For a value with a canonical encoding `enc`: the
    exact-size decoder with the implementation's limits accepts `enc ++ rest` (with some fuel) if
    and only if every decimal of the value occupies at most 16 bytes. -/
theorem C12_canonical_exact_iff (S : Schema) (n : Node) (v : Spec.Value) (enc rest : Bytes)
    (henc : Spec.encode S n v = some enc) :
    (∃ fuelX, (Spec.decodeX Limits.impl S fuelX n (enc ++ rest)).isSome = true) ↔
      Spec.decFits Limits.impl S n v = true := by
  constructor
  · rintro ⟨fuelX, h⟩
    obtain ⟨r, hr⟩ := Option.isSome_iff_exists.1 h
    exact Spec.decFits_of_decodeX Limits.impl S n v enc rest henc fuelX r hr
  · intro hfit
    exact ⟨Spec.size v, by
      rw [C12_canonical_is_exact_fits S n v enc rest henc hfit _ (Nat.le_refl _)]; rfl⟩

/-- the same for any limits that admit 10-byte varints, and for `decodeL` (no size check) as well:
    on canonical encodings `decodeX L` and `decodeL L` accept the same values -/
theorem C12_canonical_exact_iff_limits (L : Limits) (hV : fitsOpt L.maxVarint 10 = true)
    (S : Schema) (n : Node) (v : Spec.Value) (enc rest : Bytes)
    (henc : Spec.encode S n v = some enc) :
    ((∃ fuelX, Spec.decodeX L S fuelX n (enc ++ rest) = some (v, rest)) ↔
      Spec.decFits L S n v = true) ∧
    ((∃ fuelL, (Spec.decodeL L S fuelL n (enc ++ rest)).isSome = true) ↔
      Spec.decFits L S n v = true) := by
  refine ⟨⟨?_, ?_⟩, ⟨?_, ?_⟩⟩
  · rintro ⟨fuelX, h⟩
    exact Spec.decFits_of_decodeX L S n v enc rest henc fuelX _ h
  · intro hfit
    exact ⟨Spec.size v, C12_canonical_is_exact_limits L hV S n v enc rest henc hfit _ (Nat.le_refl _)⟩
  · rintro ⟨fuelL, h⟩
    obtain ⟨r, hr⟩ := Option.isSome_iff_exists.1 h
    exact Spec.decFits_of_decodeL L S n v enc rest henc fuelL r hr
  · intro hfit
    exact ⟨Spec.size v, by
      rw [Spec.decodeX_sub _ S _ n _ _
        (C12_canonical_is_exact_limits L hV S n v enc rest henc hfit _ (Nat.le_refl _))]; rfl⟩

/-- a one-byte canonical varint -/
theorem encodeLong_small (i : Int) (k : Nat) (hk : Spec.zigzag i = k) (h : k < 128) :
    Spec.encodeLong i = [UInt8.ofNat k] := by
  unfold Spec.encodeLong Spec.encodeNat
  simp [hk, h]

/-- **`hfix` is necessary** (in `C12_canonical_is_exact`): `decimal 0` on a 17-byte `fixed` has a
    canonical encoding and an observation, and no fuel makes `decodeX Limits.impl` accept it. -/
theorem C12_canon_fixed17_not_exact :
    Spec.encode #[] (.decimal 0 40 (.fixed nm17 17)) (.decimal 0) = some (List.replicate 17 0) ∧
    (Spec.observe #[] (.decimal 0 40 (.fixed nm17 17)) (.decimal 0)).isSome = true ∧
    Spec.fixedDecOk #[] (.decimal 0 40 (.fixed nm17 17)) (.decimal 0) = false ∧
    Spec.decFits Limits.impl #[] (.decimal 0 40 (.fixed nm17 17)) (.decimal 0) = false ∧
    (∀ fuelX rest, Spec.decodeX Limits.impl #[] fuelX (.decimal 0 40 (.fixed nm17 17))
      (List.replicate 17 0 ++ rest) = none) := by
  have henc : Spec.encode #[] (.decimal 0 40 (.fixed nm17 17)) (.decimal 0) =
      some (List.replicate 17 0) := by decide
  have hnf : Spec.decFits Limits.impl #[] (.decimal 0 40 (.fixed nm17 17)) (.decimal 0) = false := by
    decide
  refine ⟨henc, ?_, by decide, hnf, ?_⟩
  · simp [Spec.observe, decToStringModel]
  · intro fuelX rest
    cases hx : Spec.decodeX Limits.impl #[] fuelX (.decimal 0 40 (.fixed nm17 17))
      (List.replicate 17 0 ++ rest) with
    | none => rfl
    | some r =>
      have := Spec.decFits_of_decodeX Limits.impl #[] _ _ _ rest henc fuelX r hx
      rw [hnf] at this
      cases this

/-- **`hobs` cannot simply be dropped** (in `C12_canonical_is_exact`): the decimal `2^127` on
    `bytes` has a canonical encoding (17 bytes `00 80 00 … 00`, after the length `34`), meets
    `hfix`, and no fuel makes `decodeX Limits.impl` accept it.  What is needed of `hobs` is
    `decFits` (here `false`), no more (`C12_canon_exact_beyond_observe`). -/
theorem C12_canon_wide_decimal_not_exact :
    Spec.encode #[] (.decimal 0 40 .bytes) (.decimal (2 ^ 127)) =
      some (34 :: 0 :: 128 :: List.replicate 15 0) ∧
    Spec.fixedDecOk #[] (.decimal 0 40 .bytes) (.decimal (2 ^ 127)) = true ∧
    Spec.observe #[] (.decimal 0 40 .bytes) (.decimal (2 ^ 127)) = none ∧
    Spec.decFits Limits.impl #[] (.decimal 0 40 .bytes) (.decimal (2 ^ 127)) = false ∧
    (∀ fuelX rest, Spec.decodeX Limits.impl #[] fuelX (.decimal 0 40 .bytes)
      (34 :: 0 :: 128 :: List.replicate 15 0 ++ rest) = none) := by
  have henc : Spec.encode #[] (.decimal 0 40 .bytes) (.decimal (2 ^ 127)) =
      some (34 :: 0 :: 128 :: List.replicate 15 0) := by
    simp only [Spec.encode, Option.map_eq_some_iff]
    refine ⟨0 :: 128 :: List.replicate 15 0, by decide, ?_⟩
    simp [Spec.lenPrefixed, encodeLong_small 17 34 (by decide) (by decide)]
  have hnf : Spec.decFits Limits.impl #[] (.decimal 0 40 .bytes) (.decimal (2 ^ 127)) = false := by
    decide
  refine ⟨henc, by decide, ?_, hnf, ?_⟩
  · simp [Spec.observe, decToStringModel]
  · intro fuelX rest
    cases hx : Spec.decodeX Limits.impl #[] fuelX (.decimal 0 40 .bytes)
      (34 :: 0 :: 128 :: List.replicate 15 0 ++ rest) with
    | none => rfl
    | some r =>
      have := Spec.decFits_of_decodeX Limits.impl #[] _ _ _ rest henc fuelX r hx
      rw [hnf] at this
      cases this

/-- `decFits` is strictly weaker than `hobs ∧ hfix`: the decimal `2^96` on a 13-byte `fixed`
    (`C12_skip_big_decimal_rejected`: no observation, skipping it fails in `rust_decimal`) is
    within the limits, and `decodeX Limits.impl` returns it. -/
theorem C12_canon_exact_beyond_observe (rest : Bytes) :
    Spec.observe #[] (.decimal 0 40 (.fixed nm13 13)) (.decimal (2 ^ 96)) = none ∧
    Spec.decFits Limits.impl #[] (.decimal 0 40 (.fixed nm13 13)) (.decimal (2 ^ 96)) = true ∧
    Spec.decodeX Limits.impl #[] 1 (.decimal 0 40 (.fixed nm13 13))
      ((1 :: List.replicate 12 0) ++ rest) = some (.decimal (2 ^ 96), rest) := by
  refine ⟨C12_skip_big_decimal_rejected.2.1, by decide, ?_⟩
  exact C12_canonical_is_exact_fits #[] _ _ _ rest C12_skip_big_decimal_rejected.1 (by decide) 1
    (by decide)

/-! ### 5. Non-vacuity on a concrete non-trivial value -/

def c12cRec : Name := { fq := "r", short := "r", ns := none }

/-- `0: int`, `1: array<int>`, `2: decimal(10, 2)` on `bytes`, `3: null`, `4: map<long>`,
    `5: long`, `6: union [null, map<long>]`, `7: record r {a: array<int>, d: decimal, u: union}` -/
def c12cSchema : Schema :=
  #[.int, .array 0, .decimal 2 10 .bytes, .null, .map 5, .long, .union [3, 4],
    .record c12cRec [("a", 1), ("d", 2), ("u", 6)]]

def c12cNode : Node := .record c12cRec [("a", 1), ("d", 2), ("u", 6)]

/-- `{a: [1, 2, 3], d: 12.34, u: {"k": -1}}` -/
def c12cValue : Spec.Value :=
  .record [.array [.int 1, .int 2, .int 3], .decimal 1234, .union 1 (.map [("k", .long (-1))])]

/-- `a`: count 3, items 1 2 3, end; `d`: length 2, `04 d2`; `u`: branch 1, count 1, key "k",
    value -1, end -/
def c12cBytes : Bytes :=
  [0x06, 0x02, 0x04, 0x06, 0x00, 0x04, 0x04, 0xd2, 0x02, 0x02, 0x02, 0x6b, 0x01, 0x00]

theorem c12c_encode : Spec.encode c12cSchema c12cNode c12cValue = some c12cBytes := by
  have hk : Spec.utf8 "k" = [0x6b] := by decide
  have hd : Spec.twosComplementBE (Spec.minimalLen 1234) 1234 = some [0x04, 0xd2] := by decide
  simp [Spec.encode, Spec.encodeItems, Spec.encodeEntries, Spec.encodeFields, Spec.nodeOf,
    c12cSchema, c12cNode, c12cValue, c12cBytes, c12cRec, Spec.InI32, Spec.InI64, hk, hd,
    Spec.lenPrefixed, encodeLong_small 1 2 (by decide) (by decide),
    encodeLong_small 2 4 (by decide) (by decide), encodeLong_small 3 6 (by decide) (by decide),
    encodeLong_small (-1) 1 (by decide) (by decide)]

theorem c12c_observe : (Spec.observe c12cSchema c12cNode c12cValue).isSome = true := by
  simp [Spec.observe, Spec.observeList, Spec.observeEntries, Spec.observeFields, c12cSchema,
    c12cNode, c12cValue, decToStringModel]

theorem c12c_fix : Spec.fixedDecOk c12cSchema c12cNode c12cValue = true := by decide

theorem c12c_size : Spec.size c12cValue = 20 := by decide

/-- the hypotheses of `C12_canonical_is_exact` are met by `c12cValue`; one trailing byte -/
example : Spec.decodeX Limits.impl c12cSchema 20 c12cNode (c12cBytes ++ [0x2a]) =
    some (c12cValue, [0x2a]) :=
  C12_canonical_is_exact c12cSchema c12cNode c12cValue c12cBytes [0x2a] c12c_encode c12c_observe
    c12c_fix 20 (by rw [c12c_size]; decide)

/-- … of `C12_canonical_is_exact_fits` and of the equivalence -/
example : Spec.decFits Limits.impl c12cSchema c12cNode c12cValue = true := by decide

example : ∃ fuelX, (Spec.decodeX Limits.impl c12cSchema fuelX c12cNode (c12cBytes ++ [0x2a])).isSome
    = true :=
  (C12_canonical_exact_iff c12cSchema c12cNode c12cValue c12cBytes [0x2a] c12c_encode).2
    (by decide)

/-- … of `C12_skip_canonical_via_layouts`: the record is skipped, the trailing byte is left -/
example : de deExtModel {} c12cSchema 92 c12cNode 64 false .ignored
      { rest := c12cBytes ++ [0x2a] } = (.ok .unit, { rest := [0x2a] }) :=
  C12_skip_canonical_via_layouts {} c12cSchema c12cNode c12cValue c12cBytes [0x2a] 64 c12c_encode
    c12c_observe c12c_fix (by decide) (by decide) 92 (by rw [c12c_size]; decide)
    { rest := c12cBytes ++ [0x2a] } rfl rfl rfl rfl

/-- … of `C12_skip_agrees_with_read_canonical` -/
example : ∃ o,
    de deExtModel {} c12cSchema 92 c12cNode 64 false .any { rest := c12cBytes ++ [0x2a] } =
      (.ok o, { rest := [0x2a] }) ∧
    de deExtModel {} c12cSchema 92 c12cNode 64 false .ignored { rest := c12cBytes ++ [0x2a] } =
      (.ok .unit, { rest := [0x2a] }) := by
  obtain ⟨o, ho⟩ := Option.isSome_iff_exists.1 c12c_observe
  have := C12_skip_agrees_with_read_canonical {} c12cSchema c12cNode c12cValue c12cBytes [0x2a] o
    64 c12c_encode ho c12c_fix (by decide) (by decide) 92 (by rw [c12c_size]; decide)
    { rest := c12cBytes ++ [0x2a] } rfl rfl rfl rfl
  exact ⟨o, this.1, this.2.1⟩

/-- … and of `C12_skip_follows_read_canonical` (the full read is the one above; the skipping read
    runs with another fuel) -/
example : de deExtModel {} c12cSchema 60 c12cNode 64 false .ignored
      { rest := c12cBytes ++ [0x2a] } = (.ok .unit, { rest := [0x2a] }) := by
  obtain ⟨o, ho⟩ := Option.isSome_iff_exists.1 c12c_observe
  have hread := (C12_skip_agrees_with_read_canonical {} c12cSchema c12cNode c12cValue c12cBytes
    [0x2a] o 64 c12c_encode ho c12c_fix (by decide) (by decide) 92 (by rw [c12c_size]; decide)
    { rest := c12cBytes ++ [0x2a] } rfl rfl rfl rfl).1
  exact (C12_skip_follows_read_canonical {} c12cSchema c12cNode c12cValue c12cBytes [0x2a] 64 92
    { rest := c12cBytes ++ [0x2a] } { rest := [0x2a] } o rfl rfl rfl rfl c12c_encode hread 60
    (by rw [c12c_size]; decide)).1

end Avro.Theorems
