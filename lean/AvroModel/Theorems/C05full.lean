import AvroModel.Theorems.C05
import AvroModel.Theorems.C05real
/-
C05 — all parts together: the grow loops and the writer/reader round trip for an abstract datum
deserializer (`C05.lean`) and the same round trips with the REAL deserializer model
(`C05real.lean`: `GoodVal` side conditions on the values instead of the hypothesis `DatumOk`, which
the real deserializer does not meet).
-/
