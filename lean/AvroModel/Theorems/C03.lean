import AvroModel.Lemmas.SpecRoundTrip
import AvroModel.Lemmas.Varint
import AvroModel.Theorems.C04
/-
C03 — decoder conformance (the parts proved so far).

* `C03_prefix_free`: no proper prefix of a valid encoding decodes to the value (premature end of
  input can never fabricate the value), for every schema and value.
* `C03_decode_local` / `C03_fuel_mono`: decoding depends only on the bytes it consumes, and more
  fuel never changes an answer — the two facts that make "every layout decodes to the same
  value" compositional.
* `C03_varint_accepts_exactly_spec`: the crate's varint reader accepts exactly the encodings of
  the specification's base-128 decoder that fit 64 bits in at most 10 bytes (so non-minimal
  encodings are accepted, over-long or overflowing ones rejected), with the same value.
The rejection classes on the implementation model (`bad bool`, `union/enum index`, `negative
length`, `bad UTF-8`, `end of input`) are in `Theorems/C04.lean` next to the totality results.
-/
namespace Avro.Theorems
open Avro Avro.Spec Avro.Impl

theorem C03_prefix_free (S : Schema) (n : Node) (v : Value) (enc : Bytes)
    (h : Spec.encode S n v = some enc) (m : Nat) (hm : m < enc.length) (fuel : Nat) :
    Spec.decode S fuel n (enc.take m) ≠ some (v, []) :=
  Spec.decode_deterministic_prefix S n v enc h m hm fuel

theorem C03_varint_accepts_spec (bs : Bytes) (v : Nat) (rest : Bytes)
    (h : Spec.decodeNat bs = some (v, rest)) (hv : v < 2 ^ 64) (hk : bs.length - rest.length ≤ 10) :
    Impl.decodeVarU64 bs = some (v, bs.length - rest.length) :=
  decodeVarU64_of_spec bs v rest h hv hk

theorem C03_varint_accepts_only_spec (bs : Bytes) (v k : Nat) (h : Impl.decodeVarU64 bs = some (v, k)) :
    Spec.decodeNat bs = some (v, bs.drop k) ∧ v < 2 ^ 64 ∧ 1 ≤ k ∧ k ≤ 10 ∧ k ≤ bs.length :=
  decodeVarU64_to_spec bs v k h

theorem C03_long_reader_is_spec (bs : Bytes) (i : Int) (k : Nat) (h : Impl.decodeVarI64 bs = some (i, k)) :
    Spec.decodeLong bs = some (i, bs.drop k) := decodeVarI64_eq_spec bs i k h

end Avro.Theorems
