import AvroModel.Theorems.C06
import AvroModel.Theorems.C16
import AvroModel.Theorems.C17full
import AvroModel.Theorems.C04fuel
/-
Non-vacuity audit, area C: properties C05, C06, C15, C16, C17 (object container files).

Every `example` / `theorem` below instantiates a registered theorem on a concrete, non-trivial
instance (all hypotheses proved), or evaluates the model on that instance (`decide +kernel`), or
records a fact about a hypothesis / modelling assumption.  Nothing here is used elsewhere.

Conventions: `tagCodec` / `tagDecomp` is a NON-identity toy codec (a tag byte, then every byte xor
0x55) satisfying law L1; `drvDatum` is the real datum deserializer exactly as the driver builds it;
`rDatum` the same with the constant fuel the statements of `C17stream.lean` use.  The hypotheses
`DatumOk` / `DatumOkR` (known defect: not met by the real `de`) are only ever discharged with a toy
one-byte datum, to show that the OTHER hypotheses of those theorems are jointly satisfiable.
-/
namespace Avro.Theorems.NonVacuityC
open Avro Avro.Impl Avro.Impl.Ocf Avro.Impl.GrowLoop Avro.Theorems Avro.C06

deriving instance DecidableEq for Except
deriving instance DecidableEq for Sink
deriving instance DecidableEq for WState
deriving instance DecidableEq for RState
deriving instance DecidableEq for Reader
deriving instance DecidableEq for Header

/-! ## C05 part 1: grow loops -/

/-- a compressor holding a 40000-byte stream that emits ONE byte per call (40000 schedule entries
    of 1), against the real starting buffer of 32 KiB -/
def dribble : Comp := { total := List.replicate 40000 7, sched := List.replicate 40000 1 }

example (kind : Kind) : encode kind 32768 dribble = .ok dribble.total :=
  C05_growloop_complete kind dribble 32768 rfl (by decide)

example : ∃ st, encodeLoop .xz (2 * dribble.total.length + dribble.sched.length + 64)
      { cap := 32768, comp := dribble } = .ok st ∧ st.out = dribble.total ∧ 32768 ≤ st.cap ∧
      st.cap < 2 * max 32768 (dribble.total.length + 1) :=
  C05_growloop_cap_bounded_encode .xz (by decide) dribble 32768 rfl (by decide)

/-- the bound evaluates to 80002: the buffer ends at 65536 at most -/
example : 2 * max 32768 (dribble.total.length + 1) = 80002 := by
  simp only [dribble, List.length_replicate]; decide

/-- scaled down (buffer 4, stream 10, one byte per call), evaluated: bzip2/xz double twice, only
    when full -/
def dribble10 : Comp := { total := [1, 2, 3, 4, 5, 6, 7, 8, 9, 10], sched := List.replicate 10 1 }

example : ∃ st, encodeLoop .bzip2 11 { cap := 4, comp := dribble10 } = .ok st ∧
    st.out = [1, 2, 3, 4, 5, 6, 7, 8, 9, 10] ∧ st.cap = 16 ∧ st.comp.sched = [] :=
  ⟨_, rfl, rfl, rfl, rfl⟩

example (st : LoopState) (h : encodeLoop .bzip2 11 { cap := 4, comp := dribble10 } = .ok st) :
    4 ≤ st.cap ∧ st.cap < 2 * max 4 (dribble10.total.length + 1) :=
  C05_growloop_cap_bounded .bzip2 (by decide) dribble10 4 11 rfl (by decide) st h (by decide)

example (st : LoopState) (h : encodeLoop .deflate 11 { cap := 4, comp := dribble10 } = .ok st) :
    ∃ p, p ≤ dribble10.total.length ∧ st.cap = 4 * 2 ^ p :=
  C05_growloop_cap_deflate dribble10 4 11 rfl (by decide) st h (by decide)

/-- the premise of the last two is met: the loops do end `Ok` -/
example : ∃ st, encodeLoop .deflate 11 { cap := 4, comp := dribble10 } = .ok st ∧ st.cap = 4 * 2 ^ 9 :=
  ⟨_, rfl, rfl⟩

/-- MODEL ASSUMPTION (not a hypothesis): a schedule entry `0` is raised to 1 by `Comp.call`
    (`max k 1`), so "no progress although there is room" cannot be expressed by a schedule. -/
example : (({ total := [1, 2], sched := [0] } : Comp).call 5).2.1 = [1] ∧
    (({ total := [1, 2], sched := [0] } : Comp).call 5).1 = .pending := ⟨rfl, rfl⟩

/-- … `noProgress` is produced only with no room at all -/
example : (({ total := [1, 2] } : Comp).call 0).1 = .noProgress := rfl


/-! ## A non-identity toy codec -/

/-- "compression": a tag byte, then every byte xor 0x55 (changes both length and content) -/
def tagCompress (x : Bytes) : Bytes := 0xC0 :: x.map (· ^^^ 0x55)
def tagDecompress : Bytes → Option Bytes
  | 0xC0 :: t => some (t.map (· ^^^ 0x55))
  | _ => none

def tagCodec : Codec := { name := "deflate", compress := tagCompress, isNull := false }
def tagDecomp : Decomp := { isNull := false, decompress := tagDecompress }

theorem xor55 (b : UInt8) : (b ^^^ 0x55) ^^^ 0x55 = b := by
  rw [UInt8.xor_assoc]; simp

/-- law L1 for the toy codec -/
theorem tag_L1 (x : Bytes) : tagDecomp.decompress (tagCodec.compress x) = some x := by
  show tagDecompress (tagCompress x) = some x
  simp [tagCompress, tagDecompress, List.map_map, Function.comp_def, xor55]

/-- it is not the identity, and garbage is rejected -/
example : tagCodec.compress [2, 4] = [0xC0, 0x57, 0x51] ∧ tagDecomp.decompress [2, 4] = none := by
  decide

def sync16 : Bytes := List.replicate 16 0xAB

/-- a slice reader positioned on a compressed block of 2 values (`02 04 06`), marker, then a second
    block -/
def rdC : Reader :=
  { sync := sync16,
    outer := { rest := encodeVarI64 (2 : Nat) ++ encodeVarI64 (tagCodec.compress [2, 4, 6]).length ++
        tagCodec.compress [2, 4, 6] ++ sync16 ++ [2, 4, 0xC0, 0x5F, 1, 2, 3] } }

example : ∃ r₁, enterBlock tagDecomp rdC = (.ok (), r₁) ∧ r₁.st = .inBlock 2 ∧ r₁.blk.rest = [2, 4, 6] ∧
      r₁.after = sync16 ++ [2, 4, 0xC0, 0x5F, 1, 2, 3] ∧
      ∀ blk' lim', blk'.rest = [] →
        ∃ r₂, leaveBlock tagDecomp { r₁ with st := .inBlock 0, blk := blk', blkLimit := lim' } = (.ok (), r₂) ∧
          r₂.st = .notInBlock ∧ r₂.outer.rest = [2, 4, 0xC0, 0x5F, 1, 2, 3] ∧ r₂.outer.isSlice = true ∧
          r₂.outer.limit = none ∧ r₂.sync = sync16 ∧ r₂.pretendEof = rdC.pretendEof :=
  C05_roundtrip_codec tagCodec tagDecomp rfl rfl 2 [2, 4, 6] sync16 [2, 4, 0xC0, 0x5F, 1, 2, 3] rfl
    (tag_L1 _) (by decide) (by decide) rdC rfl rfl rfl rfl



def jsonInt : Bytes := [0x22, 0x69, 0x6E, 0x74, 0x22]
def nameDeflate : Bytes := [0x64, 0x65, 0x66, 0x6C, 0x61, 0x74, 0x65]
def userMeta1 : List (Bytes × Bytes) := [([0x6B], [1, 2, 3])]
def hdrX : Bytes := headerBytes jsonInt nameDeflate userMeta1 sync16

def opsX : List WOp :=
  [.value (some [2]), .value (some [4]), .finishBlock, .value none, .push [6, 8] 2,
   .value (some [10]), .value (some [12])]
def w0 : WState := { sync := sync16, approx := 3, sink := { data := hdrX } }


/-! ### The invariant `Rep` holds for the writer's REAL initial state -/

/-- the Boolean test the driver uses (`runOcfw`, `benign`) implies `Benign` -/
theorem benign_of_all (sched : List SinkResp)
    (h : sched.all (fun r => match r with
      | .accept k => decide (k ≥ 1) | .interrupted => true | .hardError => false) = true) :
    Benign sched := by
  intro r hr
  have := List.all_eq_true.1 h r hr
  cases r with
  | accept k => exact Or.inr ⟨k, rfl, by simpa using this⟩
  | interrupted => exact Or.inl rfl
  | hardError => simp at this

/-- The driver builds the writer as `writeAllPlain (sinkFuel sink0 [hdr]) hdr sink0` on
    `sink0 = { sched }` and then `w0 = { approx, sync, sink := sink1 }`.  For every benign schedule
    that call returns `Ok` and `core w0` satisfies `Rep … {}` — the hypothesis `h0` of
    `C15_run_benign` — and with the empty schedule `w0` itself satisfies the `h0` of `C15_run`. -/
theorem driver_init_rep (c : Codec) (hdr sync : Bytes) (approx : Nat) (sched : List SinkResp)
    (hb : Benign sched) :
    ∃ s1, writeAllPlain (sinkFuel { sched := sched } [hdr]) hdr { sched := sched } = (.ok (), s1) ∧
      Benign s1.sched ∧
      Rep c hdr sync approx {} (core { approx := approx, sync := sync, sink := s1 }) := by
  obtain ⟨s1, h1, h2, h3⟩ := C16_schedule_independent_plain (sinkFuel { sched := sched } [hdr]) hdr
    { sched := sched } hb (Nat.le_refl _)
  refine ⟨s1, h1, h3, ?_⟩
  have hd : s1.data = hdr := by simpa using h2
  have : core { approx := approx, sync := sync, sink := s1 }
      = { sync := sync, approx := approx, sink := { data := hdr } } := by
    simp [core, hd]
  rw [this]
  exact rep_fresh c hdr sync approx

theorem driver_init_rep_accepting (c : Codec) (hdr sync : Bytes) (approx : Nat) :
    ∃ s1, writeAllPlain (sinkFuel {} [hdr]) hdr {} = (.ok (), s1) ∧
      Rep c hdr sync approx {} { approx := approx, sync := sync, sink := s1 } := by
  obtain ⟨s1, h1, h2, h3⟩ := writeAllVectored_accepting (sinkFuel {} [hdr]) [hdr] {} rfl (Nat.le_refl _)
  refine ⟨s1, h1, ?_⟩
  have hd : s1.data = hdr := by simpa using h2
  exact ⟨⟨rfl, by simp, by simp [blocksBytes, hd]⟩, rfl, rfl, h3, rfl, rfl⟩

/-! ### C15 on a seven-call history: two values, `finish_block`, a FAILING value, a push of two
values, two more values (the first of them closes a block by size), then `Drop` -/

theorem w0_rep : Rep tagCodec hdrX sync16 3 {} w0 := rep_fresh tagCodec hdrX sync16 3

theorem opsX_no_into : ∀ op ∈ opsX, op ≠ .intoInner := by
  intro op h; simp [opsX] at h; rcases h with rfl | rfl | rfl | rfl | rfl | rfl | rfl <;> simp

theorem opsX_push : ∀ b k, WOp.push b k ∈ opsX → 1 ≤ k := by
  intro b k h; simp [opsX] at h; omega

example :
    let a := arun 3 {} opsX
    (wrun tagCodec false w0 opsX).1 = opsX.map expected ∧
      Rep tagCodec hdrX sync16 3 a (wrun tagCodec false w0 opsX).2 ∧
      a.sealed.flatten ++ a.buffered = opsX.flatMap entryOf ∧ SealedPos a :=
  C15_run tagCodec false hdrX sync16 3 opsX opsX_no_into w0 w0_rep

/-- what that abstract state is: two blocks written, one value buffered -/
example : (arun 3 {} opsX).sealed = [[([2], 1), ([4], 1)], [([6, 8], 2), ([10], 1)]] ∧
    (arun 3 {} opsX).buffered = [([12], 1)] := by decide +kernel

example :
    let a := arun 3 {} opsX
    (wrun tagCodec false w0 opsX).2.sink.data = hdrX ++ blocksBytes tagCodec sync16 (a.sealed.map blockOf) ∧
      a.sealed.flatten <+: opsX.flatMap entryOf :=
  C15_run_sink tagCodec false hdrX sync16 3 opsX opsX_no_into w0 w0_rep

example :
    let a := arun 3 {} (opsX ++ [.drop])
    a.buffered = [] ∧ a.sealed.flatten = opsX.flatMap entryOf :=
  C15_run_finished 3 opsX .drop (Or.inr (Or.inr rfl)) opsX_push

/-- the real writer, evaluated: results of the eight calls … -/
example : (wrun tagCodec false w0 (opsX ++ [.drop])).1 =
    [.ok (), .ok (), .ok (), .error .custom, .ok (), .ok (), .ok (), .ok ()] := by
  decide +kernel

/-- … and the bytes after the header: three blocks (counts 2, 3, 1) of "compressed" data -/
example : (wrun tagCodec false w0 (opsX ++ [.drop])).2.sink.data.drop hdrX.length =
    [4, 6, 0xC0, 0x57, 0x51] ++ sync16 ++ [6, 8, 0xC0, 0x53, 0x5D, 0x5F] ++ sync16 ++
    [2, 4, 0xC0, 0x59] ++ sync16 := by
  decide +kernel

/-- `push_serialized(bytes, 0)`: the hypothesis `hpush` of `C15_run_finished` is needed — the bytes
    stay buffered without a count, `Drop` does not write them -/
example : (arun 100 {} [.push [6, 8] 0, .drop]).buffered = [([6, 8], 0)] ∧
    (arun 100 {} [.push [6, 8] 0, .drop]).sealed = [] := by decide +kernel

/-! ### C06 layout on the same history (covers `C15_sink_parses` + `C15_header_parses`) -/

theorem w0_rep_hdr : Rep tagCodec (headerBytes jsonInt nameDeflate userMeta1 sync16) sync16 3 {} w0 :=
  w0_rep

example : ∃ (v : Spec.Ocf.View) (sealed : List (List Entry)),
      Spec.Ocf.parse (wrun tagCodec false w0 (opsX ++ [.drop])).2.sink.data = some v ∧
      v.metadata = (schemaKey, jsonInt) :: (codecKey, nameDeflate) :: userMeta1 ∧
      v.sync = sync16 ∧ v.badSync = false ∧ v.trailing = 0 ∧
      v.blocks = sealed.map (fun b => { count := cntOf b, data := codecData tagCodec (bufOf b) }) ∧
      sealed.flatten = opsX.flatMap entryOf ∧ (∀ b ∈ sealed, 0 < cntOf b) :=
  C06_layout_closed tagCodec false jsonInt nameDeflate userMeta1 sync16 3 opsX .drop
    (Or.inr (Or.inr rfl)) opsX_no_into opsX_push w0 w0_rep_hdr rfl (by decide) (by decide)
    (by decide) (by decide +kernel)

example : ∃ v : Spec.Ocf.View, Spec.Ocf.parse (wrun tagCodec false w0 opsX).2.sink.data = some v ∧
      v.metadata = (schemaKey, jsonInt) :: (codecKey, nameDeflate) :: userMeta1 ∧
      v.sync = sync16 ∧ v.badSync = false ∧ v.trailing = 0 ∧
      v.blocks = (arun 3 {} opsX).sealed.map
        (fun b => { count := cntOf b, data := codecData tagCodec (bufOf b) }) :=
  C06_layout tagCodec false jsonInt nameDeflate userMeta1 sync16 3 opsX opsX_no_into w0 w0_rep_hdr
    rfl (by decide) (by decide) (by decide) (by decide +kernel)

/-- evaluated with the specification parser -/
example : (Spec.Ocf.parse (wrun tagCodec false w0 (opsX ++ [.drop])).2.sink.data).map (·.blocks) =
    some [{ count := 2, data := [0xC0, 0x57, 0x51] }, { count := 3, data := [0xC0, 0x53, 0x5D, 0x5F] },
          { count := 1, data := [0xC0, 0x59] }] := by decide +kernel

example (blocks : List (Nat × Bytes))
    (hb : ∀ b ∈ blocks, b.1 < 2 ^ 63 ∧ (codecData tagCodec b.2).length < 2 ^ 63) :
    Spec.Ocf.parse (headerBytes jsonInt nameDeflate userMeta1 sync16 ++ blocksBytes tagCodec sync16 blocks) =
      some { metadata := (schemaKey, jsonInt) :: (codecKey, nameDeflate) :: userMeta1,
             sync := sync16,
             blocks := blocks.map (fun b => { count := b.1, data := codecData tagCodec b.2 }),
             trailing := 0, badSync := false } :=
  C06_parse_header_blocks tagCodec jsonInt nameDeflate userMeta1 sync16 blocks rfl (by decide)
    (by decide) (by decide) hb


/-! ### C15: a failing value -/

/-- the state after the first three calls of `opsX` (one block written, nothing buffered) -/
def w3 : WState := (wrun tagCodec false w0 (opsX.take 3)).2

example : wstep tagCodec false w3 (.value none) = (.error .custom, w3) :=
  C15_failed_value_noop tagCodec false w3 (by decide +kernel) (by decide +kernel)

example : wstep tagCodec false w3 (.value none) =
    match preFlush tagCodec w3 with
    | (.error e, w₁) => (.error e, w₁)
    | (.ok _, w₁) => (.error .custom, w₁) :=
  C15_failed_value_invisible tagCodec false w3

example : ∃ w', wstep tagCodec false w3 (.value none) = (.error .custom, w') ∧
      Rep tagCodec hdrX sync16 3 (asealIf 3 (arun 3 {} (opsX.take 3))) w' ∧
      (asealIf 3 (arun 3 {} (opsX.take 3))).log = (arun 3 {} (opsX.take 3)).log :=
  C15_failed_value_no_count tagCodec false hdrX sync16 3 _ w3
    (C15_run tagCodec false hdrX sync16 3 (opsX.take 3)
      (fun op h => opsX_no_into op (List.mem_of_mem_take h)) w0 w0_rep).2.1

/-- What `WOp.value none` abstracts.  The REAL serializer leaves the bytes of the fields written
    before the failure in its output (`ser` returns the state also on error): a record `{a: int,
    b: int}` whose second field is a string fails with `custom` having written `02`.  The driver
    (`runOcfw`) drops that state and issues `.value none`; the Rust writer truncates its buffer
    back (`WriterInner::serialize`, `truncate(buf_len_before_attempt)`), which is what
    `withValue … none` models.  So the abstraction "bytes appended or failure" is faithful only
    together with that truncation; it is NOT a property of `ser`. -/
def extN : Ext :=
  { asF32 := fun _ => 0, decFromF64 := fun _ => none, decParse := fun _ => none,
    decRescale := fun d _ => d }
def recAB : Node := .record ⟨"R", "R", none⟩ [("a", 1), ("b", 1)]
def recS : Schema := #[recAB, .int]

example :
    (ser extN false recS recAB (.struct "R" [("a", .int .i32 1), ("b", .str "x")]) { out := [9, 9] }).1
      = .error .custom ∧
    (ser extN false recS recAB (.struct "R" [("a", .int .i32 1), ("b", .str "x")]) { out := [9, 9] }).2.out
      = [9, 9, 2] := by decide +kernel

/-! ### `C15_rep_step`, `C15_inv_step`, `C15_intoInner_step` on the real initial state -/

example : ∃ w', wstep tagCodec false w0 (.push [6, 8, 10] 2) = (expected (.push [6, 8, 10] 2), w') ∧
    Rep tagCodec hdrX sync16 3 (astep 3 {} (.push [6, 8, 10] 2)) w' :=
  C15_rep_step tagCodec false hdrX sync16 3 {} w0 _ (by simp) w0_rep

example :
    let r := wstep tagCodec false w3 (.value (some [7, 7, 7]))
    let a' := astep w3.approx (arun 3 {} (opsX.take 3)) (.value (some [7, 7, 7]))
    r.1 = expected (.value (some [7, 7, 7])) ∧ r.1 ≠ .error .panic ∧
      Inv tagCodec hdrX (a'.sealed.map blockOf) r.2 ∧
      r.2.buf = bufOf a'.buffered ∧ r.2.n = cntOf a'.buffered ∧
      r.2.pending = none ∧ r.2.sink.sched = [] ∧ r.2.sync = w3.sync ∧ r.2.approx = w3.approx ∧
      a'.log = (arun 3 {} (opsX.take 3)).log ++ entryOf (.value (some [7, 7, 7])) :=
  have h := (C15_run tagCodec false hdrX sync16 3 (opsX.take 3)
      (fun op h => opsX_no_into op (List.mem_of_mem_take h)) w0 w0_rep).2.1
  C15_inv_step tagCodec false hdrX _ w3 _ (by simp) h.inv h.buf_eq h.n_eq h.sched_nil

example : ∃ w', wstep tagCodec true (wrun tagCodec true w0 opsX).2 .intoInner = (.ok (), { w' with taken := true }) ∧
      Rep tagCodec hdrX sync16 3 (aseal (arun 3 {} opsX)) w' :=
  C15_intoInner_step tagCodec true hdrX sync16 3 _ _
    (C15_run tagCodec true hdrX sync16 3 opsX opsX_no_into w0 w0_rep).2.1

/-! ### C16 -/

def schedB : List SinkResp :=
  [.accept 1, .interrupted, .accept 2, .interrupted, .interrupted, .accept 1,
   .accept 3, .accept 5, .accept 16, .accept 17, .accept 1, .accept 1, .interrupted, .accept 40,
   .accept 1000]

theorem schedB_benign : Benign schedB := benign_of_all _ (by decide)

/-- a sink that takes ONE byte per call, for ever so long -/
theorem dribble_benign (n : Nat) : Benign (List.replicate n (.accept 1)) := by
  intro r hr
  rw [List.eq_of_mem_replicate hr]
  exact Or.inr ⟨1, rfl, Nat.le_refl _⟩

example (hdr data sync : Bytes) (s : Sink) (hs : s.sched = List.replicate 100000 (.accept 1)) :
    ∃ s', writeAllVectored (sinkFuel s [hdr, data, sync]) [hdr, data, sync] s = (.ok (), s') ∧
      s'.data = s.data ++ [hdr, data, sync].flatten ∧ Benign s'.sched :=
  C16_schedule_independent _ _ s (hs ▸ dribble_benign _) (Nat.le_refl _)

example : ∃ s', writeAllVectored (sinkFuel { data := hdrX, sched := schedB } [[4, 6], [0xC0, 0x57, 0x51], sync16])
      [[4, 6], [0xC0, 0x57, 0x51], sync16] { data := hdrX, sched := schedB } = (.ok (), s') ∧
      s'.data = hdrX ++ [[4, 6], [0xC0, 0x57, 0x51], sync16].flatten ∧ Benign s'.sched :=
  C16_schedule_independent _ _ _ schedB_benign (Nat.le_refl _)

/-- evaluated: 9 calls, the schedule consumed up to `accept 17` -/
example : (writeAllVectored (sinkFuel { data := [], sched := schedB } [[4, 6], [0xC0, 0x57, 0x51], sync16])
      [[4, 6], [0xC0, 0x57, 0x51], sync16] { data := [], sched := schedB }) =
    (.ok (), { data := [4, 6, 0xC0, 0x57, 0x51] ++ sync16, calls := 9,
               sched := [.accept 17, .accept 1, .accept 1, .interrupted, .accept 40, .accept 1000] }) := by
  decide +kernel

/-- the driver's construction with this schedule -/
example : ∃ s1, writeAllPlain (sinkFuel { sched := schedB } [hdrX]) hdrX { sched := schedB } = (.ok (), s1) ∧
      Benign s1.sched ∧
      Rep tagCodec hdrX sync16 3 {} (core { approx := 3, sync := sync16, sink := s1 }) :=
  driver_init_rep tagCodec hdrX sync16 3 schedB schedB_benign

/-- a writer whose sink still has that schedule ahead -/
def w0b : WState := { sync := sync16, approx := 3, sink := { data := hdrX, sched := schedB, calls := 3 } }

theorem w0b_core : core w0b = w0 := rfl

example :
    let a := arun 3 {} opsX
    (wrun tagCodec false w0b opsX).1 = opsX.map expected ∧
      (wrun tagCodec false w0b opsX).2.sink.data = hdrX ++ blocksBytes tagCodec sync16 (a.sealed.map blockOf) ∧
      (wrun tagCodec false w0b opsX).2.pending = none :=
  C15_run_benign tagCodec false hdrX sync16 3 opsX opsX_no_into w0b schedB_benign (w0b_core ▸ w0_rep)

example :
    (wrun tagCodec true w0b (opsX ++ [.intoInner, .drop])).1 = (wrun tagCodec true (core w0b) (opsX ++ [.intoInner, .drop])).1 ∧
      core (wrun tagCodec true w0b (opsX ++ [.intoInner, .drop])).2 = core (wrun tagCodec true (core w0b) (opsX ++ [.intoInner, .drop])).2 ∧
      Benign (wrun tagCodec true w0b (opsX ++ [.intoInner, .drop])).2.sink.sched :=
  C16_run_independent tagCodec true w0b _ schedB_benign

example : (wrun tagCodec true w0b (opsX ++ [.intoInner, .drop])).2.sink.data
    = (wrun tagCodec true (core w0b) (opsX ++ [.intoInner, .drop])).2.sink.data :=
  C16_run_sink_data tagCodec true w0b _ schedB_benign


/-- evaluated: the whole schedule was used (15 more write calls), same bytes as on the all-accepting
    sink -/
example : (wrun tagCodec true w0b (opsX ++ [.intoInner, .drop])).2.sink.calls = 18 ∧
    (wrun tagCodec true w0b (opsX ++ [.intoInner, .drop])).2.sink.sched = [] ∧
    (wrun tagCodec true w0b (opsX ++ [.intoInner, .drop])).2.sink.data
      = (wrun tagCodec true w0 (opsX ++ [.drop])).2.sink.data := by decide +kernel

/-! #### zero-length accept, hard error, arbitrary schedules -/

def bufsZ : List Bytes := [[4, 6], [0xC0, 0x57, 0x51], sync16]
def sinkZ : Sink := { data := hdrX, sched := [.interrupted, .interrupted, .accept 0, .accept 5] }
def sinkH : Sink := { data := hdrX, sched := [.interrupted, .hardError, .accept 5] }

example : writeAllVectored (sinkFuel sinkZ bufsZ) bufsZ sinkZ =
    (.error .io, { sinkZ with sched := [.accept 5], calls := sinkZ.calls + [SinkResp.interrupted, .interrupted].length + 1 }) :=
  C16_zero_is_error _ bufsZ sinkZ [.interrupted, .interrupted] [.accept 5] rfl
    (by intro r hr; simp at hr; exact hr) (by decide)
    (C16_sinkFuel_enough sinkZ bufsZ [.interrupted, .interrupted] (.accept 0) [.accept 5] rfl)

example : writeAllVectored (sinkFuel sinkH bufsZ) bufsZ sinkH =
    (.error .io, { sinkH with sched := [.accept 5], calls := sinkH.calls + [SinkResp.interrupted].length + 1 }) :=
  C16_hard_error_is_error _ bufsZ sinkH [.interrupted] [.accept 5] rfl
    (by intro r hr; simp at hr; exact hr) (by decide)
    (C16_sinkFuel_enough sinkH bufsZ [.interrupted] .hardError [.accept 5] rfl)

/-- at the level of the writer: `finish_block` on such a sink returns the I/O error -/
example : (wstep tagCodec false { sync := sync16, approx := 100, buf := [2, 4], n := 2, sink := sinkZ }
    .finishBlock).1 = .error .io := by decide +kernel

/-- an arbitrary schedule (a partial write, then a hard error): a strict prefix reached the sink -/
def sinkP : Sink := { data := hdrX, sched := [.accept 4, .hardError] }

example : ∃ m, m ≤ bufsZ.flatten.length ∧
    (writeAllVectored (sinkFuel sinkP bufsZ) bufsZ sinkP).2.data = sinkP.data ++ bufsZ.flatten.take m ∧
    ((writeAllVectored (sinkFuel sinkP bufsZ) bufsZ sinkP).1 = .ok () → m = bufsZ.flatten.length) ∧
    (writeAllVectored (sinkFuel sinkP bufsZ) bufsZ sinkP).2.sched <:+ sinkP.sched ∧
    sinkP.calls ≤ (writeAllVectored (sinkFuel sinkP bufsZ) bufsZ sinkP).2.calls :=
  C16_prefix _ bufsZ sinkP _ _ rfl

example : (writeAllVectored (sinkFuel sinkP bufsZ) bufsZ sinkP) =
    (.error .io, { data := hdrX ++ [4, 6, 0xC0, 0x57], sched := [], calls := 2 }) := by
  decide +kernel

example : (advanceSlices bufsZ 4).flatten = bufsZ.flatten.drop 4 ∧ advanceSlices bufsZ 4 = [[0x51], sync16] :=
  ⟨C16_advanceSlices_flatten bufsZ 4 (by decide), by decide⟩



/-! ### Whole-file round trips: hypotheses other than `DatumOk`/`DatumOkR`

`DatumOk` / `DatumOkR` are NOT met by the real `de` (known defect, `datumOk_needs_no_limit`); the
instances below use a TOY one-byte datum only to show that the remaining hypotheses (`Rep`, law L1
with a non-identity codec, `hok`, `BlockOk`) are jointly satisfiable. -/

def byteEnc (b : UInt8) : Bytes := [b]
def byteDatum : RState → Except DeErr UInt8 × RState := fun s =>
  match s.rest with
  | [] => (.error .custom, s)
  | b :: tl => (.ok b, { s with rest := tl })

theorem byteDatum_ok : DatumOk byteEnc byteDatum := by
  intro s v y hs hr
  exact ⟨{ s with rest := y }, by simp [byteDatum, byteEnc, hr], rfl, hs⟩

theorem byteDatum_okR : DatumOkR byteEnc byteDatum := by
  intro s v y hs hr
  exact ⟨{ s with rest := y }, by simp [byteDatum, byteEnc, hr], rfl, hs⟩

def vops : List (VOp UInt8) := [.write 2, .write 4, .finishBlock, .fail, .write 6]

theorem blockData_byteEnc (b : List UInt8) : (Theorems.blockData byteEnc b).length = b.length := by
  induction b with
  | nil => rfl
  | cons x xs ih => simpa [Theorems.blockData, byteEnc] using ih

theorem vops_hok : ∀ blocks : List (List UInt8), blocks.flatten = valuesOf vops →
    ∀ b ∈ blocks, BlockOkC byteEnc tagCodec b := by
  intro blocks hfl b hb
  have h1 := length_le_flatten_of_mem blocks b hb
  rw [hfl] at h1
  have h3 : (valuesOf vops).length = 3 := rfl
  have h4 : (tagCodec.compress (Theorems.blockData byteEnc b)).length = b.length + 1 := by
    show (tagCompress _).length = _
    simp [tagCompress, blockData_byteEnc]
  constructor
  · unfold Spec.InI64; omega
  · rw [h4]; unfold Spec.InI64; omega

example :
    let run := wrun tagCodec false { sync := sync16, approx := 2, sink := { data := [1, 2, 3] } }
      (vops.map (VOp.toWOp byteEnc) ++ [WOp.drop])
    run.1 = (vops.map (VOp.toWOp byteEnc) ++ [WOp.drop]).map expected ∧
    (∃ blocks : List (List UInt8), blocks.flatten = valuesOf vops ∧ (∀ b ∈ blocks, b ≠ []) ∧
        run.2.sink.data = [1, 2, 3] ++ fileBodyC byteEnc tagCodec sync16 blocks) ∧
    Theorems.readAll tagDecomp byteDatum ((valuesOf vops).length + 1)
        (Theorems.openSlice sync16 (run.2.sink.data.drop ([1, 2, 3] : Bytes).length))
      = (valuesOf vops, .eos) :=
  C05_roundtrip_codec_file byteEnc tagCodec rfl tagDecomp rfl rfl tag_L1 byteDatum byteDatum_okR false
    [1, 2, 3] sync16 rfl 2 vops .drop (Or.inr (Or.inr rfl)) _ (rep_fresh tagCodec [1, 2, 3] sync16 2)
    vops_hok

/-- the same for the null codec (`C05_roundtrip_null_slice`) -/
example :
    let c : Codec := { name := "null", compress := id, isNull := true }
    let run := wrun c false { sync := sync16, approx := 2, sink := { data := [1, 2, 3] } }
      (vops.map (VOp.toWOp byteEnc) ++ [WOp.intoInner])
    run.1 = (vops.map (VOp.toWOp byteEnc) ++ [WOp.intoInner]).map expected ∧
    (∃ blocks : List (List UInt8), blocks.flatten = valuesOf vops ∧ (∀ b ∈ blocks, b ≠ []) ∧
        run.2.sink.data = [1, 2, 3] ++ Theorems.fileBody byteEnc sync16 blocks) ∧
    Theorems.readAll { isNull := true, decompress := fun _ => none } byteDatum ((valuesOf vops).length + 1)
        (Theorems.openSlice sync16 (run.2.sink.data.drop ([1, 2, 3] : Bytes).length))
      = (valuesOf vops, .eos) :=
  C05_roundtrip_null_slice byteEnc { name := "null", compress := id, isNull := true } rfl
    { isNull := true, decompress := fun _ => none } rfl byteDatum byteDatum_ok false
    [1, 2, 3] sync16 rfl 2 vops .intoInner (Or.inr (Or.inl rfl)) _
    (rep_fresh _ [1, 2, 3] sync16 2) (by decide) (by decide)

theorem byteBlockOk (b : List UInt8) (h : b.length < 1000) : BlockOk byteEnc b := by
  constructor
  · unfold Spec.InI64; omega
  · rw [blockData_byteEnc]; unfold Spec.InI64; omega

/-- `C06_reads_any_partition` / `C06_reads_single_block`: `[[1,2],[3]]` against `[[1],[],[2,3]]`
    (an empty block included) -/
example :
    Theorems.readAll { isNull := true, decompress := fun _ => none } byteDatum
        (([[1, 2], [3]] : List (List UInt8)).flatten.length + 1)
        (Theorems.openSlice sync16 (Theorems.fileBody byteEnc sync16 [[1, 2], [3]]))
      = Theorems.readAll { isNull := true, decompress := fun _ => none } byteDatum
        (([[1], [], [2, 3]] : List (List UInt8)).flatten.length + 1)
        (Theorems.openSlice sync16 (Theorems.fileBody byteEnc sync16 [[1], [], [2, 3]])) ∧
    Theorems.readAll { isNull := true, decompress := fun _ => none } byteDatum
        (([[1, 2], [3]] : List (List UInt8)).flatten.length + 1)
        (Theorems.openSlice sync16 (Theorems.fileBody byteEnc sync16 [[1, 2], [3]]))
      = (([[1, 2], [3]] : List (List UInt8)).flatten, .eos) :=
  C06_reads_any_partition byteEnc _ byteDatum sync16 rfl rfl byteDatum_ok [[1, 2], [3]]
    [[1], [], [2, 3]] rfl
    (fun b hb => byteBlockOk b (by simp at hb; rcases hb with rfl | rfl <;> decide))
    (fun b hb => byteBlockOk b (by simp at hb; rcases hb with rfl | rfl | rfl <;> decide))

example :
    Theorems.readAll { isNull := true, decompress := fun _ => none } byteDatum
        (([[1], [], [2, 3]] : List (List UInt8)).flatten.length + 1)
        (Theorems.openSlice sync16 (Theorems.fileBody byteEnc sync16 [[1], [], [2, 3]]))
      = Theorems.readAll { isNull := true, decompress := fun _ => none } byteDatum
        (([[1], [], [2, 3]] : List (List UInt8)).flatten.length + 1)
        (Theorems.openSlice sync16 (Theorems.fileBody byteEnc sync16 [([[1], [], [2, 3]] : List (List UInt8)).flatten])) :=
  C06_reads_single_block byteEnc _ byteDatum sync16 rfl rfl byteDatum_ok [[1], [], [2, 3]]
    (fun b hb => byteBlockOk b (by simp at hb; rcases hb with rfl | rfl | rfl <;> decide))
    (byteBlockOk _ (by decide))



/-! ## C06: the header reader on a header in NON-standard order

magic; a metadata block with a NEGATIVE count (-2, byte size 25) holding the user key `k ↦ 01 02 03`
and `avro.codec ↦ deflate`; a second block of one entry `avro.schema ↦ "int"`; end of map; marker;
then the first bytes of a data block. -/
def hdrPerm : Bytes :=
  [0x4F, 0x62, 0x6A, 0x01] ++
  [3, 50] ++ ([2, 0x6B, 6, 1, 2, 3] ++ [20] ++ codecKey ++ [14] ++ nameDeflate) ++
  [2] ++ ([22] ++ schemaKey ++ [10] ++ jsonInt) ++
  [0] ++ sync16 ++ [4, 6, 0xC0]

def srcP : RState := { rest := hdrPerm }
def sP4 : RState := (readExact 4 srcP).2
def sPM : RState := (metaDe sP4).2

def mapEntries : Except DeErr Out → List (Out × Out)
  | .ok (.map e) => e
  | _ => []
def isMapOk : Except DeErr Out → Bool
  | .ok (.map _) => true
  | _ => false
theorem eq_of_isMapOk (x : Except DeErr Out × RState) (h : isMapOk x.1 = true) :
    x = (.ok (.map (mapEntries x.1)), x.2) := by
  obtain ⟨r, s⟩ := x
  cases r with
  | error e => simp [isMapOk] at h
  | ok o => cases o <;> simp [isMapOk] at h <;> rfl

def entP : List (Out × Out) := mapEntries (metaDe sP4).1


theorem hP4 : readExact 4 srcP = (.ok [0x4F, 0x62, 0x6A, 0x01], sP4) := by decide +kernel
theorem hPM : metaDe sP4 = (.ok (.map entP), sPM) := eq_of_isMapOk _ (by decide +kernel)

/-- the entries as decoded by the real map decoder: user key first, schema last -/
example : kvOf entP = [([0x6B], [1, 2, 3]), (codecKey, nameDeflate), (schemaKey, jsonInt)] := by
  decide +kernel

/-- **`C06_header_any_order`** with the real `readExact` / `metaDe` -/
theorem readHeader_srcP : readHeader srcP =
    (.ok { schemaJson := jsonInt, codec := "deflate", sync := sync16,
           userMeta := (kvOf entP).filter fun e => e.1 ≠ schemaKey ∧ e.1 ≠ codecKey },
     (readExact 16 sPM).2) :=
  C06_header_any_order srcP sP4 sPM _ entP jsonInt nameDeflate sync16 "\"int\"" "deflate" hP4 hPM
    (by decide +kernel) (by decide +kernel) (by decide +kernel) (by decide +kernel) (by decide +kernel)
    (by decide +kernel)

example : (kvOf entP).filter (fun e => e.1 ≠ schemaKey ∧ e.1 ≠ codecKey) = userMeta1 ∧
    (readExact 16 sPM).2.rest = [4, 6, 0xC0] := by decide +kernel

/-- **`C06_header_accepted`** on it -/
example : (∃ k, (kvOf entP).filter (·.1 = schemaKey) = [(k, jsonInt)]) ∧
      ((kvOf entP).filter (·.1 = codecKey)).length ≤ 1 ∧
      knownCodecs.contains "deflate" = true ∧
      (((kvOf entP).filter (·.1 = codecKey)) = [] → "deflate" = "null") ∧
      ((kvOf entP).filter fun e => e.1 ≠ schemaKey ∧ e.1 ≠ codecKey) =
        (kvOf entP).filter fun e => e.1 ≠ schemaKey ∧ e.1 ≠ codecKey :=
  C06_header_accepted srcP sP4 sPM _ entP _ hP4 hPM readHeader_srcP

/-! #### `avro.codec` absent (D15): user key, then the schema -/
def hdrNoCodec : Bytes :=
  [0x4F, 0x62, 0x6A, 0x01] ++ [2] ++ [2, 0x6B, 6, 1, 2, 3] ++
  [2] ++ ([22] ++ schemaKey ++ [10] ++ jsonInt) ++ [0] ++ sync16

def srcN : RState := { rest := hdrNoCodec }
def sN4 : RState := (readExact 4 srcN).2
def sNM : RState := (metaDe sN4).2
def entN : List (Out × Out) := mapEntries (metaDe sN4).1
theorem hN4 : readExact 4 srcN = (.ok [0x4F, 0x62, 0x6A, 0x01], sN4) := by decide +kernel
theorem hNM : metaDe sN4 = (.ok (.map entN), sNM) := eq_of_isMapOk _ (by decide +kernel)

example : readHeader srcN =
    (.ok { schemaJson := jsonInt, codec := "null", sync := sync16,
           userMeta := (kvOf entN).filter fun e => e.1 ≠ schemaKey ∧ e.1 ≠ codecKey },
     (readExact 16 sNM).2) :=
  C06_header_any_order_no_codec srcN sN4 sNM _ entN jsonInt sync16 "\"int\"" hN4 hNM
    (by decide +kernel) (by decide +kernel) (by decide +kernel) (by decide +kernel)

/-! #### `C06_readHeader_perm`: the permuted header against the header the writer model emits -/
def srcW : RState := { rest := headerBytes jsonInt nameDeflate userMeta1 sync16 ++ [4, 6, 0xC0] }
def sW4 : RState := (readExact 4 srcW).2
def sWM : RState := (metaDe sW4).2
def entW : List (Out × Out) := mapEntries (metaDe sW4).1
theorem hW4 : readExact 4 srcW = (.ok [0x4F, 0x62, 0x6A, 0x01], sW4) := by decide +kernel
theorem hWM : metaDe sW4 = (.ok (.map entW), sWM) := eq_of_isMapOk _ (by decide +kernel)

example : kvOf entW = [(schemaKey, jsonInt), (codecKey, nameDeflate), ([0x6B], [1, 2, 3])] := by
  decide +kernel

example : HeaderRel (readHeader srcP).1 (readHeader srcW).1 :=
  C06_readHeader_perm srcP srcW sP4 sW4 sPM sWM entP entW hP4 hW4 hPM hWM (by decide +kernel)
    (readExact_slice_same_rest 16 sPM sWM (by decide +kernel) (by decide +kernel) (by decide +kernel)
      (by decide +kernel) (by decide +kernel))



/-! ## C17 with the REAL datum deserializer, a record schema, two blocks -/

/-- `record R { id: int, tag: union{null,string}, xs: array<int> }` -/
def rNode : Node := .record ⟨"R", "R", none⟩ [("id", 1), ("tag", 2), ("xs", 4)]
def rS : Schema := #[rNode, .int, .union [3, 5], .null, .array 1, .string]
def v1 : Spec.Value := .record [.int 1, .union 1 (.string "ab"), .array [.int 3, .int 4]]
def v2 : Spec.Value := .record [.int (-2), .union 0 .null, .array []]
def v3 : Spec.Value := .record [.int 300, .union 1 (.string ""), .array [.int 7]]
def rBlocks : List (List Spec.Value) := [[v1, v2], [v3]]
def rEnc : Spec.Value → Bytes := encD rS rNode
def rFile : Bytes := Stream.fileBody rEnc sync16 rBlocks
def nullD : Decomp := { isNull := true, decompress := fun _ => none }
def rFuel : Nat := 64000000452
/-- constant fuel, as in the statements of `C17stream.lean` -/
def rDatum : RState → Except DeErr Out × RState := de deExtModel {} rS rFuel rNode 64 false .any
/-- the datum function exactly as the driver builds it (`runOcfr`: fuel depends on the input left;
    `Avro.Impl.deFuel`, `Lemmas/DriverFuel.lean`, the definition the driver uses) -/
def drvDatum : RState → Except DeErr Out × RState := fun st =>
  de deExtModel {} rS (deFuel {} rS .any 64 st.rest.length) rNode 64 false .any st

/-- the `id` field of a record read with `.any` -/
def idOf : Out → Int
  | .map ((_, .i32 i) :: _) => i
  | _ => 0

example : rEnc v1 = [2, 2, 4, 0x61, 0x62, 4, 6, 8, 0] ∧ rEnc v2 = [3, 0, 0] ∧
    rEnc v3 = [0xD8, 4, 2, 0, 2, 14, 0] := by decide +kernel

/-- block 1: count 2, size 12, 12 bytes, marker (30 bytes); block 2: count 1, size 7 (25 bytes) -/
example : rFile = [4, 24, 2, 2, 4, 0x61, 0x62, 4, 6, 8, 0, 3, 0, 0] ++ sync16 ++
    [2, 14, 0xD8, 4, 2, 0, 2, 14, 0] ++ sync16 := by decide +kernel

theorem rGood : ∀ v ∈ rBlocks.flatten, GoodVal {} rS rNode 64 rFuel v := by
  intro v hv
  simp only [rBlocks, List.flatten_cons, List.flatten_nil, List.cons_append, List.nil_append,
    List.append_nil, List.mem_cons, List.not_mem_nil, or_false] at hv
  rcases hv with rfl | rfl | rfl <;>
  exact ⟨by decide +kernel, by decide +kernel, by decide +kernel, by decide +kernel,
    by decide +kernel, by decide +kernel⟩

theorem rBlockOk : ∀ b ∈ rBlocks, Stream.BlockOk rEnc b := by
  intro b hb
  simp only [rBlocks, List.mem_cons, List.not_mem_nil, or_false] at hb
  rcases hb with rfl | rfl <;> exact ⟨by decide +kernel, by decide +kernel⟩

/-- `C17_yields_prefix_null_stream`: every cut, every chunk schedule -/
example (m : Nat) (sched : List Nat) (lastChunk : Nat) :
    ((Stream.readAll nullD rDatum (rBlocks.flatten.length + 1)
        (Stream.openReader sync16 (rFile.take m) sched lastChunk 1000)).1.map unborrow
      <+: rBlocks.flatten.map (fun v => unborrow (obsD rS rNode v))) ∧
    (Stream.readAll nullD rDatum (rBlocks.flatten.length + 1)
        (Stream.openReader sync16 (rFile.take m) sched lastChunk 1000)).2 ≠ .more :=
  have h := C17_yields_prefix_null_stream nullD rfl {} rS rNode 64 rFuel sync16 rfl rBlocks
    rBlockOk rGood m sched lastChunk 1000 (by
      have : rFile.length = 55 := by decide +kernel
      show (rFile.take m).length ≤ 1000
      rw [List.length_take]; omega)
  ⟨h.1, h.2.1⟩


/-- `C17_yields_prefix_null_slice_de` -/
example (m : Nat) :
    ((Stream.readAll nullD rDatum (rBlocks.flatten.length + 1)
        (Stream.openSlice sync16 (rFile.take m))).1 <+: rBlocks.flatten.map (obsD rS rNode)) ∧
    (Stream.readAll nullD rDatum (rBlocks.flatten.length + 1)
        (Stream.openSlice sync16 (rFile.take m))).2 ≠ .more ∧
    (rFile.length ≤ m →
      Stream.readAll nullD rDatum (rBlocks.flatten.length + 1)
          (Stream.openSlice sync16 (rFile.take m))
        = (rBlocks.flatten.map (obsD rS rNode), .eos)) :=
  C17_yields_prefix_null_slice_de nullD rfl {} rS rNode 64 rFuel sync16 rfl rBlocks rBlockOk rGood m

/-- evaluated, cut after 35 bytes (inside the third record, in the second block), chunks of 1, 2,
    then 3 bytes: the two records of the first block, then an I/O error -/
example :
    (Stream.readAll nullD rDatum 4 (Stream.openReader sync16 (rFile.take 35) [1, 2] 3 1000)).1.map idOf
      = [1, -2] ∧
    (Stream.readAll nullD rDatum 4 (Stream.openReader sync16 (rFile.take 35) [1, 2] 3 1000)).2
      = .err .io := by decide +kernel

/-! ### The theorems stated for an ARBITRARY `datum`, instantiated with the driver's -/

/-- `C17_yields_prefix` (no hypothesis on `datum`) -/
example :
    (Theorems.readAll nullD drvDatum 4 (Theorems.openSlice sync16 (rFile.take 35))).1
      <+: (Theorems.readAll nullD drvDatum 4 (Theorems.openSlice sync16 rFile)).1 ∧
    ((Theorems.readAll nullD drvDatum 4 (Theorems.openSlice sync16 rFile)).2 ≠ .more →
      (Theorems.readAll nullD drvDatum 4 (Theorems.openSlice sync16 (rFile.take 35))).2 ≠ .more) :=
  C17_yields_prefix nullD drvDatum sync16 rFile 35 4

/-- both sides evaluated: two records then `custom` (the slice refuses the cut block) against three
    records then end of stream -/
example :
    (Theorems.readAll nullD drvDatum 4 (Theorems.openSlice sync16 (rFile.take 35))).1.map idOf = [1, -2] ∧
    (Theorems.readAll nullD drvDatum 4 (Theorems.openSlice sync16 (rFile.take 35))).2 = .err .custom ∧
    (Theorems.readAll nullD drvDatum 4 (Theorems.openSlice sync16 rFile)).1.map idOf = [1, -2, 300] ∧
    (Theorems.readAll nullD drvDatum 4 (Theorems.openSlice sync16 rFile)).2 = .eos := by
  decide +kernel

/-- the hypothesis `hd` of `C17_total` / `C17_total_inner` / `readAll_no_panic` quantifies over ALL
    states: the real `de` meets it (C04), also with the driver's state-dependent fuel -/
theorem drvDatum_no_panic : ∀ s, (drvDatum s).1 ≠ .error .panic := by
  intro s
  exact C04_no_panic_at_deFuel deExtModel {} rS (by decide +kernel) 0 rNode rfl 64 false .any _ s

/-- the reader after two calls on the cut file (slice / streaming) -/
def rCutS : Reader := iterNext nullD drvDatum 2 (Theorems.openSlice sync16 (rFile.take 35))
def rCutR : Reader := iterNext nullD drvDatum 2 (Stream.openReader sync16 (rFile.take 35) [1, 2] 3 1000)

theorem rdInv_iter (d : Decomp) (datum : RState → Except DeErr Out × RState) (k : Nat) (r : Reader)
    (h : RdInv r) : RdInv (iterNext d datum k r) := by
  induction k generalizing r with
  | zero => exact h
  | succ k ih => exact ih _ (Theorems.C17_inv_next d datum r h)

theorem rCutS_inv : RdInv rCutS := rdInv_iter _ _ 2 _ (Theorems.C17_inv_init _ rfl)
theorem rCutR_inv : RdInv rCutR := rdInv_iter _ _ 2 _ (Theorems.C17_inv_init _ rfl)

/-- the invariant is not trivially true there: both readers are inside a block -/
example : rCutS.st = .inBlock 0 ∧ rCutR.st = .inBlock 0 ∧ rCutR.blkLimit = 0 := by decide +kernel

example : (next nullD drvDatum rCutS).1 ≠ .error .panic :=
  Theorems.C17_total nullD drvDatum drvDatum_no_panic rCutS rCutS_inv
example : (next nullD drvDatum rCutR).1 ≠ .error .panic :=
  Theorems.C17_total nullD drvDatum drvDatum_no_panic rCutR rCutR_inv

example : nextInner nullD drvDatum 1000 rCutR = nextInner nullD drvDatum (rCutR.outer.rest.length + 4) rCutR :=
  C17_fuel_irrelevant nullD drvDatum rCutR rCutR_inv 1000 (by decide +kernel)

/-- a checker for results whose values are not decidable -/
def isErr : Except RdErr (Option Out) → RdErr → Bool
  | .error e, e' => e == e'
  | _, _ => false
theorem eq_of_isErr {x : Except RdErr (Option Out)} {e : RdErr} (h : isErr x e = true) :
    x = .error e := by
  cases x with
  | ok a => simp [isErr] at h
  | error e' => simp [isErr] at h; rw [h]

/-- `C17_error_once`, slice: the third call meets the cut block — `custom`, reader broken — … -/
example :
    (next nullD drvDatum rCutS).2.pretendEof = true ∧
    ∀ k, (next nullD drvDatum (iterNext nullD drvDatum k (next nullD drvDatum rCutS).2)).1 = .ok none ∧
         (next nullD drvDatum (iterNext nullD drvDatum k (next nullD drvDatum rCutS).2)).2
           = (next nullD drvDatum rCutS).2 :=
  C17_error_once nullD drvDatum rCutS .custom (eq_of_isErr (by decide +kernel))
    (Or.inr (by decide +kernel))

/-- … streaming reader: the datum deserializer meets the end of input inside the record — `io`, the
    reader is NOT marked broken (still `inBlock 0`), `pretendEof` does the job -/
example :
    (next nullD drvDatum (next nullD drvDatum rCutR).2).1 = .ok none ∧
    (next nullD drvDatum rCutR).2.st = .inBlock 0 :=
  ⟨((C17_error_once nullD drvDatum rCutR .io (eq_of_isErr (by decide +kernel)) (Or.inl rfl)).2 0).1,
   by decide +kernel⟩

/-- `C17_eof_sticky_iter` -/
example (k : Nat) :
    iterNext nullD drvDatum k (next nullD drvDatum rCutR).2 = (next nullD drvDatum rCutR).2 ∧
    (next nullD drvDatum (iterNext nullD drvDatum k (next nullD drvDatum rCutR).2)).1 = .ok none :=
  C17_eof_sticky_iter nullD drvDatum _ (by decide +kernel) k

/-- `C17_framing_sets_broken`: entering the cut block -/
def rBetween : Reader := (leaveBlock nullD rCutS).2
example : (enterBlock nullD rBetween).1 = .error .custom ∧ rBetween.st = .notInBlock ∧
    (enterBlock nullD rBetween).2.st = .broken :=
  have h : (enterBlock nullD rBetween).1 = .error .custom := by decide +kernel
  ⟨h, by decide +kernel, (C17_framing_sets_broken nullD rBetween .custom).1 h⟩


/-! ### Marker / size / count mismatches on readers REACHED by `next` with the real `de` -/


/-- one block (count 1, size 3, the record `v2`) closed by a WRONG marker, then more bytes -/
def badSyncFile : Bytes := [2, 6] ++ rEnc v2 ++ List.replicate 16 0xCD ++ [2, 6, 3, 0, 0]
def rBadSync : Reader := (next nullD drvDatum (Theorems.openSlice sync16 badSyncFile)).2

example : (leaveBlock nullD rBadSync).1 = .error .custom ∧ (leaveBlock nullD rBadSync).2.st = .broken :=
  C17_sync_mismatch_err nullD rBadSync rfl (by decide +kernel) (by decide +kernel) (by decide +kernel)
    (by decide +kernel) (by decide +kernel)

example : (next nullD drvDatum rBadSync).1 = .error .custom ∧
    (next nullD drvDatum rBadSync).2.pretendEof = true ∧ (next nullD drvDatum rBadSync).2.st = .broken :=
  C17_mismatch_next nullD drvDatum rBadSync (by decide +kernel) (by decide +kernel)
    (C17_sync_mismatch_err nullD rBadSync rfl (by decide +kernel) (by decide +kernel) (by decide +kernel)
      (by decide +kernel) (by decide +kernel)).1

/-- count 1 but size 6: two records in the block -/
def bigSizeFile : Bytes := [2, 12] ++ rEnc v2 ++ rEnc v2 ++ sync16
def rBigS : Reader := (next nullD drvDatum (Theorems.openSlice sync16 bigSizeFile)).2
def rBigR : Reader := (next nullD drvDatum (Stream.openReader sync16 bigSizeFile [1, 2] 3 1000)).2

example : rBigS.st = .inBlock 0 ∧ rBigS.blk.rest = [3, 0, 0] ∧ rBigR.st = .inBlock 0 ∧ rBigR.blkLimit = 3 := by
  decide +kernel

example : (leaveBlock nullD rBigS).1 = .error .custom ∧ (leaveBlock nullD rBigS).2.st = .broken :=
  C17_size_mismatch_err nullD rBigS rfl (by decide +kernel) (by decide +kernel)

example : (leaveBlock nullD rBigR).1 = .error .custom ∧ (leaveBlock nullD rBigR).2.st = .broken :=
  C17_size_mismatch_err_reader nullD rBigR rfl (by decide +kernel) (by decide +kernel)

/-- a "compressed" block (toy codec) declaring 1 object but holding two -/
def bigCountFile : Bytes := [2, 14] ++ tagCompress (rEnc v2 ++ rEnc v2) ++ sync16
def rBigC : Reader := (next tagDecomp drvDatum (Theorems.openSlice sync16 bigCountFile)).2

example : rBigC.st = .inBlock 0 ∧ rBigC.blk.rest = [3, 0, 0] := by decide +kernel

example : (leaveBlock tagDecomp rBigC).1 = .error .custom ∧ (leaveBlock tagDecomp rBigC).2.st = .broken :=
  C17_count_mismatch_err tagDecomp rBigC rfl (by decide +kernel)

/-! ### `C17_datum_cut_*`, `C17_block_cut_*` with records -/

theorem rGood' : ∀ v ∈ [v1, v2, v3], GoodVal {} rS rNode 64 rFuel v := rGood

/-- the data of a block `[v1, v2, v3]` cut after 14 bytes (9 + 3 + 2: inside `v3`) -/
def sCutS : RState := { rest := (Stream.blockData rEnc [v1, v2, v3]).take 14 }
def sCutR : RState :=
  { isSlice := false, rest := (Stream.blockData rEnc [v1, v2, v3]).take 14, sched := [1, 2],
    lastChunk := 3, maxAlloc := 1000 }

example :
    (Stream.readMany rDatum 3 sCutS).1 = (Stream.fitting rEnc [v1, v2, v3] 14).map (obsD rS rNode) ∧
    Stream.fitting rEnc [v1, v2, v3] 14 <+: [v1, v2, v3] ∧
    (14 < (Stream.blockData rEnc [v1, v2, v3]).length → ∃ e, (Stream.readMany rDatum 3 sCutS).2 = some e) ∧
    ((Stream.blockData rEnc [v1, v2, v3]).length ≤ 14 →
      Stream.fitting rEnc [v1, v2, v3] 14 = [v1, v2, v3] ∧ (Stream.readMany rDatum 3 sCutS).2 = none) :=
  C17_block_cut_slice {} rS rNode 64 rFuel [v1, v2, v3] rGood' sCutS rfl rfl rfl 14 rfl

example :
    ((Stream.readMany rDatum 3 sCutR).1.map unborrow
        = (Stream.fitting rEnc [v1, v2, v3] 14).map (fun v => unborrow (obsD rS rNode v))) ∧
    Stream.fitting rEnc [v1, v2, v3] 14 <+: [v1, v2, v3] ∧
    (14 < (Stream.blockData rEnc [v1, v2, v3]).length → ∃ e, (Stream.readMany rDatum 3 sCutR).2 = some e) ∧
    ((Stream.blockData rEnc [v1, v2, v3]).length ≤ 14 →
      Stream.fitting rEnc [v1, v2, v3] 14 = [v1, v2, v3] ∧ (Stream.readMany rDatum 3 sCutR).2 = none) :=
  C17_block_cut_reader {} rS rNode 64 rFuel [v1, v2, v3] rGood' 1000 sCutR
    ⟨rfl, rfl, by decide, rfl, by decide +kernel⟩ 14 rfl

/-- evaluated: two records, then `custom` (slice) / `io` (reader) -/
example : (Stream.readMany rDatum 3 sCutS).1.map idOf = [1, -2] ∧ (Stream.readMany rDatum 3 sCutS).2 = some .custom ∧
    (Stream.readMany rDatum 3 sCutR).1.map idOf = [1, -2] ∧ (Stream.readMany rDatum 3 sCutR).2 = some .io ∧
    (Stream.fitting rEnc [v1, v2, v3] 14).length = 2 := by decide +kernel

/-- one value: `C17_datum_cut_slice` / `_reader` on `v1 ++ v2` cut inside `v1` (5 of 9 bytes, in
    the middle of the string) and after it -/
example :
    ((encD rS rNode v1).length ≤ 5 →
      de deExtModel {} rS rFuel rNode 64 false .any { rest := (encD rS rNode v1 ++ rEnc v2).take 5 } =
        (.ok (obsD rS rNode v1), { ({ rest := (encD rS rNode v1 ++ rEnc v2).take 5 } : RState) with
          rest := (rEnc v2).take (5 - (encD rS rNode v1).length) })) ∧
    (5 < (encD rS rNode v1).length →
      ∃ e s', de deExtModel {} rS rFuel rNode 64 false .any { rest := (encD rS rNode v1 ++ rEnc v2).take 5 }
        = (.error e, s')) :=
  C17_datum_cut_slice {} rS rNode 64 rFuel v1 (rGood v1 (by simp [rBlocks])) _ rfl rfl rfl (rEnc v2) 5 rfl

example :
    ((encD rS rNode v1).length ≤ 10 →
      ∃ a s', de deExtModel {} rS rFuel rNode 64 false .any
          { isSlice := false, rest := (encD rS rNode v1 ++ rEnc v2).take 10, sched := [2], lastChunk := 1,
            maxAlloc := 64 } = (.ok a, s') ∧
        unborrow a = unborrow (obsD rS rNode v1) ∧
        s'.rest = (rEnc v2).take (10 - (encD rS rNode v1).length) ∧ BOk 64 s') ∧
    (10 < (encD rS rNode v1).length →
      ∃ e s', de deExtModel {} rS rFuel rNode 64 false .any
          { isSlice := false, rest := (encD rS rNode v1 ++ rEnc v2).take 10, sched := [2], lastChunk := 1,
            maxAlloc := 64 } = (.error e, s')) :=
  C17_datum_cut_reader {} rS rNode 64 rFuel v1 (rGood v1 (by simp [rBlocks])) 64 _
    ⟨rfl, rfl, by decide, rfl, by decide +kernel⟩ (rEnc v2) 10 rfl



/-! ## Further instances -/

/-- `C16_flush_independent`: a pending block (count 2, "compressed" size 3) on the scheduled sink -/
def wPend : WState :=
  (innerFinishBlock tagCodec { sync := sync16, approx := 100, buf := [2, 4], n := 2,
                               sink := { data := hdrX, sched := schedB } }).2

example : ∃ s1, flushFinishedBlock tagCodec wPend = (.ok (), { wPend with sink := s1, pending := none, buf := [] }) ∧
      s1.data = wPend.sink.data ++ ([4, 6] ++ Ocf.blockData tagCodec wPend ++ wPend.sync) ∧ Benign s1.sched :=
  C16_flush_independent tagCodec wPend [4, 6] (by decide +kernel) (by decide +kernel) schedB_benign

/-- `C16_wstep_independent`: a value that closes a block by size (approx 3) on the scheduled sink -/
example :
    (wstep tagCodec false w0b (.push [6, 8, 10] 2)).1 = (wstep tagCodec false (core w0b) (.push [6, 8, 10] 2)).1 ∧
      core (wstep tagCodec false w0b (.push [6, 8, 10] 2)).2 = core (wstep tagCodec false (core w0b) (.push [6, 8, 10] 2)).2 ∧
      Benign (wstep tagCodec false w0b (.push [6, 8, 10] 2)).2.sink.sched :=
  C16_wstep_independent tagCodec false w0b _ schedB_benign

example : (wstep tagCodec false w0b (.push [6, 8, 10] 2)).2.sink.calls = 12 ∧
    (wstep tagCodec false w0b (.push [6, 8, 10] 2)).2.sink.data = hdrX ++ [4, 8, 0xC0, 0x53, 0x5D, 0x5F] ++ sync16 := by
  decide +kernel

/-- `C15_sink_parses` with `MetaParses` supplied by `C15_header_parses` for the real header -/
example :
    Spec.Ocf.parse (wrun tagCodec false w0 opsX).2.sink.data =
      some { metadata := (schemaKey, jsonInt) :: (codecKey, nameDeflate) :: userMeta1,
             sync := (wrun tagCodec false w0 opsX).2.sync,
             blocks := (arun 3 {} opsX).sealed.map
               (fun b => { count := cntOf b, data := codecData tagCodec (bufOf b) }),
             trailing := 0, badSync := false } := by
  have hp := C15_header_parses jsonInt nameDeflate userMeta1 sync16 (by decide) (by decide) (by decide)
  have hr := (C15_run tagCodec false hdrX sync16 3 opsX opsX_no_into w0 w0_rep).2.1
  have he : hdrX = Spec.Ocf.magic ++ metaBytesOf ((schemaKey, jsonInt) :: (codecKey, nameDeflate) :: userMeta1) ++ sync16 := hp.1
  rw [he] at hr
  exact C15_sink_parses tagCodec _ sync16 _ 3 _ _ hr hp.2 rfl (by decide +kernel)

example : Spec.Ocf.parseBlocks sync16 5
      (blocksBytes tagCodec sync16 [(2, [2, 4]), (3, [6, 8, 10]), (1, [12])]) =
    ([(2, [2, 4]), (3, [6, 8, 10]), (1, [12])].map
      (fun b => ({ count := b.1, data := codecData tagCodec b.2 } : Spec.Ocf.Block)), 0, false) :=
  C15_blocks_parse tagCodec sync16 rfl _ (by decide +kernel) 5 (by decide)

/-- `C15_astep_value` / `C15_astep_finish` / `C15_astep_failed` at the abstract state after three calls -/
example : astep 3 (arun 3 {} (opsX.take 5)) (.value (some [10])) =
    if (bufOf (arun 3 {} (opsX.take 5)).buffered ++ [10]).length ≥ 3 then
      { sealed := (arun 3 {} (opsX.take 5)).sealed ++ [(arun 3 {} (opsX.take 5)).buffered ++ [([10], 1)]],
        buffered := [] }
    else { (arun 3 {} (opsX.take 5)) with buffered := (arun 3 {} (opsX.take 5)).buffered ++ [([10], 1)] } :=
  C15_astep_value 3 _ [10] (by decide +kernel)

example : astep 3 (arun 3 {} (opsX.take 5)) (.value none) = arun 3 {} (opsX.take 5) :=
  C15_astep_failed 3 _ (by decide +kernel)

/-- `C17_sync_truncated_err`: the file ends inside the marker -/
def truncSyncFile : Bytes := [2, 6] ++ rEnc v2 ++ List.replicate 10 0xAB
def rTruncSync : Reader := (next nullD drvDatum (Theorems.openSlice sync16 truncSyncFile)).2

example : ∃ e, (leaveBlock nullD rTruncSync).1 = .error e ∧ e ≠ .panic ∧ (leaveBlock nullD rTruncSync).2.st = .broken :=
  C17_sync_truncated_err nullD rTruncSync (by decide +kernel) (by decide +kernel)

/-! ### `C17_yields_prefix` with a NON-null `Decomp` (toy codec) and the driver's datum -/

def cFile : Bytes := fileBodyC rEnc tagCodec sync16 rBlocks

example :
    (Theorems.readAll tagDecomp drvDatum 4 (Theorems.openSlice sync16 (cFile.take 40))).1
      <+: (Theorems.readAll tagDecomp drvDatum 4 (Theorems.openSlice sync16 cFile)).1 ∧
    ((Theorems.readAll tagDecomp drvDatum 4 (Theorems.openSlice sync16 cFile)).2 ≠ .more →
      (Theorems.readAll tagDecomp drvDatum 4 (Theorems.openSlice sync16 (cFile.take 40))).2 ≠ .more) :=
  C17_yields_prefix tagDecomp drvDatum sync16 cFile 40 4

example : cFile.length = 57 ∧
    (Theorems.readAll tagDecomp drvDatum 4 (Theorems.openSlice sync16 (cFile.take 40))).1.map idOf = [1, -2] ∧
    (Theorems.readAll tagDecomp drvDatum 4 (Theorems.openSlice sync16 (cFile.take 40))).2 = .err .custom ∧
    (Theorems.readAll tagDecomp drvDatum 4 (Theorems.openSlice sync16 cFile)).1.map idOf = [1, -2, 300] ∧
    (Theorems.readAll tagDecomp drvDatum 4 (Theorems.openSlice sync16 cFile)).2 = .eos := by
  decide +kernel

/-! ### The invariant `RdInv` for the reader the driver opens, and totality on arbitrary bytes -/

/-- the reader `runOcfr` builds: `{ sync := h.sync, outer := src }` with `src` the state `readHeader`
    returns (here on the permuted header of the C06 section) -/
example : RdInv { sync := sync16, outer := (readHeader srcP).2 } := Theorems.C17_inv_init _ rfl

/-- `C17_total` on ARBITRARY source bytes, either back-end, with the driver's datum: never the
    out-of-fuel `.panic` -/
example (sl : Bool) (f : Bytes) (sched : List Nat) (lastChunk M : Nat) :
    (next nullD drvDatum (Stream.openSrc sl sync16 f sched lastChunk M)).1 ≠ .error .panic :=
  Theorems.C17_total nullD drvDatum drvDatum_no_panic _ (Theorems.C17_inv_init _ rfl)

example (f : Bytes) (k : Nat) :
    (Theorems.readAll tagDecomp drvDatum k (Theorems.openSlice sync16 f)).2 ≠ .err .panic :=
  C17_yields_prefix_null_no_panic tagDecomp drvDatum drvDatum_no_panic sync16 f k

/-! ### FINDING: `C17_yields_prefix_null_stream` is stated for `openReader …` (buffer empty,
`scratch = 0`), not for the reader the driver runs on a streaming source

`runOcfr` opens `{ sync := h.sync, outer := src }` with `src` the back-end `readHeader` returns: on a
`BufRead` back-end that state has bytes buffered (`avail > 0`) and a used scratch buffer, so it is
not of the form `openReader sync bytes sched lastChunk M` and the headline theorem does not apply
to it literally.  The development underneath (`Stream.readAll_cut`, invariant `CutInv` / `KOk`)
does cover it: the instance below is for exactly that reader, file cut inside the second block. -/

def nameNull : Bytes := [0x6E, 0x75, 0x6C, 0x6C]
/-- a streaming source (chunks of 7, then 100, then 8192 bytes) over header ++ cut file body -/
def srcStream : RState :=
  { isSlice := false, rest := headerBytes jsonInt nameNull [] sync16 ++ rFile.take 35,
    sched := [7, 100], lastChunk := 8192 }
def rdStream : Reader := { sync := sync16, outer := (readHeader srcStream).2 }

/-- not an `openReader` state: 35 bytes already buffered, scratch used -/
example : rdStream.outer.avail = 35 ∧ rdStream.outer.scratch = 11 ∧ rdStream.outer.rest = rFile.take 35 ∧
    (Stream.openReader sync16 (rFile.take 35) [] 8192 536870912).outer.avail = 0 := by decide +kernel

theorem rdStream_cutInv :
    Stream.CutInv rEnc false (GoodVal {} rS rNode 64 rFuel) 536870912 sync16 rdStream rBlocks.flatten :=
  ⟨[], rBlocks, rfl, rBlockOk, rGood, Or.inr ⟨rfl, ⟨rfl, rfl,
    ⟨by decide +kernel, by decide +kernel, by decide +kernel, nofun, fun _ => by decide +kernel,
      fun _ => by decide +kernel⟩,
    ⟨35, by decide +kernel⟩⟩⟩⟩

example :
    (Stream.readAll nullD rDatum 4 rdStream).1.map unborrow
      <+: rBlocks.flatten.map (fun v => unborrow (obsD rS rNode v)) ∧
    (Stream.readAll nullD rDatum 4 rdStream).2 ≠ .more :=
  have h := Stream.readAll_cut rEnc false (d := nullD) rfl (by decide)
    (de_datumCutOk_reader {} rS rNode 64 rFuel 536870912) 4 rdStream _ rdStream_cutInv
  ⟨h.1, h.2 (by decide)⟩

example : (Stream.readAll nullD rDatum 4 rdStream).1.map idOf = [1, -2] ∧
    (Stream.readAll nullD rDatum 4 rdStream).2 = .err .io := by decide +kernel

/-! ### Smaller ones -/

/-- `C17_broken_is_error` on the reader that `enterBlock` broke (not yet seen by `next`) -/
example : (next nullD drvDatum (enterBlock nullD rBetween).2).1 = .error .custom ∧
    (next nullD drvDatum (enterBlock nullD rBetween).2).2.pretendEof = true ∧
    (next nullD drvDatum (enterBlock nullD rBetween).2).2 = { (enterBlock nullD rBetween).2 with pretendEof := true } :=
  C17_broken_is_error nullD drvDatum _ (by decide +kernel) (by decide +kernel)

/-- `C17_pretendEof_iff`, both directions are exercised: set on `rCutS` (framing error), not set on a
    healthy reader -/
example : (next nullD drvDatum rCutS).2.pretendEof = true ↔
    ∃ e, (next nullD drvDatum rCutS).1 = .error e ∧ (e = .io ∨ (next nullD drvDatum rCutS).2.st = .broken) :=
  C17_pretendEof_iff nullD drvDatum rCutS (by decide +kernel)

example : (next nullD drvDatum rCutS).2.pretendEof = true ∧
    (next nullD drvDatum (Theorems.openSlice sync16 rFile)).2.pretendEof = false := by decide +kernel

/-- `C16_prefix_on_error` -/
example : ∃ m, (writeAllVectored (sinkFuel sinkP bufsZ) bufsZ sinkP).2.data = sinkP.data ++ bufsZ.flatten.take m :=
  C16_prefix_on_error (sinkFuel sinkP bufsZ) bufsZ sinkP .io _ (by decide +kernel)

/-- `fileBody_eq_writer` with the record encoder: the file the reader theorems read is what the
    writer model lays out (null codec) -/
example : rFile = Ocf.blocksBytes { name := "null", compress := id, isNull := true } sync16
    (rBlocks.map fun b => (b.length, Stream.blockData rEnc b)) :=
  fileBody_eq_writer rEnc _ rfl sync16 rBlocks

end Avro.Theorems.NonVacuityC
