import AvroModel.Lemmas.OcfParse
/-
C15: whenever a writer call has returned without error, the bytes delivered so far form a
complete, valid container file whose contents are a prefix of the successfully serialized
values, in order; after an explicit flush / finishing / dropping, the file contains all of them
exactly once.  A value whose serialization fails contributes no bytes and no count.

Statements are for the all-accepting sink (`sink.sched = []`); `C15_run_benign` extends the end
result to every benign schedule through C16.  Definitions used (all in `Lemmas/OcfWriter.lean`):

* `codecData c d`, `blockBytes`, `blocksBytes`: the bytes of the blocks `(count, data)`;
* `Inv c hdr blocks w`: nothing pending, sink not taken, `sink.data = hdr ++ blocksBytes …`;
* `AState {sealed, buffered}`: the abstract writer — the entries `(bytes, count)` of every block
  written and the entries still buffered; `AState.log = sealed.flatten ++ buffered`;
  `astep approx a op` the abstract transition, `aseal` / `asealIf` close the current block;
* `Rep c hdr sync approx a w`: `Inv` for the blocks `a.sealed.map blockOf`, the buffer and count of
  `w` are those of `a.buffered`, the sink accepts everything, `w.sync = sync`, `w.approx = approx`;
* `preFlush`, `postAdd`: the parts of `serialize` before / after the value is appended.
-/
namespace Avro.Theorems
open Avro Avro.Impl Avro.Impl.Ocf

/-! ### 5. A value that fails to serialize -/

/-- `serialize` of a value that does not fit the schema: only the part of the call that runs
    before the value is looked at has an effect (flush a pending block, close a block that is
    already large enough); then the call fails and nothing of the value remains. Holds for every
    sink and every state. -/
theorem C15_failed_value_invisible (c : Codec) (dbg : Bool) (w : WState) :
    wstep c dbg w (.value none) =
      match preFlush c w with
      | (.error e, w₁) => (.error e, w₁)
      | (.ok _, w₁) => (.error .custom, w₁) := by
  simp only [wstep, Option.map_none, withValue_eq]
  cases preFlush c w with
  | mk r w₁ => cases r <;> rfl

/-- The same prefix is run when the value is serialized successfully. -/
theorem C15_value_prefix (c : Codec) (dbg : Bool) (w : WState) (d : Bytes) :
    wstep c dbg w (.value (some d)) =
      match preFlush c w with
      | (.error e, w₁) => (.error e, w₁)
      | (.ok _, w₁) => postAdd c { w₁ with buf := w₁.buf ++ d, n := w₁.n + 1 } := by
  simp only [wstep, Option.map_some, withValue_eq]
  cases preFlush c w with
  | mk r w₁ => cases r <;> rfl

/-- Between calls (nothing pending) and below the block size, a failing value changes nothing at
    all: buffer, count and sink are untouched. -/
theorem C15_failed_value_noop (c : Codec) (dbg : Bool) (w : WState) (hp : w.pending = none)
    (hlt : w.buf.length < w.approx) :
    wstep c dbg w (.value none) = (.error .custom, w) := by
  have : ¬ (w.buf.length ≥ w.approx) := by omega
  simp only [C15_failed_value_invisible, preFlush, flushFinishedBlock, hp, this, if_false]

/-- In a state satisfying the invariant, a failing value returns the serialization error and adds
    no entry to the log (no bytes, no count); at most the current block is closed. -/
theorem C15_failed_value_no_count (c : Codec) (dbg : Bool) (hdr sync : Bytes) (approx : Nat)
    (a : AState) (w : WState) (h : Rep c hdr sync approx a w) :
    ∃ w', wstep c dbg w (.value none) = (.error .custom, w') ∧
      Rep c hdr sync approx (asealIf approx a) w' ∧ (asealIf approx a).log = a.log :=
  let ⟨w', h1, h2⟩ := wstep_rep c dbg hdr sync approx a w (.value none) (by simp) h
  ⟨w', h1, h2, asealIf_log approx a⟩

/-! ### 6. The invariant is preserved by every call -/

/-- Every call on a state represented by `a` returns `Ok` (the serialization error for a failing
    value), never panics, and ends in a state represented by `astep approx a op`. -/
theorem C15_rep_step (c : Codec) (dbg : Bool) (hdr sync : Bytes) (approx : Nat) (a : AState)
    (w : WState) (op : WOp) (hop : op ≠ .intoInner) (h : Rep c hdr sync approx a w) :
    ∃ w', wstep c dbg w op = (expected op, w') ∧ Rep c hdr sync approx (astep approx a op) w' :=
  wstep_rep c dbg hdr sync approx a w op hop h

/-- `into_inner`: the current block is written, the sink is handed over. -/
theorem C15_intoInner_step (c : Codec) (dbg : Bool) (hdr sync : Bytes) (approx : Nat) (a : AState)
    (w : WState) (h : Rep c hdr sync approx a w) :
    ∃ w', wstep c dbg w .intoInner = (.ok (), { w' with taken := true }) ∧
      Rep c hdr sync approx (aseal a) w' :=
  wstep_intoInner_rep c dbg hdr sync approx a w h

/-- After `into_inner`, `Drop` does nothing. -/
theorem C15_drop_after_intoInner (c : Codec) (dbg : Bool) (w : WState) (h : w.taken = true) :
    wstep c dbg w .drop = (.ok (), w) := by
  simp [wstep, h]

/-- The same, unbundled: `Inv` with the abstract log tracked separately. -/
theorem C15_inv_step (c : Codec) (dbg : Bool) (hdr : Bytes) (a : AState) (w : WState) (op : WOp)
    (hop : op ≠ .intoInner)
    (hinv : Inv c hdr (a.sealed.map blockOf) w)
    (hbuf : w.buf = bufOf a.buffered) (hn : w.n = cntOf a.buffered) (hs : w.sink.sched = []) :
    let r := wstep c dbg w op
    let a' := astep w.approx a op
    r.1 = expected op ∧ r.1 ≠ .error .panic ∧
      Inv c hdr (a'.sealed.map blockOf) r.2 ∧
      r.2.buf = bufOf a'.buffered ∧ r.2.n = cntOf a'.buffered ∧
      r.2.pending = none ∧ r.2.sink.sched = [] ∧ r.2.sync = w.sync ∧ r.2.approx = w.approx ∧
      a'.log = a.log ++ entryOf op := by
  intro r a'
  obtain ⟨w', h1, h2⟩ := wstep_rep c dbg hdr w.sync w.approx a w op hop ⟨hinv, hbuf, hn, hs, rfl, rfl⟩
  have hr : r = (expected op, w') := h1
  rw [hr]
  refine ⟨rfl, ?_, h2.inv, h2.buf_eq, h2.n_eq, h2.inv.pending_none, h2.sched_nil, h2.sync_eq,
    h2.approx_eq, astep_log _ a op⟩
  cases op with
  | value d => cases d <;> simp [expected]
  | _ => simp [expected]

/-! What the abstract transition does. -/

/-- A value (or pushed bytes) goes to the end of the buffered list; when the buffer reaches the
    block size, the whole buffered list becomes ONE block whose count is the number buffered. -/
theorem C15_astep_value (approx : Nat) (a : AState) (d : Bytes)
    (hlt : (bufOf a.buffered).length < approx) :
    astep approx a (.value (some d)) =
      if (bufOf a.buffered ++ d).length ≥ approx then
        { sealed := a.sealed ++ [a.buffered ++ [(d, 1)]], buffered := [] }
      else { a with buffered := a.buffered ++ [(d, 1)] } := by
  have h1 : ¬ ((bufOf a.buffered).length ≥ approx) := by omega
  simp only [astep, asealIf, h1, if_false, aadd, bufOf_snoc, aseal, cntOf_snoc]
  split
  · have : cntOf a.buffered + 1 > 0 := by omega
    simp only [this, if_true]
  · rfl

theorem C15_blockOf_snoc (es : List Entry) (d : Bytes) :
    blockOf (es ++ [(d, 1)]) = (cntOf es + 1, bufOf es ++ d) := by
  simp [blockOf, bufOf_snoc, cntOf_snoc]

/-- `finish_block`, `into_inner`, `Drop`: everything buffered (if it counts at least one value)
    becomes a block. -/
theorem C15_astep_finish (approx : Nat) (a : AState) (op : WOp)
    (hop : op = .finishBlock ∨ op = .intoInner ∨ op = .drop) :
    astep approx a op =
      if cntOf a.buffered > 0 then { sealed := a.sealed ++ [a.buffered], buffered := [] } else a := by
  rcases hop with h | h | h <;> subst h <;> rfl

/-- A failing value adds nothing to the abstract state below the block size. -/
theorem C15_astep_failed (approx : Nat) (a : AState) (hlt : (bufOf a.buffered).length < approx) :
    astep approx a (.value none) = a := by
  have h1 : ¬ ((bufOf a.buffered).length ≥ approx) := by omega
  simp only [astep, asealIf, h1, if_false]

/-! ### Whole histories -/

/-- After any history of calls (before `into_inner`) on a freshly built writer — the header is
    in the sink, nothing buffered —: every call returned `Ok`, except failing values which
    returned their serialization error; the state is represented by `arun approx {} ops`, whose
    log (blocks written, then entries buffered) is exactly the list of successful values, in
    order; every block written counts at least one value. -/
theorem C15_run (c : Codec) (dbg : Bool) (hdr sync : Bytes) (approx : Nat) (ops : List WOp)
    (hops : ∀ op ∈ ops, op ≠ .intoInner) (w : WState) (h0 : Rep c hdr sync approx {} w) :
    let a := arun approx {} ops
    (wrun c dbg w ops).1 = ops.map expected ∧
      Rep c hdr sync approx a (wrun c dbg w ops).2 ∧
      a.sealed.flatten ++ a.buffered = ops.flatMap entryOf ∧
      SealedPos a := by
  intro a
  obtain ⟨h1, h2⟩ := wrun_rep c dbg hdr sync approx ops hops {} w h0
  refine ⟨h1, h2, ?_, arun_sealedPos approx {} ops (by intro b hb; simp at hb)⟩
  have := arun_log approx {} ops
  simpa [AState.log] using this

/-- The bytes delivered are the header followed by the blocks written, which hold a prefix of
    the successful values. -/
theorem C15_run_sink (c : Codec) (dbg : Bool) (hdr sync : Bytes) (approx : Nat) (ops : List WOp)
    (hops : ∀ op ∈ ops, op ≠ .intoInner) (w : WState) (h0 : Rep c hdr sync approx {} w) :
    let a := arun approx {} ops
    (wrun c dbg w ops).2.sink.data = hdr ++ blocksBytes c sync (a.sealed.map blockOf) ∧
      a.sealed.flatten <+: ops.flatMap entryOf := by
  intro a
  obtain ⟨_, h2, h3, _⟩ := C15_run c dbg hdr sync approx ops hops w h0
  refine ⟨?_, ⟨a.buffered, h3⟩⟩
  have := h2.inv.sink_eq
  rw [h2.sync_eq] at this
  exact this

/-- After an explicit `finish_block` / `Drop` at the end of the history, no counted value is left
    in the buffer; if every `push_serialized` counted at least one value, the buffer is empty and
    the blocks written hold all the successful values exactly once, in order. -/
theorem C15_run_finished (approx : Nat) (ops : List WOp) (fin : WOp)
    (hfin : fin = .finishBlock ∨ fin = .intoInner ∨ fin = .drop)
    (hpush : ∀ b k, WOp.push b k ∈ ops → 1 ≤ k) :
    let a := arun approx {} (ops ++ [fin])
    a.buffered = [] ∧ a.sealed.flatten = ops.flatMap entryOf := by
  intro a
  have ha : a = aseal (arun approx {} ops) := by
    show arun approx {} (ops ++ [fin]) = _
    simp only [arun, List.foldl_append, List.foldl_cons, List.foldl_nil]
    rcases hfin with h | h | h <;> subst h <;> rfl
  have hlog : a.log = ops.flatMap entryOf := by
    rw [ha, aseal_log, arun_log]; simp [AState.log]
  have hpos : AllPos (ops.flatMap entryOf) := by
    intro e he
    simp only [List.mem_flatMap] at he
    obtain ⟨op, hop, he⟩ := he
    cases op with
    | value d =>
      cases d with
      | none => simp [entryOf] at he
      | some d => simp only [entryOf, List.mem_singleton] at he; subst he; exact Nat.le_refl _
    | push b k =>
      simp only [entryOf, List.mem_singleton] at he; subst he; exact hpush b k hop
    | finishBlock => simp [entryOf] at he
    | intoInner => simp [entryOf] at he
    | drop => simp [entryOf] at he
  have hbufpos : AllPos a.buffered := by
    intro e he
    apply hpos e
    rw [← hlog]
    exact List.mem_append_right _ he
  have hnil : a.buffered = [] :=
    eq_nil_of_cntOf_eq_zero _ hbufpos (by rw [ha]; exact aseal_cnt _)
  refine ⟨hnil, ?_⟩
  rw [← hlog, AState.log, hnil, List.append_nil]

/-! ### 7. The sink parses as a complete container file -/

/-- In every state reached, the independent parser of the specification reads the sink as a
    complete file: the header's metadata and marker, exactly the blocks written (count, data as
    stored by the codec), no trailing bytes, no bad marker. -/
theorem C15_sink_parses (c : Codec) (metaBytes sync : Bytes) (md : List (Bytes × Bytes))
    (approx : Nat) (a : AState) (w : WState)
    (h : Rep c (Spec.Ocf.magic ++ metaBytes ++ sync) sync approx a w)
    (hmeta : MetaParses metaBytes md) (hsync : sync.length = 16)
    (hb : ∀ b ∈ a.sealed, cntOf b < 2 ^ 63 ∧ (codecData c (bufOf b)).length < 2 ^ 63) :
    Spec.Ocf.parse w.sink.data =
      some { metadata := md, sync := w.sync,
             blocks := a.sealed.map (fun b => { count := cntOf b, data := codecData c (bufOf b) }),
             trailing := 0, badSync := false } := by
  have hd := h.inv.sink_eq
  rw [h.sync_eq] at hd ⊢
  rw [hd, parse_file c metaBytes sync md (a.sealed.map blockOf) hmeta hsync]
  · simp [blockOf, List.map_map, Function.comp_def]
  · intro b hb'
    simp only [List.mem_map] at hb'
    obtain ⟨es, hes, rfl⟩ := hb'
    exact hb es hes

/-- Stated directly on `Inv`, for an arbitrary list of blocks. -/
theorem C15_inv_parses (c : Codec) (metaBytes : Bytes) (md : List (Bytes × Bytes))
    (blocks : List (Nat × Bytes)) (w : WState)
    (h : Inv c (Spec.Ocf.magic ++ metaBytes ++ w.sync) blocks w)
    (hmeta : MetaParses metaBytes md) (hsync : w.sync.length = 16)
    (hb : ∀ b ∈ blocks, b.1 < 2 ^ 63 ∧ (codecData c b.2).length < 2 ^ 63) :
    Spec.Ocf.parse w.sink.data =
      some { metadata := md, sync := w.sync,
             blocks := blocks.map (fun b => { count := b.1, data := codecData c b.2 }),
             trailing := 0, badSync := false } := by
  rw [h.sink_eq]
  exact parse_file c metaBytes w.sync md blocks hmeta hsync hb

/-- The block part alone. -/
theorem C15_blocks_parse (c : Codec) (sync : Bytes) (hsync : sync.length = 16)
    (blocks : List (Nat × Bytes))
    (hb : ∀ b ∈ blocks, b.1 < 2 ^ 63 ∧ (codecData c b.2).length < 2 ^ 63)
    (fuel : Nat) (hf : blocks.length < fuel) :
    Spec.Ocf.parseBlocks sync fuel (blocksBytes c sync blocks) =
      (blocks.map (fun b => { count := b.1, data := codecData c b.2 }), 0, false) :=
  parseBlocks_blocksBytes c sync hsync blocks hb fuel hf

/-- The header the model's `build_with_user_metadata` writes satisfies the hypothesis on the
    header: it is magic, a metadata map the specification parser reads as the schema, the codec
    name and the user entries, then the marker. -/
theorem C15_header_parses (schemaJson codecName : Bytes) (userMeta : List (Bytes × Bytes))
    (sync : Bytes)
    (hs : schemaJson.length < 2 ^ 63) (hc : codecName.length < 2 ^ 63)
    (hu : ∀ e ∈ userMeta, e.1.length < 2 ^ 63 ∧ e.2.length < 2 ^ 63) :
    let entries := ("avro.schema".toUTF8.data.toList, schemaJson) ::
        ("avro.codec".toUTF8.data.toList, codecName) :: userMeta
    headerBytes schemaJson codecName userMeta sync
        = Spec.Ocf.magic ++ metaBytesOf entries ++ sync ∧
      MetaParses (metaBytesOf entries) entries := by
  intro entries
  refine ⟨headerBytes_eq schemaJson codecName userMeta sync, metaParses_metaBytesOf entries ?_⟩
  intro e he
  simp only [entries, List.mem_cons] at he
  rcases he with rfl | rfl | he
  · exact ⟨by show "avro.schema".toUTF8.data.toList.length < 2 ^ 63; decide, hs⟩
  · exact ⟨by show "avro.codec".toUTF8.data.toList.length < 2 ^ 63; decide, hc⟩
  · exact hu e he

/-! ### Benign schedules (through C16) -/

/-- With any benign schedule of partial writes and interruptions, the calls return the same
    results and the sink ends up with the same complete file. -/
theorem C15_run_benign (c : Codec) (dbg : Bool) (hdr sync : Bytes) (approx : Nat) (ops : List WOp)
    (hops : ∀ op ∈ ops, op ≠ .intoInner) (w : WState) (hb : Benign w.sink.sched)
    (h0 : Rep c hdr sync approx {} (core w)) :
    let a := arun approx {} ops
    (wrun c dbg w ops).1 = ops.map expected ∧
      (wrun c dbg w ops).2.sink.data = hdr ++ blocksBytes c sync (a.sealed.map blockOf) ∧
      (wrun c dbg w ops).2.pending = none := by
  intro a
  obtain ⟨h1, h2⟩ := wrun_sim c dbg ops w (core w) (Sim.of_core w hb)
  obtain ⟨h3, h4⟩ := wrun_rep c dbg hdr sync approx ops hops {} (core w) h0
  have hc := (core_eq_iff _ _).1 h2.core_eq
  refine ⟨by rw [h1, h3], ?_, ?_⟩
  · rw [hc.2.2.2.2.2.2.1, h4.inv.sink_eq, h4.sync_eq]
  · rw [hc.2.2.1, h4.inv.pending_none]

end Avro.Theorems
