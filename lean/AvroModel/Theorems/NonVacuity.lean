import AvroModel.Theorems.NonVacuityA
import AvroModel.Theorems.NonVacuityB
import AvroModel.Theorems.NonVacuityC
import AvroModel.Theorems.NonVacuityE
import AvroModel.Theorems.NonVacuityF
/-
Non-vacuity audit of the registered property theorems: index.

Each `NonVacuity<X>.lean` instantiates headline theorems of its properties on concrete, non-trivial
instances with the REAL model functions (`ser`, `de deExtModel`, `parseJson`, `renderJson`,
`canonicalForm`, `freeze`, `wrun`, `readAll`, `schemaMut` ...), every hypothesis proved, and proves
as theorems the cases in which a hypothesis is NOT met by the function the driver runs.

  NonVacuityA   C01 C02 C03     (imports Driver.Parse for the real `ExtTable.toExt`)
  NonVacuityB   C04 C11 C12 C18
  NonVacuityC   C05 C06 C15 C16 C17
  NonVacuityD   C07 C08         (SchemaParse side: cannot be imported with E / F, not listed above)
  NonVacuityE   C09 C10 C19     (SchemaRender side)
  NonVacuityE2  C09_reparsed_*  (SchemaParse side, not listed above)
  NonVacuityF   C13 C14 C20

Hypotheses proved UNMEETABLE by what is really run (names of the proved statements):
  * `ExtOK ext` (C01_ser_canonical*, C01_roundtrip_impl*, C02_sound_*, C02_unrepresentable_err):
    false for `ExtTable.toExt t`, every table `t`                      — `NonVacuityA.toExt_not_ExtOK`
  * `st1.Le stF` (C07_order_independent_ref, C07_forward_ref_eq_late_lookup, C07_backward_ref_stable,
    C07_node_stable): false for the final registration state of a nested reference
                                                 — `NonVacuityD.le_to_final_state_fails`
  * `NamesWf.hash_inj` / `NameInj` (C20_names_distinct, C20_names_distinct_of_nameInj): false for
    every hash with finitely many values, the driver's included
                                                 — `NVF20.namesWf_unmeetable_by_finite_hash`
  * `hserv` of C13_recordValue_invariant: false for the real field serializer
                                                 — `NVF.recordValue_invariant_hserv_unmeetable`
Content-free registered statements: `C03_block_sizes_checked` (`fun _ _ h => h`),
`C13_flush_invariant` (identity under its hypothesis, `NVF.flush_invariant_is_identity`),
`C18_write_read_slice` (= `C18_accepts_slice`, does not mention the writer).
-/
