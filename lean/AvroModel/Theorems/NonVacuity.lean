import AvroModel.Theorems.NonVacuityA
import AvroModel.Theorems.NonVacuityB
import AvroModel.Theorems.NonVacuityC
import AvroModel.Theorems.NonVacuityD
import AvroModel.Theorems.NonVacuityE
import AvroModel.Theorems.NonVacuityE2
import AvroModel.Theorems.NonVacuityF
/-
Non-vacuity audit of the registered property theorems: index.

Each `NonVacuity<X>.lean` instantiates headline theorems of its properties on concrete, non-trivial
instances with the REAL model functions (`ser`, `de deExtModel`, `parseJson`, `renderJson`,
`canonicalForm`, `freeze`, `wrun`, `readAll`, `schemaMut` ...), every hypothesis proved, and proves
as theorems the cases in which a hypothesis is NOT met by the function the driver runs.

  NonVacuityA   C01 C02 C03     (imports Driver.Parse for the real `ExtTable.toExt`)
  NonVacuityB   C04 C11 C12 C18
  NonVacuityC   C05 C06 C15 C16 C17
  NonVacuityD   C07 C08
  NonVacuityE   C09 C10 C19     (SchemaRender side)
  NonVacuityE2  C09_reparsed_*  (SchemaParse side)
  NonVacuityF   C13 C14 C20

Hypotheses the audit proved UNMEETABLE by what is really run, ALL REPAIRED since (the statements
of the registered theorems were changed; the audit's negative results are kept as facts about the
FORMER hypotheses):
  * `ExtOK ext` (C01_ser_canonical*, C01_roundtrip_impl*, C02_sound_*, C02_unrepresentable_err):
    its clause `rescale` was unconditional and false for `ExtTable.toExt t`, every table `t`
    (`NonVacuityA.toExt_not_ExtOK_unconditional`).  REPAIRED: the clause is conditional on the
    argument fitting `i128`; `Theorems.toExt_ExtOK` (every table passing the range check
    `ExtTable.ok`, which the driver's parser now applies: `Theorems.pExtEntries_ExtOK`); the
    instances of NonVacuityA use the driver's own `toExt`.
  * `st1.Le stF` (C07_order_independent_ref, C07_forward_ref_eq_late_lookup, C07_backward_ref_stable,
    C07_node_stable): false for the final registration state of a nested reference
    (`NonVacuityD.le_to_final_state_fails`).  REPAIRED: `PState.LeNU` (names / unresolved) resp.
    `PState.LeExcept op` (all slots but the enclosing placeholders); instantiated on the real final
    state of a real `registerNode` run (`NonVacuityD.leX_1_F`, `leNU_1_F`).
  * `NamesWf.hash_inj` / `NameInj` (now only of the corollaries C20_names_distinct_global,
    C20_names_distinct_of_nameInj_global): false for every hash with finitely many values, the
    driver's included (`NVF20.namesWf_unmeetable_by_finite_hash`).  REPAIRED:
    C20_names_distinct / C20_names_distinct_of_nameInj ask `NamesWfOn` on `genericRecordKeys` /
    `NameInjOn` on `builtKeys` (finite lists computed from the build; decidable), met by the
    driver's hash (`NVF20.names_distinct_driverHash_closed`).
  * `hserv` of C13_recordValue_invariant: false for the real field serializer
    (`NVF.recordValue_invariant_hserv_unmeetable`, now about the lemma `recordValue_inv`).
    REPAIRED: the hypothesis is that of `recordValue_inv_gen` at `PoolClean`;
    `C13_recordValue_invariant_ser` discharges it for the real `ser`.
Content-free registered statements, REPLACED:
  * `C03_block_sizes_checked` (was `fun _ _ h => h`): now "a first block header with a negative
    count and a negative byte size is never deserialized into a value", instance in NonVacuityA.
  * `C13_flush_invariant` (was the identity under its hypothesis): now
    `RecInv … rs s → flushBuffered fuel rs s = (.ok rs, s)`, instance in NonVacuityF.
  * `C18_write_read_slice` (was `C18_accepts_slice`): REMOVED; `C18_write_read`,
    `C18_write_read_msg` (Theorems/C18full.lean) compose `C18_frame`, `C01_roundtrip_impl`,
    `C18_accepts_slice` with the real `ser` and `de`; instance `NVB.cyc_write_read`.

Fuel (the driver's fuels are now DEFINED in the model, `Lemmas/DriverFuel.lean`: `Avro.Impl.deFuel`,
`Avro.Impl.graphFuel`; `Driver/Main.lean` and the audit files use these very definitions, no copies):
  * `de`: the driver's historical formula (`deFuelBase`) could be below `fuelBound`, the lower end
    of the fuel range of the C04 theorems (`NVB.driver_fuel_base_insufficient`: `panic` = out of
    fuel on a valid input).  The driver now passes `deFuel = max deFuelBase fuelBound`:
    `fuelBound_le_deFuel` (unconditional), `C04_fuel_independent_at_deFuel`,
    `C04_no_panic_at_deFuel`, `C04_ok_or_err_at_deFuel` (`Theorems/C04fuel.lean`);
    `NVB.driver_fuel_sufficient` (the same instance: `Ok`), `NonVacuityA` §6
    (`C01_de_accepts_at_driverFuel`, `C03_de_refines_spec_at_driverFuel`).
  * `canonicalForm` / `renderJson` / `freeze` / `schemaFingerprint`: the conclusions
    `∀ fuel, n + 2 ≤ fuel → canonicalForm S fuel = .ok text` of C07_valid_parses_*, C08_pcf_is_spec*,
    C09_reparsed_* need not contain `graphFuel S` (`NonVacuityD.padded_fuel_gap`,
    `NonVacuityE2` `gEnum`).  `Theorems/GraphFuel.lean`: `pcfBound_le_graphFuel`,
    `renderBound_le_graphFuel`, `C19_{pcf,render,freeze,fingerprint}_total_at_graphFuel`, and the
    corollaries `C07_valid_parses_and_resolves_at_graphFuel`, `C07_valid_parses_checked_at_graphFuel`,
    `C08_pcf_is_spec_at_graphFuel`, `C08_pcf_is_spec_text_at_graphFuel`,
    `C09_render_has_graph_pcf_at_graphFuel`, `C09_reparsed_has_same_pcf_at_graphFuel`,
    `C09_reparsed_canonicalForm_eq_at_graphFuel` conclude at `graphFuel S` itself; instances in
    `NonVacuityD` (A, E), `NonVacuityE`, `NonVacuityE2`.
  * `Lemmas/SchemaParse` and `Lemmas/SchemaRender` CAN now be imported together (the five clashing
    helper lemmas of `Lemmas/SchemaRender.lean` are `private`); `NonVacuityD` and `NonVacuityE2`
    import `Theorems/GraphFuel.lean`, which imports both sides.
-/
