import AvroModel.Lemmas.RegisterFuel
import AvroModel.Lemmas.ValidParsesRead
import AvroModel.Theorems.NonVacuityD
/-
C19 (schema construction is total), the registration pass of the parser.

`parseJson j nodeCount` (`Impl/SchemaParse.lean`) runs `registerNode (nodeCount + 2) raw none {}`
on the raw tree `raw` read from the document.  `registerNode` and its companions
(`registerObject`, `registerList`, `registerFields`) signal "out of fuel" with `.error .panic`.
Until now the fuel was "taken generously": no theorem bounded it.  Here:

* `rawBound : RawSchema → Nat` (`Lemmas/RegisterFuel.lean`; re-exported below): the depth of the
  raw tree as `registerNode` walks it — a function of the raw tree only;
* `C19_register_total`, `C19_register_errors`, `C19_register_fuel_irrelevant` (and the same for the
  three companions): with `rawBound raw ≤ fuel`, never the marker, the only error is `custom`,
  and the result (value, state or error) does not depend on the fuel;
* `C19_register_bound_sharp`: on a concrete tree, `rawBound raw - 1` units give the marker:
  the bound is attained (and the hypothesis is necessary);
* `rawBound raw ≤ sizeRaw raw ≤ schemaSize j ≤ 4 * jsonSize j + 8` (`C19_rawBound_le_driver_fuel`):
  the driver's `nodeCount` (`Driver/Main.lean`: `parseJson j (4 * jsonSize j + 8)`; `jsonSize` is
  a `partial def` of the driver, transcribed structurally as `NonVacuityD.jsonSizeT`) always
  suffices;
* `C19_parseJson_register_fuel`, `C19_parseJson_total`, `C19_parseJson_driver_total`:
  `parseJson j n` never returns the marker, fails only with `json` / `custom` / `cycle`, and
  equals `parseJson j n'` for every `n' ≥ n`, as soon as `registerNeed j ≤ n + 2`, where
  `registerNeed j ≤ schemaSize j` are functions of the document only;
* `C19_register_depth_le_nesting`, `C19_register_depth_bounded`: the nesting of the raw tree (the
  depth of the recursion of `register_node` in the crate, which iterates over lists) is at most
  `jsonNesting j + 1 ≤ 128`.
-/
namespace Avro.Theorems
open Avro Avro.Impl Avro.Spec Avro.ValidParses
open Avro.Theorems.NonVacuityD (jsonSizeT driverFuel schemaSize_le_driver_fuel)

/-- The fuel bound of the registration pass (defined in `Lemmas/RegisterFuel.lean`, a function of
    the raw tree only): `1` for a reference, `2` for a bare type name, `1 +` the list bound for a
    union, `2 +` the bound of the attribute its type name selects for an object; the list bound
    is `0` for `[]` and `1 + max (rawBound r) (bound rest)` for `r :: rest`. -/
abbrev rawBound : RawSchema → Nat := Avro.Impl.rawBound

/-! ### 1. `registerNode` and companions -/

/-- **C19, registration**: with `rawBound raw` units of fuel `registerNode` never reports "out of
    fuel", for every enclosing namespace and every state. -/
theorem C19_register_total (raw : RawSchema) (ns : Option String) (st : PState) (fuel : Nat)
    (h : rawBound raw ≤ fuel) : registerNode fuel raw ns st ≠ .error .panic := by
  intro he
  have := (register_errors fuel).1 raw ns st _ h he
  cases this

/-- … its only error is `custom` (`SchemaError` of the crate) … -/
theorem C19_register_errors (raw : RawSchema) (ns : Option String) (st : PState) (fuel : Nat)
    (e : SchemaErr) (h : rawBound raw ≤ fuel) (he : registerNode fuel raw ns st = .error e) :
    e = .custom :=
  (register_errors fuel).1 raw ns st e h he

/-- … and its result — key, state or error — does not depend on the fuel. -/
theorem C19_register_fuel_irrelevant (raw : RawSchema) (ns : Option String) (st : PState)
    (fuel fuel' : Nat) (h : rawBound raw ≤ fuel) (h' : rawBound raw ≤ fuel') :
    registerNode fuel raw ns st = registerNode fuel' raw ns st := by
  rw [← registerNode_fuel_le (Nat.le_refl _) h ns st, ← registerNode_fuel_le (Nat.le_refl _) h' ns st]

/-- The same for the three mutual companions. -/
theorem C19_register_companions_total (fuel : Nat) :
    (∀ t o of oi ov ns st, 1 + bodyBound t of oi ov ≤ fuel →
      registerObject fuel t o of oi ov ns st ≠ .error .panic) ∧
    (∀ l ns st, rawBoundList l ≤ fuel → registerList fuel l ns st ≠ .error .panic) ∧
    (∀ l ns st, rawBoundFields l ≤ fuel → registerFields fuel l ns st ≠ .error .panic) := by
  obtain ⟨-, hO, hL, hF⟩ := register_errors fuel
  refine ⟨?_, ?_, ?_⟩
  · intro t o of oi ov ns st h he; cases hO _ _ _ _ _ _ _ _ h he
  · intro l ns st h he; cases hL _ _ _ _ h he
  · intro l ns st h he; cases hF _ _ _ _ h he

theorem C19_register_companions_fuel_irrelevant (fuel fuel' : Nat) :
    (∀ t o of oi ov ns st, 1 + bodyBound t of oi ov ≤ fuel → 1 + bodyBound t of oi ov ≤ fuel' →
      registerObject fuel t o of oi ov ns st = registerObject fuel' t o of oi ov ns st) ∧
    (∀ l ns st, rawBoundList l ≤ fuel → rawBoundList l ≤ fuel' →
      registerList fuel l ns st = registerList fuel' l ns st) ∧
    (∀ l ns st, rawBoundFields l ≤ fuel → rawBoundFields l ≤ fuel' →
      registerFields fuel l ns st = registerFields fuel' l ns st) := by
  refine ⟨?_, ?_, ?_⟩
  · intro t o of oi ov ns st h h'
    rw [← registerObject_fuel_le (Nat.le_refl _) h ns st,
      ← registerObject_fuel_le (Nat.le_refl _) h' ns st]
  · intro l ns st h h'
    rw [← registerList_fuel_le (Nat.le_refl _) h ns st, ← registerList_fuel_le (Nat.le_refl _) h' ns st]
  · intro l ns st h h'
    rw [← registerFields_fuel_le (Nat.le_refl _) h ns st,
      ← registerFields_fuel_le (Nat.le_refl _) h' ns st]

/-! #### non-vacuity, sharpness, necessity of the hypothesis -/

/-- `{"type":"record","name":"R","fields":[{"name":"a","type":"int"},
      {"name":"b","type":{"type":"array","items":["null","R"]}}]}` as the raw tree -/
def rawRec : RawSchema :=
  .object { type := .record, logicalType := none, name := some "R", nsAttr := none,
            symbols := none, size := none, precision := none, scale := none }
    (some [("a", .type .int),
      ("b", .object { type := .array, logicalType := none, name := none, nsAttr := none,
                      symbols := none, size := none, precision := none, scale := none }
        none (some (.union [.type .null, .ref "R"])) none)])
    none none

theorem rawRec_bound : rawBound rawRec = 10 := by decide

/-- `C19_register_total` / `C19_register_fuel_irrelevant` instantiated: a successful run. -/
example : registerNode 10 rawRec none {} ≠ .error .panic ∧
    registerNode 10 rawRec none {} = registerNode 1000 rawRec none {} ∧
    (match registerNode 10 rawRec none {} with
      | .ok (.idx 0, st) => st.nodes.size == 5 && st.unresolved.isEmpty && st.names.length == 1
      | _ => false) = true :=
  ⟨C19_register_total rawRec none {} 10 (by decide),
   C19_register_fuel_irrelevant rawRec none {} 10 1000 (by decide) (by decide),
   by decide +kernel⟩

/-- … and a failing one (`R` is already in the name table): the error is `custom`, with the least
    and with any larger fuel. -/
example : registerNode 10 rawRec none { names := [(⟨none, "R"⟩, 7)] } = .error .custom ∧
    registerNode 12345 rawRec none { names := [(⟨none, "R"⟩, 7)] } = .error .custom := by
  have h : registerNode 10 rawRec none { names := [(⟨none, "R"⟩, 7)] } = .error .custom := by
    decide +kernel
  exact ⟨h, by rw [← C19_register_fuel_irrelevant rawRec none _ 10 12345 (by decide) (by decide)]; exact h⟩

/-- **The bound is attained**: one unit less than `rawBound` and the marker is returned — so the
    hypothesis `rawBound raw ≤ fuel` of `C19_register_total` cannot be weakened to
    `rawBound raw ≤ fuel + 1`, and `C19_register_fuel_irrelevant` fails below the bound. -/
theorem C19_register_bound_sharp :
    registerNode (rawBound rawRec - 1) rawRec none {} = .error .panic ∧
    registerNode (rawBound rawRec - 1) rawRec none {} ≠ registerNode (rawBound rawRec) rawRec none {} := by
  refine ⟨by decide +kernel, by decide +kernel⟩

/-- `rawBound` is an upper bound for *every* state, not the exact consumption in each: an error
    of the crate met before the deep part hides it (here an `enum` without a name, then three
    nested unions). -/
example : rawBound (.union [.type .enum, .union [.union [.union [.type .int]]]]) = 11 ∧
    registerNode 4 (.union [.type .enum, .union [.union [.union [.type .int]]]]) none {}
      = .error .custom := by
  refine ⟨by decide, by decide +kernel⟩

/-! ### 2. the bound against the node counts of C07 and of the driver -/

/-- the raw tree read from `j` needs at most `schemaSize j` (`Spec/ValidDoc.lean`, a function of
    the document only) -/
theorem C19_rawBound_le_schemaSize (j : Json) (gas : Nat) (raw : RawSchema)
    (hraw : rawOfJson gas j = .ok raw) : rawBound raw ≤ schemaSize j :=
  Nat.le_trans (rawBound_le_sizeRaw raw) (read_size hraw)

/-- **The driver's `nodeCount`** (`Driver/Main.lean`: `4 * jsonSize j + 8`, `jsonSize` one per JSON
    value) is at least `rawBound raw` (a fortiori `rawBound raw - 2`, what `parseJson` needs, since
    it adds `2`). -/
theorem C19_rawBound_le_driver_fuel (j : Json) (gas : Nat) (raw : RawSchema)
    (hraw : rawOfJson gas j = .ok raw) : rawBound raw ≤ 4 * jsonSizeT j + 8 :=
  Nat.le_trans (C19_rawBound_le_schemaSize j gas raw hraw) (schemaSize_le_driver_fuel j)

/-! ### 3. `parseJson` -/

/-- What the registration pass of `parseJson` needs on the document `j` (a function of `j` only):
    `rawBound` of the raw tree `rawOfJson` reads from it with the gas `parseJson` hands it; `0` if
    the document is not read. -/
def registerNeed (j : Json) : Nat :=
  match rawOfJson (rawGas j) j with
  | .ok raw => rawBound raw
  | .error _ => 0

theorem registerNeed_le_schemaSize (j : Json) : registerNeed j ≤ schemaSize j := by
  unfold registerNeed
  split
  · rename_i raw hraw; exact C19_rawBound_le_schemaSize j _ raw hraw
  · exact Nat.zero_le _

theorem registerNeed_le_driver_fuel (j : Json) : registerNeed j ≤ 4 * jsonSizeT j + 8 :=
  Nat.le_trans (registerNeed_le_schemaSize j) (schemaSize_le_driver_fuel j)

/-- what `parseJson` does with the outcome of the registration pass -/
def parseTail (r : Except SchemaErr (PKey × PState)) : Except SchemaErr SchemaMut :=
  match r with
  | .error e => .error e
  | .ok (_, st) =>
    match resolveKeys st with
    | .error e => .error e
    | .ok S =>
      match checkForCycles S with
      | .error e => .error e
      | .ok _ => .ok S

theorem parseJson_eq_tail (j : Json) (n : Nat) :
    parseJson j n =
      if jsonNesting j > 127 then .error .json
      else match rawOfJson (rawGas j) j with
        | .error e => .error e
        | .ok raw => parseTail (registerNode (n + 2) raw none {}) := by
  unfold parseJson parseTail
  rfl

theorem parseTail_errors {r : Except SchemaErr (PKey × PState)} {e : SchemaErr}
    (hr : ∀ e, r = .error e → e = .custom) (h : parseTail r = .error e) :
    e = .custom ∨ e = .cycle := by
  cases r with
  | error e' => simp only [parseTail] at h; cases h; exact Or.inl (hr _ rfl)
  | ok p =>
    obtain ⟨k, st⟩ := p
    simp only [parseTail] at h
    cases hres : resolveKeys st with
    | error e' => rw [hres] at h; cases h; exact Or.inl (resolveKeys_error hres)
    | ok S =>
      rw [hres] at h
      simp only [] at h
      cases hc : checkForCycles S with
      | error e' =>
        rw [hc] at h; cases h
        rcases checkForCycles_error S hc with h1 | h1
        · exact Or.inr h1
        · subst h1; exact absurd hc (checkForCycles_no_panic S)
      | ok u => rw [hc] at h; cases h

/-- **C19, `parseJson`, in terms of the raw tree**: if `raw` is the tree read from `j` and
    `rawBound raw ≤ nodeCount + 2`, then `parseJson j nodeCount` never returns the fuel marker, its
    errors are `json` (not a schema document / nested too deep), `custom` (registration, late
    resolution) or `cycle`, and the result is the same for every larger `nodeCount`. -/
theorem C19_parseJson_register_fuel (j : Json) (raw : RawSchema) (n : Nat)
    (hraw : rawOfJson (rawGas j) j = .ok raw) (hn : rawBound raw ≤ n + 2) :
    parseJson j n ≠ .error .panic ∧
    (∀ e, parseJson j n = .error e → e = .json ∨ e = .custom ∨ e = .cycle) ∧
    (∀ n', n ≤ n' → parseJson j n' = parseJson j n) := by
  have herr : ∀ e, parseJson j n = .error e → e = .json ∨ e = .custom ∨ e = .cycle := by
    intro e he
    rw [parseJson_eq_tail, hraw] at he
    split at he
    · cases he; exact Or.inl rfl
    · simp only [] at he
      rcases parseTail_errors (fun e' h' => C19_register_errors raw none {} (n + 2) e' hn h') he
        with rfl | rfl
      · exact Or.inr (Or.inl rfl)
      · exact Or.inr (Or.inr rfl)
  refine ⟨?_, herr, ?_⟩
  · intro he
    rcases herr _ he with h | h | h <;> cases h
  · intro n' hle
    rw [parseJson_eq_tail, parseJson_eq_tail, hraw]
    simp only []
    rw [C19_register_fuel_irrelevant raw none {} (n' + 2) (n + 2) (by omega) hn]

/-- **C19, `parseJson` is total**: above `registerNeed j - 2` — a fortiori above `schemaSize j - 2`,
    both explicit functions of the document only — `parseJson j nodeCount` never returns the fuel
    marker, fails only with `json`, `custom` or `cycle`, and does not depend on `nodeCount`.  No
    hypothesis on the document: any JSON value. -/
theorem C19_parseJson_total_need (j : Json) (n : Nat) (hn : registerNeed j ≤ n + 2) :
    parseJson j n ≠ .error .panic ∧
    (∀ e, parseJson j n = .error e → e = .json ∨ e = .custom ∨ e = .cycle) ∧
    (∀ n', n ≤ n' → parseJson j n' = parseJson j n) := by
  cases hraw : rawOfJson (rawGas j) j with
  | ok raw =>
    exact C19_parseJson_register_fuel j raw n hraw (by simpa [registerNeed, hraw] using hn)
  | error e0 =>
    have h0 : e0 = .json := rawOfJson_error hraw
    subst h0
    have hval : ∀ m, parseJson j m = .error .json := by
      intro m
      rw [parseJson_eq_tail, hraw]
      split <;> rfl
    refine ⟨?_, ?_, ?_⟩
    · rw [hval]; intro h; cases h
    · intro e he; rw [hval] at he; cases he; exact Or.inl rfl
    · intro n' _; rw [hval, hval]

theorem C19_parseJson_total (j : Json) (n : Nat) (hn : schemaSize j ≤ n + 2) :
    parseJson j n ≠ .error .panic ∧
    (∀ e, parseJson j n = .error e → e = .json ∨ e = .custom ∨ e = .cycle) ∧
    (∀ n', n ≤ n' → parseJson j n' = parseJson j n) :=
  C19_parseJson_total_need j n (Nat.le_trans (registerNeed_le_schemaSize j) hn)

/-- Any two `nodeCount`s above the bound give the same result. -/
theorem C19_parseJson_fuel_irrelevant (j : Json) (n n' : Nat) (hn : registerNeed j ≤ n + 2)
    (hn' : registerNeed j ≤ n' + 2) : parseJson j n = parseJson j n' := by
  rcases Nat.le_total n n' with h | h
  · exact ((C19_parseJson_total_need j n hn).2.2 n' h).symm
  · exact (C19_parseJson_total_need j n' hn').2.2 n h

/-- **As the driver runs the parser** (`parseJson j (4 * jsonSize j + 8)`): never the fuel marker,
    and the same result as with any larger `nodeCount` — for every JSON value. -/
theorem C19_parseJson_driver_total (j : Json) :
    parseJson j (driverFuel j) ≠ .error .panic ∧
    (∀ e, parseJson j (driverFuel j) = .error e → e = .json ∨ e = .custom ∨ e = .cycle) ∧
    (∀ n', driverFuel j ≤ n' → parseJson j n' = parseJson j (driverFuel j)) :=
  C19_parseJson_total j (driverFuel j)
    (Nat.le_trans (schemaSize_le_driver_fuel j) (Nat.le_add_right _ 2))

/-! #### non-vacuity and necessity -/

/-- the document of `rawRec` -/
def docRec : Json :=
  .obj [("type", .str "record"), ("name", .str "R"),
    ("fields", .arr [
      .obj [("name", .str "a"), ("type", .str "int")],
      .obj [("name", .str "b"),
        ("type", .obj [("type", .str "array"), ("items", .arr [.str "null", .str "R"])])]])]

theorem docRec_raw : rawOfJson (rawGas docRec) docRec = .ok rawRec := by rfl

theorem docRec_need : registerNeed docRec = 10 ∧ schemaSize docRec = 15 ∧ driverFuel docRec = 64 := by
  refine ⟨by decide +kernel, by decide +kernel, by decide +kernel⟩

/-- `C19_parseJson_register_fuel` on `docRec` at the least `nodeCount` (8): parses, and every
    larger `nodeCount` (the driver's 64 for one) gives the same graph. -/
example : (match parseJson docRec 8 with | .ok S => S.size == 5 | .error _ => false) = true ∧
    parseJson docRec (driverFuel docRec) = parseJson docRec 8 ∧
    parseJson docRec 8 ≠ .error .panic := by
  have h := C19_parseJson_register_fuel docRec rawRec 8 docRec_raw (by decide)
  exact ⟨by decide +kernel, h.2.2 _ (by decide +kernel), h.1⟩

/-- **Necessity of the bound**: with `nodeCount = 7` (`registerNeed docRec - 3`) the model runs out
    of fuel on the same document: `parseJson` is *not* independent of `nodeCount` below the bound. -/
theorem C19_parseJson_bound_sharp :
    parseJson docRec 7 = .error .panic ∧ parseJson docRec 7 ≠ parseJson docRec 8 := by
  refine ⟨by decide +kernel, by decide +kernel⟩

/-- The three error classes of `C19_parseJson_total` are all met (with the driver's `nodeCount`):
    `json` (a number is not a schema), `custom` (unknown reference), `cycle` (a record containing
    itself unconditionally). -/
example :
    parseJson (.nat 3) (driverFuel (.nat 3)) = .error .json ∧
    parseJson (.str "Nope") (driverFuel (.str "Nope")) = .error .custom ∧
    parseJson (.obj [("type", .str "record"), ("name", .str "R"),
        ("fields", .arr [.obj [("name", .str "a"), ("type", .str "R")]])]) 80 = .error .cycle := by
  refine ⟨by decide +kernel, by decide +kernel, by decide +kernel⟩


/-! ### 4. the recursion depth of `register_node` in the crate

The model's fuel also pays for the position in a union / field list; the crate iterates there and
its call stack grows only with the nesting `rawDepth` of the raw tree (`Lemmas/RegisterFuel.lean`),
which `serde_json`'s recursion limit bounds: no unbounded recursion in `register_node`. -/

/-- The raw tree read from a document is nested at most one deeper than the arrays / objects of
    the document … -/
theorem C19_register_depth_le_nesting (j : Json) (gas : Nat) (raw : RawSchema)
    (hraw : rawOfJson gas j = .ok raw) : rawDepth raw ≤ jsonNesting j + 1 :=
  read_depth hraw

/-- … hence at most 128 nested `register_node` calls on any document `parseJson` (`serde_json`)
    accepts. -/
theorem C19_register_depth_bounded (j : Json) (n : Nat) (S : SchemaMut)
    (h : parseJson j n = .ok S) :
    ∃ raw, rawOfJson (rawGas j) j = .ok raw ∧ rawDepth raw ≤ 128 := by
  rw [parseJson_eq_tail] at h
  split at h
  · cases h
  · rename_i hnest
    cases hraw : rawOfJson (rawGas j) j with
    | error e => rw [hraw] at h; cases h
    | ok raw =>
      have := read_depth hraw
      exact ⟨raw, rfl, by omega⟩

/-- non-vacuity (`docRec`: 5 nested containers, 4 nested raw nodes), and the `+ 1` is attained
    (`[["int"]]`: 2 nested arrays, 3 nested raw nodes) -/
example : jsonNesting docRec = 5 ∧ rawDepth rawRec = 4 ∧
    (∃ raw, rawOfJson (rawGas docRec) docRec = .ok raw ∧ rawDepth raw ≤ 128) ∧
    jsonNesting (.arr [.arr [.str "int"]]) = 2 ∧
    rawOfJson 9 (.arr [.arr [.str "int"]]) = .ok (.union [.union [.type .int]]) ∧
    rawDepth (.union [.union [.type .int]]) = 3 := by
  refine ⟨by decide, by decide, ?_, by decide, by rfl, by decide⟩
  have hp : (match parseJson docRec 8 with | .ok _ => true | .error _ => false) = true := by
    decide +kernel
  cases h : parseJson docRec 8 with
  | error e => rw [h] at hp; cases hp
  | ok S => exact C19_register_depth_bounded docRec 8 S h

end Avro.Theorems
