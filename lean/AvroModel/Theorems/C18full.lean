import AvroModel.Theorems.C18
import AvroModel.Theorems.C01glue
/-
C18 — single-object encoding, WRITE THEN READ with the real datum serializer and deserializer.

`C18_write_read`: the model's single-object writer (`toSingleObject`, Impl/Single.lean) run with
the real `ser`, on a presentation `sv` that satisfies the side conditions of `C01_roundtrip_impl`,
writes `C3 01 ++ fp ++ Spec.encode S node v` for a value `v` the presentation denotes; reading that
message (followed by anything) with the model's slice entry point `fromSingleObject` under the same
fingerprint, the datum being read by the real `de` with the untyped target, returns
`Spec.observe S node v` and leaves exactly what followed.  It composes `C18_frame`,
`C01_roundtrip_impl` and `C18_accepts_slice`.

(It replaces the former `C18_write_read_slice`, which had the statement and proof of
`C18_accepts_slice` and did not mention the writer.)
-/
namespace Avro.Theorems
open Avro Avro.Impl Avro.Spec

/-- the fingerprint stored at freeze time has 8 bytes -/
theorem schemaFingerprint_length (Sm : SchemaMut) (fuel : Nat) (fp : Bytes)
    (h : schemaFingerprint Sm fuel = .ok fp) : fp.length = 8 := by
  unfold schemaFingerprint at h
  split at h
  · cases h
  · simp only [Except.ok.injEq] at h
    subst h
    simp [rabinFingerprint]

/-- **C18, write then read.**  `toSingleObject fp (ser …)` on an unlimited writer, for a
    presentation under the side conditions of `C01_roundtrip_impl`:
    * succeeds iff it is assumed to (`hok`), and appends `C3 01 ++ fp ++ bytes` where
      `bytes = Spec.encode S node v` for a value `v` that `sv` denotes;
    * `fromSingleObject fp (de …)` on a slice that starts with what was appended returns
      `Spec.observe S node v` and leaves the rest — for every configuration, depth budget and
      fuel that cover `v` (as in `C01_roundtrip_impl`). -/
theorem C18_write_read (f : Canon.Allow) (ext : Ext) (allowSlow : Bool)
    (S : Schema) (node : Node) (sv : SV) (fp : Bytes) (hfp : fp.length = 8) (s₀ : SerState)
    (hok : (toSingleObject fp (ser ext allowSlow S node sv) s₀).1 = .ok ())
    (hs : Good s₀) (hS : SchemaOK S) (hnode : NodeOK S node) (hsv : svOK sv = true)
    (hext : ExtOK ext)
    (hcanon : Canon.svCanon f sv = true)
    (hallowS : ∀ (k : Nat) (n : Node), S[k]? = some n → Canon.nodeAllows f n = true)
    (hallowN : Canon.nodeAllows f node = true)
    (hfixS : Schema.fixedDecFits S) (hfixN : node.fixedDecFits = true) :
    ∃ s' bytes v, toSingleObject fp (ser ext allowSlow S node sv) s₀ = (.ok (), s') ∧
      s'.out = s₀.out ++ ([0xC3, 0x01] ++ fp ++ bytes) ∧
      Spec.encode S node v = some bytes ∧
      Spec.denotes (denExtOf ext) S node sv v = true ∧
      ∀ (cfg : DeConfig) (depth : Nat) (o : Out), Spec.observe S node v = some o →
        Spec.depthOf v ≤ depth → Spec.maxLen v ≤ cfg.maxSeqSize →
        ∀ fuel, Spec.size v * 4 + 8 ≤ fuel → ∀ (rest : Bytes) (r : RState),
          r.isSlice = true → r.limit = none → r.avail = 0 →
          r.rest = [0xC3, 0x01] ++ fp ++ bytes ++ rest →
          fromSingleObject fp (de deExtModel cfg S fuel node depth false .any) r =
            (.ok o, { r with rest := rest }) := by
  have hframe := C18_frame fp (ser ext allowSlow S node sv) s₀ hs.1
  rw [hframe] at hok ⊢
  have hs1 : Good { s₀ with out := s₀.out ++ [0xC3, 0x01] ++ fp } := ⟨hs.1, hs.2⟩
  obtain ⟨s', bytes, v, hrun, hout, henc, hden, hde⟩ :=
    C01_roundtrip_impl f ext allowSlow S node sv _ hok hs1 hS hnode hsv hext hcanon hallowS hallowN
      hfixS hfixN
  refine ⟨s', bytes, v, hrun, ?_, henc, hden, ?_⟩
  · rw [hout]; simp [List.append_assoc]
  · intro cfg depth o hobs hdepth hseq fuel hfuel rest r hsl hl ha hr
    rw [C18_accepts_slice fp _ r hsl (bytes ++ rest) hfp (by rw [hr]; simp [List.append_assoc])]
    have := hde cfg depth o hobs hdepth hseq fuel hfuel rest { r with rest := bytes ++ rest }
      hsl hl ha rfl
    simpa using this

/-- The message on its own: written on the empty `Vec`, read back from a slice holding exactly
    the message, with the limits stated on the presentation (as in `C01_roundtrip_impl_bounded`):
    the reader returns the observation of a value the presentation denotes and consumes
    everything. -/
theorem C18_write_read_msg (f : Canon.Allow) (ext : Ext) (allowSlow : Bool) (cfg : DeConfig)
    (S : Schema) (node : Node) (sv : SV) (fp : Bytes) (hfp : fp.length = 8) (depth : Nat)
    (hok : (toSingleObject fp (ser ext allowSlow S node sv) {}).1 = .ok ())
    (hS : SchemaOK S) (hnode : NodeOK S node) (hsv : svOK sv = true)
    (hext : ExtOK ext)
    (hcanon : Canon.svCanon f sv = true)
    (hallowS : ∀ (k : Nat) (n : Node), S[k]? = some n → Canon.nodeAllows f n = true)
    (hallowN : Canon.nodeAllows f node = true)
    (hfixS : Schema.fixedDecFits S) (hfixN : node.fixedDecFits = true)
    (hlim : ∀ v, Spec.denotes (denExtOf ext) S node sv v = true →
      (Spec.observe S node v).isSome = true ∧ Spec.depthOf v ≤ depth ∧
        Spec.maxLen v ≤ cfg.maxSeqSize) :
    ∃ s' v o, toSingleObject fp (ser ext allowSlow S node sv) {} = (.ok (), s') ∧
      Spec.denotes (denExtOf ext) S node sv v = true ∧ Spec.observe S node v = some o ∧
      ∀ fuel, Spec.size v * 4 + 8 ≤ fuel →
        fromSingleObject fp (de deExtModel cfg S fuel node depth false .any) { rest := s'.out } =
          (.ok o, { rest := [] }) := by
  obtain ⟨s', bytes, v, hrun, hout, _, hden, hrd⟩ :=
    C18_write_read f ext allowSlow S node sv fp hfp {} hok C01glue.good_empty hS hnode hsv hext
      hcanon hallowS hallowN hfixS hfixN
  obtain ⟨hobs, hdepth, hseq⟩ := hlim v hden
  obtain ⟨o, ho⟩ := Option.isSome_iff_exists.1 hobs
  refine ⟨s', v, o, hrun, hden, ho, ?_⟩
  intro fuel hfuel
  have := hrd cfg depth o ho hdepth hseq fuel hfuel [] { rest := s'.out } rfl rfl rfl
    (by rw [hout]; simp)
  simpa using this

end Avro.Theorems
