import AvroModel.Theorems.C06
import AvroModel.Theorems.C06real
/-
C06 — all parts together: layout and header theorems (`C06.lean`) and "any partition into blocks
reads the same" with the real deserializer model (`C06real.lean`).
-/
