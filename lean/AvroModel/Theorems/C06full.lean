import AvroModel.Theorems.C06
import AvroModel.Theorems.C06real
import AvroModel.Theorems.C06bytes
/-
C06 — all parts together: layout and header theorems (`C06.lean`) and "any partition into blocks
reads the same" with the real deserializer model (`C06real.lean`), and the header theorems tied to
the BYTES of the metadata map, any legal layout (`C06bytes.lean`, closes the `metaDe` hypothesis).
-/
