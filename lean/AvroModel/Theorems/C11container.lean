import AvroModel.Theorems.C17stream
/-
C11 at the container level (null codec): a well-formed object container file read through the
slice back-end and through a streaming reader - ANY refill schedule, the source's buffer tracked
exactly across blocks (`Ocf.srcAfterBlock`) - yields the same values (up to the `borrowed`
flags, which C11 lets differ) and both end with end of stream. A corollary of the two
truncation theorems of `C17stream.lean` at the full length. For damaged input the two back-ends
do differ (findings D16 / D19); that is why this is stated for well-formed files.
-/
namespace Avro.Theorems
open Avro Avro.Impl Avro.Impl.Ocf Avro.Theorems.Stream

theorem C11_container_wellformed (d : Decomp) (hn : d.isNull = true)
    (cfg : DeConfig) (S : Schema) (node : Node) (depth fuel : Nat)
    (sync : Bytes) (hsy : sync.length = 16)
    (blocks : List (List Spec.Value)) (hbs : ∀ b ∈ blocks, BlockOk (encD S node) b)
    (hgood : ∀ v ∈ blocks.flatten, GoodVal cfg S node depth fuel v)
    (sched : List Nat) (lastChunk M : Nat)
    (hM : (fileBody (encD S node) sync blocks).length ≤ M) :
    let datum := de deExtModel cfg S fuel node depth false .any
    let file := fileBody (encD S node) sync blocks
    let viaReader := readAll d datum (blocks.flatten.length + 1) (openReader sync file sched lastChunk M)
    let viaSlice := readAll d datum (blocks.flatten.length + 1) (openSlice sync file)
    viaReader.1.map unborrow = viaSlice.1.map unborrow ∧ viaReader.2 = .eos ∧ viaSlice.2 = .eos := by
  intro datum file viaReader viaSlice
  have hr := (C17_yields_prefix_null_stream d hn cfg S node depth fuel sync hsy blocks hbs hgood
    file.length sched lastChunk M (by rw [List.take_of_length_le (Nat.le_refl _)]; exact hM)).2.2
    (Nat.le_refl _)
  have hs := (C17_yields_prefix_null_slice_de d hn cfg S node depth fuel sync hsy blocks hbs hgood
    file.length).2.2 (Nat.le_refl _)
  rw [List.take_of_length_le (Nat.le_refl _)] at hr hs
  refine ⟨?_, hr.2, ?_⟩
  · show viaReader.1.map unborrow = viaSlice.1.map unborrow
    have : viaSlice = (blocks.flatten.map (obsD S node), .eos) := hs
    rw [this, hr.1, List.map_map]
    rfl
  · show viaSlice.2 = .eos
    have : viaSlice = (blocks.flatten.map (obsD S node), .eos) := hs
    rw [this]

end Avro.Theorems
