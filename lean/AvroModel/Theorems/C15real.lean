import AvroModel.Theorems.C15
import AvroModel.Theorems.C14
/-
C15, the failed value, tied to the real serializer model.

In the writer model (`Impl/Ocf.lean`) a `serialize` call is `WOp.value d?` : `some d` — the value
serialized to the bytes `d` —, or `none` — the value did not fit the schema, and "the buffer is
truncated back".  `C15_failed_value_invisible` is about that abstraction.  But the real serializer
(`Impl.ser`) does NOT fail atomically: it returns its state also on error, with the bytes written
before the error in `out` (array header and first elements, first fields of a record, …).  What
makes the abstraction right is `WriterInner::serialize` (writer/mod.rs:535-551):

    let buf_len_before_attempt = self.serializer_state.writer().len();
    value.serialize(self.serializer_state.serializer()).map_err(|e| {
        self.serializer_state.writer_mut().truncate(buf_len_before_attempt);
        e })?;

This file models that code on the real serializer (`innerSerializeReal`: run `ser` ON THE BLOCK
BUFFER — the serializer appends to the very `Vec` that holds the values of the current block —,
truncate on error) and the whole call (`serializeReal`), and proves

* `C15_failed_value_truncates_real`: for EVERY presentation `sv`, every schema/node, every buffer
  content, every error `e` and every final serializer state: the truncation gives back exactly
  the buffer as it was before the attempt — because `ser` only ever appends to its writer
  (`C15_ser_appends`: for every outcome `s'.out = buf ++ (what the same run writes on an empty
  writer)`, from the relational logic of C14);
* `C15_serializeReal_refines`: for every `sv` and every writer state, the real call ends in exactly
  the state of the model call `wstep … (.value (datumOf … sv))`, where `datumOf sv` is `some` of the
  bytes `ser` writes for `sv` on an empty writer, `none` if `ser` fails; same result (a failing
  value: the serializer's own error instead of the model's `custom`);
* `C15_failed_value_invisible_real`: a value the real serializer rejects half-way leaves no trace.

Hypothesis `NoPanic … sv` (resp. `e ≠ .panic`): the serializer does not PANIC on `sv`.  A panic is
not a returned error: the `map_err` closure does not run, nothing is truncated
(`innerSerializeReal` models this), and the statement is false (`C15_panic_not_truncated`).  By C14
the model's serializer never panics when the schema's keys are in bounds
(`noPanic_of_keysInBounds`), which freezing guarantees.

Hypothesis `PoolClean pool`: the buffer pool of the `SerializerConfig` holds only empty buffers.
It is an invariant of the real call (`C15_serializeReal_pool_clean`, from C14), true of a fresh
configuration, and it is the hypothesis of the C14 simulation the proof goes through; on a dirty
pool the Rust code `assert!`s (panics) when it pops a non-empty buffer.
-/
namespace Avro.Theorems
open Avro Avro.Impl Avro.Impl.Ocf

/-- `SerError` of the datum serializer, seen as an error of the writer. -/
def ofSerErr : SerErr → WErr
  | .custom => .custom
  | .io => .io
  | .panic => .panic

section Real
variable (ext : Ext) (allowSlow : Bool) (S : Schema) (node : Node)

/-- `WriterInner::serialize` up to `n_elements_in_block += 1`, on the real serializer: `ser` runs
    on the block buffer `buf` (a `Vec`: no budget); when it RETURNS an error the buffer is truncated
    to `buf_len_before_attempt`.  When it panics (`.panic` marks the `panic!/assert!/unwrap` sites
    of the serializer) the closure given to `map_err` does not run: the stack unwinds with the
    buffer as the serializer left it.  Returns the result, the buffer and the pool. -/
def innerSerializeReal (sv : SV) (buf : Bytes) (pool : Pool) : Except SerErr Unit × Bytes × Pool :=
  let bufLenBeforeAttempt := buf.length
  match ser ext allowSlow S node sv { out := buf, budget := none, pool := pool } with
  | (.ok _, s') => (.ok (), s'.out, s'.pool)
  | (.error .panic, s') => (.error .panic, s'.out, s'.pool)
  | (.error e, s') => (.error e, s'.out.take bufLenBeforeAttempt, s'.pool)

/-- The serializer does not panic on `sv` (on an empty writer, fresh pool). -/
def NoPanic (sv : SV) : Prop :=
  (ser ext allowSlow S node sv { out := [], budget := none, pool := {} }).1 ≠ .error .panic

/-- … which is the case as soon as the schema's keys are in bounds and `node` is a node of such a
    schema (C14): the only `.panic` the model can produce is a key out of bounds. -/
theorem noPanic_of_keysInBounds (sv : SV) (hk : S.keysInBounds = true) (hn : NodeOK S node) :
    NoPanic ext allowSlow S node sv := by
  rcases C14_no_assert_panic_partial ext allowSlow S node sv
    { out := [], budget := none, pool := {} } PoolClean.empty hn with h | h
  · exact h
  · exact absurd hk h

/-- `Writer::serialize` on the real serializer (writer/mod.rs:346-354 and 535-551): the common
    prefix, the attempt, then count, close the block if large enough, flush. -/
def serializeReal (c : Codec) (w : WState) (pool : Pool) (sv : SV) :
    Except WErr Unit × WState × Pool :=
  match preFlush c w with
  | (.error e, w₁) => (.error e, w₁, pool)
  | (.ok _, w₁) =>
    match innerSerializeReal ext allowSlow S node sv w₁.buf pool with
    | (.error e, buf', pool') => (.error (ofSerErr e), { w₁ with buf := buf' }, pool')
    | (.ok _, buf', pool') =>
      match postAdd c { w₁ with buf := buf', n := w₁.n + 1 } with
      | (r, w₂) => (r, w₂, pool')

theorem innerSerializeReal_fst (sv : SV) (buf : Bytes) (pool : Pool) :
    (innerSerializeReal ext allowSlow S node sv buf pool).1 =
      (ser ext allowSlow S node sv { out := buf, budget := none, pool := pool }).1 := by
  unfold innerSerializeReal
  cases ser ext allowSlow S node sv { out := buf, budget := none, pool := pool } with
  | mk r s' =>
    cases r with
    | ok u => rfl
    | error e => cases e <;> rfl

theorem innerSerializeReal_pool (sv : SV) (buf : Bytes) (pool : Pool) :
    (innerSerializeReal ext allowSlow S node sv buf pool).2.2 =
      (ser ext allowSlow S node sv { out := buf, budget := none, pool := pool }).2.pool := by
  unfold innerSerializeReal
  cases ser ext allowSlow S node sv { out := buf, budget := none, pool := pool } with
  | mk r s' =>
    cases r with
    | ok u => rfl
    | error e => cases e <;> rfl

/-- What the model's `WOp.value` stands for: the bytes the real serializer writes for `sv` on an
    empty writer, or `none` if it fails. -/
def datumOf (sv : SV) : Option Bytes :=
  match ser ext allowSlow S node sv { out := [], budget := none, pool := {} } with
  | (.ok _, s) => some s.out
  | (.error _, _) => none

/-- **The real serializer only appends**, whatever the outcome: run on a writer that already holds
    `buf` (and with any clean pool), it returns the result it returns on an empty writer, and
    leaves `buf` followed by what it writes on an empty writer — on success AND on error. -/
theorem C15_ser_appends (sv : SV) (buf : Bytes) (pool : Pool) (hp : PoolClean pool) :
    (ser ext allowSlow S node sv { out := buf, budget := none, pool := pool }).1 =
      (ser ext allowSlow S node sv { out := [], budget := none, pool := {} }).1 ∧
    (ser ext allowSlow S node sv { out := buf, budget := none, pool := pool }).2.out =
      buf ++ (ser ext allowSlow S node sv { out := [], budget := none, pool := {} }).2.out := by
  have := C14_pool_prefix_irrelevant ext allowSlow S node sv buf [] none pool {} hp PoolClean.empty
  simp only [List.append_nil] at this
  exact ⟨this.1, this.2.1⟩

/-- **A failed value is truncated away, on the real serializer.**  For every presentation `sv`:
    if `ser`, run on the block buffer `buf`, fails with any error `e` in any state `s'` — with
    whatever it wrote before failing in `s'.out` —, then `buf` is a prefix of `s'.out`,
    `truncate(buf_len_before_attempt)` gives back exactly `buf`, and (the error being returned, not
    a panic) that is the buffer `WriterInner::serialize` leaves. -/
theorem C15_failed_value_truncates_real (sv : SV) (buf : Bytes) (pool : Pool)
    (hp : PoolClean pool) (e : SerErr) (s' : SerState)
    (h : ser ext allowSlow S node sv { out := buf, budget := none, pool := pool } = (.error e, s')) :
    buf <+: s'.out ∧ s'.out.take buf.length = buf ∧
      (e ≠ .panic → innerSerializeReal ext allowSlow S node sv buf pool = (.error e, buf, s'.pool)) := by
  have h2 := (C15_ser_appends ext allowSlow S node sv buf pool hp).2
  rw [h] at h2
  simp only at h2
  have ht : s'.out.take buf.length = buf := by rw [h2]; exact List.take_left' rfl
  refine ⟨⟨_, h2.symm⟩, ht, ?_⟩
  intro hne
  cases e with
  | panic => exact absurd rfl hne
  | custom => simp only [innerSerializeReal, h, ht]
  | io => simp only [innerSerializeReal, h, ht]

/-- The attempt, in both cases, in terms of `datumOf`: the buffer is extended by the datum, or
    is exactly what it was. -/
theorem C15_innerSerializeReal_eq (sv : SV) (buf : Bytes) (pool : Pool) (hp : PoolClean pool)
    (hnp : NoPanic ext allowSlow S node sv) :
    (innerSerializeReal ext allowSlow S node sv buf pool).2.1 =
      (match datumOf ext allowSlow S node sv with
       | some d => buf ++ d
       | none => buf) ∧
    ((innerSerializeReal ext allowSlow S node sv buf pool).1 = .ok () ↔
      (datumOf ext allowSlow S node sv).isSome) := by
  obtain ⟨h1, h2⟩ := C15_ser_appends ext allowSlow S node sv buf pool hp
  unfold NoPanic at hnp
  unfold innerSerializeReal datumOf
  cases hr : ser ext allowSlow S node sv { out := buf, budget := none, pool := pool } with
  | mk r s' =>
    cases hr0 : ser ext allowSlow S node sv { out := [], budget := none, pool := {} } with
    | mk r0 s0 =>
      rw [hr, hr0] at h1 h2
      rw [hr0] at hnp
      simp only at h1 h2 hnp
      subst h1
      cases r with
      | ok u => exact ⟨h2, by simp⟩
      | error e =>
        have ht : List.take buf.length s'.out = buf := by rw [h2]; exact List.take_left' rfl
        cases e with
        | panic => exact absurd rfl hnp
        | custom => exact ⟨ht, by simp⟩
        | io => exact ⟨ht, by simp⟩

/-- **The writer model's `WOp.value` is the real call.**  For every presentation `sv`, every
    writer state (any sink) and every clean pool, `Writer::serialize` on the real serializer ends
    in exactly the state of the model's `wstep … (.value (datumOf … sv))`; it returns the same result
    when the value serializes, and when it does not: the error of the prefix if the prefix fails,
    the serializer's own error otherwise (the model says `custom`). -/
theorem C15_serializeReal_refines (c : Codec) (dbg : Bool) (w : WState) (pool : Pool)
    (hp : PoolClean pool) (sv : SV) (hnp : NoPanic ext allowSlow S node sv) :
    (serializeReal ext allowSlow S node c w pool sv).2.1 =
      (wstep c dbg w (.value (datumOf ext allowSlow S node sv))).2 ∧
    ((datumOf ext allowSlow S node sv).isSome →
      (serializeReal ext allowSlow S node c w pool sv).1 =
        (wstep c dbg w (.value (datumOf ext allowSlow S node sv))).1) ∧
    (datumOf ext allowSlow S node sv = none →
      ((serializeReal ext allowSlow S node c w pool sv).1 =
          (wstep c dbg w (.value none)).1 ∧ (preFlush c w).1 ≠ .ok ()) ∨
      (∃ e s', (preFlush c w).1 = .ok () ∧
        ser ext allowSlow S node sv { out := (preFlush c w).2.buf, budget := none, pool := pool }
          = (.error e, s') ∧
        (serializeReal ext allowSlow S node c w pool sv).1 = .error (ofSerErr e))) := by
  cases hpre : preFlush c w with
  | mk r w₁ =>
    cases r with
    | error e0 =>
      refine ⟨?_, ?_, ?_⟩
      · cases hd : datumOf ext allowSlow S node sv <;>
          simp [serializeReal, hpre, C15_failed_value_invisible, C15_value_prefix]
      · intro _
        cases hd : datumOf ext allowSlow S node sv <;>
          simp [serializeReal, hpre, C15_failed_value_invisible, C15_value_prefix]
      · intro _
        left
        simp [serializeReal, hpre, C15_failed_value_invisible]
    | ok u =>
      obtain ⟨hb, hok⟩ := C15_innerSerializeReal_eq ext allowSlow S node sv w₁.buf pool hp hnp
      cases hin : innerSerializeReal ext allowSlow S node sv w₁.buf pool with
      | mk ri rest =>
        obtain ⟨buf', pool'⟩ := rest
        rw [hin] at hb hok
        simp only at hb hok
        cases hd : datumOf ext allowSlow S node sv with
        | some d =>
          rw [hd] at hb hok
          simp only [Option.isSome_some, iff_true] at hok
          subst hok
          simp only at hb
          subst hb
          refine ⟨?_, ?_, ?_⟩
          · simp only [serializeReal, hpre, hin, C15_value_prefix]
          · intro _; simp only [serializeReal, hpre, hin, C15_value_prefix]
          · intro h; cases h
        | none =>
          rw [hd] at hb hok
          simp only at hb
          subst hb
          have hne : ri ≠ .ok () := by
            intro h; have := hok.1 h; simp at this
          cases ri with
          | ok u' => exact absurd rfl hne
          | error e =>
            refine ⟨?_, ?_, ?_⟩
            · simp only [serializeReal, hpre, hin, C15_failed_value_invisible]
            · intro h; simp at h
            · intro _
              right
              -- the serializer's run behind `innerSerializeReal`
              have hf := innerSerializeReal_fst ext allowSlow S node sv w₁.buf pool
              rw [hin] at hf
              simp only at hf
              exact ⟨e, (ser ext allowSlow S node sv
                  { out := w₁.buf, budget := none, pool := pool }).2, rfl,
                Prod.ext hf.symm rfl, by simp only [serializeReal, hpre, hin]⟩

/-- **A value the real serializer rejects leaves no trace** (`C15_failed_value_invisible`, on the
    real serializer): the call ends in the state the common prefix ends in — buffer, count, sink
    as if the value had never been presented —, however many bytes `ser` had written before it
    failed. -/
theorem C15_failed_value_invisible_real (c : Codec) (w : WState) (pool : Pool)
    (hp : PoolClean pool) (sv : SV) (hnp : NoPanic ext allowSlow S node sv)
    (h : datumOf ext allowSlow S node sv = none) :
    (serializeReal ext allowSlow S node c w pool sv).2.1 = (preFlush c w).2 ∧
      (serializeReal ext allowSlow S node c w pool sv).1 ≠ .ok () := by
  obtain ⟨h1, _, h3⟩ := C15_serializeReal_refines ext allowSlow S node c false w pool hp sv hnp
  rw [h] at h1
  have hst : (wstep c false w (.value none)).2 = (preFlush c w).2 := by
    rw [C15_failed_value_invisible]
    cases preFlush c w with
    | mk r w₁ => cases r <;> rfl
  refine ⟨by rw [h1, hst], ?_⟩
  rcases h3 h with ⟨h4, _⟩ | ⟨e, s', _, _, h4⟩
  · rw [h4, C15_failed_value_invisible]
    cases preFlush c w with
    | mk r w₁ => cases r <;> simp
  · rw [h4]; simp

/-- `C15_failed_value_no_count` on the real serializer: in a state satisfying the invariant
    (represented by `a`), a value the real serializer rejects — after having written any number of
    bytes — returns an error and adds no entry to the log (no bytes, no count); at most the
    current block is closed. -/
theorem C15_failed_value_no_count_real (c : Codec) (hdr sync : Bytes) (approx : Nat)
    (a : AState) (w : WState) (hrep : Rep c hdr sync approx a w) (pool : Pool)
    (hp : PoolClean pool) (sv : SV) (hnp : NoPanic ext allowSlow S node sv)
    (h : datumOf ext allowSlow S node sv = none) :
    (serializeReal ext allowSlow S node c w pool sv).1 ≠ .ok () ∧
      Rep c hdr sync approx (asealIf approx a) (serializeReal ext allowSlow S node c w pool sv).2.1 ∧
      (asealIf approx a).log = a.log := by
  obtain ⟨h1, _, _⟩ := C15_serializeReal_refines ext allowSlow S node c false w pool hp sv hnp
  obtain ⟨w', hw, hrep', hlog⟩ := C15_failed_value_no_count c false hdr sync approx a w hrep
  rw [h, hw] at h1
  refine ⟨(C15_failed_value_invisible_real ext allowSlow S node c w pool hp sv hnp h).2, ?_, hlog⟩
  rw [h1]
  exact hrep'

/-- The pool stays clean: the hypothesis of the theorems above is an invariant of the real call. -/
theorem C15_serializeReal_pool_clean (c : Codec) (w : WState) (pool : Pool) (hp : PoolClean pool)
    (sv : SV) : PoolClean (serializeReal ext allowSlow S node c w pool sv).2.2 := by
  unfold serializeReal
  cases preFlush c w with
  | mk r w₁ =>
    cases r with
    | error e => exact hp
    | ok u =>
      have hc := C14_pool_clean ext allowSlow S node sv
        { out := w₁.buf, budget := none, pool := pool } hp
      rw [← innerSerializeReal_pool] at hc
      cases hin : innerSerializeReal ext allowSlow S node sv w₁.buf pool with
      | mk ri rest =>
        obtain ⟨buf', pool'⟩ := rest
        rw [hin] at hc
        simp only [hin]
        cases ri with
        | ok u' => exact hc
        | error e => exact hc

end Real

/-! ### Concrete instance: a value that fails half-way -/

namespace C15RealEx

/-- decidable equality of call results, for the closed examples below (a scoped instance,
    active under `open C15RealEx`) -/
scoped instance decEqResult {ε : Type} [DecidableEq ε] : DecidableEq (Except ε Unit)
  | .ok _, .ok _ => isTrue rfl
  | .ok _, .error _ => isFalse (fun h => by cases h)
  | .error _, .ok _ => isFalse (fun h => by cases h)
  | .error a, .error b =>
    if h : a = b then isTrue (by rw [h]) else isFalse (fun h' => by cases h'; exact h rfl)

def extR0 : Ext :=
  { asF32 := fun _ => 0, decFromF64 := fun _ => none, decParse := fun _ => none,
    decRescale := fun d _ => d }
/-- schema `{"type": "array", "items": "long"}` -/
def S : Schema := #[.array 1, .long]
/-- a sequence of two elements, the second of which is a string -/
def bad : SV := .seq (some 2) [.int .i64 1, .str "x"]
def good : SV := .seq (some 2) [.int .i64 1, .int .i64 3]

/-- The real serializer, on a block buffer that holds `[9, 9]`, writes the block count `04` and
    the first element `02` BEFORE it fails on the string: it does not fail atomically. -/
theorem bad_fails_half_way :
    (ser extR0 false S (.array 1) bad { out := [9, 9], budget := none, pool := {} }).1
      = .error .custom ∧
    (ser extR0 false S (.array 1) bad { out := [9, 9], budget := none, pool := {} }).2.out
      = [9, 9, 4, 2] ∧
    (ser extR0 false S (.array 1) bad { out := [9, 9], budget := none, pool := {} }).2.pool = {} := by
  decide +kernel

theorem datumOf_bad : datumOf extR0 false S (.array 1) bad = none := by decide +kernel
theorem datumOf_good : datumOf extR0 false S (.array 1) good = some [4, 2, 6, 0] := by
  decide +kernel

end C15RealEx

open C15RealEx in
/-- Non-vacuity of `C15_failed_value_truncates_real`: its hypothesis holds with `s'.out` strictly
    longer than the buffer (`[9, 9, 4, 2]`), and the truncation gives back `[9, 9]`. -/
example :
    let s' := (ser extR0 false S (.array 1) bad { out := [9, 9], budget := none, pool := {} }).2
    s'.out = [9, 9, 4, 2] ∧ ([9, 9] : Bytes) <+: s'.out ∧ s'.out.take 2 = [9, 9] ∧
      innerSerializeReal extR0 false S (.array 1) bad [9, 9] {} = (.error .custom, [9, 9], s'.pool) :=
  have h := C15_failed_value_truncates_real extR0 false S (.array 1) bad [9, 9] {} PoolClean.empty
    .custom (ser extR0 false S (.array 1) bad { out := [9, 9], budget := none, pool := {} }).2
    (Prod.ext bad_fails_half_way.1 rfl)
  ⟨bad_fails_half_way.2.1, h.1, h.2.1, h.2.2 (by decide)⟩

open C15RealEx in
/-- Non-vacuity of `C15_serializeReal_refines` / `C15_failed_value_invisible_real`: a writer whose
    buffer holds `[9, 9]` (one value), block size 100; the bad value leaves it untouched, the
    good one is appended and counted. -/
example :
    let w : WState := { buf := [9, 9], n := 1, approx := 100 }
    let c : Codec := { name := "null", compress := id, isNull := true }
    let rb := serializeReal extR0 false S (.array 1) c w {} bad
    let rg := serializeReal extR0 false S (.array 1) c w {} good
    (rb.1 = .error .custom ∧ rb.2.1.buf = [9, 9] ∧ rb.2.1.n = 1 ∧ rb.2.1.sink.data = []) ∧
    (rg.1 = .ok () ∧ rg.2.1.buf = [9, 9, 4, 2, 6, 0] ∧ rg.2.1.n = 2 ∧ rg.2.1.sink.data = []) := by
  decide +kernel

/-! ### Why `NoPanic`: a panic is not truncated -/

namespace C15RealEx
/-- an array whose items are a union with a dangling branch key (`keysInBounds` is false) -/
def Sbad : Schema := #[.array 1, .union [5]]
def boom : SV := .seq (some 2) [.unitStruct "x"]
end C15RealEx

open C15RealEx in
/-- **`NoPanic` (resp. `e ≠ .panic`) is necessary.**  On a schema with a key out of bounds the
    serializer panics AFTER having written the block count `04` and the union discriminant `00`.
    The closure of `map_err` does not run during unwinding: the block buffer keeps the two bytes,
    the count is not incremented — and `Drop`, which runs `finish_block` also while panicking
    (mod.rs:502-513), writes them into the current block if it counts at least one value.  The
    model's `WOp.value none` (buffer untouched) does not describe that state. -/
theorem C15_panic_not_truncated :
    let w : WState := { buf := [9, 9], n := 1, approx := 100 }
    let c : Codec := { name := "null", compress := id, isNull := true }
    let r := serializeReal extR0 false Sbad (.array 1) c w {} boom
    datumOf extR0 false Sbad (.array 1) boom = none ∧
    r.1 = .error .panic ∧ r.2.1.buf = [9, 9, 4, 0] ∧ r.2.1.n = 1 ∧
    (wstep c false w (.value (datumOf extR0 false Sbad (.array 1) boom))).2.buf = [9, 9] ∧
    ¬ NoPanic extR0 false Sbad (.array 1) boom := by
  refine ⟨by decide +kernel, by decide +kernel, by decide +kernel, by decide +kernel,
    by decide +kernel, ?_⟩
  unfold NoPanic
  decide +kernel

end Avro.Theorems
