import AvroModel.Lemmas.DeAccepts
/-
C01, the deserializer half of the datum round trip: the model of the crate's deserializer
(`AvroModel/Impl/De.lean`, slice back-end) accepts every canonical specification encoding
(`Spec.encode`) and hands a dynamically typed target (`deserialize_any` everywhere) exactly the
tree of visitor calls `Spec.observe` prescribes, consuming exactly the encoding.

Proofs are in `AvroModel/Lemmas/DeAccepts.lean` (induction on `Spec.size v`).

Side conditions, and why each is there:
 * `henc`, `hobs`      the value conforms to the node; `observe` is `none` exactly when
                       `rust_decimal` refuses a decimal (|unscaled| ≥ 2^96 or scale > 28), and then
                       the deserializer fails as well.
 * `hfix`              `Spec.fixedDecOk S n v`: every decimal of `v` that sits on a `fixed` has at
                       most 16 bytes.  NECESSARY: `read_decimal` refuses `size > 16` whatever the
                       content, while `encode`/`observe` accept e.g. `decimal 0` on a 17-byte fixed
                       (`C01_fixed17_rejected` below).  It follows from the schema-level condition
                       `Schema.fixedDecFits` (`C01_de_accepts_schema`).
 * `hdepth`            the depth budget covers the array/map/union/record nesting of `v`.
 * `hseq`              no array/map of `v` is longer than `max_seq_size`.
 * `hfuel`             model fuel, `3 * size v` is enough (`C01_de_accepts_fuel3`); the statement
                       with `size v * 4 + 8` is the one asked for.
 * `hs`, `hl`          slice back-end, no `Take` in place.
 * `ha : s.avail = 0`  NECESSARY for the stated final state: `avail` is meaningless for the slice
                       back-end but `consume` still subtracts from it, so with `avail ≠ 0` the
                       final state is not `{ s with rest := rest }` (`C01_avail_counterexample`).
-/
namespace Avro.Theorems
open Avro Avro.Impl

/-- **C01 (deserializer accepts canonical encodings)**, with the sharp fuel bound. -/
theorem C01_de_accepts_fuel3 (cfg : DeConfig) (S : Schema) (n : Node) (v : Spec.Value)
    (enc rest : Bytes) (o : Out) (depth : Nat)
    (henc : Spec.encode S n v = some enc) (hobs : Spec.observe S n v = some o)
    (hfix : Spec.fixedDecOk S n v = true)
    (hdepth : Spec.depthOf v ≤ depth) (hseq : Spec.maxLen v ≤ cfg.maxSeqSize)
    (fuel : Nat) (hfuel : 3 * Spec.size v ≤ fuel)
    (s : RState) (hs : s.isSlice = true) (hl : s.limit = none) (ha : s.avail = 0)
    (hr : s.rest = enc ++ rest) :
    de deExtModel cfg S fuel n depth false .any s = (.ok o, { s with rest := rest }) := by
  obtain ⟨o', hreads, ho, _⟩ := deOK cfg S v n enc o depth fuel .any henc hobs hfix hdepth hseq
    hfuel (Or.inl rfl)
  rw [← ho rfl]
  exact hreads.run rest s hs hl ha hr

/-- **C01 (deserializer accepts canonical encodings).** -/
theorem C01_de_accepts (cfg : DeConfig) (S : Schema) (n : Node) (v : Spec.Value)
    (enc rest : Bytes) (o : Out) (depth : Nat)
    (henc : Spec.encode S n v = some enc) (hobs : Spec.observe S n v = some o)
    (hfix : Spec.fixedDecOk S n v = true)
    (hdepth : Spec.depthOf v ≤ depth) (hseq : Spec.maxLen v ≤ cfg.maxSeqSize)
    (fuel : Nat) (hfuel : Spec.size v * 4 + 8 ≤ fuel)
    (s : RState) (hs : s.isSlice = true) (hl : s.limit = none) (ha : s.avail = 0)
    (hr : s.rest = enc ++ rest) :
    de deExtModel cfg S fuel n depth false .any s = (.ok o, { s with rest := rest }) :=
  C01_de_accepts_fuel3 cfg S n v enc rest o depth henc hobs hfix hdepth hseq fuel (by omega)
    s hs hl ha hr

/-- The same with the side condition on fixed decimals stated on the schema: every
    decimal-on-`fixed` node (the root included) has at most 16 bytes. -/
theorem C01_de_accepts_schema (cfg : DeConfig) (S : Schema) (n : Node) (v : Spec.Value)
    (enc rest : Bytes) (o : Out) (depth : Nat)
    (henc : Spec.encode S n v = some enc) (hobs : Spec.observe S n v = some o)
    (hS : Schema.fixedDecFits S) (hn : n.fixedDecFits = true)
    (hdepth : Spec.depthOf v ≤ depth) (hseq : Spec.maxLen v ≤ cfg.maxSeqSize)
    (fuel : Nat) (hfuel : Spec.size v * 4 + 8 ≤ fuel)
    (s : RState) (hs : s.isSlice = true) (hl : s.limit = none) (ha : s.avail = 0)
    (hr : s.rest = enc ++ rest) :
    de deExtModel cfg S fuel n depth false .any s = (.ok o, { s with rest := rest }) :=
  C01_de_accepts cfg S n v enc rest o depth henc hobs
    (fixedDecOk_of_schema S hS _ v (Nat.le_refl _) n hn) hdepth hseq fuel hfuel s hs hl ha hr

/-- Whole-input form: the encoding alone is consumed entirely. -/
theorem C01_de_accepts_nil (cfg : DeConfig) (S : Schema) (n : Node) (v : Spec.Value)
    (enc : Bytes) (o : Out)
    (henc : Spec.encode S n v = some enc) (hobs : Spec.observe S n v = some o)
    (hfix : Spec.fixedDecOk S n v = true)
    (hdepth : Spec.depthOf v ≤ cfg.allowedDepth) (hseq : Spec.maxLen v ≤ cfg.maxSeqSize) :
    de deExtModel cfg S (Spec.size v * 4 + 8) n cfg.allowedDepth false .any { rest := enc } =
      (.ok o, { rest := [] }) :=
  C01_de_accepts cfg S n v enc [] o cfg.allowedDepth henc hobs hfix hdepth hseq _ (Nat.le_refl _)
    { rest := enc } rfl rfl rfl (by simp)

/-! ### The two added side conditions are necessary -/

def nm17 : Name := { fq := "d", short := "d", ns := none }

/-- `decimal 0` on a 17-byte `fixed` has an encoding and an observation, and is refused
    (`size > 16` in `read_decimal`): `hfix` cannot be dropped. -/
theorem C01_fixed17_rejected :
    Spec.encode #[] (.decimal 0 40 (.fixed nm17 17)) (.decimal 0) = some (List.replicate 17 0) ∧
    (Spec.observe #[] (.decimal 0 40 (.fixed nm17 17)) (.decimal 0)).isSome = true ∧
    (de deExtModel {} #[] 20 (.decimal 0 40 (.fixed nm17 17)) 64 false .any
      { rest := List.replicate 17 0 }).1 = .error .custom := by
  refine ⟨by decide, ?_, ?_⟩
  · simp [Spec.observe, decToStringModel]
  · simp [de, deAny, readDecimal, DeM.fail, bind]

/-- With `avail ≠ 0` the slice back-end still reads the value and leaves the right `rest`, but
    `consume` has decremented `avail`: the final state is not `{ s with rest := rest }`, so
    `ha` cannot be dropped from the statement as phrased. -/
theorem C01_avail_counterexample :
    Spec.encode #[] .float (.float 0) = some [0, 0, 0, 0] ∧
    Spec.observe #[] .float (.float 0) = some (.f32 0) ∧
    de deExtModel {} #[] 20 .float 64 false .any { rest := [0, 0, 0, 0], avail := 5 } =
      (.ok (.f32 0), { rest := [], avail := 1 }) := by
  refine ⟨by decide, rfl, ?_⟩
  simp [de, deAny, readExact, readExactR, readSome, fillBuf, consume, bind, pure, leToNat]

end Avro.Theorems
