import AvroModel.Impl.Derive
import AvroModel.Lemmas.Derive
import AvroModel.Theorems.C20
/-
C20 (continued) — invariants of the `SchemaBuilder` of `serde_avro_derive` (`Impl/Derive.lean`),
for every program, hash function, fuel, type and builder state.  All by induction on the fuel over
the mutual block `appendSchema` / `findOrBuild` / `fieldInst` / `recordFields` / `unionVariants`
(the inductions are `postAll` and `monoAll` in `Lemmas/Derive.lean`).

1. `C20_*_append_only`   — a successful call never shrinks `nodes`, never changes a node that
                            existed before the call, never loses a registration of `built`.
2. `C20_keys_in_bounds`  — a derived schema has every key in bounds (freezing cannot fail on that).
3. `C20_root_is_node_zero`.
4. `C20_fuel_mono*`      — the fuel is only a bound: a call that succeeds gives the same answer
                            with any larger fuel.
5. `C20_built_once*`     — after `find_or_build::<T>()`, `T` is registered under the returned key;
                            a second `find_or_build::<T>()` returns it and changes nothing.
-/
namespace Avro.Theorems
open Avro Avro.Impl Avro.Impl.Derive

/-! ### 1. Append-only -/

/-- `s'` extends `s`: no fewer nodes, the nodes of `s` are untouched, the registrations of `s`
    are still there.  (Unfolding of `Avro.Impl.Derive.Ext`.) -/
def AppendOnly (s s' : BState) : Prop :=
  s.nodes.size ≤ s'.nodes.size ∧
  (∀ i, i < s.nodes.size → s'.nodes[i]? = s.nodes[i]?) ∧
  (∀ k i, s.built.lookup k = some i → s'.built.lookup k = some i)

private theorem appendOnly_of_ext {s s' : BState} (h : Ext s s') : AppendOnly s s' :=
  ⟨h.size_le, h.old, h.built⟩

/-- `T::append_schema(builder)`: the slots it fills (`setNode`) are slots it reserved itself. -/
theorem C20_appendSchema_append_only (P : Prog) (hash : Key → String) (fuel : Nat) (t : Ty)
    (s s' : BState) (u : Unit) (h : appendSchema P hash fuel t s = some (u, s')) :
    AppendOnly s s' :=
  appendOnly_of_ext ((postAll P hash fuel).1 t s u s' h).ext

theorem C20_findOrBuild_append_only (P : Prog) (hash : Key → String) (fuel : Nat) (t : Ty)
    (s s' : BState) (k : Nat) (h : findOrBuild P hash fuel t s = some (k, s')) :
    AppendOnly s s' :=
  appendOnly_of_ext ((postAll P hash fuel).2.1 t s k s' h).ext

/-- Also for a field with a logical type: the node it relabels is one the same call created. -/
theorem C20_fieldInst_append_only (P : Prog) (hash : Key → String) (fuel : Nat) (d : Decl)
    (args : List Ty) (f : Field) (kind : FieldKind) (rn : String)
    (s s' : BState) (k : Nat) (h : fieldInst P hash fuel d args f kind rn s = some (k, s')) :
    AppendOnly s s' :=
  appendOnly_of_ext ((postAll P hash fuel).2.2.1 d args f kind rn s k s' h).ext

theorem C20_recordFields_append_only (P : Prog) (hash : Key → String) (fuel : Nat) (d : Decl)
    (args : List Ty) (tn : String) (fs : List Field)
    (s s' : BState) (r : List (String × Nat))
    (h : recordFields P hash fuel d args tn fs s = some (r, s')) :
    AppendOnly s s' :=
  appendOnly_of_ext ((postAll P hash fuel).2.2.2.1 d args tn fs s r s' h).ext

theorem C20_unionVariants_append_only (P : Prog) (hash : Key → String) (fuel : Nat) (d : Decl)
    (args : List Ty) (vs : List Variant)
    (s s' : BState) (r : List Nat) (h : unionVariants P hash fuel d args vs s = some (r, s')) :
    AppendOnly s s' :=
  appendOnly_of_ext ((postAll P hash fuel).2.2.2.2 d args vs s r s' h).ext

/-! ### 2. Keys in bounds

The invariant (`Avro.Impl.Derive.Good pending s`): every key in a node of `s`, and every index
registered in `s.built`, is a node of `s` or is in `pending` — the indices registered by a
`find_or_build` that has not returned yet.  `find_or_build` adds its index to `pending`, and takes
it out again when its `assert!(nodes.len() > idx)` has passed. -/

/-- The invariant is kept by `find_or_build` from any state, with the returned key covered. -/
theorem C20_findOrBuild_keeps_invariant (P : Prog) (hash : Key → String) (fuel : Nat) (t : Ty)
    (s s' : BState) (k : Nat) (pending : List Nat)
    (h : findOrBuild P hash fuel t s = some (k, s')) (hs : Good pending s) :
    Good pending s' ∧ (k < s'.nodes.size ∨ k ∈ pending) := by
  obtain ⟨g, hk⟩ := ((postAll P hash fuel).2.1 t s k s' h).good pending hs
  exact ⟨g, hk k List.mem_cons_self⟩

/-- `find_or_build` on a state without dangling keys leaves no dangling keys. -/
theorem C20_findOrBuild_keys_in_bounds (P : Prog) (hash : Key → String) (fuel : Nat) (t : Ty)
    (s s' : BState) (k : Nat) (h : findOrBuild P hash fuel t s = some (k, s')) (hs : Good [] s) :
    SchemaMut.keysInBounds s'.nodes = true ∧ k < s'.nodes.size := by
  obtain ⟨g, hk⟩ := C20_findOrBuild_keeps_invariant P hash fuel t s s' k [] h hs
  refine ⟨g.keysInBounds, ?_⟩
  cases hk with
  | inl hk => exact hk
  | inr hk => cases hk

private theorem schemaMut_some {P : Prog} {hash : Key → String} {fuel : Nat} {t : Ty} {S : SchemaMut}
    (h : schemaMut P hash fuel t = some S) :
    ∃ k s', findOrBuild P hash fuel t {} = some (k, s') ∧ S = s'.nodes := by
  unfold schemaMut at h
  cases hf : findOrBuild P hash fuel t {} with
  | none => rw [hf] at h; cases h
  | some r =>
    obtain ⟨k, s'⟩ := r
    rw [hf] at h
    simp only [Option.map_some, Option.some.injEq] at h
    exact ⟨k, s', rfl, h.symm⟩

/-- Every key of a derived schema is in bounds: `key_to_ref` cannot fail when it is frozen. -/
theorem C20_keys_in_bounds (P : Prog) (hash : Key → String) (fuel : Nat) (t : Ty) (S : SchemaMut)
    (h : schemaMut P hash fuel t = some S) : S.keysInBounds = true := by
  obtain ⟨k, s', hf, rfl⟩ := schemaMut_some h
  exact (C20_findOrBuild_keys_in_bounds P hash fuel t {} s' k hf Good.empty).1

/-! ### 3. The root is node 0 -/

/-- `find_or_build` on a fresh builder returns key 0 and has added a node. -/
theorem C20_root_key_zero (P : Prog) (hash : Key → String) (fuel : Nat) (t : Ty) (k : Nat)
    (s' : BState) (h : findOrBuild P hash fuel t {} = some (k, s')) : k = 0 ∧ 0 < s'.nodes.size := by
  cases fuel with
  | zero => simp [findOrBuild] at h
  | succ fuel =>
    cases hk : lookupKey P (fuel + 1) t with
    | none => simp [findOrBuild, hk] at h
    | some key =>
      obtain ⟨h1, h2, _⟩ := C20_findOrBuild_registers_first P hash fuel t {} key hk rfl k s' h
      have : k = 0 := by simpa using h1
      subst this
      exact ⟨rfl, h2⟩

theorem C20_root_is_node_zero (P : Prog) (hash : Key → String) (fuel : Nat) (t : Ty) (S : SchemaMut)
    (h : schemaMut P hash fuel t = some S) : 0 < S.size := by
  obtain ⟨k, s', hf, rfl⟩ := schemaMut_some h
  exact (C20_root_key_zero P hash fuel t k s' hf).2

/-! ### 4. The fuel is only a bound -/

theorem C20_fuel_mono_lookupKey (P : Prog) (f f' : Nat) (hle : f ≤ f') (t : Ty) (key : Key)
    (h : lookupKey P f t = some key) : lookupKey P f' t = some key :=
  lookupKey_mono P hle h

theorem C20_fuel_mono_lookupKeys (P : Prog) (f f' : Nat) (hle : f ≤ f') (ts : List Ty) (key : Key)
    (h : lookupKeys P f ts = some key) : lookupKeys P f' ts = some key :=
  (lookupKey_mono_all P f).2 f' ts key hle h

theorem C20_fuel_mono_appendSchema (P : Prog) (hash : Key → String) (f f' : Nat) (hle : f ≤ f')
    (t : Ty) (s : BState) (r : Unit × BState) (h : appendSchema P hash f t s = some r) :
    appendSchema P hash f' t s = some r :=
  (monoAll P hash f f' hle).1 t s r h

theorem C20_fuel_mono_findOrBuild (P : Prog) (hash : Key → String) (f f' : Nat) (hle : f ≤ f')
    (t : Ty) (s : BState) (r : Nat × BState) (h : findOrBuild P hash f t s = some r) :
    findOrBuild P hash f' t s = some r :=
  (monoAll P hash f f' hle).2.1 t s r h

theorem C20_fuel_mono_fieldInst (P : Prog) (hash : Key → String) (f f' : Nat) (hle : f ≤ f')
    (d : Decl) (args : List Ty) (fl : Field) (kind : FieldKind) (rn : String) (s : BState)
    (r : Nat × BState) (h : fieldInst P hash f d args fl kind rn s = some r) :
    fieldInst P hash f' d args fl kind rn s = some r :=
  (monoAll P hash f f' hle).2.2.1 d args fl kind rn s r h

theorem C20_fuel_mono_recordFields (P : Prog) (hash : Key → String) (f f' : Nat) (hle : f ≤ f')
    (d : Decl) (args : List Ty) (tn : String) (fs : List Field) (s : BState)
    (r : List (String × Nat) × BState) (h : recordFields P hash f d args tn fs s = some r) :
    recordFields P hash f' d args tn fs s = some r :=
  (monoAll P hash f f' hle).2.2.2.1 d args tn fs s r h

theorem C20_fuel_mono_unionVariants (P : Prog) (hash : Key → String) (f f' : Nat) (hle : f ≤ f')
    (d : Decl) (args : List Ty) (vs : List Variant) (s : BState)
    (r : List Nat × BState) (h : unionVariants P hash f d args vs s = some r) :
    unionVariants P hash f' d args vs s = some r :=
  (monoAll P hash f f' hle).2.2.2.2 d args vs s r h

/-- The derived schema does not depend on the fuel: it is a function of the program. -/
theorem C20_fuel_mono (P : Prog) (hash : Key → String) (f f' : Nat) (hle : f ≤ f') (t : Ty)
    (S : SchemaMut) (h : schemaMut P hash f t = some S) : schemaMut P hash f' t = some S := by
  obtain ⟨k, s', hf, rfl⟩ := schemaMut_some h
  unfold schemaMut
  rw [C20_fuel_mono_findOrBuild P hash f f' hle t {} (k, s') hf]
  rfl

/-- Two fuels that both suffice give the same schema. -/
theorem C20_fuel_irrelevant (P : Prog) (hash : Key → String) (f f' : Nat) (t : Ty)
    (S S' : SchemaMut) (h : schemaMut P hash f t = some S) (h' : schemaMut P hash f' t = some S') :
    S = S' := by
  cases Nat.le_total f f' with
  | inl hle =>
    rw [C20_fuel_mono P hash f f' hle t S h] at h'
    exact Option.some.inj h'
  | inr hle =>
    rw [C20_fuel_mono P hash f' f hle t S' h'] at h
    exact (Option.some.inj h).symm

/-! ### 5. Built once -/

/-- After `find_or_build::<T>()` the lookup type of `T` is registered under the returned key. -/
theorem C20_built_once (P : Prog) (hash : Key → String) (fuel : Nat) (t : Ty) (s s' : BState)
    (idx : Nat) (key : Key) (h : findOrBuild P hash (fuel + 1) t s = some (idx, s'))
    (hk : lookupKey P (fuel + 1) t = some key) : s'.built.lookup key = some idx := by
  cases hb : s.built.lookup key with
  | some i =>
    rw [C20_findOrBuild_reuses P hash fuel t s key i hk hb] at h
    simp only [Option.some.injEq, Prod.mk.injEq] at h
    obtain ⟨rfl, rfl⟩ := h
    exact hb
  | none =>
    obtain ⟨h1, _, u, ha⟩ := C20_findOrBuild_registers_first P hash fuel t s key hk hb idx s' h
    have hreg : ({ s with built := (key, s.nodes.size) :: s.built } : BState).built.lookup key
        = some idx := by
      simp [h1]
    exact (C20_appendSchema_append_only P hash fuel t _ s' u ha).2.2 key idx hreg

/-- …so a second `find_or_build::<T>()` (with any fuel that is at least as large) returns the same
    key and leaves the builder as it is: a type is built once. -/
theorem C20_built_once_reuse (P : Prog) (hash : Key → String) (fuel fuel' : Nat)
    (hle : fuel + 1 ≤ fuel') (t : Ty) (s s' : BState) (idx : Nat)
    (h : findOrBuild P hash (fuel + 1) t s = some (idx, s')) :
    findOrBuild P hash fuel' t s' = some (idx, s') := by
  cases hk : lookupKey P (fuel + 1) t with
  | none => simp [findOrBuild, hk] at h
  | some key =>
    obtain ⟨g, rfl⟩ : ∃ g, fuel' = g + 1 := ⟨fuel' - 1, by omega⟩
    exact C20_findOrBuild_reuses P hash g t s' key idx (lookupKey_mono P hle hk)
      (C20_built_once P hash fuel t s s' idx key h hk)

/-! ### Non-vacuity -/

/-- `struct Node { value: i32, next: Option<Box<Node>> }` -/
def listProg : Prog :=
  #[{ ident := "Node", modulePath := "m",
      body := .record [{ name := "value", ty := .i32 },
                       { name := "next", ty := .option (.ptr (.named 0 [])) }] }]

example : (schemaMut listProg (fun _ => "h") 50 (.named 0 [])).isSome = true := by decide

/-- The recursive reference resolves to node 0, the record being built. -/
example : (schemaMut listProg (fun _ => "h") 50 (.named 0 [])).map (fun S => S.toList.map (·.type.children))
    = some [[1, 2], [], [3, 0], []] := by decide

/-- A generic record with logical-type fields (`build_logical_type` relabels the node it made),
    used twice by a recursive record:
    `struct Ev<T> { #[logical_type = "timestamp-millis"] at: i64, payload: Vec<T>,
                    #[logical_type = "uuid"] id: [u8; 16] }`,
    `struct Log { first: Ev<String>, again: HashMap<String, Ev<String>>, rest: Option<Box<Log>> }`. -/
def logProg : Prog :=
  #[{ ident := "Ev", modulePath := "m", nparams := 1,
      body := .record [{ name := "at", ty := .i64, attr := { logical := some "timestamp-millis" } },
                       { name := "payload", ty := .vec (.param 0) },
                       { name := "id", ty := .byteArray 16, attr := { logical := some "uuid" } }] },
    { ident := "Log", modulePath := "m",
      body := .record [{ name := "first", ty := .named 0 [.string] },
                       { name := "again", ty := .hashMap (.named 0 [.string]) },
                       { name := "rest", ty := .option (.ptr (.named 1 [])) }] }]

/-- (Kernel evaluation, because the elaborator's `whnf` is slow on the string comparisons of
    `known (pascal …)`; no axiom is added.) -/
example : (schemaMut logProg (fun _ => "h") 50 (.named 1 [])).map (fun S => S.toList.map (·.type.children))
    = some [[1, 6, 7], [2, 3, 5], [], [4], [], [], [1], [8, 0], []] := by decide +kernel

end Avro.Theorems
