import AvroModel.Theorems.C20wider
import AvroModel.Theorems.C20names
import AvroModel.Lemmas.DeriveWiderU
/-
C20, wider, with enums that map to unions: `C20_fits_widerU` for the fragment `FitWfWU`
(`Lemmas/DeriveWiderU.lean`), which extends `FitWfW` (`FitWfW_toWU`) with **enums that map
to unions** inside the generic line, so that one theorem covers a program with generic records,
generic forwarding newtypes, `Option<T>` of a marked parameter AND union enums:

(a) unit variants and newtype variants whose payload is any closed type of the fragment — generic
    instantiations included (`enum E { A(Pair<i32>), B(N<String>) }`); union enums may be arguments
    of generic records (`Pair<E>`, at parameters that are not marked "plain");
(b) newtype variants whose payload is *written* `[u8; N]` (behind pointers): the variant owns a
    `fixed` node named `<enum>.<variant>` (`ownedName d (.newtypeVariant v.ident) ""`), under which
    name — short or full — serde must present the variant.

The naming condition is the text-level one of `C20_fits_unions_text` (`UnionNamesTextW`, decidable,
part of `FitWfWU`): each variant's serde name is a lookup name of its own branch and of no other.
A variant whose payload is an instantiation of a *generic record* never satisfies it (the record's
name ends in the hash of its lookup type): such a variant cannot be selected by name.

(c) **generic** enums that map to unions (`enum G<T> { A(Vec<T>), B(HashMap<String, Option<T>>) }`),
    instantiated any number of times, also nested in themselves; their parameters take part in the
    marks of `FitWfW` (a parameter under `Option` must be instantiated with plain arguments).  Two
    restrictions, both on the variants of a *generic* enum: no payload written `[u8; N]` (the crate's
    open defect D24: the variant-owned fixed carries no hash, two instantiations define it twice —
    `C20_generic_union_owned_collides`, `D24_program_excluded`); the lookup names of each payload must
    not depend on the instantiation — so not a bare parameter (`bare_param_payload_fails`), not a
    generic record, and (a restriction of the check only) not an instantiation of a generic newtype.

Modified existing file: `Lemmas/DeriveWider.lean`, `isGenW` now counts a generic union enum as a
declaration that takes type arguments (one line, plus one case in `isGenW_of_G`); `FitWfW` is unchanged
as a predicate (it rejects every program with a union enum).
-/
namespace Avro.Theorems
open Avro Avro.Impl Avro.Impl.Derive Avro.Theorems.DeriveFits

/-- For a program that checks against a table of marks and satisfies the naming condition, the
    schema `schema_mut()` builds for the root type realizes it at node 0, to every depth. -/
theorem C20_schema_realizes_withU (P : Prog) (hash : Key → String) (fuel : Nat) (root : Ty) (Sm : SchemaMut)
    (M : DeriveW.Marks) (K : Nat)
    (hbuild : schemaMut P hash fuel root = some Sm) (hwf : DeriveWU.FitWfWithU P M K root = true)
    (hnames : DeriveWU.UnionNamesTextW P = true) :
    0 < (freezeNodes Sm).size ∧ ∀ f, Realizes P (freezeNodes Sm) f root 0 := by
  unfold schemaMut at hbuild
  cases hf : findOrBuild P hash fuel root {} with
  | none => simp [hf] at hbuild
  | some r =>
    obtain ⟨c, s'⟩ := r
    simp only [hf, Option.map_some, Option.some.injEq] at hbuild
    subst hbuild
    obtain ⟨rfl, hsz⟩ := findOrBuild_empty_idx hf
    have hroot : DeriveW.OkT P M root := ⟨K, DeriveWU.FitWfWithU_root hwf⟩
    have hP := DeriveWU.FitWfWithU_decls hwf
    obtain ⟨hinv, _, key, hkey, hreg⟩ :=
      (DeriveWU.builder_specsU (hash := hash) hP fuel).1 root {} 0 s' [] hroot (DeriveWU.InvU.empty P) hf
    exact ⟨by rw [freezeNodes_size]; exact hsz,
      fun f => DeriveWU.realizes_of_invU hP hinv hnames f root key 0 hroot hkey hreg⟩

/-- **C20 (fits), wider fragment with enums that map to unions.**  For a program of the fragment
    `FitWfWU` (generic records, generic forwarding newtypes, `Option<T>` of a bare parameter whose
    instantiations are all plain, non-generic union enums — `[u8; N]` newtype variants included —
    whose variants' serde names name their own branch and no other), every value of the root type
    serializes under the schema derived for it. -/
theorem C20_fits_widerU (ext : Avro.Impl.Ext) (P : Prog) (hash : Key → String) (fuel : Nat) (root : Ty)
    (Sm : SchemaMut) (f : Nat) (sv : SV)
    (hbuild : schemaMut P hash fuel root = some Sm) (hwf : DeriveWU.FitWfWU P root = true)
    (hs : hasShape P f root sv = true) :
    (ser ext false (freezeNodes Sm) ((freezeNodes Sm)[0]!) sv {}).1 = .ok () := by
  obtain ⟨⟨M, K, hwf'⟩, hnames⟩ := DeriveWU.FitWfWU_with hwf
  obtain ⟨hsz, hr⟩ := C20_schema_realizes_withU P hash fuel root Sm M K hbuild hwf' hnames
  have hnode : (freezeNodes Sm)[0]? = some ((freezeNodes Sm)[0]!) := by
    simp [getElem!_pos, hsz]
  obtain ⟨st', h, _⟩ := C20_fits_given_realizes ext false P (freezeNodes Sm) f root 0 sv _ hnode (hr f) hs
    {} rfl PoolClean.empty
  rw [h]

/-- Nothing is lost: the fragment of `C20_fits_wider` (hence those of `C20_fits_generic`, `C20_fits`)
    is part of `FitWfWU`. -/
theorem FitWfW_toWU {P : Prog} {root : Ty} (h : DeriveW.FitWfW P root = true) : DeriveWU.FitWfWU P root = true :=
  DeriveWU.FitWfW_toWU h

theorem FitWfG_toWU {P : Prog} {root : Ty} (h : DeriveG.FitWfG P root = true) : DeriveWU.FitWfWU P root = true :=
  FitWfW_toWU (FitWfG_toW h)

/-! ### The older fragment with union enums is included too

`FitWfU` (non-generic programs with union enums, `C20_fits_unions_text`) together with its naming
condition `UnionNamesText` implies `FitWfWU`. -/

section fromU
variable {P : Prog}

theorem hasParam_of_tyOk : ∀ t : Ty, tyOk P t = true → DeriveW.hasParam t = false
  | .vec t, h => by rw [DeriveW.hasParam]; exact hasParam_of_tyOk t (by simpa [tyOk] using h)
  | .hashMap t, h => by rw [DeriveW.hasParam]; exact hasParam_of_tyOk t (by simpa [tyOk] using h)
  | .btreeMap t, h => by rw [DeriveW.hasParam]; exact hasParam_of_tyOk t (by simpa [tyOk] using h)
  | .ptr t, h => by rw [DeriveW.hasParam]; exact hasParam_of_tyOk t (by simpa [tyOk] using h)
  | .option t, h => by
    simp only [tyOk, Bool.and_eq_true] at h
    rw [DeriveW.hasParam]; exact hasParam_of_tyOk t h.1
  | .named id args, h => by
    simp only [tyOk, Bool.and_eq_true, List.isEmpty_iff] at h
    rw [DeriveW.hasParam, h.1, DeriveW.hasParams]
  | .param i, h => by simp [tyOk] at h
  | .unit, _ | .bool, _ | .i8, _ | .i16, _ | .i32, _ | .i64, _ | .u16, _ | .u32, _ | .u64, _ | .usize, _
  | .f32, _ | .f64, _ | .string, _ | .str, _ | .byteVec, _ | .byteSlice, _ | .byteArray _, _ => by
    simp [DeriveW.hasParam]

variable (hP : ∀ (id : Nat) (d : Decl), P[id]? = some d → declOk true P d = true)
include hP

/-- No declaration of a `FitWfU` program takes type arguments. -/
theorem isGenW_of_U {id : Nat} {d : Decl} (hd : P[id]? = some d) : DeriveW.isGenW d = false := by
  have hdok := hP id d hd
  unfold DeriveW.isGenW
  unfold declOk at hdok
  cases hb : d.body with
  | record fs =>
    simp only [hb, Bool.and_eq_true, decide_eq_true_eq] at hdok
    simp [hdok.1.1]
  | newtype fd =>
    simp only [hb, Bool.and_eq_true, plainFieldOk] at hdok
    simp [hasParam_of_tyOk _ hdok.1.2.2]
  | unitEnum vs => simp
  | union vs =>
    simp only [hb, Bool.true_and, Bool.and_eq_true, decide_eq_true_eq] at hdok
    simp [hdok.1]

theorem scopeW_of_U {id : Nat} {d : Decl} (hd : P[id]? = some d) : DeriveW.scopeW d = 0 := by
  simp [DeriveW.scopeW, isGenW_of_U hP hd]

theorem tyOkU_toW {K : Nat} (hK : P.size + 1 ≤ K) (ctx : Nat → Bool) :
    ∀ t : Ty, tyOk P t = true → DeriveW.tyOkW P DeriveW.noMarks K 0 ctx t = true
  | .vec t, h => by rw [DeriveW.tyOkW]; exact tyOkU_toW hK ctx t (by simpa [tyOk] using h)
  | .hashMap t, h => by rw [DeriveW.tyOkW]; exact tyOkU_toW hK ctx t (by simpa [tyOk] using h)
  | .btreeMap t, h => by rw [DeriveW.tyOkW]; exact tyOkU_toW hK ctx t (by simpa [tyOk] using h)
  | .ptr t, h => by rw [DeriveW.tyOkW]; exact tyOkU_toW hK ctx t (by simpa [tyOk] using h)
  | .option t, h => by
    rw [DeriveW.tyOkW]
    simp only [tyOk, Bool.and_eq_true] at h ⊢
    exact ⟨tyOkU_toW hK ctx t h.1,
      DeriveW.plainW_mono _ _ ctx ctx t hK (fun _ h => h)
        (DeriveW.plainW_of_nonOptG _ ctx t (nonOpt_toG _ t h.2))⟩
  | .named id args, h => by
    simp only [tyOk, Bool.and_eq_true, List.isEmpty_iff, decide_eq_true_eq] at h
    obtain ⟨rfl, hid⟩ := h
    have hd : P[id]? = some P[id] := Array.getElem?_eq_getElem hid
    rw [DeriveW.tyOkW]
    simp [hd, isGenW_of_U hP hd, DeriveW.tysOkW]
  | .param i, h => by simp [tyOk] at h
  | .unit, _ | .bool, _ | .i8, _ | .i16, _ | .i32, _ | .i64, _ | .u16, _ | .u32, _ | .u64, _ | .usize, _
  | .f32, _ | .f64, _ | .string, _ | .str, _ | .byteVec, _ | .byteSlice, _ | .byteArray _, _ => by
    simp [DeriveW.tyOkW]

theorem declOkU_toWU {K : Nat} (hK : P.size + 1 ≤ K) {id : Nat} {d : Decl} (hd : P[id]? = some d) :
    DeriveWU.declOkWU P DeriveW.noMarks K id d = true := by
  have hdok := hP id d hd
  have hsc := scopeW_of_U hP hd
  unfold DeriveWU.declOkWU DeriveWU.declOkWithU
  unfold declOk at hdok
  cases hb : d.body with
  | record fs =>
    simp only [hb, DeriveW.declOkWith, Bool.and_eq_true, decide_eq_true_eq, List.all_eq_true] at hdok ⊢
    refine ⟨hdok.1.2, fun fd hfd => ?_⟩
    have := hdok.2 fd hfd
    rw [hsc]
    simp only [fieldOk, DeriveW.fieldOkW, plainFieldOk, DeriveW.plainFieldOkW, Bool.or_eq_true,
      Bool.and_eq_true] at this ⊢
    rcases this with ⟨h1, h2⟩ | h'
    · exact .inl ⟨h1, tyOkU_toW hP hK _ fd.ty h2⟩
    · exact .inr h'
  | newtype fd =>
    simp only [hb, DeriveW.declOkWith, Bool.and_eq_true, decide_eq_true_eq, plainFieldOk,
      DeriveW.plainFieldOkW] at hdok ⊢
    obtain ⟨⟨hname, hl, hty⟩, hrest⟩ := hdok
    rw [hsc]
    refine ⟨⟨hname, hl, tyOkU_toW hP hK _ fd.ty hty⟩, ?_⟩
    split
    · rename_i hdir
      simp only [hdir, if_true] at hrest
      exact DeriveW.plainW_mono _ _ _ _ fd.ty hK (fun _ h => h)
        (DeriveW.plainW_of_nonOptG _ _ fd.ty (nonOpt_toG _ _ hrest))
    · rename_i hdir; simpa [hdir] using hrest
  | unitEnum vs => simp [DeriveW.declOkWith, hb]
  | union vs =>
    simp only [hb, Bool.true_and, Bool.and_eq_true, decide_eq_true_eq, List.all_eq_true, Bool.or_eq_true] at hdok ⊢
    obtain ⟨hn, hvs⟩ := hdok
    intro v hv
    have := hvs v hv
    unfold variantOk at this
    unfold DeriveWU.variantOkWU
    refine ⟨?_, .inl hn⟩
    cases hf : v.field with
    | none => rfl
    | some fd =>
      rw [hf] at this
      simp only [plainFieldOk, Bool.and_eq_true, DeriveW.plainFieldOkW] at this ⊢
      rw [hsc]
      exact ⟨this.1.1, tyOkU_toW hP hK _ fd.ty this.1.2⟩

/-- On a `FitWfU` program the two readings of the branch names agree. -/
theorem branchNames_toW : ∀ (n : Nat) (t : Ty) (L : List String), branchNames P n t = some L →
    tyOk P t = true → ∀ m, n ≤ m → DeriveWU.branchNamesW P m t = some L := by
  intro n
  induction n with
  | zero => intro t L h; simp [branchNames] at h
  | succ n ih =>
    intro t L h ht m hm
    obtain ⟨m, rfl⟩ : ∃ m', m = m' + 1 := ⟨m - 1, by omega⟩
    have ht' := tyOk_peel P ht
    unfold branchNames at h
    unfold DeriveWU.branchNamesW
    generalize Derive.peel t = u at h ht'
    cases u with
    | named id args =>
      simp only [tyOk, Bool.and_eq_true, List.isEmpty_iff, decide_eq_true_eq] at ht'
      obtain ⟨rfl, hid⟩ := ht'
      have hd : P[id]? = some P[id] := Array.getElem?_eq_getElem hid
      have hdok := hP id _ hd
      generalize P[id] = d at hd hdok
      simp only [hd] at h ⊢
      unfold declOk at hdok
      cases hb : d.body with
      | record fs =>
        simp only [hb, Bool.and_eq_true, decide_eq_true_eq] at hdok h ⊢
        simpa [hdok.1.1] using h
      | unitEnum vs => simpa [hb] using h
      | union vs => simpa [hb] using h
      | newtype fd =>
        simp only [hb, Bool.and_eq_true, plainFieldOk] at hdok h ⊢
        obtain ⟨⟨_, hl, hty⟩, _⟩ := hdok
        simp only [hl, if_true] at h ⊢
        split
        · rename_i hdir
          simp only [hdir, if_true] at h
          rw [subst_nil]
          exact ih fd.ty L h hty m (by omega)
        · rename_i hdir
          simpa [hdir] using h
    | _ => first | exact h | simp at h

theorem variantNames_toW {id : Nat} {d : Decl} {vs : List Variant} (hd : P[id]? = some d)
    (hb : d.body = .union vs) {v : Variant} (hv : v ∈ vs) {L : List String}
    (h : variantNames P v = some L) : DeriveWU.variantNamesW P d v = some L := by
  have hdok := hP id d hd
  simp only [declOk, hb, Bool.true_and, Bool.and_eq_true, decide_eq_true_eq, List.all_eq_true] at hdok
  obtain ⟨hn, hvs⟩ := hdok
  have hvok := hvs v hv
  unfold variantOk at hvok
  unfold variantNames at h
  unfold DeriveWU.variantNamesW
  cases hf : v.field with
  | none => rw [hf] at h; exact h
  | some fd =>
    rw [hf] at h hvok
    simp only [plainFieldOk, Bool.and_eq_true] at hvok
    dsimp only at h ⊢
    rw [if_pos hvok.2]
    unfold DeriveWU.payloadNames
    rw [if_pos hn]
    exact branchNames_toW hP _ fd.ty L h hvok.1.2 _ (DeriveW.wideFuel_ge P .unit)

theorem unionText_toW {id : Nat} {d : Decl} {vs : List Variant} (hd : P[id]? = some d)
    (hb : d.body = .union vs) : ∀ (rest earlier : List Variant), (∀ w ∈ earlier ++ rest, w ∈ vs) →
    unionText P earlier rest = true → DeriveWU.unionTextW P d earlier rest = true
  | [], _, _, _ => rfl
  | v :: rest, earlier, hsub, h => by
    simp only [unionText, Bool.and_eq_true, List.all_eq_true] at h
    simp only [DeriveWU.unionTextW, Bool.and_eq_true, List.all_eq_true]
    refine ⟨⟨?_, fun w hw => ?_⟩, unionText_toW hd hb rest (earlier ++ [v]) (fun w hw => hsub w (by
      simp only [List.append_assoc, List.singleton_append] at hw; exact hw)) h.2⟩
    · have := h.1.1
      unfold variantOwn at this
      unfold DeriveWU.variantOwnW
      cases hL : variantNames P v with
      | none => simp [hL] at this
      | some L =>
        rw [variantNames_toW hP hd hb (hsub v (by simp)) hL]
        simpa [hL] using this
    · have := h.1.2 w hw
      unfold variantFree at this
      unfold DeriveWU.variantFreeW
      cases hL : variantNames P w with
      | none => simp [hL] at this
      | some L =>
        rw [variantNames_toW hP hd hb (hsub w (by
          simp only [List.mem_append, List.mem_cons] at hw ⊢
          rcases hw with hw | hw
          · exact .inl hw
          · exact .inr (.inr hw))) hL]
        simpa [hL] using this

end fromU

/-- **The fragment of `C20_fits_unions_text` is part of `FitWfWU`.** -/
theorem FitWfU_toWU {P : Prog} {root : Ty} (h : FitWfU P root = true) (hnames : UnionNamesText P = true) :
    DeriveWU.FitWfWU P root = true := by
  have hP := FitWfU_decls h
  have hroot := FitWfU_root h
  have hK := DeriveW.wideFuel_ge P root
  simp only [DeriveWU.FitWfWU, Bool.and_eq_true, Bool.or_eq_true]
  refine ⟨.inl (.inl (.inl ?_)), ?_⟩
  · simp only [DeriveWU.FitWfWithU, Bool.and_eq_true, List.all_eq_true, List.mem_range]
    refine ⟨fun id hid => ?_, tyOkU_toW hP hK DeriveW.noCtx root hroot⟩
    have hd : P[id]? = some P[id] := Array.getElem?_eq_getElem hid
    simp only [hd]
    exact declOkU_toWU hP hK hd
  · simp only [UnionNamesText, Array.all_eq_true] at hnames
    simp only [DeriveWU.UnionNamesTextW, Array.all_eq_true]
    intro i hi
    have := hnames i hi
    have hd : P[i]? = some P[i] := Array.getElem?_eq_getElem hi
    cases hb : P[i].body with
    | union vs =>
      simp only [hb] at this
      exact unionText_toW hP hd hb vs [] (fun w hw => by simpa using hw) this
    | _ => rfl

/-- Non-vacuity of the inclusion: the programs of `C20_fits_unions_text`. -/
example : DeriveWU.FitWfWU unionProg (.vec (.named 1 [])) = true := FitWfU_toWU unionProg_fitWfU unionProg_text

/-! ### Non-vacuity (a): union enums in the generic line

`struct Pair<T> { a: T, b: Vec<T> }`, `struct N<T>(T);`, `struct R<T> { x: Option<T>, rest: Vec<T> }`,
`struct Rec { x: i32 }`,
`enum E { #[serde(rename = "Null")] Nothing, #[serde(rename = "String")] S(N<String>),
  #[serde(rename = "m.Rec")] R(Box<Rec>), #[serde(rename = "Array")] V(Vec<Pair<i64>>) }`,
`struct Root { e: E, p: Pair<E>, r: R<Pair<E>>, m: HashMap<String, E> }`. -/

def unionWideProg : Prog := #[
  { ident := "Pair", nparams := 1, modulePath := "m", body := .record [
      { name := "a", ty := .param 0 }, { name := "b", ty := .vec (.param 0) } ] },
  { ident := "N", nparams := 1, modulePath := "m", body := .newtype { name := "0", ty := .param 0 } },
  { ident := "R", nparams := 1, modulePath := "m", body := .record [
      { name := "x", ty := .option (.param 0) }, { name := "rest", ty := .vec (.param 0) } ] },
  { ident := "Rec", modulePath := "m", body := .record [{ name := "x", ty := .i32 }] },
  { ident := "E", modulePath := "m", body := .union [
      { ident := "Nothing", serdeName := "Null", field := none },
      { ident := "S", serdeName := "String", field := some { name := "0", ty := .named 1 [.string] } },
      { ident := "R", serdeName := "m.Rec", field := some { name := "0", ty := .ptr (.named 3 []) } },
      { ident := "V", serdeName := "Array", field := some { name := "0", ty := .vec (.named 0 [.i64]) } } ] },
  { ident := "Root", modulePath := "m", body := .record [
      { name := "e", ty := .named 4 [] },
      { name := "p", ty := .named 0 [.named 4 []] },
      { name := "r", ty := .named 2 [.named 0 [.named 4 []]] },
      { name := "m", ty := .hashMap (.named 4 []) } ] } ]

theorem unionWideProg_fitWfWU : DeriveWU.FitWfWU unionWideProg (.named 5 []) = true := by decide +kernel

/-- It is outside both older fragments: `FitWfW` has no union enums, `FitWfU` no generics. -/
example : DeriveW.FitWfW unionWideProg (.named 5 []) = false := by decide +kernel
example : FitWfU unionWideProg (.named 5 []) = false := by decide +kernel

example : ((schemaMut unionWideProg DeriveNames.hashDemo 40 (.named 5 [])).map (·.size)) = some 16 := by
  decide +kernel

example : hasShape unionWideProg 12 (.named 5 []) (.struct "Root" [
    ("e", .newtypeVariant "E" 1 "String" (.newtypeStruct "N" (.str "s"))),
    ("p", .struct "Pair" [
      ("a", .unitVariant "E" 0 "Null"),
      ("b", .seq (some 2) [
        .newtypeVariant "E" 2 "m.Rec" (.struct "Rec" [("x", .int .i32 7)]),
        .newtypeVariant "E" 3 "Array" (.seq (some 1) [
          .struct "Pair" [("a", .int .i64 1), ("b", .seq (some 0) [])]])])]),
    ("r", .struct "R" [
      ("x", .some (.struct "Pair" [("a", .unitVariant "E" 0 "Null"), ("b", .seq (some 0) [])])),
      ("rest", .seq (some 0) [])]),
    ("m", .map (some 1) [(.str "k", .unitVariant "E" 0 "Null")])]) = true := by decide +kernel

/-- Every value of `Root` serializes under the derived schema. -/
example (ext : Avro.Impl.Ext) (hash : Key → String) (fuel : Nat) (Sm : SchemaMut) (f : Nat) (sv : SV)
    (hbuild : schemaMut unionWideProg hash fuel (.named 5 []) = some Sm)
    (hs : hasShape unionWideProg f (.named 5 []) sv = true) :
    (ser ext false (freezeNodes Sm) ((freezeNodes Sm)[0]!) sv {}).1 = .ok () :=
  C20_fits_widerU ext unionWideProg hash fuel _ Sm f sv hbuild unionWideProg_fitWfWU hs

/-! ### Non-vacuity (b): newtype variants written `[u8; N]`

`enum K { #[serde(rename = "A")] A([u8; 4]), #[serde(rename = "m.K.B")] B(Box<[u8; 4]>),
  #[serde(rename = "String")] C(String), #[serde(rename = "u8_array_4")] D(N<[u8; 4]>) }`:
`A` and `B` own the fixeds `m.K.A`, `m.K.B` (short name resp. fullname as serde name); `D`'s payload
is written `N<[u8; 4]>`, goes through `find_or_build` and gets the shared `u8_array_4`. -/

def fixedVariantProg : Prog := #[
  { ident := "N", nparams := 1, modulePath := "m", body := .newtype { name := "0", ty := .param 0 } },
  { ident := "K", modulePath := "m", body := .union [
      { ident := "A", serdeName := "A", field := some { name := "0", ty := .byteArray 4 } },
      { ident := "B", serdeName := "m.K.B", field := some { name := "0", ty := .ptr (.byteArray 4) } },
      { ident := "C", serdeName := "String", field := some { name := "0", ty := .string } },
      { ident := "D", serdeName := "u8_array_4", field := some { name := "0", ty := .named 0 [.byteArray 4] } } ] } ]

theorem fixedVariantProg_fitWfWU : DeriveWU.FitWfWU fixedVariantProg (.vec (.named 1 [])) = true := by
  decide +kernel

/-- Outside the older fragments (`FitWfU` excludes `[u8; N]` payloads even without the generic `N`). -/
example : DeriveW.FitWfW fixedVariantProg (.vec (.named 1 [])) = false := by decide +kernel
example : FitWfU fixedVariantProg (.vec (.named 1 [])) = false := by decide +kernel
example : FitWfU (#[
  { ident := "K", modulePath := "m", body := .union [
      { ident := "A", serdeName := "A", field := some { name := "0", ty := .byteArray 4 } },
      { ident := "C", serdeName := "String", field := some { name := "0", ty := .string } } ] } ] : Prog)
    (.named 0 []) = false := by decide +kernel

/-- The names defined by the schema: the two variant-owned fixeds and the shared `u8_array_4`. -/
example : (schemaMut fixedVariantProg DeriveNames.hashDemo 40 (.vec (.named 1 []))).map definedNames =
    some ["m.K.A", "m.K.B", "u8_array_4"] := by decide +kernel

example : hasShape fixedVariantProg 8 (.vec (.named 1 [])) (.seq (some 4) [
    .newtypeVariant "K" 0 "A" (.bytes [1, 2, 3, 4]),
    .newtypeVariant "K" 1 "m.K.B" (.bytes [5, 6, 7, 8]),
    .newtypeVariant "K" 2 "String" (.str "x"),
    .newtypeVariant "K" 3 "u8_array_4" (.newtypeStruct "N" (.bytes [9, 9, 9, 9]))]) = true := by
  decide +kernel

example (ext : Avro.Impl.Ext) (hash : Key → String) (fuel : Nat) (Sm : SchemaMut) (f : Nat) (sv : SV)
    (hbuild : schemaMut fixedVariantProg hash fuel (.vec (.named 1 [])) = some Sm)
    (hs : hasShape fixedVariantProg f (.vec (.named 1 [])) sv = true) :
    (ser ext false (freezeNodes Sm) ((freezeNodes Sm)[0]!) sv {}).1 = .ok () :=
  C20_fits_widerU ext fixedVariantProg hash fuel _ Sm f sv hbuild fixedVariantProg_fitWfWU hs

/-! ### Evaluation helpers for the counterexamples -/

def extWU0 : Avro.Impl.Ext :=
  { asF32 := fun _ => 0, decFromF64 := fun _ => none, decParse := fun _ => none, decRescale := fun x _ => x }

/-- Whether the value serializes under the schema derived for `root` (`none`: no schema). -/
def fitsAtU (P : Prog) (root : Ty) (sv : SV) : Option Bool :=
  (schemaMut P DeriveNames.hashDemo 40 root).map fun Sm =>
    match (ser extWU0 false (freezeNodes Sm) ((freezeNodes Sm)[0]!) sv {}).1 with
    | .ok _ => true
    | .error _ => false

theorem not_fits_of_fitsAtU {P : Prog} {root : Ty} {sv : SV} (h : fitsAtU P root sv = some false) :
    ∃ Sm, schemaMut P DeriveNames.hashDemo 40 root = some Sm ∧
      (ser extWU0 false (freezeNodes Sm) ((freezeNodes Sm)[0]!) sv {}).1 ≠ .ok () := by
  unfold fitsAtU at h
  cases hs : schemaMut P DeriveNames.hashDemo 40 root with
  | none => simp [hs] at h
  | some Sm =>
    refine ⟨Sm, rfl, fun hok => ?_⟩
    simp [hs, hok] at h

/-! ### The naming condition is necessary -/

/-- `enum K { #[serde(rename = "X")] A([u8; 4]), #[serde(rename = "Y")] B([u8; 4]) }`: the variant-owned
    fixeds are called `m.K.A`, `m.K.B`; neither `X` nor `Y` names a branch. -/
def fixedVariantBadProg : Prog := #[
  { ident := "K", modulePath := "m", body := .union [
      { ident := "A", serdeName := "X", field := some { name := "0", ty := .byteArray 4 } },
      { ident := "B", serdeName := "Y", field := some { name := "0", ty := .byteArray 4 } } ] } ]

/-- **A `[u8; N]` variant must be presented under a name of the variant-owned fixed**: the program
    passes every other check of the fragment, `K::B([1,2,3,4])` is a value of the type, and the
    serializer rejects it (by-name selection finds nothing, and selection by type is ambiguous). -/
theorem fixed_variant_wrong_name_fails :
    DeriveWU.FitWfWithU fixedVariantBadProg DeriveW.noMarks 10 (.named 0 []) = true ∧
    DeriveWU.FitWfWU fixedVariantBadProg (.named 0 []) = false ∧
    hasShape fixedVariantBadProg 4 (.named 0 []) (.newtypeVariant "K" 1 "Y" (.bytes [1, 2, 3, 4])) = true ∧
    ∃ Sm, schemaMut fixedVariantBadProg DeriveNames.hashDemo 40 (.named 0 []) = some Sm ∧
      (ser extWU0 false (freezeNodes Sm) ((freezeNodes Sm)[0]!)
        (.newtypeVariant "K" 1 "Y" (.bytes [1, 2, 3, 4])) {}).1 ≠ .ok () :=
  ⟨by decide +kernel, by decide +kernel, by decide +kernel, not_fits_of_fitsAtU (by decide +kernel)⟩

/-- The same enum with the names of the two fixeds swapped (`A` presented as `B` and vice versa). -/
def fixedVariantSwapProg : Prog := #[
  { ident := "K", modulePath := "m", body := .union [
      { ident := "A", serdeName := "B", field := some { name := "0", ty := .byteArray 4 } },
      { ident := "B", serdeName := "A", field := some { name := "0", ty := .byteArray 4 } } ] } ]

/-- "… and of no other": with swapped names the check fails; the serializer does accept
    `K::A([1,2,3,4])`, but writes it with the discriminant of `B` (zig-zag `2`), i.e. as `K::B(..)`. -/
theorem fixed_variant_swapped_names_wrong_branch :
    DeriveWU.FitWfWU fixedVariantSwapProg (.named 0 []) = false ∧
    (schemaMut fixedVariantSwapProg DeriveNames.hashDemo 40 (.named 0 [])).map (fun Sm =>
      (ser extWU0 false (freezeNodes Sm) ((freezeNodes Sm)[0]!)
        (.newtypeVariant "K" 0 "B" (.bytes [1, 2, 3, 4])) {}).2.out) = some [2, 1, 2, 3, 4] :=
  ⟨by decide +kernel, by decide +kernel⟩

/-- `enum U { A([u8; 4]), N }` with serde's default name `N` for the unit variant. -/
def unitVariantBadProg : Prog := #[
  { ident := "U", modulePath := "m", body := .union [
      { ident := "A", serdeName := "A", field := some { name := "0", ty := .byteArray 4 } },
      { ident := "N", serdeName := "N", field := none } ] } ]

/-- **A unit variant must be presented as `Null`.** -/
theorem unit_variant_wrong_name_fails :
    DeriveWU.FitWfWithU unitVariantBadProg DeriveW.noMarks 10 (.named 0 []) = true ∧
    DeriveWU.FitWfWU unitVariantBadProg (.named 0 []) = false ∧
    hasShape unitVariantBadProg 4 (.named 0 []) (.unitVariant "U" 1 "N") = true ∧
    ∃ Sm, schemaMut unitVariantBadProg DeriveNames.hashDemo 40 (.named 0 []) = some Sm ∧
      (ser extWU0 false (freezeNodes Sm) ((freezeNodes Sm)[0]!) (.unitVariant "U" 1 "N") {}).1 ≠ .ok () :=
  ⟨by decide +kernel, by decide +kernel, by decide +kernel, not_fits_of_fitsAtU (by decide +kernel)⟩

/-- `enum E { A(Pair<i32>), B(Pair<String>) }` (serde's default names): the payloads are
    instantiations of a generic record, whose names end in the hash of the lookup type. -/
def genericPayloadProg : Prog := #[
  { ident := "Pair", nparams := 1, modulePath := "m", body := .record [
      { name := "a", ty := .param 0 }, { name := "b", ty := .vec (.param 0) } ] },
  { ident := "E", modulePath := "m", body := .union [
      { ident := "A", serdeName := "A", field := some { name := "0", ty := .named 0 [.i32] } },
      { ident := "B", serdeName := "B", field := some { name := "0", ty := .named 0 [.string] } } ] } ]

/-- **A variant whose payload is a generic record cannot be named from the program text**: the naming
    check rejects it whatever the serde name (`branchNamesW` is `none`), and `E::A(Pair { a: 1, b: [] })`
    is rejected by the serializer. -/
theorem generic_record_payload_fails :
    DeriveWU.FitWfWithU genericPayloadProg DeriveW.noMarks 10 (.named 1 []) = true ∧
    DeriveWU.FitWfWU genericPayloadProg (.named 1 []) = false ∧
    (∀ n, DeriveWU.branchNamesW genericPayloadProg n (.named 0 [.i32]) = none) ∧
    hasShape genericPayloadProg 6 (.named 1 [])
      (.newtypeVariant "E" 0 "A" (.struct "Pair" [("a", .int .i32 1), ("b", .seq (some 0) [])])) = true ∧
    ∃ Sm, schemaMut genericPayloadProg DeriveNames.hashDemo 40 (.named 1 []) = some Sm ∧
      (ser extWU0 false (freezeNodes Sm) ((freezeNodes Sm)[0]!)
        (.newtypeVariant "E" 0 "A" (.struct "Pair" [("a", .int .i32 1), ("b", .seq (some 0) [])])) {}).1 ≠
        .ok () :=
  ⟨by decide +kernel, by decide +kernel, fun n => by cases n <;> rfl, by decide +kernel,
    not_fits_of_fitsAtU (by decide +kernel)⟩

/-! ### Non-vacuity (c): generic enums that map to unions

`enum G<T> { #[serde(rename = "Null")] N, #[serde(rename = "Array")] A(Vec<T>),
  #[serde(rename = "Map")] M(HashMap<String, Option<T>>), #[serde(rename = "m.Rec")] R(Box<Rec>) }`,
`struct Pair<T> { a: T, b: Vec<T> }`, `struct Rec { x: i32 }`,
`struct Root { a: G<i32>, b: G<Pair<String>>, c: Pair<G<i32>>, d: G<Vec<G<bool>>> }`: four
instantiations of `G` — `G<i32>` twice (one node), an instantiation with a generic record, one nested
in itself.  The parameter of `G` is marked (it sits under `Option`), so `G<Option<_>>` — and
`G<G<_>>` — are rejected. -/

def genericUnionProg : Prog := #[
  { ident := "G", nparams := 1, modulePath := "m", body := .union [
      { ident := "N", serdeName := "Null", field := none },
      { ident := "A", serdeName := "Array", field := some { name := "0", ty := .vec (.param 0) } },
      { ident := "M", serdeName := "Map", field := some { name := "0", ty := .hashMap (.option (.param 0)) } },
      { ident := "R", serdeName := "m.Rec", field := some { name := "0", ty := .ptr (.named 2 []) } } ] },
  { ident := "Pair", nparams := 1, modulePath := "m", body := .record [
      { name := "a", ty := .param 0 }, { name := "b", ty := .vec (.param 0) } ] },
  { ident := "Rec", modulePath := "m", body := .record [{ name := "x", ty := .i32 }] },
  { ident := "Root", modulePath := "m", body := .record [
      { name := "a", ty := .named 0 [.i32] },
      { name := "b", ty := .named 0 [.named 1 [.string]] },
      { name := "c", ty := .named 1 [.named 0 [.i32]] },
      { name := "d", ty := .named 0 [.vec (.named 0 [.bool])] } ] } ]

theorem genericUnionProg_fitWfWU : DeriveWU.FitWfWU genericUnionProg (.named 3 []) = true := by
  decide +kernel

example : DeriveW.FitWfW genericUnionProg (.named 3 []) = false := by decide +kernel
example : FitWfU genericUnionProg (.named 3 []) = false := by decide +kernel

/-- The inferred marks: the parameter of `G` (under `Option`), not that of `Pair`. -/
example : (List.range 2).map (fun id => DeriveWU.inferMarksU genericUnionProg 40 id 0) = [true, false] := by
  decide +kernel

/-- `G<Option<i32>>` is rejected (the schema would be `[.., {map of [null, [null, int]]}, ..]`). -/
example : DeriveWU.FitWfWU genericUnionProg (.named 0 [.option .i32]) = false := by decide +kernel
example : DeriveWU.FitWfWU genericUnionProg (.named 0 [.i32]) = true := by decide +kernel

example : ((schemaMut genericUnionProg DeriveNames.hashDemo 40 (.named 3 [])).map (·.size)) = some 27 := by
  decide +kernel

example : hasShape genericUnionProg 12 (.named 3 []) (.struct "Root" [
    ("a", .newtypeVariant "G" 1 "Array" (.seq (some 2) [.int .i32 1, .int .i32 2])),
    ("b", .newtypeVariant "G" 2 "Map" (.map (some 2) [
      (.str "k", .some (.struct "Pair" [("a", .str "x"), ("b", .seq (some 0) [])])), (.str "l", .none)])),
    ("c", .struct "Pair" [
      ("a", .unitVariant "G" 0 "Null"),
      ("b", .seq (some 1) [.newtypeVariant "G" 3 "m.Rec" (.struct "Rec" [("x", .int .i32 7)])])]),
    ("d", .newtypeVariant "G" 1 "Array" (.seq (some 1) [.seq (some 1) [
      .newtypeVariant "G" 1 "Array" (.seq (some 1) [.bool true])]]))]) = true := by decide +kernel

/-- Every value of `Root` serializes under the derived schema. -/
example (ext : Avro.Impl.Ext) (hash : Key → String) (fuel : Nat) (Sm : SchemaMut) (f : Nat) (sv : SV)
    (hbuild : schemaMut genericUnionProg hash fuel (.named 3 []) = some Sm)
    (hs : hasShape genericUnionProg f (.named 3 []) sv = true) :
    (ser ext false (freezeNodes Sm) ((freezeNodes Sm)[0]!) sv {}).1 = .ok () :=
  C20_fits_widerU ext genericUnionProg hash fuel _ Sm f sv hbuild genericUnionProg_fitWfWU hs

/-- `enum G<T> { #[serde(rename = "Int")] A(T), #[serde(rename = "String")] S(String) }`: the name of
    `A`'s branch depends on the instantiation. -/
def bareParamUnionProg : Prog := #[
  { ident := "G", nparams := 1, modulePath := "m", body := .union [
      { ident := "A", serdeName := "Int", field := some { name := "0", ty := .param 0 } },
      { ident := "S", serdeName := "String", field := some { name := "0", ty := .string } } ] } ]

/-- **A variant of a generic enum whose payload is a bare parameter cannot be named from the text**: the
    check rejects it; `G<i32>` happens to work with the name `Int`, but at `G<String>` both branches
    are the one `string` node and `G::A("x")` is rejected. -/
theorem bare_param_payload_fails :
    DeriveWU.FitWfWithU bareParamUnionProg DeriveW.noMarks 10 (.named 0 [.string]) = true ∧
    DeriveWU.FitWfWU bareParamUnionProg (.named 0 [.string]) = false ∧
    fitsAtU bareParamUnionProg (.named 0 [.i32]) (.newtypeVariant "G" 0 "Int" (.int .i32 5)) = some true ∧
    hasShape bareParamUnionProg 4 (.named 0 [.string]) (.newtypeVariant "G" 0 "Int" (.str "x")) = true ∧
    ∃ Sm, schemaMut bareParamUnionProg DeriveNames.hashDemo 40 (.named 0 [.string]) = some Sm ∧
      (ser extWU0 false (freezeNodes Sm) ((freezeNodes Sm)[0]!)
        (.newtypeVariant "G" 0 "Int" (.str "x")) {}).1 ≠ .ok () :=
  ⟨by decide +kernel, by decide +kernel, by decide +kernel, by decide +kernel,
    not_fits_of_fitsAtU (by decide +kernel)⟩

/-! ### `[u8; N]` payloads in generic enums are excluded (defect D24) -/

/-- A generic enum that maps to a union with a variant written `[u8; N]` is rejected by the check,
    whatever the table of marks. -/
theorem generic_union_fixed_rejected (P : Prog) (M : DeriveW.Marks) (K id : Nat) (d : Decl) (vs : List Variant)
    (hb : d.body = .union vs) (hn : d.nparams ≠ 0) (v : Variant) (hv : v ∈ vs) (fd : Field)
    (hf : v.field = some fd) (hdir : isDirect fd (.newtypeVariant v.ident) = false) :
    DeriveWU.declOkWU P M K id d = false := by
  cases h : DeriveWU.declOkWU P M K id d with
  | false => rfl
  | true =>
    rcases (DeriveWU.declOkWU_union hb h v hv).2 with h' | h'
    · exact absurd h' hn
    · simp [DeriveWU.directV, hf, hdir] at h'

/-- The program of the open defect D24 (`enum E<T> { A([u8; 4]), B(Vec<T>) }` instantiated twice:
    the schema defines `m.E.A` twice, `C20_generic_union_owned_collides`) is outside the fragment;
    without the `[u8; 4]` variant it is inside. -/
theorem D24_program_excluded :
    (schemaMut progD24 DeriveNames.hashDemo 20 (.named 1 [])).map definedNames =
      some ["m.Outer", "m.E.A", "m.E.A"] ∧
    DeriveWU.FitWfWU progD24 (.named 1 []) = false ∧
    DeriveWU.FitWfWU (progD24.modify 0 fun d => { d with body := .union [
        ⟨"A", "Bytes", some { name := "0", ty := .byteVec }⟩,
        ⟨"B", "Array", some { name := "0", ty := .vec (.param 0) }⟩] }) (.named 1 []) = true :=
  ⟨C20_generic_union_owned_collides, by decide +kernel, by decide +kernel⟩

end Avro.Theorems
