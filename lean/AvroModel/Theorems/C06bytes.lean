import AvroModel.Lemmas.MetaDe
/-
C06 — the header of a container file, FROM THE BYTES (closes the hypothesis `hm : metaDe s = …` of
`C06_header_any_order`, `C06_header_any_order_no_codec`, `C06_header_accepted`).

A "layout" of the metadata map is any byte string the specification decoder accepts on the schema
`map<bytes>` — `Spec.decode metaSchema _ (.map 1)`: any partition of the entries into blocks, blocks
with a positive count, blocks with a negative count followed by a byte size, a final 0 count,
non-minimal varints — within the implementation's varint limit (`Spec.decodeL Limits.impl`, the
relation `C03_de_refines_spec` / `C03_de_sound` are stated over).  `kvs : List (String × Bytes)` are
the entries in FILE order (a `String` key is a valid UTF-8 key).

  * `C06_header_bytes_any_order`, `C06_header_bytes_any_order_no_codec`: a slice
    `Obj\x01 ++ layout ++ sync ++ tail` whose layout holds at most 1000 entries, exactly one
    `avro.schema` (valid UTF-8) and zero / one `avro.codec` naming a known codec, in any order, with
    any other keys: `readHeader` returns the header and leaves exactly `tail`.
  * `…_spec`: the same with `Spec.decode` + `hlim`, the shape of `C03_de_refines_spec`.
  * `C06_header_bytes_accepted`: conversely, if `readHeader` accepts a slice, the slice is
    `Obj\x01 ++ body`, `body` starts with a layout of some entries `kvs` (accepted by
    `decodeL Limits.impl`, hence by `Spec.decode`) followed by the 16-byte marker, what remains is
    the rest, and `kvs` satisfies the conclusions of `C06_header_accepted`.
-/
namespace Avro.Theorems
open Avro Avro.Impl Avro.Impl.Ocf Avro.C06 Avro.Spec

/-- `Obj\x01` -/
def ocfMagic : Bytes := [0x4F, 0x62, 0x6A, 0x01]

/-- a slice positioned on `a ++ r`, `a.length = k`: `readExact k` returns `a` and leaves `r` -/
theorem readExact_slice_append (k : Nat) (src : RState) (a r : Bytes)
    (hs : src.isSlice = true) (hl : src.limit = none) (ha : src.avail = 0)
    (hr : src.rest = a ++ r) (hk : a.length = k) :
    readExact k src = (.ok a, { src with rest := r }) := by
  rw [readExact_slice hs hl (by rw [hr, List.length_append]; omega)]
  obtain ⟨isS, rest, av, sched, lc, ma, scr, lim⟩ := src
  simp only at hs hl ha hr
  subst hr ha hk
  simp

/-- from the hypotheses of `C03_de_refines_spec` to a run of the limited decoder -/
theorem layout_of_spec {v : Value} {bytes rest : Bytes} {fuelS fuelL : Nat}
    (hdec : Spec.decode metaSchema fuelS (.map 1) bytes = some (v, rest))
    (hlim : (Spec.decodeL Limits.impl metaSchema fuelL (.map 1) bytes).isSome = true) :
    Spec.decodeL Limits.impl metaSchema fuelL (.map 1) bytes = some (v, rest) := by
  obtain ⟨x, hx⟩ := Option.isSome_iff_exists.1 hlim
  have := C03_decodeL_impl_agrees metaSchema fuelL fuelS (.map 1) bytes x (v, rest) hx hdec
  subst this
  exact hx

/-- the first two steps of `readHeader` on a slice: the magic, then the metadata map -/
theorem header_steps (src : RState) (kvs : List (String × Bytes)) (layout rest : Bytes) (fuelL : Nat)
    (hsl : src.isSlice = true) (hl : src.limit = none) (ha : src.avail = 0)
    (hr : src.rest = ocfMagic ++ (layout ++ rest))
    (hlay : Spec.decodeL Limits.impl metaSchema fuelL (.map 1) (layout ++ rest) =
      some (metaValue kvs, rest))
    (hn : kvs.length ≤ 1000) :
    readExact 4 src = (.ok [0x4F, 0x62, 0x6A, 0x01], { src with rest := layout ++ rest }) ∧
    metaDe { src with rest := layout ++ rest } = (.ok (.map (metaOut kvs)), { src with rest := rest }) :=
  ⟨readExact_slice_append 4 src ocfMagic _ hsl hl ha hr rfl,
   metaDe_accepts kvs _ rest fuelL hlay hn { src with rest := layout ++ rest } hsl hl ha rfl⟩

/-- **C06 (the header, from the bytes; `avro.codec` present).**  A slice
    `Obj\x01 ++ layout ++ sync ++ tail` where `layout` is ANY layout of the `map<bytes>` holding the
    entries `kvs` (file order), at most 1000 of them, `sync` has 16 bytes; exactly one entry has
    the key `avro.schema` (value valid UTF-8), exactly one the key `avro.codec`, naming a known
    codec; the entries are in any order and other keys are allowed.  Then `readHeader` returns
    that schema, that codec, `sync`, the other entries in file order, and leaves exactly `tail`. -/
theorem C06_header_bytes_any_order (src : RState) (kvs : List (String × Bytes))
    (layout sync tail : Bytes) (fuelL : Nat) (sj cv : Bytes) (str cn : String)
    (hsl : src.isSlice = true) (hl : src.limit = none) (ha : src.avail = 0)
    (hr : src.rest = ocfMagic ++ (layout ++ (sync ++ tail)))
    (hlay : Spec.decodeL Limits.impl metaSchema fuelL (.map 1) (layout ++ (sync ++ tail)) =
      some (metaValue kvs, sync ++ tail))
    (hn : kvs.length ≤ 1000) (hsync : sync.length = 16)
    (hs : (metaKV kvs).filter (·.1 = schemaKey) = [(schemaKey, sj)])
    (hutf : bytesToStr? sj = some str)
    (hc : (metaKV kvs).filter (·.1 = codecKey) = [(codecKey, cv)])
    (hcn : bytesToStr? cv = some cn) (hk : knownCodecs.contains cn = true) :
    readHeader src =
      (.ok { schemaJson := sj, codec := cn, sync := sync,
             userMeta := (metaKV kvs).filter fun e => e.1 ≠ schemaKey ∧ e.1 ≠ codecKey },
       { src with rest := tail }) := by
  obtain ⟨h4, hm⟩ := header_steps src kvs layout (sync ++ tail) fuelL hsl hl ha hr hlay hn
  have h16 := readExact_slice_append 16 { src with rest := sync ++ tail } sync tail hsl hl ha rfl hsync
  have := C06_header_any_order src _ _ _ (metaOut kvs) sj cv sync str cn h4 hm
    (by rw [kvOf_metaOut]; exact hs) hutf (by rw [kvOf_metaOut]; exact hc) hcn hk h16
  rw [kvOf_metaOut] at this
  exact this

/-- **C06 (the header, from the bytes; `avro.codec` absent).**  The same with no `avro.codec`
    entry: the codec is `"null"`. -/
theorem C06_header_bytes_any_order_no_codec (src : RState) (kvs : List (String × Bytes))
    (layout sync tail : Bytes) (fuelL : Nat) (sj : Bytes) (str : String)
    (hsl : src.isSlice = true) (hl : src.limit = none) (ha : src.avail = 0)
    (hr : src.rest = ocfMagic ++ (layout ++ (sync ++ tail)))
    (hlay : Spec.decodeL Limits.impl metaSchema fuelL (.map 1) (layout ++ (sync ++ tail)) =
      some (metaValue kvs, sync ++ tail))
    (hn : kvs.length ≤ 1000) (hsync : sync.length = 16)
    (hs : (metaKV kvs).filter (·.1 = schemaKey) = [(schemaKey, sj)])
    (hutf : bytesToStr? sj = some str)
    (hc : (metaKV kvs).filter (·.1 = codecKey) = []) :
    readHeader src =
      (.ok { schemaJson := sj, codec := "null", sync := sync,
             userMeta := (metaKV kvs).filter fun e => e.1 ≠ schemaKey ∧ e.1 ≠ codecKey },
       { src with rest := tail }) := by
  obtain ⟨h4, hm⟩ := header_steps src kvs layout (sync ++ tail) fuelL hsl hl ha hr hlay hn
  have h16 := readExact_slice_append 16 { src with rest := sync ++ tail } sync tail hsl hl ha rfl hsync
  have := C06_header_any_order_no_codec src _ _ _ (metaOut kvs) sj sync str h4 hm
    (by rw [kvOf_metaOut]; exact hs) hutf (by rw [kvOf_metaOut]; exact hc) h16
  rw [kvOf_metaOut] at this
  exact this

/-- The same two statements with the hypotheses of `C03_de_refines_spec`: the specification decoder
    `Spec.decode` accepts the layout (`hdec`) and the input is within the implementation's numeric
    limit — no varint longer than ten bytes (`hlim`). -/
theorem C06_header_bytes_any_order_spec (src : RState) (kvs : List (String × Bytes))
    (layout sync tail : Bytes) (fuelS fuelL : Nat) (sj cv : Bytes) (str cn : String)
    (hsl : src.isSlice = true) (hl : src.limit = none) (ha : src.avail = 0)
    (hr : src.rest = ocfMagic ++ (layout ++ (sync ++ tail)))
    (hdec : Spec.decode metaSchema fuelS (.map 1) (layout ++ (sync ++ tail)) =
      some (metaValue kvs, sync ++ tail))
    (hlim : (Spec.decodeL Limits.impl metaSchema fuelL (.map 1) (layout ++ (sync ++ tail))).isSome
      = true)
    (hn : kvs.length ≤ 1000) (hsync : sync.length = 16)
    (hs : (metaKV kvs).filter (·.1 = schemaKey) = [(schemaKey, sj)])
    (hutf : bytesToStr? sj = some str)
    (hc : (metaKV kvs).filter (·.1 = codecKey) = [(codecKey, cv)])
    (hcn : bytesToStr? cv = some cn) (hk : knownCodecs.contains cn = true) :
    readHeader src =
      (.ok { schemaJson := sj, codec := cn, sync := sync,
             userMeta := (metaKV kvs).filter fun e => e.1 ≠ schemaKey ∧ e.1 ≠ codecKey },
       { src with rest := tail }) :=
  C06_header_bytes_any_order src kvs layout sync tail fuelL sj cv str cn hsl hl ha hr
    (layout_of_spec hdec hlim) hn hsync hs hutf hc hcn hk

theorem C06_header_bytes_any_order_no_codec_spec (src : RState) (kvs : List (String × Bytes))
    (layout sync tail : Bytes) (fuelS fuelL : Nat) (sj : Bytes) (str : String)
    (hsl : src.isSlice = true) (hl : src.limit = none) (ha : src.avail = 0)
    (hr : src.rest = ocfMagic ++ (layout ++ (sync ++ tail)))
    (hdec : Spec.decode metaSchema fuelS (.map 1) (layout ++ (sync ++ tail)) =
      some (metaValue kvs, sync ++ tail))
    (hlim : (Spec.decodeL Limits.impl metaSchema fuelL (.map 1) (layout ++ (sync ++ tail))).isSome
      = true)
    (hn : kvs.length ≤ 1000) (hsync : sync.length = 16)
    (hs : (metaKV kvs).filter (·.1 = schemaKey) = [(schemaKey, sj)])
    (hutf : bytesToStr? sj = some str)
    (hc : (metaKV kvs).filter (·.1 = codecKey) = []) :
    readHeader src =
      (.ok { schemaJson := sj, codec := "null", sync := sync,
             userMeta := (metaKV kvs).filter fun e => e.1 ≠ schemaKey ∧ e.1 ≠ codecKey },
       { src with rest := tail }) :=
  C06_header_bytes_any_order_no_codec src kvs layout sync tail fuelL sj str hsl hl ha hr
    (layout_of_spec hdec hlim) hn hsync hs hutf hc

/-! ### Conversely: what `readHeader` accepts is a layout -/

/-- `readHeader` succeeded: the magic was read, and the metadata map decoded to a map -/
theorem readHeader_ok_inv (src t : RState) (h : Header) (hok : readHeader src = (.ok h, t)) :
    ∃ s entries s', readExact 4 src = (.ok [0x4F, 0x62, 0x6A, 0x01], s) ∧
      metaDe s = (.ok (.map entries), s') ∧ (∃ sy, readExact 16 s' = (.ok sy, t) ∧ h.sync = sy) := by
  have hok0 := hok
  unfold readHeader at hok
  split at hok
  · cases hok
  · rename_i m s h4
    split at hok
    · cases hok
    · rename_i hm
      have hm' : m = [0x4F, 0x62, 0x6A, 0x01] := Classical.not_not.1 hm
      subst hm'
      cases hmd : metaDe s with
      | mk r s' =>
        have hmd' := hmd
        unfold metaDe at hmd'
        cases r with
        | error e => simp only [hmd'] at hok; cases hok
        | ok o =>
          cases o with
          | map entries =>
            refine ⟨s, entries, s', h4, hmd, ?_⟩
            rw [readHeader_eq src s s' entries h4 hmd] at hok0
            unfold headerTail at hok0
            split at hok0
            · cases hok0
            · split at hok0
              · cases hok0
              · rename_i sy s'' h16
                simp only [Prod.mk.injEq, Except.ok.injEq] at hok0
                obtain ⟨rfl, rfl⟩ := hok0
                exact ⟨sy, h16, rfl⟩
          | _ => simp only [hmd'] at hok; cases hok

/-- **C06 (the header, from the bytes; converse).**  If `readHeader` accepts a slice, then the
    slice is `Obj\x01 ++ body`, and `body` is: a valid layout of a `map<bytes>` holding some entries
    `kvs` (at most 1000) — accepted by the limited decoder, hence by the specification decoder
    `Spec.decode` — followed by the 16 bytes returned as `sync`, followed by exactly what is left
    in the slice.  The entries satisfy the conclusions of `C06_header_accepted`: exactly one
    `avro.schema`, whose value is the schema returned, at most one `avro.codec`, a known codec
    (`"null"` if there is none), and the user metadata are the other entries in file order. -/
theorem C06_header_bytes_accepted (src t : RState) (h : Header)
    (hsl : src.isSlice = true) (hl : src.limit = none) (ha : src.avail = 0)
    (hok : readHeader src = (.ok h, t)) :
    ∃ (kvs : List (String × Bytes)) (body : Bytes) (fuelS : Nat),
      src.rest = ocfMagic ++ body ∧
      Spec.decodeL Limits.impl metaSchema fuelS (.map 1) body = some (metaValue kvs, h.sync ++ t.rest) ∧
      Spec.decode metaSchema fuelS (.map 1) body = some (metaValue kvs, h.sync ++ t.rest) ∧
      h.sync.length = 16 ∧ kvs.length ≤ 1000 ∧ t = { src with rest := t.rest } ∧
      (∃ k, (metaKV kvs).filter (·.1 = schemaKey) = [(k, h.schemaJson)]) ∧
      ((metaKV kvs).filter (·.1 = codecKey)).length ≤ 1 ∧
      knownCodecs.contains h.codec = true ∧
      (((metaKV kvs).filter (·.1 = codecKey)) = [] → h.codec = "null") ∧
      h.userMeta = (metaKV kvs).filter fun e => e.1 ≠ schemaKey ∧ e.1 ≠ codecKey := by
  obtain ⟨s, entries, s', h4, hm, sy, h16, hsy⟩ := readHeader_ok_inv src t h hok
  -- the magic
  have hk4 := readExact_slice_ok hsl hl h4
  rw [readExact_slice hsl hl hk4] at h4
  simp only [Prod.mk.injEq, Except.ok.injEq] at h4
  obtain ⟨hmag, hs⟩ := h4
  have hrest : src.rest = ocfMagic ++ src.rest.drop 4 := by
    rw [ocfMagic, ← hmag, List.take_append_drop]
  have hs_sl : s.isSlice = true := by rw [← hs]; exact hsl
  have hs_l : s.limit = none := by rw [← hs]; exact hl
  have hs_a : s.avail = 0 := by rw [← hs]; simp [ha]
  have hs_r : s.rest = src.rest.drop 4 := by rw [← hs]
  -- the map
  obtain ⟨kvs, fuelS, hdec, ho, hn, _, hs'⟩ := metaDe_sound s s' _ hs_sl hs_l hs_a hm
  simp only [Out.map.injEq] at ho
  subst ho
  have hs'_sl : s'.isSlice = true := by rw [hs']; exact hs_sl
  have hs'_l : s'.limit = none := by rw [hs']; exact hs_l
  -- the marker
  have hk16 := readExact_slice_ok hs'_sl hs'_l h16
  rw [readExact_slice hs'_sl hs'_l hk16] at h16
  simp only [Prod.mk.injEq, Except.ok.injEq] at h16
  obtain ⟨hsy2, ht⟩ := h16
  have hsync : h.sync = s'.rest.take 16 := by rw [hsy, hsy2]
  have htr : t.rest = s'.rest.drop 16 := by rw [← ht]
  have hsplit : s'.rest = h.sync ++ t.rest := by rw [hsync, htr, List.take_append_drop]
  have hacc := C06_header_accepted src s s' t (metaOut kvs) h
    (by rw [readExact_slice hsl hl hk4, hmag, hs]) hm hok
  rw [kvOf_metaOut] at hacc
  rw [hs_r, hsplit] at hdec
  refine ⟨kvs, src.rest.drop 4, fuelS, hrest, hdec,
    C03_decodeL_impl_sub_spec metaSchema fuelS (.map 1) _ _ hdec,
    by rw [hsync, List.length_take]; omega, hn, ?_, hacc⟩
  rw [← ht, hs', ← hs]
  obtain ⟨isS, rest, av, sched, lc, ma, scr, lim⟩ := src
  simp only at ha
  subst ha
  simp

/-! ### Non-vacuity: every hypothesis instantiated on concrete bytes -/

def exSchemaJson : Bytes := [0x22, 0x69, 0x6E, 0x74, 0x22]
def exDeflate : Bytes := [0x64, 0x65, 0x66, 0x6C, 0x61, 0x74, 0x65]
def exSync : Bytes := List.replicate 16 0xAB
def exTail : Bytes := [4, 6, 0xC0]
/-- a first block with a NEGATIVE count (-2, byte size 25): the user key `k ↦ 01 02 03`, then
    `avro.codec ↦ deflate`; a second block of one entry `avro.schema ↦ "int"`; end of map -/
def exLayout : Bytes :=
  [3, 50] ++ ([2, 0x6B, 6, 1, 2, 3] ++ [20] ++ codecKey ++ [14] ++ exDeflate) ++
  [2] ++ ([22] ++ schemaKey ++ [10] ++ exSchemaJson) ++ [0]
def exKvs : List (String × Bytes) :=
  [("k", [1, 2, 3]), ("avro.codec", exDeflate), ("avro.schema", exSchemaJson)]
/-- no codec: two blocks with positive counts, the user key then the schema -/
def exLayoutN : Bytes :=
  [2] ++ [2, 0x6B, 6, 1, 2, 3] ++ [2] ++ ([22] ++ schemaKey ++ [10] ++ exSchemaJson) ++ [0]
def exKvsN : List (String × Bytes) := [("k", [1, 2, 3]), ("avro.schema", exSchemaJson)]

theorem exLay : Spec.decodeL Limits.impl metaSchema 6 (.map 1) (exLayout ++ (exSync ++ exTail)) =
    some (metaValue exKvs, exSync ++ exTail) := by rfl
theorem exLaySpec : Spec.decode metaSchema 6 (.map 1) (exLayout ++ (exSync ++ exTail)) =
    some (metaValue exKvs, exSync ++ exTail) := by rfl
theorem exLayN : Spec.decodeL Limits.impl metaSchema 6 (.map 1) (exLayoutN ++ (exSync ++ exTail)) =
    some (metaValue exKvsN, exSync ++ exTail) := by rfl

/-- `C06_header_bytes_any_order` on it: user key first, schema last, negative block count -/
theorem readHeader_ex :
    readHeader { rest := ocfMagic ++ (exLayout ++ (exSync ++ exTail)) } =
      (.ok { schemaJson := exSchemaJson, codec := "deflate", sync := exSync,
             userMeta := [([0x6B], [1, 2, 3])] }, { rest := exTail }) :=
  C06_header_bytes_any_order { rest := ocfMagic ++ (exLayout ++ (exSync ++ exTail)) } exKvs
    exLayout exSync exTail 6 exSchemaJson exDeflate "\"int\"" "deflate" rfl rfl rfl rfl exLay
    (by decide) (by decide) (by decide +kernel) (by decide +kernel) (by decide +kernel)
    (by decide +kernel) (by decide +kernel)

/-- … and with the hypotheses of `C03_de_refines_spec` -/
example :
    readHeader { rest := ocfMagic ++ (exLayout ++ (exSync ++ exTail)) } =
      (.ok { schemaJson := exSchemaJson, codec := "deflate", sync := exSync,
             userMeta := [([0x6B], [1, 2, 3])] }, { rest := exTail }) :=
  C06_header_bytes_any_order_spec { rest := ocfMagic ++ (exLayout ++ (exSync ++ exTail)) } exKvs
    exLayout exSync exTail 6 6 exSchemaJson exDeflate "\"int\"" "deflate" rfl rfl rfl rfl exLaySpec
    (by rw [exLay]; rfl)
    (by decide) (by decide) (by decide +kernel) (by decide +kernel) (by decide +kernel)
    (by decide +kernel) (by decide +kernel)

/-- `C06_header_bytes_any_order_no_codec` -/
example :
    readHeader { rest := ocfMagic ++ (exLayoutN ++ (exSync ++ exTail)) } =
      (.ok { schemaJson := exSchemaJson, codec := "null", sync := exSync,
             userMeta := [([0x6B], [1, 2, 3])] }, { rest := exTail }) :=
  C06_header_bytes_any_order_no_codec { rest := ocfMagic ++ (exLayoutN ++ (exSync ++ exTail)) }
    exKvsN exLayoutN exSync exTail 6 exSchemaJson "\"int\"" rfl rfl rfl rfl exLayN
    (by decide) (by decide) (by decide +kernel) (by decide +kernel) (by decide +kernel)

/-- `C06_header_bytes_accepted` on the accepted header above -/
example : ∃ (kvs : List (String × Bytes)) (body : Bytes) (fuelS : Nat),
      ocfMagic ++ (exLayout ++ (exSync ++ exTail)) = ocfMagic ++ body ∧
      Spec.decodeL Limits.impl metaSchema fuelS (.map 1) body = some (metaValue kvs, exSync ++ exTail) ∧
      Spec.decode metaSchema fuelS (.map 1) body = some (metaValue kvs, exSync ++ exTail) ∧
      exSync.length = 16 ∧ kvs.length ≤ 1000 ∧ (⟨true, exTail, 0, [], 1, 536870912, 0, none⟩ : RState) =
        { rest := exTail } ∧
      (∃ k, (metaKV kvs).filter (·.1 = schemaKey) = [(k, exSchemaJson)]) ∧
      ((metaKV kvs).filter (·.1 = codecKey)).length ≤ 1 ∧
      knownCodecs.contains "deflate" = true ∧
      (((metaKV kvs).filter (·.1 = codecKey)) = [] → "deflate" = "null") ∧
      [([0x6B], [1, 2, 3])] = (metaKV kvs).filter fun e => e.1 ≠ schemaKey ∧ e.1 ≠ codecKey :=
  C06_header_bytes_accepted _ _ _ rfl rfl rfl readHeader_ex

/-! ### The two limits that come through as hypotheses are necessary -/

def isHeaderErr : Except InitErr Header → Bool
  | .error .header => true
  | _ => false

/-- number of entries and remainder of a decoded map -/
def mapShape : Option (Value × Bytes) → Option (Nat × Bytes)
  | some (.map es, r) => some (es.length, r)
  | _ => none

/-- one block of 1001 entries: the schema, then 1000 entries with the empty key and the empty
    value (user metadata) -/
def bigLayout : Bytes :=
  [0xD2, 0x0F] ++ ([22] ++ schemaKey ++ [10] ++ exSchemaJson) ++ List.replicate 2000 0 ++ [0]

/-- **`hn` is necessary** (`max_seq_size = 1000` of the header reader, a documented limit of the
    crate): a header whose metadata map is a valid layout of 1001 entries — one `avro.schema`, no
    codec, 1000 user entries — followed by a marker, is REJECTED by `readHeader`, while both
    decoders of the specification accept the layout. -/
theorem C06_header_bytes_needs_max_seq :
    mapShape (Spec.decodeL Limits.impl metaSchema 1010 (.map 1) (bigLayout ++ (exSync ++ exTail))) =
      some (1001, exSync ++ exTail) ∧
    mapShape (Spec.decode metaSchema 1010 (.map 1) (bigLayout ++ (exSync ++ exTail))) =
      some (1001, exSync ++ exTail) ∧
    isHeaderErr (readHeader { rest := ocfMagic ++ (bigLayout ++ (exSync ++ exTail)) }).1 = true := by
  refine ⟨by decide +kernel, by decide +kernel, by decide +kernel⟩

/-- … and the limit is sharp: the same file with 1000 entries (999 user entries) is accepted -/
theorem C06_header_bytes_max_seq_sharp :
    isHeaderErr (readHeader { rest := ocfMagic ++ (([0xD0, 0x0F] ++
      ([22] ++ schemaKey ++ [10] ++ exSchemaJson) ++ List.replicate 1998 0 ++ [0]) ++
        (exSync ++ exTail)) }).1 = false := by decide +kernel

/-- the layout `exLayoutN` with its first count (1) written as an 11-byte varint -/
def longVarintLayout : Bytes :=
  [0x82, 0x80, 0x80, 0x80, 0x80, 0x80, 0x80, 0x80, 0x80, 0x80, 0x00] ++ [2, 0x6B, 6, 1, 2, 3] ++
    [2] ++ ([22] ++ schemaKey ++ [10] ++ exSchemaJson) ++ [0]

/-- **`hlim` is necessary** (varints of at most ten bytes, the limit of `C03_de_refines_spec`):
    the specification decoder accepts this layout, with the entries `exKvsN`; `readHeader` rejects
    the file. -/
theorem C06_header_bytes_needs_varint_limit :
    Spec.decode metaSchema 6 (.map 1) (longVarintLayout ++ (exSync ++ exTail)) =
      some (metaValue exKvsN, exSync ++ exTail) ∧
    Spec.decodeL Limits.impl metaSchema 6 (.map 1) (longVarintLayout ++ (exSync ++ exTail)) = none ∧
    isHeaderErr (readHeader { rest := ocfMagic ++ (longVarintLayout ++ (exSync ++ exTail)) }).1 = true := by
  refine ⟨by rfl, by rfl, by decide +kernel⟩

end Avro.Theorems
