import AvroModel.Lemmas.RecordOrder
/-
C13: the bytes of a record do not depend on the order in which its fields are presented.
`field_idx` is sound, and the reordering machine keeps the invariant "the writer holds the fields
before `current` in schema order; every occupied slot is a later field's exact encoding".
-/
namespace Avro.Theorems
open Avro Avro.Impl

/-- C13.4: `field_idx` returns the index of a field with the requested name, never before the
    field currently waited for. -/
theorem C13_fieldIdx_sound {fields : List (String × Nat)} {rs : RecordState} {name : String}
    {i : Nat} (h : fieldIdx fields rs name = .ok i) :
    (∃ k, fields[i]? = some (name, k)) ∧ i ≥ rs.current :=
  fieldIdx_sound h

/-- C13.5 (flush loop, as stated): between two fields the loop has nothing to do and keeps the
    invariant. -/
theorem C13_flush_invariant (fields : List (String × Nat)) (enc : Nat → Bytes) (base : Bytes)
    (fuel : Nat) (rs : RecordState) (s : SerState) (rs' : RecordState) (s' : SerState)
    (_hb : s.budget = none) (hinv : RecInv fields enc base rs s)
    (hok : flushBuffered fuel rs s = (.ok rs', s')) : RecInv fields enc base rs' s' := by
  cases fuel with
  | zero => simp [flushBuffered] at hok; obtain ⟨h1, h2⟩ := hok; subst h1 h2; exact hinv
  | succ fuel =>
    unfold flushBuffered at hok
    split at hok
    · rename_i b hb
      have := (hinv.2.1 _ b hb).1
      omega
    · simp at hok; obtain ⟨h1, h2⟩ := hok; subst h1 h2; exact hinv

/-- C13.5 (flush loop, the form that does the work): entered right after field `current-1` was
    written, i.e. with the weak invariant `RecInvW` (the slot at `current` may be occupied), with
    an unlimited writer and fuel covering the slots, the loop succeeds, re-establishes `RecInv`,
    only advances `current`, and forgets no presented field. -/
theorem C13_flush_establishes (fields : List (String × Nat)) (enc : Nat → Bytes) (base : Bytes)
    (fuel : Nat) (rs : RecordState) (s : SerState) (hb : s.budget = none)
    (hfuel : rs.buffers.slots.length ≤ fuel + rs.current) (hinv : RecInvW fields enc base rs s) :
    ∃ rs' s', flushBuffered fuel rs s = (.ok rs', s') ∧ s'.budget = none ∧
      RecInv fields enc base rs' s' ∧ rs.current ≤ rs'.current ∧
      ∀ i, RecDone rs i → RecDone rs' i := by
  obtain ⟨rs', s', h1, h2, h3, h4⟩ := flushBuffered_inv fields enc base fuel rs s hb hfuel hinv
  exact ⟨rs', s', h1, h2, h3, h4, flushBuffered_done fuel rs s rs' (by rw [h1])⟩

/-- C13.5 (`serialize_field`): with a value serializer that appends exactly `enc idx` to an
    unlimited writer, `recordValue` preserves the invariant and marks field `idx` presented. -/
theorem C13_recordValue_invariant (fields : List (String × Nat)) (enc : Nat → Bytes) (base : Bytes)
    (S : Schema) (rs : RecordState) (idx : Nat) (serv : Node → SerM Unit) (s : SerState)
    (rs' : RecordState) (s' : SerState)
    (hb : s.budget = none) (hidx : rs.current ≤ idx)
    (hserv : ∀ node s, s.budget = none →
      ∃ s', serv node s = (.ok (), s') ∧ s'.out = s.out ++ enc idx ∧ s'.budget = none)
    (hinv : RecInv fields enc base rs s)
    (hok : recordValue S fields rs idx serv s = (.ok rs', s')) :
    RecInv fields enc base rs' s' ∧ s'.budget = none ∧
      (∀ i, RecDone rs i ∨ i = idx → RecDone rs' i) :=
  recordValue_inv fields enc base S rs idx serv s rs' s' hb hidx hserv hinv hok

/-- C13.6, explicit form.  A record with pairwise distinct field names whose field value `i`
    serializes on its own (from the empty unlimited writer) to `enc i`: presenting all fields as
    a struct in any order `order` (a permutation of `0 .. n-1`; `presOf` pairs each index with its
    schema name and value) succeeds and appends exactly `enc 0 ++ ... ++ enc (n-1)`, on any
    unlimited writer and any clean pool.  Field values are arbitrary (not only leaves): the
    side-buffer run of a value is related to its in-place run by the simulation of
    `Lemmas/SerSim.lean`. -/
theorem C13_record_bytes (ext : Ext) (allowSlow : Bool) (S : Schema) (nm : Name)
    (fields : List (String × Nat)) (enc : Nat → Bytes) (vals : Nat → SV)
    (hnd : (fields.map (·.1)).Nodup)
    (hkeys : ∀ f ∈ fields, ∃ node, S[f.2]? = some node)
    (henc : ∀ i f node, fields[i]? = some f → S[f.2]? = some node →
      ∃ t, ser ext allowSlow S node (vals i) {} = (.ok (), t) ∧ t.out = enc i)
    (name : String) (order : List Nat) (hperm : order.Perm (List.range fields.length))
    (s : SerState) (hb : s.budget = none) (hc : PoolClean s.pool) :
    ∃ s', ser ext allowSlow S (.record nm fields) (.struct name (presOf fields vals order)) s =
        (.ok (), s') ∧
      s'.out = s.out ++ (List.range fields.length).flatMap enc ∧ s'.budget = none ∧
      PoolClean s'.pool :=
  ser_record_any_order ext allowSlow S nm fields enc vals hnd hkeys henc name order hperm s hb hc

/-- C13.6: any permutation of a struct presentation yields the same result and the same output
    bytes as the in-order presentation `presOf fields vals (List.range n)`, provided every field
    value serializes successfully on its own. -/
theorem C13_order_independent (ext : Ext) (allowSlow : Bool) (S : Schema) (nm : Name)
    (fields : List (String × Nat)) (vals : Nat → SV)
    (hnd : (fields.map (·.1)).Nodup)
    (hkeys : ∀ f ∈ fields, ∃ node, S[f.2]? = some node)
    (hvals : ∀ i f node, fields[i]? = some f → S[f.2]? = some node →
      ∃ t, ser ext allowSlow S node (vals i) {} = (.ok (), t))
    (name : String) (order : List Nat) (hperm : order.Perm (List.range fields.length))
    (s : SerState) (hb : s.budget = none) (hc : PoolClean s.pool) :
    (ser ext allowSlow S (.record nm fields) (.struct name (presOf fields vals order)) s).1 =
      .ok () ∧
    (ser ext allowSlow S (.record nm fields)
      (.struct name (presOf fields vals (List.range fields.length))) s).1 = .ok () ∧
    (ser ext allowSlow S (.record nm fields) (.struct name (presOf fields vals order)) s).2.out =
      (ser ext allowSlow S (.record nm fields)
        (.struct name (presOf fields vals (List.range fields.length))) s).2.out := by
  let enc : Nat → Bytes := fun i =>
    match fields[i]? with
    | some f =>
      match S[f.2]? with
      | some node => (ser ext allowSlow S node (vals i) {}).2.out
      | none => []
    | none => []
  have henc : ∀ i f node, fields[i]? = some f → S[f.2]? = some node →
      ∃ t, ser ext allowSlow S node (vals i) {} = (.ok (), t) ∧ t.out = enc i := by
    intro i f node hf hnode
    obtain ⟨t, ht⟩ := hvals i f node hf hnode
    exact ⟨t, ht, by simp only [enc, hf, hnode, ht]⟩
  obtain ⟨s1, e1, o1, _⟩ := C13_record_bytes ext allowSlow S nm fields enc vals hnd hkeys henc
    name order hperm s hb hc
  obtain ⟨s2, e2, o2, _⟩ := C13_record_bytes ext allowSlow S nm fields enc vals hnd hkeys henc
    name (List.range fields.length) (List.Perm.refl _) s hb hc
  rw [e1, e2]
  exact ⟨rfl, rfl, by rw [o1, o2]⟩

end Avro.Theorems
