import AvroModel.Lemmas.RecordOrder
/-
C13: the bytes of a record do not depend on the order in which its fields are presented.
`field_idx` is sound, and the reordering machine keeps the invariant "the writer holds the fields
before `current` in schema order; every occupied slot is a later field's exact encoding".
-/
namespace Avro.Theorems
open Avro Avro.Impl

/-- C13.4: `field_idx` returns the index of a field with the requested name, never before the
    field currently waited for. -/
theorem C13_fieldIdx_sound {fields : List (String × Nat)} {rs : RecordState} {name : String}
    {i : Nat} (h : fieldIdx fields rs name = .ok i) :
    (∃ k, fields[i]? = some (name, k)) ∧ i ≥ rs.current :=
  fieldIdx_sound h

/-- C13.5 (flush loop between two fields): under the full invariant `RecInv` — the slot of the
    field currently waited for is empty — the loop has nothing to do: it succeeds, whatever the
    fuel and the writer, and returns the machine and the writer UNCHANGED (so it trivially keeps
    the invariant; the former statement of this name assumed the run `= (.ok rs', s')` and
    concluded `RecInv … rs' s'` only).  The form that does work is `C13_flush_establishes`. -/
theorem C13_flush_invariant (fields : List (String × Nat)) (enc : Nat → Bytes) (base : Bytes)
    (fuel : Nat) (rs : RecordState) (s : SerState) (hinv : RecInv fields enc base rs s) :
    flushBuffered fuel rs s = (.ok rs, s) := by
  cases fuel with
  | zero => simp [flushBuffered]
  | succ fuel =>
    unfold flushBuffered
    split
    · rename_i b hb
      have := (hinv.2.1 _ b hb).1
      omega
    · rfl

/-- C13.5 (flush loop, the form that does the work): entered right after field `current-1` was
    written, i.e. with the weak invariant `RecInvW` (the slot at `current` may be occupied), with
    an unlimited writer and fuel covering the slots, the loop succeeds, re-establishes `RecInv`,
    only advances `current`, and forgets no presented field. -/
theorem C13_flush_establishes (fields : List (String × Nat)) (enc : Nat → Bytes) (base : Bytes)
    (fuel : Nat) (rs : RecordState) (s : SerState) (hb : s.budget = none)
    (hfuel : rs.buffers.slots.length ≤ fuel + rs.current) (hinv : RecInvW fields enc base rs s) :
    ∃ rs' s', flushBuffered fuel rs s = (.ok rs', s') ∧ s'.budget = none ∧
      RecInv fields enc base rs' s' ∧ rs.current ≤ rs'.current ∧
      ∀ i, RecDone rs i → RecDone rs' i := by
  obtain ⟨rs', s', h1, h2, h3, h4⟩ := flushBuffered_inv fields enc base fuel rs s hb hfuel hinv
  exact ⟨rs', s', h1, h2, h3, h4, flushBuffered_done fuel rs s rs' (by rw [h1])⟩

/-- C13.5 (`serialize_field`): with a value serializer that, ON THE NODE OF FIELD `idx` and on an
    unlimited writer WITH A CLEAN POOL, appends exactly `enc idx`, `recordValue` preserves the
    invariant and marks field `idx` presented.  (The former statement asked this of `serv` on
    EVERY node and EVERY unlimited state, which the serializer the machine is really run with —
    `fun node => ser ext allowSlow S node v` — never satisfies: it fails on `union []`, and panics
    on a dirty pool.  The present hypothesis is met by the real `ser`:
    `C13_recordValue_invariant_ser`.) -/
theorem C13_recordValue_invariant (fields : List (String × Nat)) (enc : Nat → Bytes) (base : Bytes)
    (S : Schema) (rs : RecordState) (idx : Nat) (serv : Node → SerM Unit) (s : SerState)
    (rs' : RecordState) (s' : SerState)
    (hb : s.budget = none) (hc : PoolClean s.pool) (hidx : rs.current ≤ idx)
    (hserv : ∀ f node s, fields[idx]? = some f → S[f.2]? = some node → s.budget = none →
      PoolClean s.pool →
      ∃ s', serv node s = (.ok (), s') ∧ s'.out = s.out ++ enc idx ∧ s'.budget = none)
    (hinv : RecInv fields enc base rs s)
    (hok : recordValue S fields rs idx serv s = (.ok rs', s')) :
    RecInv fields enc base rs' s' ∧ s'.budget = none ∧
      (∀ i, RecDone rs i ∨ i = idx → RecDone rs' i) :=
  recordValue_inv_gen PoolClean
    (fun s buf s1 hp hcl => by
      obtain ⟨b', s1', e1, _, _, _, c1⟩ := popBuffer_op s hcl
      rw [hp] at e1
      simp only [Prod.mk.injEq, Except.ok.injEq] at e1
      rw [e1.2]; exact c1)
    fields enc base S rs idx serv s rs' s' hb hc hidx hserv hinv hok

/-- The same for the value serializer the machine is really run with (`serFields` calls
    `recordValue … (fun node => ser ext allowSlow S node v)`): it is enough that the value
    serializes ON ITS OWN (from the empty unlimited writer) on the node of field `idx`, to
    `enc idx`. -/
theorem C13_recordValue_invariant_ser (ext : Ext) (allowSlow : Bool)
    (fields : List (String × Nat)) (enc : Nat → Bytes) (base : Bytes)
    (S : Schema) (rs : RecordState) (idx : Nat) (v : SV) (s : SerState)
    (rs' : RecordState) (s' : SerState)
    (hb : s.budget = none) (hc : PoolClean s.pool) (hidx : rs.current ≤ idx)
    (hv : ∀ f node, fields[idx]? = some f → S[f.2]? = some node →
      ∃ t, ser ext allowSlow S node v {} = (.ok (), t) ∧ t.out = enc idx)
    (hinv : RecInv fields enc base rs s)
    (hok : recordValue S fields rs idx (fun node => ser ext allowSlow S node v) s = (.ok rs', s')) :
    RecInv fields enc base rs' s' ∧ s'.budget = none ∧
      (∀ i, RecDone rs i ∨ i = idx → RecDone rs' i) :=
  C13_recordValue_invariant fields enc base S rs idx (fun node => ser ext allowSlow S node v) s rs' s'
    hb hc hidx
    (fun f node s0 hf hnode hb0 hc0 => by
      obtain ⟨t, ht, hto⟩ := hv f node hf hnode
      obtain ⟨s1, h1, h2, h3⟩ := ser_appends ext allowSlow S node v t ht s0 hb0 hc0
      exact ⟨s1, h1, by rw [h2, hto], h3⟩)
    hinv hok

/-- C13.6, explicit form.  A record with pairwise distinct field names whose field value `i`
    serializes on its own (from the empty unlimited writer) to `enc i`: presenting all fields as
    a struct in any order `order` (a permutation of `0 .. n-1`; `presOf` pairs each index with its
    schema name and value) succeeds and appends exactly `enc 0 ++ ... ++ enc (n-1)`, on any
    unlimited writer and any clean pool.  Field values are arbitrary (not only leaves): the
    side-buffer run of a value is related to its in-place run by the simulation of
    `Lemmas/SerSim.lean`. -/
theorem C13_record_bytes (ext : Ext) (allowSlow : Bool) (S : Schema) (nm : Name)
    (fields : List (String × Nat)) (enc : Nat → Bytes) (vals : Nat → SV)
    (hnd : (fields.map (·.1)).Nodup)
    (hkeys : ∀ f ∈ fields, ∃ node, S[f.2]? = some node)
    (henc : ∀ i f node, fields[i]? = some f → S[f.2]? = some node →
      ∃ t, ser ext allowSlow S node (vals i) {} = (.ok (), t) ∧ t.out = enc i)
    (name : String) (order : List Nat) (hperm : order.Perm (List.range fields.length))
    (s : SerState) (hb : s.budget = none) (hc : PoolClean s.pool) :
    ∃ s', ser ext allowSlow S (.record nm fields) (.struct name (presOf fields vals order)) s =
        (.ok (), s') ∧
      s'.out = s.out ++ (List.range fields.length).flatMap enc ∧ s'.budget = none ∧
      PoolClean s'.pool :=
  ser_record_any_order ext allowSlow S nm fields enc vals hnd hkeys henc name order hperm s hb hc

/-- C13.6: any permutation of a struct presentation yields the same result and the same output
    bytes as the in-order presentation `presOf fields vals (List.range n)`, provided every field
    value serializes successfully on its own. -/
theorem C13_order_independent (ext : Ext) (allowSlow : Bool) (S : Schema) (nm : Name)
    (fields : List (String × Nat)) (vals : Nat → SV)
    (hnd : (fields.map (·.1)).Nodup)
    (hkeys : ∀ f ∈ fields, ∃ node, S[f.2]? = some node)
    (hvals : ∀ i f node, fields[i]? = some f → S[f.2]? = some node →
      ∃ t, ser ext allowSlow S node (vals i) {} = (.ok (), t))
    (name : String) (order : List Nat) (hperm : order.Perm (List.range fields.length))
    (s : SerState) (hb : s.budget = none) (hc : PoolClean s.pool) :
    (ser ext allowSlow S (.record nm fields) (.struct name (presOf fields vals order)) s).1 =
      .ok () ∧
    (ser ext allowSlow S (.record nm fields)
      (.struct name (presOf fields vals (List.range fields.length))) s).1 = .ok () ∧
    (ser ext allowSlow S (.record nm fields) (.struct name (presOf fields vals order)) s).2.out =
      (ser ext allowSlow S (.record nm fields)
        (.struct name (presOf fields vals (List.range fields.length))) s).2.out := by
  let enc : Nat → Bytes := fun i =>
    match fields[i]? with
    | some f =>
      match S[f.2]? with
      | some node => (ser ext allowSlow S node (vals i) {}).2.out
      | none => []
    | none => []
  have henc : ∀ i f node, fields[i]? = some f → S[f.2]? = some node →
      ∃ t, ser ext allowSlow S node (vals i) {} = (.ok (), t) ∧ t.out = enc i := by
    intro i f node hf hnode
    obtain ⟨t, ht⟩ := hvals i f node hf hnode
    exact ⟨t, ht, by simp only [enc, hf, hnode, ht]⟩
  obtain ⟨s1, e1, o1, _⟩ := C13_record_bytes ext allowSlow S nm fields enc vals hnd hkeys henc
    name order hperm s hb hc
  obtain ⟨s2, e2, o2, _⟩ := C13_record_bytes ext allowSlow S nm fields enc vals hnd hkeys henc
    name (List.range fields.length) (List.Perm.refl _) s hb hc
  rw [e1, e2]
  exact ⟨rfl, rfl, by rw [o1, o2]⟩

end Avro.Theorems
