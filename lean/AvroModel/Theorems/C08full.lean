import AvroModel.Theorems.C08
import AvroModel.Theorems.C08pcf
import AvroModel.Theorems.C18
import AvroModel.Theorems.C08spec
import AvroModel.Theorems.C08injective
/-
C08 — all parts together: the checksum (`C08.lean`, every byte string), the canonical-form
writer (`C08pcf.lean`), and the composition "fingerprint = little-endian CRC-64-AVRO of the
canonical form" (`C18_fingerprint_is_crc`, the fingerprint being the one stored at freeze time),
and the canonical form written by the crate = the specification's transformation of the JSON
document (`C08spec.lean`: `Spec/Pcf.lean` transcribes the specification's rules on the document;
`C08_pcf_is_spec` for every accepted document without forward reference).
-/
