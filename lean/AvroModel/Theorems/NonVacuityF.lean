import AvroModel.Theorems.C13full
import AvroModel.Theorems.C14
import AvroModel.Theorems.C20full
import AvroModel.Lemmas.SchemaRender
/-
Non-vacuity audit, area F: properties C13 (record field reordering machine), C14 (buffer pool
reuse / no assert panics), C20 (derive macro / SchemaBuilder).

Every headline theorem examined is instantiated below on a concrete, non-trivial instance with the
REAL model functions (`ser`, `recordValue`, `flushBuffered`, `schemaMut`, `findOrBuild`,
`hasShape`), all hypotheses proved (`decide +kernel` evaluates the real functions in the kernel).

Findings (each proved here):
* `recordValue_invariant_hserv_unmeetable` (REPAIRED): the hypothesis `hserv` the registered theorem
  `C13_recordValue_invariant` used to have (every node, every unlimited state; still that of the
  lemma `recordValue_inv`) is false for the value serializer the machine is really run with
  (`fun node => ser … node v`), for EVERY value `v`.  The theorem now has the hypothesis of
  `recordValue_inv_gen` at `C := PoolClean` (the field's node, clean pools), and
  `C13_recordValue_invariant_ser` is instantiated below with the real `ser` on a nested record.
* `C13_flush_invariant` (REPAIRED) used to assume the run `= (.ok rs', s')` and `RecInv`, under which
  the loop does nothing; it now states exactly that (`flushBuffered fuel rs s = (.ok rs, s)`),
  instance below; the working form is `C13_flush_establishes`.
* `namesWf_unmeetable_by_finite_hash` / `nameInj_unmeetable_by_finite_hash` /
  `driverHash_not_namesWf`: the GLOBAL `NamesWf.hash_inj` (and `NameInj` for any program with a
  generic record) cannot be met by a hash with finitely many values - neither the crate's 64-bit
  SipHash nor the hash the driver runs the model with (`"H" ++ index`).  It is met by `hashDemo`.
  REPAIRED: `C20_names_distinct` / `C20_names_distinct_of_nameInj` now ask injectivity only on the
  (generic-record) keys the build registers (`NamesWfOn … (genericRecordKeys …)`, `NameInjOn …
  (· ∈ builtKeys …)`), a decidable hypothesis; it is met by the driver's hash
  (`driverHash_injOn`, `progF_namesWfOn_driverHash`, `names_distinct_driverHash_closed`, and for
  any program `names_distinct_driverHash`).  The global forms are the corollaries
  `C20_names_distinct_global`, `C20_names_distinct_of_nameInj_global`.
* a dangling union branch key reads as `.null` (`branchNodes`: `S[k]?.getD .null`), so a field
  whose node is `union [99]` is "nullable" and omitting it "succeeds" (example below); harmless for
  frozen schemas (no dangling keys).
-/
namespace Avro.Theorems

namespace NVF
open Avro Avro.Impl

/-! ## Helpers -/

instance : DecidableEq (Except SerErr Unit)
  | .ok _, .ok _ => isTrue rfl
  | .ok _, .error _ => isFalse (fun h => by cases h)
  | .error _, .ok _ => isFalse (fun h => by cases h)
  | .error a, .error b =>
    if h : a = b then isTrue (by rw [h]) else isFalse (fun h' => by cases h'; exact h rfl)

theorem exists_of_fst_ok {m : SerM Unit} {s : SerState} (h : (m s).1 = .ok ()) :
    ∃ t, m s = (.ok (), t) := ⟨(m s).2, by rw [← h]⟩

/-- The "every presented value serializes on its own" hypothesis of the C13 theorems, reduced to
    a closed decidable statement about the REAL `ser`. -/
theorem hvals_of_all (ext : Ext) (allowSlow : Bool) (S : Schema) (fields : List (String × Nat))
    (vals : Nat → SV) (order : List Nat)
    (h : (order.all fun i =>
      match fields[i]? with
      | some f =>
        (match S[f.2]? with
          | some node => decide ((ser ext allowSlow S node (vals i) {}).1 = .ok ())
          | none => true)
      | none => true) = true) :
    ∀ i ∈ order, ∀ f node, fields[i]? = some f → S[f.2]? = some node →
      ∃ t, ser ext allowSlow S node (vals i) {} = (.ok (), t) := by
  intro i hi f node hf hn
  have := List.all_eq_true.mp h i hi
  simp only [hf, hn, decide_eq_true_eq] at this
  exact exists_of_fst_ok this

theorem hnull_of_all (S : Schema) (fields : List (String × Nat)) (order : List Nat)
    (h : ∀ i : Fin fields.length, i.1 ∈ order ∨ fieldNullable S fields[i].2 = true) :
    ∀ i f, fields[i]? = some f → i ∉ order → fieldNullable S f.2 = true := by
  intro i f hf hi
  obtain ⟨hlt, rfl⟩ := List.getElem?_eq_some_iff.mp hf
  rcases h ⟨i, hlt⟩ with h | h
  · exact (hi h).elim
  · exact h

theorem hkeys_of_all (S : Schema) (fields : List (String × Nat))
    (h : (fields.all fun f => (S[f.2]?).isSome) = true) :
    ∀ f ∈ fields, ∃ node, S[f.2]? = some node := by
  intro f hf
  have := List.all_eq_true.mp h f hf
  exact Option.isSome_iff_exists.mp this

/-! ## C13 — a record with a nullable union, an array and a NESTED RECORD field

`R { a : int, b : ["null","string"], c : array<int>, d : I }`, `I { x : long, y : boolean }`.
The value of `d` is itself presented out of order, so serializing it (into a side buffer of the
outer record when `d` is presented early) pops a super-buffer and a buffer from the shared pool. -/

def extD : Ext :=
  { asF32 := fun _ => 0, decFromF64 := fun _ => none, decParse := fun _ => none,
    decRescale := fun d _ => d }
def nmR : Name := ⟨"R", "R", none⟩
def nmI : Name := ⟨"I", "I", none⟩
def fldsI : List (String × Nat) := [("x", 7), ("y", 8)]
def flds : List (String × Nat) := [("a", 1), ("b", 2), ("c", 5), ("d", 6)]
def S : Schema := #[.record nmR flds, .int, .union [3, 4], .null, .string, .array 1,
  .record nmI fldsI, .long, .boolean]

/-- `d` out of order inside as well. -/
def dVal : SV := .struct "I" [("y", .bool true), ("x", .int .i64 5)]
def cVal : SV := .seq (some 2) [.int .i32 1, .int .i32 2]

/-- Presentation 1 (struct): `d`, `c`, `a` — `b` omitted. -/
def vals1 : Nat → SV
  | 0 => .int .i32 3
  | 2 => cVal
  | 3 => dVal
  | _ => .unit

/-- Presentation 2 (map): `c`, `b = None`, `a`, `d`. -/
def vals2 : Nat → SV
  | 0 => .int .i32 3
  | 1 => .none
  | 2 => cVal
  | 3 => dVal
  | _ => .unit

/-- All four fields, `b = Some("x")`. -/
def valsAll : Nat → SV
  | 0 => .int .i32 3
  | 1 => .some (.str "x")
  | 2 => cVal
  | 3 => dVal
  | _ => .unit

theorem flds_nodup : (flds.map (·.1)).Nodup := by decide
theorem flds_keys : ∀ f ∈ flds, ∃ node, S[f.2]? = some node := hkeys_of_all S flds (by decide)

theorem vals1_ok : ∀ i ∈ [3, 2, 0], ∀ f node, flds[i]? = some f → S[f.2]? = some node →
    ∃ t, ser extD false S node (vals1 i) {} = (.ok (), t) :=
  hvals_of_all extD false S flds vals1 _ (by decide +kernel)

theorem vals2_ok : ∀ i ∈ [2, 1, 0, 3], ∀ f node, flds[i]? = some f → S[f.2]? = some node →
    ∃ t, ser extD false S node (vals2 i) {} = (.ok (), t) :=
  hvals_of_all extD false S flds vals2 _ (by decide +kernel)

theorem valsAll_ok : ∀ i f node, flds[i]? = some f → S[f.2]? = some node →
    ∃ t, ser extD false S node (valsAll i) {} = (.ok (), t) := by
  intro i f node hf hn
  have hlt : i < flds.length := (List.getElem?_eq_some_iff.mp hf).1
  exact hvals_of_all extD false S flds valsAll [0, 1, 2, 3] (by decide +kernel) i
    (by have : i < 4 := hlt; simp only [List.mem_cons, List.not_mem_nil, or_false]; omega) f node hf hn

/-- The nested value does use the pool: serialized from the empty state it leaves a buffer and a
    super-buffer behind. -/
example : (ser extD false S (.record nmI fldsI) dVal {}).2.pool =
    { buffers := [{ cap := true, data := [] }], superBuffers := [{ cap := true, slots := [] }] } := by
  decide +kernel

/-- A clean, non-empty pool and a non-empty unlimited writer to start from. -/
def s0 : SerState :=
  { out := [0xAA], budget := none,
    pool := { buffers := [{ cap := true, data := [] }, { cap := false, data := [] }],
              superBuffers := [{ cap := true, slots := [] }] } }
theorem s0_clean : PoolClean s0.pool := by simp [PoolClean, s0]

example : presOf flds vals1 [3, 2, 0] = [("d", dVal), ("c", cVal), ("a", .int .i32 3)] := rfl
example : strKeyEntries (presOf flds vals2 [2, 1, 0, 3]) =
    [(.str "c", cVal), (.str "b", .none), (.str "a", .int .i32 3), (.str "d", dVal)] := rfl

/-- `C13_presentation_independent`, struct `{d, c, a}` against map `{c, b: None, a, d}`. -/
theorem pres_indep :
    (ser extD false S (.record nmR flds) (.struct "R" (presOf flds vals1 [3, 2, 0])) s0).1 = .ok () ∧
    (ser extD false S (.record nmR flds)
      (.map (some 4) (strKeyEntries (presOf flds vals2 [2, 1, 0, 3]))) s0).1 = .ok () ∧
    (ser extD false S (.record nmR flds) (.struct "R" (presOf flds vals1 [3, 2, 0])) s0).2.out =
      (ser extD false S (.record nmR flds)
        (.map (some 4) (strKeyEntries (presOf flds vals2 [2, 1, 0, 3]))) s0).2.out ∧
    (ser extD false S (.record nmR flds) (.struct "R" (presOf flds vals1 [3, 2, 0])) s0).2.out =
      s0.out ++ (List.range flds.length).flatMap (fieldBytes extD false S flds vals1 [3, 2, 0]) ∧
    PoolClean (ser extD false S (.record nmR flds)
      (.struct "R" (presOf flds vals1 [3, 2, 0])) s0).2.pool ∧
    PoolClean (ser extD false S (.record nmR flds)
      (.map (some 4) (strKeyEntries (presOf flds vals2 [2, 1, 0, 3]))) s0).2.pool := by
  have h := C13_presentation_independent extD false S nmR flds flds_nodup flds_keys
    (.struct "R") (.map (some 4)) vals1 vals2 [3, 2, 0] [2, 1, 0, 3] (by decide) (by decide)
    (by decide) (by decide) vals1_ok vals2_ok
    (hnull_of_all S flds _ (by decide)) (hnull_of_all S flds _ (by decide))
    (by intro i h1 h2
        simp only [List.mem_cons, List.not_mem_nil, or_false] at h1
        rcases h1 with rfl | rfl | rfl <;> rfl)
    (by intro i h1 h2
        simp only [List.mem_cons, List.not_mem_nil, or_false] at h1
        rcases h1 with rfl | rfl | rfl <;> exact (h2 (by decide)).elim)
    (by intro i h1 h2
        simp only [List.mem_cons, List.not_mem_nil, or_false] at h1
        rcases h1 with rfl | rfl | rfl | rfl
        · exact (h2 (by decide)).elim
        · rfl
        · exact (h2 (by decide)).elim
        · exact (h2 (by decide)).elim)
    s0 rfl s0_clean
  simp only [RecPresKind.sv] at h
  exact h

/-- … and what the common bytes are (direct kernel evaluation of the real `ser`): prefix, `a = 3`,
    `b` null branch, `c = [1, 2]` as one block, `d = {x: 5, y: true}` in schema order. -/
example :
    (ser extD false S (.record nmR flds) (.struct "R" (presOf flds vals1 [3, 2, 0])) s0).2.out =
      [0xAA, 6, 0, 4, 2, 4, 0, 10, 1] ∧
    (ser extD false S (.record nmR flds)
      (.map (some 4) (strKeyEntries (presOf flds vals2 [2, 1, 0, 3]))) s0).2.out =
      [0xAA, 6, 0, 4, 2, 4, 0, 10, 1] := by decide +kernel

/-- `C13_order_independent` / `C13_record_bytes`: all four fields, order `d, b, a, c`. -/
theorem order_indep :
    (ser extD false S (.record nmR flds) (.struct "R" (presOf flds valsAll [3, 1, 0, 2])) s0).1 = .ok () ∧
    (ser extD false S (.record nmR flds)
      (.struct "R" (presOf flds valsAll (List.range flds.length))) s0).1 = .ok () ∧
    (ser extD false S (.record nmR flds) (.struct "R" (presOf flds valsAll [3, 1, 0, 2])) s0).2.out =
      (ser extD false S (.record nmR flds)
        (.struct "R" (presOf flds valsAll (List.range flds.length))) s0).2.out :=
  C13_order_independent extD false S nmR flds valsAll flds_nodup flds_keys valsAll_ok "R" [3, 1, 0, 2]
    (by decide) s0 rfl s0_clean

/-- `C13_kind_independent` / `C13_structVariant_presentation` on the same record: the struct-variant
    presentation `{d, c, a}` has the result AND final state of the struct presentation (any state:
    here a finite budget that is overrun). -/
example : ser extD false S (.record nmR flds)
      (.structVariant "E" 1 "V" (presOf flds vals1 [3, 2, 0])) { s0 with budget := some 3 } =
    ser extD false S (.record nmR flds) (.struct "R" (presOf flds vals1 [3, 2, 0]))
      { s0 with budget := some 3 } :=
  C13_kind_independent extD false S nmR flds (.structVariant "E" 1 "V") "R" _ _

example : (ser extD false S (.record nmR flds)
      (.structVariant "E" 1 "V" (presOf flds vals1 [3, 2, 0])) { s0 with budget := some 3 }).1 =
    .error .io := by decide +kernel

/-- The encodings, explicitly. -/
def encAll : Nat → Bytes
  | 0 => [6]
  | 1 => [2, 2, 120]
  | 2 => [4, 2, 4, 0]
  | 3 => [10, 1]
  | _ => []

/-- `C13_record_bytes` with explicit encodings (the `henc` hypothesis is about the real `ser`). -/
example : ∃ s', ser extD false S (.record nmR flds) (.struct "R" (presOf flds valsAll [2, 3, 1, 0])) s0 =
      (.ok (), s') ∧
    s'.out = s0.out ++ (List.range flds.length).flatMap encAll ∧ s'.budget = none ∧
    PoolClean s'.pool :=
  C13_record_bytes extD false S nmR flds encAll valsAll flds_nodup flds_keys
    (by
      intro i f node hf hn
      have hlt : i < 4 := (List.getElem?_eq_some_iff.mp hf).1
      obtain ⟨t, ht⟩ := valsAll_ok i f node hf hn
      refine ⟨t, ht, ?_⟩
      have ho : t.out = (ser extD false S node (valsAll i) {}).2.out := by rw [ht]
      rw [ho]
      rcases i with _ | _ | _ | _ | i
      all_goals first
        | omega
        | (simp only [flds, List.getElem?_cons_zero, List.getElem?_cons_succ, Option.some.injEq] at hf
           subst hf
           simp only [S] at hn
           have hn' := Option.some.inj hn
           subst hn'
           decide +kernel))
    "R" [2, 3, 1, 0] (by decide) s0 rfl s0_clean

example : (List.range flds.length).flatMap encAll = [6, 2, 2, 120, 4, 2, 4, 0, 10, 1] := by decide

/-- `C13_omitted_nullable`: `{d, c, a}` against the completed in-order presentation. -/
example :
    let partialRun := ser extD false S (.record nmR flds) (.struct "R" (presOf flds vals1 [3, 2, 0])) s0
    let fullRun := ser extD false S (.record nmR flds)
      (.struct "R" (presOf flds (completeVals vals1 [3, 2, 0]) (List.range flds.length))) s0
    partialRun.1 = .ok () ∧ fullRun.1 = .ok () ∧
      partialRun.2.out =
        s0.out ++ (List.range flds.length).flatMap (fieldBytes extD false S flds vals1 [3, 2, 0]) ∧
      fullRun.2.out = partialRun.2.out ∧
      PoolClean partialRun.2.pool ∧ PoolClean fullRun.2.pool :=
  C13_omitted_nullable extD false S nmR flds vals1 flds_nodup flds_keys [3, 2, 0] (by decide)
    (by decide) vals1_ok (hnull_of_all S flds _ (by decide)) "R" s0 rfl s0_clean

/-! ### Rejections, with nested values around the offending field -/

example : ∃ e, (ser extD false S (.record nmR flds)
    (.struct "R" [("d", dVal), ("zz", cVal), ("a", .int .i32 3)]) s0).1 = .error e :=
  C13_unknown_field_err extD false S nmR flds "R" _ s0 "zz" (by decide) (by decide)

example : ∃ e, (ser extD false S (.record nmR flds)
    (.struct "R" [("d", dVal), ("c", cVal), ("d", dVal), ("a", .int .i32 3)]) s0).1 = .error e :=
  C13_duplicate_field_err extD false S nmR flds flds_nodup "R" _ s0 (by decide)

example : ∃ e, (ser extD false S (.record nmR flds)
    (.struct "R" [("d", dVal), ("a", .int .i32 3)]) s0).1 = .error e :=
  C13_missing_required_err extD false S nmR flds "R" _ s0 2 ("c", 5) rfl (by decide) (by decide)

/-- After the duplicate (first copy of `d` still buffered, with the nested record's buffers in
    use) the pool is clean: `C13_pool_clean`; and explicitly. -/
example : PoolClean (ser extD false S (.record nmR flds)
    (.struct "R" [("d", dVal), ("c", cVal), ("d", dVal), ("a", .int .i32 3)]) s0).2.pool :=
  C13_pool_clean extD false S _ _ s0 s0_clean

example : (ser extD false S (.record nmR flds)
    (.struct "R" [("d", dVal), ("c", cVal), ("d", dVal), ("a", .int .i32 3)]) s0).1 = .error .custom ∧
  (ser extD false S (.record nmR flds)
    (.struct "R" [("d", dVal), ("c", cVal), ("d", dVal), ("a", .int .i32 3)]) s0).2.pool =
    { buffers := [{ cap := true, data := [] }, { cap := true, data := [] }],
      superBuffers := [{ cap := true, slots := [] }, { cap := true, slots := [] }] } := by
  decide +kernel

/-! ### The machine invariant -/

/-- A state in the middle of a record: `a` written, `b` and `c` waiting in their slots. -/
def rsMid : RecordState :=
  { current := 1, buffers := { cap := true, slots :=
      [none, some { cap := true, data := [2, 2, 120] }, some { cap := true, data := [4, 2, 4, 0] }] } }
def sMid : SerState := { out := [0xAA, 6], budget := none, pool := {} }

theorem rsMid_invW : RecInvW flds encAll [0xAA] rsMid sMid := by
  refine ⟨by decide, ?_, by decide⟩
  intro i b hb
  rcases i with _ | _ | _ | i
  · simp [rsMid] at hb
  · simp [rsMid] at hb; subst hb; exact ⟨by decide, by decide, rfl⟩
  · simp [rsMid] at hb; subst hb; exact ⟨by decide, by decide, rfl⟩
  · simp [rsMid] at hb

/-- It is not `RecInv` (the slot at `current` is occupied): the weak form is the one that holds
    when the loop is entered. -/
example : ¬ RecInv flds encAll [0xAA] rsMid sMid := by
  intro h
  have := (h.2.1 1 _ rfl).1
  simp [rsMid] at this

/-- `C13_flush_establishes` on it: the loop writes `b`, `c` and stops at `d`. -/
example : ∃ rs' s', flushBuffered 3 rsMid sMid = (.ok rs', s') ∧ s'.budget = none ∧
    RecInv flds encAll [0xAA] rs' s' ∧ rsMid.current ≤ rs'.current ∧
    ∀ i, RecDone rsMid i → RecDone rs' i :=
  C13_flush_establishes flds encAll [0xAA] 3 rsMid sMid rfl (by decide) rsMid_invW

example : (flushBuffered 3 rsMid sMid).2.out = [0xAA, 6, 2, 2, 120, 4, 2, 4, 0] := by decide +kernel

def rsWait : RecordState :=
  { current := 1, buffers := { cap := true, slots :=
      [none, none, some { cap := true, data := [4, 2, 4, 0] }] } }

theorem rsWait_inv : RecInv flds encAll [0xAA] rsWait sMid := by
  refine ⟨by decide, ?_, by decide⟩
  intro i b hb
  rcases i with _ | _ | _ | i
  · simp [rsWait] at hb
  · simp [rsWait] at hb
  · simp [rsWait] at hb; subst hb; exact ⟨by decide, by decide, rfl⟩
  · simp [rsWait] at hb

/-- `C13_flush_invariant`: between two fields (slot at `current` empty, a later slot occupied) the
    loop leaves machine and writer unchanged, with any fuel -/
example (fuel : Nat) : flushBuffered fuel rsWait sMid = (.ok rsWait, sMid) :=
  C13_flush_invariant flds encAll [0xAA] fuel rsWait sMid rsWait_inv

/-- `SlotInv` and the two duplicate situations. -/
theorem rsWait_slotInv : SlotInv rsWait := by
  intro i b hb
  rcases i with _ | _ | _ | i
  · simp [rsWait] at hb
  · simp [rsWait] at hb
  · simp [rsWait]
  · simp [rsWait] at hb

example : fieldIdx flds rsWait "a" = .error .custom :=
  C13_duplicate_written (f := ("a", 1)) flds_nodup rsWait_slotInv (i := 0) rfl (by decide)

example (s : SerState) : fieldIdx flds rsWait "c" = .ok 2 ∧
    ∃ rs', recordValue S flds rsWait 2 (fun node => ser extD false S node cVal) s =
      (.error (.custom, rs'), s) :=
  C13_duplicate_buffered (f := ("c", 5)) (node := .array 1) flds_nodup rsWait_slotInv (i := 2) rfl rfl
    (b := { cap := true, data := [4, 2, 4, 0] }) rfl _ s

/-! ### `C13_recordValue_invariant`: the `hserv` it USED to have cannot be met by the real value serializer

`recordValue` is called by `serFields` with `serv := fun node => ser ext allowSlow S node v`.
The former `hserv` of `C13_recordValue_invariant` (still that of the lemma `recordValue_inv`) asked
this to succeed with the same bytes on EVERY node and EVERY unlimited state (dirty pools
included).  No value does: on the empty union every serializer call fails.  (The theorem has been
restated; the instance with the real `ser` follows.) -/

theorem ser_union_nil_fails (ext : Ext) (allowSlow : Bool) (S : Schema) :
    ∀ (v : SV) (s : SerState), (ser ext allowSlow S (.union []) v s).1 = .error .custom
  | .bool _, _ => rfl
  | .int _ _, _ => rfl
  | .f32 _, _ => rfl
  | .f64 _, _ => rfl
  | .char _, _ => rfl
  | .str _, _ => rfl
  | .bytes _, _ => rfl
  | .none, _ => rfl
  | .some v, s => by rw [ser]; exact ser_union_nil_fails ext allowSlow S v s
  | .unit, _ => rfl
  | .unitStruct _, _ => rfl
  | .unitVariant _ _ variant, s => by
    rw [ser]
    unfold serUnitVariant nullVariantBranch
    by_cases h : variant = "Null" <;> simp [h, namedLookup, namedLookup.go, branchNodes] <;> rfl
  | .newtypeStruct _ v, s => by
    rw [ser]
    exact ser_union_nil_fails ext allowSlow S v s
  | .newtypeVariant _ _ _ v, s => by
    rw [ser]
    exact ser_union_nil_fails ext allowSlow S v s
  | .seq _ _, _ => rfl
  | .tuple _, _ => rfl
  | .tupleStruct _ _, _ => rfl
  | .tupleVariant _ _ _ _, _ => rfl
  | .map _ _, _ => rfl
  | .struct _ _, _ => rfl
  | .structVariant _ _ _ _, _ => rfl

/-- The former hypothesis `hserv` of `C13_recordValue_invariant` (now only of `recordValue_inv`),
    for the serializer the machine is really run with, is false — for every value, schema, field
    index and encoding table. -/
theorem recordValue_invariant_hserv_unmeetable (ext : Ext) (allowSlow : Bool) (S : Schema) (v : SV)
    (enc : Nat → Bytes) (idx : Nat) :
    ¬ (∀ node s, s.budget = none →
        ∃ s', (fun node => ser ext allowSlow S node v) node s = (.ok (), s') ∧
          s'.out = s.out ++ enc idx ∧ s'.budget = none) := by
  intro h
  obtain ⟨s', h1, _⟩ := h (.union []) {} rfl
  have := ser_union_nil_fails ext allowSlow S v {}
  simp only at h1
  rw [h1] at this
  cases this

/-- … also when restricted to the field's own node: with a dirty pool a nested record panics. -/
example : (ser extD false S (.record nmI fldsI) dVal
    { out := [], budget := none,
      pool := { buffers := [{ cap := true, data := [1] }], superBuffers := [] } }).1 = .error .panic := by
  decide +kernel

def okT {ε α : Type} : Except ε α → Bool
  | .ok _ => true
  | .error _ => false

theorem exists_of_okT {σ α : Type} {x : Except (SerErr × σ) α × SerState} (h : okT x.1 = true) :
    ∃ a s', x = (.ok a, s') := by
  obtain ⟨r, s'⟩ := x
  cases r with
  | ok a => exact ⟨a, s', rfl⟩
  | error e => cases h

/-- `C13_recordValue_invariant_ser` (hence `C13_recordValue_invariant`, whose hypothesis it
    discharges with `ser_appends`) with the REAL serializer: `d` (the nested record) presented
    first, from the initial state with the (non-empty, clean) pool of `s0`. -/
example : ∃ rs' s',
    recordValue S flds { current := 0, buffers := { cap := false, slots := [] } } 3
      (fun node => ser extD false S node dVal) s0 = (.ok rs', s') ∧
    RecInv flds encAll s0.out rs' s' ∧ s'.budget = none ∧ RecDone rs' 3 := by
  obtain ⟨rs', s', hok⟩ := exists_of_okT (x := recordValue S flds
    { current := 0, buffers := { cap := false, slots := [] } } 3
    (fun node => ser extD false S node dVal) s0) (by decide +kernel)
  have h := C13_recordValue_invariant_ser extD false flds encAll s0.out S
    { current := 0, buffers := { cap := false, slots := [] } } 3 dVal s0 rs' s' rfl s0_clean
    (Nat.zero_le _)
    (by
      intro f node hf hn
      simp only [flds, List.getElem?_cons_zero, List.getElem?_cons_succ, Option.some.injEq] at hf
      subst hf
      have hn' := Option.some.inj hn
      subst hn'
      obtain ⟨t, ht⟩ := exists_of_fst_ok (m := ser extD false S S[6] dVal) (s := {}) (by decide +kernel)
      refine ⟨t, ht, ?_⟩
      have ho : t.out = (ser extD false S S[6] dVal {}).2.out := by rw [ht]
      rw [ho]
      decide +kernel)
    ⟨by simp, fun i b hib => by simp at hib, Nat.zero_le _⟩ hok
  exact ⟨rs', s', hok, h.1, h.2.1, h.2.2 3 (.inr rfl)⟩

/-! ### A conclusion that holds thanks to a totalised definition

`branchNodes` reads a dangling branch key as `.null` (`S[k]?.getD .null`), and `serUnit` /
`recordEnd` do not resolve the key: a record field whose node is a union with a DANGLING branch
is "nullable", and `C13_partial_bytes` concludes that omitting it succeeds.  Harmless for frozen
schemas (no dangling keys there; `hkeys` only covers the field keys, not the branch keys). -/
example : fieldNullable #[.record nmR [("a", 1)], .union [99]] 1 = true := by decide

example : (ser extD false #[.record nmR [("a", 1)], .union [99]] (.record nmR [("a", 1)])
    (.struct "R" []) {}).1 = .ok () ∧
  (ser extD false #[.record nmR [("a", 1)], .union [99]] (.record nmR [("a", 1)])
    (.struct "R" []) {}).2.out = [0] := by decide +kernel

/-! ## C14 — failing serializations at depth 2, with a finite budget, on a non-empty clean pool -/

/-- The sink accepts 4 more bytes. -/
def s4 : SerState := { s0 with budget := some 4 }
theorem s4_clean : PoolClean s4.pool := s0_clean

/-- `d` (nested record, buffered), `a` (direct), `c` (buffered): at the end `b` is filled in, the
    flush of `c` overruns the budget half-way. -/
def vIo : SV := .struct "R" [("d", dVal), ("a", .int .i32 3), ("c", cVal)]
/-- A type error at depth 2, inside a value that is being written to a side buffer, while the
    inner record itself has a field waiting in a buffer. -/
def dBad : SV := .struct "I" [("y", .bool true), ("x", .str "oops")]
def vBad : SV := .struct "R" [("c", cVal), ("d", dBad), ("a", .int .i32 3)]

example : PoolClean (ser extD false S (.record nmR flds) vIo s4).2.pool :=
  C14_pool_clean extD false S _ vIo s4 s4_clean
example : PoolClean (ser extD false S (.record nmR flds) vBad s4).2.pool :=
  C14_pool_clean extD false S _ vBad s4 s4_clean
example : PoolClean (ser extD false S (.record nmR flds) (.struct "R" (presOf flds valsAll [3, 1, 0, 2])) s0).2.pool :=
  C14_pool_clean extD false S _ _ s0 s0_clean

/-- What these runs are (kernel evaluation): an I/O error after 4 bytes (the two buffers taken
    by the flush are dropped, not pooled), resp. a custom error with nothing written. -/
example :
    (ser extD false S (.record nmR flds) vIo s4).1 = .error .io ∧
    (ser extD false S (.record nmR flds) vIo s4).2.out = [0xAA, 6, 0, 4, 2] ∧
    (ser extD false S (.record nmR flds) vIo s4).2.budget = some 0 ∧
    (ser extD false S (.record nmR flds) vIo s4).2.pool =
      { buffers := [{ cap := true, data := [] }],
        superBuffers := [{ cap := true, slots := [] }, { cap := true, slots := [] }] } := by
  decide +kernel

example :
    (ser extD false S (.record nmR flds) vBad s4).1 = .error .custom ∧
    (ser extD false S (.record nmR flds) vBad s4).2.out = [0xAA] ∧
    (ser extD false S (.record nmR flds) vBad s4).2.budget = some 4 ∧
    (ser extD false S (.record nmR flds) vBad s4).2.pool =
      { buffers := [{ cap := true, data := [] }, { cap := true, data := [] }],
        superBuffers := [{ cap := true, slots := [] }, { cap := true, slots := [] }] } := by
  decide +kernel

/-- `C14_pool_irrelevant` on the I/O failure: same error, bytes, budget as with the empty pool. -/
example :
    (ser extD false S (.record nmR flds) vIo { out := [0xAA], budget := some 4, pool := s0.pool }).1 =
      (ser extD false S (.record nmR flds) vIo { out := [0xAA], budget := some 4, pool := {} }).1 ∧
    (ser extD false S (.record nmR flds) vIo { out := [0xAA], budget := some 4, pool := s0.pool }).2.out =
      (ser extD false S (.record nmR flds) vIo { out := [0xAA], budget := some 4, pool := {} }).2.out ∧
    (ser extD false S (.record nmR flds) vIo { out := [0xAA], budget := some 4, pool := s0.pool }).2.budget =
      (ser extD false S (.record nmR flds) vIo { out := [0xAA], budget := some 4, pool := {} }).2.budget :=
  C14_pool_irrelevant extD false S _ vIo [0xAA] (some 4) s0.pool s0_clean

/-- `C14_pool_prefix_irrelevant`, success case with a budget that is just enough (9 bytes). -/
def pOther : Pool := { buffers := [], superBuffers := [{ cap := false, slots := [] }, { cap := true, slots := [] }] }
theorem pOther_clean : PoolClean pOther := by simp [PoolClean, pOther]

example :
    (ser extD false S (.record nmR flds) vIo { out := [1, 2] ++ [3], budget := some 8, pool := s0.pool }).1 =
      (ser extD false S (.record nmR flds) vIo { out := [3], budget := some 8, pool := pOther }).1 ∧
    (ser extD false S (.record nmR flds) vIo { out := [1, 2] ++ [3], budget := some 8, pool := s0.pool }).2.out =
      [1, 2] ++ (ser extD false S (.record nmR flds) vIo { out := [3], budget := some 8, pool := pOther }).2.out ∧
    (ser extD false S (.record nmR flds) vIo { out := [1, 2] ++ [3], budget := some 8, pool := s0.pool }).2.budget =
      (ser extD false S (.record nmR flds) vIo { out := [3], budget := some 8, pool := pOther }).2.budget :=
  C14_pool_prefix_irrelevant extD false S _ vIo [1, 2] [3] (some 8) s0.pool pOther s0_clean pOther_clean

example : (ser extD false S (.record nmR flds) vIo { out := [3], budget := some 8, pool := pOther }).1 = .ok () ∧
    (ser extD false S (.record nmR flds) vIo { out := [3], budget := some 8, pool := pOther }).2.budget = some 0 := by
  decide +kernel

/-- `C14_no_assert_panic_of_get` for the root of `S`: `S.keysInBounds` holds, so the disjunction
    is its first member. -/
example : (ser extD false S (.record nmR flds) vIo s4).1 ≠ .error .panic := by
  rcases C14_no_assert_panic_of_get extD false S 0 _ rfl vIo s4 s4_clean with h | h
  · exact h
  · exact (h (by decide +kernel)).elim

example : (ser extD false S (.record nmR flds) vBad s4).1 ≠ .error .panic := by
  rcases C14_no_assert_panic_partial extD false S _ vBad s4 s4_clean
    (NodeOK.of_get (S := S) (k := 0) (by decide +kernel) rfl) with h | h
  · exact h
  · exact (h (by decide +kernel)).elim

example : (popBuffer s0).1 ≠ .error .panic ∧ (popSuperBuffer s0).1 ≠ .error .panic :=
  C14_pop_never_panics s0 s0_clean

/-- The hypothesis `PoolClean` is needed (and so not decorative): on a dirty pool the `assert!` fires. -/
example : (popBuffer { pool := { buffers := [{ cap := true, data := [1] }] } }).1 = .error .panic := rfl

end NVF

/-! # C20 -/

namespace NVF20
open Avro Avro.Impl Avro.Impl.Derive Avro.Theorems.DeriveFits

/-! ## A program with a generic record instantiated twice, a unit enum, a `Vec` field and a record
recursive through `Option<Box<_>>`; the driver's fuel `64 * (P.size + 4)` -/

def progF : Prog := #[
  { ident := "Pair", nparams := 1, modulePath := "m", body := .record [
      { name := "a", ty := .param 0 }, { name := "b", ty := .vec (.param 0) } ] },
  { ident := "Color", modulePath := "m", body := .unitEnum ["Red", "Green"] },
  { ident := "Tree", modulePath := "m", body := .record [
      { name := "value", ty := .i32 },
      { name := "ints", ty := .named 0 [.i64] },
      { name := "strs", ty := .named 0 [.string] },
      { name := "color", ty := .named 1 [] },
      { name := "kids", ty := .vec (.named 2 []) },
      { name := "next", ty := .option (.ptr (.named 2 [])) } ] } ]

/-- the driver's fuel -/
def fuelF : Nat := 64 * (progF.size + 4)
example : fuelF = 448 := by decide

def leaf (v : Int) (c : Nat) (cn : String) : SV :=
  .struct "Tree" [
    ("value", .int .i32 v),
    ("ints", .struct "Pair" [("a", .int .i64 (-1)), ("b", .seq (some 0) [])]),
    ("strs", .struct "Pair" [("a", .str ""), ("b", .seq (some 1) [.str "z"])]),
    ("color", .unitVariant "Color" c cn),
    ("kids", .seq (some 0) []),
    ("next", .none)]

def treeVal : SV :=
  .struct "Tree" [
    ("value", .int .i32 7),
    ("ints", .struct "Pair" [("a", .int .i64 1), ("b", .seq (some 2) [.int .i64 2, .int .i64 3])]),
    ("strs", .struct "Pair" [("a", .str "x"), ("b", .seq (some 1) [.str "yy"])]),
    ("color", .unitVariant "Color" 1 "Green"),
    ("kids", .seq (some 2) [leaf 1 0 "Red", leaf 2 1 "Green"]),
    ("next", .some (leaf 3 0 "Red"))]

theorem progF_fitWfG : DeriveG.FitWfG progF (.named 2 []) = true := by decide +kernel
theorem treeVal_shape : hasShape progF fuelF (.named 2 []) treeVal = true := by decide +kernel
example : (schemaMut progF DeriveNames.hashDemo fuelF (.named 2 [])).isSome = true := by decide +kernel


def extD : Avro.Impl.Ext :=
  { asF32 := fun _ => 0, decFromF64 := fun _ => none, decParse := fun _ => none,
    decRescale := fun d _ => d }

/-- `C20_fits_generic`, closed: the driver's fuel, an injective hash, a non-trivial value. -/
theorem fits_generic_closed (ext : Avro.Impl.Ext) :
    ∃ Sm, schemaMut progF DeriveNames.hashDemo fuelF (.named 2 []) = some Sm ∧
      (ser ext false (freezeNodes Sm) ((freezeNodes Sm)[0]!) treeVal {}).1 = .ok () := by
  cases h : schemaMut progF DeriveNames.hashDemo fuelF (.named 2 []) with
  | none => exact absurd h (by decide +kernel)
  | some Sm =>
    exact ⟨Sm, rfl, C20_fits_generic ext progF _ fuelF _ Sm fuelF treeVal h progF_fitWfG treeVal_shape⟩

/-- … and what the run is, by kernel evaluation of the real `ser` on the built schema. -/
example : (schemaMut progF DeriveNames.hashDemo fuelF (.named 2 [])).map (fun Sm =>
      (ser extD false (freezeNodes Sm) ((freezeNodes Sm)[0]!) treeVal {}).2.out) =
    some [14, 2, 4, 4, 6, 0, 2, 120, 2, 4, 121, 121, 0, 2, 4, 2, 1, 0, 0, 2, 2, 122, 0, 0, 0, 0, 4, 1,
      0, 0, 2, 2, 122, 0, 2, 0, 0, 0, 2, 6, 1, 0, 0, 2, 2, 122, 0, 0, 0, 0] := by decide +kernel

/-- `C20_names_distinct_global` needs the global `NamesWf` (met by the injective `hashDemo`; the
    instance of `C20_names_distinct` proper with the driver's non-injective hash is
    `names_distinct_driverHash_closed` below): -/
theorem progF_namesWf : NamesWf progF DeriveNames.hashDemo where
  newtype_nongeneric := by rw [prog_forall_iff]; decide
  generic_union_safe := by rw [prog_forall_iff]; decide
  logical_dupSafe := by rw [prog_forall_iff]; decide
  field_names_nodup := by rw [prog_forall_iff]; decide
  variant_idents_nodup := by rw [prog_forall_iff]; decide
  start_ok := by rw [prog_forall_iff]; decide
  distinct := by simp only [prog_forall_iff]; decide
  no_u8_array := by rw [prog_forall_iff]; decide
  generic_prefix_free := by simp only [prog_forall_iff]; decide
  hash_inj := DeriveNames.hashDemo_inj
  hash_nodot := DeriveNames.hashDemo_nodot

theorem inv_closed :
    ∃ Sm, schemaMut progF DeriveNames.hashDemo fuelF (.named 2 []) = some Sm ∧
      Sm.keysInBounds = true ∧ 0 < Sm.size ∧ (definedNames Sm).Nodup ∧
      (∀ f, Realizes progF (freezeNodes Sm) f (.named 2 []) 0) := by
  cases h : schemaMut progF DeriveNames.hashDemo fuelF (.named 2 []) with
  | none => exact absurd h (by decide +kernel)
  | some Sm =>
    exact ⟨Sm, rfl, C20_keys_in_bounds _ _ _ _ Sm h, C20_root_is_node_zero _ _ _ _ Sm h,
      C20_names_distinct_global _ _ _ _ Sm h progF_namesWf,
      (C20_schema_realizes_generic _ _ _ _ Sm h progF_fitWfG).2⟩

/-- `C20_names_distinct_of_nameInj_global` (hypotheses `StructWf`, `NameInj`) on the same build. -/
example (Sm : SchemaMut) (h : schemaMut progF DeriveNames.hashDemo fuelF (.named 2 []) = some Sm) :
    (definedNames Sm).Nodup :=
  C20_names_distinct_of_nameInj_global _ _ _ _ Sm h progF_namesWf.toStructWf
    (DeriveNames.nameInj_of_textWf progF_namesWf.toTextWf)

example : (schemaMut progF DeriveNames.hashDemo fuelF (.named 2 [])).map definedNames =
    some ["m.Tree", "m.Pair_nyxxydid", "m.Pair_nyxxygig", "m.Color"] := by decide +kernel


/-! ## `C20_fits` (fragment `FitWf`) and `C20_fits_unions_text` (`FitWfU` + `UnionNamesText`) closed on
the programs of `Theorems/C20fits.lean` (which proves `FitWf` / `FitWfU` for them but builds no
schema and gives no value) -/

def innerVal : SV :=
  .struct "Inner" [
    ("name", .str "n"),
    ("data", .bytes [1, 2]),
    ("key", .bytes [1, 2, 3, 4]),
    ("ratio", .some (.f64 0)),
    ("deep", .map (some 1) [(.str "k", .seq (some 2) [.none, .some (.newtypeStruct "Wrapper" (.int .u64 5))])]),
    ("created", .int .u64 1700000000000),
    ("day", .int .i32 19000),
    ("uid", .str "00000000-0000-0000-0000-000000000000"),
    ("lease", .bytes (List.replicate 12 1)),
    ("score", .f64 0)]

def treeLeaf : SV :=
  .struct "Tree" [
    ("value", .int .i32 (-1)),
    ("next", .none),
    ("children", .seq (some 0) []),
    ("tags", .map (some 0) []),
    ("color", .none),
    ("id", .newtypeStruct "Wrapper" (.int .u64 0)),
    ("digest", .none)]

def treeVal2 : SV :=
  .struct "Tree" [
    ("value", .int .i32 7),
    ("next", .some treeLeaf),
    ("children", .seq (some 2) [treeLeaf, treeLeaf]),
    ("tags", .map (some 1) [(.str "t", innerVal)]),
    ("color", .some (.unitVariant "Color" 2 "Null")),
    ("id", .newtypeStruct "Wrapper" (.int .u64 9)),
    ("digest", .some (.newtypeStruct "Digest" (.bytes (List.replicate 16 7))))]

def fuelE : Nat := 64 * (exampleProg.size + 4)
theorem treeVal2_shape : hasShape exampleProg fuelE (.named 0 []) treeVal2 = true := by decide +kernel

theorem fits_closed (ext : Avro.Impl.Ext) :
    ∃ Sm, schemaMut exampleProg (fun _ => "unused") fuelE (.named 0 []) = some Sm ∧
      (ser ext false (freezeNodes Sm) ((freezeNodes Sm)[0]!) treeVal2 {}).1 = .ok () := by
  cases h : schemaMut exampleProg (fun _ => "unused") fuelE (.named 0 []) with
  | none => exact absurd h (by decide +kernel)
  | some Sm =>
    exact ⟨Sm, rfl, C20_fits ext exampleProg _ fuelE _ Sm fuelE treeVal2 h exampleProg_fitWf treeVal2_shape⟩

def shapesVal : SV := .seq (some 4) [
  .newtypeVariant "Shape" 0 "Double" (.f64 1),
  .unitVariant "Shape" 2 "Null",
  .newtypeVariant "Shape" 1 "Inner" innerVal,
  .newtypeVariant "Shape" 0 "Double" (.f64 2)]

def fuelU : Nat := 64 * (exampleProgU.size + 4)
theorem exampleProgU_text : UnionNamesText exampleProgU = true := by decide +kernel
theorem shapesVal_shape : hasShape exampleProgU fuelU (.vec (.named 5 [])) shapesVal = true := by decide +kernel

theorem fits_unions_closed (ext : Avro.Impl.Ext) :
    ∃ s, builderState exampleProgU (fun _ => "unused") fuelU (.vec (.named 5 [])) = some s ∧
      schemaMut exampleProgU (fun _ => "unused") fuelU (.vec (.named 5 [])) = some s.nodes ∧
      (ser ext false (freezeNodes s.nodes) ((freezeNodes s.nodes)[0]!) shapesVal {}).1 = .ok () := by
  cases h : builderState exampleProgU (fun _ => "unused") fuelU (.vec (.named 5 [])) with
  | none =>
    have : (schemaMut exampleProgU (fun _ => "unused") fuelU (.vec (.named 5 []))).isSome = true := by
      decide +kernel
    rw [schemaMut_eq_builderState, h] at this
    cases this
  | some s =>
    exact ⟨s, rfl, C20_fits_unions_text ext exampleProgU _ fuelU _ s fuelU shapesVal h
      exampleProgU_fitWfU exampleProgU_text shapesVal_shape⟩


/-! ## Generic instantiations, fuel, builder invariants -/

/-- Distinct instantiations, distinct names (`C20_generic_instantiations_distinct`). -/
example : typeName progF[0] ++ "_" ++ DeriveNames.hashDemo [.generic 0 2, .long, .vec, .long] ≠
    typeName progF[0] ++ "_" ++ DeriveNames.hashDemo [.generic 0 2, .string, .vec, .string] :=
  C20_generic_instantiations_distinct progF[0] DeriveNames.hashDemo DeriveNames.hashDemo_inj _ _ (by decide)

example : lookupKey progF fuelF (.named 0 [.i64]) = some [.generic 0 2, .long, .vec, .long] ∧
    lookupKey progF fuelF (.named 0 [.string]) = some [.generic 0 2, .string, .vec, .string] := by
  decide +kernel

/-- `C20_fuel_irrelevant`: the driver's fuel and a much smaller sufficient one. -/
example : ∃ S, schemaMut progF DeriveNames.hashDemo fuelF (.named 2 []) = some S ∧
    schemaMut progF DeriveNames.hashDemo 30 (.named 2 []) = some S := by
  cases h : schemaMut progF DeriveNames.hashDemo fuelF (.named 2 []) with
  | none => exact absurd h (by decide +kernel)
  | some S =>
    cases h' : schemaMut progF DeriveNames.hashDemo 30 (.named 2 []) with
    | none => exact absurd h' (by decide +kernel)
    | some S' =>
      exact ⟨S, rfl, by rw [C20_fuel_irrelevant _ _ _ _ _ S S' h h']⟩

/-- … and a fuel that does not suffice gives `none` (the hypothesis `schemaMut … = some S` is a
    real condition on the fuel). -/
example : schemaMut progF DeriveNames.hashDemo 5 (.named 2 []) = none := by decide +kernel

theorem exists_of_isSome {α} {o : Option α} (h : o.isSome = true) : ∃ a, o = some a :=
  Option.isSome_iff_exists.mp h

theorem eq_some_pair {α β} {o : Option (α × β)} (d : α × β) (h : o.isSome = true) :
    o = some ((o.getD d).1, (o.getD d).2) := by
  cases o with
  | none => cases h
  | some a => rfl

/-- First `find_or_build::<Tree>()` on a fresh builder … -/
def k1 : Nat := ((findOrBuild progF DeriveNames.hashDemo fuelF (.named 2 []) {}).getD (0, {})).1
def s1 : BState := ((findOrBuild progF DeriveNames.hashDemo fuelF (.named 2 []) {}).getD (0, {})).2
theorem r1_eq : findOrBuild progF DeriveNames.hashDemo fuelF (.named 2 []) {} = some (k1, s1) := by
  unfold k1 s1
  exact @eq_some_pair _ _ (findOrBuild progF DeriveNames.hashDemo fuelF (.named 2 []) {}) (0, {})
    (by decide +kernel)
/-- … then `find_or_build::<Vec<Pair<i64>>>()` on the resulting (non-empty) state. -/
def k2 : Nat := ((findOrBuild progF DeriveNames.hashDemo (446 + 1) (.vec (.named 0 [.i64])) s1).getD (0, {})).1
def s2 : BState := ((findOrBuild progF DeriveNames.hashDemo (446 + 1) (.vec (.named 0 [.i64])) s1).getD (0, {})).2
theorem r2_eq : findOrBuild progF DeriveNames.hashDemo (446 + 1) (.vec (.named 0 [.i64])) s1 = some (k2, s2) := by
  unfold k2 s2
  exact @eq_some_pair _ _ (findOrBuild progF DeriveNames.hashDemo (446 + 1) (.vec (.named 0 [.i64])) s1) (0, {})
    (by decide +kernel)

/-- `C20_findOrBuild_keeps_invariant` twice: `Good.empty` starts it, the second call starts from
    the (non-empty) state the first one ended in. -/
theorem good_r1 : Derive.Good [] s1 ∧ (k1 < s1.nodes.size ∨ k1 ∈ ([] : List Nat)) :=
  C20_findOrBuild_keeps_invariant progF _ fuelF _ {} s1 k1 [] r1_eq Derive.Good.empty
theorem good_r2 : Derive.Good [] s2 ∧ (k2 < s2.nodes.size ∨ k2 ∈ ([] : List Nat)) :=
  C20_findOrBuild_keeps_invariant progF _ _ _ s1 s2 k2 [] r2_eq good_r1.1

/-- The second call added exactly one node (the array) and found `Pair<i64>` again. -/
example : s1.nodes.size = 12 ∧ s2.nodes.size = 13 ∧ k2 = 12 ∧
    s2.nodes[12]? = some (plain (.array 2)) := by decide +kernel

/-- `C20_findOrBuild_append_only` for it. -/
example : AppendOnly s1 s2 :=
  C20_findOrBuild_append_only progF _ _ _ s1 s2 k2 r2_eq

/-- `C20_built_once_reuse`: asked again (any larger fuel), found, builder unchanged. -/
example : findOrBuild progF DeriveNames.hashDemo 1000 (.vec (.named 0 [.i64])) s2 = some (k2, s2) :=
  C20_built_once_reuse progF _ 446 1000 (by decide) _ s1 s2 k2 r2_eq


/-! ## The demands of the GLOBAL `NamesWf` / `NameInj` on `hash` (hypotheses of the corollaries
`C20_names_distinct_global`, `C20_names_distinct_of_nameInj_global`; before the repair, of
`C20_names_distinct`, `C20_names_distinct_of_nameInj` themselves) -/

/-- No injection from `Nat` into `Fin n`. -/
theorem no_inj_nat_fin : ∀ (n : Nat) (f : Nat → Fin n), ¬ (∀ i j, f i = f j → i = j)
  | 0, f, _ => (f 0).elim0
  | n + 1, f, hinj => by
    have hne : ∀ i, (f (i + 1)).val ≠ (f 0).val := fun i h => by
      have := hinj _ _ (Fin.ext h); omega
    let g : Nat → Fin n := fun i =>
      if h : (f (i + 1)).val < (f 0).val then ⟨(f (i + 1)).val, by have := (f 0).isLt; omega⟩
      else ⟨(f (i + 1)).val - 1, by have h1 := (f (i + 1)).isLt; have h2 := hne i; omega⟩
    apply no_inj_nat_fin n g
    intro i j hij
    have hi := hne i
    have hj := hne j
    have : (f (i + 1)).val = (f (j + 1)).val := by
      have hv := congrArg Fin.val hij
      simp only [g] at hv
      split at hv <;> split at hv <;> simp only at hv <;> omega
    have := hinj _ _ (Fin.ext this)
    omega

/-- `NamesWf.hash_inj` (injectivity on ALL keys) cannot be met by a hash with finitely many values —
    such as the crate's (a 64-bit SipHash rendered as text): for it `C20_names_distinct_global`
    says nothing, for any program.  (`C20_names_distinct` itself now asks `NamesWfOn` on the
    generic-record keys the build registers; see the next section.) -/
theorem namesWf_unmeetable_by_finite_hash (P : Prog) (n : Nat) (h : Key → Fin n)
    (render : Fin n → String) : ¬ NamesWf P (fun k => render (h k)) := by
  intro hW
  refine no_inj_nat_fin n (fun i => h [.self i]) ?_
  intro i j hij
  have := hW.hash_inj [.self i] [.self j] (congrArg render hij)
  simpa using this

example (P : Prog) (h : Key → UInt64) (render : UInt64 → String) :
    ¬ NamesWf P (fun k => render (h k)) := by
  intro hW
  exact namesWf_unmeetable_by_finite_hash P UInt64.size (fun k => (h k).toFin)
    (fun x => render (UInt64.ofFin x)) (by simpa using hW)

/-- The hash the driver builds the compared schema with (`Driver/Main.lean`, `runDerive`):
    `"H" ++ index of the key's text in the list of labels`.  Whatever the labels and the rendering
    of keys, it is not injective (every unlabelled key gets `"H<labels.length>"`). -/
def driverHash (keyStr : Key → String) (labels : List String) (k : Key) : String :=
  "H" ++ toString (labels.idxOf (keyStr k))

theorem driverHash_not_namesWf (P : Prog) (keyStr : Key → String) (labels : List String) :
    ¬ NamesWf P (driverHash keyStr labels) :=
  namesWf_unmeetable_by_finite_hash P (labels.length + 1)
    (fun k => ⟨labels.idxOf (keyStr k), Nat.lt_succ_of_le List.idxOf_le_length⟩)
    (fun x => "H" ++ toString x.val)

/-- `NameInj` (the weaker hypothesis of `C20_names_distinct_of_nameInj_global`) fails the same way
    as soon as the program has a generic record: two of its (possible) instantiations share a
    name.  (`C20_names_distinct_of_nameInj` itself now asks `NameInjOn` on the built keys.) -/
theorem nameInj_unmeetable_by_finite_hash (P : Prog) (id : Nat) (d : Decl) (fs : List Field)
    (hP : P[id]? = some d) (hb : d.body = .record fs) (hn : d.nparams ≠ 0)
    (n : Nat) (h : Key → Fin n) (render : Fin n → String) :
    ¬ DeriveNames.NameInj P (fun k => render (h k)) := by
  intro hI
  refine no_inj_nat_fin n (fun i => h [.generic id i]) ?_
  intro i j hij
  have e : DeriveNames.recName d (fun k => render (h k)) [.generic id i] =
      DeriveNames.recName d (fun k => render (h k)) [.generic id j] := by
    simp only [DeriveNames.recName, hn, if_false]
    rw [show h [.generic id i] = h [.generic id j] from hij]
  have := hI (.top [.generic id i]) (.top [.generic id j]) _
    (DeriveNames.Named.record hP hb (.inr ⟨hn, i, [], rfl⟩))
    (by rw [e]; exact DeriveNames.Named.record hP hb (.inr ⟨hn, j, [], rfl⟩))
  simpa using this

example (keyStr : Key → String) (labels : List String) :
    ¬ DeriveNames.NameInj progF (driverHash keyStr labels) :=
  nameInj_unmeetable_by_finite_hash progF 0 _ _ rfl rfl (by decide) (labels.length + 1)
    (fun k => ⟨labels.idxOf (keyStr k), Nat.lt_succ_of_le List.idxOf_le_length⟩)
    (fun x => "H" ++ toString x.val)


/-! ## The repaired hypotheses (`NamesWfOn` on `genericRecordKeys`, `NameInjOn` on `builtKeys`) are
met by the hash the driver runs the model with -/

theorem ite_ne {α} {c : Prop} [Decidable c] {a b x : α} (ha : a ≠ x) (hb : b ≠ x) :
    (if c then a else b) ≠ x := by
  split <;> assumption

theorem digitChar_ne_dot (m : Nat) : Nat.digitChar m ≠ '.' := by
  unfold Nat.digitChar
  repeat (refine ite_ne (by decide) ?_)
  decide

theorem toDigitsCore_nodot : ∀ (fuel n : Nat) (ds : List Char), '.' ∉ ds →
    '.' ∉ Nat.toDigitsCore 10 fuel n ds
  | 0, _, ds, h => by simpa [Nat.toDigitsCore] using h
  | fuel + 1, n, ds, h => by
    have hd : '.' ∉ Nat.digitChar (n % 10) :: ds := by
      simp only [List.mem_cons, not_or]
      exact ⟨(digitChar_ne_dot _).symm, h⟩
    simp only [Nat.toDigitsCore]
    split
    · exact hd
    · exact toDigitsCore_nodot fuel _ _ hd

theorem toString_nat_nodot (n : Nat) : '.' ∉ (toString n).toList := by
  simp only [Nat.toString_eq_repr, Nat.toList_repr, Nat.toDigits]
  exact toDigitsCore_nodot _ _ _ (by simp)

theorem toString_nat_inj {n m : Nat} (h : toString n = toString m) : n = m := by
  have := congrArg String.toList h
  simp only [Nat.toString_eq_repr, Nat.toList_repr] at this
  exact DeriveNames.repr_inj this

/-- The driver's hash never contains a dot … -/
theorem driverHash_nodot (keyStr : Key → String) (labels : List String) (k : Key) :
    '.' ∉ (driverHash keyStr labels k).toList := by
  unfold driverHash
  rw [String.toList_append]
  intro hm
  rcases List.mem_append.1 hm with hm | hm
  · revert hm; decide
  · exact toString_nat_nodot _ hm

/-- … and is injective on every list of keys on which the rendering `keyStr` is injective and
    whose renderings are all labelled.  (The driver extracts `labels` from a first build in which
    `hash k` embeds `keyStr k`: every key whose hash enters a name is labelled.) -/
theorem driverHash_injOn (keyStr : Key → String) (labels : List String) (Ks : List Key)
    (hinj : ∀ k ∈ Ks, ∀ k' ∈ Ks, keyStr k = keyStr k' → k = k')
    (hlab : ∀ k ∈ Ks, keyStr k ∈ labels) :
    (∀ k ∈ Ks, ∀ k' ∈ Ks, driverHash keyStr labels k = driverHash keyStr labels k' → k = k') ∧
    (∀ k ∈ Ks, '.' ∉ (driverHash keyStr labels k).toList) := by
  refine ⟨fun k hk k' hk' h => ?_, fun k _ => driverHash_nodot keyStr labels k⟩
  unfold driverHash at h
  have hi := toString_nat_inj (DeriveNames.str_append_left_cancel h)
  have h1 := List.idxOf_lt_length_iff.2 (hlab k hk)
  have h2 := List.idxOf_lt_length_iff.2 (hlab k' hk')
  have e1 := List.getElem_idxOf h1
  have e2 := List.getElem_idxOf h2
  refine hinj k hk k' hk' ?_
  rw [← e1, ← e2]
  simp only [hi]

/-- `C20_names_distinct` for ANY program built with the driver's hash: the program-text conditions
    (`NamesWfOn` on the empty list: its two fields about the hash are void, the others do not
    mention the hash), a rendering injective on the generic-record keys the build registers, all
    of them labelled. -/
theorem names_distinct_driverHash (P : Prog) (keyStr : Key → String) (labels : List String)
    (fuel : Nat) (root : Ty) (S : SchemaMut) (h0 : Key → String)
    (h : schemaMut P (driverHash keyStr labels) fuel root = some S) (hW : NamesWfOn P h0 [])
    (hinj : ∀ k ∈ DeriveNames.genericRecordKeys P (driverHash keyStr labels) fuel root,
      ∀ k' ∈ DeriveNames.genericRecordKeys P (driverHash keyStr labels) fuel root,
      keyStr k = keyStr k' → k = k')
    (hlab : ∀ k ∈ DeriveNames.genericRecordKeys P (driverHash keyStr labels) fuel root,
      keyStr k ∈ labels) : (definedNames S).Nodup := by
  obtain ⟨h1, h2⟩ := driverHash_injOn keyStr labels _ hinj hlab
  exact C20_names_distinct P _ fuel root S h
    { toStructWf := hW.toStructWf
      start_ok := hW.start_ok, distinct := hW.distinct, no_u8_array := hW.no_u8_array
      generic_prefix_free := hW.generic_prefix_free, hash_inj := h1, hash_nodot := h2 }

/-! ### Closed instance: `progF`, the driver's fuel, the driver's hash -/

/-- The lookup keys of the two instantiations `Pair<i64>`, `Pair<String>`. -/
def kLong : Key := [.generic 0 2, .long, .vec, .long]
def kStr : Key := [.generic 0 2, .string, .vec, .string]

/-- A concrete (kernel-computable, injective: `hashDemo_inj`) rendering of keys, standing for the
    driver's `toString (repr k)`. -/
def keyStrF : Key → String := DeriveNames.hashDemo

/-- What the driver's first build yields as labels: the renderings of the keys whose hash occurs
    in a defined name, in order of first appearance (`m.Pair_⟦…long…⟧` before
    `m.Pair_⟦…string…⟧`). -/
def labelsF : List String := [keyStrF kLong, keyStrF kStr]

/-- The driver's extraction of the labels from the names of its first build (`Driver/Main.lean`,
    `runDerive`), which embeds `keyStr k` between `⟦` and `⟧`.  (`String.splitOn` does not reduce
    in the kernel, so the agreement with `labelsF` is checked by evaluation only.) -/
def driverLabels (names : List String) : List String :=
  names.foldl (fun acc nm =>
      ((nm.splitOn "⟦").drop 1).foldl (fun acc p =>
        let k := (p.splitOn "⟧").headD ""
        if acc.contains k then acc else acc ++ [k]) acc) []

#guard (schemaMut progF (fun k => "⟦" ++ keyStrF k ++ "⟧") fuelF (.named 2 [])).map
    (fun S => driverLabels (definedNames S)) == some labelsF

/-- The hash of the driver's second build. -/
def hashF : Key → String := driverHash keyStrF labelsF

/-- It is not injective: every unlabelled key gets `"H2"`. -/
example : hashF [.self 0] = hashF [.self 1] ∧ hashF [.self 0] = "H2" ∧ hashF kLong = "H0" ∧
    hashF kStr = "H1" := by decide +kernel

/-- The keys the build registers (all of them), and those of generic records. -/
example : DeriveNames.builtKeys progF hashF fuelF (.named 2 []) =
    [[.unit], [.option, .self 2], [.vec, .self 2], [.self 1], [.vec, .string], [.string], kStr,
     [.vec, .long], [.long], kLong, [.int], [.self 2]] := by decide +kernel

theorem genericRecordKeys_progF :
    DeriveNames.genericRecordKeys progF hashF fuelF (.named 2 []) = [kStr, kLong] := by
  decide +kernel

/-- The hypothesis of `C20_names_distinct` with the driver's hash: the program-text fields by
    evaluation, the two fields about the hash from `driverHash_injOn`. -/
theorem progF_namesWfOn_driverHash :
    NamesWfOn progF hashF (DeriveNames.genericRecordKeys progF hashF fuelF (.named 2 [])) := by
  have hh := driverHash_injOn keyStrF labelsF [kStr, kLong]
    (fun k _ k' _ => DeriveNames.hashDemo_inj k k') (by decide +kernel)
  rw [genericRecordKeys_progF]
  exact
    { newtype_nongeneric := by rw [prog_forall_iff]; decide
      generic_union_safe := by rw [prog_forall_iff]; decide
      logical_dupSafe := by rw [prog_forall_iff]; decide
      field_names_nodup := by rw [prog_forall_iff]; decide
      variant_idents_nodup := by rw [prog_forall_iff]; decide
      start_ok := by rw [prog_forall_iff]; decide
      distinct := by simp only [prog_forall_iff]; decide
      no_u8_array := by rw [prog_forall_iff]; decide
      generic_prefix_free := by simp only [prog_forall_iff]; decide
      hash_inj := hh.1
      hash_nodot := hh.2 }

/-- … the two fields about the hash are also decidable outright. -/
example : (∀ k ∈ DeriveNames.genericRecordKeys progF hashF fuelF (.named 2 []),
      ∀ k' ∈ DeriveNames.genericRecordKeys progF hashF fuelF (.named 2 []),
      hashF k = hashF k' → k = k') ∧
    (∀ k ∈ DeriveNames.genericRecordKeys progF hashF fuelF (.named 2 []),
      '.' ∉ (hashF k).toList) := by decide +kernel

/-- `C20_names_distinct`, closed, with the hash the driver really runs the model with. -/
theorem names_distinct_driverHash_closed :
    ∃ Sm, schemaMut progF hashF fuelF (.named 2 []) = some Sm ∧ (definedNames Sm).Nodup := by
  cases h : schemaMut progF hashF fuelF (.named 2 []) with
  | none => exact absurd h (by decide +kernel)
  | some Sm => exact ⟨Sm, rfl, C20_names_distinct _ _ _ _ Sm h progF_namesWfOn_driverHash⟩

example : (schemaMut progF hashF fuelF (.named 2 [])).map definedNames =
    some ["m.Tree", "m.Pair_H0", "m.Pair_H1", "m.Color"] := by decide +kernel

/-- `C20_names_distinct_of_nameInj` (hypotheses `StructWf`, `NameInjOn` on the built keys) with
    the driver's hash, `NameInjOn` obtained from `nameInjOn_of_textWfOn`. -/
theorem progF_nameInjOn_driverHash :
    DeriveNames.NameInjOn progF hashF (fun k => k ∈ DeriveNames.builtKeys progF hashF fuelF (.named 2 [])) :=
  DeriveNames.nameInjOn_of_textWfOn progF_namesWfOn_driverHash.toTextWfOn
    (fun _ hk hg => List.mem_filter.2 ⟨hk, hg⟩)

example (Sm : SchemaMut) (h : schemaMut progF hashF fuelF (.named 2 []) = some Sm) :
    (definedNames Sm).Nodup :=
  C20_names_distinct_of_nameInj _ _ _ _ Sm h progF_namesWfOn_driverHash.toStructWf
    progF_nameInjOn_driverHash

/-- The restricted injectivity is needed: a hash that collides on the two registered
    generic-record keys defines `m.Pair_X` twice (and fails `NamesWfOn.hash_inj` there). -/
example : (schemaMut progF (fun _ => "X") fuelF (.named 2 [])).map definedNames =
    some ["m.Tree", "m.Pair_X", "m.Pair_X", "m.Color"] := by decide +kernel

example : ¬ NamesWfOn progF (fun _ => "X")
    (DeriveNames.genericRecordKeys progF (fun _ => "X") fuelF (.named 2 [])) := by
  intro h
  have e : DeriveNames.genericRecordKeys progF (fun _ => "X") fuelF (.named 2 []) = [kStr, kLong] := by
    decide +kernel
  have := h.hash_inj kStr (by rw [e]; decide) kLong (by rw [e]; decide) rfl
  revert this; decide

/-- … while the global hypotheses stay out of reach of that hash. -/
example : ¬ NamesWf progF hashF := driverHash_not_namesWf progF keyStrF labelsF

/-- The general form on the same instance (any labels covering the two keys would do). -/
example (Sm : SchemaMut) (h : schemaMut progF hashF fuelF (.named 2 []) = some Sm) :
    (definedNames Sm).Nodup :=
  names_distinct_driverHash progF keyStrF labelsF fuelF _ Sm DeriveNames.hashDemo h (progF_namesWf.on [])
    (fun k _ k' _ => DeriveNames.hashDemo_inj k k')
    (by rw [show DeriveNames.genericRecordKeys progF (driverHash keyStrF labelsF) fuelF (.named 2 []) =
          [kStr, kLong] from genericRecordKeys_progF]; decide +kernel)

/-- C14 on a derived schema: `C20_keys_in_bounds` + `freezeNodes_keysInBounds` discharge the second
    disjunct of `C14_no_assert_panic_of_get` — no serializer call tree at all (of the type or
    not) panics at the root of a derived schema, on any clean pool, any budget. -/
example (ext : Avro.Impl.Ext) (hash : Key → String) (fuel : Nat) (Sm : SchemaMut)
    (h : schemaMut progF hash fuel (.named 2 []) = some Sm) (sv : SV) (s : SerState)
    (hc : PoolClean s.pool) :
    ∃ node, (freezeNodes Sm)[0]? = some node ∧
      (ser ext false (freezeNodes Sm) node sv s).1 ≠ .error .panic := by
  have hsz : 0 < (freezeNodes Sm).size := by
    rw [freezeNodes_size]; exact C20_root_is_node_zero _ _ _ _ Sm h
  have hget : (freezeNodes Sm)[0]? = some (freezeNodes Sm)[0] := Array.getElem?_eq_getElem hsz
  refine ⟨(freezeNodes Sm)[0], hget, ?_⟩
  rcases C14_no_assert_panic_of_get ext false (freezeNodes Sm) 0 _ hget sv s hc with h' | h'
  · exact h'
  · exact (h' (freezeNodes_keysInBounds Sm (C20_keys_in_bounds _ _ _ _ Sm h))).elim

end NVF20

end Avro.Theorems
