import AvroModel.Lemmas.RenderValid
import AvroModel.Theorems.C07valid
import AvroModel.Theorems.C09globalC08
/-
C09, unconditional: **the JSON document rendered for a node graph is a valid schema document, the
crate's own parser accepts it, and the schema it parses to has the canonical form of the graph.**

`Theorems/C09globalC08.lean` had the last statement under the hypothesis "the rendered document
parses".  Here that hypothesis is discharged:

* `C09_render_validDoc`      the rendered document satisfies `Spec.ValidDoc` (shape of a schema, no
                             forward reference, no fullname defined twice, every schema object as
                             the parser's reader wants it);
* `C09_render_definedNames`  the names it defines are those of the reachable named nodes, all of
                             them, each node once; every reachable key is in bounds;
* `C09_render_namesDistinct_iff`, `C09_distinct_necessary`  "no fullname defined twice" is
                             EQUIVALENT to `DistinctNames S`, which is therefore necessary for
                             the document to parse, in general;
* `C09_render_wellTyped_iff`, `C09_render_validDoc_iff`  likewise `wellTyped` of the document is
                             EQUIVALENT to `NodesOk S`; so the document is valid IF AND ONLY IF
                             `DistinctNames S ∧ NodesOk S` (given well-formed names);
* `C09_render_noCycle`       no unconditional record cycle among the reachable nodes of the graph
                             ⇒ none in the document (`Spec.NoUnconditionalCycle`);
* `C09_render_parses`        hence (`C07_valid_parses`) `parseJson j n = .ok S'` for every
                             `n ≥ schemaSize j`, if the document is within `serde_json`'s
                             recursion limit;
* `C09_render_roundtrip_pcf` and `S'` has the canonical form of `S`;
* `…_dec`                    the same with every hypothesis a decidable test on the graph
                             (`namesWFb`, `graphOkB`, `checkForCycles`);
* `noRecCycle_of_check`, `noRecCycle_of_acyclic`, `noRecCycle_no_reachable_cycle`: the hypothesis
  on cycles against the crate's `check_for_cycles` and against `recEdge`.

Hypotheses (all on the nodes REACHABLE from the root, `RenderValid.Reach S`, except the first,
kept in the form of `C09_render_has_graph_pcf`), each with a concrete graph showing it cannot be
dropped (section "tightness"):

* `NamesWF S`        names as the crate's `Name` can hold them        — `C09_wf_needed`
* `DistinctNames S`  two reachable named nodes with the same fullname are the same node
                                                                       — `C09_distinct_needed`
* `NodesOk S`        `scale` fits 32 bits, `precision` and the size of a `fixed` 64 bits (they are
                     `u32` / `usize` in the crate, `Nat` in the model), and no *unknown* logical
                     type is called `decimal`                          — `C09_unknown_decimal_needed`,
                                                                         `C09_size_needed`, `C09_scale_needed`,
                                                                         `C09_precision_needed`
* `hrender : renderJson S fuel = .ok j`  the renderer succeeds.  This covers: enough fuel, every
                     reachable key in bounds, no union carrying a logical type, no cycle through
                     unnamed nodes (in each of these cases there is no rendered document:
                     `C09_no_document_*`).
* `jsonNesting j ≤ 127`   the recursion limit of `serde_json`         — `C09_nesting_needed`
* `NoRecCycle S`     no reachable record unconditionally contains itself — `C09_cycle_needed`
* `schemaSize j ≤ n` registration fuel of the parser MODEL (not of the crate) — `C09_size_fuel_needed`
-/
namespace Avro.Theorems
open Avro Avro.Impl Avro.Spec Avro.Spec.Pcf Avro.RenderValid

/-! ### the rendered document is valid -/

/-- **C09: the rendered document is a valid schema document.** -/
theorem C09_render_validDoc (S : SchemaMut) (fuel : Nat) (j : Json)
    (hwf : RenderPcf.NamesWF S) (hdist : DistinctNames S) (hok : NodesOk S)
    (hrender : renderJson S fuel = .ok j) : ValidDoc j = true :=
  render_validDoc S fuel j ⟨hwf, hdist, hok⟩ hrender

/-- The names the rendered document defines are the fullnames of the named nodes reachable from
    the root — all of them, each node once, in document order — and every key reachable from the
    root is in bounds (otherwise the renderer fails: this is why `hrender` makes a hypothesis
    "keys in bounds" redundant).  Needs only well-formed names. -/
theorem C09_render_definedNames (S : SchemaMut) (fuel : Nat) (j : Json)
    (hwf : RenderPcf.NamesWF S) (hrender : renderJson S fuel = .ok j) :
    (∃ W : List Nat, definedNames j = W.map (fnOf S) ∧ W.Nodup ∧
      ∀ i, i ∈ W ↔ Reach S i ∧ IsNamed S i) ∧
    ∀ i, Reach S i → ∃ node, S[i]? = some node := by
  obtain ⟨h1, h2, -, -⟩ := render_doc_facts S fuel j (fun _ => 0) hwf hrender
  exact ⟨h1, h2⟩

/-- **`DistinctNames` is the weakest hypothesis for its purpose**: the rendered document defines
    no fullname twice IF AND ONLY IF two reachable named nodes with the same fullname are the
    same node. -/
theorem C09_render_namesDistinct_iff (S : SchemaMut) (fuel : Nat) (j : Json)
    (hwf : RenderPcf.NamesWF S) (hrender : renderJson S fuel = .ok j) :
    namesDistinct j = true ↔ DistinctNames S :=
  render_namesDistinct_iff S fuel j hwf hrender

/-- ... hence it is NECESSARY for the rendered document to parse, in general (not only on the
    example `C09_distinct_needed`). -/
theorem C09_distinct_necessary (S : SchemaMut) (fuel : Nat) (j : Json) (n : Nat) (S' : SchemaMut)
    (hwf : RenderPcf.NamesWF S) (hrender : renderJson S fuel = .ok j)
    (hparse : parseJson j n = .ok S') : DistinctNames S :=
  (C09_render_namesDistinct_iff S fuel j hwf hrender).mp (C07_parses_names_distinct j n S' hparse)

/-- **`NodesOk` is the weakest hypothesis for its purpose**: every schema object of the rendered
    document is what the parser's reader wants IF AND ONLY IF the reachable nodes are `NodesOk`. -/
theorem C09_render_wellTyped_iff (S : SchemaMut) (fuel : Nat) (j : Json)
    (hwf : RenderPcf.NamesWF S) (hrender : renderJson S fuel = .ok j) :
    wellTyped j = true ↔ NodesOk S :=
  (render_doc_facts S fuel j (fun _ => 0) hwf hrender).2.2.1.symm

/-- **Exactly when the rendered document is valid** (names well formed, the renderer succeeds):
    iff distinct reachable named nodes have distinct fullnames and the reachable nodes are
    `NodesOk`. -/
theorem C09_render_validDoc_iff (S : SchemaMut) (fuel : Nat) (j : Json)
    (hwf : RenderPcf.NamesWF S) (hrender : renderJson S fuel = .ok j) :
    ValidDoc j = true ↔ DistinctNames S ∧ NodesOk S := by
  constructor
  · intro h
    obtain ⟨-, -, h3, h4⟩ := validDoc_parts h
    exact ⟨(C09_render_namesDistinct_iff S fuel j hwf hrender).mp h3,
      (C09_render_wellTyped_iff S fuel j hwf hrender).mp h4⟩
  · rintro ⟨h1, h2⟩
    exact C09_render_validDoc S fuel j hwf h1 h2 hrender

/-- **C09: no unconditional record cycle in the graph ⇒ none in the rendered document.** -/
theorem C09_render_noCycle (S : SchemaMut) (fuel : Nat) (j : Json)
    (hwf : RenderPcf.NamesWF S) (hdist : DistinctNames S) (hok : NodesOk S)
    (hc : NoRecCycle S) (hrender : renderJson S fuel = .ok j) : NoUnconditionalCycle j :=
  render_noUnconditionalCycle S fuel j ⟨hwf, hdist, hok⟩ hc hrender

/-- **C09: the rendered document parses** — for every registration fuel `n ≥ schemaSize j`. -/
theorem C09_render_parses (S : SchemaMut) (fuel : Nat) (j : Json) (n : Nat)
    (hwf : RenderPcf.NamesWF S) (hdist : DistinctNames S) (hok : NodesOk S)
    (hrender : renderJson S fuel = .ok j) (hd : jsonNesting j ≤ 127) (hc : NoRecCycle S)
    (hn : schemaSize j ≤ n) : ∃ S', parseJson j n = .ok S' :=
  C07_valid_parses j n (C09_render_validDoc S fuel j hwf hdist hok hrender) hd hn
    (C09_render_noCycle S fuel j hwf hdist hok hc hrender)

/-- **C09, round trip**: the rendered document parses, and the parsed schema has the Parsing
    Canonical Form (hence the fingerprints) of the graph it was rendered from; this text is the
    specification's canonical form of the document. -/
theorem C09_render_roundtrip_pcf (S : SchemaMut) (fuel : Nat) (j : Json) (n : Nat)
    (hwf : RenderPcf.NamesWF S) (hdist : DistinctNames S) (hok : NodesOk S)
    (hrender : renderJson S fuel = .ok j) (hd : jsonNesting j ≤ 127) (hc : NoRecCycle S)
    (hn : schemaSize j ≤ n) :
    ∃ S' text, parseJson j n = .ok S' ∧ parsingCanonicalForm j = some text ∧
      (∀ fuel', fuel ≤ fuel' → canonicalForm S fuel' = .ok text) ∧
      (∀ fuel'', n + 2 ≤ fuel'' → canonicalForm S' fuel'' = .ok text) := by
  obtain ⟨S', hS'⟩ := C09_render_parses S fuel j n hwf hdist hok hrender hd hc hn
  obtain ⟨text, h1, h2, h3⟩ := C09_reparsed_has_same_pcf S fuel j n S' hwf hrender hS'
  exact ⟨S', text, hS', h1, h2, h3⟩

/-- In one equation. -/
theorem C09_render_roundtrip_canonicalForm_eq (S : SchemaMut) (fuel : Nat) (j : Json) (n : Nat)
    (hwf : RenderPcf.NamesWF S) (hdist : DistinctNames S) (hok : NodesOk S)
    (hrender : renderJson S fuel = .ok j) (hd : jsonNesting j ≤ 127) (hc : NoRecCycle S)
    (hn : schemaSize j ≤ n) :
    ∃ S', parseJson j n = .ok S' ∧
      ∀ fuel' fuel'', fuel ≤ fuel' → n + 2 ≤ fuel'' →
        canonicalForm S' fuel'' = canonicalForm S fuel' := by
  obtain ⟨S', text, h0, -, h2, h3⟩ :=
    C09_render_roundtrip_pcf S fuel j n hwf hdist hok hrender hd hc hn
  exact ⟨S', h0, fun fuel' fuel'' h' h'' => by rw [h2 fuel' h', h3 fuel'' h'']⟩

/-! ### the hypothesis on cycles, against `check_for_cycles` and `recEdge` -/

/-- rank of a node from a reverse post-order of the records -/
def topoRank : List Nat → Nat → Nat
  | [], _ => 0
  | c :: l, i => if i ∈ l then topoRank l i else if i = c then l.length + 1 else 0

theorem topoRank_le (l : List Nat) (i : Nat) : topoRank l i ≤ l.length := by
  induction l with
  | nil => simp [topoRank]
  | cons c l ih =>
    simp only [topoRank, List.length_cons]
    split
    · omega
    · split <;> omega

theorem topoRank_edge {S : SchemaMut} {L : List Nat} (h : TopoSorted S L) {i j : Nat}
    (hi : i ∈ L) (e : recEdge S i j) : topoRank L j < topoRank L i := by
  induction L with
  | nil => cases hi
  | cons c l ih =>
    obtain ⟨h1, h2⟩ := h
    by_cases hil : i ∈ l
    · have hjl : j ∈ l := h2.closed hil e
      simp only [topoRank, hil, hjl, if_true]
      exact ih h2 hil
    · have hic : i = c := by
        rcases List.mem_cons.mp hi with e' | e'
        · exact e'
        · exact absurd e' hil
      subst hic
      have hjl : j ∈ l := h1 j e
      simp only [topoRank, hil, hjl, if_true, if_false]
      have := topoRank_le l j
      omega

theorem recEdge_of_field {S : SchemaMut} {i k : Nat} {ni nk : RawNode} {nmi nmk : Name}
    {fs fk : List (String × Nat)} (hi : S[i]? = some ni) (hti : ni.type = .record nmi fs)
    (hk : k ∈ fs.map (·.2)) (hnk : S[k]? = some nk) (htk : nk.type = .record nmk fk) :
    recEdge S i k := by
  obtain ⟨tyi, lgi⟩ := ni
  obtain ⟨tyk, lgk⟩ := nk
  simp only at hti htk
  subst hti htk
  refine ⟨by simp [isRecord, hi], by simp [isRecord, hnk], ?_⟩
  simp only [recordFieldKeys, hi]
  exact hk

/-- A ranking of the nodes along `recEdge` is a ranking in the sense of `NoRecCycle`. -/
theorem noRecCycle_of_rank (S : SchemaMut) (r : Nat → Nat)
    (h : ∀ i j, recEdge S i j → r j < r i) : NoRecCycle S :=
  ⟨r, fun i _ _ _ k _ _ _ _ hi hti hk hnk htk => h i k (recEdge_of_field hi hti hk hnk htk)⟩

/-- **The crate's `check_for_cycles` passing on the graph gives the hypothesis.** -/
theorem noRecCycle_of_check (S : SchemaMut) (h : checkForCycles S = .ok ()) : NoRecCycle S := by
  obtain ⟨L, sL, allL⟩ := checkForCycles_sound S h
  exact noRecCycle_of_rank S (topoRank L) fun i j e => topoRank_edge sL (allL i e.1) e

/-- ... and so does: no cycle of record → record field edges anywhere in the graph. -/
theorem noRecCycle_of_acyclic (S : SchemaMut)
    (h : ¬ ∃ i, Relation.TransGen (recEdge S) i i) : NoRecCycle S :=
  noRecCycle_of_check S ((C07_cycle_check_iff S).2.mpr h)

theorem reach_of_recEdge {S : SchemaMut} {i j : Nat} (hr : Reach S i) (e : recEdge S i j) :
    Reach S j := by
  obtain ⟨-, -, hk⟩ := e
  unfold recordFieldKeys at hk
  cases hS : S[i]? with
  | none => rw [hS] at hk; cases hk
  | some node =>
    rw [hS] at hk
    obtain ⟨ty, lg⟩ := node
    cases ty <;> first | cases hk | exact .step hr hS hk

/-- Conversely the hypothesis is no more than: no cycle of record → record field edges through a
    node reachable from the root (it does not look at unreachable nodes, unlike
    `checkForCycles S`). -/
theorem noRecCycle_no_reachable_cycle (S : SchemaMut) (h : NoRecCycle S) (i : Nat)
    (hr : Reach S i) : ¬ Relation.TransGen (recEdge S) i i := by
  obtain ⟨r, hrk⟩ := h
  have step : ∀ a b, Reach S a → recEdge S a b → r b < r a := by
    intro a b ha e
    have e' := e
    obtain ⟨h1, h2, hk⟩ := e
    obtain ⟨nma, fsa, lga, hSa⟩ := ValidParses.isRecord_inv h1
    obtain ⟨nmb, fsb, lgb, hSb⟩ := ValidParses.isRecord_inv h2
    simp only [recordFieldKeys, hSa] at hk
    exact hrk a _ nma fsa b _ nmb fsb ha hSa rfl hk hSb rfl
  have key : ∀ b, Relation.TransGen (recEdge S) i b → Reach S b ∧ r b < r i := by
    intro b p
    induction p with
    | single e => exact ⟨reach_of_recEdge hr e, step _ _ hr e⟩
    | tail _ e ih => exact ⟨reach_of_recEdge ih.1 e, Nat.lt_trans (step _ _ ih.1 e) ih.2⟩
  intro p
  exact Nat.lt_irrefl _ (key i p).2

/-! ### every hypothesis a decidable test on the graph -/

/-- **C09, round trip, checked**: names well formed (`namesWFb`), among the reachable nodes
    distinct fullnames and numbers / logical types the parser reads (`graphOkB`), the crate's
    cycle check passes on the graph, the renderer succeeds with a document within the recursion
    limit ⇒ the document is valid, parses, and the parsed schema has the canonical form of the
    graph. -/
theorem C09_render_roundtrip_dec (S : SchemaMut) (fuel : Nat) (j : Json) (n : Nat)
    (hwf : RenderPcf.namesWFb S = true) (hg : graphOkB S = true)
    (hrender : renderJson S fuel = .ok j) (hd : jsonNesting j ≤ 127)
    (hc : checkForCycles S = .ok ()) (hn : schemaSize j ≤ n) :
    ValidDoc j = true ∧
    ∃ S', parseJson j n = .ok S' ∧
      ∀ fuel' fuel'', fuel ≤ fuel' → n + 2 ≤ fuel'' →
        canonicalForm S' fuel'' = canonicalForm S fuel' := by
  obtain ⟨h1, h2, h3⟩ := hyp_of_b hwf hg
  exact ⟨C09_render_validDoc S fuel j h1 h2 h3 hrender,
    C09_render_roundtrip_canonicalForm_eq S fuel j n h1 h2 h3 hrender hd
      (noRecCycle_of_check S hc) hn⟩

/-! ### tightness: no hypothesis can be dropped -/

/-- what happens to the rendering of `S`: the four conjuncts of `ValidDoc`, the two size tests and
    the outcome of the parser (`verdict`, `Theorems/C07valid.lean`), and the decidable cycle test
    on the document; `none` if there is no rendered document -/
def renderVerdict (S : SchemaMut) (fuel n : Nat) : Option (Verdict × Bool) :=
  match renderJson S fuel with
  | .ok j => some (verdict j n, noUnconditionalCycleB j)
  | .error _ => none

/-- the crate's cycle check passes -/
def cyclesOkB (S : SchemaMut) : Bool :=
  match checkForCycles S with
  | .ok _ => true
  | .error _ => false

theorem cyclesOkB_iff (S : SchemaMut) : cyclesOkB S = true ↔ checkForCycles S = .ok () := by
  unfold cyclesOkB
  cases checkForCycles S <;> simp

/-- the three decidable tests on the graph -/
def graphTests (S : SchemaMut) : Bool × Bool × Bool :=
  (RenderPcf.namesWFb S, graphOkB S, cyclesOkB S)

/-- `DistinctNames`: two enums both called `E`.  Everything else holds; the document defines `E`
    twice and is rejected. -/
def graphTwoE : SchemaMut := #[
  ⟨.record ⟨"R", "R", none⟩ [("a", 1), ("b", 2)], none⟩,
  ⟨.enum ⟨"E", "E", none⟩ ["A"], none⟩,
  ⟨.enum ⟨"E", "E", none⟩ ["B"], none⟩]

theorem C09_distinct_needed :
    graphTests graphTwoE = (true, false, true) ∧
    renderVerdict graphTwoE 12 100 =
      some (⟨true, true, false, true, true, true, some .custom⟩, true) := by
  refine ⟨by decide +kernel, by decide +kernel⟩

theorem graphTwoE_not_distinct : ¬ DistinctNames graphTwoE := by
  intro h
  have h1 : Reach graphTwoE 1 := .step (node := graphTwoE[0]) .root rfl (by decide)
  have h2 : Reach graphTwoE 2 := .step (node := graphTwoE[0]) .root rfl (by decide)
  have := h 1 2 _ _ _ _ h1 h2 rfl rfl rfl rfl rfl
  omega

/-- `NamesWF`: the second enum has the fullname `(m, F)` but its `fq` is `n.E` (not what a `Name`
    of the crate can hold); distinct fullnames, yet both are written `"name":"n.E"`. -/
def graphBadName : SchemaMut := #[
  ⟨.union [1, 2], none⟩,
  ⟨.enum ⟨"n.E", "E", some "n"⟩ ["A"], none⟩,
  ⟨.enum ⟨"n.E", "F", some "m"⟩ ["B"], none⟩]

theorem C09_wf_needed :
    graphTests graphBadName = (false, true, true) ∧
    renderVerdict graphBadName 12 100 =
      some (⟨true, true, false, true, true, true, some .custom⟩, true) := by
  refine ⟨by decide +kernel, by decide +kernel⟩

/-- `NodesOk`, logical type: an UNKNOWN logical type whose name is `decimal`
    (`LogicalType::Unknown(UnknownLogicalType::new("decimal"))`, constructible with the crate's
    public API) is written `{"logicalType":"decimal","type":"bytes"}`, without `precision`; the
    parser takes it for the `decimal` logical type and refuses it. -/
def graphUnknownDecimal : SchemaMut := #[⟨.bytes, some (.unknown "decimal")⟩]

theorem C09_unknown_decimal_needed :
    graphTests graphUnknownDecimal = (true, false, true) ∧
    renderJson graphUnknownDecimal 5 =
      .ok (.obj [("logicalType", .str "decimal"), ("type", .str "bytes")]) ∧
    renderVerdict graphUnknownDecimal 5 100 =
      some (⟨true, true, true, false, true, true, some .custom⟩, true) := by
  refine ⟨by decide +kernel, by rfl, by decide +kernel⟩

/-- `NodesOk`, numbers (`Nat` in the model, `usize` / `u32` in the crate, where these graphs do
    not exist): a `fixed` of size `2^64`, a `decimal` of scale `2^32`. -/
def graphBigFixed : SchemaMut := #[⟨.fixed ⟨"F", "F", none⟩ (2 ^ 64), none⟩]
def graphBigScale : SchemaMut := #[⟨.bytes, some (.decimal (2 ^ 32) 5)⟩]

theorem C09_size_needed :
    graphTests graphBigFixed = (true, false, true) ∧
    renderVerdict graphBigFixed 5 100 =
      some (⟨true, true, true, false, true, true, some .json⟩, true) := by
  refine ⟨by decide +kernel, by decide +kernel⟩

theorem C09_scale_needed :
    graphTests graphBigScale = (true, false, true) ∧
    renderVerdict graphBigScale 5 100 =
      some (⟨true, true, true, false, true, true, some .json⟩, true) := by
  refine ⟨by decide +kernel, by decide +kernel⟩

theorem C09_precision_needed :
    graphTests #[⟨.bytes, some (.decimal 1 (2 ^ 64))⟩] = (true, false, true) ∧
    renderVerdict #[⟨.bytes, some (.decimal 1 (2 ^ 64))⟩] 5 100 =
      some (⟨true, true, true, false, true, true, some .json⟩, true) := by
  refine ⟨by decide +kernel, by decide +kernel⟩

/-- `NoRecCycle`: `record R { f : R }`.  The document is VALID (`C09_render_validDoc` does not
    need the hypothesis) and is rejected with the `cycle` error. -/
def graphSelf : SchemaMut := #[⟨.record ⟨"R", "R", none⟩ [("f", 0)], none⟩]

theorem C09_cycle_needed :
    graphTests graphSelf = (true, true, false) ∧
    renderVerdict graphSelf 5 100 =
      some (⟨true, true, true, true, true, true, some .cycle⟩, false) := by
  refine ⟨by decide +kernel, by decide +kernel⟩

theorem graphSelf_cycle : ¬ NoRecCycle graphSelf := by
  rintro ⟨r, h⟩
  have := h 0 _ _ _ 0 _ _ _ .root rfl rfl (by decide) rfl rfl
  omega

/-- `jsonNesting j ≤ 127`: 128 nested arrays.  A valid document, beyond the recursion limit of
    `serde_json`. -/
def graphDeep (d : Nat) : SchemaMut :=
  (((List.range d).map fun i => (⟨.array (i + 1), none⟩ : RawNode)).toArray).push ⟨.int, none⟩

theorem C09_nesting_needed :
    graphTests (graphDeep 128) = (true, true, true) ∧
    renderVerdict (graphDeep 127) 140 300 =
      some (⟨true, true, true, true, true, true, none⟩, true) ∧
    renderVerdict (graphDeep 128) 140 300 =
      some (⟨true, true, true, true, false, true, some .json⟩, true) := by
  refine ⟨by decide +kernel, by decide +kernel, by decide +kernel⟩

/-- `schemaSize j ≤ n` (fuel of the registration in the parser MODEL; `panic` is the model's
    out-of-fuel, not an outcome of the crate): the document of `graphDeep 2` has size 6. -/
theorem C09_size_fuel_needed :
    renderVerdict (graphDeep 2) 10 3 =
      some (⟨true, true, true, true, true, false, some .panic⟩, true) ∧
    renderVerdict (graphDeep 2) 10 6 =
      some (⟨true, true, true, true, true, true, none⟩, true) := by
  refine ⟨by decide +kernel, by decide +kernel⟩

/-- `hrender`: a key out of bounds, a union that carries a logical type, a cycle through unnamed
    nodes, too little fuel — no document is rendered (the first three are errors of the crate's
    `Serialize`, the last is the model's out-of-fuel). -/
theorem C09_no_document_key : renderJson #[⟨.array 5, none⟩] 5 = .error .custom := by rfl
theorem C09_no_document_union_logical :
    renderJson #[⟨.union [1], some .date⟩, ⟨.int, none⟩] 5 = .error .custom := by rfl
theorem C09_no_document_unnamed_cycle :
    renderJson #[⟨.array 1, none⟩, ⟨.map 0, none⟩] 50 = .error .custom := by rfl
theorem C09_no_document_fuel : renderJson (graphDeep 2) 2 = .error .panic := by rfl

/-- The hypotheses look at the REACHABLE nodes only: here the nodes 1 and 2 are not reachable
    from the root — a second enum called `E`, and a record that contains itself, carrying the
    unknown logical type `decimal`.  `checkForCycles` (which looks at every node) fails, the
    hypotheses of `C09_render_roundtrip_pcf` hold. -/
def graphJunk : SchemaMut := #[
  ⟨.enum ⟨"E", "E", none⟩ ["A"], none⟩,
  ⟨.enum ⟨"E", "E", none⟩ ["B"], none⟩,
  ⟨.record ⟨"R", "R", none⟩ [("f", 2)], some (.unknown "decimal")⟩]

theorem graphJunk_reach {i : Nat} (h : Reach graphJunk i) : i = 0 := by
  induction h with
  | root => rfl
  | step _ hk hc ih =>
    subst ih
    have : graphJunk[0]? = some ⟨.enum ⟨"E", "E", none⟩ ["A"], none⟩ := rfl
    rw [this] at hk
    cases hk
    cases hc

theorem graphJunk_noRecCycle : NoRecCycle graphJunk :=
  ⟨fun _ => 0, fun i ni nmi fs k nk nmk fk hr hi hti _ _ _ => by
    have := graphJunk_reach hr
    subst this
    have e : graphJunk[0]? = some ⟨.enum ⟨"E", "E", none⟩ ["A"], none⟩ := rfl
    rw [e] at hi
    cases hi
    cases hti⟩

example : graphTests graphJunk = (true, true, false) ∧ reachList graphJunk = [0] := by
  refine ⟨by decide +kernel, by decide +kernel⟩

example (j : Json) (h : renderJson graphJunk 5 = .ok j) (n : Nat) (hn : schemaSize j ≤ n)
    (hd : jsonNesting j ≤ 127) : ∃ S', parseJson j n = .ok S' := by
  obtain ⟨h1, h2, h3⟩ := hyp_of_b (S := graphJunk) (by decide +kernel) (by decide +kernel)
  exact C09_render_parses graphJunk 5 j n h1 h2 h3 h hd graphJunk_noRecCycle hn

/-! ### non-vacuity -/

/-- A record `a.R` with: an enum `a.Color` (met three times), a fixed `b.Hash` of another
    namespace (met twice), a union with a recursive reference to `a.R`, an array, a logical type
    on a primitive (`timestamp-millis`) and on a fixed (`decimal`), a nested record `a.Inner`
    (a record → record edge) that refers back to `a.R` through a map. -/
def graphAll : SchemaMut := #[
  ⟨.record ⟨"a.R", "R", some "a"⟩
    [("color", 1), ("hash", 2), ("next", 3), ("tags", 5), ("when", 7), ("color2", 1),
     ("amount", 8), ("inner", 9)], none⟩,
  ⟨.enum ⟨"a.Color", "Color", some "a"⟩ ["RED", "GREEN"], none⟩,
  ⟨.fixed ⟨"b.Hash", "Hash", some "b"⟩ 16, none⟩,
  ⟨.union [4, 0], none⟩,
  ⟨.null, none⟩,
  ⟨.array 6, none⟩,
  ⟨.string, none⟩,
  ⟨.long, some .timestampMillis⟩,
  ⟨.fixed ⟨"a.Dec", "Dec", some "a"⟩ 8, some (.decimal 2 18)⟩,
  ⟨.record ⟨"a.Inner", "Inner", some "a"⟩ [("c", 1), ("back", 10), ("h", 2)], none⟩,
  ⟨.map 0, none⟩]

/-- the document rendered for it -/
def docAll : Json :=
  .obj [("type", .str "record"), ("name", .str "a.R"), ("fields", .arr [
    .obj [("name", .str "color"), ("type", .obj [("type", .str "enum"), ("name", .str "Color"),
      ("symbols", .arr [.str "RED", .str "GREEN"])])],
    .obj [("name", .str "hash"), ("type", .obj [("type", .str "fixed"), ("name", .str "b.Hash"),
      ("size", .nat 16)])],
    .obj [("name", .str "next"), ("type", .arr [.str "null", .str "R"])],
    .obj [("name", .str "tags"), ("type", .obj [("type", .str "array"), ("items", .str "string")])],
    .obj [("name", .str "when"), ("type",
      .obj [("logicalType", .str "timestamp-millis"), ("type", .str "long")])],
    .obj [("name", .str "color2"), ("type", .str "Color")],
    .obj [("name", .str "amount"), ("type", .obj [("logicalType", .str "decimal"),
      ("type", .str "fixed"), ("scale", .nat 2), ("precision", .nat 18), ("name", .str "Dec"),
      ("size", .nat 8)])],
    .obj [("name", .str "inner"), ("type", .obj [("type", .str "record"), ("name", .str "Inner"),
      ("fields", .arr [
        .obj [("name", .str "c"), ("type", .str "Color")],
        .obj [("name", .str "back"), ("type", .obj [("type", .str "map"), ("values", .str "R")])],
        .obj [("name", .str "h"), ("type", .str "b.Hash")]])])]])]

theorem graphAll_renders : renderJson graphAll 30 = .ok docAll := by rfl

theorem graphAll_tests :
    graphTests graphAll = (true, true, true) ∧
    reachList graphAll = [10, 9, 8, 7, 6, 5, 4, 3, 2, 1, 0] ∧
    jsonNesting docAll = 7 ∧ schemaSize docAll = 44 := by
  refine ⟨by decide +kernel, by decide +kernel, by decide +kernel, by decide +kernel⟩

theorem graphAll_hyp : RenderPcf.NamesWF graphAll ∧ DistinctNames graphAll ∧ NodesOk graphAll := by
  obtain ⟨h1, h2, h3⟩ := hyp_of_b (S := graphAll) (by decide +kernel) (by decide +kernel)
  exact ⟨h1, h2, h3⟩

theorem graphAll_noRecCycle : NoRecCycle graphAll :=
  noRecCycle_of_check graphAll ((cyclesOkB_iff _).mp (by decide +kernel))

/-- `C09_render_validDoc` instantiated (and the conclusion evaluated). -/
example : ValidDoc docAll = true :=
  C09_render_validDoc graphAll 30 docAll graphAll_hyp.1 graphAll_hyp.2.1 graphAll_hyp.2.2
    graphAll_renders

example : ValidDoc docAll = true ∧
    definedNames docAll =
      [(some "a", "R"), (some "a", "Color"), (some "b", "Hash"), (some "a", "Dec"),
       (some "a", "Inner")] := by
  refine ⟨by decide +kernel, by decide +kernel⟩

/-- `C09_render_parses` instantiated: for every `n ≥ 44`. -/
example (n : Nat) (hn : 44 ≤ n) : ∃ S', parseJson docAll n = .ok S' :=
  C09_render_parses graphAll 30 docAll n graphAll_hyp.1 graphAll_hyp.2.1 graphAll_hyp.2.2
    graphAll_renders (by decide +kernel) graphAll_noRecCycle
    (Nat.le_trans (by decide +kernel) hn)

/-- `C09_render_roundtrip_pcf` instantiated. -/
example : ∃ S' text, parseJson docAll 44 = .ok S' ∧ parsingCanonicalForm docAll = some text ∧
    (∀ fuel', 30 ≤ fuel' → canonicalForm graphAll fuel' = .ok text) ∧
    (∀ fuel'', 46 ≤ fuel'' → canonicalForm S' fuel'' = .ok text) :=
  C09_render_roundtrip_pcf graphAll 30 docAll 44 graphAll_hyp.1 graphAll_hyp.2.1 graphAll_hyp.2.2
    graphAll_renders (by decide +kernel) graphAll_noRecCycle (by decide +kernel)

/-- ... with every hypothesis evaluated. -/
example : ValidDoc docAll = true ∧ ∃ S', parseJson docAll 44 = .ok S' ∧
    ∀ fuel' fuel'', 30 ≤ fuel' → 46 ≤ fuel'' →
      canonicalForm S' fuel'' = canonicalForm graphAll fuel' :=
  C09_render_roundtrip_dec graphAll 30 docAll 44 (by decide +kernel) (by decide +kernel)
    graphAll_renders (by decide +kernel) ((cyclesOkB_iff _).mp (by decide +kernel))
    (by decide +kernel)

/-- and what the parser does build from the document here: the graph itself. -/
example : (match parseJson docAll 44 with
    | .ok S' => decide (S' = graphAll)
    | .error _ => false) = true := by decide +kernel

end Avro.Theorems
