import AvroModel.Lemmas.Freeze
import AvroModel.Lemmas.Lifetimes
/-
C10: what a theorem can carry about the `unsafe` parts of the crate — the *protocol*.

Part A (freeze): statements about every event trace of `TryFrom<SchemaMut> for Schema`
(`Impl/Freeze.lean`), for every node vector `S` (dangling keys, cycles, empty included).
Part B (lifetimes): statements about every history of API calls over the ownership model
(`Impl/Lifetimes.lean`).

The absence of undefined behaviour in the compiled code itself is left to Miri / the sanitizers on
the same histories (DESIGN.md section 8, C10 — partial).
-/
namespace Avro.Theorems
open Avro Avro.Impl Avro.Impl.Freeze Avro.Lemmas.Freeze

/-! ## Part A: the freeze protocol -/

/-- (1) every `NodeRef` ever created is `base + k` with `k` inside the one allocation. -/
theorem C10_refs_in_bounds (S : SchemaMut) : ∀ k, Ev.mkRef k ∈ trace S → k < S.size := by
  intro k h
  rcases trace_mem h with h | ⟨b, h⟩ | ⟨k', h, hk⟩ | ⟨i, h, _⟩ | ⟨_, i, vs, _, _, h | ⟨j, _, h⟩⟩ <;>
    cases h
  exact hk

/-- phase 1 succeeded ⇒ every child key of every node is in bounds (what makes the phase-2 reads
    safe). -/
theorem C10_phase1_ok_keys_in_bounds (S : SchemaMut)
    (hok : (phase1 S S.size (List.range S.size)).2 = true) :
    ∀ (i : Nat) (n : RawNode), S[i]? = some n → ∀ k ∈ (freezeNode n).children, k < S.size := by
  intro i n hn k hk
  have hi : i < S.size := by
    rcases Array.getElem?_eq_some_iff.1 hn with ⟨h, _⟩; exact h
  refine phase1_ok_kids hok i (List.mem_range.2 hi) k ?_
  simpa [kids, hn] using hk

/-- (2a) every write (either phase) is to a cell of the one allocation. -/
theorem C10_writes_in_bounds (S : SchemaMut) : ∀ p i, Ev.write p i ∈ trace S → i < S.size := by
  intro p i h
  rcases trace_mem h with h | ⟨b, h⟩ | ⟨k', h, hk⟩ | ⟨i', h, hi⟩ |
      ⟨_, i', vs, hi, _, h | ⟨j, _, h⟩⟩ <;> cases h
  · exact hi
  · exact hi

/-- (2b) phase 2 only reads cells of the allocation: the branch keys it follows were bounds-checked
    in phase 1. -/
theorem C10_reads_in_bounds (S : SchemaMut) : ∀ i, Ev.readKind i ∈ trace S → i < S.size := by
  intro j h
  rcases trace_mem h with h | ⟨b, h⟩ | ⟨k', h, hk⟩ | ⟨i', h, hi⟩ |
      ⟨hok, i, vs, hi, hvs, h | ⟨j', hj', h⟩⟩ <;> cases h
  refine phase1_ok_kids hok i (List.mem_range.2 hi) j ?_
  rw [kids_of_union hvs]; exact hj'

/-- a `readKind` only occurs in a successful trace, after the whole of phase 1. -/
private theorem read_pos {S : SchemaMut} {p j : Nat} (h : (trace S)[p]? = some (.readKind j)) :
    (phase1 S S.size (List.range S.size)).2 = true ∧
    trace S = (.alloc S.size :: (phase1 S S.size (List.range S.size)).1) ++
        phase2 S (List.range S.size) ++ [.ret true] ∧
    (Ev.alloc S.size :: (phase1 S S.size (List.range S.size)).1).length ≤ p := by
  rcases trace_cases S with ⟨_, ht⟩ | ⟨_, _, ht⟩ | ⟨_, hok, ht⟩
  · have := List.mem_of_getElem? h
    rw [ht] at this; simp at this
  · have := List.mem_of_getElem? h
    rw [ht] at this
    simp only [List.cons_append, List.mem_cons, List.mem_append, List.not_mem_nil, or_false] at this
    rcases this with h' | h' | h'
    · cases h'
    · rcases phase1_mem h' with ⟨_, h', _⟩ | ⟨_, h', _⟩ <;> cases h'
    · cases h'
  · refine ⟨hok, ht, ?_⟩
    apply Nat.le_of_not_lt
    intro hlt
    rw [ht, List.append_assoc, List.getElem?_append_left hlt] at h
    have := List.mem_of_getElem? h
    rcases List.mem_cons.1 this with h' | h'
    · cases h'
    · rcases phase1_mem h' with ⟨_, h', _⟩ | ⟨_, h', _⟩ <;> cases h'

/-- a phase-1 write occurs inside the phase-1 segment of the trace. -/
private theorem write1_pos {S : SchemaMut} {q i : Nat} (h : (trace S)[q]? = some (.write 1 i)) :
    q < (Ev.alloc S.size :: (phase1 S S.size (List.range S.size)).1).length := by
  apply Nat.lt_of_not_le
  intro hle
  rcases trace_cases S with ⟨_, ht⟩ | ⟨_, _, ht⟩ | ⟨_, hok, ht⟩
  · have := List.mem_of_getElem? h
    rw [ht] at this; simp at this
  · rw [ht, List.getElem?_append_right hle] at h
    have := List.mem_of_getElem? h
    simp at this
  · rw [ht, List.append_assoc, List.getElem?_append_right hle] at h
    have := List.mem_of_getElem? h
    simp only [List.mem_append, List.mem_singleton] at this
    rcases this with h' | h'
    · rcases phase2_mem h' with ⟨_, _, _, _, h' | ⟨_, _, h'⟩⟩ <;> cases h'
    · cases h'

/-- (3) no cell is read before it has been initialised: every `readKind j` at position `p` has
    `j` among the cells written by phase 1 before `p`. -/
theorem C10_no_read_before_init (S : SchemaMut) :
    ∀ p j, (trace S)[p]? = some (.readKind j) → j ∈ initialisedBefore (trace S) p := by
  intro p j h
  have hj : j < S.size := C10_reads_in_bounds S j (List.mem_of_getElem? h)
  rcases read_pos h with ⟨hok, ht, hp⟩
  rcases phase1_filterMap S S.size (List.range S.size) with ⟨m, _, hfm, hm, _⟩
  have hm := hm hok
  rw [hm, List.take_length] at hfm
  rw [initialisedBefore_eq, ht, List.append_assoc, List.take_append, List.take_of_length_le hp,
    List.filterMap_append, List.mem_append]
  left
  rw [List.filterMap_cons]
  simp only [w1idx_alloc]
  rw [hfm]
  exact List.mem_range.2 hj

/-- (3') at the moment of any read, phase 1 has written every cell `0..n-1`, in order. -/
theorem C10_reads_after_all_init (S : SchemaMut) :
    ∀ p j, (trace S)[p]? = some (.readKind j) →
      ∃ rest, initialisedBefore (trace S) p = List.range S.size ++ rest := by
  intro p j h
  rcases read_pos h with ⟨hok, ht, hp⟩
  rcases phase1_filterMap S S.size (List.range S.size) with ⟨m, _, hfm, hm, _⟩
  have hm := hm hok
  rw [hm, List.take_length] at hfm
  rw [initialisedBefore_eq, ht, List.append_assoc, List.take_append, List.take_of_length_le hp,
    List.filterMap_append, List.filterMap_cons]
  simp only [w1idx_alloc]
  rw [hfm]
  exact ⟨_, rfl⟩

/-- (3'') in particular no `readKind` occurs before the last `write 1 _`. -/
theorem C10_no_read_before_last_write1 (S : SchemaMut) :
    ∀ p q j i : Nat, (trace S)[p]? = some (Ev.readKind j) → (trace S)[q]? = some (Ev.write 1 i) →
      q < p := by
  intro p q j i hr hw
  exact Nat.lt_of_lt_of_le (write1_pos hw) (read_pos hr).2.2

/-- (4) the vector is allocated once and never grows: the only `alloc` is the head of the trace
    (of the full size). -/
theorem C10_never_grows (S : SchemaMut) :
    (∀ n, Ev.alloc n ∉ (trace S).drop 1) ∧
    (S.size > 0 → (trace S).head? = some (.alloc S.size)) := by
  have hp1 : ∀ n, Ev.alloc n ∉ (phase1 S S.size (List.range S.size)).1 := by
    intro n h'
    rcases phase1_mem h' with ⟨_, h', _⟩ | ⟨_, h', _⟩ <;> cases h'
  have hp2 : ∀ n, Ev.alloc n ∉ phase2 S (List.range S.size) := by
    intro n h'
    rcases phase2_mem h' with ⟨_, _, _, _, h' | ⟨_, _, h'⟩⟩ <;> cases h'
  rcases trace_cases S with ⟨h0, ht⟩ | ⟨h0, _, ht⟩ | ⟨h0, hok, ht⟩
  · rw [ht]
    exact ⟨by simp, by omega⟩
  · rw [ht]
    refine ⟨?_, fun _ => rfl⟩
    intro n h
    simp only [List.cons_append, List.drop_one, List.tail_cons, List.mem_append,
      List.mem_singleton] at h
    rcases h with h | h
    · exact hp1 n h
    · cases h
  · rw [ht]
    refine ⟨?_, fun _ => rfl⟩
    intro n h
    simp only [List.cons_append, List.drop_one, List.tail_cons, List.mem_append,
      List.mem_singleton] at h
    rcases h with (h | h) | h
    · exact hp1 n h
    · exact hp2 n h
    · cases h

/-- every trace ends by returning. -/
theorem C10_trace_ends_with_ret (S : SchemaMut) : ∃ b, (trace S).getLast? = some (.ret b) := by
  rcases trace_cases S with ⟨_, ht⟩ | ⟨_, _, ht⟩ | ⟨_, _, ht⟩
  · exact ⟨false, by rw [ht]; rfl⟩
  · exact ⟨false, by rw [ht, List.getLast?_concat]⟩
  · exact ⟨true, by rw [ht, List.getLast?_concat]⟩

/-- (5) on the error path the cells overwritten by phase 1 are exactly a prefix `0..j-1`, in order
    (the rest still hold their valid `Null` placeholders, so dropping the vector is sound); on
    success they are exactly `0..n-1`. -/
theorem C10_error_path_droppable (S : SchemaMut) :
    ((trace S).getLast? = some (.ret false) →
      ∃ j, j ≤ S.size ∧
        (trace S).filterMap (fun e => match e with | .write 1 i => some i | _ => none)
          = List.range j) ∧
    ((trace S).getLast? = some (.ret true) →
      (trace S).filterMap (fun e => match e with | .write 1 i => some i | _ => none)
        = List.range S.size) := by
  show ((trace S).getLast? = some (.ret false) →
      ∃ j, j ≤ S.size ∧ (trace S).filterMap w1idx = List.range j) ∧
    ((trace S).getLast? = some (.ret true) → (trace S).filterMap w1idx = List.range S.size)
  rcases phase1_filterMap S S.size (List.range S.size) with ⟨m, hm, hfm, hmok, _⟩
  rw [List.length_range] at hm hmok
  rw [List.take_range, Nat.min_eq_left hm] at hfm
  rcases trace_cases S with ⟨h0, ht⟩ | ⟨h0, hfail, ht⟩ | ⟨h0, hok, ht⟩
  · rw [ht]
    exact ⟨fun _ => ⟨0, by omega, rfl⟩, fun h => by simp at h⟩
  · rw [ht, List.getLast?_concat]
    refine ⟨fun _ => ⟨m, hm, ?_⟩, fun h => by simp at h⟩
    rw [List.filterMap_append, List.filterMap_cons_none (w1idx_alloc _), hfm]
    simp
  · rw [ht, List.getLast?_concat]
    refine ⟨fun h => by simp at h, fun _ => ?_⟩
    have := hmok hok
    subst this
    rw [List.filterMap_append, List.filterMap_append, List.filterMap_cons_none (w1idx_alloc _), hfm,
      phase2_filterMap]
    simp

/-- (5') on the error path of a non-empty vector at least the failing cell keeps its placeholder:
    the written prefix is proper. -/
theorem C10_error_path_proper_prefix (S : SchemaMut) (h0 : S.size > 0)
    (h : (trace S).getLast? = some (.ret false)) :
    ∃ j, j < S.size ∧ (trace S).filterMap w1idx = List.range j := by
  rcases phase1_filterMap S S.size (List.range S.size) with ⟨m, hm, hfm, _, hmfail⟩
  rw [List.length_range] at hm hmfail
  rw [List.take_range, Nat.min_eq_left hm] at hfm
  rcases trace_cases S with ⟨h0', ht⟩ | ⟨_, hfail, ht⟩ | ⟨_, hok, ht⟩
  · omega
  · refine ⟨m, hmfail hfail, ?_⟩
    rw [ht, List.filterMap_append, List.filterMap_cons_none (w1idx_alloc _), hfm]
    simp
  · rw [ht, List.getLast?_concat] at h; simp at h

/-- (6) phase 2 writes only union cells, and what it read immediately before writing cell `i`'s
    table is exactly the kinds of that union's branch keys, in order (`pre` is the part of the trace
    before those reads; it does not end with a read).  Phase 2 never reads a lookup table: `Ev` has
    no such event. -/
theorem C10_phase2_writes_only_unions (S : SchemaMut) :
    ∀ p i, (trace S)[p]? = some (.write 2 i) →
      ∃ vs pre, i < S.size ∧ S[i]?.map freezeNode = some (.union vs) ∧
        (trace S).take p = pre ++ vs.map Ev.readKind ∧
        (∀ e, pre.getLast? = some e → ∀ j, e ≠ .readKind j) := by
  intro p i h
  rcases trace_cases S with ⟨_, ht⟩ | ⟨_, _, ht⟩ | ⟨_, hok, ht⟩
  · have := List.mem_of_getElem? h
    rw [ht] at this; simp at this
  · have := List.mem_of_getElem? h
    rw [ht] at this
    simp only [List.cons_append, List.mem_cons, List.mem_append, List.not_mem_nil, or_false] at this
    rcases this with h' | h' | h'
    · cases h'
    · rcases phase1_mem h' with ⟨_, h', _⟩ | ⟨_, h', _⟩ <;> cases h'
    · cases h'
  · have hA : ∀ j, Ev.readKind j ∉ Ev.alloc S.size :: (phase1 S S.size (List.range S.size)).1 := by
      intro j hj
      rcases List.mem_cons.1 hj with h' | h'
      · cases h'
      · rcases phase1_mem h' with ⟨_, h', _⟩ | ⟨_, h', _⟩ <;> cases h'
    have hp : (Ev.alloc S.size :: (phase1 S S.size (List.range S.size)).1).length ≤ p := by
      apply Nat.le_of_not_lt
      intro hlt
      rw [ht, List.append_assoc, List.getElem?_append_left hlt] at h
      have := List.mem_of_getElem? h
      rcases List.mem_cons.1 this with h' | h'
      · cases h'
      · rcases phase1_mem h' with ⟨_, h', _⟩ | ⟨_, h', _⟩ <;> cases h'
    rw [ht, List.append_assoc, List.getElem?_append_right hp] at h
    generalize hq : p - (Ev.alloc S.size :: (phase1 S S.size (List.range S.size)).1).length = q
      at h
    have hq2 : q < (phase2 S (List.range S.size)).length := by
      apply Nat.lt_of_not_le
      intro hle
      rw [List.getElem?_append_right hle] at h
      have := List.mem_of_getElem? h
      simp at this
    rw [List.getElem?_append_left hq2] at h
    rcases phase2_write_pos h with ⟨vs, pre, hi, hvs, htake, hpre⟩
    refine ⟨vs, (Ev.alloc S.size :: (phase1 S S.size (List.range S.size)).1) ++ pre,
      List.mem_range.1 hi, hvs, ?_, NoReadEnd_append (NoReadEnd_of_not_mem hA) hpre⟩
    rw [ht, List.append_assoc, List.take_append, List.take_of_length_le hp, hq,
      List.take_append, htake]
    have : q - (phase2 S (List.range S.size)).length = 0 := by omega
    rw [this]
    simp

/-! ## Part B: lifetimes -/

open Avro.Impl.Lifetimes Avro.Lemmas.Lifetimes

/-- (7) the reference-counting invariant, spelled out (see `Avro.Lemmas.Lifetimes.Inv`):
    (a) each allocation's strong count is the number of live references to it (user handles
        `some a` plus readers with `arcHeld ∧ schema = a`) and it is freed iff that count is 0;
    (b) a reader whose state is alive still holds its `Arc`;
    (c) handle and reader schema ids name existing allocations. -/
theorem C10_inv_spelled_out (s : St) :
    Inv s ↔
      ((∀ (a : Nat) (al : Alloc), s.allocs[a]? = some al →
          al.strong = s.handles.count (some a) +
              s.readers.countP (fun r => r.arcHeld && r.schema == a) ∧
          (al.freed = true ↔ al.strong = 0)) ∧
       (∀ r ∈ s.readers, r.stateAlive = true → r.arcHeld = true) ∧
       (∀ a : Nat, some a ∈ s.handles → a < s.allocs.length) ∧
       (∀ r ∈ s.readers, r.schema < s.allocs.length)) :=
  ⟨fun h => ⟨h.counts, h.stateArc, h.handleBound, h.readerBound⟩,
   fun ⟨h1, h2, h3, h4⟩ => ⟨h1, h2, h3, h4⟩⟩

theorem C10_inv_init : Inv {} := inv_init

theorem C10_inv_step (s : St) (op : Op) : Inv s → Inv (step s op) := fun h => inv_step h op

theorem C10_inv_run (ops : List Op) : Inv (run ops) := (inv_foldl inv_init ops).1

/-- consequence of (a)+(b)+(c): while a reader's state is alive, its schema has a positive strong
    count and is not freed — whatever the caller did with its own handles. -/
theorem C10_reader_keeps_schema_alive (ops : List Op) :
    ∀ rd ∈ (run ops).readers, rd.stateAlive = true →
      ∃ al, (run ops).allocs[rd.schema]? = some al ∧ 1 ≤ al.strong ∧ al.freed = false := by
  intro rd hrd halive
  have inv := C10_inv_run ops
  have harc := inv.stateArc rd hrd halive
  have hpos := refs_pos_of_reader hrd harc
  rcases live_of_refs_pos inv (inv.readerBound rd hrd) hpos with ⟨al, hal, hs, hf⟩
  exact ⟨al, hal, by omega, hf⟩

/-- likewise for every live user handle. -/
theorem C10_handle_keeps_schema_alive (ops : List Op) :
    ∀ a : Nat, some a ∈ (run ops).handles →
      ∃ al, (run ops).allocs[a]? = some al ∧ 1 ≤ al.strong ∧ al.freed = false := by
  intro a ha
  have inv := C10_inv_run ops
  rcases live_of_refs_pos inv (inv.handleBound a ha) (refs_pos_of_handle ha) with ⟨al, hal, hs, hf⟩
  have := refs_pos_of_handle ha
  exact ⟨al, hal, by omega, hf⟩

/-- (8) no sequence of API calls dereferences a pointer into a freed schema. -/
theorem C10_no_use_after_free (ops : List Op) : (run ops).useAfterFree = false :=
  (inv_foldl inv_init ops).2

/-- (9) why the field order of `Reader` matters: releasing the `Arc` before the reader state
    (the wrong drop order) makes the most ordinary history a use-after-free. -/
theorem C10_wrong_order_is_unsafe :
    (List.foldl stepWrongOrder {} [.openReader, .dropReader 0]).useAfterFree = true := by
  decide

/-- the same history is safe with the crate's field order. -/
theorem C10_right_order_is_safe :
    (run [.openReader, .dropReader 0]).useAfterFree = false := C10_no_use_after_free _

end Avro.Theorems
