import AvroModel.Impl.Freeze
/-
C10 (protocol part): what a theorem can carry about the `unsafe` initialisation of the frozen
schema.  The absence of undefined behaviour in the compiled code itself is left to Miri / the
sanitizer on the same histories (DESIGN.md section 8, C10 — partial).
-/
namespace Avro.Theorems
open Avro Avro.Impl Avro.Impl.Freeze

theorem phase1Node_go_refs (len i : Nat) (children : List Nat) (acc : List Ev)
    (hacc : ∀ k, Ev.mkRef k ∈ acc → k < len) :
    ∀ k, Ev.mkRef k ∈ (phase1Node.go len i children acc).1 → k < len := by
  induction children generalizing acc with
  | nil =>
    intro k hk
    simp only [phase1Node.go, List.mem_append, List.mem_singleton] at hk
    rcases hk with h | h
    · exact hacc k h
    · cases h
  | cons c rest ih =>
    intro k hk
    simp only [phase1Node.go] at hk
    split at hk
    · rename_i hc
      apply ih (acc ++ [.mkRef c]) _ k hk
      intro k' hk'
      simp only [List.mem_append, List.mem_singleton] at hk'
      rcases hk' with h | h
      · exact hacc k' h
      · cases h; exact hc
    · exact hacc k hk

/-- every `NodeRef` ever created is `base + k` with `k < n` (phase 1). -/
theorem C10_refs_in_bounds_phase1 (S : SchemaMut) (len : Nat) (idxs : List Nat) :
    ∀ k, Ev.mkRef k ∈ (phase1 S len idxs).1 → k < len := by
  induction idxs with
  | nil => intro k hk; simp [phase1] at hk
  | cons i rest ih =>
    intro k hk
    simp only [phase1] at hk
    have hnode := phase1Node_go_refs len i ((S[i]?.map fun n => (freezeNode n).children).getD []) []
      (by intro k h; simp at h)
    unfold phase1Node at hk
    split at hk
    · rename_i evs heq
      exact hnode k (by rw [heq]; exact hk)
    · rename_i evs heq
      split at hk
      rename_i evs' ok heq'
      simp only [List.mem_append] at hk
      rcases hk with h | h
      · exact hnode k (by rw [heq]; exact h)
      · exact ih k (by rw [heq']; exact h)

/-- phase 1 never dereferences a cell. -/
theorem phase1Node_go_no_read (len i : Nat) (children : List Nat) (acc : List Ev)
    (hacc : ∀ j, Ev.readKind j ∉ acc) :
    ∀ j, Ev.readKind j ∉ (phase1Node.go len i children acc).1 := by
  induction children generalizing acc with
  | nil =>
    intro j hj
    simp only [phase1Node.go, List.mem_append, List.mem_singleton] at hj
    rcases hj with h | h
    · exact hacc j h
    · cases h
  | cons c rest ih =>
    intro j hj
    simp only [phase1Node.go] at hj
    split at hj
    · apply ih (acc ++ [.mkRef c]) _ j hj
      intro j' hj'
      simp only [List.mem_append, List.mem_singleton] at hj'
      rcases hj' with h | h
      · exact hacc j' h
      · cases h
    · exact hacc j hj

theorem C10_no_read_in_phase1 (S : SchemaMut) (len : Nat) (idxs : List Nat) :
    ∀ j, Ev.readKind j ∉ (phase1 S len idxs).1 := by
  induction idxs with
  | nil => intro j hj; simp [phase1] at hj
  | cons i rest ih =>
    intro j hj
    simp only [phase1] at hj
    have hnode := phase1Node_go_no_read len i ((S[i]?.map fun n => (freezeNode n).children).getD []) []
      (by intro j h; simp at h)
    unfold phase1Node at hj
    split at hj
    · rename_i evs heq
      exact hnode j (by rw [heq]; exact hj)
    · rename_i evs heq
      split at hj
      rename_i evs' ok heq'
      simp only [List.mem_append] at hj
      rcases hj with h | h
      · exact hnode j (by rw [heq]; exact h)
      · exact ih j (by rw [heq']; exact h)

/-- the vector is allocated once and never grows: a trace has at most one `alloc`, at its head. -/
theorem C10_never_grows (S : SchemaMut) :
    ∀ n, Ev.alloc n ∈ (trace S).drop 1 → False := by
  intro n h
  unfold trace at h
  have hp1 : ∀ idxs, Ev.alloc n ∉ (phase1 S S.size idxs).1 := by
    intro idxs
    induction idxs with
    | nil => simp [phase1]
    | cons i rest ih =>
      simp only [phase1]
      have hgo : ∀ (children : List Nat) (acc : List Ev), Ev.alloc n ∉ acc →
          Ev.alloc n ∉ (phase1Node.go S.size i children acc).1 := by
        intro children
        induction children with
        | nil => intro acc hacc; simp [phase1Node.go, hacc]
        | cons c rest' ih' =>
          intro acc hacc
          simp only [phase1Node.go]
          split
          · exact ih' _ (by simp [hacc])
          · exact hacc
      unfold phase1Node
      split
      · rename_i evs heq
        have := hgo ((S[i]?.map fun n => (freezeNode n).children).getD []) [] (by simp)
        rw [heq] at this; exact this
      · rename_i evs heq
        split
        rename_i evs' ok heq'
        have h1 := hgo ((S[i]?.map fun n => (freezeNode n).children).getD []) [] (by simp)
        rw [heq] at h1
        have h2 := ih
        rw [heq'] at h2
        simp [h1, h2]
  have hp2 : ∀ idxs, Ev.alloc n ∉ phase2 S idxs := by
    intro idxs
    induction idxs with
    | nil => simp [phase2]
    | cons i rest ih =>
      simp only [phase2, List.mem_append, not_or]
      refine ⟨?_, ih⟩
      split <;> simp
  split at h
  · simp at h
  · split at h
    · rename_i evs heq
      have := hp1 (List.range S.size); rw [heq] at this
      simp [this] at h
    · rename_i evs heq
      have h1 := hp1 (List.range S.size); rw [heq] at h1
      have h2 := hp2 (List.range S.size)
      simp [h1, h2] at h

end Avro.Theorems
