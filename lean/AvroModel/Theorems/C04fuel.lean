import AvroModel.Lemmas.DriverFuel
import AvroModel.Theorems.C04
/-
C04 at the fuel the test driver uses for every call of `de`: `Avro.Impl.deFuel`
(`Lemmas/DriverFuel.lean`; `Driver/Main.lean`: `deOne`, `runSingle`, `runOcfr` use that very
definition).  `deFuel cfg S hint depth len ≥ fuelBound cfg S hint depth` unconditionally
(`fuelBound_le_deFuel`), so

* the driver's run IS the run at every fuel inside the range of the C04 theorems
  (`C04_fuel_independent_at_deFuel`): every acceptance / rejection theorem with a hypothesis
  `fuelBound … ≤ fuel` (or any explicit larger bound) transfers to the driver's run;
* the driver's model never answers `panic` for lack of fuel (`C04_no_panic_at_deFuel`).

Before this file the driver passed the first component of `deFuel` only, which can be below
`fuelBound` (audit `NonVacuityB`, 760-field record with `max_seq_size = 0`: the model said `panic`
where the crate says `Ok`).
-/
namespace Avro.Theorems
open Avro Avro.Impl

/-- The driver's run of `de` is the run at every fuel `≥ fuelBound`. -/
theorem C04_fuel_independent_at_deFuel (ext : DeExt) (cfg : DeConfig) (S : Schema) (fuel : Nat)
    (k : Nat) (node : Node) (hk : S[k]? = some node) (depth : Nat) (favor : Bool) (h : Hint)
    (len : Nat) (hf : fuelBound cfg S h depth ≤ fuel) :
    de ext cfg S (deFuel cfg S h depth len) node depth favor h
      = de ext cfg S fuel node depth favor h := by
  rw [C04_fuel_independent_root ext cfg S _ k node hk depth favor h (fuelBound_le_deFuel cfg S h depth len),
    C04_fuel_independent_root ext cfg S fuel k node hk depth favor h hf]

/-- in particular it is the run at the bound itself, -/
theorem C04_deFuel_eq_fuelBound (ext : DeExt) (cfg : DeConfig) (S : Schema)
    (k : Nat) (node : Node) (hk : S[k]? = some node) (depth : Nat) (favor : Bool) (h : Hint)
    (len : Nat) :
    de ext cfg S (deFuel cfg S h depth len) node depth favor h
      = de ext cfg S (fuelBound cfg S h depth) node depth favor h :=
  C04_fuel_independent_at_deFuel ext cfg S _ k node hk depth favor h len (Nat.le_refl _)

/-- and it does not depend on the input-length component of the driver's formula. -/
theorem C04_deFuel_len_irrelevant (ext : DeExt) (cfg : DeConfig) (S : Schema)
    (k : Nat) (node : Node) (hk : S[k]? = some node) (depth : Nat) (favor : Bool) (h : Hint)
    (len len' : Nat) :
    de ext cfg S (deFuel cfg S h depth len) node depth favor h
      = de ext cfg S (deFuel cfg S h depth len') node depth favor h :=
  C04_fuel_independent_at_deFuel ext cfg S _ k node hk depth favor h len
    (fuelBound_le_deFuel cfg S h depth len')

/-- The driver's model never ends in the `panic` class (schema keys in bounds, which `freeze`
    guarantees: `C19_frozen_usable`). -/
theorem C04_no_panic_at_deFuel (ext : DeExt) (cfg : DeConfig) (S : Schema)
    (hS : S.keysInBounds = true) (k : Nat) (node : Node) (hk : S[k]? = some node) (depth : Nat)
    (favor : Bool) (h : Hint) (len : Nat) (s : RState) :
    (de ext cfg S (deFuel cfg S h depth len) node depth favor h s).1 ≠ .error .panic :=
  C04_no_panic_root ext cfg S hS _ k node hk depth favor h (fuelBound_le_deFuel cfg S h depth len) s

theorem C04_ok_or_err_at_deFuel (ext : DeExt) (cfg : DeConfig) (S : Schema)
    (hS : S.keysInBounds = true) (k : Nat) (node : Node) (hk : S[k]? = some node) (depth : Nat)
    (favor : Bool) (h : Hint) (len : Nat) (s : RState) :
    (∃ o, (de ext cfg S (deFuel cfg S h depth len) node depth favor h s).1 = .ok o) ∨
    (de ext cfg S (deFuel cfg S h depth len) node depth favor h s).1 = .error .custom ∨
    (de ext cfg S (deFuel cfg S h depth len) node depth favor h s).1 = .error .io :=
  C04_ok_or_err ext cfg S hS _ k node hk depth favor h (fuelBound_le_deFuel cfg S h depth len) s

end Avro.Theorems
