import AvroModel.Theorems.C01glue
import AvroModel.Theorems.C03typed
import AvroModel.Theorems.C12canon
/-
C01 — the typed round trip, as a closed corollary.

`C01_roundtrip_impl` (Theorems/C01glue.lean) reads what the serializer wrote with the
self-describing target (`.any`).  Here: ANY typed target `h` (scalars with coercions, `Option`,
`Vec`, tuples, maps, structs with a subset of the fields in any order, enums, identifiers,
`IgnoredAny`, nested).  Composition of
  * `C01_ser_canonical`      the serializer writes `Spec.encode S node v` for a denoted `v`;
  * `C12_canonical_is_exact` a canonical encoding is a valid layout with exact block sizes;
  * `C03_typed_value`        on such a layout a typed read that succeeds returns a value
                             `consistent` with `Spec.observe S node v` and consumes the datum.
Only successful typed runs are looked at, so the depth / `max_seq_size` / fuel conditions of
`C01_roundtrip_impl` are NOT needed (any `cfg`, `depth`, `fuel`, `favor`).
-/
namespace Avro.Theorems
open Avro Avro.Impl Avro.Spec

/-- **C01, typed round trip, sharp form.**  No hypothesis on decimals over `fixed` in the schema:
    the condition is stated on the written value, `Spec.decFits Limits.impl S node v` (every decimal
    of `v` occupies at most 16 bytes), which is exactly what makes the canonical encoding a layout
    the implementation's limits accept (`C12_canonical_exact_iff`). -/
theorem C01_roundtrip_typed_sharp (f : Canon.Allow) (ext : Ext) (allowSlow : Bool)
    (S : Schema) (node : Node) (sv : SV) (s₀ : SerState)
    (hok : (ser ext allowSlow S node sv s₀).1 = .ok ())
    (hs : Good s₀) (hS : SchemaOK S) (hnode : NodeOK S node) (hsv : svOK sv = true)
    (hext : ExtOK ext)
    (hcanon : Canon.svCanon f sv = true)
    (hallowS : ∀ (k : Nat) (n : Node), S[k]? = some n → Canon.nodeAllows f n = true)
    (hallowN : Canon.nodeAllows f node = true) :
    ∃ s' bytes v, ser ext allowSlow S node sv s₀ = (.ok (), s') ∧ s'.out = s₀.out ++ bytes ∧
      Spec.encode S node v = some bytes ∧
      Spec.denotes (denExtOf ext) S node sv v = true ∧
      ∀ (o : Out), Spec.observe S node v = some o → Spec.decFits Limits.impl S node v = true →
        ∀ (cfg : DeConfig) (depth fuel : Nat) (favor : Bool) (h : Hint) (rest : Bytes)
          (r r' : RState) (o' : Out),
          r.isSlice = true → r.limit = none → r.avail = 0 → r.rest = bytes ++ rest →
          de deExtModel cfg S fuel node depth favor h r = (.ok o', r') →
          consistent o' o ∧ r' = { r with rest := rest } ∧ r'.rest = rest := by
  obtain ⟨s', v, bytes, hrun, hout, _, henc, hden⟩ :=
    C01_ser_canonical f ext allowSlow S node sv s₀ hok hs hS hnode hsv hext hcanon hallowS hallowN
  refine ⟨s', bytes, v, hrun, hout, henc, hden, ?_⟩
  intro o hobs hfit cfg depth fuel favor h rest r r' o' hsl hl ha hr hde
  have hx := C12_canonical_is_exact_fits S node v bytes rest henc hfit (Spec.size v) (Nat.le_refl _)
  obtain ⟨hc, hst⟩ := C03_typed_value cfg S node h v (bytes ++ rest) rest o depth (Spec.size v) fuel
    favor hx hobs r r' o' hsl hl ha hr hde
  exact ⟨hc, hst, by rw [hst]⟩

/-- **C01, typed round trip.**  Under the hypotheses of `C01_roundtrip_impl`: the serializer
    succeeds, writes the canonical encoding `bytes` of a value `v` the presentation denotes, and
    for every request `h` (and every configuration, depth budget, fuel, `favor` flag), every slice
    state positioned on `bytes ++ rest`: if the typed read succeeds, what it returns is consistent
    with `Spec.observe S node v` (what was written, as `deserialize_any` shows it), and it ends in
    the state `{ r with rest := rest }`: exactly the datum has been consumed, nothing else
    changed. -/
theorem C01_roundtrip_typed (f : Canon.Allow) (ext : Ext) (allowSlow : Bool)
    (S : Schema) (node : Node) (sv : SV) (s₀ : SerState)
    (hok : (ser ext allowSlow S node sv s₀).1 = .ok ())
    (hs : Good s₀) (hS : SchemaOK S) (hnode : NodeOK S node) (hsv : svOK sv = true)
    (hext : ExtOK ext)
    (hcanon : Canon.svCanon f sv = true)
    (hallowS : ∀ (k : Nat) (n : Node), S[k]? = some n → Canon.nodeAllows f n = true)
    (hallowN : Canon.nodeAllows f node = true)
    (hfixS : Schema.fixedDecFits S) (hfixN : node.fixedDecFits = true) :
    ∃ s' bytes v, ser ext allowSlow S node sv s₀ = (.ok (), s') ∧ s'.out = s₀.out ++ bytes ∧
      Spec.encode S node v = some bytes ∧
      Spec.denotes (denExtOf ext) S node sv v = true ∧
      ∀ (o : Out), Spec.observe S node v = some o →
        ∀ (cfg : DeConfig) (depth fuel : Nat) (favor : Bool) (h : Hint) (rest : Bytes)
          (r r' : RState) (o' : Out),
          r.isSlice = true → r.limit = none → r.avail = 0 → r.rest = bytes ++ rest →
          de deExtModel cfg S fuel node depth favor h r = (.ok o', r') →
          consistent o' o ∧ r' = { r with rest := rest } ∧ r'.rest = rest := by
  obtain ⟨s', bytes, v, hrun, hout, henc, hden, hde⟩ :=
    C01_roundtrip_typed_sharp f ext allowSlow S node sv s₀ hok hs hS hnode hsv hext hcanon hallowS
      hallowN
  refine ⟨s', bytes, v, hrun, hout, henc, hden, ?_⟩
  intro o hobs
  have hfix : Spec.fixedDecOk S node v = true :=
    fixedDecOk_of_schema S hfixS _ v (Nat.le_refl _) node hfixN
  exact hde o hobs (Spec.decFits_impl_of_observe S node v (by rw [hobs]; rfl) hfix)

/-- The same with the limits on the presentation, closed form on the default slice state: if every
    denoted value is observable, there is a written value `v` with observation `o` such that every
    successful typed read of `bytes ++ rest` returns something consistent with `o` and leaves
    exactly `rest`. -/
theorem C01_roundtrip_typed_closed (f : Canon.Allow) (ext : Ext) (allowSlow : Bool)
    (S : Schema) (node : Node) (sv : SV) (s₀ : SerState)
    (hok : (ser ext allowSlow S node sv s₀).1 = .ok ())
    (hs : Good s₀) (hS : SchemaOK S) (hnode : NodeOK S node) (hsv : svOK sv = true)
    (hext : ExtOK ext)
    (hcanon : Canon.svCanon f sv = true)
    (hallowS : ∀ (k : Nat) (n : Node), S[k]? = some n → Canon.nodeAllows f n = true)
    (hallowN : Canon.nodeAllows f node = true)
    (hfixS : Schema.fixedDecFits S) (hfixN : node.fixedDecFits = true)
    (hobsAll : ∀ v, Spec.denotes (denExtOf ext) S node sv v = true →
      (Spec.observe S node v).isSome = true) :
    ∃ s' bytes v o, ser ext allowSlow S node sv s₀ = (.ok (), s') ∧ s'.out = s₀.out ++ bytes ∧
      Spec.denotes (denExtOf ext) S node sv v = true ∧ Spec.observe S node v = some o ∧
      ∀ (cfg : DeConfig) (depth fuel : Nat) (favor : Bool) (h : Hint) (rest : Bytes)
        (r' : RState) (o' : Out),
        de deExtModel cfg S fuel node depth favor h { rest := bytes ++ rest } = (.ok o', r') →
        consistent o' o ∧ r' = { rest := rest } := by
  obtain ⟨s', bytes, v, hrun, hout, _, hden, hde⟩ :=
    C01_roundtrip_typed f ext allowSlow S node sv s₀ hok hs hS hnode hsv hext hcanon hallowS hallowN
      hfixS hfixN
  obtain ⟨o, ho⟩ := Option.isSome_iff_exists.1 (hobsAll v hden)
  refine ⟨s', bytes, v, o, hrun, hout, hden, ho, ?_⟩
  intro cfg depth fuel favor h rest r' o' hrd
  obtain ⟨hc, hst, _⟩ := hde o ho cfg depth fuel favor h rest { rest := bytes ++ rest } r' o'
    rfl rfl rfl rfl hrd
  exact ⟨hc, hst⟩

/-! ### Non-vacuity: `record T { s : string, a : array<long> }` read into typed structs -/

namespace C01typed
open C01glue

def nmT : Name := { fq := "T", short := "T", ns := none }

/-- `record T { s : string, a : array<long> }` -/
def Sy : Schema := #[.record nmT [("s", 1), ("a", 2)], .string, .array 3, .long]

def nodeT : Node := .record nmT [("s", 1), ("a", 2)]

/-- `T { a: vec![1i64, -3], s: "x" }`, `a` presented first (it is buffered) -/
def svT : SV := .struct "T" [("a", .seq (some 2) [.int .i64 1, .int .i64 (-3)]), ("s", .str "x")]

def vT : Value := .record [.string "x", .array [.long 1, .long (-3)]]

/-- what `deserialize_any` shows of `vT` -/
def oT : Out := .map [(.str "s" false, .str "x" true), (.str "a" false, .seq [.i64 1, .i64 (-3)])]

/-- the Rust target `struct T { a: (i64, i64), s: Option<String> }` (a tuple request over the array,
    an `Option` over the string, fields in another order than the schema) -/
def hintT : Hint := .struct [("a", .tuple 2 .i64), ("s", .option .str)]

/-- the Rust target `struct T { a: Vec<i64> }`: `s` is skipped -/
def hintT' : Hint := .struct [("a", .seq .i64)]

theorem Sy_ok : SchemaOK Sy :=
  SchemaOK.of_checks (by simp [Schema.keysInBounds, Sy, Node.children])
    (by simp [schemaNamesDistinct, Sy, nodeNamesDistinct]) (by simp [schemaSmall, Sy, nodeSmall])
    (by simp [schemaNoNestedUnion, Sy, nodeNoNestedUnion])

theorem nodeT_ok : NodeOK Sy nodeT :=
  NodeOK.of_check (by simp [nodeOKb, nodeT, Sy, Node.children, nodeNamesDistinct, nodeSmall,
    nodeNoNestedUnion])

theorem Sy_allows (f : Canon.Allow) (h : f.openSeq = false) :
    ∀ (k : Nat) (n : Node), Sy[k]? = some n → Canon.nodeAllows f n = true := by
  intro k n hk
  have : Canon.schemaAllows f Sy = true := by simp [Canon.schemaAllows, Sy, Canon.nodeAllows, h]
  exact Array.all_getElem? this hk

theorem Sy_fixedDecFits : Schema.fixedDecFits Sy := by
  intro k n hk
  have : Sy.all Node.fixedDecFits = true := by simp [Sy, Node.fixedDecFits]
  exact Array.all_getElem? this hk

theorem svT_run : (ser ext1 false Sy nodeT svT {}).2.out = [2, 120, 4, 2, 5, 0] := by
  with_unfolding_all rfl

theorem vT_encode : Spec.encode Sy nodeT vT = some [2, 120, 4, 2, 5, 0] := by
  with_unfolding_all rfl

theorem vT_observe : Spec.observe Sy nodeT vT = some oT := by rfl

/-- the typed reads of the example succeed: the premise of the theorem is satisfiable -/
theorem hintT_run :
    de deExtModel {} Sy 50 nodeT 64 false hintT { rest := [2, 120, 4, 2, 5, 0] ++ [0x2a] } =
      (.ok (.map [(.str "s" false, .some (.str "x" true)),
                  (.str "a" false, .seq [.i64 1, .i64 (-3)])]), { rest := [0x2a] }) := by
  with_unfolding_all rfl

theorem hintT'_run :
    de deExtModel {} Sy 50 nodeT 64 false hintT' { rest := [2, 120, 4, 2, 5, 0] ++ [0x2a] } =
      (.ok (.map [(.str "s" false, .unit), (.str "a" false, .seq [.i64 1, .i64 (-3)])]),
        { rest := [0x2a] }) := by
  with_unfolding_all rfl

/-- **`C01_roundtrip_typed` on the example, every hypothesis discharged** (`negInt`: the negative
    `-3` is permitted since the schema has no `decimal`).  The bytes are `[2,120, 4,2,5,0]`, the
    value is `vT` (the canonical encoding determines it), so: every typed read (any request, any
    configuration, depth, fuel, `favor`) of what `ser` wrote followed by `rest`, if it succeeds,
    returns something consistent with `oT` and ends exactly on `rest`. -/
theorem C01_roundtrip_typed_example :
    ∃ s', ser ext1 false Sy nodeT svT {} = (.ok (), s') ∧ s'.out = [2, 120, 4, 2, 5, 0] ∧
      Spec.denotes (denExtOf ext1) Sy nodeT svT vT = true ∧
      ∀ (cfg : DeConfig) (depth fuel : Nat) (favor : Bool) (h : Hint) (rest : Bytes)
        (r' : RState) (o' : Out),
        de deExtModel cfg Sy fuel nodeT depth favor h { rest := s'.out ++ rest } = (.ok o', r') →
        consistent o' oT ∧ r' = { rest := rest } := by
  obtain ⟨s', bytes, v, hrun, hout, henc, hden, hde⟩ :=
    C01_roundtrip_typed { negInt := true } ext1 false Sy nodeT svT {} (by rfl) good_empty Sy_ok
      nodeT_ok (by decide) ext1_ok (by decide) (Sy_allows _ rfl) (by decide) Sy_fixedDecFits
      (by decide)
  have hb : bytes = [2, 120, 4, 2, 5, 0] := by
    have := svT_run
    rw [hrun] at this
    simpa [hout] using this
  subst hb
  have hv : v = vT := encode_injective henc vT_encode
  subst hv
  have hout' : s'.out = [2, 120, 4, 2, 5, 0] := by simpa using hout
  refine ⟨s', hrun, hout', hden, ?_⟩
  intro cfg depth fuel favor h rest r' o' hrd
  rw [hout'] at hrd
  obtain ⟨hc, hst, _⟩ := hde oT vT_observe cfg depth fuel favor h rest _ r' o' rfl rfl rfl rfl hrd
  exact ⟨hc, hst⟩

/-- … and what it says about the two actual runs: `Some("x")` against the self-describing `"x"`,
    a skipped field (`unit`) against `"x"`; both end on the trailing byte. -/
example :
    consistent (.map [(.str "s" false, .some (.str "x" true)),
                      (.str "a" false, .seq [.i64 1, .i64 (-3)])]) oT ∧
    consistent (.map [(.str "s" false, .unit), (.str "a" false, .seq [.i64 1, .i64 (-3)])]) oT := by
  obtain ⟨s', _, hout, _, h⟩ := C01_roundtrip_typed_example
  have h1 := h {} 64 50 false hintT [0x2a] _ _ (by rw [hout]; exact hintT_run)
  have h2 := h {} 64 50 false hintT' [0x2a] _ _ (by rw [hout]; exact hintT'_run)
  exact ⟨h1.1, h2.1⟩

/-- `consistent` is not trivial here: a wrong array element is not consistent with `oT` -/
example : ¬ consistent (.map [(.str "s" false, .unit), (.str "a" false, .seq [.i64 1, .i64 3])]) oT := by
  simp [consistent, consistentM, consistentL, oT]

end C01typed

end Avro.Theorems
