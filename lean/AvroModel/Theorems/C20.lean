import AvroModel.Impl.Derive
/-
C20 — derived schemas fit their types.  Theorems over the model of `serde_avro_derive`
(`Impl/Derive.lean`): the builder's reuse discipline and the type → Avro-type mapping.
(Further theorems: `Theorems/C20inv.lean`, `C20names.lean`, `C20fits.lean`.)
-/
namespace Avro.Theorems
open Avro Avro.Impl Avro.Impl.Derive

/-- `find_or_build` on a type whose lookup type is already registered returns the registered node
    and leaves the builder untouched: a type is built once, however often it is referred to. -/
theorem C20_findOrBuild_reuses (P : Prog) (hash : Key → String) (fuel : Nat) (t : Ty) (s : BState)
    (key : Key) (idx : Nat) (hk : lookupKey P (fuel + 1) t = some key) (hb : s.built.lookup key = some idx) :
    findOrBuild P hash (fuel + 1) t s = some (idx, s) := by
  simp [findOrBuild, hk, hb]

/-- A type not yet registered is registered *before* it is built (reserve-then-fill: a recursive
    reference met while building it resolves to the node being built), and gets the next index. -/
theorem C20_findOrBuild_registers_first (P : Prog) (hash : Key → String) (fuel : Nat) (t : Ty) (s : BState)
    (key : Key) (hk : lookupKey P (fuel + 1) t = some key) (hb : s.built.lookup key = none)
    (idx : Nat) (s' : BState) (h : findOrBuild P hash (fuel + 1) t s = some (idx, s')) :
    idx = s.nodes.size ∧ idx < s'.nodes.size ∧
      ∃ u, appendSchema P hash fuel t { s with built := (key, s.nodes.size) :: s.built } = some (u, s') := by
  simp only [findOrBuild, hk, hb] at h
  cases ha : appendSchema P hash fuel t { s with built := (key, s.nodes.size) :: s.built } with
  | none => simp [ha] at h
  | some r =>
    obtain ⟨u, s2⟩ := r
    simp only [ha] at h
    by_cases hlt : s2.nodes.size > s.nodes.size
    · simp only [hlt, ↓reduceIte, Option.some.injEq, Prod.mk.injEq] at h
      obtain ⟨h1, h2⟩ := h
      subst h2
      exact ⟨h1.symm, by omega, u, rfl⟩
    · simp [hlt] at h

/-- Pointers and references are transparent for the lookup type (and so for node reuse). -/
theorem C20_ptr_transparent (P : Prog) (fuel : Nat) (t : Ty) :
    lookupKey P (fuel + 1) (.ptr t) = lookupKey P fuel t := by
  simp [lookupKey]

/-- The integer types map to the Avro type that holds their whole range except `u64`/`usize`,
    which map to `long` (values above `i64::MAX` are outside the property's domain). -/
theorem C20_int_mapping (P : Prog) (fuel : Nat) :
    lookupKey P (fuel + 1) .i8 = some [.int] ∧ lookupKey P (fuel + 1) .i16 = some [.int] ∧
    lookupKey P (fuel + 1) .u16 = some [.int] ∧ lookupKey P (fuel + 1) .i32 = some [.int] ∧
    lookupKey P (fuel + 1) .u32 = some [.long] ∧ lookupKey P (fuel + 1) .u64 = some [.long] ∧
    lookupKey P (fuel + 1) .usize = some [.long] ∧ lookupKey P (fuel + 1) .i64 = some [.long] := by
  simp [lookupKey]

/-- `Option<T>` is the union of null and `T`, both through `find_or_build`, in the reserved slot. -/
theorem C20_option_is_union (P : Prog) (hash : Key → String) (fuel : Nat) (t : Ty) (s s' : BState) (u : Unit)
    (h : appendSchema P hash (fuel + 1) (.option t) s = some (u, s')) :
    ∃ a b, s'.nodes[s.nodes.size]? = some (plain (.union [a, b])) := by
  simp only [appendSchema, reserve, push] at h
  cases h1 : findOrBuild P hash fuel .unit { s with nodes := s.nodes.push { type := .null, logical := none } } with
  | none => simp [h1] at h
  | some r1 =>
    obtain ⟨a, s1⟩ := r1
    simp only [h1] at h
    cases h2 : findOrBuild P hash fuel t s1 with
    | none => simp [h2] at h
    | some r2 =>
      obtain ⟨b, s2⟩ := r2
      simp only [h2, setNode] at h
      by_cases hlt : s.nodes.size < s2.nodes.size
      · simp only [hlt, ↓reduceIte, Option.some.injEq, Prod.mk.injEq] at h
        obtain ⟨_, h⟩ := h
        subst h
        refine ⟨a, b, ?_⟩
        simp [Array.set!, hlt]
      · simp [hlt] at h

end Avro.Theorems
