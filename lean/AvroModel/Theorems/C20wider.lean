import AvroModel.Theorems.C20more
import AvroModel.Lemmas.DeriveWider
/-
C20, wider: `C20_fits_wider` for the fragment `FitWfW` (`Lemmas/DeriveWider.lean`), which extends
`FitWfG` (`FitWfG_toW`) with

1. generic forwarding newtypes `struct N<T>(F<T>);` instantiated at any depth (`N<N<Vec<N<i32>>>>`);
2. `Option<T>` — and `struct N<T>(T);` — with `T` a bare type parameter, under the decidable
   condition that every instantiation site supplies a *plain* argument (one whose node is neither
   null nor a union: not `()`, not `Option<_>`, not an enum that maps to a union, seen through
   pointers and forwarding newtypes) for each such parameter — transitively: the parameter of
   `struct Q<U> { r: R<U> }` inherits the requirement from `R<T> { x: Option<T> }`.

The condition is necessary (`option_param_at_option_fails`, `option_param_at_union_fails`): at
`T = Option<i32>` the derived schema is `[null, [null, int]]` and `Some(Some(5))` is rejected
(`Some(None)` is accepted, written as `null`, i.e. as `None`); at `T` = a union enum the value
`Some(E::A(5))` is rejected.

Not covered (as before): enums that map to unions (generic or not — `C20_fits_unions_text` covers
the non-generic ones, in a fragment without generics), newtype variants of `[u8; N]`, logical-type
attributes on newtype / variant fields or on non-leaf types.
-/
namespace Avro.Theorems
open Avro Avro.Impl Avro.Impl.Derive Avro.Theorems.DeriveFits

/-- For a program that checks against a table of marks, the schema `schema_mut()` builds for the
    root type realizes it at node 0, to every depth. -/
theorem C20_schema_realizes_with (P : Prog) (hash : Key → String) (fuel : Nat) (root : Ty) (Sm : SchemaMut)
    (M : DeriveW.Marks) (K : Nat)
    (hbuild : schemaMut P hash fuel root = some Sm) (hwf : DeriveW.FitWfWith P M K root = true) :
    0 < (freezeNodes Sm).size ∧ ∀ f, Realizes P (freezeNodes Sm) f root 0 := by
  unfold schemaMut at hbuild
  cases hf : findOrBuild P hash fuel root {} with
  | none => simp [hf] at hbuild
  | some r =>
    obtain ⟨c, s'⟩ := r
    simp only [hf, Option.map_some, Option.some.injEq] at hbuild
    subst hbuild
    obtain ⟨rfl, hsz⟩ := findOrBuild_empty_idx hf
    have hroot : DeriveW.OkT P M root := ⟨K, DeriveW.FitWfWith_root hwf⟩
    obtain ⟨hinv, _, key, hkey, hreg⟩ :=
      (DeriveW.builder_specs (hash := hash) (DeriveW.FitWfWith_decls hwf) fuel).1 root {} 0 s' [] hroot
        (DeriveG.Inv.empty P) hf
    exact ⟨by rw [freezeNodes_size]; exact hsz,
      fun f => DeriveW.realizes_of_inv (DeriveW.FitWfWith_decls hwf) hinv f root key 0 hroot hkey hreg⟩

/-- `C20_fits_wider` for an explicitly given table of marks. -/
theorem C20_fits_with (ext : Avro.Impl.Ext) (P : Prog) (hash : Key → String) (fuel : Nat) (root : Ty)
    (Sm : SchemaMut) (f : Nat) (sv : SV) (M : DeriveW.Marks) (K : Nat)
    (hbuild : schemaMut P hash fuel root = some Sm) (hwf : DeriveW.FitWfWith P M K root = true)
    (hs : hasShape P f root sv = true) :
    (ser ext false (freezeNodes Sm) ((freezeNodes Sm)[0]!) sv {}).1 = .ok () := by
  obtain ⟨hsz, hr⟩ := C20_schema_realizes_with P hash fuel root Sm M K hbuild hwf
  have hnode : (freezeNodes Sm)[0]? = some ((freezeNodes Sm)[0]!) := by
    simp [getElem!_pos, hsz]
  obtain ⟨st', h, _⟩ := C20_fits_given_realizes ext false P (freezeNodes Sm) f root 0 sv _ hnode (hr f) hs
    {} rfl PoolClean.empty
  rw [h]

/-- **C20 (fits), wider fragment.**  For a program of the fragment `FitWfW` (generic records,
    generic forwarding newtypes, `Option<T>` of a bare parameter whose instantiations are all
    plain), every value of the root type serializes under the schema derived for it. -/
theorem C20_fits_wider (ext : Avro.Impl.Ext) (P : Prog) (hash : Key → String) (fuel : Nat) (root : Ty)
    (Sm : SchemaMut) (f : Nat) (sv : SV)
    (hbuild : schemaMut P hash fuel root = some Sm) (hwf : DeriveW.FitWfW P root = true)
    (hs : hasShape P f root sv = true) :
    (ser ext false (freezeNodes Sm) ((freezeNodes Sm)[0]!) sv {}).1 = .ok () := by
  obtain ⟨M, K, hwf⟩ := DeriveW.FitWfW_with hwf
  exact C20_fits_with ext P hash fuel root Sm f sv M K hbuild hwf hs

/-- Nothing is lost: the fragment of `C20_fits_generic` (hence that of `C20_fits`) is part of `FitWfW`. -/
theorem FitWfG_toW {P : Prog} {root : Ty} (h : DeriveG.FitWfG P root = true) : DeriveW.FitWfW P root = true :=
  DeriveW.FitWfG_toW h

theorem FitWf_toW {P : Prog} {root : Ty} (h : FitWf P root = true) : DeriveW.FitWfW P root = true :=
  FitWfG_toW (FitWf_toG h)

/-! ### Non-vacuity, extension 1: generic forwarding newtypes

`struct N<T>(T);  struct W<T>(Vec<N<T>>);  struct B<T>(Box<Pair<T>>);` with
`struct Pair<T> { a: T, b: Vec<T> }`, instantiated at depth (`N<N<N<i32>>>`), inside `Option`
(`Option<N<W<bool>>>`), with an `Option` argument where the parameter is not exposed
(`B<Option<N<i64>>>`). -/

def newtypeProg : Prog := #[
  { ident := "N", nparams := 1, modulePath := "m", body := .newtype { name := "0", ty := .param 0 } },
  { ident := "W", nparams := 1, modulePath := "m",
    body := .newtype { name := "0", ty := .vec (.named 0 [.param 0]) } },
  { ident := "Pair", nparams := 1, modulePath := "m", body := .record [
      { name := "a", ty := .param 0 }, { name := "b", ty := .vec (.param 0) } ] },
  { ident := "B", nparams := 1, modulePath := "m",
    body := .newtype { name := "0", ty := .ptr (.named 2 [.param 0]) } },
  { ident := "Root", modulePath := "m", body := .record [
      { name := "a", ty := .named 0 [.named 0 [.named 0 [.i32]]] },
      { name := "b", ty := .named 1 [.string] },
      { name := "c", ty := .named 3 [.option (.named 0 [.i64])] },
      { name := "d", ty := .option (.named 0 [.named 1 [.bool]]) } ] } ]

theorem newtypeProg_fitWfW : DeriveW.FitWfW newtypeProg (.named 4 []) = true := by decide +kernel

/-- It is outside the fragment of `C20_fits_generic`. -/
example : DeriveG.FitWfG newtypeProg (.named 4 []) = false := by decide +kernel

/-- Without `Option` around a bare parameter no marks are needed for `B`, `W<String>`; `N` needs one. -/
example : DeriveW.FitWfWith newtypeProg DeriveW.noMarks 40 (.named 4 []) = false := by decide +kernel

example : ((schemaMut newtypeProg DeriveNames.hashDemo 40 (.named 4 [])).map (·.size)) = some 12 := by
  decide +kernel

example : hasShape newtypeProg 12 (.named 4 []) (.struct "Root" [
    ("a", .newtypeStruct "N" (.newtypeStruct "N" (.newtypeStruct "N" (.int .i32 7)))),
    ("b", .newtypeStruct "W" (.seq (some 2) [.newtypeStruct "N" (.str "x"), .newtypeStruct "N" (.str "y")])),
    ("c", .newtypeStruct "B" (.struct "Pair" [
      ("a", .some (.newtypeStruct "N" (.int .i64 1))), ("b", .seq (some 1) [.none])])),
    ("d", .some (.newtypeStruct "N" (.newtypeStruct "W" (.seq (some 1) [.newtypeStruct "N" (.bool true)]))))]) =
    true := by decide +kernel

/-- Every value of `Root` serializes under the derived schema. -/
example (ext : Avro.Impl.Ext) (hash : Key → String) (fuel : Nat) (Sm : SchemaMut) (f : Nat) (sv : SV)
    (hbuild : schemaMut newtypeProg hash fuel (.named 4 []) = some Sm)
    (hs : hasShape newtypeProg f (.named 4 []) sv = true) :
    (ser ext false (freezeNodes Sm) ((freezeNodes Sm)[0]!) sv {}).1 = .ok () :=
  C20_fits_wider ext newtypeProg hash fuel _ Sm f sv hbuild newtypeProg_fitWfW hs

/-! ### Non-vacuity, extension 2: `Option<T>` of a bare parameter

`struct R<T> { x: Option<T>, rest: Vec<T> }`, `struct Q<U> { r: R<Box<U>>, u: Option<U> }` (the
requirement on `T` is inherited by `U`), instantiated with `i32`, with `Vec<Option<i32>>`, with the
record `Pair<Option<bool>>` and, through `Q`, with the forwarding newtype `N<String>`. -/

def optionProg : Prog := #[
  { ident := "R", nparams := 1, modulePath := "m", body := .record [
      { name := "x", ty := .option (.param 0) }, { name := "rest", ty := .vec (.param 0) } ] },
  { ident := "Q", nparams := 1, modulePath := "m", body := .record [
      { name := "r", ty := .named 0 [.ptr (.param 0)] }, { name := "u", ty := .option (.param 0) } ] },
  { ident := "Pair", nparams := 1, modulePath := "m", body := .record [
      { name := "a", ty := .param 0 }, { name := "b", ty := .vec (.param 0) } ] },
  { ident := "N", nparams := 1, modulePath := "m", body := .newtype { name := "0", ty := .param 0 } },
  { ident := "Root", modulePath := "m", body := .record [
      { name := "i", ty := .named 0 [.i32] },
      { name := "v", ty := .named 0 [.vec (.option .i32)] },
      { name := "p", ty := .named 0 [.named 2 [.option .bool]] },
      { name := "q", ty := .named 1 [.named 3 [.string]] } ] } ]

theorem optionProg_fitWfW : DeriveW.FitWfW optionProg (.named 4 []) = true := by decide +kernel

example : DeriveG.FitWfG optionProg (.named 4 []) = false := by decide +kernel

/-- The inferred marks: the parameters of `R`, `Q` and `N`, not that of `Pair`. -/
example : (List.range 4).map (fun id => DeriveW.inferMarks optionProg 40 id 0) = [true, true, false, true] := by
  decide +kernel

example : hasShape optionProg 12 (.named 4 []) (.struct "Root" [
    ("i", .struct "R" [("x", .some (.int .i32 1)), ("rest", .seq (some 1) [.int .i32 2])]),
    ("v", .struct "R" [("x", .some (.seq (some 2) [.none, .some (.int .i32 3)])), ("rest", .seq (some 0) [])]),
    ("p", .struct "R" [("x", .none), ("rest", .seq (some 1) [
      .struct "Pair" [("a", .none), ("b", .seq (some 1) [.some (.bool false)])]])]),
    ("q", .struct "Q" [
      ("r", .struct "R" [("x", .some (.newtypeStruct "N" (.str "s"))), ("rest", .seq (some 0) [])]),
      ("u", .some (.newtypeStruct "N" (.str "t")))])]) = true := by decide +kernel

example (ext : Avro.Impl.Ext) (hash : Key → String) (fuel : Nat) (Sm : SchemaMut) (f : Nat) (sv : SV)
    (hbuild : schemaMut optionProg hash fuel (.named 4 []) = some Sm)
    (hs : hasShape optionProg f (.named 4 []) sv = true) :
    (ser ext false (freezeNodes Sm) ((freezeNodes Sm)[0]!) sv {}).1 = .ok () :=
  C20_fits_wider ext optionProg hash fuel _ Sm f sv hbuild optionProg_fitWfW hs

/-! ### The condition of extension 2 is necessary -/

def extW0 : Avro.Impl.Ext :=
  { asF32 := fun _ => 0, decFromF64 := fun _ => none, decParse := fun _ => none, decRescale := fun x _ => x }

/-- `struct R<T> { x: Option<T> }`. -/
def optionBadProg : Prog := #[
  { ident := "R", nparams := 1, modulePath := "m", body := .record [
      { name := "x", ty := .option (.param 0) } ] } ]

/-- … and `enum E { A(i32), Null }` (an enum that maps to a union). -/
def optionBadProgU : Prog := optionBadProg.push
  { ident := "E", modulePath := "m", body := .union [
      { ident := "A", serdeName := "Int", field := some { name := "0", ty := .i32 } },
      { ident := "Null", serdeName := "Null", field := none } ] }

/-- `R<Option<i32>>`, `R<()>` are rejected by the check, `R<i32>` passes. -/
example : DeriveW.FitWfW optionBadProg (.named 0 [.option .i32]) = false := by decide +kernel
example : DeriveW.FitWfW optionBadProg (.named 0 [.unit]) = false := by decide +kernel
example : DeriveW.FitWfW optionBadProg (.named 0 [.i32]) = true := by decide +kernel
example : DeriveW.FitWfW optionBadProgU (.named 0 [.named 1 []]) = false := by decide +kernel

/-- Whether the value serializes under the schema derived for `root` (`none`: no schema). -/
def fitsAt (P : Prog) (root : Ty) (sv : SV) : Option Bool :=
  (schemaMut P DeriveNames.hashDemo 40 root).map fun Sm =>
    match (ser extW0 false (freezeNodes Sm) ((freezeNodes Sm)[0]!) sv {}).1 with
    | .ok _ => true
    | .error _ => false

theorem not_fits_of_fitsAt {P : Prog} {root : Ty} {sv : SV} (h : fitsAt P root sv = some false) :
    ∃ Sm, schemaMut P DeriveNames.hashDemo 40 root = some Sm ∧
      (ser extW0 false (freezeNodes Sm) ((freezeNodes Sm)[0]!) sv {}).1 ≠ .ok () := by
  unfold fitsAt at h
  cases hs : schemaMut P DeriveNames.hashDemo 40 root with
  | none => simp [hs] at h
  | some Sm =>
    refine ⟨Sm, rfl, fun hok => ?_⟩
    simp [hs, hok] at h

/-- **`Option<T>` at `T = Option<i32>` does not fit.**  The schema is built
    (`{x: [null, [null, int]]}`), `R { x: Some(Some(5)) }` is a value of the type, and the
    serializer rejects it. -/
theorem option_param_at_option_fails :
    hasShape optionBadProg 6 (.named 0 [.option .i32]) (.struct "R" [("x", .some (.some (.int .i32 5)))]) = true ∧
    ∃ Sm, schemaMut optionBadProg DeriveNames.hashDemo 40 (.named 0 [.option .i32]) = some Sm ∧
      (ser extW0 false (freezeNodes Sm) ((freezeNodes Sm)[0]!)
        (.struct "R" [("x", .some (.some (.int .i32 5)))]) {}).1 ≠ .ok () :=
  ⟨by decide +kernel, not_fits_of_fitsAt (by decide +kernel)⟩

/-- `R { x: Some(None) }` is accepted there: `serialize_some` is transparent and `serialize_none`
    picks the null branch of the *outer* union, so it is written as `R { x: None }` is. -/
theorem option_param_at_option_some_none :
    fitsAt optionBadProg (.named 0 [.option .i32]) (.struct "R" [("x", .some .none)]) = some true ∧
    (schemaMut optionBadProg DeriveNames.hashDemo 40 (.named 0 [.option .i32])).map (fun Sm =>
      (ser extW0 false (freezeNodes Sm) ((freezeNodes Sm)[0]!) (.struct "R" [("x", .some .none)]) {}).2.out) =
    (schemaMut optionBadProg DeriveNames.hashDemo 40 (.named 0 [.option .i32])).map (fun Sm =>
      (ser extW0 false (freezeNodes Sm) ((freezeNodes Sm)[0]!) (.struct "R" [("x", .none)]) {}).2.out) :=
  ⟨by decide +kernel, by decide +kernel⟩

/-- **`Option<T>` at `T` = an enum that maps to a union does not fit**: `R { x: Some(E::A(5)) }` is
    rejected under `{x: [null, [int, null]]}` (while `E::A(5)` alone serializes under `E`'s schema). -/
theorem option_param_at_union_fails :
    hasShape optionBadProgU 6 (.named 0 [.named 1 []])
      (.struct "R" [("x", .some (.newtypeVariant "E" 0 "Int" (.int .i32 5)))]) = true ∧
    (∃ Sm, schemaMut optionBadProgU DeriveNames.hashDemo 40 (.named 0 [.named 1 []]) = some Sm ∧
      (ser extW0 false (freezeNodes Sm) ((freezeNodes Sm)[0]!)
        (.struct "R" [("x", .some (.newtypeVariant "E" 0 "Int" (.int .i32 5)))]) {}).1 ≠ .ok ()) ∧
    fitsAt optionBadProgU (.named 1 []) (.newtypeVariant "E" 0 "Int" (.int .i32 5)) = some true :=
  ⟨by decide +kernel, not_fits_of_fitsAt (by decide +kernel), by decide +kernel⟩

/-- `struct Int<T>(T);` -/
def newtypeBadProg : Prog := #[
  { ident := "Int", nparams := 1, modulePath := "m", body := .newtype { name := "0", ty := .param 0 } } ]

/-- **The parameter of a forwarding newtype `struct N<T>(T);` must be plain too**: at
    `T = Option<i32>` the newtype sits on the union `[null, int]`, and by-name selection with the
    struct's name (here `Int`, a lookup name of the `int` branch) sends `Int(None)` to the wrong
    branch — the generic form of the known failure of `struct Int(Option<i32>)`
    (`Theorems/C20fits.lean`).  The check rejects every `N<Option<_>>`, and accepts `Int<i32>`. -/
theorem newtype_param_at_option_fails :
    hasShape newtypeBadProg 5 (.named 0 [.option .i32]) (.newtypeStruct "Int" .none) = true ∧
    (∃ Sm, schemaMut newtypeBadProg DeriveNames.hashDemo 40 (.named 0 [.option .i32]) = some Sm ∧
      (ser extW0 false (freezeNodes Sm) ((freezeNodes Sm)[0]!) (.newtypeStruct "Int" .none) {}).1 ≠ .ok ()) ∧
    DeriveW.FitWfW newtypeBadProg (.named 0 [.option .i32]) = false ∧
    DeriveW.FitWfW newtypeBadProg (.named 0 [.i32]) = true :=
  ⟨by decide +kernel, not_fits_of_fitsAt (by decide +kernel), by decide +kernel, by decide +kernel⟩

example : DeriveW.FitWfW newtypeProg (.named 0 [.option .i32]) = false := by decide +kernel

end Avro.Theorems
