import Driver.Parse
import AvroModel.Theorems.C01glue
/-
The external-parameter table the test driver really runs (`Driver.ExtTable.toExt`,
Driver/Parse.lean) satisfies `ExtOK` — the hypothesis about `rust_decimal` of
`C01_ser_canonical(_strict/_checks)`, `C01_roundtrip_impl(_bounded)`, `C02_sound_strong`,
`C02_sound_partial`, `C02_unrepresentable_err` — so those theorems can be instantiated with the
driver's own `ext`.

* `toExt_ExtOK`: for every table that passes the decidable range check `ExtTable.ok` (every decimal
  a `dparse` / `df64` entry answers has a mantissa in `i128` and a scale `< 2^63`; every `rescale`
  entry answers a mantissa in `i128`).  The check is what is truly needed: a table with an
  out-of-range entry falsifies `ExtOK` (`toExt_ExtOK_iff`).
* `pExtEntries_ok`: the driver's table parser refuses (`bad-case`) a table that does not pass the
  check, so every table the driver runs the model with passes it: `pExtEntries_ExtOK`.
* `toExt_ExtOK_empty`: the empty table (no decimal conversion in the case).

(`ExtOK.rescale` used to be unconditional — `∀ d scale, inI128 (decRescale d scale).1` — which no
table satisfies, because `toExt` answers `d` itself outside its finite domain:
`NonVacuityA.toExt_not_ExtOK_unconditional`.)
-/
namespace Avro.Theorems
open Avro Avro.Impl Driver

theorem lookup_join_mem {α β} [BEq α] [LawfulBEq α] {l : List (α × Option β)} {a : α} {b : β}
    (h : (l.lookup a).join = some b) : (a, some b) ∈ l := by
  induction l with
  | nil => simp at h
  | cons p r ih =>
    obtain ⟨x, y⟩ := p
    rw [List.lookup_cons] at h
    by_cases hax : a = x
    · subst hax
      simp only [beq_self_eq_true] at h
      cases y with
      | none => simp at h
      | some y' =>
        simp only [Option.join_some, Option.some.injEq] at h
        subst h
        exact List.mem_cons_self ..
    · have : (a == x) = false := by simpa using hax
      simp only [this] at h
      exact List.mem_cons_of_mem _ (ih h)

theorem lookup_mem' {α β} [BEq α] [LawfulBEq α] {l : List (α × β)} {a : α} {b : β}
    (h : l.lookup a = some b) : (a, b) ∈ l := by
  induction l with
  | nil => simp at h
  | cons p r ih =>
    obtain ⟨x, y⟩ := p
    rw [List.lookup_cons] at h
    by_cases hax : a = x
    · subst hax
      simp only [beq_self_eq_true, Option.some.injEq] at h
      subst h
      exact List.mem_cons_self ..
    · have : (a == x) = false := by simpa using hax
      simp only [this] at h
      exact List.mem_cons_of_mem _ (ih h)

/-- **The driver's parameter table satisfies `ExtOK`**, for every table that passes the range
    check. -/
theorem toExt_ExtOK (t : ExtTable) (h : t.ok = true) : ExtOK t.toExt := by
  simp only [ExtTable.ok, Bool.and_eq_true, List.all_eq_true] at h
  obtain ⟨⟨hp, hf⟩, hr⟩ := h
  refine ⟨fun d scale hd => ?_, fun b d hb => ?_, fun s d hs => ?_⟩
  · simp only [ExtTable.toExt]
    split
    · next r hl => exact hr _ (lookup_mem' hl)
    · exact hd
  · have := hf _ (lookup_join_mem (show (t.df64.lookup b.toNat).join = some d from hb))
    simpa using this
  · have := hp _ (lookup_join_mem (show (t.dparse.lookup s).join = some d from hs))
    simpa using this

/-- the empty table (what most streams ship) -/
theorem toExt_ExtOK_empty : ExtOK ({} : ExtTable).toExt := toExt_ExtOK {} rfl

/-- What the check leaves out cannot be dropped: on a table without shadowed entries (distinct
    keys, as the harness records them) `ExtOK` of the driver's `Ext` IS the range check. -/
theorem toExt_ExtOK_iff (t : ExtTable)
    (hd1 : (t.dparse.map (·.1)).Nodup) (hd2 : (t.df64.map (·.1)).Nodup)
    (hd3 : (t.rescale.map (·.1)).Nodup)
    (hkey : ∀ p ∈ t.df64, p.1 < 2 ^ 64)
    (hdom : ∀ p ∈ t.rescale, inI128 p.1.1 = true) :
    ExtOK t.toExt ↔ t.ok = true := by
  refine ⟨fun h => ?_, toExt_ExtOK t⟩
  have look : ∀ {α β : Type} [BEq α] [LawfulBEq α] (l : List (α × β)), (l.map (·.1)).Nodup →
      ∀ p ∈ l, l.lookup p.1 = some p.2 := by
    intro α β _ _ l
    induction l with
    | nil => intro _ p hp; cases hp
    | cons q r ih =>
      intro hnd p hp
      simp only [List.map_cons, List.nodup_cons] at hnd
      rw [List.lookup_cons]
      rcases List.mem_cons.1 hp with rfl | hp
      · simp
      · have hne : (p.1 == q.1) = false := by
          simp only [beq_eq_false_iff_ne, ne_eq]
          intro e
          exact hnd.1 (e ▸ List.mem_map_of_mem hp)
        simp only [hne]
        exact ih hnd.2 p hp
  simp only [ExtTable.ok, Bool.and_eq_true, List.all_eq_true]
  refine ⟨⟨fun p hp => ?_, fun p hp => ?_⟩, fun p hp => ?_⟩
  · obtain ⟨s, o⟩ := p
    cases o with
    | none => rfl
    | some d =>
      have := h.parse s d (by simp [ExtTable.toExt, look _ hd1 _ hp])
      simpa using this
  · obtain ⟨b, o⟩ := p
    cases o with
    | none => rfl
    | some d =>
      have hb : b < 2 ^ 64 := hkey _ hp
      have := h.fromF64 (BitVec.ofNat 64 b) d
        (by simp [ExtTable.toExt, BitVec.toNat_ofNat, Nat.mod_eq_of_lt hb, look _ hd2 _ hp])
      simpa using this
  · obtain ⟨⟨m, s, tg⟩, r⟩ := p
    have := h.rescale (m, s) tg (hdom _ hp)
    simpa [ExtTable.toExt, look _ hd3 _ hp] using this

/-- The driver's table parser only returns checked tables … -/
theorem pExtEntries_ok (t0 t : ExtTable) (inp rest : List String)
    (h : pExtEntries t0 inp = .ok (t, rest)) : t.ok = true := by
  unfold pExtEntries at h
  simp only [bind, StateT.bind] at h
  cases hr : pExtEntriesRaw t0 inp with
  | error e => rw [hr] at h; cases h
  | ok p =>
    obtain ⟨r, inp'⟩ := p
    rw [hr] at h
    simp only [Except.bind] at h
    by_cases hk : r.ok = true
    · simp only [hk, if_true] at h
      cases h
      exact hk
    · simp only [hk] at h
      cases h

/-- … so the `Ext` the driver passes to `ser` (`(← pExtEntries {}).toExt` in `runSer`,
    `runJudgeSer`, `runRt`, `runJudgeRt`, `runReuse`, `runPerm`, `runSingle`, `runOcfw`) satisfies
    the hypothesis `ExtOK` of the C01 / C02 theorems, whatever the case line. -/
theorem pExtEntries_ExtOK (t0 t : ExtTable) (inp rest : List String)
    (h : pExtEntries t0 inp = .ok (t, rest)) : ExtOK t.toExt :=
  toExt_ExtOK t (pExtEntries_ok t0 t inp rest h)

end Avro.Theorems
