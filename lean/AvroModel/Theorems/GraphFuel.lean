import AvroModel.Lemmas.DriverFuel
import AvroModel.Impl.Single
import AvroModel.Theorems.C19
import AvroModel.Theorems.C07valid
import AvroModel.Theorems.C08spec
import AvroModel.Theorems.C09global
import AvroModel.Theorems.C09globalC08
/-
The registered theorems about the fuelled graph traversals (`canonicalForm`, `renderJson`,
`freeze`, `schemaFingerprint`) AT THE FUEL THE TEST DRIVER USES, `Avro.Impl.graphFuel S`
(`Lemmas/DriverFuel.lean`; `Driver/Main.lean` uses that very definition).

Why this file exists.  The conclusions of `C07_valid_parses_and_resolves`,
`C07_valid_parses_checked`, `C08_pcf_is_spec`, `C08_pcf_is_spec_text`,
`C09_reparsed_has_same_pcf`, `C09_reparsed_canonicalForm_eq` have the form
`∀ fuel, n + 2 ≤ fuel → canonicalForm S fuel = .ok text` where `n` is the node-count parameter of
`parseJson j n` (the driver passes `4 * jsonSize j + 8`).  That range need not contain
`graphFuel S` (audit: `NonVacuityE2.gEnum`, `NonVacuityD.padded_*`), so the theorems did not
literally speak about the value the driver computes.  Above `pcfBound S` the fuel of
`canonicalForm` is irrelevant (`C19_pcf_stable`), and `pcfBound S ≤ graphFuel S`
(`pcfBound_le_graphFuel`); hence every such conclusion transfers to `graphFuel S`
(`canonicalForm_at_graphFuel_of_large`).  Each corollary below has the hypotheses of the original
and the conclusion at `graphFuel`; a hypothesis `renderJson S fuel = .ok j` is taken at
`fuel := graphFuel S`.

(Possible since the five helper lemmas of `Lemmas/SchemaRender.lean` whose names clashed with
`Lemmas/SchemaParse.lean` are `private`: the two developments can now be imported together.)
-/
namespace Avro.Theorems
open Avro Avro.Impl Avro.Spec Avro.Spec.Pcf Avro.PcfSpec Avro.ValidParses

/-! ### the driver's fuel dominates the bounds of C19 -/

theorem bounds_le_graphFuel (S : SchemaMut) :
    max (pcfBound S) (renderBound S) ≤ graphFuel S := by
  unfold pcfBound renderBound graphFuel
  rw [Nat.max_self]
  have h1 : S.size * (S.size + 1) ≤ (S.size + 2) * (S.size + 2) :=
    Nat.mul_le_mul (by omega) (by omega)
  have h2 := Nat.mul_le_mul h1 (show maxWidth S + 1 ≤ maxWidth S + 2 by omega)
  omega

theorem pcfBound_le_graphFuel (S : SchemaMut) : pcfBound S ≤ graphFuel S :=
  Nat.le_trans (Nat.le_max_left _ _) (bounds_le_graphFuel S)

theorem renderBound_le_graphFuel (S : SchemaMut) : renderBound S ≤ graphFuel S :=
  Nat.le_trans (Nat.le_max_right _ _) (bounds_le_graphFuel S)

/-! ### no `panic` (out of fuel) at the driver's fuel, for every graph -/

theorem C19_pcf_total_at_graphFuel (S : SchemaMut) :
    canonicalForm S (graphFuel S) ≠ .error .panic :=
  C19_pcf_total S _ (pcfBound_le_graphFuel S)

theorem C19_render_total_at_graphFuel (S : SchemaMut) :
    renderJson S (graphFuel S) ≠ .error .panic :=
  C19_render_total S _ (renderBound_le_graphFuel S)

theorem C19_freeze_total_at_graphFuel (S : SchemaMut) (kept : Bool) :
    freeze S kept (graphFuel S) ≠ .error .panic :=
  C19_freeze_total S kept _ (bounds_le_graphFuel S)

theorem C19_fingerprint_total_at_graphFuel (S : SchemaMut) :
    schemaFingerprint S (graphFuel S) ≠ .error .panic := by
  unfold schemaFingerprint
  have h := C19_pcf_total_at_graphFuel S
  cases hc : canonicalForm S (graphFuel S) with
  | ok t => intro h'; cases h'
  | error e => rw [hc] at h; intro h'; cases h'; exact h rfl

/-- The results at the driver's fuel are the results at the bounds of C19. -/
theorem C19_pcf_stable_at_graphFuel (S : SchemaMut) :
    canonicalForm S (graphFuel S) = canonicalForm S (pcfBound S) :=
  C19_pcf_stable S _ (pcfBound_le_graphFuel S)

theorem C19_render_stable_at_graphFuel (S : SchemaMut) :
    renderJson S (graphFuel S) = renderJson S (renderBound S) :=
  C19_render_stable S _ (renderBound_le_graphFuel S)

/-! ### the bridge -/

/-- A value of `canonicalForm` established for all large fuels (`N ≤ fuel`, any `N`) is its value
    at the driver's fuel. -/
theorem canonicalForm_at_graphFuel_of_large (S : SchemaMut) (N : Nat) (r : Except SchemaErr String)
    (h : ∀ fuel, N ≤ fuel → canonicalForm S fuel = r) :
    canonicalForm S (graphFuel S) = r := by
  have hb := pcfBound_le_graphFuel S
  have h1 := h (max N (graphFuel S)) (Nat.le_max_left _ _)
  rw [C19_pcf_stable S _ (Nat.le_trans hb (Nat.le_max_right _ _))] at h1
  rw [C19_pcf_stable S _ hb]
  exact h1

/-- and conversely: the value at the driver's fuel is the value at every fuel `≥ pcfBound S`. -/
theorem canonicalForm_of_at_graphFuel (S : SchemaMut) (r : Except SchemaErr String)
    (h : canonicalForm S (graphFuel S) = r) (fuel : Nat) (hf : pcfBound S ≤ fuel) :
    canonicalForm S fuel = r := by
  rw [C19_pcf_stable S _ hf, ← C19_pcf_stable_at_graphFuel S]; exact h

/-- (formerly `NonVacuityE.reparsed_at_graphFuel`) -/
theorem reparsed_at_graphFuel (S' : SchemaMut) (n : Nat) (text : String)
    (h : ∀ fuel'', n + 2 ≤ fuel'' → canonicalForm S' fuel'' = .ok text) :
    canonicalForm S' (graphFuel S') = .ok text :=
  canonicalForm_at_graphFuel_of_large S' (n + 2) _ h

/-! ### C07 / C08 at the driver's fuel -/

theorem C07_valid_parses_and_resolves_at_graphFuel (j : Json) (n : Nat) (hv : ValidDoc j = true)
    (hd : jsonNesting j ≤ 127) (hn : schemaSize j ≤ n) (hc : NoUnconditionalCycle j) :
    ∃ S text, parseJson j n = .ok S ∧ parsingCanonicalForm j = some text ∧
      canonicalForm S (graphFuel S) = .ok text := by
  obtain ⟨S, text, h1, h2, h3⟩ := C07_valid_parses_and_resolves j n hv hd hn hc
  exact ⟨S, text, h1, h2, reparsed_at_graphFuel S n text h3⟩

theorem C07_valid_parses_checked_at_graphFuel (j : Json) (n : Nat) (hv : ValidDoc j = true)
    (hd : jsonNesting j ≤ 127) (hn : schemaSize j ≤ n) (hc : noUnconditionalCycleB j = true) :
    ∃ S text, parseJson j n = .ok S ∧ parsingCanonicalForm j = some text ∧
      canonicalForm S (graphFuel S) = .ok text := by
  obtain ⟨S, text, h1, h2, h3⟩ := C07_valid_parses_checked j n hv hd hn hc
  exact ⟨S, text, h1, h2, reparsed_at_graphFuel S n text h3⟩

theorem C08_pcf_is_spec_at_graphFuel (j : Json) (n : Nat) (S : SchemaMut)
    (hparse : parseJson j n = .ok S) (hnf : noForwardRefs j = true) :
    ∃ c, canon none j = some c ∧ canonicalForm S (graphFuel S) = .ok (print c) := by
  obtain ⟨c, h1, h2⟩ := C08_pcf_is_spec j n S hparse hnf
  exact ⟨c, h1, reparsed_at_graphFuel S n _ h2⟩

theorem C08_pcf_is_spec_text_at_graphFuel (j : Json) (n : Nat) (S : SchemaMut)
    (hparse : parseJson j n = .ok S) (hnf : noForwardRefs j = true) :
    ∃ text, parsingCanonicalForm j = some text ∧ canonicalForm S (graphFuel S) = .ok text := by
  obtain ⟨text, h1, h2⟩ := C08_pcf_is_spec_text j n S hparse hnf
  exact ⟨text, h1, reparsed_at_graphFuel S n _ h2⟩

/-- the fingerprint the driver computes is the fingerprint of the specification's text -/
theorem C08_fingerprint_is_spec_at_graphFuel (j : Json) (n : Nat) (S : SchemaMut)
    (hparse : parseJson j n = .ok S) (hnf : noForwardRefs j = true) :
    ∃ text, parsingCanonicalForm j = some text ∧
      schemaFingerprint S (graphFuel S) = .ok (rabinFingerprint text.toUTF8.data.toList) := by
  obtain ⟨text, h1, h2⟩ := C08_pcf_is_spec_text_at_graphFuel j n S hparse hnf
  exact ⟨text, h1, by simp only [schemaFingerprint, h2]⟩

/-! ### C09 at the driver's fuel -/

theorem C09_render_has_graph_pcf_at_graphFuel (S : SchemaMut) (j : Json)
    (hwf : ∀ (i : Nat) (node : RawNode) (nm : Name),
      S[i]? = some node → RenderPcf.nameOf node.type = some nm → nm.WF)
    (hrender : renderJson S (graphFuel S) = .ok j) :
    noForwardRefs j = true ∧
    ∃ text, parsingCanonicalForm j = some text ∧ canonicalForm S (graphFuel S) = .ok text := by
  obtain ⟨h0, text, h1, h2⟩ := C09_render_has_graph_pcf S (graphFuel S) j hwf hrender
  exact ⟨h0, text, h1, h2 _ (Nat.le_refl _)⟩

theorem C09_render_has_graph_pcf_dec_at_graphFuel (S : SchemaMut) (j : Json)
    (hwf : RenderPcf.namesWFb S = true) (hrender : renderJson S (graphFuel S) = .ok j) :
    noForwardRefs j = true ∧
    ∃ text, parsingCanonicalForm j = some text ∧ canonicalForm S (graphFuel S) = .ok text := by
  obtain ⟨h0, text, h1, h2⟩ := C09_render_has_graph_pcf_dec S (graphFuel S) j hwf hrender
  exact ⟨h0, text, h1, h2 _ (Nat.le_refl _)⟩

theorem C09_reparsed_has_same_pcf_at_graphFuel (S : SchemaMut) (j : Json) (n : Nat)
    (S' : SchemaMut)
    (hwf : ∀ (i : Nat) (node : RawNode) (nm : Name),
      S[i]? = some node → RenderPcf.nameOf node.type = some nm → RenderPcf.NameWF nm)
    (hrender : renderJson S (graphFuel S) = .ok j) (hparse : parseJson j n = .ok S') :
    ∃ text, parsingCanonicalForm j = some text ∧
      canonicalForm S (graphFuel S) = .ok text ∧
      canonicalForm S' (graphFuel S') = .ok text := by
  obtain ⟨text, h1, h2, h3⟩ := C09_reparsed_has_same_pcf S (graphFuel S) j n S' hwf hrender hparse
  exact ⟨text, h1, h2 _ (Nat.le_refl _), reparsed_at_graphFuel S' n text h3⟩

/-- What the driver's `graph` / `reparse` commands compare: both sides at the driver's fuels. -/
theorem C09_reparsed_canonicalForm_eq_at_graphFuel (S : SchemaMut) (j : Json) (n : Nat)
    (S' : SchemaMut) (hwf : RenderPcf.namesWFb S = true)
    (hrender : renderJson S (graphFuel S) = .ok j) (hparse : parseJson j n = .ok S') :
    canonicalForm S' (graphFuel S') = canonicalForm S (graphFuel S) := by
  obtain ⟨text, -, h2, h3⟩ :=
    C09_reparsed_has_same_pcf_at_graphFuel S j n S' (RenderPcf.namesWF_of_b S hwf) hrender hparse
  rw [h2, h3]

/-- … hence the same fingerprint. -/
theorem C09_reparsed_fingerprint_eq_at_graphFuel (S : SchemaMut) (j : Json) (n : Nat)
    (S' : SchemaMut) (hwf : RenderPcf.namesWFb S = true)
    (hrender : renderJson S (graphFuel S) = .ok j) (hparse : parseJson j n = .ok S') :
    schemaFingerprint S' (graphFuel S') = schemaFingerprint S (graphFuel S) := by
  unfold schemaFingerprint
  rw [C09_reparsed_canonicalForm_eq_at_graphFuel S j n S' hwf hrender hparse]

end Avro.Theorems
