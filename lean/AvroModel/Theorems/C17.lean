import AvroModel.Lemmas.OcfReader
/-
C17 — the container reader on truncated / corrupted input.

"For a valid container file cut at any byte offset, the reader yields a prefix of the original
values, then an error or end of stream — never a value that was not written and never a panic or
endless loop.  A block whose trailing sync marker differs, whose declared size or object count
disagrees with its contents … is reported as an error …  After an unrecoverable (I/O or framing)
error the reader reports it once and then reports end of stream."

All statements are for an arbitrary datum deserializer `datum` and an arbitrary `Decomp`.
-/
namespace Avro.Theorems
open Avro Avro.Impl Avro.Impl.Ocf

variable {α : Type}

/-! ### 1. An unrecoverable error is reported once, then end of stream -/

/-- the reader after `k` further calls of `next` -/
def iterNext (d : Decomp) (datum : RState → Except DeErr α × RState) : Nat → Reader → Reader
  | 0, r => r
  | k + 1, r => iterNext d datum k (next d datum r).2

/-- once `pretendEof` is set, `next` answers end of stream and does not move -/
theorem C17_eof_sticky (d : Decomp) (datum : RState → Except DeErr α × RState) (r : Reader)
    (h : r.pretendEof = true) :
    (next d datum r).1 = .ok none ∧ (next d datum r).2 = r := by
  simp [next, h]

theorem C17_eof_sticky_iter (d : Decomp) (datum : RState → Except DeErr α × RState) (r : Reader)
    (h : r.pretendEof = true) (k : Nat) :
    iterNext d datum k r = r ∧ (next d datum (iterNext d datum k r)).1 = .ok none := by
  induction k with
  | zero => exact ⟨rfl, (C17_eof_sticky d datum r h).1⟩
  | succ k ih =>
    simp only [iterNext, (C17_eof_sticky d datum r h).2]
    exact ih

/-- `pretendEof` is set by `next` in exactly the stated cases: the call returned an error which is
    an I/O error or left the reader `broken`. -/
theorem C17_pretendEof_iff (d : Decomp) (datum : RState → Except DeErr α × RState) (r : Reader)
    (h0 : r.pretendEof = false) :
    (next d datum r).2.pretendEof = true ↔
      ∃ e, (next d datum r).1 = .error e ∧ (e = .io ∨ (next d datum r).2.st = .broken) := by
  have hk := (nextInner_keeps d datum (r.outer.rest.length + 4) r).1
  unfold next
  simp only [h0, Bool.false_eq_true, if_false]
  generalize nextInner d datum (r.outer.rest.length + 4) r = x at hk
  obtain ⟨res, r'⟩ := x
  simp only at hk
  cases res with
  | ok a => simp [hk, h0]
  | error e =>
    simp only
    by_cases hc : e = .io ∨ r'.st = .broken
    · rw [if_pos hc]
      exact ⟨fun _ => ⟨e, rfl, hc⟩, fun _ => rfl⟩
    · rw [if_neg hc]
      simp only [hk, h0, Bool.false_eq_true, false_iff]
      rintro ⟨e', he', hc'⟩
      simp only [Except.error.injEq] at he'
      subst he'
      exact hc hc'

/-- **C17 (report once, then end of stream).** If `next` returns an error that is an I/O error, or
    that leaves the reader `broken` (every framing error does, `C17_framing_sets_broken`), then all
    later calls return `Ok(None)` and leave the reader unchanged. -/
theorem C17_error_once (d : Decomp) (datum : RState → Except DeErr α × RState) (r : Reader)
    (e : RdErr) (h : (next d datum r).1 = .error e)
    (hc : e = .io ∨ (next d datum r).2.st = .broken) :
    (next d datum r).2.pretendEof = true ∧
    ∀ k, (next d datum (iterNext d datum k (next d datum r).2)).1 = .ok none ∧
         (next d datum (iterNext d datum k (next d datum r).2)).2 = (next d datum r).2 := by
  have hp : (next d datum r).2.pretendEof = true := by
    cases h0 : r.pretendEof with
    | true => rw [(C17_eof_sticky d datum r h0).2]; exact h0
    | false => exact (C17_pretendEof_iff d datum r h0).2 ⟨e, h, hc⟩
  refine ⟨hp, fun k => ?_⟩
  obtain ⟨h1, h2⟩ := C17_eof_sticky_iter d datum _ hp k
  refine ⟨h2, ?_⟩
  rw [h1]
  exact (C17_eof_sticky d datum _ hp).2

/-! ### 2. A broken reader answers with an error (once) -/

theorem C17_broken_is_error (d : Decomp) (datum : RState → Except DeErr α × RState) (r : Reader)
    (hb : r.st = .broken) (h0 : r.pretendEof = false) :
    (next d datum r).1 = .error .custom ∧ (next d datum r).2.pretendEof = true ∧
    (next d datum r).2 = { r with pretendEof := true } := by
  unfold next
  simp only [h0, Bool.false_eq_true, if_false]
  rw [nextInner_succ]
  simp [hb]

/-! ### 3. Every framing error leaves the reader `broken` -/

theorem C17_framing_sets_broken_enter (d : Decomp) (r : Reader) (e : RdErr)
    (h : (enterBlock d r).1 = .error e) : (enterBlock d r).2.st = .broken ∧ e ≠ .panic := by
  have := enterBlock_spec (d := d) (r := r) (res := (enterBlock d r).1) (r' := (enterBlock d r).2) rfl
  exact ((this.2.2.2 e h)).symm

theorem C17_framing_sets_broken_leave (d : Decomp) (r : Reader) (e : RdErr)
    (h : (leaveBlock d r).1 = .error e) : (leaveBlock d r).2.st = .broken ∧ e ≠ .panic := by
  have := leaveBlock_spec (d := d) (r := r) (res := (leaveBlock d r).1) (r' := (leaveBlock d r).2) rfl
  exact ((this.2.2.2 e h)).symm

theorem C17_framing_sets_broken (d : Decomp) (r : Reader) (e : RdErr) :
    ((enterBlock d r).1 = .error e → (enterBlock d r).2.st = .broken) ∧
    ((leaveBlock d r).1 = .error e → (leaveBlock d r).2.st = .broken) :=
  ⟨fun h => (C17_framing_sets_broken_enter d r e h).1,
   fun h => (C17_framing_sets_broken_leave d r e h).1⟩

/-- … so `next` turns a framing error met while changing block into report-once-then-EOF:
    whenever `next` returns an error with the reader `broken`, `pretendEof` is set. (Errors of the
    datum deserializer that are not I/O errors leave the reader usable: the next call goes on in
    the same block, as in the Rust code.) -/
theorem C17_framing_then_eof (d : Decomp) (datum : RState → Except DeErr α × RState) (r : Reader)
    (e : RdErr) (h : (next d datum r).1 = .error e) (hb : (next d datum r).2.st = .broken) :
    ∀ k, (next d datum (iterNext d datum k (next d datum r).2)).1 = .ok none :=
  fun k => ((C17_error_once d datum r e h (Or.inr hb)).2 k).1

/-! ### 4. Sync marker, size and count mismatches are errors -/

/-- general form: the block has been consumed, at least 16 bytes follow, they are not the sync
    marker: `Custom` error, reader broken (any codec, any back-end). -/
theorem C17_sync_mismatch_err_gen (d : Decomp) (r : Reader)
    (hl : leftover d r = false) (hlim : (leaveOuter d r).limit = none)
    (h16 : 16 ≤ r.after.length) (hne : r.after.take 16 ≠ r.sync) :
    (leaveBlock d r).1 = .error .custom ∧ (leaveBlock d r).2.st = .broken := by
  have hwf : (leaveOuter d r).WF := leaveOuter_wf d r
  have heff : 16 ≤ (leaveOuter d r).eff := by
    rw [eff_of_limit_none hlim, leaveOuter_rest]; exact h16
  obtain ⟨o', ho', _⟩ := (readExact_spec 16 (leaveOuter d r) hwf).1 heff
  rw [leaveOuter_rest] at ho'
  rw [leaveBlock_eq]
  simp [hl, ho', hne]

/-- **C17 (sync marker mismatch)**, null codec on the slice back-end, block fully consumed. -/
theorem C17_sync_mismatch_err (d : Decomp) (r : Reader)
    (hn : d.isNull = true) (hs : r.outer.isSlice = true) (hlim : r.outer.limit = none)
    (hb : r.blk.rest = []) (h16 : 16 ≤ r.after.length) (hne : r.after.take 16 ≠ r.sync) :
    (leaveBlock d r).1 = .error .custom ∧ (leaveBlock d r).2.st = .broken := by
  apply C17_sync_mismatch_err_gen d r _ _ h16 hne
  · simp [leftover, hn, hs, hb]
  · simp [leaveOuter, hs, hlim]

/-- a file cut inside the sync marker: some (non-panic) error, reader broken -/
theorem C17_sync_truncated_err (d : Decomp) (r : Reader)
    (hl : leftover d r = false) (h16 : r.after.length < 16) :
    ∃ e, (leaveBlock d r).1 = .error e ∧ e ≠ .panic ∧ (leaveBlock d r).2.st = .broken := by
  have hwf : (leaveOuter d r).WF := leaveOuter_wf d r
  have heff : (leaveOuter d r).eff < 16 := by
    have : (leaveOuter d r).eff ≤ (leaveOuter d r).rest.length := by
      unfold RState.eff; split <;> omega
    rw [leaveOuter_rest] at this; omega
  obtain ⟨e, o', ho'⟩ := (readExact_spec 16 (leaveOuter d r) hwf).2 heff
  have hle : leaveBlock d r = (.error (ofDe e), { r with st := .broken, outer := o' }) := by
    rw [leaveBlock_eq]; simp [hl, ho']
  refine ⟨ofDe e, by rw [hle], ?_, by rw [hle]⟩
  exact (leaveBlock_spec hle).2.2.2 _ rfl |>.1

/-- **C17 (declared size larger than the objects read)**, null codec, slice back-end. -/
theorem C17_size_mismatch_err (d : Decomp) (r : Reader)
    (hn : d.isNull = true) (hs : r.outer.isSlice = true) (hb : r.blk.rest ≠ []) :
    (leaveBlock d r).1 = .error .custom ∧ (leaveBlock d r).2.st = .broken := by
  rw [leaveBlock_eq]
  simp [leftover, hn, hs, hb]

/-- same on the reader back-end (`Take::limit() > 0`, repaired defect D17) -/
theorem C17_size_mismatch_err_reader (d : Decomp) (r : Reader)
    (hn : d.isNull = true) (hs : r.outer.isSlice = false) (hb : 0 < r.blkLimit) :
    (leaveBlock d r).1 = .error .custom ∧ (leaveBlock d r).2.st = .broken := by
  rw [leaveBlock_eq]
  simp [leftover, hn, hs, hb]

/-- **C17 (object count smaller than the block's contents)**, compressed codecs (repaired
    defect D11): the decompressed block still holds data when the declared count is exhausted. -/
theorem C17_count_mismatch_err (d : Decomp) (r : Reader)
    (hn : d.isNull = false) (hb : r.blk.rest ≠ []) :
    (leaveBlock d r).1 = .error .custom ∧ (leaveBlock d r).2.st = .broken := by
  rw [leaveBlock_eq]
  simp [leftover, hn, hb]

/-- … and through `next`: with the count exhausted (`st = inBlock 0`), each of the three
    mismatches makes `next` return the `Custom` error and switch to end of stream. -/
theorem C17_mismatch_next (d : Decomp) (datum : RState → Except DeErr α × RState) (r : Reader)
    (h0 : r.pretendEof = false) (hst : r.st = .inBlock 0)
    (h : (leaveBlock d r).1 = .error .custom) :
    (next d datum r).1 = .error .custom ∧ (next d datum r).2.pretendEof = true ∧
    (next d datum r).2.st = .broken := by
  have hb := (C17_framing_sets_broken_leave d r _ h).1
  unfold next
  simp only [h0, Bool.false_eq_true, if_false]
  rw [nextInner_succ]
  simp only [hst]
  generalize leaveBlock d r = x at h hb
  obtain ⟨res, r'⟩ := x
  simp only at h hb
  subst h
  simp [hb]

/-! ### 5. No endless loop: the fuel `next` passes is sufficient -/

/-- A reader that has not opened a block yet satisfies the invariant. -/
theorem C17_inv_init (r : Reader) (h : r.st = .notInBlock) : RdInv r := by
  intro n hn; rw [h] at hn; cases hn

/-- `next` preserves the invariant (so it holds for every reachable reader). -/
theorem C17_inv_next (d : Decomp) (datum : RState → Except DeErr α × RState) (r : Reader)
    (hi : RdInv r) : RdInv (next d datum r).2 := by
  have hk := (nextInner_keeps d datum (r.outer.rest.length + 4) r).2.2 hi
  unfold next
  split
  · exact hi
  · generalize nextInner d datum (r.outer.rest.length + 4) r = x at hk
    obtain ⟨res, r'⟩ := x
    cases res with
    | ok a => exact hk
    | error e =>
      simp only
      split
      · exact fun n hn => hk n hn
      · exact hk

theorem mu_le_of_inv (r : Reader) (hi : RdInv r) : mu r ≤ r.outer.rest.length := by
  unfold mu
  split
  · exact Nat.le_refl _
  · rename_i n hn; exact hi n hn
  · exact Nat.zero_le _

/-- **C17 (fuel is sufficient).** With at least `mu r + 1` units of fuel — in particular with the
    `r.outer.rest.length + 4` that `next` passes, on a reachable reader — the result of
    `nextInner` does not depend on the fuel: the out-of-fuel branch is never reached, whatever the
    datum deserializer does. -/
theorem C17_fuel_irrelevant (d : Decomp) (datum : RState → Except DeErr α × RState) (r : Reader)
    (hi : RdInv r) (fuel : Nat) (hf : r.outer.rest.length + 1 ≤ fuel) :
    nextInner d datum fuel r = nextInner d datum (r.outer.rest.length + 4) r := by
  have := mu_le_of_inv r hi
  exact nextInner_fuel d datum fuel _ r (by omega) (by omega)

/-- `nextInner` never reports `.panic` by itself when `fuel > mu r` (a `.panic` can then only be
    one raised by the datum deserializer). -/
theorem C17_total_inner (d : Decomp) (datum : RState → Except DeErr α × RState)
    (hd : ∀ s, (datum s).1 ≠ .error .panic) (r : Reader) (fuel : Nat) (hf : mu r < fuel) :
    (nextInner d datum fuel r).1 ≠ .error .panic :=
  nextInner_no_panic d datum hd fuel r hf

/-- **C17 (no panic, no endless loop).** On every reachable reader, `next` never reports the
    out-of-fuel `.panic` (nor any other: the read primitives never panic). -/
theorem C17_total (d : Decomp) (datum : RState → Except DeErr α × RState)
    (hd : ∀ s, (datum s).1 ≠ .error .panic) (r : Reader) (hi : RdInv r) :
    (next d datum r).1 ≠ .error .panic := by
  have hm := mu_le_of_inv r hi
  have := nextInner_no_panic d datum hd (r.outer.rest.length + 4) r (by omega)
  unfold next
  split
  · simp
  · generalize nextInner d datum (r.outer.rest.length + 4) r = x at this
    obtain ⟨res, r'⟩ := x
    cases res with
    | ok a => simp
    | error e =>
      simp only at this ⊢
      split <;> exact this

/-! ### 6. A truncated file yields a prefix of the values (slice back-end, every codec) -/

/-- how a run of `next` calls ended -/
inductive End
  | eos                 -- `Ok(None)`
  | err (e : RdErr)     -- an error
  | more                -- the budget of calls is exhausted, the reader could go on
  deriving DecidableEq, Repr

/-- Call `next` up to `k` times, collecting the values, until end of stream or an error. -/
def readAll (d : Decomp) (datum : RState → Except DeErr α × RState) : Nat → Reader → List α × End
  | 0, _ => ([], .more)
  | k + 1, r =>
    match next d datum r with
    | (.ok (some a), r') => (a :: (readAll d datum k r').1, (readAll d datum k r').2)
    | (.ok none, _) => ([], .eos)
    | (.error e, _) => ([], .err e)

/-- One `next` call: if the reader over the truncated source yields a value, the reader over the
    full source yields the same value, and they stay in simulation. -/
theorem next_cut (d : Decomp) (datum : RState → Except DeErr α × RState) (rt rf : Reader)
    (hsim : TSim rt rf) (hit : RdInv rt) (hif : RdInv rf) (a : α) (rt' : Reader)
    (h : next d datum rt = (.ok (some a), rt')) :
    ∃ rf', next d datum rf = (.ok (some a), rf') ∧ TSim rt' rf' := by
  unfold next at h ⊢
  cases hp : rt.pretendEof with
  | true => simp [hp] at h
  | false =>
    have hpf : rf.pretendEof = false := by rw [← hsim.peof]; exact hp
    simp only [hp, hpf, Bool.false_eq_true, if_false] at h ⊢
    obtain ⟨m, hm⟩ := hsim.outer
    have hlen : rt.outer.rest.length ≤ rf.outer.rest.length := by
      rw [hm]; simp only [List.length_take]; omega
    have hmt := mu_le_of_inv rt hit
    have hmf := mu_le_of_inv rf hif
    have e1 : nextInner d datum (rt.outer.rest.length + 4) rt
        = nextInner d datum (rf.outer.rest.length + 4) rt :=
      nextInner_fuel d datum _ _ rt (by omega) (by omega)
    rw [e1] at h
    generalize hx : nextInner d datum (rf.outer.rest.length + 4) rt = x at h
    obtain ⟨res, r1⟩ := x
    cases res with
    | error e => simp only at h; split at h <;> cases h
    | ok oa =>
      simp only [Prod.mk.injEq, Except.ok.injEq] at h
      obtain ⟨rfl, rfl⟩ := h
      obtain ⟨rf', hrf', hs'⟩ := nextInner_cut d datum _ rt rf hsim a r1 hx
      exact ⟨rf', by rw [hrf'], hs'⟩

/-- **C17 (truncation yields a prefix).** Slice back-end, any codec, any datum deserializer, any
    (valid or invalid) source: the values read from the truncated source are a prefix of the values
    read from the full source, and the truncated run ends (end of stream or error) no later than
    the full run. -/
theorem readAll_cut (d : Decomp) (datum : RState → Except DeErr α × RState) (k : Nat) :
    ∀ (rt rf : Reader), TSim rt rf → RdInv rt → RdInv rf →
      (readAll d datum k rt).1 <+: (readAll d datum k rf).1 ∧
      ((readAll d datum k rf).2 ≠ .more → (readAll d datum k rt).2 ≠ .more) := by
  induction k with
  | zero => intro rt rf _ _ _; exact ⟨List.prefix_refl _, id⟩
  | succ k ih =>
    intro rt rf hsim hit hif
    simp only [readAll]
    generalize hx : next d datum rt = x
    obtain ⟨res, rt'⟩ := x
    cases res with
    | error e => exact ⟨List.nil_prefix, fun _ => by simp⟩
    | ok oa =>
      cases oa with
      | none => exact ⟨List.nil_prefix, fun _ => by simp⟩
      | some a =>
        obtain ⟨rf', hrf', hs'⟩ := next_cut d datum rt rf hsim hit hif a rt' hx
        simp only [hrf']
        have hit' : RdInv rt' := by have := C17_inv_next d datum rt hit; rwa [hx] at this
        have hif' : RdInv rf' := by have := C17_inv_next d datum rf hif; rwa [hrf'] at this
        obtain ⟨h1, h2⟩ := ih rt' rf' hs' hit' hif'
        exact ⟨(List.prefix_cons_inj a).2 h1, h2⟩

/-! ### 6b. Round trip on a valid file, and the combined statement (null codec, slice back-end) -/

section Valid
variable {V : Type} (enc : V → Bytes)

/-- the objects of a block, concatenated -/
def blockData (vals : List V) : Bytes := (vals.map enc).flatten

/-- a block as the writer lays it out (null codec): count, size, objects, sync marker -/
def blockBytes (sync : Bytes) (vals : List V) : Bytes :=
  encodeVarI64 vals.length ++ encodeVarI64 (blockData enc vals).length ++ blockData enc vals ++ sync

/-- the file after its header -/
def fileBody (sync : Bytes) (blocks : List (List V)) : Bytes :=
  (blocks.map (blockBytes enc sync)).flatten

/-- count and size fit an `i64` -/
def BlockOk (vals : List V) : Prop :=
  Spec.InI64 (vals.length : Int) ∧ Spec.InI64 ((blockData enc vals).length : Int)

/-- the datum deserializer decodes what `enc` wrote (on the slice back-end) -/
def DatumOk (datum : RState → Except DeErr V × RState) : Prop :=
  ∀ (s : RState) (v : V) (y : Bytes), s.isSlice = true → s.rest = enc v ++ y →
    ∃ s', datum s = (.ok v, s') ∧ s'.rest = y ∧ s'.isSlice = true

/-- in a block, `vals` still to be read, then the blocks `bs` -/
structure Pos (sync : Bytes) (r : Reader) (vals : List V) (bs : List (List V)) : Prop where
  st : r.st = .inBlock vals.length
  peof : r.pretendEof = false
  hsync : r.sync = sync
  bslice : r.blk.isSlice = true
  brest : r.blk.rest = blockData enc vals
  after : r.after = sync ++ fileBody enc sync bs
  oslice : r.outer.isSlice = true
  olim : r.outer.limit = none
  inv : r.after.length ≤ r.outer.rest.length

/-- between blocks, the blocks `bs` still to be read -/
structure Start (sync : Bytes) (r : Reader) (bs : List (List V)) : Prop where
  st : r.st = .notInBlock
  peof : r.pretendEof = false
  hsync : r.sync = sync
  oslice : r.outer.isSlice = true
  olim : r.outer.limit = none
  orest : r.outer.rest = fileBody enc sync bs

theorem encodeVarI64_ne_nil (i : Int) : encodeVarI64 i ≠ [] := by
  unfold encodeVarI64
  rw [encodeVarU64]
  split <;> simp

theorem leaveBlock_valid {d : Decomp} {sync : Bytes} {r : Reader} {bs : List (List V)}
    (hn : d.isNull = true) (hsy : sync.length = 16) (hp : Pos enc sync r [] bs) :
    ∃ rn, leaveBlock d r = (.ok (), rn) ∧ Start enc sync rn bs ∧
      rn.outer.rest.length ≤ r.after.length := by
  have hlo : leftover d r = false := by
    simp [leftover, hn, hp.oslice, hp.brest, blockData]
  have hot : leaveOuter d r = { r.outer with rest := r.after, avail := 0 } := by
    simp [leaveOuter, hp.oslice]
  have h16 : 16 ≤ r.after.length := by rw [hp.after]; simp; omega
  rw [leaveBlock_eq, hlo, hot,
    readExact_slice (by exact hp.oslice) (by exact hp.olim) (by exact h16)]
  have ht : r.after.take 16 = r.sync := by
    rw [hp.after, hp.hsync, ← hsy, List.take_left']
    rfl
  have hd : r.after.drop 16 = fileBody enc sync bs := by
    rw [hp.after, ← hsy, List.drop_left']
    rfl
  simp only [ht, ne_eq, not_true_eq_false, if_false, Bool.false_eq_true]
  refine ⟨_, rfl, ⟨rfl, hp.peof, hp.hsync, hp.oslice, hp.olim, hd⟩, ?_⟩
  simp only [List.length_drop]; omega


theorem readVarint_encode {s : RState} {i : Int} {y : Bytes} (hs : s.isSlice = true)
    (hi : Spec.InI64 i) (hr : s.rest = encodeVarI64 i ++ y) :
    readVarint .i64 s = (.ok i, { s with rest := y }) := by
  rw [readVarint_slice hs, hr]
  have : decodeVar .i64 (encodeVarI64 i ++ y) = some (i, (encodeVarI64 i).length) :=
    decodeVarI64_encode i hi y
  rw [this]
  simp only [List.drop_left']

theorem enterBlock_valid {d : Decomp} {sync : Bytes} {r : Reader} {b : List V} {bs : List (List V)}
    (hn : d.isNull = true) (hb : BlockOk enc b) (hp : Start enc sync r (b :: bs)) :
    ∃ r2, enterBlock d r = (.ok (), r2) ∧ Pos enc sync r2 b bs ∧
      r2.after.length ≤ r.outer.rest.length := by
  obtain ⟨hst, hpe, hsy, hos, hol, hor⟩ := hp
  have hr1 : r.outer.rest = encodeVarI64 b.length ++
      (encodeVarI64 (blockData enc b).length ++ (blockData enc b ++ (sync ++ fileBody enc sync bs))) := by
    rw [hor]
    simp [fileBody, blockBytes, List.append_assoc]
  rw [enterBlock_eq, readVarint_encode hos hb.1 hr1]
  simp only [show ¬ ((b.length : Int) < 0) by omega, if_false]
  rw [readVarint_encode (by exact hos) hb.2 rfl]
  simp only [show ¬ (((blockData enc b).length : Int) < 0) by omega, if_false, Int.toNat_natCast]
  unfold enterTail
  simp only [hn, if_true, hos, true_and, List.length_append, gt_iff_lt]
  rw [if_neg (by omega)]
  refine ⟨_, rfl, ⟨by simp, hpe, hsy, rfl, by simp, by simp, rfl, hol, by simp⟩, ?_⟩
  simp only [hr1, List.drop_left', List.length_append]
  omega


/-- what `next` does with the result of `nextInner` -/
def post (x : Except RdErr (Option V) × Reader) : Except RdErr (Option V) × Reader :=
  match x with
  | (.error e, r') =>
    if e = .io ∨ r'.st = .broken then (.error e, { r' with pretendEof := true }) else (.error e, r')
  | (.ok a, r') => (.ok a, r')

theorem next_eq_post (d : Decomp) (datum : RState → Except DeErr V × RState) (r : Reader)
    (h : r.pretendEof = false) :
    next d datum r = post (nextInner d datum (r.outer.rest.length + 4) r) := by
  unfold next post
  simp only [h, Bool.false_eq_true, if_false]
  generalize nextInner d datum (r.outer.rest.length + 4) r = x
  obtain ⟨res, r'⟩ := x
  cases res <;> rfl

theorem nextInner_pos_cons {d : Decomp} {datum : RState → Except DeErr V × RState} {sync : Bytes}
    {r : Reader} {v : V} {vs : List V} {bs : List (List V)}
    (hd : DatumOk enc datum) (hp : Pos enc sync r (v :: vs) bs) (F : Nat) :
    ∃ r1, nextInner d datum (F + 1) r = (.ok (some v), r1) ∧ Pos enc sync r1 vs bs := by
  obtain ⟨h1, h2, h3, h4, h5, h6, h7, h8, h9⟩ := hp
  obtain ⟨s', hs', hr', hsl'⟩ := hd r.blk v (blockData enc vs) h4 (by rw [h5]; simp [blockData])
  rw [nextInner_succ]
  simp only [h1, List.length_cons, hs']
  exact ⟨_, rfl, rfl, h2, h3, hsl', hr', h6, h7, h8, h9⟩

theorem nextInner_pos_nil {d : Decomp} (datum : RState → Except DeErr V × RState) {sync : Bytes}
    {r : Reader} {bs : List (List V)}
    (hn : d.isNull = true) (hsy : sync.length = 16) (hp : Pos enc sync r [] bs) :
    ∃ rn, Start enc sync rn bs ∧ rn.outer.rest.length ≤ r.after.length ∧
      ∀ F, nextInner d datum (F + 1) r = nextInner d datum F rn := by
  obtain ⟨rn, hl, hs, hlen⟩ := leaveBlock_valid enc hn hsy hp
  refine ⟨rn, hs, hlen, fun F => ?_⟩
  rw [nextInner_succ]
  simp only [hp.st, List.length_nil, hl]

theorem nextInner_start_nil {d : Decomp} (datum : RState → Except DeErr V × RState) {sync : Bytes}
    {r : Reader} (hp : Start enc sync r []) (F : Nat) :
    nextInner d datum (F + 1) r = (.ok none, r) := by
  obtain ⟨st, pe, sy, outer, blk, after, lim⟩ := r
  have hst := hp.st
  simp only at hst
  subst hst
  have hos : outer.isSlice = true := hp.oslice
  have hor : outer.rest = [] := by have := hp.orest; simpa [fileBody] using this
  rw [nextInner_succ]
  simp only [fillBuf_slice hos, hor]
  simp

theorem nextInner_start_cons {d : Decomp} (datum : RState → Except DeErr V × RState) {sync : Bytes}
    {r : Reader} {b : List V} {bs : List (List V)}
    (hn : d.isNull = true) (hb : BlockOk enc b) (hp : Start enc sync r (b :: bs)) :
    ∃ r2, Pos enc sync r2 b bs ∧ r2.after.length ≤ r.outer.rest.length ∧
      ∀ F, nextInner d datum (F + 1) r = nextInner d datum F r2 := by
  obtain ⟨r2, he, hp2, hlen⟩ := enterBlock_valid enc hn hb hp
  refine ⟨r2, hp2, hlen, fun F => ?_⟩
  obtain ⟨st, pe, sy, outer, blk, after, lim⟩ := r
  have hst := hp.st
  simp only at hst
  subst hst
  have hos : outer.isSlice = true := hp.oslice
  have hne : outer.rest.isEmpty = false := by
    have hor : outer.rest = _ := hp.orest
    rw [hor]
    have := encodeVarI64_ne_nil (b.length : Int)
    cases hx : encodeVarI64 (b.length : Int) with
    | nil => exact absurd hx this
    | cons x xs => simp [fileBody, blockBytes, hx]
  rw [nextInner_succ]
  simp only [fillBuf_slice hos, hne, Bool.false_eq_true, if_false]
  rw [he]


theorem mu_pos {sync : Bytes} {r : Reader} {vals : List V} {bs : List (List V)}
    (hp : Pos enc sync r vals bs) : mu r = r.after.length := by
  simp [mu, hp.st]

theorem next_pos_cons {d : Decomp} {datum : RState → Except DeErr V × RState} {sync : Bytes}
    {r : Reader} {v : V} {vs : List V} {bs : List (List V)}
    (hd : DatumOk enc datum) (hp : Pos enc sync r (v :: vs) bs) :
    ∃ r1, next d datum r = (.ok (some v), r1) ∧ Pos enc sync r1 vs bs := by
  obtain ⟨r1, h1, hp1⟩ := nextInner_pos_cons enc (d := d) hd hp (r.outer.rest.length + 3)
  exact ⟨r1, by rw [next_eq_post d datum r hp.peof, h1]; rfl, hp1⟩

theorem next_pos_nil_nil {d : Decomp} (datum : RState → Except DeErr V × RState) {sync : Bytes}
    {r : Reader} (hn : d.isNull = true) (hsy : sync.length = 16) (hp : Pos enc sync r [] []) :
    ∃ r1, next d datum r = (.ok none, r1) := by
  obtain ⟨rn, hs, _, hstep⟩ := nextInner_pos_nil enc datum hn hsy hp
  refine ⟨rn, ?_⟩
  rw [next_eq_post d datum r hp.peof, hstep (r.outer.rest.length + 3),
    nextInner_start_nil enc datum hs (r.outer.rest.length + 2)]
  rfl

theorem next_pos_nil_cons {d : Decomp} (datum : RState → Except DeErr V × RState) {sync : Bytes}
    {r : Reader} {b : List V} {bs : List (List V)} (hn : d.isNull = true) (hsy : sync.length = 16)
    (hb : BlockOk enc b) (hp : Pos enc sync r [] (b :: bs)) :
    ∃ r2, Pos enc sync r2 b bs ∧ next d datum r = next d datum r2 := by
  obtain ⟨rn, hs, hl1, hstep1⟩ := nextInner_pos_nil enc datum hn hsy hp
  obtain ⟨r2, hp2, hl2, hstep2⟩ := nextInner_start_cons enc datum hn hb hs
  refine ⟨r2, hp2, ?_⟩
  rw [next_eq_post d datum r hp.peof, next_eq_post d datum r2 hp2.peof,
    hstep1 (r.outer.rest.length + 3), hstep2 (r.outer.rest.length + 2)]
  have hm := mu_pos enc hp2
  have h1 := hp.inv
  have h2 := hp2.inv
  rw [nextInner_fuel d datum (r.outer.rest.length + 2) (r2.outer.rest.length + 4) r2
    (by omega) (by omega)]

theorem next_start_nil {d : Decomp} (datum : RState → Except DeErr V × RState) {sync : Bytes}
    {r : Reader} (hp : Start enc sync r []) : next d datum r = (.ok none, r) := by
  rw [next_eq_post d datum r hp.peof, nextInner_start_nil enc datum hp (r.outer.rest.length + 3)]
  rfl

theorem next_start_cons {d : Decomp} (datum : RState → Except DeErr V × RState) {sync : Bytes}
    {r : Reader} {b : List V} {bs : List (List V)} (hn : d.isNull = true)
    (hb : BlockOk enc b) (hp : Start enc sync r (b :: bs)) :
    ∃ r2, Pos enc sync r2 b bs ∧ next d datum r = next d datum r2 := by
  obtain ⟨r2, hp2, hl2, hstep2⟩ := nextInner_start_cons enc datum hn hb hp
  refine ⟨r2, hp2, ?_⟩
  rw [next_eq_post d datum r hp.peof, next_eq_post d datum r2 hp2.peof,
    hstep2 (r.outer.rest.length + 3)]
  have hm := mu_pos enc hp2
  have h2 := hp2.inv
  rw [nextInner_fuel d datum (r.outer.rest.length + 3) (r2.outer.rest.length + 4) r2
    (by omega) (by omega)]

theorem readAll_congr {d : Decomp} {datum : RState → Except DeErr V × RState} {r r2 : Reader}
    (h : next d datum r = next d datum r2) (k : Nat) :
    readAll d datum (k + 1) r = readAll d datum (k + 1) r2 := by
  simp only [readAll, h]

theorem readAll_succ_some {d : Decomp} {datum : RState → Except DeErr V × RState} {r r' : Reader}
    {a : V} (h : next d datum r = (.ok (some a), r')) (k : Nat) :
    readAll d datum (k + 1) r = (a :: (readAll d datum k r').1, (readAll d datum k r').2) := by
  simp only [readAll, h]

/-- reading a valid sequence of blocks from inside a block yields exactly the values -/
theorem readAll_pos {d : Decomp} {datum : RState → Except DeErr V × RState} {sync : Bytes}
    (hn : d.isNull = true) (hsy : sync.length = 16) (hd : DatumOk enc datum) :
    ∀ (bs : List (List V)), (∀ b ∈ bs, BlockOk enc b) → ∀ (vals : List V) (r : Reader),
      Pos enc sync r vals bs →
      readAll d datum (vals.length + bs.flatten.length + 1) r = (vals ++ bs.flatten, .eos) := by
  intro bs
  induction bs with
  | nil =>
    intro _ vals
    induction vals with
    | nil =>
      intro r hp
      obtain ⟨r1, h1⟩ := next_pos_nil_nil enc datum hn hsy hp
      simp [readAll, h1]
    | cons v vs ihv =>
      intro r hp
      obtain ⟨r1, h1, hp1⟩ := next_pos_cons enc (d := d) hd hp
      have := ihv r1 hp1
      simp only [List.flatten_nil, List.length_nil, Nat.add_zero, List.append_nil] at this ⊢
      rw [List.length_cons, readAll_succ_some h1, this]
  | cons b bs ihb =>
    intro hbs vals
    have hb : BlockOk enc b := hbs b (by simp)
    have hbs' : ∀ b' ∈ bs, BlockOk enc b' := fun b' hb' => hbs b' (by simp [hb'])
    induction vals with
    | nil =>
      intro r hp
      obtain ⟨r2, hp2, heq⟩ := next_pos_nil_cons enc datum hn hsy hb hp
      have := ihb hbs' b r2 hp2
      rw [readAll_congr heq]
      simpa [Nat.add_assoc] using this
    | cons v vs ihv =>
      intro r hp
      obtain ⟨r1, h1, hp1⟩ := next_pos_cons enc (d := d) hd hp
      have := ihv r1 hp1
      have e : (v :: vs).length + (b :: bs).flatten.length + 1
          = (vs.length + (b :: bs).flatten.length + 1) + 1 := by simp; omega
      rw [e, readAll_succ_some h1, this]
      rfl

/-- **Round trip on the whole file** (null codec, slice back-end). -/
theorem readAll_valid {d : Decomp} {datum : RState → Except DeErr V × RState} {sync : Bytes}
    (hn : d.isNull = true) (hsy : sync.length = 16) (hd : DatumOk enc datum)
    (bs : List (List V)) (hbs : ∀ b ∈ bs, BlockOk enc b) (r : Reader) (hp : Start enc sync r bs) :
    readAll d datum (bs.flatten.length + 1) r = (bs.flatten, .eos) := by
  cases bs with
  | nil => simp [readAll, next_start_nil enc datum hp]
  | cons b bs =>
    have hb : BlockOk enc b := hbs b (by simp)
    have hbs' : ∀ b' ∈ bs, BlockOk enc b' := fun b' hb' => hbs b' (by simp [hb'])
    obtain ⟨r2, hp2, heq⟩ := next_start_cons enc datum hn hb hp
    rw [readAll_congr heq]
    have := readAll_pos enc hn hsy hd bs hbs' b r2 hp2
    simpa [Nat.add_assoc] using this


/-- a reader over a slice holding the file after its header -/
def openSlice (sync bytes : Bytes) : Reader := { sync := sync, outer := { rest := bytes } }

theorem TSim_open (sync f : Bytes) (m : Nat) :
    TSim (openSlice sync (f.take m)) (openSlice sync f) :=
  ⟨rfl, rfl, rfl, rfl, rfl, rfl, rfl, ⟨m, rfl⟩, ⟨0, rfl⟩⟩

/-- **C17 (truncation yields a prefix), for a source cut at byte `m`.** Slice back-end, any
    codec, any datum deserializer, any source `f`. -/
theorem C17_yields_prefix {α : Type} (d : Decomp) (datum : RState → Except DeErr α × RState)
    (sync f : Bytes) (m k : Nat) :
    (readAll d datum k (openSlice sync (f.take m))).1 <+: (readAll d datum k (openSlice sync f)).1 ∧
    ((readAll d datum k (openSlice sync f)).2 ≠ .more →
      (readAll d datum k (openSlice sync (f.take m))).2 ≠ .more) :=
  readAll_cut d datum k _ _ (TSim_open sync f m) (C17_inv_init _ rfl) (C17_inv_init _ rfl)

/-- the run never ends with a `.panic` (datum deserializer not panicking) -/
theorem readAll_no_panic {α : Type} (d : Decomp) (datum : RState → Except DeErr α × RState)
    (hd : ∀ s, (datum s).1 ≠ .error .panic) (k : Nat) :
    ∀ (r : Reader), RdInv r → (readAll d datum k r).2 ≠ .err .panic := by
  induction k with
  | zero => intro r _; simp [readAll]
  | succ k ih =>
    intro r hi
    have htot := C17_total d datum hd r hi
    have hinv := C17_inv_next d datum r hi
    simp only [readAll]
    generalize next d datum r = x at htot hinv
    obtain ⟨res, r'⟩ := x
    cases res with
    | error e =>
      simp only [ne_eq, End.err.injEq]
      intro he; subst he; exact htot rfl
    | ok oa =>
      cases oa with
      | none => simp
      | some a => exact ih r' hinv

/-- **C17 (a valid file cut at any byte offset), null codec on the slice back-end.**
    `blocks` are the lists of values of the successive blocks, `enc` the encoding of one value,
    `datum` any deserializer that decodes what `enc` wrote. Reading the first `m` bytes of the file
    body yields a prefix of the values written, then end of stream or an error (the budget of
    `N + 1` calls is not exhausted); and the whole file yields exactly the values, then end of
    stream. -/
theorem C17_yields_prefix_null (d : Decomp) (datum : RState → Except DeErr V × RState)
    (sync : Bytes) (hn : d.isNull = true) (hsy : sync.length = 16) (hd : DatumOk enc datum)
    (blocks : List (List V)) (hbs : ∀ b ∈ blocks, BlockOk enc b) (m : Nat) :
    (readAll d datum (blocks.flatten.length + 1)
        (openSlice sync ((fileBody enc sync blocks).take m))).1 <+: blocks.flatten ∧
    (readAll d datum (blocks.flatten.length + 1)
        (openSlice sync ((fileBody enc sync blocks).take m))).2 ≠ .more ∧
    ((fileBody enc sync blocks).length ≤ m →
      readAll d datum (blocks.flatten.length + 1)
        (openSlice sync ((fileBody enc sync blocks).take m)) = (blocks.flatten, .eos)) := by
  have hfull : readAll d datum (blocks.flatten.length + 1) (openSlice sync (fileBody enc sync blocks))
      = (blocks.flatten, .eos) :=
    readAll_valid enc hn hsy hd blocks hbs _ ⟨rfl, rfl, rfl, rfl, rfl, rfl⟩
  obtain ⟨h1, h2⟩ := C17_yields_prefix d datum sync (fileBody enc sync blocks) m
    (blocks.flatten.length + 1)
  rw [hfull] at h1 h2
  refine ⟨h1, h2 (by simp), fun hm => ?_⟩
  rw [List.take_of_length_le hm]
  exact hfull

/-- … and the error, if any, is not a panic -/
theorem C17_yields_prefix_null_no_panic (d : Decomp) (datum : RState → Except DeErr V × RState)
    (hdp : ∀ s, (datum s).1 ≠ .error .panic) (sync f : Bytes) (k : Nat) :
    (readAll d datum k (openSlice sync f)).2 ≠ .err .panic :=
  readAll_no_panic d datum hdp k _ (C17_inv_init _ rfl)

end Valid

/-- `DatumOk` is satisfiable: one-byte values -/
example : DatumOk (fun (b : UInt8) => [b])
    (fun s => match s.rest with
      | [] => (.error .custom, s)
      | b :: tl => (.ok b, { s with rest := tl })) := by
  intro s v y _ hr
  refine ⟨{ s with rest := y }, ?_, rfl, by assumption⟩
  simp [hr]

end Avro.Theorems
