import AvroModel.Theorems.C15
import AvroModel.Lemmas.OcfWriterGeneral
/-
C15, general case: `push_serialized(bytes, n)` with ANY count `n ≥ 0`.

`C15_run_finished` (`Theorems/C15.lean`) assumes that every `push_serialized` of the history counts
at least one object.  `push_serialized(bytes, 0)` with non-empty `bytes` is a caller error
(`writer/mod.rs`, doc comment of `push_serialized`: "`n_elements` is the number of elements that
were serialized in the provided slice"), but nothing in the code rejects it: the bytes go to the
block buffer, the count stays as it was (`WriterInner::push_serialized`, mod.rs:553-579).
This file removes the restriction and says exactly what happens.

WHAT REMAINS TRUE for every history (`C15_run_finished_general`, `C15_run_finished_general_parses`):
  * every call returns `Ok` (failing values: their serialization error), nothing is pending;
  * the sink holds the header followed by exactly the blocks of the abstract writer
    `arun approx {} (ops ++ [fin])` — the abstract transition `astep` was already defined for every
    count: a count-0 push contributes the entry `(bytes, 0)`;
  * every block written counts at least one object, its count is the SUM of the counts of its
    entries, its data the concatenation of their bytes; the sum of the block counts is the sum of
    all counts given by the caller;
  * the file PARSES under `Spec.Ocf.parse`: same metadata, same marker, those blocks, no trailing
    bytes, no bad marker.  The writer stays valid at the framing level.

WHAT IS LOST:
  (L1) the data of a block is no longer the concatenation of `count` datum encodings
       (`C15_zero_count_breaks_block_contents`, concrete: a block `count = 1`, data `[2, 4]`, i.e.
       two `long`s).  Exact condition for keeping it: every entry pushed is itself well counted
       (`C15_blocks_well_counted`; a count-0 push is well counted iff its bytes are empty,
       `C15_zero_count_well_counted_iff`).
  (L2) "after `finish_block` / `into_inner` / `Drop` everything accepted is in the file" fails:
       what stays in the buffer is exactly a list of count-0 entries (`AllZero a.buffered`), whose
       bytes are written only if a later call adds a counted entry to the same block, and are
       silently dropped with the writer otherwise (`C15_zero_count_bytes_dropped`).
       `hpush` of `C15_run_finished` is therefore necessary (`C15_run_finished_hpush_necessary`).

`C15_zero_count_empty_noop`: `push_serialized(&[], 0)` is the common prefix of `serialize` /
`push_serialized` and nothing else (any state, any sink); between two calls it changes nothing at
all, and erasing such calls from a history changes neither the other results nor the final state
(`C15_zero_count_empty_erasable`).

`C15_run_finished_of_general`: the statement of `C15_run_finished`, derived from the general theorem.
-/
namespace Avro.Theorems
open Avro Avro.Impl Avro.Impl.Ocf

/-! ### 1. The abstract writer after a finishing call, any counts -/

/-- After any history closed by `finish_block` / `into_inner` / `Drop`, counts of any size:
    the final abstract state is the history's state with the current block closed; the blocks
    written followed by the entries still buffered are exactly the entries accepted, in order;
    every block written counts at least one object; what is still buffered counts for nothing
    (count-0 pushes only). -/
theorem C15_arun_finished_general (approx : Nat) (ops : List WOp) (fin : WOp)
    (hfin : fin = .finishBlock ∨ fin = .intoInner ∨ fin = .drop) :
    let a := arun approx {} (ops ++ [fin])
    a = aseal (arun approx {} ops) ∧
      a.sealed.flatten ++ a.buffered = ops.flatMap entryOf ∧
      SealedPos a ∧ AllZero a.buffered := by
  intro a
  have ha : a = aseal (arun approx {} ops) := by
    show arun approx {} (ops ++ [fin]) = _
    rw [arun_snoc]
    rcases hfin with h | h | h <;> subst h <;> rfl
  have hlog : a.log = ops.flatMap entryOf := by
    rw [ha, aseal_log, arun_log]; simp [AState.log]
  refine ⟨ha, hlog, ?_, ?_⟩
  · exact arun_sealedPos approx {} _ (by intro b hb; simp at hb)
  · exact (cntOf_eq_zero_iff _).1 (by rw [ha]; exact aseal_cnt _)

/-- Accounting: the block counts add up to the counts given by the caller, the block data followed
    by the bytes still buffered are all the bytes given by the caller. -/
theorem C15_arun_finished_accounting (approx : Nat) (ops : List WOp) (fin : WOp)
    (hfin : fin = .finishBlock ∨ fin = .intoInner ∨ fin = .drop) :
    let a := arun approx {} (ops ++ [fin])
    ((a.sealed.map blockOf).map (·.1)).sum = cntOf (ops.flatMap entryOf) ∧
      ((a.sealed.map blockOf).map (·.2)).flatten ++ bufOf a.buffered
        = bufOf (ops.flatMap entryOf) := by
  intro a
  obtain ⟨_, hlog, _, hz⟩ := C15_arun_finished_general approx ops fin hfin
  have hz' : cntOf a.buffered = 0 := (cntOf_eq_zero_iff _).2 hz
  constructor
  · rw [← hlog, cntOf_append, hz', cntOf_flatten]
    simp only [blockOf, List.map_map, Function.comp_def, Nat.add_zero]
    rfl
  · rw [← hlog, bufOf_append, bufOf_flatten]
    simp only [blockOf, List.map_map, Function.comp_def]
    rfl

/-! ### 2. The writer model after a finishing call, any counts -/

/-- **C15, general case.**  A freshly built writer `w` (`Rep … {} w`: the header `hdr` is in the
    all-accepting sink, nothing else happened) is driven through ANY history `ops` of `serialize`
    (succeeding or failing), `push_serialized(bytes, n)` with any `n ≥ 0`, `finish_block`, `Drop`,
    closed by `fin ∈ {finish_block, into_inner, Drop}`.  Then
    * every call returned `Ok`, failing values their serialization error;
    * the sink holds `hdr` followed by the blocks of the abstract writer, one `(Σ counts, ++ bytes)`
      per sealed list of entries;
    * nothing is pending, the object counter is 0, and the buffer holds exactly the bytes of the
      entries the abstract writer still has buffered — all of them count-0 pushes;
    * blocks written ++ entries buffered = the entries accepted, in order; every block counts at
      least one object. -/
theorem C15_run_finished_general (c : Codec) (dbg : Bool) (hdr sync : Bytes) (approx : Nat)
    (ops : List WOp) (fin : WOp)
    (hops : ∀ op ∈ ops, op ≠ .intoInner)
    (hfin : fin = .finishBlock ∨ fin = .intoInner ∨ fin = .drop)
    (w : WState) (h0 : Rep c hdr sync approx {} w) :
    let a := arun approx {} (ops ++ [fin])
    let r := wrun c dbg w (ops ++ [fin])
    r.1 = (ops ++ [fin]).map expected ∧
      r.2.sink.data = hdr ++ blocksBytes c sync (a.sealed.map blockOf) ∧
      r.2.pending = none ∧ r.2.n = 0 ∧ r.2.buf = bufOf a.buffered ∧
      a.sealed.flatten ++ a.buffered = ops.flatMap entryOf ∧
      SealedPos a ∧ AllZero a.buffered := by
  intro a r
  obtain ⟨_, hlog, hpos, hz⟩ := C15_arun_finished_general approx ops fin hfin
  obtain ⟨h1, h2⟩ := wrun_rep c dbg hdr sync approx ops hops {} w h0
  have ha : a = astep approx (arun approx {} ops) fin := arun_snoc approx {} ops fin
  have key : ∃ w', Rep c hdr sync approx a w' ∧ r.1 = (ops ++ [fin]).map expected ∧
      r.2.sink.data = w'.sink.data ∧ r.2.pending = w'.pending ∧ r.2.n = w'.n ∧
      r.2.buf = w'.buf := by
    show ∃ w', _ ∧ (wrun c dbg w (ops ++ [fin])).1 = _ ∧ (wrun c dbg w (ops ++ [fin])).2.sink.data = _ ∧
      (wrun c dbg w (ops ++ [fin])).2.pending = _ ∧ (wrun c dbg w (ops ++ [fin])).2.n = _ ∧
      (wrun c dbg w (ops ++ [fin])).2.buf = _
    rw [wrun_append_singleton, ha]
    by_cases hi : fin = .intoInner
    · subst hi
      obtain ⟨w', hw, hrep⟩ := wstep_intoInner_rep c dbg hdr sync approx _ _ h2
      rw [hw]
      exact ⟨w', hrep, by simp [h1, expected], rfl, rfl, rfl, rfl⟩
    · obtain ⟨w', hw, hrep⟩ := wstep_rep c dbg hdr sync approx _ _ fin hi h2
      rw [hw]
      refine ⟨w', hrep, ?_, rfl, rfl, rfl, rfl⟩
      rcases hfin with h | h | h <;> subst h <;> simp [h1, expected]
  obtain ⟨w', hrep, hr1, hr2, hr3, hr4, hr5⟩ := key
  refine ⟨hr1, ?_, ?_, ?_, ?_, hlog, hpos, hz⟩
  · rw [hr2, hrep.inv.sink_eq, hrep.sync_eq]
  · rw [hr3, hrep.inv.pending_none]
  · rw [hr4, hrep.n_eq]; exact (cntOf_eq_zero_iff _).2 hz
  · rw [hr5, hrep.buf_eq]

/-- **… and the sink still parses as a complete container file**, whatever the counts given to
    `push_serialized`: the independent parser of the specification reads the metadata, the marker,
    exactly the blocks of the abstract writer — count: the sum of the counts of the block's
    entries; data: what the codec stores for the concatenation of their bytes —, no trailing
    bytes, no bad marker.

    Hypotheses: `hmeta`, `hsync` describe the header (see `C15_header_parses`); `hb` is the range
    of the two `long`s of a block header (`n_elements_in_block as i64`, the data length): see
    `C15_general_count_bound_necessary` for what happens beyond. -/
theorem C15_run_finished_general_parses (c : Codec) (dbg : Bool) (metaBytes sync : Bytes)
    (md : List (Bytes × Bytes)) (approx : Nat) (ops : List WOp) (fin : WOp)
    (hops : ∀ op ∈ ops, op ≠ .intoInner)
    (hfin : fin = .finishBlock ∨ fin = .intoInner ∨ fin = .drop)
    (w : WState) (h0 : Rep c (Spec.Ocf.magic ++ metaBytes ++ sync) sync approx {} w)
    (hmeta : MetaParses metaBytes md) (hsync : sync.length = 16)
    (hb : ∀ b ∈ (arun approx {} (ops ++ [fin])).sealed,
      cntOf b < 2 ^ 63 ∧ (codecData c (bufOf b)).length < 2 ^ 63) :
    let a := arun approx {} (ops ++ [fin])
    Spec.Ocf.parse (wrun c dbg w (ops ++ [fin])).2.sink.data =
      some { metadata := md, sync := sync,
             blocks := a.sealed.map (fun b => { count := cntOf b, data := codecData c (bufOf b) }),
             trailing := 0, badSync := false } := by
  intro a
  obtain ⟨_, hs, _⟩ := C15_run_finished_general c dbg _ sync approx ops fin hops hfin w h0
  rw [hs, parse_file c metaBytes sync md (a.sealed.map blockOf) hmeta hsync]
  · simp [blockOf, List.map_map, Function.comp_def]
  · intro b hb'
    simp only [List.mem_map] at hb'
    obtain ⟨es, hes, rfl⟩ := hb'
    exact hb es hes

/-- The same with bounds on the history instead of on the blocks, null codec: the counts given
    by the caller add up to less than `2^63` and so do the lengths of the bytes accepted. -/
theorem C15_run_finished_general_parses_null (c : Codec) (hc : c.isNull = true) (dbg : Bool)
    (metaBytes sync : Bytes)
    (md : List (Bytes × Bytes)) (approx : Nat) (ops : List WOp) (fin : WOp)
    (hops : ∀ op ∈ ops, op ≠ .intoInner)
    (hfin : fin = .finishBlock ∨ fin = .intoInner ∨ fin = .drop)
    (w : WState) (h0 : Rep c (Spec.Ocf.magic ++ metaBytes ++ sync) sync approx {} w)
    (hmeta : MetaParses metaBytes md) (hsync : sync.length = 16)
    (hcnt : cntOf (ops.flatMap entryOf) < 2 ^ 63)
    (hlen : (bufOf (ops.flatMap entryOf)).length < 2 ^ 63) :
    let a := arun approx {} (ops ++ [fin])
    Spec.Ocf.parse (wrun c dbg w (ops ++ [fin])).2.sink.data =
      some { metadata := md, sync := sync,
             blocks := a.sealed.map (fun b => { count := cntOf b, data := bufOf b }),
             trailing := 0, badSync := false } := by
  intro a
  obtain ⟨_, hlog, _, _⟩ := C15_arun_finished_general approx ops fin hfin
  have hcd : ∀ d, codecData c d = d := fun d => by simp [codecData, hc]
  have := C15_run_finished_general_parses c dbg metaBytes sync md approx ops fin hops hfin w h0
    hmeta hsync (by
      intro b hb
      have h1 := cntOf_le_of_mem_flatten _ b hb
      have h2 := bufOf_length_le_of_mem_flatten _ b hb
      have h3 : cntOf (arun approx {} (ops ++ [fin])).sealed.flatten ≤ cntOf (ops.flatMap entryOf) := by
        rw [← hlog, cntOf_append]; omega
      have h4 : (bufOf (arun approx {} (ops ++ [fin])).sealed.flatten).length
          ≤ (bufOf (ops.flatMap entryOf)).length := by
        rw [← hlog, bufOf_append, List.length_append]; omega
      rw [hcd]
      omega)
  simpa only [hcd] using this

/-! ### 3. `C15_run_finished` is the special case `n ≥ 1` -/

/-- The statement of `C15_run_finished`, obtained from the general theorem: if every
    `push_serialized` counted at least one object, "what is still buffered counts for nothing"
    means that nothing is buffered. -/
theorem C15_run_finished_of_general (approx : Nat) (ops : List WOp) (fin : WOp)
    (hfin : fin = .finishBlock ∨ fin = .intoInner ∨ fin = .drop)
    (hpush : ∀ b k, WOp.push b k ∈ ops → 1 ≤ k) :
    let a := arun approx {} (ops ++ [fin])
    a.buffered = [] ∧ a.sealed.flatten = ops.flatMap entryOf := by
  intro a
  obtain ⟨_, hlog, _, hz⟩ := C15_arun_finished_general approx ops fin hfin
  have hnil : a.buffered = [] := by
    cases hbuf : a.buffered with
    | nil => rfl
    | cons e es =>
      exfalso
      have hmem : e ∈ ops.flatMap entryOf := by
        rw [← hlog]; exact List.mem_append_right _ (by rw [hbuf]; simp)
      have he0 : e.2 = 0 := hz e (by rw [hbuf]; simp)
      simp only [List.mem_flatMap] at hmem
      obtain ⟨op, hop, he⟩ := hmem
      cases op with
      | value d =>
        cases d with
        | none => simp [entryOf] at he
        | some d => simp only [entryOf, List.mem_singleton] at he; subst he; simp at he0
      | push b k =>
        simp only [entryOf, List.mem_singleton] at he; subst he
        have := hpush b k hop
        simp only at he0
        omega
      | finishBlock => simp [entryOf] at he
      | intoInner => simp [entryOf] at he
      | drop => simp [entryOf] at he
  refine ⟨hnil, ?_⟩
  rw [← hlog, hnil, List.append_nil]

/-- The existing theorem and the corollary have literally the same statement (the equation
    type-checks only because the two types coincide; it holds by proof irrelevance). -/
example : @C15_run_finished = @C15_run_finished_of_general := rfl

/-! ### 4. What is lost -/

section Lost
variable {V : Type} (enc : V → Bytes)

/-- (L1), the positive side: after ANY history (finished or not), if every entry accepted is well
    counted — its bytes are the concatenation of the encodings of as many values as its count —
    then so is every block written: its data is the concatenation of `count` encodings.  A value
    serialized by the writer itself is one encoding with count 1; the condition is on the
    `push_serialized` calls. -/
theorem C15_blocks_well_counted (approx : Nat) (ops : List WOp)
    (h : ∀ e ∈ ops.flatMap entryOf, IsConcat enc e.1 e.2) :
    ∀ b ∈ (arun approx {} ops).sealed, IsConcat enc (blockOf b).2 (blockOf b).1 := by
  intro b hb
  apply isConcat_entries
  intro e he
  apply h
  have := mem_sealed_sublist_log _ b hb e he
  rw [arun_log] at this
  simpa [AState.log] using this

/-- A count-0 push is well counted exactly when it pushes nothing. -/
theorem C15_zero_count_well_counted_iff (bytes : Bytes) :
    (∀ e ∈ entryOf (.push bytes 0), IsConcat enc e.1 e.2) ↔ bytes = [] := by
  simp [entryOf, isConcat_zero_iff]

end Lost

/-- No single `long` is encoded as `[2, 4]` (these are the two `long`s 1 and 2). -/
theorem not_isConcat_long_2_4 : ¬ IsConcat Spec.encodeLong [2, 4] 1 := by
  rintro ⟨vs, h1, h2⟩
  match vs, h1 with
  | [v], _ =>
    simp only [List.map_cons, List.map_nil, List.flatten_cons, List.flatten_nil,
      List.append_nil] at h2
    have h3 := Spec.decodeNat_encodeNat (Spec.zigzag v) []
    rw [List.append_nil] at h3
    unfold Spec.encodeLong at h2
    rw [← h2] at h3
    simp [Spec.decodeNat] at h3

theorem encodeLong_one : Spec.encodeLong 1 = [2] := by
  simp [Spec.encodeLong, Spec.zigzag, Spec.encodeNat]

theorem encodeLong_two : Spec.encodeLong 2 = [4] := by
  simp [Spec.encodeLong, Spec.zigzag, Spec.encodeNat]

/-- (L1), concretely (schema `"long"`, block size 100): `push_serialized(&[2], 0)` — the encoding
    of the `long` 1, given with the wrong count 0 — then `serialize(2i64)` (one byte, `[4]`), then
    `finish_block`.  One block is written; its header says 1 object, its data `[2, 4]` holds two:
    the data of the block is NOT the concatenation of `count` datum encodings, although the file
    parses (`C15_zero_count_example_parses`). -/
theorem C15_zero_count_breaks_block_contents :
    let a := arun 100 {}
      ([.push (Spec.encodeLong 1) 0, .value (some (Spec.encodeLong 2))] ++ [.finishBlock])
    a.sealed.map blockOf = [(1, [2, 4])] ∧ a.buffered = [] ∧
      ¬ IsConcat Spec.encodeLong (1, ([2, 4] : Bytes)).2 (1, ([2, 4] : Bytes)).1 ∧
      IsConcat Spec.encodeLong [2, 4] 2 := by
  rw [encodeLong_one, encodeLong_two]
  refine ⟨by decide, by decide, not_isConcat_long_2_4,
    ⟨[1, 2], rfl, by simp [encodeLong_one, encodeLong_two]⟩⟩

/-- (L2), concretely: `push_serialized(&[7], 0)` then `Drop` (or `finish_block`, or `into_inner`).
    No block is written, the call returned `Ok`, and the byte stays in the buffer: it is dropped
    with the writer.  In particular the conclusion of `C15_run_finished` fails: its hypothesis
    `hpush` is necessary. -/
theorem C15_run_finished_hpush_necessary (approx : Nat) (fin : WOp)
    (hfin : fin = .finishBlock ∨ fin = .intoInner ∨ fin = .drop) :
    let ops : List WOp := [.push [7] 0]
    let a := arun approx {} (ops ++ [fin])
    a.sealed = [] ∧ a.buffered = [([7], 0)] ∧
      ¬ (a.buffered = [] ∧ a.sealed.flatten = ops.flatMap entryOf) := by
  intro ops a
  have ha : a = { sealed := [], buffered := [([7], 0)] } := by
    show arun approx {} ([WOp.push [7] 0] ++ [fin]) = _
    rcases hfin with h | h | h <;> subst h <;>
      simp [arun, astep, asealIf, aseal, aadd, cntOf, bufOf]
  rw [ha]
  simp

/-- (L2) on the writer model: after `push_serialized(&[7], 0)` and `Drop` on a fresh writer,
    the sink holds the header only and the byte is still in the buffer. -/
theorem C15_zero_count_bytes_dropped (c : Codec) (dbg : Bool) (hdr sync : Bytes) (approx : Nat)
    (w : WState) (h0 : Rep c hdr sync approx {} w) :
    (wrun c dbg w ([.push [7] 0] ++ [.drop])).1 = [.ok (), .ok ()] ∧
      (wrun c dbg w ([.push [7] 0] ++ [.drop])).2.sink.data = hdr ∧
      (wrun c dbg w ([.push [7] 0] ++ [.drop])).2.buf = [7] ∧
      (wrun c dbg w ([.push [7] 0] ++ [.drop])).2.n = 0 := by
  obtain ⟨h1, h2, _, h4, h5, _⟩ := C15_run_finished_general c dbg hdr sync approx [.push [7] 0] .drop
    (by simp) (by simp) w h0
  obtain ⟨hs, hb, _⟩ := C15_run_finished_hpush_necessary approx .drop (by simp)
  refine ⟨by simpa [expected] using h1, ?_, ?_, h4⟩
  · rw [h2, hs]; simp [blocksBytes]
  · rw [h5, hb]; rfl

/-! ### 5. `push_serialized(&[], 0)` -/

/-- After the common prefix of `serialize` / `push_serialized` has succeeded, the rest of the call
    has nothing to do if nothing was added. -/
theorem postAdd_after_preFlush (c : Codec) (w w₁ : WState) (h : preFlush c w = (.ok (), w₁)) :
    postAdd c w₁ = (.ok (), w₁) := by
  have hflush : ∀ (x y : WState), flushFinishedBlock c x = (.ok (), y) → y.pending = none :=
    fun x y hx => (flushFinishedBlock_ok c x y hx).1
  have hflush' : ∀ (x y : WState), flushFinishedBlock c x = (.ok (), y) →
      (y.buf = [] ∧ y.n = x.n) ∨ y = x :=
    fun x y hx => (flushFinishedBlock_ok c x y hx).2
  -- after a successful `finish_block`, no object is counted
  have hfin : ∀ (x y : WState), finishBlock c x = (.ok (), y) → y.pending = none ∧ y.n = 0 := by
    intro x y hx
    unfold finishBlock at hx
    cases hi : innerFinishBlock c x with
    | mk r x' =>
      rw [hi] at hx
      cases r with
      | error e => simp at hx
      | ok u =>
        simp only at hx
        refine ⟨hflush x' y hx, ?_⟩
        have hn : x'.n = 0 := by
          unfold innerFinishBlock at hi
          split at hi
          · split at hi
            · simp at hi
            · simp only [Prod.mk.injEq, true_and] at hi; subst hi; rfl
          · simp only [Prod.mk.injEq, true_and] at hi; subst hi; omega
        rcases hflush' x' y hx with ⟨_, h2⟩ | h2
        · rw [h2, hn]
        · rw [h2, hn]
  have hpn : w₁.pending = none ∧ (w₁.buf.length ≥ w₁.approx → w₁.n = 0) := by
    unfold preFlush at h
    cases hf : flushFinishedBlock c w with
    | mk r x =>
      rw [hf] at h
      cases r with
      | error e => simp at h
      | ok u =>
        simp only at h
        split at h
        · have := hfin x w₁ h
          exact ⟨this.1, fun _ => this.2⟩
        · rename_i hlt
          simp only [Prod.mk.injEq, true_and] at h
          subst h
          exact ⟨hflush w x hf, fun hge => absurd hge hlt⟩
  obtain ⟨hp, hq⟩ := hpn
  unfold postAdd
  by_cases hge : w₁.buf.length ≥ w₁.approx
  · have hn : ¬ (w₁.n > 0) := by have := hq hge; omega
    simp only [hge, if_true, innerFinishBlock, hn, if_false, flushFinishedBlock, hp]
  · simp only [hge, if_false, flushFinishedBlock, hp]

/-- **`push_serialized(&[], 0)` changes nothing observable.**  In ANY state, with ANY sink: the
    call runs the prefix common to `serialize` and `push_serialized` (flush a block left pending by
    an earlier failed write, close the current block if it is already large enough) and nothing
    else: it ends in exactly the state a failing `serialize` ends in
    (`C15_failed_value_invisible`), and returns `Ok` where that one returns its error. -/
theorem C15_zero_count_empty_noop (c : Codec) (dbg : Bool) (w : WState) :
    wstep c dbg w (.push [] 0) =
      match preFlush c w with
      | (.error e, w₁) => (.error e, w₁)
      | (.ok _, w₁) => (.ok (), w₁) := by
  simp only [wstep, withValue_eq]
  cases h : preFlush c w with
  | mk r w₁ =>
    cases r with
    | error e => rfl
    | ok u =>
      simp only [List.append_nil, Nat.add_zero]
      exact postAdd_after_preFlush c w w₁ h

/-- … in particular its state is that of a failing value, whatever happened before. -/
theorem C15_zero_count_empty_as_failed_value (c : Codec) (dbg : Bool) (w : WState) :
    (wstep c dbg w (.push [] 0)).2 = (wstep c dbg w (.value none)).2 := by
  rw [C15_zero_count_empty_noop, C15_failed_value_invisible]
  cases preFlush c w with
  | mk r w₁ => cases r <;> rfl

/-- Between two calls (nothing pending, the buffer below the block size or counting nothing —
    which is the case after every call, `astep_quiet`) it changes nothing at all: same buffer,
    same count, same sink, not a single write call. -/
theorem C15_zero_count_empty_noop_quiet (c : Codec) (dbg : Bool) (w : WState)
    (hp : w.pending = none) (hq : w.buf.length ≥ w.approx → w.n = 0) :
    wstep c dbg w (.push [] 0) = (.ok (), w) := by
  have hpre : preFlush c w = (.ok (), w) := by
    unfold preFlush
    simp only [flushFinishedBlock, hp]
    split
    · rename_i hge
      have hn : ¬ (w.n > 0) := by have := hq hge; omega
      simp only [finishBlock, innerFinishBlock, hn, if_false, flushFinishedBlock, hp]
    · rfl
  rw [C15_zero_count_empty_noop, hpre]

/-- The abstract writer: the entry `([], 0)` is appended to the buffered entries, nothing is
    closed; the buffer's bytes and count are unchanged. -/
theorem C15_zero_count_empty_astep (approx : Nat) (a : AState) (hq : Quiet approx a) :
    astep approx a (.push [] 0) = { a with buffered := a.buffered ++ [([], 0)] } ∧
      bufOf (a.buffered ++ [([], 0)]) = bufOf a.buffered ∧
      cntOf (a.buffered ++ [([], 0)]) = cntOf a.buffered := by
  have hb : bufOf (a.buffered ++ [([], 0)]) = bufOf a.buffered := by simp [bufOf_snoc]
  have hc : cntOf (a.buffered ++ [([], 0)]) = cntOf a.buffered := by simp [cntOf_snoc]
  refine ⟨?_, hb, hc⟩
  have hq' : Quiet approx (aadd a ([], 0)) := by
    unfold Quiet aadd
    simp only [hb, hc]
    exact hq
  simp only [astep, asealIf_of_quiet approx a hq, asealIf_of_quiet approx _ hq']
  rfl

/-- the call `push_serialized(&[], 0)` -/
def isEmptyPush : WOp → Bool
  | .push [] 0 => true
  | _ => false

theorem isEmptyPush_iff (op : WOp) : isEmptyPush op = true ↔ op = .push [] 0 := by
  unfold isEmptyPush
  split
  · simp
  · rename_i h
    constructor
    · intro h'; cases h'
    · intro h'; exact absurd h' (h)

/-- remove the calls `push_serialized(&[], 0)` from a history -/
def eraseEmptyPushes (ops : List WOp) : List WOp := ops.filter fun op => !isEmptyPush op

/-- **Erasing.**  On a freshly built writer (all-accepting sink), the calls
    `push_serialized(&[], 0)` can be erased from any history: the final state of the writer — sink,
    buffer, count, everything — is the same. -/
theorem C15_zero_count_empty_erasable (c : Codec) (dbg : Bool) (hdr sync : Bytes) (approx : Nat)
    (ops : List WOp) (hops : ∀ op ∈ ops, op ≠ .intoInner) (w : WState)
    (h0 : Rep c hdr sync approx {} w) :
    (wrun c dbg w (eraseEmptyPushes ops)).2 = (wrun c dbg w ops).2 := by
  suffices key : ∀ (ops : List WOp) (a : AState) (w : WState), (∀ op ∈ ops, op ≠ .intoInner) →
      Rep c hdr sync approx a w → Quiet approx a →
      (wrun c dbg w (eraseEmptyPushes ops)).2 = (wrun c dbg w ops).2 from
    key ops {} w hops h0 (quiet_init approx)
  intro ops
  induction ops with
  | nil => intros; rfl
  | cons op ops ih =>
    intro a w hops hrep hq
    have hops' : ∀ o ∈ ops, o ≠ .intoInner := fun o ho => hops o (List.mem_cons_of_mem _ ho)
    obtain ⟨w', hw, hrep'⟩ := wstep_rep c dbg hdr sync approx a w op (hops op (by simp)) hrep
    have hq' : Quiet approx (astep approx a op) := astep_quiet approx a op
    cases he : isEmptyPush op with
    | true =>
      have := (isEmptyPush_iff op).1 he
      subst this
      have hnoop : wstep c dbg w (.push [] 0) = (.ok (), w) :=
        C15_zero_count_empty_noop_quiet c dbg w hrep.inv.pending_none (by
          rw [hrep.buf_eq, hrep.approx_eq, hrep.n_eq]; exact hq)
      have her : eraseEmptyPushes (WOp.push [] 0 :: ops) = eraseEmptyPushes ops := by
        simp [eraseEmptyPushes, isEmptyPush]
      rw [her, wrun_cons, hnoop]
      exact ih a w hops' hrep hq
    | false =>
      have her : eraseEmptyPushes (op :: ops) = op :: eraseEmptyPushes ops := by
        simp [eraseEmptyPushes, he]
      rw [her, wrun_cons, wrun_cons, hw]
      exact ih _ w' hops' hrep' hq'

/-! ### 6. Concrete instances, and the range of the count -/

/-- A freshly built writer satisfies the hypothesis `Rep … {} w` of the theorems above. -/
theorem C15_rep_fresh (c : Codec) (hdr sync : Bytes) (approx : Nat) :
    Rep c hdr sync approx {} { sync := sync, approx := approx, sink := { data := hdr } } :=
  ⟨⟨rfl, by simp, by simp [blocksBytes]⟩, rfl, rfl, rfl, rfl, rfl⟩

namespace C15Ex

def nullCodec : Codec := { name := "null", compress := id, isNull := true }
def sync : Bytes := [1, 2, 3, 4, 5, 6, 7, 8, 9, 10, 11, 12, 13, 14, 15, 16]
def schemaJson : Bytes := "\"long\"".toUTF8.data.toList
def codecName : Bytes := "null".toUTF8.data.toList
def entries : List (Bytes × Bytes) :=
  [("avro.schema".toUTF8.data.toList, schemaJson), ("avro.codec".toUTF8.data.toList, codecName)]
def hdr : Bytes := headerBytes schemaJson codecName [] sync
def w0 : WState := { sync := sync, approx := 100, sink := { data := hdr } }
/-- `push_serialized(&[2], 0)` (wrong count), `serialize(2i64)`, a failing value -/
def ops : List WOp := [.push [2] 0, .value (some [4]), .value none]

theorem hdr_eq : hdr = Spec.Ocf.magic ++ metaBytesOf entries ++ sync ∧
    MetaParses (metaBytesOf entries) entries :=
  C15_header_parses schemaJson codecName [] sync (by decide) (by decide) (by simp)

theorem rep0 : Rep nullCodec (Spec.Ocf.magic ++ metaBytesOf entries ++ sync) sync 100 {} w0 := by
  rw [← hdr_eq.1]
  exact C15_rep_fresh nullCodec hdr sync 100

theorem arun_ops : arun 100 {} (ops ++ [.finishBlock]) =
    { sealed := [[([2], 0), ([4], 1)]], buffered := [] } := by
  simp [ops, arun, astep, asealIf, aseal, aadd, cntOf, bufOf]

end C15Ex

open C15Ex in
/-- Non-vacuity of `C15_run_finished_general` and `C15_run_finished_general_parses`, on the
    history of (L1): a real header (schema `"long"`, null codec), `push_serialized(&[2], 0)`,
    `serialize(2)`, a failing value, `finish_block`.  The calls return `Ok, Ok, Err, Ok`; the sink
    is the header followed by ONE block `02 04 02 04 <marker>` (count 1, size 2, data `02 04`);
    the specification parser reads a complete file with that block. -/
theorem C15_zero_count_example_parses :
    (wrun nullCodec false w0 (ops ++ [.finishBlock])).1 = [.ok (), .ok (), .error .custom, .ok ()] ∧
    (wrun nullCodec false w0 (ops ++ [.finishBlock])).2.sink.data
      = hdr ++ ([2, 4, 2, 4] ++ C15Ex.sync) ∧
    (wrun nullCodec false w0 (ops ++ [.finishBlock])).2.buf = [] ∧
    Spec.Ocf.parse (wrun nullCodec false w0 (ops ++ [.finishBlock])).2.sink.data =
      some { metadata := entries, sync := C15Ex.sync, blocks := [{ count := 1, data := [2, 4] }],
             trailing := 0, badSync := false } := by
  have hops : ∀ op ∈ ops, op ≠ .intoInner := by simp [ops]
  obtain ⟨h1, h2, _, _, h5, _⟩ := C15_run_finished_general nullCodec false _ C15Ex.sync 100 ops
    .finishBlock hops (by simp) w0 rep0
  have h6 := C15_run_finished_general_parses nullCodec false (metaBytesOf entries) C15Ex.sync
    entries 100 ops .finishBlock hops (by simp) w0 rep0 hdr_eq.2 rfl (by
      rw [arun_ops]
      intro b hb
      simp only [List.mem_singleton] at hb
      subst hb
      simp [cntOf, bufOf, codecData, nullCodec])
  rw [arun_ops] at h2 h5 h6
  refine ⟨by simpa [ops, expected] using h1, ?_, h5, ?_⟩
  · rw [h2, ← hdr_eq.1]
    have e1 : encodeVarI64 1 = [2] := by
      rw [encodeVarI64_eq_spec 1 (by decide)]; exact encodeLong_one
    have e2 : encodeVarI64 2 = [4] := by
      rw [encodeVarI64_eq_spec 2 (by decide)]; exact encodeLong_two
    simp [blocksBytes, blockBytes, blockOf, cntOf, bufOf, codecData, nullCodec, e1, e2]
  · rw [h6]
    simp [cntOf, bufOf, codecData, nullCodec]

/-- **The range hypothesis on the counts is necessary.**  `n_elements_in_block` is a `u64` written
    as `n_elements_in_block as i64` (mod.rs:591-594): `push_serialized(&[2], 2^63)` then
    `finish_block` writes a block whose count field is the `long` `-2^63`.  All calls return `Ok`,
    but the sink is NOT a complete container file: the specification parser reads no block and
    sees the whole block as trailing bytes. -/
theorem C15_general_count_bound_necessary (c : Codec) (dbg : Bool) (metaBytes sync : Bytes)
    (md : List (Bytes × Bytes)) (approx : Nat) (w : WState)
    (h0 : Rep c (Spec.Ocf.magic ++ metaBytes ++ sync) sync approx {} w)
    (hmeta : MetaParses metaBytes md) (hsync : sync.length = 16) :
    (wrun c dbg w ([.push [2] (2 ^ 63)] ++ [.finishBlock])).1 = [.ok (), .ok ()] ∧
    Spec.Ocf.parse (wrun c dbg w ([.push [2] (2 ^ 63)] ++ [.finishBlock])).2.sink.data =
      some { metadata := md, sync := sync, blocks := [],
             trailing := (blockBytes c sync (2 ^ 63, [2])).length, badSync := false } ∧
    0 < (blockBytes c sync (2 ^ 63, [2])).length := by
  obtain ⟨h1, h2, _⟩ := C15_run_finished_general c dbg _ sync approx [.push [2] (2 ^ 63)]
    .finishBlock (by simp) (by simp) w h0
  have ha : (arun approx {} ([WOp.push [2] (2 ^ 63)] ++ [.finishBlock])).sealed.map blockOf
      = [(2 ^ 63, [2])] := by
    simp [arun, astep, asealIf, aseal, aadd, cntOf, bufOf, blockOf]
    split <;> simp
  rw [ha] at h2
  refine ⟨by simpa [expected] using h1, ?_, ?_⟩
  · rw [h2, parse_header_append metaBytes sync md _ hmeta hsync]
    have hb : blocksBytes c sync [(2 ^ 63, [2])] =
        Spec.encodeLong (-9223372036854775808) ++
          (encodeVarI64 (codecData c [2]).length ++ codecData c [2] ++ sync) := by
      simp only [blocksBytes, List.map_cons, List.map_nil, List.flatten_cons, List.flatten_nil,
        List.append_nil, blockBytes, encodeVarI64_two_pow_63, List.append_assoc]
    have hlen : (blockBytes c sync (2 ^ 63, [2])).length = (blocksBytes c sync [(2 ^ 63, [2])]).length := by
      simp [blocksBytes]
    rw [hlen, hb, parseBlocks_negative_count sync _ (by unfold Spec.InI64; omega) (by omega)]
  · simp only [blockBytes, List.length_append, hsync]; omega

end Avro.Theorems
